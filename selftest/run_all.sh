#!/bin/bash
# selftest/run_all.sh [id ...]   runs every seeded change (or the given ones) against its target properties.
# Results go to selftest/results/<id>.txt.  Do not edit this script or try_patch.sh while it runs.
cd /verif
mkdir -p selftest/results
ids=("$@")
while read -r id props; do
  case "$id" in ''|\#*) continue;; esac
  if [ ${#ids[@]} -gt 0 ] && [[ ! " ${ids[*]} " =~ " $id " ]]; then continue; fi
  echo "=== $id -> $props"
  selftest/try_patch.sh seeded/$id/patch.diff $props 2>&1 | tee selftest/results/$id.txt
done < selftest/targets.txt
