#!/bin/bash
# selftest/try_patch.sh <patch.diff> <prop> [<prop> ...]
# applies a seeded change to /repo, runs the quick checks of the given properties, prints one line per
# property (DETECTED with the first VIOLATION line / MISSED), and always restores /repo and the generated tables.
set -u
patch=$(readlink -f "$1"); shift
cd /repo || exit 2
if ! git diff --quiet; then echo "/repo has uncommitted changes"; exit 2; fi
if ! git apply --check "$patch" 2>/dev/null; then echo "patch does not apply: $patch"; exit 2; fi
git apply "$patch"
cd /verif
# evidence and generated tables written while /repo is changed are scratch: keep the ones of the clean tree
saved=$(mktemp -d /tmp/selftest_saved.XXXXXX)
cp -r evidence "$saved/evidence"; cp -r lean/AnyVecModel/Gen "$saved/Gen"
for p in "$@"; do
  out=$(VERIF_NOSHRINK=1 bin/check "$p" --tier quick 2>&1); rc=$?
  v=$(echo "$out" | grep -m1 "^VIOLATION")
  d=$(echo "$out" | grep -A1 -m1 "^VIOLATION" | tail -1 | cut -c1-220)
  if [ $rc -eq 1 ] && [ -n "$v" ]; then echo "$p DETECTED rc=$rc :: $v :: $d";
  elif [ $rc -eq 0 ]; then echo "$p MISSED rc=0 :: $(echo "$out" | tail -1)";
  else echo "$p ERROR rc=$rc :: $(echo "$out" | tail -3 | tr '\n' ' ' | cut -c1-300)"; fi
done
git -C /repo checkout -- . 
rm -rf evidence lean/AnyVecModel/Gen; cp -r "$saved/evidence" evidence; cp -r "$saved/Gen" lean/AnyVecModel/Gen; rm -rf "$saved"
rm -rf /verif/replays
