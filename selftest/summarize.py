#!/usr/bin/env python3
"""reads selftest/results/<id>.txt, fills seeded/<id>/meta.json (detected_by / missed_by), prints the DESIGN.md table"""
import os, re, json, glob
root = os.path.dirname(os.path.dirname(os.path.abspath(__file__)))
rows = []
for f in sorted(glob.glob(os.path.join(root, "selftest", "results", "*.txt"))):
    sid = os.path.basename(f)[:-4]
    det = []; miss = []; err = []
    for ln in open(f):
        m = re.match(r"(C\d\d) (DETECTED|MISSED|ERROR)(.*)", ln)
        if not m: continue
        p, verdict, rest = m.groups()
        if verdict == "DETECTED":
            k = re.search(r"replay=\S*/([a-z\-_A-Za-z0-9]+?)(-[0-9a-f]{10})?\.txt( no-failing-input-found)?", rest)
            kind = k.group(1) if k else "?"
            nf = " (correspondence only)" if (k and k.group(3)) else ""
            what = rest.split("::")[-1].strip()[:140]
            det.append({"property": p, "kind": kind + nf, "first_report": what})
        elif verdict == "MISSED": miss.append(p)
        else: err.append(p)
    d = os.path.join(root, "seeded", sid)
    mp = os.path.join(d, "meta.json")
    meta = json.load(open(mp)) if os.path.exists(mp) else {"id": sid}
    if sid.startswith("R") and os.path.exists(os.path.join(d, "origin.txt")):
        meta.setdefault("breaks_property", None)
        meta["change"] = "reverse of " + open(os.path.join(d, "origin.txt")).read().strip()
        meta["author"] = "reverse of a repair commit (the defect was found by the machinery on the original tree)"
    meta["detected_by"] = det
    meta["not_detected_by"] = miss
    meta["ran"] = "selftest/try_patch.sh seeded/%s/patch.diff <properties>: git -C /repo apply, bin/check <P> --tier quick (VERIF_NOSHRINK=1), git -C /repo checkout -- ." % sid
    json.dump(meta, open(mp, "w"), indent=1)
    rows.append((sid, meta, det, miss))
for sid, meta, det, miss in rows:
    ch = (meta.get("change") or "")[:150]
    ds = "; ".join("%s: %s" % (x["property"], x["kind"]) for x in det) or "—"
    print("| %s | %s | %s | %s |" % (sid, ch.replace("|", "/"), ds, ", ".join(miss) or "—"))
