#!/bin/bash
cd /verif
run() { echo "=== $1 ($(cat seeded/$1/origin.txt))"; shift_args=("${@:2}"); selftest/try_patch.sh seeded/$1/patch.diff "${@:2}"; }
run R01 C01 C03
run R02 C12 C01
run R03 C02 C03
run R04 C02 C03
run R05 C02 C11
run R06 C02
run R07 C12
run R08 C17
run R09 C08 C11
run R10 C10 C05
run R11 C06 C05
run R12 C06
run R13 C10 C18
run R14 C15
