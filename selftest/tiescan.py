import sys, os, shutil, subprocess, json, re
sys.path.insert(0, '/verif/py')
import kernelgen
LW = '/tmp/leanwork2'
res = {}
ids = sorted(d for d in os.listdir('/verif/seeded') if re.fullmatch(r'[RS]\d+', d))
for sid in ids:
    pd = '/verif/seeded/%s/patch.diff' % sid
    if not os.path.exists(pd): continue
    shutil.rmtree('/tmp/tiescan_vs', ignore_errors=True); os.makedirs('/tmp/tiescan_vs')
    shutil.copytree('/repo/src', '/tmp/tiescan_vs/src')
    r = subprocess.run(['patch', '-p1', '-s', '-i', pd], cwd='/tmp/tiescan_vs', capture_output=True, text=True)
    if r.returncode != 0:
        res[sid] = {"error": "patch does not apply to src only: " + (r.stdout + r.stderr)[:200]}; print(sid, res[sid], flush=True); continue
    txt, errs = kernelgen.translate('/tmp/tiescan_vs/src')
    open(LW + '/AnyVecModel/Gen/Kernel.lean', 'w').write(txt)
    r = subprocess.run(['lake', 'build'], cwd=LW, capture_output=True, text=True)
    failed = sorted(set(re.findall(r"^- (AnyVecModel\.\S+)", r.stdout, flags=re.M)))
    res[sid] = {"translate_errors": errs, "failed_modules": failed}
    print(sid, json.dumps(res[sid]), flush=True)
json.dump(res, open('/verif/selftest/tiescan.json', 'w'), indent=1)
