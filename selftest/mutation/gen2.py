import re, os, difflib, json, sys
SRC = '/tmp/kt/clean/src'
FILES = ["any_vec_raw.rs","any_vec.rs","any_vec_typed.rs","any_vec_ptr.rs","ops/pop.rs","ops/remove.rs","ops/swap_remove.rs","ops/drain.rs",
         "ops/splice.rs","ops/temp.rs","ops/iter.rs","iter.rs","element.rs","any_value/mod.rs","any_value/lazy_clone.rs","any_value/raw.rs",
         "any_value/wrapper.rs","mem/heap.rs","mem/stack.rs","mem/stack_n.rs","mem/mod.rs","mem/empty.rs","lib.rs","clone_type.rs"]
def code_lines(text):
    """indices of lines that are code (not comments / doc / attributes / blank)"""
    out = []; in_block = False
    for i, l in enumerate(text.split('\n')):
        t = l.strip()
        if in_block:
            if '*/' in t: in_block = False
            continue
        if t.startswith('/*'):
            if '*/' not in t: in_block = True
            continue
        if not t or t.startswith('//') or t.startswith('#[') or t.startswith('use ') or t.startswith('pub use') or t.startswith('///'): continue
        out.append(i)
    return out
OPS2 = [
    (r'\bif (?!let)([^{]+) \{', 'if true {'), (r'\bif (?!let)([^{]+) \{', 'if false {'),
    (r'\bif (?!let)([^{]+)\{', 'if true {'), (r'\bif (?!let)([^{]+)\{', 'if false {'),
    (r'ptr::copy\(', 'ptr::copy_nonoverlapping('), (r'copy_nonoverlapping', 'copy'),
    (r'\bSome\(([^()]*)\)', 'None'),
    (r'\bself\.len\(\)', 'self.capacity()'), (r'\bself\.capacity\(\)', 'self.len()'),
    (r'\bself\.len\b(?!\()', 'self.capacity()'),
    (r'\bstart\b(?=[,)])', 'end'), (r'\bend\b(?=[,)])', 'start'),
    (r'\bself\.end\b', 'self.iter.end'), (r'\bself\.iter\.end\b', 'self.end'), (r'\bself\.iter\.index\b', 'self.start'),
    (r'\bsrc\b(?=,)', 'dst'), (r'\bdst\b(?=,)', 'src'),
    (r'\blen\b(?=[;,) ])', 'len + 1'), (r'\bindex\b(?=[;) ])', 'index + 1'),
    (r'\belements_left\b(?=[;,)\n])', 'elements_left + 1'), (r'\bwritten\b(?=[;,) ])', 'written + 1'),
    (r'\breplace_end\b(?=[,)])', 'self.start'), (r'\bnew_len\b(?=[;,) ])', 'new_len + 1'), (r'\bnew_size\b(?=[;,) ])', 'new_size + 1'),
    (r'saturating_mul\(2\)', 'saturating_mul(1)'), (r'\.unwrap\(\)', '.unwrap_or_else(|| unreachable!())'),
]
OPS = [
    (r'(?<![<>=!-])<(?![<=:])(?=\s*[\w(])', '<='), (r'<=', '<'), (r'(?<![<>=!-])>(?![>=])(?=\s*[\w(])', '>='), (r'>=', '>'),
    (r'==', '!='), (r'!=', '=='),
    (r'\+ 1\b', '+ 2'), (r'\+ 1\b', ''), (r'- 1\b', ''), (r'- 1\b', '- 2'),
    (r'(?<=\w) \+ (?=\w)', ' - '), (r'(?<=[\w)]) - (?=[\w(])', ' + '), (r'\* 2\b', '* 3'),
    (r'\b0\b(?=[;,)])', '1'), (r'\b1\b(?=[;,)])', '2'),
    (r'\bindex\b(?=[,)])', 'index + 1'), (r'\bself\.index\b', 'self.end'), (r'\bself\.start\b', 'self.end'), (r'\bself\.end\b', 'self.start'),
    (r'\blast_index\b(?=[;,)])', 'index'), (r'\bself\.len\b(?!\()', 'self.len + 1'),
    (r'&&', '||'), (r'\|\|', '&&'), (r'if !', 'if '), (r'\.min\(', '.max('), (r'\.max\(', '.min('), (r'cmp::max', 'cmp::min'), (r'cmp::min', 'cmp::max'),
    (r'checked_add', 'wrapping_add_DISABLED'),
]
GEN2 = True
muts = []
for f in FILES:
    text = open(os.path.join(SRC, f)).read()
    lines = text.split('\n')
    # only inside function bodies: crude - lines with indentation >= 8 or containing `;`
    for i in code_lines(text):
        l = lines[i]
        if l.strip().startswith(('fn ', 'pub fn', 'pub unsafe fn', 'unsafe fn', 'impl', 'where', 'type ', 'pub struct', 'struct', 'pub trait', 'trait', 'unsafe impl', 'pub(crate) fn', 'pub(crate) unsafe fn', 'const ', 'pub const', 'pub type', 'macro_rules')): continue
        if 'PhantomData' in l and '==' not in l: pass
        for pat, rep in (OPS2 if GEN2 else OPS):
            if 'DISABLED' in rep: continue
            for m in re.finditer(pat, l):
                # skip generics / lifetimes / arrows
                a, b = m.span()
                ctx = l[max(0,a-2):b+2]
                if '->' in ctx or '=>' in ctx or '<\'' in ctx: continue
                if pat in (r'(?<![<>=!-])<(?![<=:])(?=\s*[\w(])', r'(?<![<>=!-])>(?![>=])(?=\s*[\w(])') and not re.search(r'\b(if|while|assert!?|debug_assert!?)\b', l): continue
                new = l[:a] + rep + l[b:]
                if new == l: continue
                muts.append((f, i, l, new))
        # statement deletion for simple call / assignment statements
        t = l.strip()
        if GEN2 and re.fullmatch(r'[\w:.]+(::<[^>]*>)?\([^;]*\);', t) and not t.startswith(('assert', 'debug_assert', 'panic')):
            muts.append((f, i, l, l.replace(t, '/* removed */')))
        if (not GEN2) and re.fullmatch(r'(self|any_vec_raw|cloned)\.[\w.]+ = .*;', t) or re.fullmatch(r'(self\.op\.consume\(\)|mem::forget\(self\)|self\.reserve_one\(\)|self\.op\.consume\(\));', t) or re.fullmatch(r'written \+= 1;', t) or re.fullmatch(r'ptr = ptr\.add\(.*\);', t):
            muts.append((f, i, l, l.replace(t, '/* removed */')))
# dedupe
seen = set(); out = []
for f, i, l, new in muts:
    k = (f, i, new)
    if k in seen: continue
    seen.add(k); out.append((f, i, l, new))
print(len(out), file=sys.stderr)
os.makedirs('/tmp/mt/patches', exist_ok=True)
meta = []
for n, (f, i, l, new) in enumerate(out):
    text = open(os.path.join(SRC, f)).read().split('\n')
    new_text = list(text); new_text[i] = new
    d = ''.join(difflib.unified_diff([x + '\n' for x in text], [x + '\n' for x in new_text], 'a/src/' + f, 'b/src/' + f, n=3))
    open('/tmp/mt/patches/m%04d.diff' % n, 'w').write(d)
    meta.append({"id": "m%04d" % n, "file": f, "line": i + 1, "old": l.strip(), "new": new.strip()})
json.dump(meta, open('/tmp/mt/meta.json', 'w'), indent=0)
