"""round 3: ordering, overflow-handling, bound and assertion mutants"""
import re, os, difflib, json, sys
SRC = '/tmp/kt/clean/src'
FILES = ["any_vec_raw.rs","any_vec.rs","any_vec_typed.rs","any_vec_ptr.rs","ops/pop.rs","ops/remove.rs","ops/swap_remove.rs","ops/drain.rs",
         "ops/splice.rs","ops/temp.rs","ops/iter.rs","ops/mod.rs","iter.rs","element.rs","any_value/mod.rs","any_value/lazy_clone.rs","any_value/raw.rs",
         "any_value/wrapper.rs","mem/heap.rs","mem/stack.rs","mem/stack_n.rs","mem/mod.rs","mem/empty.rs","lib.rs","clone_type.rs"]
muts = []   # (file, {line_index: new_text or None for deletion}, description)
def simple_stmt(t):
    return (t.endswith(';') and not t.startswith(('//', 'use ', 'pub use', '#', 'let ', 'return', 'type ', 'const ', 'fn ', 'pub ', 'unsafe impl', 'impl', '}'))
            and t.count('(') == t.count(')') and t.count('{') == t.count('}'))
for f in FILES:
    p = os.path.join(SRC, f)
    if not os.path.exists(p): continue
    lines = open(p).read().split('\n')
    n = len(lines)
    for i, l in enumerate(lines):
        t = l.strip()
        # 1. swap two adjacent simple statements (same indentation)
        if i + 1 < n:
            t2 = lines[i + 1].strip()
            if simple_stmt(t) and simple_stmt(t2) and (len(l) - len(l.lstrip())) == (len(lines[i + 1]) - len(lines[i + 1].lstrip())) and t != t2:
                muts.append((f, {i: lines[i + 1], i + 1: l}, "swap `%s` <-> `%s`" % (t, t2)))
        # 1b. swap a `let` with the following simple statement when the statement does not mention the bound name
        if i + 1 < n and t.startswith('let ') and t.endswith(';'):
            t2 = lines[i + 1].strip()
            m = re.match(r'let (?:mut )?(\w+)', t)
            if m and simple_stmt(t2) and not re.search(r'\b%s\b' % m.group(1), t2):
                muts.append((f, {i: lines[i + 1], i + 1: l}, "swap `%s` <-> `%s`" % (t, t2)))
        # 2. overflow handling
        for a, b in (('checked_add', 'wrapping_add'), ('checked_add', 'saturating_add'), ('checked_mul', 'wrapping_mul'), ('checked_mul', 'saturating_mul'),
                     ('saturating_mul', 'wrapping_mul')):
            if a + '(' in l:
                new = l.replace(a + '(', b + '(')
                if a.startswith('checked'):
                    new = re.sub(r'\)\s*\.expect\("[^"]*"\)', ')', new)
                    if '.expect(' in lines[i + 1] if i + 1 < n else False:
                        muts.append((f, {i: new, i + 1: None}, "%s -> %s" % (a, b))); continue
                muts.append((f, {i: new}, "%s -> %s" % (a, b)))
        # 3. assertion removal
        if re.match(r'(debug_)?assert(_eq|_ne)?!\(.*\);$', t):
            muts.append((f, {i: None}, "remove `%s`" % t))
        # 4. bounds in where clauses of unsafe impls / fns: Send <-> Sync, drop a bound line
        if re.match(r'^[\w:<>\', ]+:\s*[\w+ ?]+,?$', t) and not t.startswith(('pub', 'fn', 'let', 'type')):
            if 'Send' in t: muts.append((f, {i: l.replace('Send', 'Sync')}, "bound `%s`: Send -> Sync" % t))
            if 'Sync' in t: muts.append((f, {i: l.replace('Sync', 'Send')}, "bound `%s`: Sync -> Send" % t))
            if ('Send' in t or 'Sync' in t) and t.endswith(','): muts.append((f, {i: None}, "drop bound `%s`" % t))
        # 5. receivers: &mut self -> &self where the body has no obvious mutation (compiler decides)
        if re.search(r'\bfn \w+(<[^>]*>)?\(&mut self', l):
            muts.append((f, {i: l.replace('&mut self', '&self', 1)}, "receiver &mut self -> &self in `%s`" % t[:60]))
        # 6. lifetimes on returned handles: <'_ -> fresh
        if re.search(r"-> \w+<'a,", l) and 'fn ' in l and "&'a" not in l:
            pass
        # 7. constants
        for a, b in ((r'\busize::MAX\b', 'usize::MAX - 1'), (r'\bisize::MAX\b', 'usize::MAX'), (r'\b128\b', '64'), (r'\b128\b', '256')):
            for m in re.finditer(a, l):
                if t.startswith('//'): continue
                muts.append((f, {i: l[:m.start()] + b + l[m.end():]}, "%s -> %s in `%s`" % (a, b, t[:60])))
        # 8. mem::forget / ManuallyDrop removal
        if 'mem::forget(' in t and t.endswith(';'):
            muts.append((f, {i: None}, "remove `%s`" % t))
        if 'ManuallyDrop::new(' in l:
            muts.append((f, {i: re.sub(r'ManuallyDrop::new\((.*)\)', r'\1', l)}, "drop ManuallyDrop in `%s`" % t[:60]))
seen = set(); out = []
for f, ch, d in muts:
    k = (f, tuple(sorted((i, v) for i, v in ch.items())))
    if k in seen: continue
    seen.add(k); out.append((f, ch, d))
print(len(out), file=sys.stderr)
import shutil
shutil.rmtree('/tmp/mt/patches', ignore_errors=True); os.makedirs('/tmp/mt/patches')
meta = []
for n, (f, ch, d) in enumerate(out):
    text = open(os.path.join(SRC, f)).read().split('\n')
    new_text = []
    for i, x in enumerate(text):
        if i in ch:
            if ch[i] is None: new_text.append(x[:len(x) - len(x.lstrip())] + '/* removed */')
            else: new_text.append(ch[i])
        else: new_text.append(x)
    df = ''.join(difflib.unified_diff([x + '\n' for x in text], [x + '\n' for x in new_text], 'a/src/' + f, 'b/src/' + f, n=3))
    open('/tmp/mt/patches/m%04d.diff' % n, 'w').write(df)
    meta.append({"id": "m%04d" % n, "file": f, "line": min(ch) + 1, "old": text[min(ch)].strip(), "new": d})
json.dump(meta, open('/tmp/mt/meta.json', 'w'), indent=0)
