"""round 4: argument order, size/align confusion, range inclusivity, generic type arguments"""
import re, os, difflib, json, sys, shutil
SRC = '/tmp/kt/clean/src'
FILES = ["any_vec_raw.rs","any_vec.rs","any_vec_typed.rs","any_vec_ptr.rs","ops/pop.rs","ops/remove.rs","ops/swap_remove.rs","ops/drain.rs",
         "ops/splice.rs","ops/temp.rs","ops/iter.rs","iter.rs","element.rs","any_value/mod.rs","any_value/lazy_clone.rs","any_value/raw.rs",
         "any_value/wrapper.rs","mem/heap.rs","mem/stack.rs","mem/stack_n.rs","mem/mod.rs","mem/empty.rs","lib.rs","clone_type.rs"]
def split_args(s):
    out = []; depth = 0; cur = ''
    for ch in s:
        if ch in '([{<': depth += 1
        if ch in ')]}>': depth -= 1
        if ch == ',' and depth == 0: out.append(cur); cur = ''
        else: cur += ch
    out.append(cur)
    return out
muts = []
for f in FILES:
    p = os.path.join(SRC, f)
    if not os.path.exists(p): continue
    lines = open(p).read().split('\n')
    inblock = False
    for i, l in enumerate(lines):
        t = l.strip()
        if '/*' in t and '*/' not in t: inblock = True
        if inblock:
            if '*/' in t: inblock = False
            continue
        if not t or t.startswith(('//', '#', 'use ', 'pub use', 'fn ', 'pub fn', 'pub unsafe fn', 'unsafe fn', 'impl', 'pub struct', 'struct', 'pub trait', 'trait',
                                  'unsafe impl', 'pub(crate) fn', 'pub(crate) unsafe fn', 'where', 'type ', 'pub type')): continue
        # 1. swap adjacent arguments of single-line calls (innermost parentheses only)
        for m in re.finditer(r'(\b[\w:]+(?:::<[^()]*>)?)\(([^()]*)\)', l):
            name, args = m.group(1), m.group(2)
            if name in ('if', 'while', 'match', 'assert', 'debug_assert', 'fn') or name.endswith('!'): continue
            a = split_args(args)
            if len(a) < 2: continue
            for k in range(len(a) - 1):
                x, y = a[k].strip(), a[k + 1].strip()
                if not x or not y or x == y: continue
                b = list(a); b[k], b[k + 1] = ' ' + y if k else y, ' ' + x
                new = l[:m.start(2)] + ','.join(b) + l[m.end(2):]
                muts.append((f, i, new, "swap arguments `%s` <-> `%s` of %s" % (x, y, name)))
        # 2. size / align confusion
        for a, b in (('.size()', '.align()'), ('.align()', '.size()'), ('size_of::<', 'align_of::<'), ('align_of::<', 'size_of::<')):
            for m in re.finditer(re.escape(a), l):
                muts.append((f, i, l[:m.start()] + b + l[m.end():], "%s -> %s" % (a, b)))
        # 3. range inclusivity
        for m in re.finditer(r'(?<![.=])\.\.(?![.=])(?=\s*[\w(])', l):
            if 'for ' in l or '[' in l:
                muts.append((f, i, l[:m.start()] + '..=' + l[m.end():], ".. -> ..="))
        # 4. Known / Unknown type arguments
        for a, b in (('KnownType', 'Unknown'), ('Unknown', 'KnownType')):
            for m in re.finditer(r'::<(%s)>' % a, l):
                muts.append((f, i, l[:m.start(1)] + b + l[m.end(1):], "type argument %s -> %s" % (a, b)))
        # 5. pointer arithmetic
        for a, b in (('.add(', '.sub('), ('.offset(', '.add('), ('.sub(', '.add(')):
            for m in re.finditer(re.escape(a), l):
                muts.append((f, i, l[:m.start()] + b + l[m.end():], "%s -> %s" % (a, b)))
        # 6. unwrap_unchecked / unchecked -> checked variants and back are type-compatible rarely; None/Some swaps on returns
        if re.search(r'\breturn\b', t) or t in ('None', 'None;'):
            pass
        # 7. as casts: `as usize` of signed values etc. - rare; skip
        # 8. boolean literals
        for a, b in ((r'\btrue\b', 'false'), (r'\bfalse\b', 'true')):
            for m in re.finditer(a, l):
                muts.append((f, i, l[:m.start()] + b + l[m.end():], "%s -> %s" % (a, b)))
seen = set(); out = []
for f, i, new, d in muts:
    k = (f, i, new)
    if k in seen: continue
    seen.add(k); out.append((f, i, new, d))
print(len(out), file=sys.stderr)
shutil.rmtree('/tmp/mt/patches', ignore_errors=True); os.makedirs('/tmp/mt/patches')
meta = []
for n, (f, i, new, d) in enumerate(out):
    text = open(os.path.join(SRC, f)).read().split('\n')
    new_text = list(text); new_text[i] = new
    df = ''.join(difflib.unified_diff([x + '\n' for x in text], [x + '\n' for x in new_text], 'a/src/' + f, 'b/src/' + f, n=3))
    open('/tmp/mt/patches/m%04d.diff' % n, 'w').write(df)
    meta.append({"id": "m%04d" % n, "file": f, "line": i + 1, "old": text[i].strip(), "new": d})
json.dump(meta, open('/tmp/mt/meta.json', 'w'), indent=0)
