import json, subprocess, sys, os, concurrent.futures as cf, time
meta = json.load(open('/tmp/mt/meta.json'))
NW = 6
def setup(k):
    wt = '/tmp/mt/wt%d' % k
    if not os.path.exists(wt):
        subprocess.run(['git', '-C', '/repo', 'worktree', 'add', '-q', '--detach', wt, 'HEAD'], check=True)
    return wt
env = dict(os.environ, CARGO_NET_OFFLINE='true')
def run(k, items):
    wt = setup(k); e = dict(env, CARGO_TARGET_DIR='/tmp/mt/target%d' % k)
    res = {}
    for m in items:
        pid = m['id']
        subprocess.run(['git', 'checkout', '--', '.'], cwd=wt)
        a = subprocess.run(['git', 'apply', '/tmp/mt/patches/%s.diff' % pid], cwd=wt, capture_output=True, text=True)
        if a.returncode != 0: res[pid] = 'noapply'; continue
        t = time.time()
        b = subprocess.run(['cargo', 'test', '--offline', '--tests', '--no-fail-fast', '-q'], cwd=wt, env=e, capture_output=True, text=True, timeout=900)
        out = b.stdout + b.stderr
        if 'error[' in out or 'error:' in out and 'could not compile' in out: res[pid] = 'nocompile'
        elif b.returncode == 0: res[pid] = 'pass'
        else: res[pid] = 'testfail'
        print(pid, res[pid], '%.0fs' % (time.time() - t), flush=True)
    subprocess.run(['git', 'checkout', '--', '.'], cwd=wt)
    return res
chunks = [meta[i::NW] for i in range(NW)]
allres = {}
with cf.ThreadPoolExecutor(NW) as ex:
    for r in ex.map(lambda kc: run(*kc), list(enumerate(chunks))): allres.update(r)
json.dump(allres, open('/tmp/mt/stepA.json', 'w'), indent=0)
import collections; print(collections.Counter(allres.values()))
