import sys, os, shutil, subprocess, json, re
sys.path.insert(0, '/verif/py')
import kernelgen
LW = '/tmp/leanwork2'
meta = {m['id']: m for m in json.load(open('/tmp/mt/meta.json'))}
ids = [l.strip() for l in open('/tmp/mt/pass.txt')]
res = {}
for pid in ids:
    shutil.rmtree('/tmp/mt/vs', ignore_errors=True); os.makedirs('/tmp/mt/vs')
    shutil.copytree('/tmp/kt/clean/src', '/tmp/mt/vs/src')
    r = subprocess.run(['patch', '-p1', '-s', '-i', '/tmp/mt/patches/%s.diff' % pid], cwd='/tmp/mt/vs', capture_output=True, text=True)
    txt, errs = kernelgen.translate('/tmp/mt/vs/src')
    open(LW + '/AnyVecModel/Gen/Kernel.lean', 'w').write(txt)
    r = subprocess.run(['lake', 'build'], cwd=LW, capture_output=True, text=True)
    failed = sorted(set(re.findall(r"^- (AnyVecModel\.\S+)", r.stdout, flags=re.M)))
    res[pid] = {"translate_errors": list(errs), "failed_modules": failed}
    print(pid, meta[pid]['file'], meta[pid]['line'], '|', meta[pid]['old'], '=>', meta[pid]['new'], '|', 'TIE-BROKEN' if (failed or errs) else 'tie-ok', [f.split('.')[-1] for f in failed][:3], flush=True)
json.dump(res, open('/tmp/mt/stepB.json', 'w'), indent=0)
