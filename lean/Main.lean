import AnyVecModel.Model.Driver
open AnyVec Driver

partial def loop (h : IO.FS.Stream) (out : IO.FS.Stream) (st : DState) : IO Unit := do
  let line ← h.getLine
  if line.isEmpty then return ()
  let line := (line.replace "\n" "").replace "\r" ""
  let (st', o) := handleLine st line
  match o with
  | some s => out.putStrLn s
  | none => pure ()
  loop h out st'

def main : IO Unit := do
  let stdin ← IO.getStdin
  let stdout ← IO.getStdout
  loop stdin stdout {}
