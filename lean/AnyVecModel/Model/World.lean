/-
  AnyVecModel.Model.World — several vectors, element identities, user-code calls (element
  `Drop`/`Clone`, replacement iterators) with fault injection, values and handles.
  Follows src/ops/{temp,pop,remove,swap_remove}.rs, src/element.rs, src/any_value/*.rs.
-/
import AnyVecModel.Model.Vec
namespace AnyVec

structure World where
  vecs : List VecSt := []
  /-- identities handed out so far; the next fresh element/clone gets `created` -/
  created : Nat := 0
  /-- every destructor run so far, newest first (ghost for types without drop glue) -/
  dropLog : List Nat := []
  /-- values owned by the caller outside of any vector -/
  held : List Nat := []
  /-- non-owning raw values the library did not consume in this step: the caller destroys them -/
  pendingRaw : List Nat := []
  /-- observable events of the current step, newest first -/
  ev : List Event := []
  /-- `some k`: the k-th user-code call from now panics -/
  fault : Option Nat := none
  deriving Repr, Inhabited

/-- World-state computation that keeps the state on panic (unwinding sees it). -/
def WM (α : Type) := World → World × Res α

namespace WM
@[inline] def pure {α} (a : α) : WM α := fun w => (w, .ok a)
@[inline] def bind {α β} (m : WM α) (f : α → WM β) : WM β := fun w =>
  match m w with
  | (w', .ok a) => f a w'
  | (w', .panic s) => (w', .panic s)
  | (w', .ub s) => (w', .ub s)
instance : Monad WM where
  pure := WM.pure
  bind := WM.bind
def get : WM World := fun w => (w, .ok w)
def modify (f : World → World) : WM Unit := fun w => (f w, .ok ())
def panic {α} (msg : String) : WM α := fun w => ({ w with fault := none }, .panic msg)
def ub {α} (msg : String) : WM α := fun w => (w, .ub msg)
def lift {α} (r : Res α) : WM α := fun w =>
  match r with
  | .ok a => (w, .ok a)
  | .panic m => ({ w with fault := none }, .panic m)
  | .ub m => (w, .ub m)
/-- run `cleanup` while unwinding from a panic of `m`, then keep unwinding -/
def onUnwind {α} (m : WM α) (cleanup : WM Unit) : WM α := fun w =>
  match m w with
  | (w', .panic s) =>
    match cleanup w' with
    | (w'', .ub s') => (w'', .ub s')
    | (w'', _) => (w'', .panic s)
  | r => r
end WM

namespace World

def getVec (v : Nat) : WM VecSt := fun w =>
  match w.vecs[v]? with
  | some x => if x.live then (w, .ok x) else (w, .ub "use of a dropped vector")
  | none => (w, .ub "no such vector")

def setVec (v : Nat) (x : VecSt) : WM Unit :=
  WM.modify fun w => { w with vecs := w.vecs.set v x }

def emit (es : List Event) : WM Unit :=
  WM.modify fun w => { w with ev := es.reverse ++ w.ev }

/-- a raw-vector operation that may call the backend -/
def vecOp (v : Nat) (f : VecSt → Res (VecSt × List Event)) : WM Unit := do
  let x ← getVec v
  let (x', es) ← WM.lift (f x)
  setVec v x'
  emit es

def setLen (v : Nat) (n : Nat) : WM Unit := do
  let x ← getVec v
  setVec v { x with len := n }

/-- one call into user code: does the injected fault fire now? -/
def tick : WM Unit := fun w =>
  match w.fault with
  | some 0 => ({ w with fault := none }, .ok ())
  | some 1 => ({ w with fault := none }, .panic "injected")
  | some (k+2) => ({ w with fault := some (k+1) }, .ok ())
  | none => (w, .ok ())

def fresh : WM Nat := fun w => ({ w with created := w.created + 1 }, .ok w.created)

/-- the destructor of `id` has started: logged (ghost only for types without drop glue) -/
def logDrop (hasDrop : Bool) (id : Nat) (w : World) : World :=
  { w with dropLog := id :: w.dropLog, ev := if hasDrop then .drop id :: w.ev else w.ev }

/-- run the destructor of element `id` (of a type with/without drop glue); it counts as started
(and is logged) even when it then panics -/
def dropElem (hasDrop : Bool) (id : Nat) : WM Unit := do
  WM.modify (logDrop hasDrop id)
  if hasDrop then tick else pure ()

/-- run `T::clone` on element `src`; the clone is a fresh identity -/
def cloneElem (src : Nat) : WM Nat := do
  tick
  let n ← fresh
  WM.modify fun w => { w with ev := .clone src n :: w.ev }
  pure n

def readElem (v i : Nat) : WM Nat := do
  let x ← getVec v
  WM.lift (x.readElem i)

def writeCell (v i : Nat) (c : Cell) : WM Unit := do
  let x ← getVec v
  let x' ← WM.lift (x.writeCell i c)
  setVec v x'

def moveElems (v : Nat) (erasedCopy : Bool) (src dst n : Nat) : WM Unit := do
  let x ← getVec v
  let x' ← WM.lift (x.moveElems erasedCopy src dst n)
  setVec v x'

/-- erased `drop_fn(ptr(start), n)`: element by element, stops at the first panic -/
def dropLoop (v : Nat) (hasDrop : Bool) : Nat → Nat → WM Unit
  | _, 0 => pure ()
  | i, k+1 => do
    let id ← readElem v i
    dropElem hasDrop id
    dropLoop v hasDrop (i + 1) k

/-- typed `ptr::drop_in_place(slice)`: after a panic the remaining elements are still dropped,
then the panic resumes -/
def dropSlice (v : Nat) (hasDrop : Bool) : Nat → Nat → WM Unit
  | _, 0 => pure ()
  | i, k+1 => do
    let id ← readElem v i
    WM.onUnwind (dropElem hasDrop id) (dropSlice v hasDrop (i + 1) k)
    dropSlice v hasDrop (i + 1) k

/-- `any_vec_ptr::utils::drop_elements_range` -/
def dropRange (v : Nat) (typed : Bool) (s e : Nat) : WM Unit := do
  let x ← getVec v
  if x.hasDrop then
    if typed then dropSlice v true s (e - s) else dropLoop v true s (e - s)
  else
    -- no destructor is called; ghost accounting only
    dropLoop v false s (e - s)

/-! ### Removal handles (`TempValue<Pop|Remove|SwapRemove>`) -/

inductive HKind where
  | pop
  | remove (index lastIndex : Nat)
  | swapRemove (slot gen lastIndex : Nat)
  deriving Repr, DecidableEq

structure Handle where
  v : Nat
  kind : HKind
  typed : Bool
  deriving Repr, DecidableEq

/-- `Operation::bytes()` as a slot -/
def hSlot (h : Handle) : WM Nat := do
  let x ← getVec h.v
  match h.kind with
  | .pop => pure x.len
  | .remove i _ => pure i
  | .swapRemove s g _ =>
    if g = x.gen then pure s else WM.ub "stale element pointer (storage moved)"

/-- `Operation::consume()` -/
def hConsume (h : Handle) : WM Unit := do
  match h.kind with
  | .pop => pure ()
  | .remove i last =>
    moveElems h.v (!h.typed) (i + 1) i (last - i)
    setLen h.v last
  | .swapRemove s _ last =>
    let slot ← hSlot h
    if s ≠ last then
      let x ← getVec h.v
      -- copy_nonoverlapping_value(last_element, element): an untyped bit copy
      if last < x.cap then writeCell h.v slot (x.cells.get last)
      else WM.ub "element read out of bounds"
    setLen h.v last

/-- `impl Drop for TempValue` -/
def hDrop (h : Handle) : WM Unit := do
  let x ← getVec h.v
  let slot ← hSlot h
  let id ← readElem h.v slot
  dropElem x.hasDrop id
  hConsume h

/-! ### Values offered to `push` / `insert` / `splice` (`impl AnyValue`) -/

inductive Val where
  /-- `AnyValueWrapper<T>`: owning, type known at compile time -/
  | wrapper (id ty : Nat)
  /-- `AnyValueRaw`: non-owning pointer + size + type id -/
  | raw (id ty : Nat)
  /-- a removal handle of another vector -/
  | handle (h : Handle)
  /-- an owned drained `Element` of another vector -/
  | elem (v slot : Nat)
  /-- `LazyClone` of an element reference / drained element of vector `v` -/
  | lazyElem (v slot : Nat)
  /-- `LazyClone` of a removal handle -/
  | lazyHandle (h : Handle)
  deriving Repr

def valTy (x : Val) : WM Nat :=
  match x with
  | .wrapper _ ty => pure ty
  | .raw _ ty => pure ty
  | .handle h => do let s ← getVec h.v; pure s.ty
  | .elem v _ => do let s ← getVec v; pure s.ty
  | .lazyElem v _ => do let s ← getVec v; pure s.ty
  | .lazyHandle h => do let s ← getVec h.v; pure s.ty

/-- `V::Type` is a concrete type (typed fast path) rather than `Unknown` -/
def valKnownType : Val → Bool
  | .wrapper _ _ => true
  | .handle h => h.typed
  | .lazyHandle h => h.typed
  | _ => false

/-- the value goes out of scope without having been consumed (drop glue of `V`) -/
def valDrop (hasDrop : Bool) (x : Val) : WM Unit :=
  match x with
  | .wrapper id _ => dropElem hasDrop id
  | .raw id _ => WM.modify fun w => { w with pendingRaw := id :: w.pendingRaw }
  | .handle h => hDrop h
  | .elem v slot => do
    let s ← getVec v
    let id ← readElem v slot
    dropElem s.hasDrop id
  | .lazyElem _ _ => pure ()
  | .lazyHandle _ => pure ()

/-- `value.move_into(dst slot)`: bit copy (+ `consume` for handles), or a clone for lazy clones -/
def valMoveInto (x : Val) (dst slot : Nat) : WM Unit :=
  match x with
  | .wrapper id _ => writeCell dst slot (.val id)
  | .raw id _ => writeCell dst slot (.val id)
  | .handle h => do
    let s ← hSlot h
    let id ← readElem h.v s
    writeCell dst slot (.val id)
    hConsume h
  | .elem v s => do
    let id ← readElem v s
    writeCell dst slot (.val id)
  | .lazyElem v s => do
    let id ← readElem v s
    let n ← cloneElem id
    writeCell dst slot (.val n)
  | .lazyHandle h => do
    let s ← hSlot h
    let id ← readElem h.v s
    let n ← cloneElem id
    writeCell dst slot (.val n)

/-! ### push / insert -/

/-- `AnyVecRaw::push_unchecked(value)` -/
def pushUnchecked (dst : Nat) (x : Val) : WM Unit := do
  let d ← getVec dst
  WM.onUnwind (vecOp dst VecSt.reserveOne) (valDrop d.hasDrop x)
  let d ← getVec dst
  valMoveInto x dst d.len
  let d ← getVec dst
  setVec dst { d with len := d.len + 1 }

/-- `AnyVec::push(value)` -/
def push (dst : Nat) (x : Val) : WM Unit := do
  let d ← getVec dst
  let ty ← valTy x
  if ty ≠ d.ty then
    WM.onUnwind (WM.panic "Type mismatch!") (valDrop d.hasDrop x)
  else
    pushUnchecked dst x

/-- `AnyVecRaw::insert_unchecked(index, value)` -/
def insertUnchecked (dst index : Nat) (x : Val) : WM Unit := do
  let d ← getVec dst
  if index > d.len then
    WM.onUnwind (WM.panic "Index out of range!") (valDrop d.hasDrop x)
  else do
    WM.onUnwind (vecOp dst VecSt.reserveOne) (valDrop d.hasDrop x)
    let d ← getVec dst
    let oldLen := d.len
    -- elements from `index` on are out of reach while user code (a lazy clone) may run
    setLen dst index
    moveElems dst (!valKnownType x) index (index + 1) (oldLen - index)
    valMoveInto x dst index
    setLen dst (oldLen + 1)

/-- `AnyVec::insert(index, value)` -/
def insert (dst index : Nat) (x : Val) : WM Unit := do
  let d ← getVec dst
  let ty ← valTy x
  if ty ≠ d.ty then
    WM.onUnwind (WM.panic "Type mismatch!") (valDrop d.hasDrop x)
  else
    insertUnchecked dst index x

end World
end AnyVec
