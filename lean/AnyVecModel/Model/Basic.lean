/-
  AnyVecModel.Model.Basic — storage cells, checked results, Rust `usize` arithmetic and the
  raw memory primitives (`ptr::copy`, the byte loop of `crate::copy_bytes`).

  Import-free on purpose: the driver (`Main.lean`) links as a `lean_exe`.
-/
namespace AnyVec

/-- One element-sized storage slot. `val id` = the bytes of the element with identity `id`. -/
inductive Cell where
  | uninit
  | val (id : Nat)
  deriving DecidableEq, Repr, Inhabited

/-- Storage of one vector, slot granular. Slots past `length` are uninitialised. -/
abbrev Mem := List Cell

/-- Result of a library call: normal return, Rust panic, or a memory-safety fault of a checked
primitive (`ub`: out of bounds / uninitialised read / stale pointer). `ub` must be unreachable. -/
inductive Res (α : Type) where
  | ok (a : α)
  | panic (msg : String)
  | ub (msg : String)
  deriving Repr, DecidableEq

namespace Res
@[inline] def bind {α β} (r : Res α) (f : α → Res β) : Res β :=
  match r with
  | .ok a => f a
  | .panic m => .panic m
  | .ub m => .ub m
instance : Monad Res where
  pure := .ok
  bind := Res.bind
def isOk {α} : Res α → Bool
  | .ok _ => true
  | _ => false
end Res

/-! ### Rust `usize` -/
def USIZE_MAX : Nat := 18446744073709551615
def ISIZE_MAX : Nat := 9223372036854775807

/-- `a.checked_add(b).expect(..)` -/
def checkedAdd (a b : Nat) (msg : String := "capacity overflow") : Res Nat :=
  if a + b ≤ USIZE_MAX then .ok (a + b) else .panic msg
/-- `a.checked_mul(b).expect(..)` -/
def checkedMul (a b : Nat) (msg : String := "capacity overflow") : Res Nat :=
  if a * b ≤ USIZE_MAX then .ok (a * b) else .panic msg
/-- `a.saturating_mul(b)` -/
def satMul (a b : Nat) : Nat := if a * b ≤ USIZE_MAX then a * b else USIZE_MAX

/-! ### Memory primitives -/
def Mem.get (m : Mem) (i : Nat) : Cell := m.getD i Cell.uninit

/-- materialise slots `[0,n)` (lazily allocated model memory; no observable effect) -/
def Mem.ensure (m : Mem) (n : Nat) : Mem := m ++ List.replicate (n - m.length) Cell.uninit

/-- `ptr::copy(base+src, base+dst, n)` in slots (memmove semantics) on materialised memory. -/
def memmove (m : Mem) (src dst n : Nat) : Mem :=
  m.take dst ++ ((m.drop src).take n ++ m.drop (dst + n))

/-- the ascending loop `for i in 0..count { *dst.add(i) = *src.add(i) }`, slot granular -/
def fwdCopy (m : Mem) (src dst : Nat) : Nat → Nat → Mem
  | _, 0 => m
  | i, k+1 => fwdCopy (m.set (dst + i) (m.get (src + i))) src dst (i + 1) k

/-- the descending loop `for i in (0..count).rev() { *dst.add(i) = *src.add(i) }` -/
def bwdCopy (m : Mem) (src dst : Nat) : Nat → Mem
  | 0 => m
  | k+1 => bwdCopy (m.set (dst + k) (m.get (src + k))) src dst k

/-- `crate::copy_bytes(src, dst, count)` with `count = size * n` bytes: `ptr::copy` from 128 bytes
up, otherwise a hand-written loop whose direction depends on the relative position. -/
def copyBytes (m : Mem) (size src dst n : Nat) : Mem :=
  if 128 ≤ size * n then memmove m src dst n
  else if dst ≤ src then fwdCopy m src dst 0 n
  else bwdCopy m src dst n

end AnyVec
