/-
  AnyVecModel.Model.Ops — the public operations as whole-lifetime compound steps
  (a handle or range iterator borrows its vector exclusively, so its life is one step).
  Follows src/any_vec.rs, src/any_vec_typed.rs, src/ops/{drain,splice}.rs, src/iter.rs, src/lib.rs.
-/
import AnyVecModel.Model.World
namespace AnyVec
open World

inductive Sink where
  | drop
  | downcast (ty : Nat)
  | forget
  | pushTo (w : Nat)
  | insertTo (w j : Nat)
  | lazyTo (w k : Nat)
  | swapVal (ty : Nat)
  | info
  deriving Repr, DecidableEq

inductive Src where
  | wrapper (ty : Nat)
  | raw (ty : Nat)
  | lazyRef (v i depth : Nat)
  deriving Repr, DecidableEq

inductive Bnd where
  | incl (i : Nat)
  | excl (i : Nat)
  | unb
  deriving Repr, DecidableEq

inductive End where
  | front | back
  deriving Repr, DecidableEq

inductive Fin where
  | drop | forget
  deriving Repr, DecidableEq

inductive Op where
  | new (ty : Nat) (bk : Backend) (cloneable : Bool)
  | withCap (ty : Nat) (bk : Backend) (cloneable : Bool) (n : Nat)
  | push (v : Nat) (s : Src)
  | insert (v i : Nat) (s : Src)
  | tpush (v : Nat)
  | tinsert (v i : Nat)
  | pop (v : Nat) (k : Sink)
  | remove (v i : Nat) (k : Sink)
  | swapRemove (v i : Nat) (k : Sink)
  | tpop (v : Nat)
  | tremove (v i : Nat)
  | tswapRemove (v i : Nat)
  | clear (v : Nat)
  | get (v i : Nat) (atPanics : Bool)
  | iter (v : Nat) (cs : List End)
  | drain (v : Nat) (lo hi : Bnd) (typed : Bool) (eats : List (End × Sink)) (fin : Fin)
  | splice (v : Nat) (lo hi : Bnd) (typed : Bool) (repl : List Src) (claim : Int)
      (eats : List (End × Sink)) (fin : Fin)
  | clone (v : Nat)
  | cloneEmpty (v : Nat)
  | cloneEmptyIn (v : Nat) (bk : Backend)
  | reserve (v n : Nat)
  | reserveExact (v n : Nat)
  | shrinkToFit (v : Nat)
  | shrinkTo (v n : Nat)
  | release
  | dropVec (v : Nat)
  | info (v : Nat)
  | dcvec (v ty : Nat)
  | wswap (v i ty : Nat)
  | tassign (v i : Nat)
  | swapb (v i j : Nat)
  | tswap (v i j : Nat)
  | eswap (v i w j : Nat)
  | probe (v : Nat)
  | views (v : Nat)
  | setLenSpare (v k : Nat) (typed : Bool)
  | rawrt (v : Nat)
  | rawparts (v : Nat)
  | lazyDc (v i depth ty : Nat)
  | iterClone (v : Nat) (pre post : List End)
  deriving Repr

/-- per-case configuration: every element type of a case has this layout -/
structure Cfg where
  size : Nat
  align : Nat
  hasDrop : Bool
  deriving Repr, Inhabited

/-- an identity as the implementation can observe it: truncated to the element's bytes -/
def Cfg.tok (cfg : Cfg) (id : Nat) : String :=
  if cfg.size = 0 then "z"
  else if cfg.size < 8 then toString (id % (256 ^ cfg.size))
  else toString id

/-- tokens printed for the step (returned ids, `N` for None, lengths) -/
abbrev Out := List String

namespace World

def hold (id : Nat) : WM Unit := WM.modify fun w => { w with held := id :: w.held }

/-- create a value from a script source (fresh elements are created by the caller) -/
def mkVal (cfg : Cfg) (s : Src) : WM Val :=
  match s with
  | .wrapper ty => do let id ← fresh; pure (.wrapper id ty)
  | .raw ty => do let id ← fresh; pure (.raw id ty)
  | .lazyRef v i _ => do
    let x ← getVec v
    let _ := cfg
    if i < x.len then pure (.lazyElem v i)
    else WM.panic "called `Option::unwrap()` on a `None` value"

/-- `match range.start_bound()` of `into_range` -/
def rangeStart : Bnd → Res Nat
  | .incl i => .ok i
  | .excl i => checkedAdd i 1 "range start overflow"
  | .unb => .ok 0

/-- `match range.end_bound()` of `into_range` -/
def rangeEnd (len : Nat) : Bnd → Res Nat
  | .incl i => checkedAdd i 1 "range end overflow"
  | .excl i => .ok i
  | .unb => .ok len

/-- `lib.rs into_range(len, range)` -/
def intoRange (len : Nat) (lo hi : Bnd) : Res (Nat × Nat) :=
  match rangeStart lo, rangeEnd len hi with
  | .ok s, .ok e =>
    if s ≤ e then (if e ≤ len then .ok (s, e) else .panic "assertion failed: end <= len")
    else .panic "assertion failed: start <= end"
  | .panic m, _ => .panic m
  | .ub m, _ => .ub m
  | _, .panic m => .panic m
  | _, .ub m => .ub m

/-- `n` times `w.push(x)` for a lazy clone `x` -/
def pushTimes (w : Nat) (x : Val) : Nat → WM Unit
  | 0 => pure ()
  | n+1 => do push w x; pushTimes w x n

/-- the cursor pair of `iter::Iter` (`index`, `end`) -/
structure Cursor where
  index : Nat
  end_ : Nat
  deriving Repr, DecidableEq

/-- `Iter::next`: the yielded slot (if any) and the advanced cursor -/
def Cursor.next (c : Cursor) : Option Nat × Cursor :=
  if c.index = c.end_ then (none, c) else (some c.index, { c with index := c.index + 1 })

/-- `Iter::next_back` -/
def Cursor.nextBack (c : Cursor) : Option Nat × Cursor :=
  if c.end_ = c.index then (none, c) else (some (c.end_ - 1), { c with end_ := c.end_ - 1 })

/-- `Iter::len` / `size_hint` -/
def Cursor.len (c : Cursor) : Nat := c.end_ - c.index

def Cursor.step (c : Cursor) : End → Option Nat × Cursor
  | .front => c.next
  | .back => c.nextBack

/-- `Iter::{next,next_back,len}` over `[a,b)` of vector `v` -/
def iterGo (cfg : Cfg) (v : Nat) : Cursor → List End → Out → WM Out
  | _, [], out => pure out
  | c, e :: cs, out =>
    match c.step e with
    | (none, c') => iterGo cfg v c' cs (out ++ ["N:" ++ toString c'.len])
    | (some slot, c') => do
      let id ← readElem v slot
      iterGo cfg v c' cs (out ++ [cfg.tok id ++ ":" ++ toString c'.len])

/-- the caller drops the values it holds (a `Vec<T>` being dropped: all of them, even if one panics) -/
def releaseGo (hasDrop : Bool) : List Nat → WM Unit
  | [] => pure ()
  | id :: ids => do
    WM.onUnwind (dropElem hasDrop id) (releaseGo hasDrop ids)
    releaseGo hasDrop ids

/-- `mem::forget(splice)`: non-owning raw replacement values stay with the caller -/
def leakRepl : List Val → WM Unit
  | [] => pure ()
  | .raw id _ :: xs => do
    WM.modify fun w => { w with pendingRaw := id :: w.pendingRaw }
    leakRepl xs
  | _ :: xs => leakRepl xs

/-- what the caller does with a removal handle -/
def sinkHandle (cfg : Cfg) (h : Handle) (k : Sink) : WM Out :=
  match k with
  | .drop => do hDrop h; pure []
  | .forget => pure []
  | .downcast ty => do
    let x ← getVec h.v
    if ty ≠ x.ty then do
      hDrop h
      pure ["N"]
    else do
      let s ← hSlot h
      let id ← readElem h.v s
      hConsume h
      hold id
      pure [cfg.tok id]
  | .pushTo w =>
    if w = h.v then WM.ub "bad-op: handle pushed into its own vector"
    else do push w (.handle h); pure []
  | .insertTo w j =>
    if w = h.v then WM.ub "bad-op: handle inserted into its own vector"
    else do insert w j (.handle h); pure []
  | .lazyTo w n =>
    if w = h.v then WM.ub "bad-op: lazy clone pushed into its own vector"
    else do
      WM.onUnwind (pushTimes w (.lazyHandle h) n) (hDrop h)
      hDrop h
      pure []
  | .info => do
    let x ← getVec h.v
    hDrop h
    pure ["t" ++ toString x.ty, "s" ++ toString x.size]
  | .swapVal ty => do
    let x ← getVec h.v
    let fid ← fresh
    if ty ≠ x.ty then
      WM.onUnwind (WM.onUnwind (WM.panic "assertion `left == right` failed")
        (dropElem cfg.hasDrop fid)) (hDrop h)
    else do
      let s ← hSlot h
      let old ← readElem h.v s
      writeCell h.v s (.val fid)
      WM.onUnwind (dropElem cfg.hasDrop old) (hDrop h)
      hDrop h
      pure [cfg.tok old]

/-- what the caller does with an owned drained element -/
def sinkElem (cfg : Cfg) (v slot : Nat) (typed : Bool) (k : Sink) : WM Out := do
  let x ← getVec v
  match k with
  | .drop => do
    let id ← readElem v slot
    dropElem x.hasDrop id
    pure [cfg.tok id]
  | .forget => do
    let id ← readElem v slot
    pure [cfg.tok id]
  | .downcast ty =>
    if !typed && ty ≠ x.ty then do
      let id ← readElem v slot
      dropElem x.hasDrop id
      pure ["N"]
    else do
      let id ← readElem v slot
      hold id
      pure [cfg.tok id]
  | .pushTo w =>
    if w = v || typed then WM.ub "bad-op: pushTo"
    else do
      let id ← readElem v slot
      push w (.elem v slot); pure [cfg.tok id]
  | .insertTo w j =>
    if w = v || typed then WM.ub "bad-op: insertTo"
    else do
      let id ← readElem v slot
      insert w j (.elem v slot); pure [cfg.tok id]
  | .lazyTo w n =>
    if w = v || typed then WM.ub "bad-op: lazyTo"
    else do
      let id ← readElem v slot
      WM.onUnwind (pushTimes w (.lazyElem v slot) n) (dropElem x.hasDrop id)
      dropElem x.hasDrop id
      pure [cfg.tok id]
  | .info => do
    let id ← readElem v slot
    dropElem x.hasDrop id
    pure [cfg.tok id, "t" ++ toString x.ty, "s" ++ toString x.size]
  | .swapVal ty => do
    if typed then WM.ub "bad-op: swapVal on a typed item" else
    let fid ← fresh
    let old ← readElem v slot
    if ty ≠ x.ty then
      WM.onUnwind (WM.onUnwind (WM.panic "assertion `left == right` failed")
        (dropElem cfg.hasDrop fid)) (dropElem x.hasDrop old)
    else do
      writeCell v slot (.val fid)
      WM.onUnwind (dropElem cfg.hasDrop old) (dropElem x.hasDrop fid)
      dropElem x.hasDrop fid
      pure [cfg.tok old]

/-! ### drain / splice -/

structure RangeIt where
  v : Nat
  typed : Bool
  start : Nat
  end0 : Nat
  origLen : Nat
  index : Nat
  end_ : Nat
  deriving Repr

/-- `impl Drop for Drain` -/
def drainDrop (it : RangeIt) : WM Unit := do
  dropRange it.v it.typed it.index it.end_
  moveElems it.v false it.end0 it.start (it.origLen - it.end0)
  setLen it.v (it.origLen - (it.end0 - it.start))

/-- the replacement iterator goes out of scope: its remaining items are dropped -/
def dropRepl (cfg : Cfg) : List Val → WM Unit
  | [] => pure ()
  | x :: xs => do
    WM.onUnwind (valDrop cfg.hasDrop x) (dropRepl cfg xs)
    dropRepl cfg xs

/-- the write loop of `Splice::drop`: at most `budget` items are taken from the iterator -/
def spliceWrite (cfg : Cfg) (v : Nat) (ty : Nat) : Nat → List Val → Nat → WM (Nat × List Val)
  | 0, rest, written => pure (written, rest)
  | _, [], written => do
    tick   -- `next()` returning None is still a user-code call
    pure (written, [])
  | budget+1, x :: rest, written => do
    WM.onUnwind tick (dropRepl cfg (x :: rest))
    let xt ← valTy x
    let x0 ← getVec v
    if xt ≠ ty then
      WM.onUnwind (WM.onUnwind (WM.panic "Type mismatch!") (valDrop cfg.hasDrop x))
        (dropRepl cfg rest)
    else do
      WM.onUnwind (valMoveInto x v (x0.len + written)) (dropRepl cfg rest)
      spliceWrite cfg v ty budget rest (written + 1)

/-- `impl Drop for Splice` -/
def spliceDrop (cfg : Cfg) (it : RangeIt) (repl : List Val) (claimed : Nat) : WM Unit := do
  let x ← getVec it.v
  let elementsLeft := it.origLen - it.end0
  let r : Res Nat := do
    let replaceEnd ← checkedAdd it.start claimed
    let newLen ← checkedAdd replaceEnd elementsLeft
    pure newLen
  let newLen ← WM.onUnwind (WM.lift r) (dropRepl cfg repl)
  let replaceEnd := it.start + claimed
  WM.onUnwind (vecOp it.v (fun s => s.reserve (newLen - it.start))) (dropRepl cfg repl)
  WM.onUnwind (dropRange it.v it.typed it.index it.end_) (dropRepl cfg repl)
  moveElems it.v false it.end0 replaceEnd elementsLeft
  let (written, rest) ← spliceWrite cfg it.v x.ty claimed repl 0
  if written < claimed then
    moveElems it.v false replaceEnd (it.start + written) elementsLeft
  setLen it.v (it.start + written + elementsLeft)
  dropRepl cfg rest

/-- consume items from either end, each going to its sink -/
def eatLoop (cfg : Cfg) (onPanic : RangeIt → WM Unit) :
    RangeIt → List (End × Sink) → Out → WM (RangeIt × Out)
  | it, [], out => pure (it, out)
  | it, (e, k) :: rest, out =>
    match (Cursor.mk it.index it.end_).step e with
    | (none, _) => eatLoop cfg onPanic it rest (out ++ ["N:0"])
    | (some slot, c') => do
      let it' := { it with index := c'.index, end_ := c'.end_ }
      let o ← WM.onUnwind (sinkElem cfg it.v slot it.typed k) (onPanic it')
      let tok := (String.intercalate "/" o) ++ ":" ++ toString c'.len
      eatLoop cfg onPanic it' rest (out ++ [tok])

def drain (cfg : Cfg) (v : Nat) (lo hi : Bnd) (typed : Bool) (eats : List (End × Sink))
    (fin : Fin) : WM Out := do
  let x ← getVec v
  let (s, e) ← WM.lift (intoRange x.len lo hi)
  setLen v s
  let it : RangeIt := { v, typed, start := s, end0 := e, origLen := x.len, index := s, end_ := e }
  let (it', out) ← eatLoop cfg drainDrop it eats [toString (e - s)]
  match fin with
  | .drop => do drainDrop it'; pure out
  | .forget => pure out

/-- the script builds the replacement values one by one; if building one panics (a lazy clone of a missing
element), the values built so far go out of scope, in the order they were built -/
def mkValsFrom (cfg : Cfg) (acc : List Val) : List Src → WM (List Val)
  | [] => pure acc
  | s :: ss => do
    let x ← WM.onUnwind (mkVal cfg s) (dropRepl cfg acc)
    mkValsFrom cfg (acc ++ [x]) ss

def mkVals (cfg : Cfg) (l : List Src) : WM (List Val) := mkValsFrom cfg [] l

def splice (cfg : Cfg) (v : Nat) (lo hi : Bnd) (typed : Bool) (repl : List Src) (claim : Int)
    (eats : List (End × Sink)) (fin : Fin) : WM Out := do
  let vals ← mkVals cfg repl
  let claimed := ((vals.length : Int) + claim).toNat
  let x ← getVec v
  let (s, e) ← WM.onUnwind (WM.lift (intoRange x.len lo hi)) (dropRepl cfg vals)
  setLen v s
  let it : RangeIt := { v, typed, start := s, end0 := e, origLen := x.len, index := s, end_ := e }
  let (it', out) ← eatLoop cfg (fun i => spliceDrop cfg i vals claimed) it eats [toString (e - s)]
  match fin with
  | .drop => do spliceDrop cfg it' vals claimed; pure out
  | .forget => do
    -- `mem::forget(splice)`: the replacement iterator is leaked with it; non-owning raw
    -- values stay with the caller
    leakRepl vals
    pure out

/-! ### whole-vector operations -/

def newVec (cfg : Cfg) (ty : Nat) (bk : Backend) (cloneable : Bool) (withCap : Option Nat) :
    WM Out := do
  let cap ← WM.lift (VecSt.buildCap bk cfg.size cfg.align)
  let w ← WM.get
  let idx := w.vecs.length
  let v : VecSt := { ty, size := cfg.size, align := cfg.align, hasDrop := cfg.hasDrop, cloneable,
                     bk, cap, cells := [], len := 0, gen := 0, live := true }
  WM.modify fun w => { w with vecs := w.vecs ++ [v] }
  if bk = .reloc then emit [.memBuild cap]
  match withCap with
  | none => pure []
  | some n =>
    WM.onUnwind (vecOp idx (fun s => s.memResize n))
      (do let s ← getVec idx
          if bk = .reloc then emit [.memDrop]
          setVec idx { s with live := false })
    pure []

/-- `impl Drop for AnyVecRaw` followed by the drop of its `Mem` -/
def dropVec (v : Nat) : WM Unit := do
  let x ← getVec v
  let release : WM Unit := do
    let x ← getVec v
    match x.bk with
    | .heap =>
      if x.size * x.cap ≠ 0 then emit [.dealloc (x.size * x.cap) x.align]
    | .reloc => emit [.memDrop]
    | _ => pure ()
    setVec v { x with live := false, cells := [], cap := 0 }
  setLen v 0
  WM.onUnwind (dropRange v false 0 x.len) release
  release

def cloneEmptyIn (v : Nat) (bk : Backend) : WM Nat := do
  let x ← getVec v
  let cap ← WM.lift (VecSt.buildCap bk x.size x.align)
  let w ← WM.get
  let idx := w.vecs.length
  let nv : VecSt := { x with bk, cap, cells := [], len := 0, gen := 0, live := true }
  WM.modify fun w => { w with vecs := w.vecs ++ [nv] }
  if bk = .reloc then emit [.memBuild cap]
  pure idx

def cloneLoop (src dst : Nat) : Nat → Nat → WM Unit
  | _, 0 => pure ()
  | i, k+1 => do
    let id ← readElem src i
    let n ← cloneElem id
    writeCell dst i (.val n)
    cloneLoop src dst (i + 1) k

/-- `impl Clone for AnyVec` → `AnyVecRaw::clone` -/
def cloneVec (v : Nat) : WM Out := do
  let x ← getVec v
  if !x.cloneable then WM.ub "bad-op: clone of a non-Cloneable vector (does not type-check)" else
  let idx ← cloneEmptyIn v x.bk
  WM.onUnwind
    (do vecOp idx (fun s => s.reserve x.len)
        cloneLoop v idx 0 x.len
        setLen idx x.len)
    (do setLen idx 0
        dropVec idx)
  pure []

/-- the caller writes `k` fresh values into the spare capacity starting at slot `i` -/
def writeFresh (v : Nat) : Nat → Nat → WM Unit
  | _, 0 => pure ()
  | i, n+1 => do
    let id ← fresh
    writeCell v i (.val id)
    writeFresh v (i + 1) n

def step (cfg : Cfg) (op : Op) : WM Out :=
  match op with
  | .new ty bk c => newVec cfg ty bk c none
  | .withCap ty bk c n => newVec cfg ty bk c (some n)
  | .push v s => do
    let x ← mkVal cfg s
    push v x
    pure []
  | .insert v i s => do
    let x ← mkVal cfg s
    insert v i x
    pure []
  | .tpush v => do
    let x ← getVec v
    let id ← fresh
    pushUnchecked v (.wrapper id x.ty)
    pure []
  | .tinsert v i => do
    let x ← getVec v
    let id ← fresh
    insertUnchecked v i (.wrapper id x.ty)
    pure []
  | .pop v k => do
    let x ← getVec v
    if x.len = 0 then pure ["N"] else do
    setLen v (x.len - 1)
    sinkHandle cfg { v, kind := .pop, typed := false } k
  | .remove v i k => do
    let x ← getVec v
    if i < x.len then do
      setLen v i
      sinkHandle cfg { v, kind := .remove i (x.len - 1), typed := false } k
    else WM.panic "Index out of range!"
  | .swapRemove v i k => do
    let x ← getVec v
    if i < x.len then do
      setLen v i
      sinkHandle cfg { v, kind := .swapRemove i x.gen (x.len - 1), typed := false } k
    else WM.panic "Index out of range!"
  | .tpop v => do
    let x ← getVec v
    if x.len = 0 then pure ["N"] else do
    setLen v (x.len - 1)
    sinkHandle cfg { v, kind := .pop, typed := true } (.downcast x.ty)
  | .tremove v i => do
    let x ← getVec v
    if i < x.len then do
      setLen v i
      sinkHandle cfg { v, kind := .remove i (x.len - 1), typed := true } (.downcast x.ty)
    else WM.panic "Index out of range!"
  | .tswapRemove v i => do
    let x ← getVec v
    if i < x.len then do
      setLen v i
      sinkHandle cfg { v, kind := .swapRemove i x.gen (x.len - 1), typed := true } (.downcast x.ty)
    else WM.panic "Index out of range!"
  | .clear v => do
    let x ← getVec v
    setLen v 0
    dropRange v false 0 x.len
    pure []
  | .get v i atPanics => do
    let x ← getVec v
    if i < x.len then do
      let id ← readElem v i
      pure [cfg.tok id]
    else if atPanics then WM.panic "called `Option::unwrap()` on a `None` value"
    else pure ["N"]
  | .iter v cs => do
    let x ← getVec v
    iterGo cfg v { index := 0, end_ := x.len } cs [toString x.len]
  | .drain v lo hi typed eats fin => drain cfg v lo hi typed eats fin
  | .splice v lo hi typed repl claim eats fin => splice cfg v lo hi typed repl claim eats fin
  | .clone v => cloneVec v
  | .cloneEmpty v => do
    let x ← getVec v
    let _ ← cloneEmptyIn v x.bk
    pure []
  | .cloneEmptyIn v bk => do
    let _ ← cloneEmptyIn v bk
    pure []
  | .reserve v n => do vecOp v (fun s => s.reserve n); pure []
  | .reserveExact v n => do vecOp v (fun s => s.reserveExact n); pure []
  | .shrinkToFit v => do vecOp v VecSt.shrinkToFit; pure []
  | .shrinkTo v n => do vecOp v (fun s => s.shrinkTo n); pure []
  | .release => do
    let w ← WM.get
    WM.modify fun w => { w with held := [] }
    releaseGo cfg.hasDrop w.held.reverse
    pure []
  | .dropVec v => do
    -- dropping a vector that never came to life (its construction panicked) is a no-op of the script
    let w ← WM.get
    match w.vecs[v]? with
    | some x => if x.live then do dropVec v; pure [] else pure []
    | none => pure []
  | .info v => do
    let x ← getVec v
    pure ["t" ++ toString x.ty, "s" ++ toString x.size, "a" ++ toString x.align, "l" ++ toString x.len,
          "c" ++ toString x.cap, "e" ++ (if x.len = 0 then "1" else "0"), "d" ++ (if x.hasDrop then "1" else "0")]
  | .dcvec v ty => do
    let x ← getVec v
    pure (if ty = x.ty then ["rS", "mS"] else ["rN", "mN"])
  | .wswap v i ty => do
    let x ← getVec v
    if i < x.len then do
      let fid ← fresh
      if ty ≠ x.ty then
        WM.onUnwind (WM.panic "assertion `left == right` failed") (dropElem cfg.hasDrop fid)
      else do
        let old ← readElem v i
        writeCell v i (.val fid)
        dropElem cfg.hasDrop old
        pure [cfg.tok old]
    else WM.panic "called `Option::unwrap()` on a `None` value"
  | .tassign v i => do
    let x ← getVec v
    let fid ← fresh
    if i < x.len then do
      let old ← readElem v i
      -- `*slot = new`: the old value is dropped, then the new one is moved in
      WM.onUnwind (dropElem x.hasDrop old) (writeCell v i (.val fid))
      writeCell v i (.val fid)
      pure []
    else
      WM.onUnwind (WM.panic "called `Option::unwrap()` on a `None` value") (dropElem cfg.hasDrop fid)
  | .swapb v i j => do
    let x ← getVec v
    if i < x.len ∧ j < x.len then do
      let a := x.cells.get i
      let b := x.cells.get j
      writeCell v i b
      writeCell v j a
      pure []
    else WM.ub "bad-op: swapb out of range"
  | .tswap v i j => do
    let x ← getVec v
    if i < x.len ∧ j < x.len then do
      let a := x.cells.get i
      let b := x.cells.get j
      writeCell v i b
      writeCell v j a
      pure []
    else WM.panic "index out of bounds"
  | .eswap v i w j => do
    let x ← getVec v
    let y ← getVec w
    if v = w then WM.ub "bad-op: eswap within one vector" else
    if i < x.len then
      if j < y.len then
        if x.ty ≠ y.ty then WM.panic "assertion `left == right` failed"
        else do
          let a := x.cells.get i
          let b := y.cells.get j
          writeCell v i b
          writeCell w j a
          pure []
      else WM.panic "called `Option::unwrap()` on a `None` value"
    else WM.panic "called `Option::unwrap()` on a `None` value"
  | .probe v => do
    let x ← getVec v
    let ids := (x.abs.map fun c => match c with | .val id => cfg.tok id | .uninit => "?")
    let s := if cfg.size = 0 then "z" ++ toString x.len else (if ids.isEmpty then "-" else String.intercalate "." ids)
    pure [s, s, s]
  | .views v => do
    let x ← getVec v
    pure ["b" ++ toString x.asBytes.2, "s" ++ toString x.spareBytes.2,
          "o" ++ toString x.spareBytes.1, "sc" ++ toString x.spareCapacity.2,
          "so" ++ toString x.spareCapacity.1, "al0", "ts" ++ toString (if x.typedSlice.1 = x.asBytes.1 then 1 else 0),
          "tl" ++ toString x.typedSlice.2]
  | .setLenSpare v k _ => do
    let x ← getVec v
    if x.len + k ≤ x.cap then do
      writeFresh v x.len k
      setLen v (x.len + k)
      pure []
    else WM.ub "bad-op: set_len beyond capacity"
  | .rawrt v => do
    let x ← getVec v
    match x.bk with
    | .heap | .empty | .reloc => do
      setVec v (VecSt.fromRawParts x.intoRawParts)
      pure []
    | _ => WM.ub "bad-op: raw parts on this backend (does not type-check)"
  | .rawparts v => do
    let x ← getVec v
    match x.bk with
    | .heap | .empty | .reloc => do
      let p := x.intoRawParts
      let fields := fun (q : VecSt.RawParts) =>
        ["l" ++ toString q.len, "c" ++ toString q.capacity, "s" ++ toString q.size,
         "a" ++ toString q.align, "t" ++ toString q.ty, "d" ++ (if q.hasDrop then "1" else "0")]
      setVec v (VecSt.fromRawParts p)
      pure (fields p ++ fields p.clone)
    | _ => WM.ub "bad-op: raw parts on this backend (does not type-check)"

  | .lazyDc v i _ ty => do
    -- `v.at(i).lazy_clone()[.lazy_clone()…].downcast::<T>()`: the type is checked first, then the
    -- element is cloned into the caller's hands; a refused lazy clone is dropped without any effect
    let x ← getVec v
    if i < x.len then
      if ty ≠ x.ty then pure ["N"]
      else do
        let id ← readElem v i
        let n ← cloneElem id
        hold n
        pure [cfg.tok n]
    else WM.panic "called `Option::unwrap()` on a `None` value"

  | .iterClone v pre post => do
    -- `let mut it = v.iter(); <pre>; let mut it2 = it.clone(); drop(it); <post on it2>`: a clone of an
    -- iterator is an iterator over exactly what the original had left
    let x ← getVec v
    let c0 : Cursor := { index := 0, end_ := x.len }
    let o1 ← iterGo cfg v c0 pre [toString x.len]
    let c1 := pre.foldl (fun c e => (c.step e).2) c0
    iterGo cfg v c1 post (o1 ++ ["C:" ++ toString c1.len])

/-- one script step: the library call(s), then the caller destroys the raw values the library
did not take -/
def runStep (cfg : Cfg) (op : Op) (fault : Option Nat) (w : World) : World × Res Out :=
  let w0 := { w with ev := [], fault := fault, pendingRaw := [] }
  let (w1, r) := step cfg op w0
  let w2 := { w1 with fault := none }
  let rec destroy : List Nat → World → World
    | [], w => w
    | id :: ids, w => destroy ids (dropElem cfg.hasDrop id w).1
  let w3 := destroy w2.pendingRaw.reverse w2
  ({ w3 with pendingRaw := [] }, r)

end World
end AnyVec
