/-
  AnyVecModel.Model.Driver — line protocol: script line → `Op`, step → observation line.
  Shared format with /verif/harness (see DESIGN.md, appendix D).
-/
import AnyVecModel.Model.Ops
namespace AnyVec
namespace Driver

def splitOnChar (c : Char) (s : List Char) : List (List Char) :=
  let rec go : List Char → List Char → List (List Char) → List (List Char)
    | [], cur, acc => (cur.reverse :: acc).reverse
    | x :: xs, cur, acc => if x = c then go xs [] (cur.reverse :: acc) else go xs (x :: cur) acc
  go s [] []

def natOf (cs : List Char) : Option Nat := (String.ofList cs).toNat?

def stripPrefix (p : String) (s : List Char) : Option (List Char) :=
  let pl := p.toList
  if pl.isPrefixOf s then some (s.drop pl.length) else none

/-- `a.b.c` → naturals -/
def dotted (cs : List Char) : Option (List Nat) :=
  (splitOnChar '.' cs).mapM natOf

def parseBackend (s : String) : Option Backend :=
  match splitOnChar ':' s.toList with
  | [k] => match String.ofList k with
    | "heap" => some .heap
    | "reloc" => some .reloc
    | "empty" => some .empty
    | _ => none
  | [k, a] => if String.ofList k = "stack" then (natOf a).map .stack else none
  | [k, a, b] =>
    if String.ofList k = "stackn" then do
      let n ← natOf a
      let m ← natOf b
      pure (.stackN n m)
    else none
  | _ => none

def parseSink (s : List Char) : Option Sink :=
  if s = "drop".toList then some .drop
  else if s = "forget".toList then some .forget
  else if let some r := stripPrefix "dc" s then (natOf r).map .downcast
  else if let some r := stripPrefix "push" s then (natOf r).map .pushTo
  else if let some r := stripPrefix "ins" s then
    match dotted r with | some [w, j] => some (.insertTo w j) | _ => none
  else if let some r := stripPrefix "lazy" s then
    match dotted r with | some [w, k] => some (.lazyTo w k) | _ => none
  else if s = "info".toList then some .info
  else if let some r := stripPrefix "swapr" s then (natOf r).map .swapVal
  else if let some r := stripPrefix "swap" s then (natOf r).map .swapVal
  else none

def parseSrc (s : List Char) : Option Src :=
  match s with
  | 'w' :: r => (natOf r).map .wrapper
  | 'r' :: r => (natOf r).map .raw
  -- untyped / unsized raw pointers offered to the unchecked entry points: the same value kind as far as the model goes
  | 's' :: r => (natOf r).map .raw
  | 'y' :: r => (natOf r).map .raw
  | 'l' :: r => match dotted r with | some [v, i, d] => some (.lazyRef v i d) | _ => none
  | _ => none

def parseBnd (s : List Char) : Option Bnd :=
  match s with
  | ['u'] => some .unb
  | 'i' :: r => (natOf r).map .incl
  | 'e' :: r => (natOf r).map .excl
  | _ => none

def parseList {α} (f : List Char → Option α) (s : String) : Option (List α) :=
  if s = "-" then some [] else (splitOnChar ',' s.toList).mapM f

def parseEat (s : List Char) : Option (End × Sink) :=
  match s with
  | 'F' :: ':' :: r => (parseSink r).map (fun k => (.front, k))
  | 'B' :: ':' :: r => (parseSink r).map (fun k => (.back, k))
  | _ => none

def parseEnds (s : String) : Option (List End) :=
  if s = "-" then some [] else
  s.toList.mapM fun c => if c = 'F' then some End.front else if c = 'B' then some End.back else none

def parseFin (s : String) : Option Fin :=
  if s = "drop" then some .drop else if s = "forget" then some .forget else none

def parsePath (s : String) : Option Bool :=
  if s = "t" then some true else if s = "e" then some false else none

def parseInt (s : String) : Option Int :=
  match s.toList with
  | '+' :: r => (natOf r).map Int.ofNat
  | '-' :: r => (natOf r).map (fun n => - Int.ofNat n)
  | r => (natOf r).map Int.ofNat

def isCloneable (s : String) : Bool := "clone".toList.isPrefixOf s.toList

def parseOp (toks : List String) : Option Op :=
  match toks with
  | ["new", ty, bk, tr] => do pure (.new (← ty.toNat?) (← parseBackend bk) (isCloneable tr))
  | ["withcap", ty, bk, tr, n] =>
    do pure (.withCap (← ty.toNat?) (← parseBackend bk) (isCloneable tr) (← n.toNat?))
  | ["push", v, s] => do pure (.push (← v.toNat?) (← parseSrc s.toList))
  | ["insert", v, i, s] => do pure (.insert (← v.toNat?) (← i.toNat?) (← parseSrc s.toList))
  | ["tpush", v] => do pure (.tpush (← v.toNat?))
  | ["tinsert", v, i] => do pure (.tinsert (← v.toNat?) (← i.toNat?))
  | ["pop", v, k] => do pure (.pop (← v.toNat?) (← parseSink k.toList))
  | ["remove", v, i, k] => do pure (.remove (← v.toNat?) (← i.toNat?) (← parseSink k.toList))
  | ["swapremove", v, i, k] =>
    do pure (.swapRemove (← v.toNat?) (← i.toNat?) (← parseSink k.toList))
  | ["tpop", v] => do pure (.tpop (← v.toNat?))
  | ["tremove", v, i] => do pure (.tremove (← v.toNat?) (← i.toNat?))
  | ["tswapremove", v, i] => do pure (.tswapRemove (← v.toNat?) (← i.toNat?))
  | ["clear", v] => do pure (.clear (← v.toNat?))
  | ["get", v, i] => do pure (.get (← v.toNat?) (← i.toNat?) false)
  | ["at", v, i] => do pure (.get (← v.toNat?) (← i.toNat?) true)
  | ["iter", v, cs] => do pure (.iter (← v.toNat?) (← parseEnds cs))
  | ["drain", v, lo, hi, p, eats, fin] =>
    do pure (.drain (← v.toNat?) (← parseBnd lo.toList) (← parseBnd hi.toList) (← parsePath p)
              (← parseList parseEat eats) (← parseFin fin))
  | ["splice", v, lo, hi, p, repl, claim, eats, fin] =>
    do pure (.splice (← v.toNat?) (← parseBnd lo.toList) (← parseBnd hi.toList) (← parsePath p)
              (← parseList parseSrc repl) (← parseInt claim) (← parseList parseEat eats)
              (← parseFin fin))
  | ["clone", v] => do pure (.clone (← v.toNat?))
  | ["cloneempty", v] => do pure (.cloneEmpty (← v.toNat?))
  | ["cloneemptyin", v, bk] => do pure (.cloneEmptyIn (← v.toNat?) (← parseBackend bk))
  | ["reserve", v, n] => do pure (.reserve (← v.toNat?) (← n.toNat?))
  | ["reserveexact", v, n] => do pure (.reserveExact (← v.toNat?) (← n.toNat?))
  | ["shrinktofit", v] => do pure (.shrinkToFit (← v.toNat?))
  | ["shrinkto", v, n] => do pure (.shrinkTo (← v.toNat?) (← n.toNat?))
  | ["info", v] => do pure (.info (← v.toNat?))
  | ["dcvec", v, ty] => do pure (.dcvec (← v.toNat?) (← ty.toNat?))
  | ["wswap", v, i, ty] => do pure (.wswap (← v.toNat?) (← i.toNat?) (← ty.toNat?))
  | ["tassign", v, i] => do pure (.tassign (← v.toNat?) (← i.toNat?))
  | ["swapb", v, i, j] => do pure (.swapb (← v.toNat?) (← i.toNat?) (← j.toNat?))
  | ["tswap", v, i, j] => do pure (.tswap (← v.toNat?) (← i.toNat?) (← j.toNat?))
  | ["eswap", v, i, w, j] => do pure (.eswap (← v.toNat?) (← i.toNat?) (← w.toNat?) (← j.toNat?))
  | ["probe", v] => do pure (.probe (← v.toNat?))
  | ["views", v] => do pure (.views (← v.toNat?))
  | ["setlen", v, k, p] => do pure (.setLenSpare (← v.toNat?) (← k.toNat?) (← parsePath p))
  | ["rawrt", v] => do pure (.rawrt (← v.toNat?))
  | ["rawparts", v] => do pure (.rawparts (← v.toNat?))
  | ["iterc", v, pre, post] => do pure (.iterClone (← v.toNat?) (← parseEnds pre) (← parseEnds post))
  | ["lazydc", v, i, dp, ty] => do pure (.lazyDc (← v.toNat?) (← i.toNat?) (← dp.toNat?) (← ty.toNat?))
  | ["release"] => some .release
  | ["dropvec", v] => do pure (.dropVec (← v.toNat?))
  | _ => none

/-! ### printing -/

def joinOr (sep : String) (xs : List String) : String :=
  if xs.isEmpty then "-" else String.intercalate sep xs

/-- identities as the implementation can see them: truncated to the element's bytes -/
def showId (cfg : Cfg) (id : Nat) : String := cfg.tok id

def hashIds (ids : List Nat) : Nat :=
  ids.foldl (fun h id => (h * 1000003 + id + 1) % 2305843009213693951) 7

def showCell (cfg : Cfg) : Cell → String
  | .val id => showId cfg id
  | .uninit => "?"

def cellNum (cfg : Cfg) : Cell → Nat
  | .val id => if cfg.size = 0 then 0 else if cfg.size < 8 then id % (256 ^ cfg.size) else id
  | .uninit => 18446744073709551615

def showVec (cfg : Cfg) (k : Nat) (v : VecSt) : String :=
  let cells := (v.cells.ensure v.len).take v.len
  let body :=
    if cfg.size = 0 then "z"
    else if v.len > 300 then "#" ++ toString (hashIds (cells.map (cellNum cfg)))
    else joinOr "," (cells.map (showCell cfg))
  s!"V{k} {v.len} {v.cap} {body}"

def showEvent (cfg : Cfg) : Event → String
  | .drop id => "d" ++ showId cfg id
  | .clone s n => "c" ++ showId cfg s ++ ">" ++ showId cfg n
  | .alloc s a => s!"a{s}:{a}"
  | .realloc o n a => s!"ra{o}>{n}:{a}"
  | .dealloc s a => s!"da{s}:{a}"
  | .memBuild c => s!"mb{c}"
  | .memExpand a => s!"me{a}"
  | .memResize n => s!"mr{n}"
  | .memDrop => "md"

def showVecs (cfg : Cfg) (vs : List VecSt) : List String :=
  let rec go : Nat → List VecSt → List String
    | _, [] => []
    | k, v :: rest => if v.live then showVec cfg k v :: go (k + 1) rest else go (k + 1) rest
  go 0 vs

def showStep (cfg : Cfg) (w : World) (r : Res Out) : String :=
  let res := match r with
    | .ok _ => "ok"
    | .panic _ => "panic"
    | .ub m => "ub:" ++ m.replace " " "_"
  let out := match r with
    | .ok o => joinOr "," (o.map fun t => if cfg.size = 0 then t else t)
    | _ => "-"
  let vs := showVecs cfg w.vecs
  let ev := joinOr "," (w.ev.reverse.map (showEvent cfg))
  let held := if cfg.size = 0 then "z" ++ toString w.held.length
              else joinOr "," (w.held.reverse.map (showId cfg))
  "R " ++ res ++ "|O " ++ out ++ "|" ++ String.intercalate "|" vs ++ (if vs.isEmpty then "" else "|")
    ++ "E " ++ ev ++ "|H " ++ held

structure DState where
  cfg : Cfg := { size := 8, align := 8, hasDrop := true }
  w : World := {}
  fault : Option Nat := none

def parseKV (key : String) (tok : String) : Option Nat :=
  (stripPrefix (key ++ "=") tok.toList).bind natOf

/-- one script line → new driver state and the line to print (if any) -/
def handleLine (st : DState) (line : String) : DState × Option String :=
  let toks := (line.splitOn " ").filter (· ≠ "")
  match toks with
  | [] => (st, none)
  | "#" :: _ => (st, none)
  | "case" :: name :: rest =>
    let size := (rest.findSome? (parseKV "size")).getD 8
    let align := (rest.findSome? (parseKV "align")).getD 8
    let drop := (rest.findSome? (parseKV "drop")).getD 1
    ({ cfg := { size, align, hasDrop := drop ≠ 0 }, w := {}, fault := none }, some ("C " ++ name))
  | ["fault", k] =>
    match k.toNat? with
    | some n => ({ st with fault := some n }, none)
    | none => (st, some "bad-op")
  | ["end"] =>
    (st, some s!"Z created={st.w.created} drops={if st.cfg.hasDrop then st.w.dropLog.length else 0}")
  | _ =>
    match parseOp toks with
    | none => (st, some "bad-op")
    | some op =>
      let (w', r) := World.runStep st.cfg op st.fault st.w
      ({ st with w := w', fault := none }, some (showStep st.cfg w' r))

end Driver
end AnyVec
