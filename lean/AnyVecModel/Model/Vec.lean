/-
  AnyVecModel.Model.Vec — one vector (`AnyVecRaw<M>` + its `Mem`): state, storage backends,
  capacity management and the checked element-level memory accesses.
  Follows src/any_vec_raw.rs, src/mem/{heap,stack,stack_n,empty}.rs statement by statement.
-/
import AnyVecModel.Model.Basic
namespace AnyVec

/-- storage backends (`MemBuilder`s). `reloc` is the harness's user-defined resizable backend
that moves the storage on every capacity change. -/
inductive Backend where
  | heap
  | stack (bytes : Nat)
  | stackN (n bytes : Nat)
  | reloc
  | empty
  deriving DecidableEq, Repr, Inhabited

/-- what the harness can observe of one library call -/
inductive Event where
  | drop (id : Nat)
  | clone (src new : Nat)
  | alloc (size align : Nat)
  | realloc (oldSize newSize align : Nat)
  | dealloc (size align : Nat)
  | memBuild (cap : Nat)
  | memExpand (additional : Nat)
  | memResize (newSize : Nat)
  | memDrop
  deriving DecidableEq, Repr

structure VecSt where
  ty : Nat
  size : Nat
  align : Nat
  hasDrop : Bool
  cloneable : Bool
  bk : Backend
  cap : Nat
  cells : Mem
  len : Nat
  /-- storage generation: bumped whenever the storage may move -/
  gen : Nat
  /-- false once the vector has been dropped / decomposed -/
  live : Bool
  deriving Repr, Inhabited, DecidableEq

namespace VecSt

/-- the elements the API shows -/
def abs (v : VecSt) : List Cell := v.cells.take v.len

/-! ### Backends -/

/-- `MemBuilder::build(element_layout)`: initial capacity -/
def STACK_MAX_ALIGN : Nat := 64

def buildCap (bk : Backend) (size align : Nat) : Res Nat :=
  match bk with
  | .heap => .ok 0
  | .reloc => .ok 0
  | .empty => .ok 0
  | .stack bytes =>
    if align ≤ STACK_MAX_ALIGN then .ok (if size = 0 then USIZE_MAX else bytes / size)
    else .panic "Unsupported alignment!"
  | .stackN n bytes =>
    if align ≤ STACK_MAX_ALIGN then
      if n * size ≤ bytes then .ok n else .panic "Insufficient storage!"
    else .panic "Unsupported alignment!"

def resizable : Backend → Bool
  | .heap => true
  | .reloc => true
  | _ => false

/-- `HeapMem::resize(new_size)` -/
def heapResize (v : VecSt) (newSize : Nat) : Res (VecSt × List Event) :=
  if v.cap = newSize then .ok (v, [])
  else if v.size = 0 then .ok ({ v with cap := newSize, cells := v.cells.take newSize }, [])
  else if newSize = 0 then
    .ok ({ v with cap := 0, cells := [], gen := v.gen + 1 }, [.dealloc (v.size * v.cap) v.align])
  else
    match checkedMul v.size newSize with
    | .ok bytes =>
      -- `Layout::from_size_align(bytes, align)`: rounded-up size must not exceed isize::MAX
      if bytes + (v.align - 1) > ISIZE_MAX then .panic "capacity overflow"
      else
        let ev := if v.cap = 0 then Event.alloc bytes v.align
                  else Event.realloc (v.size * v.cap) bytes v.align
        .ok ({ v with cap := newSize, cells := v.cells.take newSize, gen := v.gen + 1 }, [ev])
    | .panic m => .panic m
    | .ub m => .ub m

/-- `Reloc` (harness backend) `resize`: always moves -/
def relocResize (v : VecSt) (newSize : Nat) : Res (VecSt × List Event) :=
  match checkedMul v.size newSize with
  | .ok bytes =>
    if bytes > 1073741824 then .panic "reloc: too big"
    else .ok ({ v with cap := newSize, cells := v.cells.take newSize, gen := v.gen + 1 },
              [.memResize newSize])
  | .panic m => .panic m
  | .ub m => .ub m

/-- `MemResizable::resize` -/
def memResize (v : VecSt) (newSize : Nat) : Res (VecSt × List Event) :=
  match v.bk with
  | .heap => heapResize v newSize
  | .reloc => relocResize v newSize
  | _ => .ub "resize on a non-resizable backend (does not type-check)"

/-- `Mem::expand(additional)` -/
def memExpand (v : VecSt) (additional : Nat) : Res (VecSt × List Event) :=
  match v.bk with
  | .heap =>
    match checkedAdd v.cap additional with
    | .ok requested => heapResize v (max (satMul v.cap 2) requested)
    | .panic m => .panic m
    | .ub m => .ub m
  | .reloc =>
    match checkedAdd v.cap additional with
    | .ok requested =>
      match relocResize v (max (v.cap + v.cap / 2) requested) with
      | .ok (v', ev) => .ok (v', ev ++ [.memExpand additional])
      | .panic m => .panic m
      | .ub m => .ub m
    | .panic m => .panic m
    | .ub m => .ub m
  | _ => .panic "Can't change capacity!"

/-- `MemResizable::expand_exact(additional)` (default method: `resize(size + additional)`) -/
def memExpandExact (v : VecSt) (additional : Nat) : Res (VecSt × List Event) :=
  memResize v (v.cap + additional)

/-- `AnyVecRaw::reserve_one` -/
def reserveOne (v : VecSt) : Res (VecSt × List Event) :=
  if v.len = v.cap then memExpand v 1 else .ok (v, [])

/-- `AnyVecRaw::reserve(additional)` -/
def reserve (v : VecSt) (additional : Nat) : Res (VecSt × List Event) :=
  match checkedAdd v.len additional with
  | .ok newLen => if v.cap < newLen then memExpand v (newLen - v.cap) else .ok (v, [])
  | .panic m => .panic m
  | .ub m => .ub m

/-- `AnyVecRaw::reserve_exact(additional)` -/
def reserveExact (v : VecSt) (additional : Nat) : Res (VecSt × List Event) :=
  match checkedAdd v.len additional with
  | .ok newLen => if v.cap < newLen then memExpandExact v (newLen - v.cap) else .ok (v, [])
  | .panic m => .panic m
  | .ub m => .ub m

/-- `AnyVecRaw::shrink_to_fit` -/
def shrinkToFit (v : VecSt) : Res (VecSt × List Event) := memResize v v.len

/-- `AnyVecRaw::shrink_to(min_capacity)` -/
def shrinkTo (v : VecSt) (minCap : Nat) : Res (VecSt × List Event) :=
  memResize v (min v.cap (max v.len minCap))

/-! ### Views (byte offsets are relative to the storage pointer) -/

/-- `as_bytes` / `as_bytes_mut`: (byte offset, byte length) -/
def asBytes (v : VecSt) : Nat × Nat := (0, v.len * v.size)
/-- `spare_bytes_mut`: (byte offset, byte length) -/
def spareBytes (v : VecSt) : Nat × Nat := (v.len * v.size, (v.cap - v.len) * v.size)
/-- typed `as_slice` / `as_mut_slice`: (byte offset, element count) -/
def typedSlice (v : VecSt) : Nat × Nat := (0, v.len)
/-- typed `spare_capacity_mut`: (byte offset, element count) -/
def spareCapacity (v : VecSt) : Nat × Nat := (v.len * v.size, v.cap - v.len)

/-! ### Raw parts (`AnyVec::into_raw_parts`, `RawParts::clone`, `AnyVec::from_raw_parts`) -/

/-- `RawParts<M>`: the storage handle (here: the storage itself with its generation), and the
plain-data fields -/
structure RawParts where
  bk : Backend
  handleCells : Mem
  handleGen : Nat
  capacity : Nat
  len : Nat
  size : Nat
  align : Nat
  ty : Nat
  hasDrop : Bool
  cloneable : Bool
  deriving Repr, DecidableEq

/-- `into_raw_parts`: no destructor, no allocator call; every field read off the vector -/
def intoRawParts (v : VecSt) : RawParts :=
  { bk := v.bk, handleCells := v.cells, handleGen := v.gen, capacity := v.cap, len := v.len,
    size := v.size, align := v.align, ty := v.ty, hasDrop := v.hasDrop, cloneable := v.cloneable }

/-- `impl Clone for RawParts`: field by field -/
def RawParts.clone (p : RawParts) : RawParts :=
  { bk := p.bk, handleCells := p.handleCells, handleGen := p.handleGen, capacity := p.capacity,
    len := p.len, size := p.size, align := p.align, ty := p.ty, hasDrop := p.hasDrop,
    cloneable := p.cloneable }

/-- `from_raw_parts` -/
def fromRawParts (p : RawParts) : VecSt :=
  { ty := p.ty, size := p.size, align := p.align, hasDrop := p.hasDrop, cloneable := p.cloneable,
    bk := p.bk, cap := p.capacity, cells := p.handleCells, len := p.len, gen := p.handleGen, live := true }

/-! ### Checked element-level accesses -/

/-- read slot `i` *as an element* (destructor, clone, downcast, bit-copy of a value) -/
def readElem (v : VecSt) (i : Nat) : Res Nat :=
  if i < v.cap then
    match v.cells.get i with
    | .val id => .ok id
    | .uninit => .ub "read of an uninitialised or moved-out slot"
  else .ub "element read out of bounds"

/-- write one element-sized value to slot `i` -/
def writeCell (v : VecSt) (i : Nat) (c : Cell) : Res VecSt :=
  if i < v.cap then .ok { v with cells := (v.cells.ensure (i + 1)).set i c }
  else .ub "element write out of bounds"

/-- `ptr::copy` (typed path, `move_elements_at`) or `crate::copy_bytes` (erased path) of `n` slots -/
def moveElems (v : VecSt) (erasedCopy : Bool) (src dst n : Nat) : Res VecSt :=
  if src + n ≤ v.cap ∧ dst + n ≤ v.cap then
    let m := v.cells.ensure (max (src + n) (dst + n))
    .ok { v with cells := if erasedCopy then copyBytes m v.size src dst n else memmove m src dst n }
  else .ub "element move out of bounds"

end VecSt
end AnyVec
