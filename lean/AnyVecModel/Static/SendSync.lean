/-
  Model of the crate's `Send` / `Sync` / `Clone` / capacity-API decision logic (C15), hand-written from
  the `unsafe impl`s and struct definitions of src/{any_vec,any_vec_typed,element,iter}.rs, src/ops/temp.rs.
  It is compared row by row with the real compiler's verdicts on the full grid by `bin/check C15`.
-/
namespace AnyVec.Static

/-- one point of the erased grid: the declared constraint set and the backend's auto traits -/
structure Env where
  setSend : Bool
  setSync : Bool
  setClone : Bool
  bSend : Bool      -- MemBuilder: Send
  bSync : Bool
  mSend : Bool      -- MemBuilder::Mem: Send
  mSync : Bool
  deriving Repr, DecidableEq

/-- `unsafe impl<Traits: ?Sized + Send + Trait, M: MemBuilder + Send> Send for AnyVec<Traits, M> where M::Mem: Send` -/
def vecSend (e : Env) : Bool := e.setSend && e.bSend && e.mSend
/-- `unsafe impl<Traits: ?Sized + Sync + Trait, M: MemBuilder + Sync> Sync for AnyVec<Traits, M> where M::Mem: Sync` -/
def vecSync (e : Env) : Bool := e.setSync && e.bSync && e.mSync

inductive Kind where
  | shared | exclusive
  deriving Repr, DecidableEq

/-- the public handle / iterator types derived from an erased vector -/
inductive H where
  | elementRef | elementMut | element | iterRef | iterMut | pop | remove | swapRemove | drain | splice
  deriving Repr, DecidableEq

def H.all : List H := [.elementRef, .elementMut, .element, .iterRef, .iterMut, .pop, .remove, .swapRemove, .drain, .splice]

def H.name : H → String
  | .elementRef => "ElementRef" | .elementMut => "ElementMut" | .element => "Element"
  | .iterRef => "IterRef" | .iterMut => "IterMut" | .pop => "Pop" | .remove => "Remove"
  | .swapRemove => "SwapRemove" | .drain => "Drain" | .splice => "Splice"

/-- which kind of reference to the vector the handle stands for -/
def H.kind : H → Kind
  | .elementRef => .shared
  | .iterRef => .shared
  | _ => .exclusive

/-- `Send` of each handle as the crate implements it.
`ElementPointer`: `unsafe impl Send where AnyVec: Send`; `ElementRef` additionally carries a marker for the
shared borrow; `Iter`: `unsafe impl Send where IterItem::Item: Send`; `TempValue`: `where AnyVec: Send`. -/
def hSend (h : H) (e : Env) : Bool :=
  match h with
  | .elementRef => vecSend e && vecSync e
  | .iterRef => vecSend e && vecSync e
  | _ => vecSend e

/-- `Sync` of each handle as the crate implements it -/
def hSync (_ : H) (e : Env) : Bool := vecSync e

/-- typed views: the element type's and the backend's auto traits -/
structure TEnv where
  tSend : Bool
  tSync : Bool
  bSend : Bool
  bSync : Bool
  mSend : Bool
  mSync : Bool
  deriving Repr, DecidableEq

inductive TH where
  | anyVecRef | anyVecMut | anyVecTyped
  /-- the (unnameable) iterators `AnyVecTyped::drain` / `AnyVecTyped::splice` return: `Iter<AnyVecRawPtr<T, M>, _>`
  inside, whose `unsafe impl Send / Sync` ask for `AnyVecTyped<T, M>: Send / Sync` -/
  | typedDrain | typedSplice
  deriving Repr, DecidableEq
def TH.all : List TH := [.anyVecRef, .anyVecMut, .anyVecTyped, .typedDrain, .typedSplice]
def TH.name : TH → String
  | .anyVecRef => "AnyVecRef" | .anyVecMut => "AnyVecMut" | .anyVecTyped => "AnyVecTyped"
  | .typedDrain => "TypedDrain" | .typedSplice => "TypedSplice"
def TH.kind : TH → Kind
  | .anyVecRef => .shared
  | _ => .exclusive

def typedSend (t : TEnv) : Bool := t.tSend && t.bSend && t.mSend
def typedSync (t : TEnv) : Bool := t.tSync && t.bSync && t.mSync
def thSend (h : TH) (t : TEnv) : Bool :=
  match h with
  | .anyVecRef => typedSend t && typedSync t
  | _ => typedSend t
def thSync (_ : TH) (t : TEnv) : Bool := typedSync t

/-- element classes for the constructors: which auto traits / `Clone` the element type has -/
structure Elem where
  send : Bool
  sync : Bool
  clone : Bool
  deriving Repr, DecidableEq

/-- `SatisfyTraits<Traits>`: `new::<T>()` type-checks iff the declared set is within the element's traits -/
def ctorOk (setSend setSync setClone : Bool) (t : Elem) : Bool :=
  (!setSend || t.send) && (!setSync || t.sync) && (!setClone || t.clone)

/-- `impl Clone for AnyVec<Traits: Cloneable>` -/
def cloneAvailable (setClone : Bool) : Bool := setClone

inductive Bk where
  | heap | stack | stackN | empty
  deriving Repr, DecidableEq
/-- `reserve`/`reserve_exact`/`shrink_to*` need `M::Mem: MemResizable`; `with_capacity` needs `MemBuilderSizeable` -/
def capacityApi : Bk → Bool
  | .heap => true
  | _ => false

end AnyVec.Static
