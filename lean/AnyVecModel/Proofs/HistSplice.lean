/-
  `splice` under an arbitrary fault state, with a replacement iterator that may lie about its
  length and may yield values of the wrong type.
-/
import AnyVecModel.Proofs.HistMove
import AnyVecModel.Proofs.Splice
namespace AnyVec
open World

/-- plain replacement values (owning wrappers / raw pointers) of arbitrary types with their identities -/
inductive Plains : List Val → List Nat → Prop where
  | nil : Plains [] []
  | cons (x : Val) (id : Nat) (vs : List Val) (ids : List Nat) : x.Plain id → Plains vs ids → Plains (x :: vs) (id :: ids)

theorem Plains.length_eq {vs : List Val} {ids : List Nat} (h : Plains vs ids) : ids.length = vs.length := by
  induction h with
  | nil => rfl
  | cons _ _ _ _ _ _ ih => simp [ih]

theorem Plains.drop {vs : List Val} {ids : List Nat} (h : Plains vs ids) (j : Nat) : Plains (vs.drop j) (ids.drop j) := by
  induction h generalizing j with
  | nil => simpa using Plains.nil
  | cons x id vs ids hx _ ih =>
    cases j with
    | zero => exact Plains.cons x id vs ids hx (by simpa using ih 0)
    | succ j => simpa using ih j

/-- one plain value going out of scope, any fault state -/
theorem valDrop_plain (b : Bool) (x : Val) (id : Nat) (hx : x.Plain id) (w : World) :
    ∃ dl pl : List Nat, dl ++ pl = [id] ∧
      (valDrop b x w).1.erase = { w.erase with dropLog := dl ++ w.dropLog, pendingRaw := pl ++ w.pendingRaw } ∧
      ((valDrop b x w).2 = .ok () ∨ ∃ m, (valDrop b x w).2 = .panic m) := by
  cases hx with
  | wrapper id ty =>
    obtain ⟨e1, e5⟩ := dropElem_erase b id w
    exact ⟨[id], [], rfl, e1, e5⟩
  | raw id ty => exact ⟨[], [id], rfl, rfl, Or.inl rfl⟩

/-- the replacement iterator going out of scope: every remaining value is dropped exactly once
(owning wrappers destroyed, raw pointers handed back to the caller), even when destructors panic -/
theorem dropRepl_plains (cfg : Cfg) (vals : List Val) (ids : List Nat) (hp : Plains vals ids) (w : World) :
    ∃ dl pl : List Nat, (dl ++ pl).Perm ids ∧
      (dropRepl cfg vals w).1.erase = { w.erase with dropLog := dl ++ w.dropLog, pendingRaw := pl ++ w.pendingRaw } ∧
      ((dropRepl cfg vals w).2 = .ok () ∨ ∃ m, (dropRepl cfg vals w).2 = .panic m) := by
  induction hp generalizing w with
  | nil => exact ⟨[], [], List.Perm.refl _, rfl, Or.inl rfl⟩
  | cons x id vs ids' hx _ ih =>
    obtain ⟨dl1, pl1, hdp1, e1, e5⟩ := valDrop_plain cfg.hasDrop x id hx w
    simp only [dropRepl, WM.bind_apply, WM.onUnwind]
    cases hvd : valDrop cfg.hasDrop x w with
    | mk w1 res =>
      rw [hvd] at e1 e5
      simp only at e1 e5
      have e3 : w1.dropLog = dl1 ++ w.dropLog := by have := congrArg World.dropLog e1; exact this
      have e4 : w1.pendingRaw = pl1 ++ w.pendingRaw := by have := congrArg World.pendingRaw e1; exact this
      obtain ⟨dl2, pl2, hdp2, i1, i5⟩ := ih w1
      have hperm : ((dl2 ++ dl1) ++ (pl2 ++ pl1)).Perm (id :: ids') := by
        rw [List.perm_iff_count]
        intro a
        have q1 := hdp2.count_eq a
        have q2 := congrArg (List.count a) hdp1
        simp only [List.count_append, List.count_cons, List.count_nil] at q1 q2 ⊢
        omega
      have key : ∀ w2 : World, w2.erase = { w1.erase with dropLog := dl2 ++ w1.dropLog, pendingRaw := pl2 ++ w1.pendingRaw } →
          w2.erase = { w.erase with dropLog := (dl2 ++ dl1) ++ w.dropLog, pendingRaw := (pl2 ++ pl1) ++ w.pendingRaw } := by
        intro w2 h2
        rw [h2, e1]; simp [e3, e4]
      rcases e5 with hok | ⟨m, hp'⟩
      · subst hok
        simp only
        exact ⟨dl2 ++ dl1, pl2 ++ pl1, hperm, key _ i1, i5⟩
      · subst hp'
        simp only
        cases hrg : dropRepl cfg vs w1 with
        | mk w2 res2 =>
          rw [hrg] at i1 i5
          simp only at i1 i5
          rcases i5 with hok2 | ⟨m2, hp2⟩
          · subst hok2; exact ⟨dl2 ++ dl1, pl2 ++ pl1, hperm, key _ i1, Or.inr ⟨m, rfl⟩⟩
          · subst hp2; exact ⟨dl2 ++ dl1, pl2 ++ pl1, hperm, key _ i1, Or.inr ⟨m, rfl⟩⟩


theorem valTy_plain (x : Val) (id : Nat) (hx : x.Plain id) : ∃ ty', valTy x = (pure ty' : WM Nat) := by
  cases hx <;> exact ⟨_, rfl⟩

theorem valMoveInto_plain (x : Val) (id : Nat) (hx : x.Plain id) (v slot : Nat) :
    valMoveInto x v slot = World.writeCell v slot (.val id) := by
  cases hx <;> rfl


/-- unwinding through a clean-up that itself returns or panics: the original panic goes on -/
theorem onUnwind_after_panic {α} (m : WM α) (cleanup : WM Unit) (w wa : World) (msg : String)
    (hm : m w = (wa, .panic msg))
    (hc : (cleanup wa).2 = .ok () ∨ ∃ m', (cleanup wa).2 = .panic m') :
    WM.onUnwind m cleanup w = ((cleanup wa).1, .panic msg) := by
  simp only [WM.onUnwind, hm]
  cases hcl : cleanup wa with
  | mk wb rb =>
    rw [hcl] at hc
    simp only at hc
    rcases hc with h | ⟨m', h⟩ <;> subst h <;> rfl

/-- the write loop of `Splice::drop` at every crash point, for any claimed length and any item types:
`j` items were written to consecutive slots; on a panic every value not written was dropped once -/
theorem spliceWrite_any (cfg : Cfg) (v ty : Nat) (budget : Nat) :
    ∀ (vals : List Val) (ids : List Nat), Plains vals ids → ∀ (w : World) (x : VecSt) (written : Nat),
      w.vecs[v]? = some x → x.live = true → x.len + written + budget ≤ x.cap →
    ∃ (j : Nat) (x' : VecSt) (dl pl : List Nat), j ≤ budget ∧ j ≤ vals.length ∧
      (spliceWrite cfg v ty budget vals written w).1.erase =
        { (w.upd v x').erase with dropLog := dl ++ w.dropLog, pendingRaw := pl ++ w.pendingRaw } ∧
      x'.len = x.len ∧ x'.cap = x.cap ∧ x'.live = true ∧
      x.cells.length ≤ x'.cells.length ∧ x'.cells.length ≤ max x.cells.length (x.len + written + j) ∧
      (∀ t, t < x.len + written → x'.cells.get t = x.cells.get t) ∧
      (∀ t, t < j → x'.cells.get (x.len + written + t) = .val (ids.getD t 0)) ∧
      (∀ t, x.len + written + j ≤ t → x'.cells.get t = x.cells.get t) ∧
      (((spliceWrite cfg v ty budget vals written w).2 = .ok (written + j, vals.drop j) ∧ dl = [] ∧ pl = []) ∨
       ((∃ m, (spliceWrite cfg v ty budget vals written w).2 = .panic m) ∧ (dl ++ pl).Perm (ids.drop j))) := by
  induction budget with
  | zero =>
    intro vals ids hp w x written hv hl hcap
    refine ⟨0, x, [], [], Nat.le_refl _, Nat.zero_le _, ?_, rfl, rfl, hl, Nat.le_refl _, by omega, fun _ _ => rfl,
      fun t ht => absurd ht (by omega), fun _ _ => rfl, Or.inl ⟨by simp [spliceWrite], rfl, rfl⟩⟩
    simp only [spliceWrite, WM.pure_apply, World.upd_self w v x hv]
    rfl
  | succ budget ih =>
    intro vals ids hp w x written hv hl hcap
    have hlt : v < w.vecs.length := (List.getElem?_eq_some_iff.mp hv).1
    cases hp with
    | nil =>
      obtain ⟨f', htk | ⟨m, htk⟩⟩ := tick_shape w
      · refine ⟨0, x, [], [], Nat.zero_le _, Nat.zero_le _, ?_, rfl, rfl, hl, Nat.le_refl _, by omega, fun _ _ => rfl,
          fun t ht => absurd ht (by omega), fun _ _ => rfl, Or.inl ⟨by simp [spliceWrite, htk], rfl, rfl⟩⟩
        simp only [spliceWrite, WM.bind_apply, htk, WM.pure_apply, World.upd_self w v x hv]
        rfl
      · refine ⟨0, x, [], [], Nat.zero_le _, Nat.zero_le _, ?_, rfl, rfl, hl, Nat.le_refl _, by omega, fun _ _ => rfl,
          fun t ht => absurd ht (by omega), fun _ _ => rfl, Or.inr ⟨⟨m, by simp [spliceWrite, htk]⟩, by simp⟩⟩
        simp only [spliceWrite, WM.bind_apply, htk, World.upd_self w v x hv]
        rfl
    | cons x0 id rest ids' hx hrest =>
      obtain ⟨f', htk | ⟨m, htk⟩⟩ := tick_shape w
      · -- `next()` returned the item
        obtain ⟨ty', hty'⟩ := valTy_plain x0 id hx
        have hvt : ({ w with fault := f' } : World).vecs[v]? = some x := hv
        by_cases hmis : ty' = ty
        · -- right type: written to slot `len + written`
          have hb : x.len + written < x.cap := by omega
          let x1 : VecSt := { x with cells := (x.cells.ensure (x.len + written + 1)).set (x.len + written) (.val id) }
          let w1 : World := ({ w with fault := f' } : World).upd v x1
          have hv1 : w1.vecs[v]? = some x1 := by simp [w1, hlt]
          have hwr : World.writeCell v (x.len + written) (.val id) { w with fault := f' } = (w1, .ok ()) := by
            simp only [World.writeCell, WM.bind_apply, getVec_ok _ v x hvt hl, WM.lift,
              VecSt.writeCell_ok x (x.len + written) _ hb, setVec_apply]
            rfl
          obtain ⟨j, x', dl, pl, hj1, hj2, he, k1, k2, k3, k4, k5, k6, k7, k8, hres⟩ := ih rest ids' hrest w1 x1 (written + 1)
            hv1 hl (by show x.len + (written + 1) + budget ≤ x.cap; omega)
          have hstep : spliceWrite cfg v ty (budget + 1) (x0 :: rest) written w =
              spliceWrite cfg v ty budget rest (written + 1) w1 := by
            simp only [spliceWrite, WM.bind_apply, WM.onUnwind, htk, hty', WM.pure_apply, getVec_ok _ v x hvt hl,
              hmis, ne_eq, not_true_eq_false, if_false, valMoveInto_plain x0 id hx, hwr]
          rw [hstep]
          have hx1len : x1.cells.length = max x.cells.length (x.len + written + 1) := by simp [x1]
          refine ⟨j + 1, x', dl, pl, by omega, by simp; omega, ?_, by simpa [x1] using k1, by simpa [x1] using k2, k3,
            by rw [hx1len] at k4; omega, by rw [hx1len] at k5; simp only [x1] at k5; omega, ?_, ?_, ?_, ?_⟩
          · rw [he]; simp [World.upd, w1, World.erase]
          · intro t ht
            rw [k6 t (by show t < x.len + (written + 1); omega)]
            simp only [x1]
            rw [get_set_ne _ _ _ _ (by omega), ensure_get]
          · intro t ht
            cases t with
            | zero =>
              rw [Nat.add_zero, k6 (x.len + written) (by show x.len + written < x.len + (written + 1); omega)]
              simp only [x1]
              rw [get_set_self _ _ _ (by simp; omega)]
              simp
            | succ t =>
              have := k7 t (by omega)
              simp only [x1] at this
              rw [show x.len + written + (t + 1) = x.len + (written + 1) + t by omega, this]
              simp
          · intro t ht
            rw [k8 t (by show x.len + (written + 1) + j ≤ t; omega)]
            simp only [x1]
            rw [get_set_ne _ _ _ _ (by omega), ensure_get]
          · rcases hres with ⟨r1, r2, r3⟩ | ⟨r1, r2⟩
            · left; exact ⟨by rw [r1]; simp [Nat.add_assoc, Nat.add_comm 1 j], r2, r3⟩
            · right; exact ⟨r1, by simpa using r2⟩
        · -- wrong type: the item and the rest of the iterator are dropped, the panic propagates
          obtain ⟨dl1, pl1, hdp1, e1, e5⟩ := valDrop_plain cfg.hasDrop x0 id hx { w with fault := none }
          have hstep : spliceWrite cfg v ty (budget + 1) (x0 :: rest) written w =
              WM.onUnwind (WM.onUnwind (WM.panic "Type mismatch!" : WM (Nat × List Val)) (valDrop cfg.hasDrop x0))
                (dropRepl cfg rest) { w with fault := f' } := by
            simp only [spliceWrite, WM.bind_apply, WM.onUnwind, htk, hty', WM.pure_apply, getVec_ok _ v x hvt hl,
              hmis, ne_eq, not_false_eq_true, if_true]
          rw [hstep]
          have hin : WM.onUnwind (WM.panic "Type mismatch!" : WM (Nat × List Val)) (valDrop cfg.hasDrop x0) { w with fault := f' } =
              ((valDrop cfg.hasDrop x0 { w with fault := none }).1, .panic "Type mismatch!") :=
            onUnwind_after_panic _ _ _ { w with fault := none } _ rfl e5
          obtain ⟨dl2, pl2, hdp2, i1, i5⟩ := dropRepl_plains cfg rest ids' hrest (valDrop cfg.hasDrop x0 { w with fault := none }).1
          rw [onUnwind_after_panic _ _ _ _ _ hin i5]
          have e3 : (valDrop cfg.hasDrop x0 { w with fault := none }).1.dropLog = dl1 ++ w.dropLog := by
            have := congrArg World.dropLog e1; exact this
          have e4 : (valDrop cfg.hasDrop x0 { w with fault := none }).1.pendingRaw = pl1 ++ w.pendingRaw := by
            have := congrArg World.pendingRaw e1; exact this
          have hperm : ((dl2 ++ dl1) ++ (pl2 ++ pl1)).Perm ((id :: ids').drop 0) := by
            rw [List.perm_iff_count]
            intro a
            have q1 := hdp2.count_eq a
            have q2 := congrArg (List.count a) hdp1
            simp only [List.count_append, List.count_cons, List.count_nil, List.drop_zero] at q1 q2 ⊢
            omega
          refine ⟨0, x, dl2 ++ dl1, pl2 ++ pl1, Nat.zero_le _, Nat.zero_le _, ?_, rfl, rfl, hl, Nat.le_refl _,
            by omega, fun _ _ => rfl, fun t ht => absurd ht (by omega), fun _ _ => rfl, Or.inr ⟨⟨_, rfl⟩, hperm⟩⟩
          simp only [World.upd_self w v x hv]
          rw [i1, e1]; simp [e3, e4, World.erase]
      · -- `next()` panicked: the iterator is dropped with everything it still holds
        obtain ⟨dl2, pl2, hdp2, i1, i5⟩ := dropRepl_plains cfg (x0 :: rest) (id :: ids') (Plains.cons x0 id rest ids' hx hrest)
          { w with fault := f' }
        have hou := onUnwind_after_panic tick (dropRepl cfg (x0 :: rest)) w { w with fault := f' } m htk i5
        have hstep : spliceWrite cfg v ty (budget + 1) (x0 :: rest) written w =
            ((dropRepl cfg (x0 :: rest) { w with fault := f' }).1, .panic m) := by
          simp only [spliceWrite, WM.bind_apply, hou]
        rw [hstep]
        refine ⟨0, x, dl2, pl2, Nat.zero_le _, Nat.zero_le _, ?_, rfl, rfl, hl, Nat.le_refl _,
          by omega, fun _ _ => rfl, fun t ht => absurd ht (by omega), fun _ _ => rfl, Or.inr ⟨⟨_, rfl⟩, by simpa using hdp2⟩⟩
        simp only [World.upd_self w v x hv]
        rw [i1]; rfl


theorem Mem.get_eq_getElem (m : Mem) (t : Nat) (h : t < m.length) : m.get t = m[t] := by
  simp [Mem.get, List.getD_eq_getElem?_getD, h]

/-- the vector `Splice::drop` leaves behind, from its slots: prefix ++ written items ++ tail -/
theorem splice_final (d : VecSt) (hg : d.Good) (s e j : Nat) (L : List Nat) (hse : s ≤ e) (hel : e ≤ d.len)
    (x5 : VecSt) (hjL : j ≤ L.length)
    (hlen : x5.len = s + j + (d.len - e)) (hcl : x5.len ≤ x5.cells.length) (hcc : x5.cells.length ≤ x5.cap)
    (h1 : ∀ t, t < s → x5.cells.get t = d.cells.get t)
    (h2 : ∀ t, t < j → x5.cells.get (s + t) = .val (L.getD t 0))
    (h3 : ∀ t, t < d.len - e → x5.cells.get (s + j + t) = d.cells.get (e + t)) :
    x5.abs = seg d.abs 0 s ++ (L.take j).map Cell.val ++ seg d.abs e d.len ∧ x5.Good := by
  have hw1 := hg.wf.len_le
  have habs : x5.abs = seg d.abs 0 s ++ (L.take j).map Cell.val ++ seg d.abs e d.len := by
    apply List.ext_getElem?
    intro t
    simp only [VecSt.abs, seg, List.drop_zero, List.take_take, List.getElem?_append, List.length_take,
      List.length_map, List.getElem?_take, List.getElem?_map, List.getElem?_drop, List.length_append]
    have hm1 : min (min s d.len) d.cells.length = s := by omega
    have hm2 : min j L.length = j := by omega
    have hm3 : min s d.len = s := by omega
    have hm4 : min d.len d.len = d.len := by omega
    rw [hm1, hm2, hm3, hm4]
    by_cases ht1 : t < s
    · have := h1 t ht1
      rw [Mem.get_eq_getElem _ t (by omega), Mem.get_eq_getElem _ t (by omega)] at this
      have ht5 : t < x5.len := by omega
      simp [ht1, ht5, List.getElem?_eq_getElem (by omega : t < x5.cells.length),
        List.getElem?_eq_getElem (by omega : t < d.cells.length), this]
      omega
    · by_cases ht2 : t < s + j
      · have := h2 (t - s) (by omega)
        rw [show s + (t - s) = t by omega, Mem.get_eq_getElem _ t (by omega)] at this
        have ht5 : t < x5.len := by omega
        have ht6 : t - s < j := by omega
        have ht7 : t - s < L.length := by omega
        simp [ht1, ht2, ht5, ht6, List.getElem?_eq_getElem (by omega : t < x5.cells.length), this,
          List.getD_eq_getElem?_getD, List.getElem?_eq_getElem ht7]
      · by_cases ht3 : t < s + j + (d.len - e)
        · have := h3 (t - s - j) (by omega)
          rw [show s + j + (t - s - j) = t by omega, Mem.get_eq_getElem _ t (by omega),
            Mem.get_eq_getElem _ _ (by omega)] at this
          have ht5 : t < x5.len := by omega
          have ht8 : e + (t - (s + j)) < d.len := by omega
          have ht9 : e + (t - s - j) = e + (t - (s + j)) := by omega
          simp [ht1, ht2, ht5, List.getElem?_eq_getElem (by omega : t < x5.cells.length), this, ht8,
            List.getElem?_eq_getElem (by omega : e + (t - (s + j)) < d.cells.length), ht9]
        · have ht5 : ¬ t < x5.len := by omega
          have ht8 : ¬ e + (t - (s + j)) < d.len := by omega
          simp [ht1, ht2, ht5, ht8]
  refine ⟨habs, ⟨hcl, hcc⟩, ?_⟩
  intro c hc
  rw [habs] at hc
  rcases List.mem_append.mp hc with hc | hc
  · rcases List.mem_append.mp hc with hc | hc
    · exact hg.allVal c (List.mem_of_mem_take (List.mem_of_mem_drop hc))
    · obtain ⟨i, _, rfl⟩ := List.mem_map.mp hc
      exact ⟨i, rfl⟩
  · exact hg.allVal c (List.mem_of_mem_take (List.mem_of_mem_drop hc))


/-- the part of `Splice::drop` after the not yet yielded elements were destroyed -/
def spliceTail (cfg : Cfg) (it : RangeIt) (repl : List Val) (claimed ty : Nat) : WM Unit := do
  let elementsLeft := it.origLen - it.end0
  let replaceEnd := it.start + claimed
  moveElems it.v false it.end0 replaceEnd elementsLeft
  let (written, rest) ← spliceWrite cfg it.v ty claimed repl 0
  if written < claimed then
    moveElems it.v false replaceEnd (it.start + written) elementsLeft
  setLen it.v (it.start + written + elementsLeft)
  dropRepl cfg rest

theorem take_drop_count {α} [DecidableEq α] (l : List α) (j : Nat) (a : α) :
    l.count a = (l.take j).count a + (l.drop j).count a := by
  conv => lhs; rw [← List.take_append_drop j l]
  rw [List.count_append]

/-- the vector with only the prefix `[0, s)` visible -/
theorem prefix_good (d : VecSt) (hg : d.Good) (s : Nat) (hs : s ≤ d.len) (x' : VecSt) (hlen : x'.len = s)
    (hcl : s ≤ x'.cells.length) (hcc : x'.cells.length ≤ x'.cap) (h1 : ∀ t, t < s → x'.cells.get t = d.cells.get t) :
    x'.abs = seg d.abs 0 s ∧ x'.Good := by
  have := splice_final d hg s d.len 0 [] hs (Nat.le_refl _) x' (Nat.zero_le _) (by omega) (by omega) hcc h1
    (fun t ht => absurd ht (by omega)) (fun t ht => absurd ht (by omega))
  simpa [seg_self] using this

theorem spliceTail_any (cfg : Cfg) (d : VecSt) (hg : d.Good) (v : Nat) (typed : Bool) (s e : Nat) (hse : s ≤ e)
    (hel : e ≤ d.len) (it : RangeIt) (hit : ItOk d v typed s e it) (vals : List Val) (L : List Nat)
    (hp : Plains vals L) (claimed ty : Nat) (w3 : World) (x1 : VecSt)
    (hv : w3.vecs[v]? = some x1) (hl : x1.live = true) (hlen : x1.len = s)
    (hcells : ∀ t, t < d.len → x1.cells.get t = d.cells.get t) (hcl : d.len ≤ x1.cells.length)
    (hcc : x1.cells.length ≤ x1.cap) (hcap : s + claimed + (d.len - e) ≤ x1.cap) :
    ∃ (d' : VecSt) (dl pl : List Nat),
      (spliceTail cfg it vals claimed ty w3).1.erase =
        { (w3.upd v d').erase with dropLog := dl ++ w3.dropLog, pendingRaw := pl ++ w3.pendingRaw } ∧
      d'.Good ∧
      Leq (d'.abs ++ (dl ++ pl).map Cell.val) (L.map Cell.val ++ (seg d.abs 0 s ++ seg d.abs e d.len)) ∧
      ((spliceTail cfg it vals claimed ty w3).2 = .ok () ∨ ∃ m, (spliceTail cfg it vals claimed ty w3).2 = .panic m) := by
  have hvlt : v < w3.vecs.length := (List.getElem?_eq_some_iff.mp hv).1
  have hw1 := hg.wf.len_le
  -- first move: the tail goes to where the claimed length says it will start
  let M := max (e + (d.len - e)) (s + claimed + (d.len - e))
  let x2 : VecSt := { x1 with cells := memmove (x1.cells.ensure M) e (s + claimed) (d.len - e) }
  let w4 : World := w3.upd v x2
  have hmove1 : moveElems it.v false it.end0 (it.start + claimed) (it.origLen - it.end0) w3 = (w4, .ok ()) := by
    rw [hit.v_eq, hit.end0_eq, hit.start_eq, hit.orig_eq]
    simp only [moveElems, WM.bind_apply, getVec_ok w3 v x1 hv hl, WM.lift,
      VecSt.moveElems_ok x1 false e (s + claimed) (d.len - e) (by omega) (by omega), setVec_apply]
    rfl
  have hv4 : w4.vecs[v]? = some x2 := by simp [w4, hvlt]
  have hx2len : x2.cells.length = max x1.cells.length M := by
    simp only [x2]
    rw [memmove_length _ _ _ _ (by simp; omega) (by simp; omega)]; simp
  have hx2get : ∀ t, x2.cells.get t =
      if s + claimed ≤ t ∧ t < s + claimed + (d.len - e) then x1.cells.get (e + (t - (s + claimed))) else x1.cells.get t := by
    intro t
    simp only [x2]
    rw [memmove_get _ _ _ _ _ (by simp; omega) (by simp; omega)]
    split <;> simp [ensure_get]
  obtain ⟨j, x3, dl, pl, hj1, hj2, he, k1, k2, k3, k4, k5, k6, k7, k8, hres⟩ :=
    spliceWrite_any cfg v ty claimed vals L hp w4 x2 0 hv4 hl (by show x1.len + 0 + claimed ≤ x1.cap; omega)
  have hjL : j ≤ L.length := by rw [hp.length_eq]; exact hj2
  simp only [spliceTail, WM.bind_apply, hmove1]
  rw [hit.v_eq]
  cases hsw : spliceWrite cfg v ty claimed vals 0 w4 with
  | mk w5 res =>
    rw [hsw] at he hres
    simp only at he hres
    have e2 : w5.vecs = w3.vecs.set v x3 := by
      have := congrArg World.vecs he
      simpa [w4, World.upd] using this
    have e3 : w5.dropLog = dl ++ w3.dropLog := by have := congrArg World.dropLog he; exact this
    have e4 : w5.pendingRaw = pl ++ w3.pendingRaw := by have := congrArg World.pendingRaw he; exact this
    have hv5 : w5.vecs[v]? = some x3 := by rw [e2]; simp [hvlt]
    have hx3pre : ∀ t, t < s → x3.cells.get t = d.cells.get t := by
      intro t ht
      rw [k6 t (by show t < x1.len + 0; omega), hx2get t, if_neg (by omega)]
      exact hcells t (by omega)
    rcases hres with ⟨rok, rdl, rpl⟩ | ⟨⟨m, rp⟩, rperm⟩
    · -- the write loop finished: `j` items written, `vals.drop j` still in the iterator
      subst rok; subst rdl; subst rpl
      simp only [Nat.zero_add]
      -- facts about the slots after the write loop
      have hx3tail : ∀ t, t < d.len - e → x3.cells.get (s + claimed + t) = d.cells.get (e + t) := by
        intro t ht
        rw [k8 _ (by show x1.len + 0 + j ≤ s + claimed + t; omega), hx2get, if_pos (by omega)]
        rw [show e + (s + claimed + t - (s + claimed)) = e + t by omega]
        exact hcells _ (by omega)
      have hx3mid : ∀ t, t < j → x3.cells.get (s + t) = .val (L.getD t 0) := by
        intro t ht
        have := k7 t ht
        rw [show x2.len + 0 + t = s + t by show x1.len + 0 + t = s + t; omega] at this
        exact this
      have hx3len : x3.cells.length ≤ x3.cap := by
        rw [k2]; show x3.cells.length ≤ x1.cap
        have : x2.cells.length ≤ x1.cap := by rw [hx2len]; omega
        have h5 := k5
        rw [show x2.len + 0 + j = s + j by show x1.len + 0 + j = s + j; omega] at h5
        omega
      have hx3ge : s + claimed + (d.len - e) ≤ x3.cells.length := by
        have : s + claimed + (d.len - e) ≤ x2.cells.length := by rw [hx2len]; omega
        omega
      -- what remains to be shown once the final vector `x5` is known
      have hclose : ∀ (x5 : VecSt), x5.abs = seg d.abs 0 s ++ (L.take j).map Cell.val ++ seg d.abs e d.len → x5.Good →
          ∃ (d' : VecSt) (dl pl : List Nat),
            (dropRepl cfg (vals.drop j) (w5.upd v x5)).1.erase =
              { (w3.upd v d').erase with dropLog := dl ++ w3.dropLog, pendingRaw := pl ++ w3.pendingRaw } ∧
            d'.Good ∧
            Leq (d'.abs ++ (dl ++ pl).map Cell.val) (L.map Cell.val ++ (seg d.abs 0 s ++ seg d.abs e d.len)) ∧
            ((dropRepl cfg (vals.drop j) (w5.upd v x5)).2 = .ok () ∨
              ∃ m, (dropRepl cfg (vals.drop j) (w5.upd v x5)).2 = .panic m) := by
        intro x5 habs5 hgood5
        obtain ⟨dl2, pl2, hdp2, i1, i5⟩ := dropRepl_plains cfg (vals.drop j) (L.drop j) (hp.drop j) (w5.upd v x5)
        refine ⟨x5, dl2, pl2, ?_, hgood5, ?_, i5⟩
        · rw [i1]
          simp only [World.erase_upd, he]
          simp [World.upd, w4, e3, e4, World.erase]
        · rw [habs5, Leq_iff_count]
          intro a
          have q1 := (hdp2.map Cell.val).count_eq a
          have q2 := take_drop_count (L.map Cell.val) j a
          simp only [List.map_append, List.count_append, List.map_take, List.map_drop] at q1 q2 ⊢
          omega
      rw [hit.end0_eq, hit.start_eq, hit.orig_eq]
      by_cases hjc : j < claimed
      · let M2 := max (s + claimed + (d.len - e)) (s + j + (d.len - e))
        let x4 : VecSt := { x3 with cells := memmove (x3.cells.ensure M2) (s + claimed) (s + j) (d.len - e) }
        have hb1 : s + claimed + (d.len - e) ≤ x3.cap := by rw [k2]; exact hcap
        have hb2 : s + j + (d.len - e) ≤ x3.cap := by omega
        have hx4len : x4.cells.length = x3.cells.length := by
          simp only [x4, M2]
          rw [memmove_length _ _ _ _ (by simp; omega) (by simp; omega)]; simp; omega
        have hx4get : ∀ t, x4.cells.get t =
            if s + j ≤ t ∧ t < s + j + (d.len - e) then x3.cells.get (s + claimed + (t - (s + j))) else x3.cells.get t := by
          intro t
          simp only [x4, M2]
          rw [memmove_get _ _ _ _ _ (by simp; omega) (by simp; omega)]
          split <;> simp [ensure_get]
        have hv5' : (w5.upd v x4).vecs[v]? = some x4 := by
          show (w5.vecs.set v x4)[v]? = _
          have : v < w5.vecs.length := by rw [e2]; simpa using hvlt
          simp [this]
        have hm2 : moveElems v false (s + claimed) (s + j) (d.len - e) w5 = (w5.upd v x4, .ok ()) := by
          simp only [moveElems, WM.bind_apply, getVec_ok w5 v x3 hv5 k3, WM.lift,
            VecSt.moveElems_ok x3 false (s + claimed) (s + j) (d.len - e) hb1 hb2, setVec_apply]
          rfl
        have hsl : setLen v (s + j + (d.len - e)) (w5.upd v x4) = (w5.upd v { x4 with len := s + j + (d.len - e) }, .ok ()) := by
          simp only [setLen, WM.bind_apply, getVec_ok (w5.upd v x4) v x4 hv5' (by show x3.live = true; exact k3),
            setVec_apply, World.upd_upd]
        simp only [hjc, if_true, WM.bind_apply, hm2, hsl]
        obtain ⟨h51, h52⟩ := splice_final d hg s e j L hse hel { x4 with len := s + j + (d.len - e) } hjL rfl
          (by show s + j + (d.len - e) ≤ x4.cells.length; rw [hx4len]; omega)
          (by show x4.cells.length ≤ x3.cap; rw [hx4len]; exact hx3len)
          (by intro t ht; show x4.cells.get t = _; rw [hx4get, if_neg (by omega)]; exact hx3pre t ht)
          (by intro t ht; show x4.cells.get (s + t) = _; rw [hx4get, if_neg (by omega)]; exact hx3mid t ht)
          (by intro t ht; show x4.cells.get (s + j + t) = _
              rw [hx4get, if_pos (by omega), show s + claimed + (s + j + t - (s + j)) = s + claimed + t by omega]
              exact hx3tail t ht)
        exact hclose _ h51 h52
      · have hjeq : j = claimed := by omega
        have hsl : setLen v (s + j + (d.len - e)) w5 = (w5.upd v { x3 with len := s + j + (d.len - e) }, .ok ()) := by
          simp only [setLen, WM.bind_apply, getVec_ok w5 v x3 hv5 k3, setVec_apply]
        simp only [hjc, if_false, WM.bind_apply, hsl]
        obtain ⟨h51, h52⟩ := splice_final d hg s e j L hse hel { x3 with len := s + j + (d.len - e) } hjL rfl
          (by show s + j + (d.len - e) ≤ x3.cells.length; omega) hx3len hx3pre hx3mid
          (by intro t ht; rw [hjeq]; exact hx3tail t ht)
        exact hclose _ h51 h52
    · -- the write loop panicked: only the prefix stays visible
      subst rp
      simp only
      obtain ⟨h51, h52⟩ := prefix_good d hg s (by omega) x3 (by rw [k1]; exact hlen)
        (by have : s ≤ x2.cells.length := by rw [hx2len]; omega
            omega)
        (by rw [k2]; show x3.cells.length ≤ x1.cap
            have : x2.cells.length ≤ x1.cap := by rw [hx2len]; omega
            have h5 := k5
            rw [show x2.len + 0 + j = s + j by show x1.len + 0 + j = s + j; omega] at h5
            omega)
        hx3pre
      refine ⟨x3, dl, pl, ?_, h52, ?_, Or.inr ⟨m, rfl⟩⟩
      · rw [he]; simp [World.upd, w4, World.erase]
      · rw [h51, Leq_iff_count]
        intro a
        have q1 := (rperm.map Cell.val).count_eq a
        have q2 := take_drop_count (L.map Cell.val) j a
        simp only [List.map_append, List.count_append, List.map_drop] at q1 q2 ⊢
        omega


theorem spliceDrop_eq (cfg : Cfg) (it : RangeIt) (repl : List Val) (claimed : Nat) :
    spliceDrop cfg it repl claimed = (do
      let x ← getVec it.v
      let newLen ← WM.onUnwind (WM.lift (do
          let replaceEnd ← checkedAdd it.start claimed
          let newLen ← checkedAdd replaceEnd (it.origLen - it.end0)
          pure newLen : Res Nat)) (dropRepl cfg repl)
      WM.onUnwind (vecOp it.v (fun s => s.reserve (newLen - it.start))) (dropRepl cfg repl)
      WM.onUnwind (dropRange it.v it.typed it.index it.end_) (dropRepl cfg repl)
      spliceTail cfg it repl claimed x.ty) := rfl

/-- the new length `Splice::drop` computes with checked additions -/
theorem spliceLen_cases (s claimed left : Nat) :
    ((do let a ← checkedAdd s claimed; let b ← checkedAdd a left; pure b : Res Nat) = .ok (s + claimed + left)) ∨
    ∃ m, (do let a ← checkedAdd s claimed; let b ← checkedAdd a left; pure b : Res Nat) = .panic m := by
  simp only [Bind.bind, Res.bind, Pure.pure, checkedAdd]
  by_cases h1 : s + claimed ≤ USIZE_MAX
  · by_cases h2 : s + claimed + left ≤ USIZE_MAX
    · left; simp [h1, h2]
    · right; exact ⟨"capacity overflow", by simp [h1, h2]⟩
  · right; exact ⟨"capacity overflow", by simp [h1]⟩

/-- **`Splice::drop` at every crash point**, for plain replacement values of any types and any claimed
length: the vector ends up as prefix ++ (some written replacement items) ++ tail, or as the bare
prefix; every replacement value is written, destroyed or handed back exactly once (or leaked together
with the tail); the not yet yielded elements are destroyed at most once. -/
theorem spliceDrop_any (cfg : Cfg) (d : VecSt) (hg : d.Good) (hl : d.live = true) (v : Nat) (typed : Bool) (s e : Nat)
    (hse : s ≤ e) (hel : e ≤ d.len) (it : RangeIt) (hit : ItOk d v typed s e it) (vals : List Val) (L : List Nat)
    (hp : Plains vals L) (claimed : Nat) (w1 : World) (hv : w1.vecs[v]? = some (d.draining s)) :
    ∃ (d' : VecSt) (dl pl : List Nat),
      (spliceDrop cfg it vals claimed w1).1.erase =
        { (w1.upd v d').erase with dropLog := dl ++ w1.dropLog, pendingRaw := pl ++ w1.pendingRaw } ∧
      d'.Good ∧
      Leq (d'.abs ++ (dl ++ pl).map Cell.val)
        (L.map Cell.val ++ (seg d.abs 0 s ++ seg d.abs it.index it.end_ ++ seg d.abs e d.len)) ∧
      ((spliceDrop cfg it vals claimed w1).2 = .ok () ∨ ∃ m, (spliceDrop cfg it vals claimed w1).2 = .panic m) := by
  have hvlt : v < w1.vecs.length := (List.getElem?_eq_some_iff.mp hv).1
  have hw1 := hg.wf.len_le; have hw2 := hg.wf.cells_le
  have hgx : (d.draining s).Good := d.draining_good hg s (by omega)
  have habsx : (d.draining s).abs = seg d.abs 0 s := d.draining_abs s (by omega)
  have hlx : (d.draining s).live = true := hl
  -- any exit that leaves the vector as it was and drops the whole replacement iterator
  have hbail : ∀ (w2 : World) (x' : VecSt) (dl0 : List Nat), w2.erase = { (w1.upd v x').erase with dropLog := dl0 ++ w1.dropLog } →
      x'.Good → x'.abs = seg d.abs 0 s → Leq (dl0.map Cell.val) (seg d.abs it.index it.end_) →
      ∃ (d' : VecSt) (dl pl : List Nat),
        (dropRepl cfg vals w2).1.erase = { (w1.upd v d').erase with dropLog := dl ++ w1.dropLog, pendingRaw := pl ++ w1.pendingRaw } ∧
        d'.Good ∧
        Leq (d'.abs ++ (dl ++ pl).map Cell.val)
          (L.map Cell.val ++ (seg d.abs 0 s ++ seg d.abs it.index it.end_ ++ seg d.abs e d.len)) ∧
        ((dropRepl cfg vals w2).2 = .ok () ∨ ∃ m, (dropRepl cfg vals w2).2 = .panic m) := by
    intro w2 x' dl0 he2 hgood habs hleq0
    obtain ⟨dl2, pl2, hdp2, i1, i5⟩ := dropRepl_plains cfg vals L hp w2
    have e3 : w2.dropLog = dl0 ++ w1.dropLog := by have := congrArg World.dropLog he2; exact this
    have e4 : w2.pendingRaw = w1.pendingRaw := by have := congrArg World.pendingRaw he2; exact this
    refine ⟨x', dl2 ++ dl0, pl2, ?_, hgood, ?_, i5⟩
    · rw [i1, he2]; simp [e3, e4]
    · rw [habs, Leq_iff_count] at *
      intro a
      have q1 := (hdp2.map Cell.val).count_eq a
      have q2 := hleq0 a
      simp only [List.map_append, List.count_append] at q1 q2 ⊢
      omega
  rw [spliceDrop_eq]
  simp only [WM.bind_apply]
  rw [hit.v_eq, getVec_ok w1 v _ hv hlx]
  simp only
  rw [hit.start_eq, hit.orig_eq, hit.end0_eq]
  rcases spliceLen_cases s claimed (d.len - e) with hlen | ⟨m, hlen⟩
  · -- the new length is representable
    rw [hlen]
    simp only [WM.onUnwind, WM.lift_ok]
    -- reserve
    cases hr : (d.draining s).reserve (s + claimed + (d.len - e) - s) with
    | ok p =>
      obtain ⟨x1, es⟩ := p
      obtain ⟨hcap1, hlen1, hcells1, hwf1, hty1, _, hlive1, _⟩ := reserve_full (d.draining s) x1 _ es hgx.wf hr
      let w2 : World := { w1.upd v x1 with ev := es.reverse ++ w1.ev }
      have evo : vecOp v (fun s_1 => s_1.reserve (s + claimed + (d.len - e) - s)) w1 = (w2, .ok ()) := by
        simp only [vecOp, WM.bind_apply, getVec_ok w1 v _ hv hlx, hr, WM.lift_ok, setVec_apply, World.emit_apply]
        rfl
      have hv2 : w2.vecs[v]? = some x1 := by simp [w2, hvlt]
      have hl1 : x1.live = true := by rw [hlive1]; exact hlx
      have hx1len : x1.len = s := hlen1
      have hx1cells : x1.cells = d.cells := hcells1
      simp only [evo]
      -- the not yet yielded elements are destroyed
      obtain ⟨⟨dl1, hleq1, he1⟩, h7⟩ := dropRange_erase w2 v x1 typed it.index it.end_ hv2 hl1
        (by have := hwf1.cells_le; rw [hx1cells] at this; have := hit.h2; have := hit.h3; omega)
        (by intro t ht; rw [hx1cells]; exact hg.get (it.index + t) (by have := hit.h3; omega))
      have hseg1 : (x1.idsRange it.index (it.end_ - it.index)).map Cell.val = seg d.abs it.index it.end_ := by
        have h0 : x1.idsRange it.index (it.end_ - it.index) = d.idsRange it.index (it.end_ - it.index) := by
          simp [VecSt.idsRange, hx1cells]
        rw [h0, idsRange_map_seg d hg it.index (it.end_ - it.index) (by have := hit.h3; have := hit.h2; omega),
          show it.index + (it.end_ - it.index) = it.end_ by have := hit.h2; omega]
      have hleq1' : Leq (dl1.map Cell.val) (seg d.abs it.index it.end_) := by rw [← hseg1]; exact hleq1.map Cell.val
      rw [hit.typed_eq]
      cases hdr : dropRange v typed it.index it.end_ w2 with
      | mk w3 res3 =>
        rw [hdr] at he1 h7
        simp only at he1 h7
        have e2 : w3.vecs = w1.vecs.set v x1 := by
          have := congrArg World.vecs he1; simpa [w2, World.upd] using this
        have e3 : w3.dropLog = dl1 ++ w1.dropLog := by have := congrArg World.dropLog he1; exact this
        have e4 : w3.pendingRaw = w1.pendingRaw := by have := congrArg World.pendingRaw he1; exact this
        have hv3 : w3.vecs[v]? = some x1 := by rw [e2]; simp [hvlt]
        have hprefix := prefix_good d hg s (by omega) x1 hx1len (by rw [hx1cells]; omega) hwf1.cells_le
          (by intro t ht; rw [hx1cells])
        rcases h7 with hok | ⟨m, hp7⟩
        · subst hok
          simp only
          -- the tail of `Splice::drop`
          obtain ⟨d', dl, pl, he, hgood, hleq, hres⟩ := spliceTail_any cfg d hg v typed s e hse hel it hit vals L hp claimed
            (d.draining s).ty w3 x1 hv3 hl1 hx1len (by intro t ht; rw [hx1cells]) (by rw [hx1cells]; exact hw1)
            hwf1.cells_le (by omega)
          refine ⟨d', dl ++ dl1, pl, ?_, hgood, ?_, hres⟩
          · rw [he]; simp only [World.erase_upd, he1]; simp [World.upd, w2, e3, e4, World.erase]
          · rw [Leq_iff_count] at *
            intro a
            have q1 := hleq a; have q2 := hleq1' a
            simp only [List.map_append, List.count_append] at q1 q2 ⊢
            omega
        · subst hp7
          simp only
          obtain ⟨d', dl, pl, he, hgood, hleq, hres⟩ := hbail w3 x1 dl1 (by rw [he1]; simp [World.upd, w2, World.erase])
            hprefix.2 hprefix.1 hleq1'
          cases hdd : dropRepl cfg vals w3 with
          | mk w4 res4 =>
            rw [hdd] at he hres
            simp only at he hres
            refine ⟨d', dl, pl, ?_, hgood, hleq, Or.inr ⟨m, ?_⟩⟩
            · rcases hres with h | ⟨m', h⟩ <;> subst h <;> exact he
            · rcases hres with h | ⟨m', h⟩ <;> subst h <;> rfl
    | panic m =>
      have evo := vecOp_panic w1 v _ (fun s_1 => s_1.reserve (s + claimed + (d.len - e) - s)) m hv hlx hr
      simp only [evo]
      obtain ⟨d', dl, pl, he, hgood, hleq, hres⟩ := hbail { w1 with fault := none } (d.draining s) []
        (by rw [World.upd_self w1 v _ hv]; rfl) hgx habsx (by simpa using Leq.nil _)
      cases hdd : dropRepl cfg vals { w1 with fault := none } with
      | mk w4 res4 =>
        rw [hdd] at he hres
        simp only at he hres
        refine ⟨d', dl, pl, ?_, hgood, hleq, Or.inr ⟨m, ?_⟩⟩
        · rcases hres with h | ⟨m', h⟩ <;> subst h <;> exact he
        · rcases hres with h | ⟨m', h⟩ <;> subst h <;> rfl
    | ub m => have := reserve_notUb (d.draining s) (s + claimed + (d.len - e) - s); rw [hr] at this; exact this.elim
  · -- `start + claimed + tail` overflows: nothing was touched yet
    rw [hlen]
    simp only [WM.onUnwind, WM.lift]
    obtain ⟨d', dl, pl, he, hgood, hleq, hres⟩ := hbail { w1 with fault := none } (d.draining s) []
      (by rw [World.upd_self w1 v _ hv]; rfl) hgx habsx (by simpa using Leq.nil _)
    cases hdd : dropRepl cfg vals { w1 with fault := none } with
    | mk w4 res4 =>
      rw [hdd] at he hres
      simp only at he hres
      refine ⟨d', dl, pl, ?_, hgood, hleq, Or.inr ⟨m, ?_⟩⟩
      · rcases hres with h | ⟨m', h⟩ <;> subst h <;> exact he
      · rcases hres with h | ⟨m', h⟩ <;> subst h <;> rfl


/-- what the `Drop` of a range iterator, run while unwinding from a panicking sink, guarantees -/
def PanicSpec (d : VecSt) (v : Nat) (typed : Bool) (s e : Nat) (L : List Nat) (onPanic : RangeIt → WM Unit) : Prop :=
  ∀ (it : RangeIt) (w1 : World), ItOk d v typed s e it → w1.vecs[v]? = some (d.draining s) →
    ∃ (d' : VecSt) (dl pl : List Nat),
      (onPanic it w1).1.erase =
        { (w1.upd v d').erase with dropLog := dl ++ w1.dropLog, pendingRaw := pl ++ w1.pendingRaw } ∧
      d'.Good ∧
      Leq (d'.abs ++ (dl ++ pl).map Cell.val)
        (L.map Cell.val ++ (seg d.abs 0 s ++ seg d.abs it.index it.end_ ++ seg d.abs e d.len)) ∧
      ((onPanic it w1).2 = .ok () ∨ ∃ m, (onPanic it w1).2 = .panic m)

theorem spliceDrop_spec (cfg : Cfg) (d : VecSt) (hg : d.Good) (hl : d.live = true) (v : Nat) (typed : Bool) (s e : Nat)
    (hse : s ≤ e) (hel : e ≤ d.len) (vals : List Val) (L : List Nat) (hp : Plains vals L) (claimed : Nat) :
    PanicSpec d v typed s e L (fun i => spliceDrop cfg i vals claimed) :=
  fun it w1 hit hv => spliceDrop_any cfg d hg hl v typed s e hse hel it hit vals L hp claimed w1 hv

/-- the consumption loop of a range iterator whose `Drop` satisfies `PanicSpec` -/
theorem eatLoop_gen (cfg : Cfg) (d : VecSt) (hg : d.Good) (hl : d.live = true) (v : Nat) (typed : Bool)
    (s e : Nat) (hse : s ≤ e) (hel : e ≤ d.len) (L : List Nat) (onPanic : RangeIt → WM Unit)
    (hspec : PanicSpec d v typed s e L onPanic) (eats : List (End × Sink)) (hcore : ∀ p ∈ eats, p.2.Core) :
    ∀ (w : World) (it : RangeIt) (out : Out), ItOk d v typed s e it → w.vecs[v]? = some (d.draining s) →
    ∃ (hl' dl' pl' : List Nat),
      (∃ it' o, (eatLoop cfg onPanic it eats out w).2 = .ok (it', o) ∧ ItOk d v typed s e it' ∧ pl' = [] ∧
        (eatLoop cfg onPanic it eats out w).1.erase =
          { w.erase with held := hl' ++ w.held, dropLog := dl' ++ w.dropLog } ∧
        Leq ((hl' ++ dl').map Cell.val ++ seg d.abs it'.index it'.end_) (seg d.abs it.index it.end_)) ∨
      (∃ m d', (eatLoop cfg onPanic it eats out w).2 = .panic m ∧ d'.Good ∧
        (eatLoop cfg onPanic it eats out w).1.erase =
          { (w.upd v d').erase with
              held := hl' ++ w.held, dropLog := dl' ++ w.dropLog, pendingRaw := pl' ++ w.pendingRaw } ∧
        Leq (d'.abs ++ (hl' ++ dl' ++ pl').map Cell.val)
          (L.map Cell.val ++ (seg d.abs 0 s ++ seg d.abs it.index it.end_ ++ seg d.abs e d.len))) := by
  have hw1 := hg.wf.len_le; have hw2 := hg.wf.cells_le
  induction eats with
  | nil =>
    intro w it out hit hv
    refine ⟨[], [], [], Or.inl ⟨it, out, rfl, hit, rfl, rfl, ?_⟩⟩
    simpa using Leq.refl _
  | cons p rest ih =>
    intro w it out hit hv
    obtain ⟨en, k⟩ := p
    have hk : k.Core := hcore (en, k) (List.mem_cons_self)
    have ih' := ih (fun q hq => hcore q (List.mem_cons_of_mem _ hq))
    have hstepc : (Cursor.mk it.index it.end_).step en = (none, Cursor.mk it.index it.end_) ∧ it.index = it.end_ ∨
        ∃ slot i' e', (Cursor.mk it.index it.end_).step en = (some slot, Cursor.mk i' e') ∧
          it.index ≤ slot ∧ slot < it.end_ ∧ it.index ≤ i' ∧ i' ≤ e' ∧ e' ≤ it.end_ ∧
          ((slot = it.index ∧ i' = it.index + 1 ∧ e' = it.end_) ∨ (slot = it.end_ - 1 ∧ i' = it.index ∧ e' = it.end_ - 1)) := by
      have := hit.h2
      cases en with
      | front =>
        by_cases hc : it.index = it.end_
        · left; simp [Cursor.step, Cursor.next, hc]
        · right
          refine ⟨it.index, it.index + 1, it.end_, by simp [Cursor.step, Cursor.next, hc], ?_⟩
          omega
      | back =>
        by_cases hc : it.end_ = it.index
        · left; simp [Cursor.step, Cursor.nextBack, hc]
        · right
          refine ⟨it.end_ - 1, it.index, it.end_ - 1, by simp [Cursor.step, Cursor.nextBack, hc], ?_⟩
          omega
    rcases hstepc with ⟨hnone, _⟩ | ⟨slot, i', e', hsome, b1, b2, b3, b4, b5, hshape⟩
    · simp only [eatLoop, hnone]
      exact ih' w it _ hit hv
    · simp only [eatLoop, hsome]
      have hit' : ItOk d v typed s e { it with index := i', end_ := e' } :=
        ⟨hit.v_eq, hit.typed_eq, hit.start_eq, hit.end0_eq, hit.orig_eq, by have := hit.h1; simp; omega, by simpa using b4,
          by have := hit.h3; simp; omega⟩
      have hslot_len : slot < d.len := by have := hit.h3; omega
      obtain ⟨id, hc⟩ := hg.get slot hslot_len
      obtain ⟨hgetlt, hget⟩ := d.abs_get slot id hg.wf hslot_len hc
      have hlA := VecSt.abs_length hg.wf
      have hsegsplit : ∀ a, (seg d.abs it.index it.end_).count a =
          (seg d.abs i' e').count a + ([Cell.val id] : List Cell).count a := by
        intro a
        rcases hshape with ⟨r1, r2, r3⟩ | ⟨r1, r2, r3⟩
        · subst r1 r2 r3
          rw [seg_split d.abs it.index (it.index + 1) it.end_ (by omega) (by omega),
            seg_single d.abs it.index hgetlt, hget, List.count_append]
          omega
        · subst r2 r3
          rw [seg_split d.abs it.index (it.end_ - 1) it.end_ (by omega) (by omega), List.count_append]
          have : it.end_ - 1 + 1 = it.end_ := by omega
          have h9 := seg_single d.abs (it.end_ - 1) (by rw [← r1]; exact hgetlt)
          rw [this] at h9
          rw [h9]
          have : d.abs[it.end_ - 1]'(by rw [← r1]; exact hgetlt) = Cell.val id := by
            have := hget; subst r1; exact this
          rw [this]
      have hvit : w.vecs[it.v]? = some (d.draining s) := by rw [hit.v_eq]; exact hv
      obtain ⟨hl1, dl1, hleq1, he1, hres1⟩ := sinkElem_core cfg w it.v slot it.typed k (d.draining s) id hk hvit hl
        (by show slot < d.cap; omega) (by show d.cells.get slot = _; exact hc)
      have hleq1c : Leq ((hl1 ++ dl1).map Cell.val) [Cell.val id] := hleq1.map Cell.val
      simp only [WM.bind_apply, WM.onUnwind]
      cases hsk : sinkElem cfg it.v slot it.typed k w with
      | mk w1 res =>
        rw [hsk] at he1 hres1
        simp only at he1 hres1
        have e2 : w1.vecs = w.vecs := by have := congrArg World.vecs he1; exact this
        have e3 : w1.dropLog = dl1 ++ w.dropLog := by have := congrArg World.dropLog he1; exact this
        have e4 : w1.held = hl1 ++ w.held := by have := congrArg World.held he1; exact this
        have e5 : w1.pendingRaw = w.pendingRaw := by have := congrArg World.pendingRaw he1; exact this
        have hv1 : w1.vecs[v]? = some (d.draining s) := by rw [e2]; exact hv
        rcases hres1 with ⟨o, hok⟩ | ⟨m, hp⟩
        · subst hok
          simp only
          obtain ⟨hl2, dl2, pl2, hcase⟩ := ih' w1 { it with index := i', end_ := e' }
            (out ++ [String.intercalate "/" o ++ ":" ++ toString (Cursor.mk i' e').len]) hit' hv1
          refine ⟨hl2 ++ hl1, dl2 ++ dl1, pl2, ?_⟩
          rcases hcase with ⟨it2, o2, r1, r2, rpl, r3, r4⟩ | ⟨m2, d', r1, r2, r3, r4⟩
          · left
            refine ⟨it2, o2, r1, r2, rpl, ?_, ?_⟩
            · rw [r3, he1]; simp [e3, e4]
            · rw [Leq_iff_count] at r4 hleq1c ⊢
              intro a
              have q1 := r4 a; have q2 := hleq1c a; have q3 := hsegsplit a
              simp only [List.map_append, List.count_append] at q1 q2 q3 ⊢
              omega
          · right
            refine ⟨m2, d', r1, r2, ?_, ?_⟩
            · rw [r3]; simp only [World.erase_upd, he1]; simp [e3, e4, e5, World.upd]
            · rw [Leq_iff_count] at r4 hleq1c ⊢
              intro a
              have q1 := r4 a; have q2 := hleq1c a; have q3 := hsegsplit a
              simp only [List.map_append, List.count_append] at q1 q2 q3 ⊢
              omega
        · subst hp
          simp only
          obtain ⟨d', dl2, pl2, he2, hgood2, hleq2, hres2⟩ := hspec { it with index := i', end_ := e' } w1 hit' hv1
          refine ⟨hl1, dl2 ++ dl1, pl2, Or.inr ?_⟩
          have hfin : Leq (d'.abs ++ (hl1 ++ (dl2 ++ dl1) ++ pl2).map Cell.val)
              (L.map Cell.val ++ (seg d.abs 0 s ++ seg d.abs it.index it.end_ ++ seg d.abs e d.len)) := by
            rw [Leq_iff_count] at hleq2 hleq1c ⊢
            intro a
            have q1 := hleq2 a; have q2 := hleq1c a; have q3 := hsegsplit a
            simp only [List.map_append, List.count_append] at q1 q2 q3 ⊢
            omega
          cases hdd : onPanic { it with index := i', end_ := e' } w1 with
          | mk w2 res2 =>
            rw [hdd] at he2 hres2
            simp only at he2 hres2
            have hers : w2.erase = { (w.upd v d').erase with
                                      held := hl1 ++ w.held, dropLog := (dl2 ++ dl1) ++ w.dropLog,
                                      pendingRaw := pl2 ++ w.pendingRaw } := by
              rw [he2]; simp only [World.erase_upd, he1]; simp [e3, e4, e5, World.upd]
            rcases hres2 with h | ⟨m2, h⟩ <;> subst h <;> exact ⟨m, d', rfl, hgood2, hers, hfin⟩


/-- `n` identities handed out -/
def World.bumpN (w : World) (n : Nat) : World := { w with created := w.created + n }

theorem Plains.append {vs ws : List Val} {is js : List Nat} (h1 : Plains vs is) (h2 : Plains ws js) :
    Plains (vs ++ ws) (is ++ js) := by
  induction h1 with
  | nil => simpa using h2
  | cons x id vs ids hx _ ih => exact Plains.cons x id _ _ hx ih

theorem onUnwind_of_ok {α} (m : WM α) (c : WM Unit) (w w' : World) (a : α) (h : m w = (w', .ok a)) :
    WM.onUnwind m c w = (w', .ok a) := by
  simp only [WM.onUnwind, h]

theorem mkValsFrom_plains (cfg : Cfg) (repl : List Src) (hs : ∀ r ∈ repl, r.Plain) :
    ∀ (acc : List Val) (ids0 : List Nat) (w : World), Plains acc ids0 →
    ∃ vals, Plains vals (ids0 ++ List.range' w.created repl.length) ∧
      mkValsFrom cfg acc repl w = (w.bumpN repl.length, .ok vals) := by
  induction repl with
  | nil =>
    intro acc ids0 w hacc
    exact ⟨acc, by simpa using hacc, by simp [mkValsFrom, World.bumpN]⟩
  | cons r rs ih =>
    intro acc ids0 w hacc
    obtain ⟨x, hx, hmk⟩ := mkVal_plain cfg r (hs r List.mem_cons_self) w
    have hacc' : Plains (acc ++ [x]) (ids0 ++ [w.created]) := hacc.append (Plains.cons x w.created [] [] hx Plains.nil)
    obtain ⟨vs, hvs, hmks⟩ := ih (fun q hq => hs q (List.mem_cons_of_mem _ hq)) (acc ++ [x]) (ids0 ++ [w.created]) w.bump hacc'
    refine ⟨vs, ?_, ?_⟩
    · rw [List.length_cons, List.range'_succ]
      simpa [World.bump, List.append_assoc] using hvs
    · simp only [mkValsFrom, WM.bind_apply, onUnwind_of_ok _ _ _ _ _ hmk, hmks]
      simp [World.bumpN, World.bump, Nat.add_assoc, Nat.add_comm 1]

theorem mkVals_plains (cfg : Cfg) (repl : List Src) (hs : ∀ r ∈ repl, r.Plain) (w : World) :
    ∃ vals, Plains vals (List.range' w.created repl.length) ∧ mkVals cfg repl w = (w.bumpN repl.length, .ok vals) := by
  obtain ⟨vals, hp, hmk⟩ := mkValsFrom_plains cfg repl hs [] [] w Plains.nil
  exact ⟨vals, by simpa using hp, hmk⟩

theorem leakRepl_plains (vals : List Val) (L : List Nat) (hp : Plains vals L) (w : World) :
    ∃ pl : List Nat, Leq pl L ∧ leakRepl vals w = ({ w with pendingRaw := pl ++ w.pendingRaw }, .ok ()) := by
  induction hp generalizing w with
  | nil => exact ⟨[], Leq.nil _, rfl⟩
  | cons x id vs ids hx _ ih =>
    cases hx with
    | wrapper id ty =>
      obtain ⟨pl, hleq, he⟩ := ih w
      refine ⟨pl, ?_, by simp only [leakRepl, he]⟩
      obtain ⟨ex, px⟩ := hleq
      exact ⟨id :: ex, by simpa using (List.perm_middle.trans (List.Perm.cons id px))⟩
    | raw id ty =>
      obtain ⟨pl, hleq, he⟩ := ih { w with pendingRaw := id :: w.pendingRaw }
      refine ⟨pl ++ [id], ?_, ?_⟩
      · obtain ⟨ex, px⟩ := hleq
        refine ⟨ex, ?_⟩
        rw [List.perm_iff_count] at px ⊢
        intro a
        have := px a
        simp only [List.count_append, List.count_cons, List.count_nil] at this ⊢
        omega
      · simp only [leakRepl, WM.bind_apply, WM.modify_apply, he]
        simp

theorem freshCells_eq (c n : Nat) : (List.range' c n).map Cell.val = freshCells c n := rfl

/-- **`splice` (any range form, plain replacement values of any types, any claimed length, any
consumption pattern with core sinks, dropped or forgotten) from any world satisfying the invariant,
under any fault state** -/
theorem step_splice_inv (cfg : Cfg) (w : World) (v : Nat) (lo hi : Bnd) (typed : Bool) (repl : List Src) (claim : Int)
    (eats : List (End × Sink)) (fin : Fin) (d : VecSt) (h : w.Inv) (hv : w.vecs[v]? = some d) (hl : d.live = true)
    (hrepl : ∀ r ∈ repl, r.Plain) (hcore : ∀ p ∈ eats, p.2.Core) :
    (step cfg (.splice v lo hi typed repl claim eats fin) w).1.Inv ∧
      (step cfg (.splice v lo hi typed repl claim eats fin) w).2.notUb := by
  have hlt : v < w.vecs.length := (List.getElem?_eq_some_iff.mp hv).1
  have hg := h.good v d hv
  obtain ⟨vals, hp, hmk⟩ := mkVals_plains cfg repl hrepl w
  let L := List.range' w.created repl.length
  let claimed := ((vals.length : Int) + claim).toNat
  have hvm : (w.bumpN repl.length).vecs[v]? = some d := hv
  -- closing argument: any final world of the right shape satisfies the invariant
  have hfinal : ∀ (w' : World) (d' : VecSt) (hl2 dl2 pl2 : List Nat),
      w'.erase = { (w.upd v d').erase with
                    created := w.created + repl.length, held := hl2 ++ w.held, dropLog := dl2 ++ w.dropLog,
                    pendingRaw := pl2 ++ w.pendingRaw } →
      d'.Good → Leq (d'.abs ++ (hl2 ++ dl2 ++ pl2).map Cell.val) (L.map Cell.val ++ d.abs) → w'.Inv := by
    intro w' d' hl2 dl2 pl2 he hgood hleq
    refine h.local_erase' v d d' repl.length hl2 dl2 pl2 hv he hgood ?_
    rw [← freshCells_eq]
    simpa [List.map_append, List.append_assoc] using hleq
  rcases intoRange_cases d.len lo hi with ⟨s, e, hr, hse, hel⟩ | ⟨m, hr⟩
  · let it : RangeIt := { v := v, typed := typed, start := s, end0 := e, origLen := d.len, index := s, end_ := e }
    have hit : ItOk d v typed s e it := ⟨rfl, rfl, rfl, rfl, rfl, Nat.le_refl _, hse, Nat.le_refl _⟩
    let w0 := (w.bumpN repl.length).upd v (d.draining s)
    have hv0 : w0.vecs[v]? = some (d.draining s) := by simp [w0, World.bumpN, hlt]
    have hspec := spliceDrop_spec cfg d hg hl v typed s e hse hel vals L hp claimed
    obtain ⟨hl', dl', pl', hcase⟩ := eatLoop_gen cfg d hg hl v typed s e hse hel L _ hspec eats hcore w0 it
      [toString (e - s)] hit hv0
    have hstep : step cfg (.splice v lo hi typed repl claim eats fin) w =
        match eatLoop cfg (fun i => spliceDrop cfg i vals claimed) it eats [toString (e - s)] w0 with
        | (w', .ok (it', out)) =>
          (match fin with
            | .drop => (do spliceDrop cfg it' vals claimed; pure out : WM Out)
            | .forget => (do leakRepl vals; pure out : WM Out)) w'
        | (w', .panic s) => (w', .panic s)
        | (w', .ub s) => (w', .ub s) := by
      simp only [step, splice, WM.bind_apply, hmk, getVec_ok (w.bumpN repl.length) v d hvm hl, WM.onUnwind, hr, WM.lift_ok, setLen,
        setVec_apply]
      cases hel' : eatLoop cfg (fun i => spliceDrop cfg i vals claimed) it eats [toString (e - s)] w0 with
      | mk w1 res =>
        have hel'' : eatLoop cfg (fun i => spliceDrop cfg i vals ((↑vals.length + claim).toNat))
            { v := v, typed := typed, start := s, end0 := e, origLen := d.len, index := s, end_ := e } eats
            [toString (e - s)] ((w.bumpN repl.length).upd v { d with len := s }) = (w1, res) := hel'
        rw [hel'']
        cases res with
        | ok p => obtain ⟨it', out⟩ := p; cases fin <;> rfl
        | panic _ => rfl
        | ub _ => rfl
    rw [hstep]
    have habs3 := fun a => abs_three d hg s e hse hel a
    cases hel' : eatLoop cfg (fun i => spliceDrop cfg i vals claimed) it eats [toString (e - s)] w0 with
    | mk w1 res =>
      rw [hel'] at hcase
      simp only at hcase
      rcases hcase with ⟨it', o, r1, r2, rpl, r3, r4⟩ | ⟨m, d', r1, r2, r3, r4⟩
      · subst r1; subst rpl
        simp only
        have r4 : Leq ((hl' ++ dl').map Cell.val ++ seg d.abs it'.index it'.end_) (seg d.abs s e) := r4
        have e2 : w1.vecs = w0.vecs := by have := congrArg World.vecs r3; exact this
        have e3 : w1.dropLog = dl' ++ w.dropLog := by have := congrArg World.dropLog r3; exact this
        have e4 : w1.held = hl' ++ w.held := by have := congrArg World.held r3; exact this
        have e5 : w1.pendingRaw = w.pendingRaw := by have := congrArg World.pendingRaw r3; exact this
        have e6 : w1.created = w.created + repl.length := by have := congrArg World.created r3; exact this
        have hv1 : w1.vecs[v]? = some (d.draining s) := by rw [e2]; exact hv0
        cases fin with
        | forget =>
          obtain ⟨pl, hleqp, hlk⟩ := leakRepl_plains vals L hp w1
          simp only [WM.bind_apply, hlk, WM.pure_apply]
          refine ⟨hfinal _ (d.draining s) hl' dl' pl ?_ (d.draining_good hg s (by omega)) ?_, trivial⟩
          · show ({ w1 with pendingRaw := pl ++ w1.pendingRaw } : World).erase = _
            have : ({ w1 with pendingRaw := pl ++ w1.pendingRaw } : World).erase = { w1.erase with pendingRaw := pl ++ w1.pendingRaw } := rfl
            rw [this, r3]
            simp [w0, World.bumpN, World.upd, World.erase, e5]
          · have q3' := hleqp.map Cell.val
            rw [d.draining_abs s (by omega)]
            rw [Leq_iff_count] at r4 q3' ⊢
            intro a
            have q1 := r4 a; have q2 := habs3 a; have q3 := q3' a
            simp only [List.map_append, List.count_append] at q1 q2 q3 ⊢
            omega
        | drop =>
          obtain ⟨d', dl, pl, he, hgood, hleq, hres⟩ := spliceDrop_any cfg d hg hl v typed s e hse hel it' r2 vals L hp
            claimed w1 hv1
          simp only [WM.bind_apply, WM.pure_apply]
          cases hsd : spliceDrop cfg it' vals claimed w1 with
          | mk w2 res2 =>
            rw [hsd] at he hres
            simp only at he hres
            have hinv : w2.Inv := by
              refine hfinal w2 d' hl' (dl ++ dl') pl ?_ hgood ?_
              · rw [he]
                simp only [World.erase_upd, r3]
                simp [w0, World.bumpN, World.upd, World.erase, e3, e5]
              · rw [Leq_iff_count] at *
                intro a
                have q1 := r4 a; have q2 := habs3 a; have q3 := hleq a
                simp only [List.map_append, List.count_append] at q1 q2 q3 ⊢
                omega
            rcases hres with hok | ⟨m, hp2⟩
            · subst hok; exact ⟨hinv, trivial⟩
            · subst hp2; exact ⟨hinv, trivial⟩
      · subst r1
        simp only
        refine ⟨hfinal w1 d' hl' dl' pl' ?_ r2 ?_, trivial⟩
        · rw [r3]; simp [w0, World.bumpN, World.upd, World.erase]
        · have r4 : Leq (d'.abs ++ (hl' ++ dl' ++ pl').map Cell.val)
              (L.map Cell.val ++ (seg d.abs 0 s ++ seg d.abs s e ++ seg d.abs e d.len)) := r4
          rw [Leq_iff_count] at *
          intro a
          have q1 := r4 a; have q2 := habs3 a
          simp only [List.map_append, List.count_append] at q1 q2 ⊢
          omega
  · -- invalid range: the replacement iterator is dropped, nothing else happens
    obtain ⟨dl2, pl2, hdp2, i1, i5⟩ := dropRepl_plains cfg vals L hp { (w.bumpN repl.length) with fault := none }
    have hstep : step cfg (.splice v lo hi typed repl claim eats fin) w =
        ((dropRepl cfg vals { (w.bumpN repl.length) with fault := none }).1, .panic m) := by
      simp only [step, splice, WM.bind_apply, hmk, getVec_ok (w.bumpN repl.length) v d hvm hl]
      rw [onUnwind_after_panic (WM.lift (intoRange d.len lo hi)) (dropRepl cfg vals) (w.bumpN repl.length) { (w.bumpN repl.length) with fault := none } m
        (by simp only [hr, WM.lift]) i5]
    rw [hstep]
    refine ⟨hfinal _ d [] dl2 pl2 ?_ hg ?_, trivial⟩
    · rw [i1, World.upd_self w v d hv]; simp [World.bumpN, World.erase]
    · rw [Leq_iff_count]
      intro a
      have q1 := (hdp2.map Cell.val).count_eq a
      simp only [List.map_append, List.count_append, List.map_nil, List.count_nil] at q1 ⊢
      omega

end AnyVec
