/-
  Moving a removal handle of one vector into another vector (`w.push(v.remove(i))`), no fault.
-/
import AnyVecModel.Proofs.Exec
namespace AnyVec
open World

/-- `dst.push(src.remove(i))`: the element leaves `src` (`eraseIdx`) and is appended to `dst`; no
destructor, no clone -/
theorem remove_push_exec (cfg : Cfg) (w : World) (src dst i id : Nat) (s d d1 : VecSt) (es : List Event)
    (hsd : src ≠ dst)
    (hs : w.vecs[src]? = some s) (hsl : s.live = true) (hswf : s.WF) (hi : i < s.len)
    (hc : s.cells.get i = .val id)
    (hv : w.vecs[dst]? = some d) (hl : d.live = true) (hwf : d.WF) (hty : s.ty = d.ty)
    (hr : d.reserveOne = .ok (d1, es)) :
    step cfg (.remove src i (.pushTo dst)) w =
      ({ w with vecs := (w.vecs.set dst (d1.pushCell (.val id))).set src (s.removeAt i),
                ev := es.reverse ++ w.ev }, .ok []) := by
  have hlt : dst < w.vecs.length := (List.getElem?_eq_some_iff.mp hv).1
  have hd : w.vecs[dst] = d := (List.getElem?_eq_some_iff.mp hv).2
  have hslt : src < w.vecs.length := (List.getElem?_eq_some_iff.mp hs).1
  have hsdd : w.vecs[src] = s := (List.getElem?_eq_some_iff.mp hs).2
  obtain ⟨h3, h1, _, _, _, _, _, _, _, _, h4⟩ := reserveOne_spec d d1 es hwf hr
  have hl1 : d1.live = true := by rw [h4]; exact hl
  have h1s := hswf.len_le; have h2s := hswf.cells_le
  have hb1 : i < s.cap := by omega
  have hb2 : i + 1 + (s.len - 1 - i) ≤ s.cap := by omega
  have hb3 : i + (s.len - 1 - i) ≤ s.cap := by omega
  have hne : ¬ dst = src := fun h => hsd h.symm
  simp [step, getVec, hsl, hi, hslt, hsdd, setLen, sinkHandle, hsd, hne, push, valTy, hl, hlt, hd, hty,
    List.getElem?_set, pushUnchecked, WM.onUnwind, vecOp, hr, hl1, valMoveInto, hSlot, readElem,
    VecSt.readElem_ok, hb1, hc, World.writeCell, VecSt.writeCell_ok, h3, hConsume, moveElems,
    VecSt.moveElems_ok, hb2, hb3, World.upd, VecSt.pushCell, VecSt.removeAt]
  apply List.ext_getElem?
  intro k
  simp only [List.getElem?_set, List.length_set]
  by_cases hk1 : src = k <;> by_cases hk2 : dst = k <;> simp_all

end AnyVec
