/- Kernel tie: the remaining thin functions (delegations, unchecked accessors, constructors, self-reports of handles) as call
traces re-translated from /repo/src on every run; pinned here. See KernelApiOps for the representation. -/
import AnyVecModel.Proofs.KernelBase
namespace AnyVec
namespace KernelTie
open Gen.Kernel

/-- the unchecked accessors go to the raw vector / the typed slice with the same index and wrap the pointer without taking ownership (`ManuallyDrop`); the range-iterator wrapper forwards `next` / `next_back` / `len` / `size_hint` to the inner cursor -/
theorem deleg_access_tie (len : Nat) (index : Nat) (known : Bool) :
    anyvec_insert_unchecked_trace len index = [.call "insert_unchecked" [index]] ∧
    anyvec_push_unchecked_trace len index = [.call "push_unchecked" []] ∧
    anyvec_get_unchecked_trace len index = [.call "get_unchecked" [index], .call "NonNull::new_unchecked" [], .call "ElementPointer::new" [], .call "ManuallyDrop::new" [], .call "ElementRef" []] ∧
    anyvec_get_unchecked_mut_trace len index = [.call "get_unchecked_mut" [index], .call "NonNull::new_unchecked" [], .call "ElementPointer::new" [], .call "ManuallyDrop::new" [], .call "ElementMut" []] ∧
    typed_iter_mut_trace len index = [.call "as_mut_slice" [], .call "iter_mut" []] ∧
    typed_get_unchecked_trace len index = [.call "as_slice" [], .call "get_unchecked" [index]] ∧
    typed_get_unchecked_mut_trace len index = [.call "as_mut_slice" [], .call "get_unchecked_mut" [index]] ∧
    opsiter_next_trace known = [.call "iter_mut" [], .call "next" []] ∧
    opsiter_next_back_trace known = [.call "iter_mut" [], .call "next_back" []] ∧
    opsiter_len_trace known = [.call "iter" [], .call "len" []] ∧
    opsiter_size_hint_trace known = [.call "iter" [], .call "size_hint" []] :=
  ⟨rfl, rfl, rfl, rfl, rfl, rfl, rfl, rfl, rfl, rfl, rfl⟩

end KernelTie
end AnyVec
