/- Kernel tie: the byte and slice views (`AnyVec::{as_bytes, as_bytes_mut, spare_bytes_mut}` in src/any_vec.rs,
`AnyVecTyped::{as_slice, as_mut_slice, spare_capacity_mut}` in src/any_vec_typed.rs) are re-translated from /repo/src on
every run into (byte offset of the pointer handed to `from_raw_parts`, length) as functions of `len`, `capacity` and
the element size; the model's view functions are these. -/
import AnyVecModel.Proofs.KernelBase
namespace AnyVec
namespace KernelTie
open Gen.Kernel

theorem views_tie (v : VecSt) :
    v.asBytes = as_bytes_view v.len v.cap v.size ∧
    v.asBytes = as_bytes_mut_view v.len v.cap v.size ∧
    v.spareBytes = spare_bytes_mut_view v.len v.cap v.size ∧
    v.typedSlice = as_slice_view v.len v.cap v.size ∧
    v.typedSlice = as_mut_slice_view v.len v.cap v.size ∧
    v.spareCapacity = spare_capacity_mut_view v.len v.cap v.size := by
  refine ⟨rfl, rfl, ?_, rfl, rfl, ?_⟩
  · simp only [VecSt.spareBytes, spare_bytes_mut_view, Nat.zero_add]
  · simp only [VecSt.spareCapacity, spare_capacity_mut_view, Nat.zero_add]

end KernelTie
end AnyVec
