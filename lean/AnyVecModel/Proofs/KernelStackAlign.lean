/- Kernel tie: alignment of the in-place buffers of `Stack` / `StackN` against `STACK_MAX_ALIGN` (src/mem), read from the
declarations on every run. -/
import AnyVecModel.Proofs.KernelBase
namespace AnyVec
namespace KernelTie
open Gen.Kernel

/-- the in-place byte buffers are over-aligned to at least the largest element alignment `build` accepts, and that
bound is the model's -/
theorem stack_align_tie :
    stack_max_align = VecSt.STACK_MAX_ALIGN ∧ stack_max_align ≤ stack_mem_align ∧ stack_max_align ≤ stackn_mem_align := by
  decide

end KernelTie
end AnyVec
