/-
  Every core operation, from any world satisfying the invariant and under any fault state,
  leads to a world satisfying the invariant and never to a memory fault (`ub`).
-/
import AnyVecModel.Proofs.Handle
import AnyVecModel.Proofs.Cap
namespace AnyVec
open World

/-- the sinks whose effect stays inside the handle's own vector -/
def Sink.Core : Sink → Prop
  | .drop | .forget | .downcast _ | .info => True
  | _ => False

/-- what can have happened to the vector and the element once the handle is gone -/
inductive HOutcome (d : VecSt) (k : HKind) (id : Nat) : VecSt → List Nat → List Nat → Prop where
  | dropped : HOutcome d k id (d.consumed k) [] [id]
  | dropPanicked : HOutcome d k id (d.taken k) [] [id]
  | forgotten : HOutcome d k id (d.taken k) [] []
  | held : HOutcome d k id (d.consumed k) [id] []

theorem HOutcome.good {d : VecSt} {k : HKind} {id : Nat} {d' : VecSt} {hl dl : List Nat}
    (o : HOutcome d k id d' hl dl) (hk : k.okFor d) (hg : d.Good) (hc : d.cells.get (k.slot d) = .val id) :
    d'.Good ∧ Leq (d'.abs ++ (hl.map Cell.val ++ dl.map Cell.val)) d.abs := by
  cases o with
  | dropped => exact ⟨d.consumed_good k id hk hg hc, by simpa using Leq.of_perm (d.consumed_perm k id hk hg.wf hc)⟩
  | dropPanicked => exact ⟨d.taken_good k hk hg, by simpa using d.taken_leq k id hk hg.wf hc⟩
  | forgotten =>
    refine ⟨d.taken_good k hk hg, ?_⟩
    have := d.taken_leq k id hk hg.wf hc
    obtain ⟨e, p⟩ := this
    exact ⟨Cell.val id :: e, by simpa using p⟩
  | held => exact ⟨d.consumed_good k id hk hg hc, by simpa using Leq.of_perm (d.consumed_perm k id hk hg.wf hc)⟩

theorem sinkHandle_core (cfg : Cfg) (w : World) (v : Nat) (k : HKind) (t : Bool) (d : VecSt) (id : Nat)
    (sink : Sink) (hs : sink.Core) (hk : k.okFor d) (hwf : d.WF)
    (hv : w.vecs[v]? = some (d.taken k)) (hl : d.live = true) (hc : d.cells.get (k.slot d) = .val id) :
    (sinkHandle cfg { v := v, kind := k, typed := t } sink w).2.notUb ∧
    ∃ d' hl dl, HOutcome d k id d' hl dl ∧
      (sinkHandle cfg { v := v, kind := k, typed := t } sink w).1.erase =
        { (w.upd v d').erase with held := hl ++ w.held, dropLog := dl ++ w.dropLog } := by
  have hlt : v < w.vecs.length := (List.getElem?_eq_some_iff.mp hv).1
  have hlive : (d.taken k).live = true := by cases k <;> simpa [VecSt.taken] using hl
  have hty : (d.taken k).ty = d.ty := by cases k <;> rfl
  have hself : w.upd v (d.taken k) = w := by
    simp only [World.upd]
    have : w.vecs.set v (d.taken k) = w.vecs := by
      apply List.ext_getElem?
      intro j
      by_cases hj : v = j
      · subst hj; simp [hlt]; exact ((List.getElem?_eq_some_iff.mp hv).2).symm
      · simp [List.getElem?_set, hj]
    rw [this]
  have hD := hDrop_any w v k t d id hk hwf hv hl hc
  cases sink with
  | drop =>
    simp only [sinkHandle, WM.bind_apply, WM.pure_apply]
    rcases hD with ⟨hok, he⟩ | ⟨⟨m, hp⟩, he⟩
    · cases hr : hDrop { v := v, kind := k, typed := t } w with
      | mk w1 res =>
        rw [hr] at hok he; simp only at hok he; subst hok
        exact ⟨trivial, _, _, _, .dropped, by simpa using he⟩
    · cases hr : hDrop { v := v, kind := k, typed := t } w with
      | mk w1 res =>
        rw [hr] at hp he; simp only at hp he; subst hp
        refine ⟨trivial, _, _, _, .dropPanicked, ?_⟩
        simp only [hself]; simpa using he
  | forget =>
    simp only [sinkHandle, WM.pure_apply]
    refine ⟨trivial, _, _, _, .forgotten, ?_⟩
    simp only [hself, List.nil_append]
    rfl
  | info =>
    simp only [sinkHandle, WM.bind_apply, WM.pure_apply, getVec_ok w v _ hv hlive]
    rcases hD with ⟨hok, he⟩ | ⟨⟨m, hp⟩, he⟩
    · cases hr : hDrop { v := v, kind := k, typed := t } w with
      | mk w1 res =>
        rw [hr] at hok he; simp only at hok he; subst hok
        exact ⟨trivial, _, _, _, .dropped, by simpa using he⟩
    · cases hr : hDrop { v := v, kind := k, typed := t } w with
      | mk w1 res =>
        rw [hr] at hp he; simp only at hp he; subst hp
        refine ⟨trivial, _, _, _, .dropPanicked, ?_⟩
        simp only [hself]; simpa using he
  | downcast ty =>
    simp only [sinkHandle, WM.bind_apply, WM.pure_apply, getVec_ok w v _ hv hlive, hty]
    by_cases hne : ty = d.ty
    · have hsl := HKind.slot_lt hk
      have h1 := hwf.len_le; have h2 := hwf.cells_le
      have hcells : (d.taken k).cells = d.cells := by cases k <;> rfl
      have hcap : (d.taken k).cap = d.cap := by cases k <;> rfl
      simp only [hne, ne_eq, not_true_eq_false, if_false, WM.bind_apply, hSlot_taken w v k t d hk hv hl, readElem,
        getVec_ok w v _ hv hlive, WM.lift,
        VecSt.readElem_ok (d.taken k) (k.slot d) id (by rw [hcap]; omega) (by rw [hcells]; exact hc),
        hConsume_taken w v k t d hk hwf hv hl, hold, WM.modify_apply, WM.pure_apply]
      exact ⟨trivial, _, _, _, .held, by simp [World.erase, World.upd]⟩
    · simp only [ne_eq, hne, not_false_eq_true, if_true, WM.bind_apply, WM.pure_apply]
      rcases hD with ⟨hok, he⟩ | ⟨⟨m, hp⟩, he⟩
      · cases hr : hDrop { v := v, kind := k, typed := t } w with
        | mk w1 res =>
          rw [hr] at hok he; simp only at hok he; subst hok
          exact ⟨trivial, _, _, _, .dropped, by simpa using he⟩
      · cases hr : hDrop { v := v, kind := k, typed := t } w with
        | mk w1 res =>
          rw [hr] at hp he; simp only at hp he; subst hp
          refine ⟨trivial, _, _, _, .dropPanicked, ?_⟩
          simp only [hself]; simpa using he
  | pushTo _ => cases hs
  | insertTo _ _ => cases hs
  | lazyTo _ _ => cases hs
  | swapVal _ => cases hs


/-- the invariant does not look at events, fault state -/
theorem World.Inv.of_erase {w w' : World} (h : w.Inv) (he : w'.erase = w.erase) : w'.Inv := by
  have e1 : w'.vecs = w.vecs := by have := congrArg World.vecs he; exact this
  have e2 : w'.created = w.created := by have := congrArg World.created he; exact this
  have e3 : w'.dropLog = w.dropLog := by have := congrArg World.dropLog he; exact this
  have e4 : w'.held = w.held := by have := congrArg World.held he; exact this
  have e5 : w'.pendingRaw = w.pendingRaw := by have := congrArg World.pendingRaw he; exact this
  refine ⟨by rw [e1]; exact h.good, ?_, ?_⟩
  · have : w'.all = w.all := by simp [World.all, World.owned, World.allVis, e1, e3, e4, e5]
    rw [this]; exact h.nodup
  · have : w'.all = w.all := by simp [World.all, World.owned, World.allVis, e1, e3, e4, e5]
    rw [this, e2]; exact h.bound

theorem World.Inv.local_erase {w w' : World} (h : w.Inv) (v : Nat) (d d' : VecSt) (hl dl : List Nat)
    (hv : w.vecs[v]? = some d)
    (he : w'.erase = { (w.upd v d').erase with held := hl ++ w.held, dropLog := dl ++ w.dropLog })
    (hgood : d'.Good) (hperm : Leq (d'.abs ++ (hl.map Cell.val ++ dl.map Cell.val)) d.abs) : w'.Inv := by
  have e1 : w'.vecs = w.vecs.set v d' := by have := congrArg World.vecs he; exact this
  have e2 : w'.created = w.created := by have := congrArg World.created he; exact this
  have e3 : w'.dropLog = dl ++ w.dropLog := by have := congrArg World.dropLog he; exact this
  have e4 : w'.held = hl ++ w.held := by have := congrArg World.held he; exact this
  have e5 : w'.pendingRaw = w.pendingRaw := by have := congrArg World.pendingRaw he; exact this
  exact h.local v d d' 0 hl dl [] hv e1 hgood (by simpa using e2) e4 e3 (by simpa using e5)
    (by simpa [freshCells] using hperm)

/-- a removal handle of any kind, given to any core sink, under any fault state -/
theorem take_step_inv (cfg : Cfg) (w : World) (v : Nat) (k : HKind) (t : Bool) (sink : Sink) (d : VecSt)
    (h : w.Inv) (hv : w.vecs[v]? = some d) (hl : d.live = true) (hk : k.okFor d) (hs : sink.Core) :
    (sinkHandle cfg { v := v, kind := k, typed := t } sink (w.upd v (d.taken k))).1.Inv ∧
    (sinkHandle cfg { v := v, kind := k, typed := t } sink (w.upd v (d.taken k))).2.notUb := by
  have hlt : v < w.vecs.length := (List.getElem?_eq_some_iff.mp hv).1
  have hg := h.good v d hv
  obtain ⟨id, hc⟩ := hg.get (k.slot d) (HKind.slot_lt hk)
  obtain ⟨hnu, d', hl', dl, ho, he⟩ := sinkHandle_core cfg (w.upd v (d.taken k)) v k t d id sink hs hk hg.wf
    (by simp [hlt]) hl hc
  obtain ⟨hgood, hleq⟩ := ho.good hk hg hc
  refine ⟨?_, hnu⟩
  exact h.local_erase v d d' hl' dl hv (by simpa using he) hgood hleq


theorem panic_inv {α} (w : World) (h : w.Inv) (m : String) :
    ((WM.panic m : WM α) w).1.Inv ∧ ((WM.panic m : WM α) w).2.notUb :=
  ⟨h.of_erase rfl, trivial⟩

theorem step_remove_inv (cfg : Cfg) (w : World) (v i : Nat) (k : Sink) (d : VecSt) (h : w.Inv)
    (hv : w.vecs[v]? = some d) (hl : d.live = true) (hs : k.Core) :
    (step cfg (.remove v i k) w).1.Inv ∧ (step cfg (.remove v i k) w).2.notUb := by
  by_cases hi : i < d.len
  · have e : step cfg (.remove v i k) w = sinkHandle cfg { v := v, kind := .remove i (d.len - 1), typed := false } k
        (w.upd v (d.taken (.remove i (d.len - 1)))) := by
      simp only [step, WM.bind_apply, getVec_ok w v d hv hl, hi, if_true, setLen, setVec_apply]
      rfl
    rw [e]
    exact take_step_inv cfg w v _ false k d h hv hl ⟨hi, rfl⟩ hs
  · have e : step cfg (.remove v i k) w = (WM.panic "Index out of range!" : WM Out) w := by
      simp only [step, WM.bind_apply, getVec_ok w v d hv hl, hi, if_false]
    rw [e]; exact panic_inv w h _

theorem step_swapRemove_inv (cfg : Cfg) (w : World) (v i : Nat) (k : Sink) (d : VecSt) (h : w.Inv)
    (hv : w.vecs[v]? = some d) (hl : d.live = true) (hs : k.Core) :
    (step cfg (.swapRemove v i k) w).1.Inv ∧ (step cfg (.swapRemove v i k) w).2.notUb := by
  by_cases hi : i < d.len
  · have e : step cfg (.swapRemove v i k) w = sinkHandle cfg { v := v, kind := .swapRemove i d.gen (d.len - 1), typed := false } k
        (w.upd v (d.taken (.swapRemove i d.gen (d.len - 1)))) := by
      simp only [step, WM.bind_apply, getVec_ok w v d hv hl, hi, if_true, setLen, setVec_apply]
      rfl
    rw [e]
    exact take_step_inv cfg w v _ false k d h hv hl ⟨hi, rfl, rfl⟩ hs
  · have e : step cfg (.swapRemove v i k) w = (WM.panic "Index out of range!" : WM Out) w := by
      simp only [step, WM.bind_apply, getVec_ok w v d hv hl, hi, if_false]
    rw [e]; exact panic_inv w h _

theorem step_pop_inv (cfg : Cfg) (w : World) (v : Nat) (k : Sink) (d : VecSt) (h : w.Inv)
    (hv : w.vecs[v]? = some d) (hl : d.live = true) (hs : k.Core) :
    (step cfg (.pop v k) w).1.Inv ∧ (step cfg (.pop v k) w).2.notUb := by
  by_cases hi : d.len = 0
  · have e : step cfg (.pop v k) w = (w, .ok ["N"]) := by
      simp only [step, WM.bind_apply, getVec_ok w v d hv hl, hi, if_true, WM.pure_apply]
    rw [e]; exact ⟨h, trivial⟩
  · have e : step cfg (.pop v k) w = sinkHandle cfg { v := v, kind := .pop, typed := false } k
        (w.upd v (d.taken .pop)) := by
      simp only [step, WM.bind_apply, getVec_ok w v d hv hl, hi, if_false, setLen, setVec_apply]
      rfl
    rw [e]
    exact take_step_inv cfg w v _ false k d h hv hl hi hs

theorem step_tremove_inv (cfg : Cfg) (w : World) (v i : Nat) (d : VecSt) (h : w.Inv)
    (hv : w.vecs[v]? = some d) (hl : d.live = true) :
    (step cfg (.tremove v i) w).1.Inv ∧ (step cfg (.tremove v i) w).2.notUb := by
  by_cases hi : i < d.len
  · have e : step cfg (.tremove v i) w = sinkHandle cfg { v := v, kind := .remove i (d.len - 1), typed := true } (.downcast d.ty)
        (w.upd v (d.taken (.remove i (d.len - 1)))) := by
      simp only [step, WM.bind_apply, getVec_ok w v d hv hl, hi, if_true, setLen, setVec_apply]
      rfl
    rw [e]
    exact take_step_inv cfg w v _ true _ d h hv hl ⟨hi, rfl⟩ trivial
  · have e : step cfg (.tremove v i) w = (WM.panic "Index out of range!" : WM Out) w := by
      simp only [step, WM.bind_apply, getVec_ok w v d hv hl, hi, if_false]
    rw [e]; exact panic_inv w h _

theorem step_tswapRemove_inv (cfg : Cfg) (w : World) (v i : Nat) (d : VecSt) (h : w.Inv)
    (hv : w.vecs[v]? = some d) (hl : d.live = true) :
    (step cfg (.tswapRemove v i) w).1.Inv ∧ (step cfg (.tswapRemove v i) w).2.notUb := by
  by_cases hi : i < d.len
  · have e : step cfg (.tswapRemove v i) w = sinkHandle cfg { v := v, kind := .swapRemove i d.gen (d.len - 1), typed := true } (.downcast d.ty)
        (w.upd v (d.taken (.swapRemove i d.gen (d.len - 1)))) := by
      simp only [step, WM.bind_apply, getVec_ok w v d hv hl, hi, if_true, setLen, setVec_apply]
      rfl
    rw [e]
    exact take_step_inv cfg w v _ true _ d h hv hl ⟨hi, rfl, rfl⟩ trivial
  · have e : step cfg (.tswapRemove v i) w = (WM.panic "Index out of range!" : WM Out) w := by
      simp only [step, WM.bind_apply, getVec_ok w v d hv hl, hi, if_false]
    rw [e]; exact panic_inv w h _

theorem step_tpop_inv (cfg : Cfg) (w : World) (v : Nat) (d : VecSt) (h : w.Inv)
    (hv : w.vecs[v]? = some d) (hl : d.live = true) :
    (step cfg (.tpop v) w).1.Inv ∧ (step cfg (.tpop v) w).2.notUb := by
  by_cases hi : d.len = 0
  · have e : step cfg (.tpop v) w = (w, .ok ["N"]) := by
      simp only [step, WM.bind_apply, getVec_ok w v d hv hl, hi, if_true, WM.pure_apply]
    rw [e]; exact ⟨h, trivial⟩
  · have e : step cfg (.tpop v) w = sinkHandle cfg { v := v, kind := .pop, typed := true } (.downcast d.ty)
        (w.upd v (d.taken .pop)) := by
      simp only [step, WM.bind_apply, getVec_ok w v d hv hl, hi, if_false, setLen, setVec_apply]
      rfl
    rw [e]
    exact take_step_inv cfg w v _ true _ d h hv hl hi trivial


/-- the erased destructor loop under an arbitrary fault state destroys a prefix of `[i, i+k)`, each
element once, and touches nothing else -/
theorem dropLoop_erase (w : World) (v : Nat) (d : VecSt) (hasDrop : Bool) (i k : Nat) (ids : List Nat)
    (hv : w.vecs[v]? = some d) (hl : d.live = true) (hcap : i + k ≤ d.cap)
    (hlen : ids.length = k) (hids : ∀ j, j < k → d.cells.get (i + j) = .val (ids.getD j 0)) :
    (∃ n, n ≤ k ∧ (dropLoop v hasDrop i k w).1.erase = { w.erase with dropLog := (ids.take n).reverse ++ w.dropLog }) ∧
      ((dropLoop v hasDrop i k w).2 = .ok () ∨ ∃ m, (dropLoop v hasDrop i k w).2 = .panic m) := by
  induction k generalizing i ids w with
  | zero =>
    have : ids = [] := List.length_eq_zero_iff.mp hlen
    subst this
    exact ⟨⟨0, Nat.le_refl _, rfl⟩, Or.inl rfl⟩
  | succ k ih =>
    match ids, hlen with
    | id :: rest, hlen =>
      have hlt : v < w.vecs.length := (List.getElem?_eq_some_iff.mp hv).1
      have hd : w.vecs[v] = d := (List.getElem?_eq_some_iff.mp hv).2
      have h0 := hids 0 (by omega)
      simp at h0
      have hb : i < d.cap := by omega
      obtain ⟨e1, e5⟩ := dropElem_erase hasDrop id w
      have hstep : dropLoop v hasDrop i (k + 1) w =
          match dropElem hasDrop id w with
          | (w', .ok _) => dropLoop v hasDrop (i + 1) k w'
          | (w', .panic s) => (w', .panic s)
          | (w', .ub s) => (w', .ub s) := by
        simp [dropLoop, readElem, getVec, hlt, hd, hl, VecSt.readElem_ok, hb, h0]
        cases hde : dropElem hasDrop id w with
        | mk w1 res => cases res <;> rfl
      rw [hstep]
      cases hde : dropElem hasDrop id w with
      | mk w1 res =>
        rw [hde] at e1 e5
        simp only at e1 e5
        have e2 : w1.vecs = w.vecs := by have := congrArg World.vecs e1; exact this
        rcases e5 with hok | ⟨m, hp⟩
        · subst hok
          simp only
          have hrest := ih (w := w1) (i := i + 1) (ids := rest) (by rw [e2]; exact hv) (by omega)
            (by simpa using hlen)
            (by intro j hj
                have := hids (j + 1) (by omega)
                simp at this
                rw [show i + 1 + j = i + (j + 1) by omega]; exact this)
          obtain ⟨⟨n, hn, he⟩, h5⟩ := hrest
          refine ⟨⟨n + 1, by omega, ?_⟩, h5⟩
          have e3 : w1.dropLog = id :: w.dropLog := by have := congrArg World.dropLog e1; exact this
          rw [he, e1]
          simp [e3]
        · subst hp
          simp only
          exact ⟨⟨1, by omega, by rw [e1]; simp⟩, Or.inr ⟨m, rfl⟩⟩


theorem dropRange_erased' (w : World) (v : Nat) (d : VecSt) (s e : Nat)
    (hv : w.vecs[v]? = some d) (hl : d.live = true) :
    dropRange v false s e w = dropLoop v d.hasDrop s (e - s) w := by
  simp only [dropRange, WM.bind_apply, getVec_ok w v d hv hl]
  cases hD : d.hasDrop <;> simp

/-- `drop_elements_range(0, len)` after the length was set to 0 (`clear`, `Drop for AnyVecRaw`):
a prefix of the old contents is destroyed, nothing else changes -/
theorem dropAll_erase (w : World) (v : Nat) (d : VecSt) (hg : d.Good) (hl : d.live = true)
    (hv : w.vecs[v]? = some { d with len := 0 }) :
    (∃ dl : List Nat, Leq (dl.map Cell.val) d.abs ∧
      (dropRange v false 0 d.len w).1.erase = { w.erase with dropLog := dl ++ w.dropLog }) ∧
    ((dropRange v false 0 d.len w).2 = .ok () ∨ ∃ m, (dropRange v false 0 d.len w).2 = .panic m) := by
  have hlc := hg.wf.len_le_cap
  have hids : ∀ j, j < d.len → ({ d with len := 0 } : VecSt).cells.get (0 + j) = .val (d.ids.getD j 0) := by
    intro j hj
    have := VecSt.idsRange_get d 0 d.len j hj hg.init
    simpa [VecSt.ids] using this
  rw [dropRange_erased' w v _ 0 d.len hv hl]
  obtain ⟨⟨n, hn, he⟩, h5⟩ := dropLoop_erase w v { d with len := 0 } d.hasDrop 0 d.len d.ids hv hl
    (by simp; omega) (by simp [VecSt.ids]) hids
  simp only [Nat.sub_zero]
  refine ⟨⟨(d.ids.take n).reverse, ?_, he⟩, h5⟩
  rw [VecSt.abs_eq_ids d hg.wf hg.init]
  have : Leq ((d.ids.take n).map Cell.val) (d.ids.map Cell.val) := by
    rw [List.map_take]; exact Leq.take _ _
  refine Leq.trans (Leq.of_perm ?_) this
  rw [List.map_reverse]
  exact List.reverse_perm _

theorem step_clear_inv (cfg : Cfg) (w : World) (v : Nat) (d : VecSt) (h : w.Inv)
    (hv : w.vecs[v]? = some d) (hl : d.live = true) :
    (step cfg (.clear v) w).1.Inv ∧ (step cfg (.clear v) w).2.notUb := by
  have hlt : v < w.vecs.length := (List.getElem?_eq_some_iff.mp hv).1
  have hg := h.good v d hv
  have hv0 : (w.upd v { d with len := 0 }).vecs[v]? = some { d with len := 0 } := by simp [hlt]
  obtain ⟨⟨dl, hleq, he⟩, h5⟩ := dropAll_erase (w.upd v { d with len := 0 }) v d hg hl hv0
  have hstep : step cfg (.clear v) w =
      match dropRange v false 0 d.len (w.upd v { d with len := 0 }) with
      | (w', .ok _) => (w', .ok [])
      | (w', .panic s) => (w', .panic s)
      | (w', .ub s) => (w', .ub s) := by
    simp only [step, WM.bind_apply, getVec_ok w v d hv hl, setLen, World.setVec_apply, WM.pure_apply]
    cases hdl : dropRange v false 0 d.len (w.upd v { d with len := 0 }) with
    | mk w1 res => cases res <;> rfl
  have hgood0 : ({ d with len := 0 } : VecSt).Good := by
    refine VecSt.good_of_sub hg ⟨by simp, hg.wf.cells_le⟩ ?_
    intro c hc; simp [VecSt.abs] at hc
  rw [hstep]
  cases hdl : dropRange v false 0 d.len (w.upd v { d with len := 0 }) with
  | mk w1 res =>
    rw [hdl] at he h5
    simp only at he h5
    have hinv : w1.Inv := h.local_erase v d { d with len := 0 } [] dl hv (by simpa using he) hgood0
      (by simpa [VecSt.abs] using hleq)
    rcases h5 with hok | ⟨m, hp⟩
    · subst hok; exact ⟨hinv, trivial⟩
    · subst hp; exact ⟨hinv, trivial⟩


theorem VecSt.good_of_abs_eq {d d' : VecSt} (hg : d.Good) (hwf : d'.WF) (ha : d'.abs = d.abs) : d'.Good :=
  VecSt.good_of_sub hg hwf (by intro c hc; rw [ha] at hc; exact hc)

/-- any capacity call that keeps the elements, from the world's point of view -/
theorem vecOp_inv' (w : World) (v : Nat) (d : VecSt) (f : VecSt → Res (VecSt × List Event)) (h : w.Inv)
    (hv : w.vecs[v]? = some d) (hl : d.live = true)
    (hk : ∀ d' es, f d = .ok (d', es) → d'.abs = d.abs ∧ d'.WF) (hn : (f d).notUb) :
    (vecOp v f w).1.Inv ∧ (vecOp v f w).2.notUb := by
  have hg := h.good v d hv
  cases hf : f d with
  | ok p =>
    obtain ⟨d', es⟩ := p
    obtain ⟨ha, hw⟩ := hk d' es hf
    have e : vecOp v f w = ({ w.upd v d' with ev := es.reverse ++ w.ev }, .ok ()) := by
      simp only [vecOp, WM.bind_apply, getVec_ok w v d hv hl, hf, WM.lift_ok, setVec_apply, World.emit_apply]
      rfl
    rw [e]
    refine ⟨?_, trivial⟩
    exact h.local_erase v d d' [] [] hv rfl (VecSt.good_of_abs_eq hg hw ha) (by simpa [ha] using Leq.refl _)
  | panic m =>
    have e : vecOp v f w = ({ w with fault := none }, .panic m) := by
      simp only [vecOp, WM.bind_apply, getVec_ok w v d hv hl, hf, WM.lift]
    rw [e]
    exact ⟨h.of_erase rfl, trivial⟩
  | ub m => rw [hf] at hn; exact hn.elim

theorem vecOp_inv (w : World) (v : Nat) (d : VecSt) (f : VecSt → Res (VecSt × List Event)) (h : w.Inv)
    (hv : w.vecs[v]? = some d) (hl : d.live = true) (hk : KeepsElems f) (hn : (f d).notUb) :
    (vecOp v f w).1.Inv ∧ (vecOp v f w).2.notUb :=
  vecOp_inv' w v d f h hv hl (fun d' es hf => ⟨(hk d d' es (h.good v d hv).wf hf).1, (hk d d' es (h.good v d hv).wf hf).2.1⟩) hn

theorem then_pure_inv {α} (m : WM α) (o : Out) (w : World) (h : (m w).1.Inv ∧ (m w).2.notUb) :
    ((do let _ ← m; pure o : WM Out) w).1.Inv ∧ ((do let _ ← m; pure o : WM Out) w).2.notUb := by
  simp only [WM.bind_apply, WM.pure_apply]
  cases hm : m w with
  | mk w1 res =>
    rw [hm] at h
    cases res <;> exact h

theorem step_reserve_inv (cfg : Cfg) (w : World) (v n : Nat) (d : VecSt) (h : w.Inv)
    (hv : w.vecs[v]? = some d) (hl : d.live = true) :
    (step cfg (.reserve v n) w).1.Inv ∧ (step cfg (.reserve v n) w).2.notUb :=
  then_pure_inv _ [] w (vecOp_inv w v d _ h hv hl (reserve_keeps n) (reserve_notUb d n))

theorem step_reserveExact_inv (cfg : Cfg) (w : World) (v n : Nat) (d : VecSt) (h : w.Inv)
    (hv : w.vecs[v]? = some d) (hl : d.live = true) (hr : VecSt.resizable d.bk = true) :
    (step cfg (.reserveExact v n) w).1.Inv ∧ (step cfg (.reserveExact v n) w).2.notUb :=
  then_pure_inv _ [] w (vecOp_inv w v d _ h hv hl (reserveExact_keeps n) (reserveExact_notUb d n hr))

theorem step_shrinkToFit_inv (cfg : Cfg) (w : World) (v : Nat) (d : VecSt) (h : w.Inv)
    (hv : w.vecs[v]? = some d) (hl : d.live = true) (hr : VecSt.resizable d.bk = true) :
    (step cfg (.shrinkToFit v) w).1.Inv ∧ (step cfg (.shrinkToFit v) w).2.notUb :=
  then_pure_inv _ [] w (vecOp_inv w v d _ h hv hl shrinkToFit_keeps (memResize_notUb d _ hr))

theorem step_shrinkTo_inv (cfg : Cfg) (w : World) (v n : Nat) (d : VecSt) (h : w.Inv)
    (hv : w.vecs[v]? = some d) (hl : d.live = true) (hr : VecSt.resizable d.bk = true) :
    (step cfg (.shrinkTo v n) w).1.Inv ∧ (step cfg (.shrinkTo v n) w).2.notUb :=
  then_pure_inv _ [] w (vecOp_inv w v d _ h hv hl (shrinkTo_keeps n) (memResize_notUb d _ hr))


theorem World.Inv.local_erase' {w w' : World} (h : w.Inv) (v : Nat) (d d' : VecSt) (k : Nat) (hl dl pl : List Nat)
    (hv : w.vecs[v]? = some d)
    (he : w'.erase = { (w.upd v d').erase with
                        created := w.created + k, held := hl ++ w.held,
                        dropLog := dl ++ w.dropLog, pendingRaw := pl ++ w.pendingRaw })
    (hgood : d'.Good)
    (hperm : Leq (d'.abs ++ (hl.map Cell.val ++ dl.map Cell.val ++ pl.map Cell.val)) (freshCells w.created k ++ d.abs)) :
    w'.Inv := by
  have e1 : w'.vecs = w.vecs.set v d' := by have := congrArg World.vecs he; exact this
  have e2 : w'.created = w.created + k := by have := congrArg World.created he; exact this
  have e3 : w'.dropLog = dl ++ w.dropLog := by have := congrArg World.dropLog he; exact this
  have e4 : w'.held = hl ++ w.held := by have := congrArg World.held he; exact this
  have e5 : w'.pendingRaw = pl ++ w.pendingRaw := by have := congrArg World.pendingRaw he; exact this
  exact h.local v d d' k hl dl pl hv e1 hgood e2 e4 e3 e5 hperm

/-- one identity handed out -/
def World.bump (w : World) : World := { w with created := w.created + 1 }

theorem World.upd_self (w : World) (v : Nat) (d : VecSt) (hv : w.vecs[v]? = some d) : w.upd v d = w := by
  have hlt : v < w.vecs.length := (List.getElem?_eq_some_iff.mp hv).1
  simp only [World.upd]
  have : w.vecs.set v d = w.vecs := by
    apply List.ext_getElem?
    intro j
    by_cases hj : v = j
    · subst hj; simp [hlt]; exact ((List.getElem?_eq_some_iff.mp hv).2).symm
    · simp [List.getElem?_set, hj]
  rw [this]

/-- a plain value that the library refuses (type mismatch, index out of range, no capacity): it is
destroyed by the library (owning wrapper) or stays with the caller (raw pointer), exactly once -/
theorem reject_plain {α} (w : World) (x : Val) (id : Nat) (hx : x.Plain id) (b : Bool) (m : WM α) (s : String)
    (hm : m w = ({ w with fault := none }, .panic s)) :
    (∃ m', (WM.onUnwind m (valDrop b x) w).2 = .panic m') ∧
    ∃ dl pl, dl ++ pl = [id] ∧ (WM.onUnwind m (valDrop b x) w).1.erase =
      { w.erase with dropLog := dl ++ w.dropLog, pendingRaw := pl ++ w.pendingRaw } := by
  cases hx with
  | wrapper id ty =>
    obtain ⟨e1, e5⟩ := dropElem_erase b id { w with fault := none }
    simp only [WM.onUnwind, hm, valDrop]
    cases hde : dropElem b id { w with fault := none } with
    | mk w1 res =>
      rw [hde] at e1 e5
      simp only at e1 e5
      rcases e5 with hok | ⟨m', hp⟩
      · subst hok
        exact ⟨⟨s, rfl⟩, [id], [], rfl, e1⟩
      · subst hp
        exact ⟨⟨s, rfl⟩, [id], [], rfl, e1⟩
  | raw id ty =>
    simp only [WM.onUnwind, hm, valDrop, WM.modify_apply]
    exact ⟨⟨s, rfl⟩, [], [id], rfl, rfl⟩

/-- the invariant after a refused plain value whose identity is the fresh one -/
theorem reject_inv {w0 w' : World} (h : w0.Inv) (v : Nat) (d : VecSt) (hv : w0.vecs[v]? = some d)
    (dl pl : List Nat) (hdp : dl ++ pl = [w0.created])
    (he : w'.erase = { w0.bump.erase with dropLog := dl ++ w0.dropLog, pendingRaw := pl ++ w0.pendingRaw }) :
    w'.Inv := by
  refine h.local_erase' v d d 1 [] dl pl hv ?_ (h.good v d hv) ?_
  · rw [World.upd_self w0 v d hv]; exact he
  · have : dl.map Cell.val ++ pl.map Cell.val = [Cell.val w0.created] := by
      rw [← List.map_append, hdp]; rfl
    simp only [List.map_nil, List.nil_append, freshCells, List.range'_one, List.map_cons]
    rw [this]
    exact Leq.of_perm List.perm_append_comm


@[simp] theorem World.bump_vecs (w : World) : w.bump.vecs = w.vecs := rfl
@[simp] theorem World.bump_created (w : World) : w.bump.created = w.created + 1 := rfl

theorem vecOp_panic (w : World) (v : Nat) (d : VecSt) (f : VecSt → Res (VecSt × List Event)) (m : String)
    (hv : w.vecs[v]? = some d) (hl : d.live = true) (hf : f d = .panic m) :
    vecOp v f w = ({ w with fault := none }, .panic m) := by
  simp only [vecOp, WM.bind_apply, getVec_ok w v d hv hl, hf, WM.lift]

theorem pushUnchecked_plain_inv (w0 : World) (h : w0.Inv) (v : Nat) (d : VecSt) (hv : w0.vecs[v]? = some d)
    (hl : d.live = true) (x : Val) (hx : x.Plain w0.created) :
    (pushUnchecked v x w0.bump).1.Inv ∧ (pushUnchecked v x w0.bump).2.notUb := by
  have hg := h.good v d hv
  have hvb : w0.bump.vecs[v]? = some d := hv
  cases hr : d.reserveOne with
  | ok p =>
    obtain ⟨d1, es⟩ := p
    obtain ⟨hroom, _, ha, hw1, _⟩ := reserveOne_spec d d1 es hg.wf hr
    rw [pushUnchecked_plain w0.bump v w0.created x hx d d1 es hvb hl hg.wf hr]
    refine ⟨?_, trivial⟩
    have hgood : (d1.pushCell (.val w0.created)).Good := by
      refine ⟨VecSt.pushCell_wf d1 _ hw1 hroom, ?_⟩
      intro c hc
      rw [VecSt.pushCell_abs d1 _ hw1, ha] at hc
      rcases List.mem_append.mp hc with h1 | h1
      · exact hg.allVal c h1
      · exact ⟨w0.created, by simpa using h1⟩
    refine h.local_erase' v d _ 1 [] [] [] hv rfl hgood ?_
    rw [VecSt.pushCell_abs d1 _ hw1, ha]
    simp only [List.map_nil, List.append_nil, freshCells, List.range'_one, List.map_cons]
    exact Leq.of_perm List.perm_append_comm
  | panic m =>
    have hm := vecOp_panic w0.bump v d VecSt.reserveOne m hvb hl hr
    obtain ⟨⟨m', hp⟩, dl, pl, hdp, he⟩ := reject_plain w0.bump x w0.created hx d.hasDrop _ m hm
    have e : pushUnchecked v x w0.bump =
        ((WM.onUnwind (vecOp v VecSt.reserveOne) (valDrop d.hasDrop x) w0.bump).1, .panic m') := by
      simp only [pushUnchecked, WM.bind_apply, getVec_ok w0.bump v d hvb hl]
      cases hou : WM.onUnwind (vecOp v VecSt.reserveOne) (valDrop d.hasDrop x) w0.bump with
      | mk w1 res =>
        rw [hou] at hp
        simp only at hp
        subst hp
        rfl
    rw [e]
    exact ⟨reject_inv h v d hv dl pl hdp he, trivial⟩
  | ub m => have := reserveOne_notUb d; rw [hr] at this; exact this.elim

theorem push_plain_inv (w0 : World) (h : w0.Inv) (v : Nat) (d : VecSt) (hv : w0.vecs[v]? = some d)
    (hl : d.live = true) (x : Val) (hx : x.Plain w0.created) :
    (push v x w0.bump).1.Inv ∧ (push v x w0.bump).2.notUb := by
  have hvb : w0.bump.vecs[v]? = some d := hv
  have hty : ∃ ty, valTy x = pure ty := by cases hx <;> exact ⟨_, rfl⟩
  obtain ⟨ty, hty⟩ := hty
  by_cases hne : ty = d.ty
  · have e : push v x w0.bump = pushUnchecked v x w0.bump := by
      simp only [push, WM.bind_apply, getVec_ok w0.bump v d hvb hl, hty, WM.pure_apply, hne, ne_eq,
        not_true_eq_false, if_false]
    rw [e]; exact pushUnchecked_plain_inv w0 h v d hv hl x hx
  · obtain ⟨⟨m', hp⟩, dl, pl, hdp, he⟩ := reject_plain w0.bump x w0.created hx d.hasDrop
      (WM.panic "Type mismatch!" : WM Unit) _ rfl
    have e : push v x w0.bump = WM.onUnwind (WM.panic "Type mismatch!") (valDrop d.hasDrop x) w0.bump := by
      simp only [push, WM.bind_apply, getVec_ok w0.bump v d hvb hl, hty, WM.pure_apply, hne, ne_eq,
        not_false_eq_true, if_true]
    rw [e]
    refine ⟨reject_inv h v d hv dl pl hdp he, ?_⟩
    rw [hp]; trivial


def Src.Plain : Src → Prop
  | .wrapper _ | .raw _ => True
  | _ => False

theorem mkVal_plain (cfg : Cfg) (s : Src) (hs : s.Plain) (w : World) :
    ∃ x, x.Plain w.created ∧ mkVal cfg s w = (w.bump, .ok x) := by
  cases s with
  | wrapper ty => exact ⟨.wrapper w.created ty, .wrapper _ _, rfl⟩
  | raw ty => exact ⟨.raw w.created ty, .raw _ _, rfl⟩
  | lazyRef _ _ _ => cases hs

theorem step_push_inv (cfg : Cfg) (w : World) (v : Nat) (s : Src) (d : VecSt) (h : w.Inv)
    (hv : w.vecs[v]? = some d) (hl : d.live = true) (hs : s.Plain) :
    (step cfg (.push v s) w).1.Inv ∧ (step cfg (.push v s) w).2.notUb := by
  obtain ⟨x, hx, hmk⟩ := mkVal_plain cfg s hs w
  have e : step cfg (.push v s) w = (do let _ ← push v x; pure [] : WM Out) w.bump := by
    simp only [step, WM.bind_apply, hmk]
  rw [e]
  exact then_pure_inv _ [] _ (push_plain_inv w h v d hv hl x hx)

theorem step_tpush_inv (cfg : Cfg) (w : World) (v : Nat) (d : VecSt) (h : w.Inv)
    (hv : w.vecs[v]? = some d) (hl : d.live = true) :
    (step cfg (.tpush v) w).1.Inv ∧ (step cfg (.tpush v) w).2.notUb := by
  have e : step cfg (.tpush v) w = (do let _ ← pushUnchecked v (.wrapper w.created d.ty); pure [] : WM Out) w.bump := by
    simp only [step, WM.bind_apply, getVec_ok w v d hv hl, fresh]
    rfl
  rw [e]
  exact then_pure_inv _ [] _ (pushUnchecked_plain_inv w h v d hv hl _ (.wrapper _ _))

theorem insertUnchecked_plain_inv (w0 : World) (h : w0.Inv) (v i : Nat) (d : VecSt) (hv : w0.vecs[v]? = some d)
    (hl : d.live = true) (x : Val) (hx : x.Plain w0.created) :
    (insertUnchecked v i x w0.bump).1.Inv ∧ (insertUnchecked v i x w0.bump).2.notUb := by
  have hg := h.good v d hv
  have hvb : w0.bump.vecs[v]? = some d := hv
  by_cases hi : i ≤ d.len
  · cases hr : d.reserveOne with
    | ok p =>
      obtain ⟨d1, es⟩ := p
      obtain ⟨hroom, hlen, ha, hw1, _⟩ := reserveOne_spec d d1 es hg.wf hr
      rw [insertUnchecked_plain w0.bump v i w0.created x hx d d1 es hvb hl hg.wf hi hr]
      refine ⟨?_, trivial⟩
      have habs : (d1.insertAt i (.val w0.created)).abs = d.abs.insertIdx i (.val w0.created) := by
        rw [VecSt.insertAt_abs d1 i _ hw1 (by omega), ha]
      have hlen2 : i ≤ d.abs.length := by rw [VecSt.abs_length hg.wf]; exact hi
      have hperm : (d.abs.insertIdx i (Cell.val w0.created)).Perm (Cell.val w0.created :: d.abs) :=
        List.perm_insertIdx _ _ hlen2
      have hgood : (d1.insertAt i (.val w0.created)).Good := by
        refine ⟨VecSt.insertAt_wf d1 i _ hw1 (by omega) hroom, ?_⟩
        intro c hc
        rw [habs] at hc
        rcases List.mem_cons.mp (hperm.subset hc) with h1 | h1
        · exact ⟨w0.created, h1⟩
        · exact hg.allVal c h1
      refine h.local_erase' v d _ 1 [] [] [] hv rfl hgood ?_
      rw [habs]
      simp only [List.map_nil, List.append_nil, freshCells, List.range'_one, List.map_cons]
      exact Leq.of_perm hperm
    | panic m =>
      have hm := vecOp_panic w0.bump v d VecSt.reserveOne m hvb hl hr
      obtain ⟨⟨m', hp⟩, dl, pl, hdp, he⟩ := reject_plain w0.bump x w0.created hx d.hasDrop _ m hm
      have hnot : ¬ i > d.len := by omega
      have e : insertUnchecked v i x w0.bump =
          ((WM.onUnwind (vecOp v VecSt.reserveOne) (valDrop d.hasDrop x) w0.bump).1, .panic m') := by
        simp only [insertUnchecked, WM.bind_apply, getVec_ok w0.bump v d hvb hl, hnot, if_false]
        cases hou : WM.onUnwind (vecOp v VecSt.reserveOne) (valDrop d.hasDrop x) w0.bump with
        | mk w1 res =>
          rw [hou] at hp
          simp only at hp
          subst hp
          rfl
      rw [e]
      exact ⟨reject_inv h v d hv dl pl hdp he, trivial⟩
    | ub m => have := reserveOne_notUb d; rw [hr] at this; exact this.elim
  · obtain ⟨⟨m', hp⟩, dl, pl, hdp, he⟩ := reject_plain w0.bump x w0.created hx d.hasDrop
      (WM.panic "Index out of range!" : WM Unit) _ rfl
    have hgt : i > d.len := by omega
    have e : insertUnchecked v i x w0.bump =
        WM.onUnwind (WM.panic "Index out of range!") (valDrop d.hasDrop x) w0.bump := by
      simp only [insertUnchecked, WM.bind_apply, getVec_ok w0.bump v d hvb hl, hgt, if_true]
    rw [e]
    refine ⟨reject_inv h v d hv dl pl hdp he, ?_⟩
    rw [hp]; trivial

theorem insert_plain_inv (w0 : World) (h : w0.Inv) (v i : Nat) (d : VecSt) (hv : w0.vecs[v]? = some d)
    (hl : d.live = true) (x : Val) (hx : x.Plain w0.created) :
    (World.insert v i x w0.bump).1.Inv ∧ (World.insert v i x w0.bump).2.notUb := by
  have hvb : w0.bump.vecs[v]? = some d := hv
  have hty : ∃ ty, valTy x = pure ty := by cases hx <;> exact ⟨_, rfl⟩
  obtain ⟨ty, hty⟩ := hty
  by_cases hne : ty = d.ty
  · have e : World.insert v i x w0.bump = insertUnchecked v i x w0.bump := by
      simp only [World.insert, WM.bind_apply, getVec_ok w0.bump v d hvb hl, hty, WM.pure_apply, hne, ne_eq,
        not_true_eq_false, if_false]
    rw [e]; exact insertUnchecked_plain_inv w0 h v i d hv hl x hx
  · obtain ⟨⟨m', hp⟩, dl, pl, hdp, he⟩ := reject_plain w0.bump x w0.created hx d.hasDrop
      (WM.panic "Type mismatch!" : WM Unit) _ rfl
    have e : World.insert v i x w0.bump = WM.onUnwind (WM.panic "Type mismatch!") (valDrop d.hasDrop x) w0.bump := by
      simp only [World.insert, WM.bind_apply, getVec_ok w0.bump v d hvb hl, hty, WM.pure_apply, hne, ne_eq,
        not_false_eq_true, if_true]
    rw [e]
    refine ⟨reject_inv h v d hv dl pl hdp he, ?_⟩
    rw [hp]; trivial

theorem step_insert_inv (cfg : Cfg) (w : World) (v i : Nat) (s : Src) (d : VecSt) (h : w.Inv)
    (hv : w.vecs[v]? = some d) (hl : d.live = true) (hs : s.Plain) :
    (step cfg (.insert v i s) w).1.Inv ∧ (step cfg (.insert v i s) w).2.notUb := by
  obtain ⟨x, hx, hmk⟩ := mkVal_plain cfg s hs w
  have e : step cfg (.insert v i s) w = (do let _ ← World.insert v i x; pure [] : WM Out) w.bump := by
    simp only [step, WM.bind_apply, hmk]
  rw [e]
  exact then_pure_inv _ [] _ (insert_plain_inv w h v i d hv hl x hx)

theorem step_tinsert_inv (cfg : Cfg) (w : World) (v i : Nat) (d : VecSt) (h : w.Inv)
    (hv : w.vecs[v]? = some d) (hl : d.live = true) :
    (step cfg (.tinsert v i) w).1.Inv ∧ (step cfg (.tinsert v i) w).2.notUb := by
  have e : step cfg (.tinsert v i) w = (do let _ ← insertUnchecked v i (.wrapper w.created d.ty); pure [] : WM Out) w.bump := by
    simp only [step, WM.bind_apply, getVec_ok w v d hv hl, fresh]
    rfl
  rw [e]
  exact then_pure_inv _ [] _ (insertUnchecked_plain_inv w h v i d hv hl _ (.wrapper _ _))


theorem readElem_good (w : World) (v : Nat) (d : VecSt) (i : Nat) (hv : w.vecs[v]? = some d) (hl : d.live = true)
    (hg : d.Good) (hi : i < d.len) : ∃ id, readElem v i w = (w, .ok id) := by
  obtain ⟨id, hc⟩ := hg.get i hi
  have hlc := hg.wf.len_le_cap
  exact ⟨id, by simp only [readElem, WM.bind_apply, getVec_ok w v d hv hl, WM.lift,
    VecSt.readElem_ok d i id (by omega) hc]⟩

theorem step_get_inv (cfg : Cfg) (w : World) (v i : Nat) (b : Bool) (d : VecSt) (h : w.Inv)
    (hv : w.vecs[v]? = some d) (hl : d.live = true) :
    (step cfg (.get v i b) w).1.Inv ∧ (step cfg (.get v i b) w).2.notUb := by
  by_cases hi : i < d.len
  · obtain ⟨id, hr⟩ := readElem_good w v d i hv hl (h.good v d hv) hi
    have e : step cfg (.get v i b) w = (w, .ok [cfg.tok id]) := by
      simp only [step, WM.bind_apply, getVec_ok w v d hv hl, hi, if_true, hr, WM.pure_apply]
    rw [e]; exact ⟨h, trivial⟩
  · cases b with
    | true =>
      have e : step cfg (.get v i true) w = (WM.panic "called `Option::unwrap()` on a `None` value" : WM Out) w := by
        simp only [step, WM.bind_apply, getVec_ok w v d hv hl, hi, if_false, if_true]
      rw [e]; exact panic_inv w h _
    | false =>
      have e : step cfg (.get v i false) w = (w, .ok ["N"]) := by
        simp [step, getVec_ok w v d hv hl, hi]
      rw [e]; exact ⟨h, trivial⟩

theorem iterGo_ro (cfg : Cfg) (w : World) (v : Nat) (d : VecSt) (hv : w.vecs[v]? = some d) (hl : d.live = true)
    (hg : d.Good) (cs : List End) (c : Cursor) (out : Out) (h1 : c.index ≤ c.end_) (h2 : c.end_ ≤ d.len) :
    ∃ o, iterGo cfg v c cs out w = (w, .ok o) := by
  induction cs generalizing c out with
  | nil => exact ⟨out, rfl⟩
  | cons e cs ih =>
    cases e with
    | front =>
      by_cases hc : c.index = c.end_
      · have : c.step .front = (none, c) := by simp [Cursor.step, Cursor.next, hc]
        simp only [iterGo, this]
        exact ih c _ h1 h2
      · have hs : c.step .front = (some c.index, { c with index := c.index + 1 }) := by
          simp [Cursor.step, Cursor.next, hc]
        obtain ⟨id, hr⟩ := readElem_good w v d c.index hv hl hg (by omega)
        simp only [iterGo, hs, WM.bind_apply, hr]
        exact ih _ _ (by simp; omega) (by simpa using h2)
    | back =>
      by_cases hc : c.end_ = c.index
      · have : c.step .back = (none, c) := by simp [Cursor.step, Cursor.nextBack, hc]
        simp only [iterGo, this]
        exact ih c _ h1 h2
      · have hs : c.step .back = (some (c.end_ - 1), { c with end_ := c.end_ - 1 }) := by
          simp [Cursor.step, Cursor.nextBack, hc]
        obtain ⟨id, hr⟩ := readElem_good w v d (c.end_ - 1) hv hl hg (by omega)
        simp only [iterGo, hs, WM.bind_apply, hr]
        exact ih _ _ (by simp; omega) (by simp; omega)

theorem step_iter_inv (cfg : Cfg) (w : World) (v : Nat) (cs : List End) (d : VecSt) (h : w.Inv)
    (hv : w.vecs[v]? = some d) (hl : d.live = true) :
    (step cfg (.iter v cs) w).1.Inv ∧ (step cfg (.iter v cs) w).2.notUb := by
  obtain ⟨o, ho⟩ := iterGo_ro cfg w v d hv hl (h.good v d hv) cs { index := 0, end_ := d.len } [toString d.len]
    (Nat.zero_le _) (Nat.le_refl _)
  have e : step cfg (.iter v cs) w = (w, .ok o) := by
    simp only [step, WM.bind_apply, getVec_ok w v d hv hl, ho]
  rw [e]; exact ⟨h, trivial⟩

/-- steps that only look -/
theorem step_look_inv (cfg : Cfg) (w : World) (v : Nat) (d : VecSt) (h : w.Inv)
    (hv : w.vecs[v]? = some d) (hl : d.live = true) (op : Op)
    (hop : op = .info v ∨ (∃ ty, op = .dcvec v ty) ∨ op = .probe v ∨ op = .views v) :
    (step cfg op w).1.Inv ∧ (step cfg op w).2.notUb := by
  rcases hop with rfl | ⟨ty, rfl⟩ | rfl | rfl
  all_goals
    simp only [step, WM.bind_apply, getVec_ok w v d hv hl, WM.pure_apply]
    exact ⟨h, trivial⟩


/-- a new, empty vector is appended -/
theorem World.Inv.append_erase {w w' : World} (h : w.Inv) (nv : VecSt)
    (he : w'.erase = { w.erase with vecs := w.vecs ++ [nv] }) (hg : nv.Good) (ha : nv.abs = []) : w'.Inv := by
  have e1 : w'.vecs = w.vecs ++ [nv] := by have := congrArg World.vecs he; exact this
  have e2 : w'.created = w.created := by have := congrArg World.created he; exact this
  have e3 : w'.dropLog = w.dropLog := by have := congrArg World.dropLog he; exact this
  have e4 : w'.held = w.held := by have := congrArg World.held he; exact this
  have e5 : w'.pendingRaw = w.pendingRaw := by have := congrArg World.pendingRaw he; exact this
  apply h.of_step
  · intro u x hx
    rw [e1] at hx
    by_cases hu : u < w.vecs.length
    · rw [List.getElem?_append_left hu] at hx; exact h.good u x hx
    · rw [List.getElem?_append_right (by omega)] at hx
      cases hk : u - w.vecs.length with
      | zero => rw [hk] at hx; simp at hx; subst hx; exact hg
      | succ k => rw [hk] at hx; simp at hx
  · omega
  · have : w'.all = w.all := by
      simp [World.all, World.owned, World.allVis, e1, e3, e4, e5, ha]
    rw [this, e2]
    simp [freshCells]
    exact Leq.refl _

theorem buildCap_notUb (bk : Backend) (size align : Nat) : (VecSt.buildCap bk size align).notUb := by
  unfold VecSt.buildCap
  cases bk <;> simp only <;> (try trivial)
  · split <;> trivial
  · split
    · split <;> trivial
    · trivial

theorem emptyVec_good (ty size align : Nat) (hasDrop cloneable : Bool) (bk : Backend) (cap gen : Nat) (live : Bool) :
    ({ ty, size, align, hasDrop, cloneable, bk, cap, cells := [], len := 0, gen, live } : VecSt).Good :=
  ⟨⟨by simp, by simp⟩, by intro c hc; simp [VecSt.abs] at hc⟩

theorem cloneEmptyIn_inv (w : World) (v : Nat) (bk : Backend) (d : VecSt) (h : w.Inv)
    (hv : w.vecs[v]? = some d) (hl : d.live = true) :
    (cloneEmptyIn v bk w).1.Inv ∧ (cloneEmptyIn v bk w).2.notUb := by
  cases hb : VecSt.buildCap bk d.size d.align with
  | ok cap =>
    have hgood := emptyVec_good d.ty d.size d.align d.hasDrop d.cloneable bk cap 0 true
    by_cases hr : bk = .reloc
    · subst hr
      have e : cloneEmptyIn v .reloc w =
          ({ w with vecs := w.vecs ++ [{ d with bk := .reloc, cap := cap, cells := [], len := 0, gen := 0, live := true }],
                    ev := [Event.memBuild cap].reverse ++ w.ev }, .ok w.vecs.length) := by
        simp only [cloneEmptyIn, WM.bind_apply, getVec_ok w v d hv hl, hb, WM.lift_ok, WM.get_apply,
          WM.modify_apply, if_true, World.emit_apply, WM.pure_apply]
      rw [e]
      exact ⟨h.append_erase _ rfl hgood rfl, trivial⟩
    · have e : cloneEmptyIn v bk w =
          ({ w with vecs := w.vecs ++ [{ d with bk := bk, cap := cap, cells := [], len := 0, gen := 0, live := true }] },
            .ok w.vecs.length) := by
        simp only [cloneEmptyIn, WM.bind_apply, getVec_ok w v d hv hl, hb, WM.lift_ok, WM.get_apply,
          WM.modify_apply, hr, if_false, WM.pure_apply]
      rw [e]
      exact ⟨h.append_erase _ rfl hgood rfl, trivial⟩
  | panic m =>
    have e : cloneEmptyIn v bk w = ({ w with fault := none }, .panic m) := by
      simp only [cloneEmptyIn, WM.bind_apply, getVec_ok w v d hv hl, hb, WM.lift]
    rw [e]; exact ⟨h.of_erase rfl, trivial⟩
  | ub m => have := buildCap_notUb bk d.size d.align; rw [hb] at this; exact this.elim

theorem step_cloneEmpty_inv (cfg : Cfg) (w : World) (v : Nat) (d : VecSt) (h : w.Inv)
    (hv : w.vecs[v]? = some d) (hl : d.live = true) :
    (step cfg (.cloneEmpty v) w).1.Inv ∧ (step cfg (.cloneEmpty v) w).2.notUb := by
  have e : step cfg (.cloneEmpty v) w = (do let _ ← cloneEmptyIn v d.bk; pure [] : WM Out) w := by
    simp only [step, WM.bind_apply, getVec_ok w v d hv hl]
  rw [e]
  exact then_pure_inv _ [] w (cloneEmptyIn_inv w v d.bk d h hv hl)

theorem step_cloneEmptyIn_inv (cfg : Cfg) (w : World) (v : Nat) (bk : Backend) (d : VecSt) (h : w.Inv)
    (hv : w.vecs[v]? = some d) (hl : d.live = true) :
    (step cfg (.cloneEmptyIn v bk) w).1.Inv ∧ (step cfg (.cloneEmptyIn v bk) w).2.notUb :=
  then_pure_inv _ [] w (cloneEmptyIn_inv w v bk d h hv hl)


theorem step_new_inv (cfg : Cfg) (w : World) (ty : Nat) (bk : Backend) (c : Bool) (h : w.Inv) :
    (step cfg (.new ty bk c) w).1.Inv ∧ (step cfg (.new ty bk c) w).2.notUb := by
  cases hb : VecSt.buildCap bk cfg.size cfg.align with
  | ok cap =>
    have hgood := emptyVec_good ty cfg.size cfg.align cfg.hasDrop c bk cap 0 true
    by_cases hr : bk = .reloc
    · subst hr
      have e : step cfg (.new ty .reloc c) w =
          ({ w with vecs := w.vecs ++ [{ ty := ty, size := cfg.size, align := cfg.align, hasDrop := cfg.hasDrop,
                                          cloneable := c, bk := .reloc, cap := cap, cells := [], len := 0, gen := 0,
                                          live := true }],
                    ev := [Event.memBuild cap].reverse ++ w.ev }, .ok []) := by
        simp only [step, newVec, WM.bind_apply, hb, WM.lift_ok, WM.get_apply,
          WM.modify_apply, if_true, World.emit_apply, WM.pure_apply]
      rw [e]
      exact ⟨h.append_erase _ rfl hgood rfl, trivial⟩
    · have e : step cfg (.new ty bk c) w =
          ({ w with vecs := w.vecs ++ [{ ty := ty, size := cfg.size, align := cfg.align, hasDrop := cfg.hasDrop,
                                          cloneable := c, bk := bk, cap := cap, cells := [], len := 0, gen := 0,
                                          live := true }] }, .ok []) := by
        simp only [step, newVec, WM.bind_apply, hb, WM.lift_ok, WM.get_apply,
          WM.modify_apply, hr, if_false, WM.pure_apply]
      rw [e]
      exact ⟨h.append_erase _ rfl hgood rfl, trivial⟩
  | panic m =>
    have e : step cfg (.new ty bk c) w = ({ w with fault := none }, .panic m) := by
      simp only [step, newVec, WM.bind_apply, hb, WM.lift]
    rw [e]; exact ⟨h.of_erase rfl, trivial⟩
  | ub m => have := buildCap_notUb bk cfg.size cfg.align; rw [hb] at this; exact this.elim

/-- `with_capacity_in`: build, then `resize(n)`; when that panics the half-built vector is released -/
theorem withCap_tail_inv (w1 : World) (idx n : Nat) (nv : VecSt) (isReloc : Bool) (h1 : w1.Inv)
    (hv : w1.vecs[idx]? = some nv) (hl : nv.live = true) (h0 : nv.len = 0)
    (hr : VecSt.resizable nv.bk = true) :
    ((do WM.onUnwind (vecOp idx (fun s => s.memResize n))
            (do let s ← getVec idx
                if isReloc then emit [.memDrop]
                setVec idx { s with live := false })
         pure [] : WM Out) w1).1.Inv ∧
    ((do WM.onUnwind (vecOp idx (fun s => s.memResize n))
            (do let s ← getVec idx
                if isReloc then emit [.memDrop]
                setVec idx { s with live := false })
         pure [] : WM Out) w1).2.notUb := by
  apply then_pure_inv
  have hg := h1.good idx nv hv
  have hm := vecOp_inv' w1 idx nv (fun s => s.memResize n) h1 hv hl
    (fun d' es hf => by
      obtain ⟨_, _, ha, hw, _⟩ := memResize_spec nv d' n es hg.wf (by omega) hf
      exact ⟨ha, hw⟩)
    (memResize_notUb nv n hr)
  cases hf : nv.memResize n with
  | ok p =>
    have e : WM.onUnwind (vecOp idx (fun s => s.memResize n))
        (do let s ← getVec idx
            if isReloc then emit [.memDrop]
            setVec idx { s with live := false }) w1 = vecOp idx (fun s => s.memResize n) w1 := by
      simp only [WM.onUnwind]
      have : (vecOp idx (fun s => s.memResize n) w1).2 = .ok () := by
        obtain ⟨d', es⟩ := p
        simp only [vecOp, WM.bind_apply, getVec_ok w1 idx nv hv hl, hf, WM.lift_ok, setVec_apply, World.emit_apply]
      cases hvo : vecOp idx (fun s => s.memResize n) w1 with
      | mk w2 res => rw [hvo] at this; simp only at this; subst this; rfl
    rw [e]; exact hm
  | panic m =>
    have hp := vecOp_panic w1 idx nv (fun s => s.memResize n) m hv hl hf
    have hv2 : ({ w1 with fault := none } : World).vecs[idx]? = some nv := hv
    have h2 : ({ w1 with fault := none } : World).Inv := h1.of_erase rfl
    have hgood : ({ nv with live := false } : VecSt).Good :=
      VecSt.good_of_abs_eq hg ⟨hg.wf.len_le, hg.wf.cells_le⟩ rfl
    cases isReloc with
    | true =>
      have e : WM.onUnwind (vecOp idx (fun s => s.memResize n))
          (do let s ← getVec idx
              if true = true then emit [.memDrop]
              setVec idx { s with live := false }) w1 =
          ({ ({ w1 with fault := none } : World).upd idx { nv with live := false } with
              ev := [Event.memDrop].reverse ++ w1.ev }, .panic m) := by
        simp only [WM.onUnwind, hp, WM.bind_apply, getVec_ok _ idx nv hv2 hl, if_true, World.emit_apply,
          setVec_apply]
        rfl
      rw [e]
      exact ⟨h2.local_erase idx nv _ [] [] hv2 rfl hgood (by simp only [List.map_nil, List.append_nil]; exact Leq.refl nv.abs), trivial⟩
    | false =>
      have e : WM.onUnwind (vecOp idx (fun s => s.memResize n))
          (do let s ← getVec idx
              if false = true then emit [.memDrop]
              setVec idx { s with live := false }) w1 =
          (({ w1 with fault := none } : World).upd idx { nv with live := false }, .panic m) := by
        simp only [WM.onUnwind, hp, WM.bind_apply, getVec_ok _ idx nv hv2 hl, setVec_apply]
        rfl
      rw [e]
      exact ⟨h2.local_erase idx nv _ [] [] hv2 rfl hgood (by simp only [List.map_nil, List.append_nil]; exact Leq.refl nv.abs), trivial⟩
  | ub m => have := memResize_notUb nv n hr; rw [hf] at this; exact this.elim


theorem step_withCap_inv (cfg : Cfg) (w : World) (ty : Nat) (bk : Backend) (c : Bool) (n : Nat) (h : w.Inv)
    (hr : VecSt.resizable bk = true) :
    (step cfg (.withCap ty bk c n) w).1.Inv ∧ (step cfg (.withCap ty bk c n) w).2.notUb := by
  have hlen : ∀ (nv : VecSt) (ev : List Event),
      ({ w with vecs := w.vecs ++ [nv], ev := ev } : World).vecs[w.vecs.length]? = some nv := by
    intro nv ev; simp
  cases bk with
  | heap =>
    let nv : VecSt := { ty := ty, size := cfg.size, align := cfg.align, hasDrop := cfg.hasDrop, cloneable := c,
                        bk := .heap, cap := 0, cells := [], len := 0, gen := 0, live := true }
    have h1 : ({ w with vecs := w.vecs ++ [nv], ev := w.ev } : World).Inv :=
      h.append_erase nv rfl (emptyVec_good _ _ _ _ _ _ _ _ _) rfl
    have := withCap_tail_inv _ w.vecs.length n nv false h1 (hlen nv w.ev) rfl rfl rfl
    exact this
  | reloc =>
    let nv : VecSt := { ty := ty, size := cfg.size, align := cfg.align, hasDrop := cfg.hasDrop, cloneable := c,
                        bk := .reloc, cap := 0, cells := [], len := 0, gen := 0, live := true }
    have h1 : ({ w with vecs := w.vecs ++ [nv], ev := [Event.memBuild 0].reverse ++ w.ev } : World).Inv :=
      h.append_erase nv rfl (emptyVec_good _ _ _ _ _ _ _ _ _) rfl
    have := withCap_tail_inv _ w.vecs.length n nv true h1 (hlen nv _) rfl rfl rfl
    exact this
  | empty => cases hr
  | stack b => cases hr
  | stackN a b => cases hr


/-- the caller drops a collection of held values: every one of them is destroyed exactly once, even
when some destructors panic -/
theorem releaseGo_erase (b : Bool) (ids : List Nat) (w : World) :
    (releaseGo b ids w).1.erase = { w.erase with dropLog := ids.reverse ++ w.dropLog } ∧
      ((releaseGo b ids w).2 = .ok () ∨ ∃ m, (releaseGo b ids w).2 = .panic m) := by
  induction ids generalizing w with
  | nil => exact ⟨rfl, Or.inl rfl⟩
  | cons id ids ih =>
    obtain ⟨e1, e5⟩ := dropElem_erase b id w
    simp only [releaseGo, WM.bind_apply, WM.onUnwind]
    cases hde : dropElem b id w with
    | mk w1 res =>
      rw [hde] at e1 e5
      simp only at e1 e5
      have e3 : w1.dropLog = id :: w.dropLog := by have := congrArg World.dropLog e1; exact this
      obtain ⟨i1, i5⟩ := ih w1
      rcases e5 with hok | ⟨m, hp⟩
      · subst hok
        simp only
        refine ⟨?_, i5⟩
        rw [i1, e1]; simp [e3]
      · subst hp
        simp only
        cases hrg : releaseGo b ids w1 with
        | mk w2 res2 =>
          rw [hrg] at i1 i5
          simp only at i1 i5
          have key : w2.erase = { w.erase with dropLog := (id :: ids).reverse ++ w.dropLog } := by
            rw [i1, e1]; simp [e3]
          rcases i5 with hok2 | ⟨m2, hp2⟩
          · subst hok2; exact ⟨key, Or.inr ⟨m, rfl⟩⟩
          · subst hp2; exact ⟨key, Or.inr ⟨m, rfl⟩⟩

theorem step_release_inv (cfg : Cfg) (w : World) (h : w.Inv) :
    (step cfg .release w).1.Inv ∧ (step cfg .release w).2.notUb := by
  obtain ⟨e1, e5⟩ := releaseGo_erase cfg.hasDrop w.held.reverse { w with held := [] }
  have hstep : step cfg .release w =
      match releaseGo cfg.hasDrop w.held.reverse { w with held := [] } with
      | (w', .ok _) => (w', .ok [])
      | (w', .panic s) => (w', .panic s)
      | (w', .ub s) => (w', .ub s) := by
    simp only [step, WM.bind_apply, WM.get_apply, WM.modify_apply, WM.pure_apply]
    cases hr : releaseGo cfg.hasDrop w.held.reverse { w with held := [] } with
    | mk w1 res => cases res <;> rfl
  rw [hstep]
  cases hr : releaseGo cfg.hasDrop w.held.reverse { w with held := [] } with
  | mk w1 res =>
    rw [hr] at e1 e5
    simp only at e1 e5
    have hinv : w1.Inv := by
      have v1 : w1.vecs = w.vecs := by have := congrArg World.vecs e1; exact this
      have v2 : w1.created = w.created := by have := congrArg World.created e1; exact this
      have v3 : w1.dropLog = w.held.reverse.reverse ++ w.dropLog := by have := congrArg World.dropLog e1; exact this
      have v4 : w1.held = [] := by have := congrArg World.held e1; exact this
      have v5 : w1.pendingRaw = w.pendingRaw := by have := congrArg World.pendingRaw e1; exact this
      apply h.of_step
      · rw [v1]; exact h.good
      · omega
      · rw [v2]
        simp only [Nat.sub_self, freshCells, List.range'_zero, List.map_nil, List.nil_append]
        apply Leq.of_perm
        simp only [World.all, World.owned, World.allVis, v1, v3, v4, v5, List.reverse_reverse, List.map_nil,
          List.nil_append, List.map_append]
        exact List.Perm.refl _
    rcases e5 with hok | ⟨m, hp⟩
    · subst hok; exact ⟨hinv, trivial⟩
    · subst hp; exact ⟨hinv, trivial⟩


/-- the storage is handed back and the vector is gone -/
def releaseVec (v : Nat) : WM Unit := do
  let x ← getVec v
  match x.bk with
  | .heap =>
    if x.size * x.cap ≠ 0 then emit [.dealloc (x.size * x.cap) x.align]
  | .reloc => emit [.memDrop]
  | _ => pure ()
  setVec v { x with live := false, cells := [], cap := 0 }

theorem dropVec_eq (v : Nat) : dropVec v = (do
    let x ← getVec v
    setLen v 0
    WM.onUnwind (dropRange v false 0 x.len) (releaseVec v)
    releaseVec v) := rfl

theorem releaseVec_erase (w : World) (v : Nat) (d : VecSt) (hv : w.vecs[v]? = some d) (hl : d.live = true) :
    (releaseVec v w).1.erase = (w.upd v { d with live := false, cells := [], cap := 0 }).erase ∧
      (releaseVec v w).2 = .ok () := by
  simp only [releaseVec, WM.bind_apply, getVec_ok w v d hv hl]
  cases hb : d.bk with
  | heap =>
    by_cases hz : d.size * d.cap = 0
    · simp [hz, World.erase, World.upd]
    · simp [hz, World.erase, World.upd]
  | reloc => simp [World.erase, World.upd]
  | empty => simp [World.erase, World.upd]
  | stack b => simp [World.erase, World.upd]
  | stackN a b => simp [World.erase, World.upd]

theorem dropVec_inv (w : World) (v : Nat) (d : VecSt) (h : w.Inv) (hv : w.vecs[v]? = some d) (hl : d.live = true) :
    (dropVec v w).1.Inv ∧ (dropVec v w).2.notUb := by
  have hlt : v < w.vecs.length := (List.getElem?_eq_some_iff.mp hv).1
  have hg := h.good v d hv
  let d0 : VecSt := { d with len := 0 }
  let dd : VecSt := { d0 with live := false, cells := [], cap := 0 }
  have hv0 : (w.upd v d0).vecs[v]? = some d0 := by simp [hlt]
  obtain ⟨⟨dl, hleq, he⟩, h5⟩ := dropAll_erase (w.upd v d0) v d hg hl hv0
  have hgoodd : dd.Good := ⟨⟨by simp [dd, d0], by simp [dd]⟩, by intro c hc; simp [VecSt.abs, dd] at hc⟩
  rw [dropVec_eq]
  simp only [WM.bind_apply, getVec_ok w v d hv hl, setLen, setVec_apply, WM.onUnwind]
  cases hdr : dropRange v false 0 d.len (w.upd v d0) with
  | mk w1 res =>
    have hdr' : dropRange v false 0 d.len (w.upd v { d with len := 0 }) = (w1, res) := hdr
    rw [hdr] at he h5
    simp only at he h5
    have hv1 : w1.vecs[v]? = some d0 := by
      have : w1.vecs = (w.upd v d0).vecs := by have := congrArg World.vecs he; exact this
      rw [this]; exact hv0
    obtain ⟨r1, r2⟩ := releaseVec_erase w1 v d0 hv1 hl
    have hfinal : (releaseVec v w1).1.Inv := by
      refine h.local_erase v d dd [] dl hv ?_ hgoodd (by simpa [VecSt.abs, dd] using hleq)
      rw [r1]
      simp only [World.erase_upd, he]
      simp [World.upd, d0, dd]
    rcases h5 with hok | ⟨m, hp⟩
    · subst hok
      simp only
      refine ⟨hfinal, ?_⟩
      rw [r2]; trivial
    · subst hp
      simp only
      cases hrv : releaseVec v w1 with
      | mk w2 res2 =>
        rw [hrv] at hfinal r2
        simp only at hfinal r2
        subst r2
        exact ⟨hfinal, trivial⟩

theorem step_dropVec_inv (cfg : Cfg) (w : World) (v : Nat) (h : w.Inv) :
    (step cfg (.dropVec v) w).1.Inv ∧ (step cfg (.dropVec v) w).2.notUb := by
  simp only [step, WM.bind_apply, WM.get_apply]
  cases hv : w.vecs[v]? with
  | none => exact ⟨h, trivial⟩
  | some d =>
    simp only
    by_cases hl : d.live = true
    · simp only [hl, if_true]
      exact then_pure_inv _ [] w (dropVec_inv w v d h hv hl)
    · simp only [hl]
      exact ⟨h, trivial⟩


end AnyVec
