/- Kernel tie: the remaining thin functions (delegations, unchecked accessors, constructors, self-reports of handles) as call
traces re-translated from /repo/src on every run; pinned here. See KernelApiOps for the representation. -/
import AnyVecModel.Proofs.KernelBase
namespace AnyVec
namespace KernelTie
open Gen.Kernel

/-- construction: `new` / `with_capacity` use the default builder; `new_in` builds the storage for `Layout::new::<T>()`, then the raw vector for `T`, then records the clone function of `T` under the requested traits; `with_capacity_in` differs only in `build_with_size(layout, capacity)`; the per-type reports read the raw vector's fields -/
theorem deleg_construct_tie (len : Nat) (index : Nat) :
    anyvec_new_trace len index = [.call "Default::default" [], .call "Self::new_in" []] ∧
    anyvec_new_in_trace len index = [.call "Layout::new" [], .call "build" [], .call "AnyVecRaw::new" [], .call "Self::build" []] ∧
    anyvec_with_capacity_trace len index = [.call "Default::default" [], .call "Self::with_capacity_in" [index]] ∧
    anyvec_with_capacity_in_trace len index = [.call "Layout::new" [], .call "build_with_size" [index], .call "AnyVecRaw::new" [], .call "Self::build" []] ∧
    anyvec_build_trace len index = [.call "<Traits as CloneType>::new" []] ∧
    anyvec_element_typeid_trace len index = [.call "= self.raw.type_id" []] ∧
    anyvec_element_layout_trace len index = [.call "element_layout" []] ∧
    anyvec_element_drop_trace len index = [.call "= self.raw.drop_fn" []] ∧
    anyvec_element_clone_trace len index = [.call "clone_fn" []] ∧
    raw_element_layout_trace len index = [.call "element_layout" []] :=
  ⟨rfl, rfl, rfl, rfl, rfl, rfl, rfl, rfl, rfl, rfl⟩

end KernelTie
end AnyVec
