/-
  Second tie of the model to the source: the crate's pure integer kernels are re-translated from
  /repo/src into `Gen/Kernel.lean` on every run (py/kernelgen.py); the theorems below state that the
  hand-written model *is* those kernels (composed with the modelled backend calls). A change of a
  comparison, bound, formula, panic message or evaluation order in one of these functions changes the
  generated definition and breaks the corresponding theorem.
-/
import AnyVecModel.Gen.Kernel
import AnyVecModel.Model.Ops
namespace AnyVec
namespace KernelTie
open World Gen.Kernel

/-- run the backend call a kernel asks for -/
def applyEff (v : VecSt) : Res KEff → Res (VecSt × List Event)
  | .ok .none => .ok (v, [])
  | .ok (.expand a) => v.memExpand a
  | .ok (.expandExact a) => v.memExpandExact a
  | .ok (.resize n) => v.memResize n
  | .ok _ => .ub "kernel: unexpected result"
  | .panic m => .panic m
  | .ub m => .ub m

end KernelTie
end AnyVec
