/- Kernel tie: `AnyVecRaw::push_unchecked` (src/any_vec_raw.rs), see KernelMoveBase -/
import AnyVecModel.Proofs.KernelKeepsLen
namespace AnyVec
namespace KernelTie
open World Gen.Kernel

theorem push_unchecked_tie (w : World) (dst : Nat) (x : Val) (d : VecSt)
    (hv : w.vecs[dst]? = some d) (hl : d.live = true) (hne : Val.borrows x ≠ some dst) :
    pushUnchecked dst x w =
      runCmds (valCtx dst x d.hasDrop) (push_unchecked_cmds d.len (valKnownType x)) w := by
  unfold pushUnchecked push_unchecked_cmds
  simp only [WM.bind_apply]
  rw [show getVec dst w = (w, .ok d) from getVec_ok w dst d hv hl]
  simp only
  cases hk : valKnownType x
  all_goals
    simp only [Bool.not_false, Bool.not_true, if_true, if_false, Bool.false_eq_true, Nat.zero_add]
    show ((WM.onUnwind (vecOp dst VecSt.reserveOne) (valDrop d.hasDrop x)) >>= _) w = _
    unfold runCmds
    show _ = ((WM.onUnwind (vecOp dst VecSt.reserveOne) (valDrop d.hasDrop x)) >>= _) w
    apply bind_congr_ok
    intro w' a hok
    have hok' := onUnwind_ok _ _ _ _ _ hok
    obtain ⟨d', es, hf, hv'⟩ := vecOp_ok w w' dst d _ hv hl hok'
    obtain ⟨hlen, hlive⟩ := reserveOne_len d d' es hf
    have hl' : d'.live = true := by rw [hlive]; exact hl
    simp only [WM.bind_apply, getVec_ok w' dst d' hv' hl', hlen]
    show ((valMoveInto x dst d.len) >>= _) w' = ((valMoveInto x dst d.len) >>= _) w'
    apply bind_congr_ok
    intro w'' a' hok2
    obtain ⟨d'', hv'', hlen'', hlive''⟩ := KeepsLen.valMoveInto dst x d.len hne w' w'' a' d' hok2 hv'
    have hl'' : d''.live = true := by rw [hlive'']; exact hl'
    simp only [WM.bind_apply, getVec_ok w'' dst d'' hv'' hl'', hlen'', hlen]
    show _ = setLen dst (d.len + 1) w''
    simp only [WM.bind_apply, setLen, getVec_ok w'' dst d'' hv'' hl'']


end KernelTie
end AnyVec
