/- Kernel tie: `impl Drop for Splice` (src/ops/splice.rs), see KernelMoveBase. The function is re-translated in two
parts, before and after its write loop; the loop itself is recognised structurally by the translator (take the
next replacement value or stop, check its type, move it to `*ptr`, advance `ptr` by one element, count) and
stands in the command list as `writeLoop first_slot limit`. -/
import AnyVecModel.Proofs.KernelMoveBase
namespace AnyVec
namespace KernelTie
open World Gen.Kernel

/-- `Splice::drop` as the source has it on this run: the commands before the loop (overflow checks, `reserve`,
drop of the unyielded items, move of the tail to its final place), the loop starting at the slot the source names
with the limit the source names, the commands after it (close the gap if the iterator ran short, `len`), then the
replacement iterator is dropped. `cleanup` = the replacement iterator going out of scope on unwind. -/
def spliceDropBySource (cfg : Cfg) (it : RangeIt) (repl : List Val) (claimed : Nat) (d : VecSt) : WM Unit :=
  let cmds := splice_drop_pre_cmds it.index it.end_ it.start it.end0 it.origLen claimed
  runCmdsK { v := it.v, typed := it.typed, cleanup := dropRepl cfg repl } (splitLoop cmds).1
    (match (splitLoop cmds).2 with
     | none => pure ()
     | some (slot, limit) =>
       if slot = d.len then do
         let (written, rest) ← spliceWrite cfg it.v d.ty limit repl 0
         runCmdsK { v := it.v, typed := it.typed }
           (splice_drop_post_cmds it.index it.end_ it.start it.end0 it.origLen claimed written)
           (dropRepl cfg rest)
       else WM.ub "kernel: the write loop does not start at the vector's length")

theorem checkedAdd_cases (a b : Nat) (msg : String) :
    (checkedAdd a b msg = .ok (a + b)) ∨ (checkedAdd a b msg = .panic msg) := by
  unfold checkedAdd
  split
  · exact Or.inl rfl
  · exact Or.inr rfl

theorem onUnwind_panic_not_ok {α} (m : String) (c : WM Unit) (w w' : World) (a : α)
    (h : WM.onUnwind (WM.panic m : WM α) c w = (w', .ok a)) : False := by
  unfold WM.onUnwind at h
  simp only [WM.panic_apply] at h
  cases hc : c { w with fault := none } with
  | mk w2 r => rw [hc] at h; cases r <;> cases h

theorem onUnwind_lift_ok {α} (a : α) (c : WM Unit) (w : World) :
    WM.onUnwind (WM.lift (.ok a)) c w = (w, .ok a) := rfl

/-- the part after the loop: close the gap if fewer values came than announced, restore `len` -/
theorem post_eq (it : RangeIt) (claimed written : Nat) (k : WM Unit) :
    (if written < claimed then
        (moveElems it.v false (it.start + claimed) (it.start + written) (it.origLen - it.end0)).bind fun _ =>
          (setLen it.v (it.start + written + (it.origLen - it.end0))).bind fun _ => k
      else (setLen it.v (it.start + written + (it.origLen - it.end0))).bind fun _ => k) =
    runCmdsK { v := it.v, typed := it.typed }
      (if decide (written < claimed) = true then
        [MCmd.moveElems (it.start + claimed) (it.start + written) (it.origLen - it.end0),
          MCmd.setLen (it.start + written + (it.origLen - it.end0))]
      else [MCmd.setLen (it.start + written + (it.origLen - it.end0))]) k := by
  by_cases h : written < claimed
  · simp only [h, if_true, decide_true, runCmdsK, runCmd]; rfl
  · simp only [h, if_false, decide_false, Bool.false_eq_true, runCmdsK, runCmd]; rfl

theorem lift_panic_eq {α} (m : String) : (WM.lift (Res.panic m) : WM α) = WM.panic m := rfl

/-- a first step that panics: the rest never runs, whatever its type -/
theorem panic_bind {α β} (m : String) (c : WM Unit) (f : α → WM β) (w : World) :
    WM.bind ((WM.panic m : WM α).onUnwind c) f w = (WM.panic m : WM β).onUnwind c w := by
  unfold WM.bind WM.onUnwind
  simp only [WM.panic_apply]
  cases c { w with fault := none } with
  | mk w2 r => cases r <;> rfl

theorem splice_drop_tie (cfg : Cfg) (w : World) (it : RangeIt) (repl : List Val) (claimed : Nat) (d : VecSt)
    (hv : w.vecs[it.v]? = some d) (hl : d.live = true) (hlen : d.len = it.start) :
    spliceDrop cfg it repl claimed w = spliceDropBySource cfg it repl claimed d w := by
  have hg : getVec it.v w = (w, .ok d) := getVec_ok w it.v d hv hl
  unfold spliceDrop spliceDropBySource splice_drop_pre_cmds
  rw [WM.bind_apply, hg]
  rcases checkedAdd_cases it.start claimed "capacity overflow" with h1 | h1
  · rcases checkedAdd_cases (it.start + claimed) (it.origLen - it.end0) "capacity overflow" with h2 | h2
    · simp only [WM.bind_apply, h1, h2, bind, Res.bind, splitLoop, runCmdsK, runCmd, hlen, if_true, splice_drop_post_cmds,
        onUnwind_lift_ok, post_eq]
      rfl
    · simp only [h1, h2, bind, Res.bind, splitLoop, runCmdsK, runCmd, lift_panic_eq, panic_bind]
  · simp only [h1, bind, Res.bind, splitLoop, runCmdsK, runCmd, lift_panic_eq, panic_bind]

/-- a replacement iterator that yields fewer values than it announced: the source closes the gap (the tail moves from
where it was parked, `start + claimed`, down to `start + written`) and restores `len` to what is really there; one
that yields at least as many is cut off at `claimed` by the loop limit and only `len` is restored -/
theorem splice_post_cases (idx e start end0 orig claimed written : Nat)
    (h1 : start + claimed ≤ USIZE_MAX) (h2 : start + claimed + (orig - end0) ≤ USIZE_MAX) :
    splice_drop_post_cmds idx e start end0 orig claimed written =
      if written < claimed then
        [.moveElems (start + claimed) (start + written) (orig - end0), .setLen (start + written + (orig - end0))]
      else [.setLen (start + written + (orig - end0))] := by
  unfold splice_drop_post_cmds
  simp only [checkedAdd, h1, h2, if_true]
  by_cases hw : written < claimed
  · simp only [hw, decide_true, if_true]
  · simp only [hw, decide_false, if_false, Bool.false_eq_true]

end KernelTie
end AnyVec
