/- Kernel tie: `AnyVecRaw::clear` (src/any_vec_raw.rs), see KernelMoveBase -/
import AnyVecModel.Proofs.KernelMoveBase
namespace AnyVec
namespace KernelTie
open World Gen.Kernel

/-- `clear()`: `len := 0` first, then the erased destructor over the old length (for a type without destructor
the model only keeps its ghost record) -/
theorem clear_tie (cfg : Cfg) (w : World) (v : Nat) (d : VecSt) (hv : w.vecs[v]? = some d) (hl : d.live = true) :
    step cfg (.clear v) w =
      (do runCmds { v := v } (clear_cmds d.len d.hasDrop)
          if d.hasDrop then pure () else dropLoop v false 0 d.len
          pure [] : WM Out) w := by
  have hlt : v < w.vecs.length := by
    rcases Nat.lt_or_ge v w.vecs.length with h1 | h1
    · exact h1
    · rw [List.getElem?_eq_none h1] at hv; cases hv
  have hv0 : (w.upd v { d with len := 0 }).vecs[v]? = some { d with len := 0 } := World.upd_get w v _ hlt
  unfold clear_cmds
  cases hd : d.hasDrop
  · simp only [hd] at hv0
    simp only [step, runCmds, runCmd, WM.bind_apply, getVec_ok w v d hv hl, setLen, setVec_apply, dropRange, hd,
      getVec_ok _ v _ hv0 hl, Bool.false_eq_true, if_false, Nat.sub_zero]
  · simp only [hd] at hv0
    simp only [step, runCmds, runCmd, WM.bind_apply, getVec_ok w v d hv hl, setLen, setVec_apply, dropRange, hd,
      getVec_ok _ v _ hv0 hl, Bool.false_eq_true, if_false, if_true, Nat.sub_zero, WM.pure_apply]


end KernelTie
end AnyVec
