/-
  `lazy_clone()` of a removal handle pushed `n` times into another vector, then the handle is dropped
  (`Sink.lazyTo`), under any fault state.
-/
import AnyVecModel.Proofs.HistLazy
namespace AnyVec
open World

/-- one `dst.push(handle.lazy_clone())` while the handle of `src` is alive. `W` is the world as it
would be with `src` still whole: the push only reads the handle's slot, so it acts on `W` at `dst`. -/
theorem push_lazyHandle_ghost (W : World) (h : W.Inv) (v u : Nat) (k : HKind) (t : Bool) (d du : VecSt) (id : Nat)
    (hne : v ≠ u) (hv : W.vecs[v]? = some d) (hl : d.live = true) (hk : k.okFor d)
    (hc : d.cells.get (k.slot d) = .val id) (hu : W.vecs[u]? = some du) (hlu : du.live = true) :
    ∃ (W' : World) (du' : VecSt),
      (push u (.lazyHandle { v := v, kind := k, typed := t }) (W.upd v (d.taken k))).1 = W'.upd v (d.taken k) ∧
      W'.Inv ∧ W'.vecs[v]? = some d ∧ W'.vecs[u]? = some du' ∧ du'.live = true ∧
      ((push u (.lazyHandle { v := v, kind := k, typed := t }) (W.upd v (d.taken k))).2 = .ok () ∨
        ∃ m, (push u (.lazyHandle { v := v, kind := k, typed := t }) (W.upd v (d.taken k))).2 = .panic m) := by
  have hg := h.good v d hv
  have hgu := h.good u du hu
  have hvlt : v < W.vecs.length := (List.getElem?_eq_some_iff.mp hv).1
  have hult : u < W.vecs.length := (List.getElem?_eq_some_iff.mp hu).1
  have hsl := HKind.slot_lt hk
  have hb : k.slot d < d.cap := by have := hg.wf.len_le; have := hg.wf.cells_le; omega
  have hlive : (d.taken k).live = true := by cases k <;> simpa [VecSt.taken] using hl
  have hcells : (d.taken k).cells = d.cells := by cases k <;> rfl
  have hcap : (d.taken k).cap = d.cap := by cases k <;> rfl
  have hty : (d.taken k).ty = d.ty := by cases k <;> rfl
  let wt := W.upd v (d.taken k)
  have hvt : wt.vecs[v]? = some (d.taken k) := by simp [wt, hvlt]
  have hut : wt.vecs[u]? = some du := by
    show (W.vecs.set v _)[u]? = _; rw [List.getElem?_set_ne hne]; exact hu
  -- a world that differs from `W` only in events / fault
  have hsame : ∀ (W2 : World), W2.erase = W.erase → ∃ du', W2.Inv ∧ W2.vecs[v]? = some d ∧ W2.vecs[u]? = some du' ∧ du'.live = true := by
    intro W2 he
    have e1 : W2.vecs = W.vecs := by have := congrArg World.vecs he; exact this
    exact ⟨du, h.of_erase he, by rw [e1]; exact hv, by rw [e1]; exact hu, hlu⟩
  by_cases hte : d.ty = du.ty
  · cases hr : du.reserveOne with
    | ok p =>
      obtain ⟨du1, es⟩ := p
      obtain ⟨hroom, hlen1, ha, hw1, _, _, _, _, _, _, hlive1⟩ := reserveOne_spec du du1 es hgu.wf hr
      have hl1 : du1.live = true := by rw [hlive1]; exact hlu
      have hg1 : du1.Good := VecSt.good_of_abs_eq hgu hw1 ha
      let wa : World := { wt.upd u du1 with ev := es.reverse ++ wt.ev }
      have evo : vecOp u VecSt.reserveOne wt = (wa, .ok ()) := by
        simp only [vecOp, WM.bind_apply, getVec_ok wt u du hut hlu, hr, WM.lift_ok, setVec_apply, World.emit_apply]
        rfl
      have hua : wa.vecs[u]? = some du1 := by
        show ((W.vecs.set v _).set u du1)[u]? = _; simp [hult]
      have hva : wa.vecs[v]? = some (d.taken k) := by
        show ((W.vecs.set v _).set u du1)[v]? = _
        rw [List.getElem?_set_ne (Ne.symm hne)]; simp [hvlt]
      have hread : readElem v (k.slot d) wa = (wa, .ok id) := by
        simp only [readElem, WM.bind_apply, getVec_ok wa v _ hva hlive, WM.lift,
          VecSt.readElem_ok (d.taken k) (k.slot d) id (by rw [hcap]; exact hb) (by rw [hcells]; exact hc)]
      -- `W` after the reservation
      let Wa : World := { W.upd u du1 with ev := es.reverse ++ W.ev }
      have hWa : Wa.Inv := h.local_erase u du du1 [] [] hu rfl hg1 (by simpa [ha] using Leq.refl du.abs)
      have hWau : Wa.vecs[u]? = some du1 := by simp [Wa, hult]
      have hWav : Wa.vecs[v]? = some d := by
        show (W.vecs.set u du1)[v]? = _; rw [List.getElem?_set_ne (Ne.symm hne)]; exact hv
      have hwaeq : wa = Wa.upd v (d.taken k) := by
        simp only [wa, Wa, wt, World.upd]
        congr 1
        exact set_set_comm _ v u _ _ hne
      obtain ⟨f', htk | ⟨m, htk⟩⟩ := tick_shape wa
      · let du2 : VecSt := du1.pushCell (.val wa.created)
        have e : push u (.lazyHandle { v := v, kind := k, typed := t }) wt =
            ({ wa with vecs := wa.vecs.set u du2, created := wa.created + 1, ev := Event.clone id wa.created :: wa.ev,
                       fault := f' }, .ok ()) := by
          have hvf : ∀ (ev : List Event), ({ wa with created := wa.created + 1, ev := ev, fault := f' } : World).vecs[u]? = some du1 :=
            fun _ => hua
          simp only [push, WM.bind_apply, getVec_ok wt u du hut hlu, valTy, getVec_ok wt v _ hvt hlive, WM.pure_apply, hty,
            hte, ne_eq, not_true_eq_false, if_false, pushUnchecked, WM.onUnwind, evo, getVec_ok wa u du1 hua hl1,
            valMoveInto, hSlot_taken wa v k t d hk hva hl, hread, cloneElem, htk, fresh, WM.modify_apply,
            World.writeCell, getVec_ok _ u du1 (hvf _) hl1, WM.lift, VecSt.writeCell_ok du1 du1.len _ hroom, setVec_apply]
          have hult' : u < (W.vecs.set v (d.taken k)).length := by simpa using hult
          simp [World.upd, du2, VecSt.pushCell, hult', hult, wa, wt, getVec, hl1]
        let W' : World := { Wa with vecs := Wa.vecs.set u du2, created := Wa.created + 1, ev := Event.clone id Wa.created :: Wa.ev,
                                    fault := f' }
        refine ⟨W', du2, ?_, ?_, ?_, ?_, hl1, Or.inl (by rw [e])⟩
        · rw [e]
          simp only [W', World.upd, hwaeq]
          congr 1
          exact set_set_comm _ v u _ _ hne
        · refine hWa.local_erase' u du1 du2 1 [] [] [] hWau rfl (du1.pushCell_good _ hg1 hroom) ?_
          rw [VecSt.pushCell_abs du1 _ hw1]
          simp only [List.map_nil, List.append_nil, freshCells, List.range'_one, List.map_cons]
          have : wa.created = Wa.created := by rw [hwaeq]; rfl
          rw [this]
          exact Leq.of_perm List.perm_append_comm
        · show (Wa.vecs.set u du2)[v]? = _
          rw [List.getElem?_set_ne (Ne.symm hne)]; exact hWav
        · show (Wa.vecs.set u du2)[u]? = _
          have : u < Wa.vecs.length := by show u < (W.vecs.set u du1).length; simpa using hult
          simp [this]
      · have e : push u (.lazyHandle { v := v, kind := k, typed := t }) wt = ({ wa with fault := f' }, .panic m) := by
          simp only [push, WM.bind_apply, getVec_ok wt u du hut hlu, valTy, getVec_ok wt v _ hvt hlive, WM.pure_apply, hty,
            hte, ne_eq, not_true_eq_false, if_false, pushUnchecked, WM.onUnwind, evo, getVec_ok wa u du1 hua hl1,
            valMoveInto, hSlot_taken wa v k t d hk hva hl, hread, cloneElem, htk]
        refine ⟨{ Wa with fault := f' }, du1, ?_, hWa.of_erase rfl, hWav, hWau, hl1, Or.inr ⟨m, by rw [e]⟩⟩
        rw [e, hwaeq]; rfl
    | panic m =>
      have hm := vecOp_panic wt u du VecSt.reserveOne m hut hlu hr
      have e : push u (.lazyHandle { v := v, kind := k, typed := t }) wt = ({ wt with fault := none }, .panic m) := by
        simp only [push, WM.bind_apply, getVec_ok wt u du hut hlu, valTy, getVec_ok wt v _ hvt hlive, WM.pure_apply, hty,
          hte, ne_eq, not_true_eq_false, if_false, pushUnchecked, WM.onUnwind, hm, valDrop]
      obtain ⟨du', q1, q2, q3, q4⟩ := hsame { W with fault := none } rfl
      exact ⟨{ W with fault := none }, du', by rw [e]; rfl, q1, q2, q3, q4, Or.inr ⟨m, by rw [e]⟩⟩
    | ub m => have := reserveOne_notUb du; rw [hr] at this; exact this.elim
  · have e : push u (.lazyHandle { v := v, kind := k, typed := t }) wt = ({ wt with fault := none }, .panic "Type mismatch!") := by
      simp only [push, WM.bind_apply, getVec_ok wt u du hut hlu, valTy, getVec_ok wt v _ hvt hlive, WM.pure_apply, hty,
        hte, ne_eq, not_false_eq_true, if_true, WM.onUnwind, WM.panic_apply, valDrop]
    obtain ⟨du', q1, q2, q3, q4⟩ := hsame { W with fault := none } rfl
    exact ⟨{ W with fault := none }, du', by rw [e]; rfl, q1, q2, q3, q4, Or.inr ⟨_, by rw [e]⟩⟩


theorem pushTimes_ghost (v u : Nat) (k : HKind) (t : Bool) (d : VecSt) (id : Nat) (hne : v ≠ u) (hl : d.live = true)
    (hk : k.okFor d) (hc : d.cells.get (k.slot d) = .val id) (n : Nat) :
    ∀ (W : World) (du : VecSt), W.Inv → W.vecs[v]? = some d → W.vecs[u]? = some du → du.live = true →
    ∃ (W' : World) (du' : VecSt),
      (pushTimes u (.lazyHandle { v := v, kind := k, typed := t }) n (W.upd v (d.taken k))).1 = W'.upd v (d.taken k) ∧
      W'.Inv ∧ W'.vecs[v]? = some d ∧ W'.vecs[u]? = some du' ∧ du'.live = true ∧
      ((pushTimes u (.lazyHandle { v := v, kind := k, typed := t }) n (W.upd v (d.taken k))).2 = .ok () ∨
        ∃ m, (pushTimes u (.lazyHandle { v := v, kind := k, typed := t }) n (W.upd v (d.taken k))).2 = .panic m) := by
  induction n with
  | zero =>
    intro W du h hv hu hlu
    exact ⟨W, du, rfl, h, hv, hu, hlu, Or.inl rfl⟩
  | succ n ih =>
    intro W du h hv hu hlu
    obtain ⟨W1, du1, e1, h1, hv1, hu1, hl1, hres⟩ := push_lazyHandle_ghost W h v u k t d du id hne hv hl hk hc hu hlu
    simp only [pushTimes, WM.bind_apply]
    cases hp : push u (.lazyHandle { v := v, kind := k, typed := t }) (W.upd v (d.taken k)) with
    | mk w1 res =>
      rw [hp] at e1 hres
      simp only at e1 hres
      subst e1
      rcases hres with hok | ⟨m, hpan⟩
      · subst hok
        simp only
        exact ih W1 du1 h1 hv1 hu1 hl1
      · subst hpan
        exact ⟨W1, du1, rfl, h1, hv1, hu1, hl1, Or.inr ⟨m, rfl⟩⟩

/-- dropping a removal handle, from the point of view of the world with the source still whole -/
theorem hDrop_inv (W : World) (h : W.Inv) (v : Nat) (k : HKind) (t : Bool) (d : VecSt) (hv : W.vecs[v]? = some d)
    (hl : d.live = true) (hk : k.okFor d) :
    (hDrop { v := v, kind := k, typed := t } (W.upd v (d.taken k))).1.Inv ∧
      ((hDrop { v := v, kind := k, typed := t } (W.upd v (d.taken k))).2 = .ok () ∨
        ∃ m, (hDrop { v := v, kind := k, typed := t } (W.upd v (d.taken k))).2 = .panic m) := by
  have hvlt : v < W.vecs.length := (List.getElem?_eq_some_iff.mp hv).1
  have hg := h.good v d hv
  obtain ⟨id, hc⟩ := hg.get (k.slot d) (HKind.slot_lt hk)
  have hD := hDrop_any (W.upd v (d.taken k)) v k t d id hk hg.wf (by simp [hvlt]) hl hc
  rcases hD with ⟨hok, he⟩ | ⟨⟨m, hp⟩, he⟩
  · obtain ⟨hgood, hleq⟩ := (HOutcome.dropped : HOutcome d k id _ _ _).good hk hg hc
    exact ⟨h.local_erase v d _ [] [id] hv (by simpa using he) hgood hleq, Or.inl hok⟩
  · obtain ⟨hgood, hleq⟩ := (HOutcome.dropPanicked : HOutcome d k id _ _ _).good hk hg hc
    refine ⟨h.local_erase v d _ [] [id] hv ?_ hgood hleq, Or.inr ⟨m, hp⟩⟩
    rw [he]; simp [World.upd, World.erase]

/-- `Sink.lazyTo`: the handle's lazy clone is pushed `n` times into another vector, then the handle is dropped -/
theorem lazyTo_step_inv (cfg : Cfg) (W : World) (v u n : Nat) (k : HKind) (t : Bool) (d du : VecSt)
    (h : W.Inv) (hne : v ≠ u) (hv : W.vecs[v]? = some d) (hl : d.live = true)
    (hu : W.vecs[u]? = some du) (hlu : du.live = true) (hk : k.okFor d) :
    (sinkHandle cfg { v := v, kind := k, typed := t } (.lazyTo u n) (W.upd v (d.taken k))).1.Inv ∧
    (sinkHandle cfg { v := v, kind := k, typed := t } (.lazyTo u n) (W.upd v (d.taken k))).2.notUb := by
  have hg := h.good v d hv
  obtain ⟨id, hc⟩ := hg.get (k.slot d) (HKind.slot_lt hk)
  obtain ⟨W', du', e1, h1, hv1, hu1, hl1, hres⟩ := pushTimes_ghost v u k t d id hne hl hk hc n W du h hv hu hlu
  have hne' : ¬ u = v := fun e => hne e.symm
  simp only [sinkHandle, hne', if_false, WM.bind_apply, WM.onUnwind]
  cases hp : pushTimes u (.lazyHandle { v := v, kind := k, typed := t }) n (W.upd v (d.taken k)) with
  | mk w1 res =>
    rw [hp] at e1 hres
    simp only at e1 hres
    subst e1
    obtain ⟨hi, hr⟩ := hDrop_inv W' h1 v k t d hv1 hl hk
    rcases hres with hok | ⟨m, hpan⟩
    · subst hok
      simp only
      cases hd : hDrop { v := v, kind := k, typed := t } (W'.upd v (d.taken k)) with
      | mk w2 r2 =>
        rw [hd] at hi hr
        simp only at hi hr
        rcases hr with h2 | ⟨m2, h2⟩ <;> subst h2 <;> exact ⟨hi, trivial⟩
    · subst hpan
      simp only
      cases hd : hDrop { v := v, kind := k, typed := t } (W'.upd v (d.taken k)) with
      | mk w2 r2 =>
        rw [hd] at hi hr
        simp only at hi hr
        rcases hr with h2 | ⟨m2, h2⟩ <;> subst h2 <;> exact ⟨hi, trivial⟩


theorem step_remove_eq (cfg : Cfg) (w : World) (v i : Nat) (k : Sink) (d : VecSt)
    (hv : w.vecs[v]? = some d) (hl : d.live = true) (hi : i < d.len) :
    step cfg (.remove v i k) w = sinkHandle cfg { v := v, kind := .remove i (d.len - 1), typed := false } k
      (w.upd v (d.taken (.remove i (d.len - 1)))) := by
  simp only [step, WM.bind_apply, getVec_ok w v d hv hl, hi, if_true, setLen, setVec_apply]
  rfl

theorem step_swapRemove_eq (cfg : Cfg) (w : World) (v i : Nat) (k : Sink) (d : VecSt)
    (hv : w.vecs[v]? = some d) (hl : d.live = true) (hi : i < d.len) :
    step cfg (.swapRemove v i k) w = sinkHandle cfg { v := v, kind := .swapRemove i d.gen (d.len - 1), typed := false } k
      (w.upd v (d.taken (.swapRemove i d.gen (d.len - 1)))) := by
  simp only [step, WM.bind_apply, getVec_ok w v d hv hl, hi, if_true, setLen, setVec_apply]
  rfl

theorem step_pop_eq (cfg : Cfg) (w : World) (v : Nat) (k : Sink) (d : VecSt)
    (hv : w.vecs[v]? = some d) (hl : d.live = true) (hi : d.len ≠ 0) :
    step cfg (.pop v k) w = sinkHandle cfg { v := v, kind := .pop, typed := false } k (w.upd v (d.taken .pop)) := by
  simp only [step, WM.bind_apply, getVec_ok w v d hv hl, hi, if_false, setLen, setVec_apply]
  rfl

/-- `pop`/`remove`/`swap_remove` whose handle is lazily cloned `n` times into another vector and then dropped -/
theorem step_take_lazyTo_inv (cfg : Cfg) (w : World) (v u n : Nat) (d du : VecSt) (h : w.Inv) (hne : v ≠ u)
    (hv : w.vecs[v]? = some d) (hl : d.live = true) (hu : w.vecs[u]? = some du) (hlu : du.live = true) (i : Nat) :
    ((step cfg (.remove v i (.lazyTo u n)) w).1.Inv ∧ (step cfg (.remove v i (.lazyTo u n)) w).2.notUb) ∧
    ((step cfg (.swapRemove v i (.lazyTo u n)) w).1.Inv ∧ (step cfg (.swapRemove v i (.lazyTo u n)) w).2.notUb) ∧
    ((step cfg (.pop v (.lazyTo u n)) w).1.Inv ∧ (step cfg (.pop v (.lazyTo u n)) w).2.notUb) := by
  refine ⟨?_, ?_, ?_⟩
  · by_cases hi : i < d.len
    · rw [step_remove_eq cfg w v i _ d hv hl hi]
      exact lazyTo_step_inv cfg w v u n _ false d du h hne hv hl hu hlu ⟨hi, rfl⟩
    · have e : step cfg (.remove v i (.lazyTo u n)) w = (WM.panic "Index out of range!" : WM Out) w := by
        simp only [step, WM.bind_apply, getVec_ok w v d hv hl, hi, if_false]
      rw [e]; exact panic_inv w h _
  · by_cases hi : i < d.len
    · rw [step_swapRemove_eq cfg w v i _ d hv hl hi]
      exact lazyTo_step_inv cfg w v u n _ false d du h hne hv hl hu hlu ⟨hi, rfl, rfl⟩
    · have e : step cfg (.swapRemove v i (.lazyTo u n)) w = (WM.panic "Index out of range!" : WM Out) w := by
        simp only [step, WM.bind_apply, getVec_ok w v d hv hl, hi, if_false]
      rw [e]; exact panic_inv w h _
  · by_cases hi : d.len = 0
    · have e : step cfg (.pop v (.lazyTo u n)) w = (w, .ok ["N"]) := by
        simp only [step, WM.bind_apply, getVec_ok w v d hv hl, hi, if_true, WM.pure_apply]
      rw [e]; exact ⟨h, trivial⟩
    · rw [step_pop_eq cfg w v _ d hv hl hi]
      exact lazyTo_step_inv cfg w v u n _ false d du h hne hv hl hu hlu hi

end AnyVec
