/- Kernel tie: `utils::element_ptr_at` / `element_mut_ptr_at` (src/any_vec_ptr.rs, through `AnyVecRaw::get_unchecked(_mut)`
and `AnyVecTyped::as_ptr / as_mut_ptr`), re-translated on every run into the byte offset of element `index`: the
abstraction "an element pointer is its slot number" the other kernels rest on. Also `Iter::new` (src/iter.rs). -/
import AnyVecModel.Proofs.KernelBase
namespace AnyVec
namespace KernelTie
open Gen.Kernel

/-- on the erased and on the typed path alike, element `index` lives `index * size` bytes into the storage -/
theorem element_ptr_at_tie (index size : Nat) (known : Bool) :
    element_ptr_at_off index size known = index * size ∧ element_mut_ptr_at_off index size known = index * size := by
  cases known <;> simp [element_ptr_at_off, element_mut_ptr_at_off, Nat.mul_comm]

/-- a fresh cursor covers exactly `[start, end)` -/
theorem iter_new_tie :
    iter_new_fields = [("any_vec_ptr", "any_vec_ptr"), ("index", "start"), ("end", "end"), ("phantom", "PhantomData")] := rfl

end KernelTie
end AnyVec
