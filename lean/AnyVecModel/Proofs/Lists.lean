/-
  Slot → list refinement lemmas: the storage effect of every element-wise and range operation,
  read through `take len`, is the corresponding `List` operation.
-/
import AnyVecModel.Proofs.Mem
namespace AnyVec

theorem ensure_getElem? (m : Mem) (n k : Nat) :
    (m.ensure n)[k]? = if k < m.length then m[k]? else if k < n then some Cell.uninit else none := by
  simp only [Mem.ensure, List.getElem?_append, List.getElem?_replicate]
  split
  · rfl
  · split <;> split <;> first | rfl | omega

@[simp] theorem ensure_length (m : Mem) (n : Nat) : (m.ensure n).length = max m.length n := by
  simp [Mem.ensure]; omega

theorem ensure_of_le (m : Mem) (n : Nat) (h : n ≤ m.length) : m.ensure n = m := by
  simp [Mem.ensure, Nat.sub_eq_zero_of_le h]

theorem ensure_take (m : Mem) (n k : Nat) (h : k ≤ m.length) : (m.ensure n).take k = m.take k := by
  simp [Mem.ensure, List.take_append, Nat.sub_eq_zero_of_le h]

/-- shifting `[i, len)` one slot to the right and writing `c` at `i` is `insertIdx` -/
theorem insert_mem (m : Mem) (len i : Nat) (c : Cell) (h : i ≤ len) (hl : len + 1 ≤ m.length) :
    ((memmove m i (i + 1) (len - i)).set i c).take (len + 1) = (m.take len).insertIdx i c := by
  apply List.ext_getElem?
  intro k
  have h1 : i + (len - i) ≤ m.length := by omega
  have h2 : i + 1 + (len - i) ≤ m.length := by omega
  simp only [List.getElem?_take, List.getElem?_set, memmove_length m i (i+1) (len - i) h1 h2,
    memmove_getElem? m i (i+1) (len - i) k h1 h2, List.getElem?_insertIdx, List.length_take]
  grind

/-- closing the gap at `i` (`[i+1, last]` one slot to the left) is `eraseIdx` -/
theorem remove_mem (m : Mem) (last i : Nat) (h : i ≤ last) (hl : last + 1 ≤ m.length) :
    (memmove m (i + 1) i (last - i)).take last = (m.take (last + 1)).eraseIdx i := by
  apply List.ext_getElem?
  intro k
  have h1 : i + 1 + (last - i) ≤ m.length := by omega
  have h2 : i + (last - i) ≤ m.length := by omega
  simp only [List.getElem?_take, memmove_getElem? m (i+1) i (last - i) k h1 h2,
    List.getElem?_eraseIdx, List.length_take]
  grind

/-- overwriting slot `i` with the last element and dropping the last slot is `swap_remove` -/
theorem swap_remove_mem (m : Mem) (last i : Nat) (h : i ≤ last) (hl : last + 1 ≤ m.length) :
    (if i = last then m else m.set i (m.get last)).take last
      = ((m.take (last + 1)).set i (m.get last)).take last := by
  apply List.ext_getElem?
  intro k
  split
  · simp only [List.getElem?_take, List.getElem?_set, List.length_take]; grind
  · simp only [List.getElem?_take, List.getElem?_set, List.length_take]; grind

/-- `Drain::drop`: moving the tail `[e, len)` down to `s` leaves `take s ++ drop e` -/
theorem drain_mem (m : Mem) (len s e : Nat) (hse : s ≤ e) (hel : e ≤ len) (hl : len ≤ m.length) :
    (memmove m e s (len - e)).take (len - (e - s)) = m.take s ++ (m.take len).drop e := by
  apply List.ext_getElem?
  intro k
  have h1 : e + (len - e) ≤ m.length := by omega
  have h2 : s + (len - e) ≤ m.length := by omega
  simp only [List.getElem?_take, memmove_getElem? m e s (len - e) k h1 h2, List.getElem?_append,
    List.getElem?_drop, List.length_take]
  grind

end AnyVec

namespace AnyVec
theorem ensure_get (m : Mem) (n j : Nat) : (m.ensure n).get j = m.get j := by
  simp only [Mem.get_eq, ensure_getElem?]
  split
  · rfl
  · rename_i h
    have : m[j]? = none := by simp; omega
    split <;> simp [this]

theorem get_set_ne (m : Mem) (i j : Nat) (c : Cell) (h : i ≠ j) : Mem.get (m.set i c) j = m.get j := by
  simp [Mem.get_eq, List.getElem?_set, h]

theorem get_set_self (m : Mem) (i : Nat) (c : Cell) (h : i < m.length) : Mem.get (m.set i c) i = c := by
  simp [Mem.get_eq, List.getElem?_set, h]
end AnyVec

namespace AnyVec
theorem memmove_get (m : Mem) (src dst n k : Nat) (hs : src + n ≤ m.length) (hd : dst + n ≤ m.length) :
    Mem.get (memmove m src dst n) k = if dst ≤ k ∧ k < dst + n then m.get (src + (k - dst)) else m.get k := by
  simp only [Mem.get_eq, memmove_getElem? m src dst n k hs hd]
  split <;> rfl
end AnyVec
