/-
  Kernel tie: the constructors of the removal handles and of the range iterators (`Pop::new`, `Remove::new`,
  `SwapRemove::new`, `Drain::new`, `Splice::new`) as re-translated from /repo/src/ops/*.rs on every run: what they
  store and — the point of C06/C07 — that they lower the vector's `len` *before* anything else can happen.
-/
import AnyVecModel.Proofs.KernelBase
import AnyVecModel.Proofs.WM
namespace AnyVec
namespace KernelTie
open World Gen.Kernel

/-- `pop()`: the model's step is the source's `Pop::new` followed by the handle's life -/
theorem pop_ctor_tie (cfg : Cfg) (w : World) (v : Nat) (k : Sink) (d : VecSt)
    (hv : w.vecs[v]? = some d) (hl : d.live = true) (hne : d.len ≠ 0) :
    ∃ len', pop_new d.len = .ok (.made len' []) ∧
      step cfg (.pop v k) w = sinkHandle cfg { v := v, kind := .pop, typed := false } k (w.upd v { d with len := len' }) := by
  refine ⟨d.len - 1, rfl, ?_⟩
  simp only [step, WM.bind_apply, getVec_ok w v d hv hl, hne, if_false, setLen, setVec_apply]

/-- `remove(i)`: `len := index`, the handle remembers `index` and `last_index = len - 1` -/
theorem remove_ctor_tie (cfg : Cfg) (w : World) (v i : Nat) (k : Sink) (d : VecSt)
    (hv : w.vecs[v]? = some d) (hl : d.live = true) (hi : i < d.len) :
    ∃ len' idx last, remove_new d.len i = .ok (.made len' [idx, last]) ∧
      step cfg (.remove v i k) w =
        sinkHandle cfg { v := v, kind := .remove idx last, typed := false } k (w.upd v { d with len := len' }) := by
  refine ⟨i, i, d.len - 1, rfl, ?_⟩
  simp only [step, WM.bind_apply, getVec_ok w v d hv hl, hi, if_true, setLen, setVec_apply]

/-- `swap_remove(i)`: `len := index`, the handle caches the element pointer (slot `index`, current storage
generation) and `last_index = len - 1` -/
theorem swap_remove_ctor_tie (cfg : Cfg) (w : World) (v i : Nat) (k : Sink) (d : VecSt)
    (hv : w.vecs[v]? = some d) (hl : d.live = true) (hi : i < d.len) :
    ∃ len' slot last, swap_remove_new d.len i = .ok (.made len' [slot, last]) ∧
      step cfg (.swapRemove v i k) w =
        sinkHandle cfg { v := v, kind := .swapRemove slot d.gen last, typed := false } k (w.upd v { d with len := len' }) := by
  refine ⟨i, i, d.len - 1, rfl, ?_⟩
  simp only [step, WM.bind_apply, getVec_ok w v d hv hl, hi, if_true, setLen, setVec_apply]

/-- the iterator state a `Drain::new` / `Splice::new` result stands for -/
def itOf (v : Nat) (typed : Bool) (fields : List Nat) : RangeIt :=
  { v := v, typed := typed, index := fields.getD 0 0, end_ := fields.getD 1 0, start := fields.getD 2 0,
    end0 := fields.getD 3 0, origLen := fields.getD 4 0 }

/-- `drain(range)`: after the range conversion the model continues exactly from what `Drain::new` builds:
`len := start`, cursor `(start, end)`, remembered `start`, `end`, `original_len` -/
theorem drain_ctor_tie (cfg : Cfg) (w : World) (v : Nat) (lo hi : Bnd) (typed : Bool) (eats : List (End × Sink)) (fin : Fin)
    (d : VecSt) (s e : Nat) (hv : w.vecs[v]? = some d) (hl : d.live = true) (hr : intoRange d.len lo hi = .ok (s, e)) :
    ∃ len' fields, drain_new d.len s e = .ok (.made len' fields) ∧
      step cfg (.drain v lo hi typed eats fin) w =
        (do let (it', out) ← eatLoop cfg drainDrop (itOf v typed fields) eats [toString (e - s)]
            match fin with
            | .drop => do drainDrop it'; pure out
            | .forget => pure out : WM Out) (w.upd v { d with len := len' }) := by
  refine ⟨s, [s, e, s, e, d.len], rfl, ?_⟩
  simp only [step, drain, WM.bind_apply, getVec_ok w v d hv hl, hr, WM.lift_ok, setLen, setVec_apply]
  rfl

/-- `splice(range, replacement)`: likewise from `Splice::new` -/
theorem splice_ctor_tie (d : VecSt) (s e : Nat) :
    splice_new d.len s e = .ok (.made s [s, e, s, e, d.len]) ∧ splice_new d.len s e = drain_new d.len s e :=
  ⟨rfl, rfl⟩

end KernelTie
end AnyVec
