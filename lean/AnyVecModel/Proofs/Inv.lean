/-
  The world invariant of histories: every vector is well-formed and shows only initialised
  elements; every identity that was ever handed out is in at most one place (visible in one
  vector, held by the caller, or destroyed) and was created before now.
  `Inv.of_step` is the single preservation rule: a step may create fresh identities and may move
  identities between places or lose (leak) them — it may never duplicate one.
-/
import AnyVecModel.Proofs.Own
namespace AnyVec
open World

/-- every visible slot of the vector holds an element -/
def VecSt.AllVal (d : VecSt) : Prop := ∀ c, c ∈ d.abs → ∃ id, c = Cell.val id

structure VecSt.Good (d : VecSt) : Prop where
  wf : d.WF
  allVal : d.AllVal

theorem VecSt.Good.init {d : VecSt} (h : d.Good) : d.Init := by
  intro j hj
  have h1 := h.wf.len_le
  have hj2 : j < d.cells.length := by omega
  have hmem : d.cells[j] ∈ d.abs := by
    simp only [VecSt.abs]
    rw [List.mem_take_iff_getElem]
    exact ⟨j, by omega, rfl⟩
  obtain ⟨id, hid⟩ := h.allVal _ hmem
  exact ⟨id, by simp [Mem.get, List.getD_eq_getElem?_getD, hj2, hid]⟩

theorem VecSt.good_of_init {d : VecSt} (hwf : d.WF) (hi : d.Init) : d.Good := by
  refine ⟨hwf, ?_⟩
  intro c hc
  rw [VecSt.abs_eq_ids d hwf hi] at hc
  obtain ⟨id, _, rfl⟩ := List.mem_map.mp hc
  exact ⟨id, rfl⟩

/-- slot `i < len` of a good vector holds an element -/
theorem VecSt.Good.get {d : VecSt} (h : d.Good) (i : Nat) (hi : i < d.len) : ∃ id, d.cells.get i = .val id := by
  have := h.init i hi
  simpa using this

/-- `l₁` is `l₂` up to order, possibly with elements missing -/
def Leq {α} (l₁ l₂ : List α) : Prop := ∃ extra, (l₁ ++ extra).Perm l₂

theorem Leq.refl {α} (l : List α) : Leq l l := ⟨[], by simp⟩
theorem Leq.of_perm {α} {l₁ l₂ : List α} (h : l₁.Perm l₂) : Leq l₁ l₂ := ⟨[], by simpa using h⟩
theorem Leq.trans {α} {l₁ l₂ l₃ : List α} (h₁ : Leq l₁ l₂) (h₂ : Leq l₂ l₃) : Leq l₁ l₃ := by
  obtain ⟨e₁, p₁⟩ := h₁
  obtain ⟨e₂, p₂⟩ := h₂
  refine ⟨e₁ ++ e₂, ?_⟩
  rw [← List.append_assoc]
  exact (List.Perm.append_right _ p₁).trans p₂
theorem Leq.nodup {α} {l₁ l₂ : List α} (h : Leq l₁ l₂) (hn : l₂.Nodup) : l₁.Nodup := by
  obtain ⟨e, p⟩ := h
  exact (List.nodup_append.mp (p.nodup_iff.mpr hn)).1
theorem Leq.mem {α} {l₁ l₂ : List α} (h : Leq l₁ l₂) {a : α} (ha : a ∈ l₁) : a ∈ l₂ := by
  obtain ⟨e, p⟩ := h
  exact p.subset (List.mem_append_left _ ha)
theorem Leq.append {α} {a₁ a₂ b₁ b₂ : List α} (h₁ : Leq a₁ a₂) (h₂ : Leq b₁ b₂) : Leq (a₁ ++ b₁) (a₂ ++ b₂) := by
  obtain ⟨e₁, p₁⟩ := h₁
  obtain ⟨e₂, p₂⟩ := h₂
  refine ⟨e₁ ++ e₂, ?_⟩
  have : (a₁ ++ b₁ ++ (e₁ ++ e₂)).Perm ((a₁ ++ e₁) ++ (b₁ ++ e₂)) := by
    simp only [List.append_assoc]
    apply List.Perm.append_left
    rw [← List.append_assoc, ← List.append_assoc]
    exact List.Perm.append_right _ List.perm_append_comm
  exact this.trans (List.Perm.append p₁ p₂)
theorem Leq.take {α} (l : List α) (n : Nat) : Leq (l.take n) l := ⟨l.drop n, by simp⟩
theorem Leq.nil {α} (l : List α) : Leq [] l := ⟨l, by simp⟩

/-- identities `[a, a+k)` as cells -/
def freshCells (a k : Nat) : List Cell := (List.range' a k).map Cell.val

/-- every identity the world knows: visible ++ held ++ destroyed ++ (rejected raw values the caller
is about to destroy at the end of the step) -/
def World.all (w : World) : List Cell := w.owned ++ w.pendingRaw.map Cell.val

structure World.Inv (w : World) : Prop where
  good : ∀ (v : Nat) (x : VecSt), w.vecs[v]? = some x → x.Good
  nodup : w.all.Nodup
  bound : ∀ id, Cell.val id ∈ w.all → id < w.created

/-- **the preservation rule.** -/
theorem World.Inv.of_step {w w' : World} (h : w.Inv)
    (hgood : ∀ (v : Nat) (x : VecSt), w'.vecs[v]? = some x → x.Good)
    (hc : w.created ≤ w'.created)
    (hsub : Leq w'.all (freshCells w.created (w'.created - w.created) ++ w.all)) : w'.Inv := by
  have hnd : (freshCells w.created (w'.created - w.created) ++ w.all).Nodup := by
    rw [List.nodup_append]
    refine ⟨?_, h.nodup, ?_⟩
    · unfold freshCells
      have : (List.range' w.created (w'.created - w.created)).Nodup := List.nodup_range'
      exact List.Pairwise.map Cell.val (fun a b hab hc => hab (by cases hc; rfl)) this
    · intro a ha b hb hab
      subst hab
      obtain ⟨id, hid, rfl⟩ := List.mem_map.mp ha
      have := h.bound id hb
      have := (List.mem_range'_1.mp hid).1
      omega
  refine ⟨hgood, hsub.nodup hnd, ?_⟩
  intro id hid
  have := hsub.mem hid
  rcases List.mem_append.mp this with h1 | h1
  · obtain ⟨id', hid', e⟩ := List.mem_map.mp h1
    cases e
    have := (List.mem_range'_1.mp hid').2
    omega
  · have := h.bound id h1
    omega

end AnyVec

namespace AnyVec
open World

theorem flatten_set_split {α} (ls : List (List α)) (v : Nat) (l l' : List α) (hv : ls[v]? = some l) :
    ls.flatten = (ls.take v).flatten ++ l ++ (ls.drop (v + 1)).flatten ∧
    (ls.set v l').flatten = (ls.take v).flatten ++ l' ++ (ls.drop (v + 1)).flatten := by
  have hlt : v < ls.length := (List.getElem?_eq_some_iff.mp hv).1
  have hd : ls[v] = l := (List.getElem?_eq_some_iff.mp hv).2
  have e1 : ls.set v l' = ls.take v ++ l' :: ls.drop (v + 1) := List.set_eq_take_append_cons_drop.trans (by simp [hlt])
  have e2 : ls = ls.take v ++ l :: ls.drop (v + 1) := by
    conv => lhs; rw [← List.take_append_drop v ls]
    rw [List.drop_eq_getElem_cons hlt, hd]
  constructor
  · conv => lhs; rw [e2]
    simp
  · rw [e1]; simp

/-- **local steps**: a step that replaces one vector, holds `hl`, destroys `dl` and creates `k`
identities keeps the invariant when the new contents plus what it gave away come from the old
contents plus the fresh identities. -/
theorem World.Inv.local {w w' : World} (h : w.Inv) (v : Nat) (d d' : VecSt) (k : Nat) (hl dl pl : List Nat)
    (hv : w.vecs[v]? = some d)
    (hvecs : w'.vecs = w.vecs.set v d') (hgood : d'.Good)
    (hcr : w'.created = w.created + k)
    (hheld : w'.held = hl ++ w.held) (hlog : w'.dropLog = dl ++ w.dropLog)
    (hpend : w'.pendingRaw = pl ++ w.pendingRaw)
    (hperm : Leq (d'.abs ++ (hl.map Cell.val ++ dl.map Cell.val ++ pl.map Cell.val)) (freshCells w.created k ++ d.abs)) :
    w'.Inv := by
  have hlt : v < w.vecs.length := (List.getElem?_eq_some_iff.mp hv).1
  apply h.of_step
  · intro u x hx
    rw [hvecs] at hx
    by_cases huv : v = u
    · subst huv
      simp [hlt] at hx
      subst hx; exact hgood
    · simp [List.getElem?_set, huv] at hx
      exact h.good u x hx
  · omega
  · obtain ⟨extra, hp⟩ := hperm
    refine ⟨extra, ?_⟩
    have hsp := flatten_set_split (w.vecs.map VecSt.abs) v d.abs d'.abs (by simp [hv])
    simp only [World.all, World.owned, World.allVis, hvecs, hheld, hlog, hpend, hcr, List.map_set, List.map_append]
    rw [hsp.1, hsp.2, show w.created + k - w.created = k by omega]
    rw [List.perm_iff_count] at hp ⊢
    intro a
    have := hp a
    simp only [List.count_append] at this ⊢
    omega

end AnyVec

namespace AnyVec
theorem Leq.count_le {α} [DecidableEq α] {l₁ l₂ : List α} (h : Leq l₁ l₂) (a : α) : l₁.count a ≤ l₂.count a := by
  obtain ⟨e, p⟩ := h
  have := List.Perm.count_eq p a
  simp only [List.count_append] at this
  omega

theorem Leq.of_count_le {α} [DecidableEq α] (l₁ l₂ : List α) (h : ∀ a, l₁.count a ≤ l₂.count a) : Leq l₁ l₂ := by
  induction l₁ generalizing l₂ with
  | nil => exact Leq.nil _
  | cons x xs ih =>
    have hx : x ∈ l₂ := by
      rw [← List.count_pos_iff]
      have := h x
      simp at this
      omega
    have hp := List.perm_cons_erase hx
    have hle : ∀ a, xs.count a ≤ (l₂.erase x).count a := by
      intro a
      have := h a
      by_cases hax : a = x
      · subst hax
        simp at this ⊢
        omega
      · rw [List.count_erase_of_ne hax]
        simp [List.count_cons, hax] at this
        have hxa : ¬ x = a := fun e => hax e.symm
        simp [hxa] at this
        exact this
    obtain ⟨e, p⟩ := ih (l₂.erase x) hle
    exact ⟨e, (by simpa using List.Perm.cons x p : (x :: xs ++ e).Perm (x :: l₂.erase x)).trans hp.symm⟩

theorem Leq_iff_count {α} [DecidableEq α] (l₁ l₂ : List α) : Leq l₁ l₂ ↔ ∀ a, l₁.count a ≤ l₂.count a :=
  ⟨fun h a => h.count_le a, Leq.of_count_le l₁ l₂⟩
theorem Leq.map {α β} {l₁ l₂ : List α} (f : α → β) (h : Leq l₁ l₂) : Leq (l₁.map f) (l₂.map f) := by
  obtain ⟨e, p⟩ := h
  exact ⟨e.map f, by rw [← List.map_append]; exact p.map f⟩
end AnyVec
