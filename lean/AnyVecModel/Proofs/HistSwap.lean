/-
  `AnyValueMut::swap` through a removal handle (`Sink.swapVal`): a fresh value is swapped into the
  handle, the old element is destroyed with the wrapper, then the handle is dropped — any fault state.
-/
import AnyVecModel.Proofs.HistLazy2
namespace AnyVec
open World

theorem taken_setCell (d : VecSt) (k : HKind) (i : Nat) (c : Cell) :
    (d.setCell i c).taken k = (d.taken k).setCell i c := by
  cases k <;> rfl

theorem okFor_setCell (d : VecSt) (k : HKind) (i : Nat) (c : Cell) (hk : k.okFor d) : k.okFor (d.setCell i c) := by
  cases k <;> exact hk

theorem swapVal_step_inv (cfg : Cfg) (W : World) (v ty : Nat) (k : HKind) (t : Bool) (d : VecSt)
    (h : W.Inv) (hv : W.vecs[v]? = some d) (hl : d.live = true) (hk : k.okFor d) :
    (sinkHandle cfg { v := v, kind := k, typed := t } (.swapVal ty) (W.upd v (d.taken k))).1.Inv ∧
    (sinkHandle cfg { v := v, kind := k, typed := t } (.swapVal ty) (W.upd v (d.taken k))).2.notUb := by
  have hvlt : v < W.vecs.length := (List.getElem?_eq_some_iff.mp hv).1
  have hg := h.good v d hv
  have hsl := HKind.slot_lt hk
  have hb : k.slot d < d.cap := by have := hg.wf.len_le; have := hg.wf.cells_le; omega
  obtain ⟨old, hc⟩ := hg.get (k.slot d) hsl
  have hlive : (d.taken k).live = true := by cases k <;> simpa [VecSt.taken] using hl
  have hcells : (d.taken k).cells = d.cells := by cases k <;> rfl
  have hcap : (d.taken k).cap = d.cap := by cases k <;> rfl
  have hty : (d.taken k).ty = d.ty := by cases k <;> rfl
  let wt := W.upd v (d.taken k)
  have hvt : wt.vecs[v]? = some (d.taken k) := by simp [wt, hvlt]
  have hvtb : wt.bump.vecs[v]? = some (d.taken k) := hvt
  -- helper: finish with `hDrop` on a ghost world `W2` that satisfies the invariant
  have hfinish : ∀ (W2 : World) (d2 : VecSt), W2.Inv → W2.vecs[v]? = some d2 → d2.live = true → k.okFor d2 →
      (hDrop { v := v, kind := k, typed := t } (W2.upd v (d2.taken k))).1.Inv ∧
        ((hDrop { v := v, kind := k, typed := t } (W2.upd v (d2.taken k))).2 = .ok () ∨
          ∃ m, (hDrop { v := v, kind := k, typed := t } (W2.upd v (d2.taken k))).2 = .panic m) :=
    fun W2 d2 h2 hv2 hl2 hk2 => hDrop_inv W2 h2 v k t d2 hv2 hl2 hk2
  by_cases hte : ty = d.ty
  · -- the fresh value goes into the handle's slot, the old element into the wrapper, which is dropped
    let d2 : VecSt := d.setCell (k.slot d) (.val W.created)
    have hread : readElem v (k.slot d) wt.bump = (wt.bump, .ok old) := by
      simp only [readElem, WM.bind_apply, getVec_ok _ v _ hvtb hlive, WM.lift,
        VecSt.readElem_ok (d.taken k) (k.slot d) old (by rw [hcap]; exact hb) (by rw [hcells]; exact hc)]
    have hwr := writeCell_setCell wt.bump v (k.slot d) (.val wt.created) (d.taken k) hvtb hlive (by rw [hcap]; exact hb)
    obtain ⟨hgood2, hleq2⟩ := setCell_leq d hg (k.slot d) old W.created hsl hc
    -- ghost world: `src` whole, with the new value in the slot and the old one destroyed
    obtain ⟨e1, e5⟩ := dropElem_erase cfg.hasDrop old (wt.bump.upd v ((d.taken k).setCell (k.slot d) (.val W.created)))
    have hstep : sinkHandle cfg { v := v, kind := k, typed := t } (.swapVal ty) wt =
        (do WM.onUnwind (dropElem cfg.hasDrop old) (hDrop { v := v, kind := k, typed := t })
            hDrop { v := v, kind := k, typed := t }
            pure [cfg.tok old] : WM Out) (wt.bump.upd v ((d.taken k).setCell (k.slot d) (.val W.created))) := by
      simp only [sinkHandle, WM.bind_apply, getVec_ok wt v _ hvt hlive, fresh, hty, hte, ne_eq, not_true_eq_false,
        if_false]
      rw [show ({ wt with created := wt.created + 1 } : World) = wt.bump from rfl]
      simp only [hSlot_taken wt.bump v k t d hk hvtb hl, hread, hwr, WM.bind_apply]
      rfl
    rw [hstep]
    simp only [WM.bind_apply, WM.onUnwind, WM.pure_apply]
    cases hde : dropElem cfg.hasDrop old (wt.bump.upd v ((d.taken k).setCell (k.slot d) (.val W.created))) with
    | mk w1 res =>
      rw [hde] at e1 e5
      simp only at e1 e5
      -- `w1` is the ghost world `W2` with `src` in the taken state
      let W2 : World := { w1 with vecs := W.vecs.set v d2 }
      have hW2 : W2.Inv := by
        refine h.local_erase' v d d2 1 [] [old] [] hv ?_ hgood2 hleq2
        show ({ w1 with vecs := W.vecs.set v d2 } : World).erase = _
        have : ({ w1 with vecs := W.vecs.set v d2 } : World).erase = { w1.erase with vecs := W.vecs.set v d2 } := rfl
        rw [this, e1]
        simp [World.upd, World.bump, World.erase, wt]
      have hW2v : W2.vecs[v]? = some d2 := by show (W.vecs.set v d2)[v]? = _; simp [hvlt]
      have hw1eq : w1 = W2.upd v (d2.taken k) := by
        have hv1 : w1.vecs = (W.vecs.set v (d.taken k)).set v ((d.taken k).setCell (k.slot d) (.val W.created)) := by
          have := congrArg World.vecs e1; simpa [World.upd, World.bump, wt] using this
        show w1 = { W2 with vecs := W2.vecs.set v (d2.taken k) }
        have : W2.vecs.set v (d2.taken k) = w1.vecs := by
          rw [hv1]
          show (W.vecs.set v d2).set v (d2.taken k) = _
          rw [List.set_set, List.set_set, taken_setCell]
        rw [this]
      obtain ⟨hi, hr⟩ := hfinish W2 d2 hW2 hW2v (by show d.live = true; exact hl) (okFor_setCell d k _ _ hk)
      rw [← hw1eq] at hi hr
      cases hd : hDrop { v := v, kind := k, typed := t } w1 with
      | mk w3 r3 =>
        rw [hd] at hi hr
        simp only at hi hr
        rcases e5 with hok | ⟨m, hp⟩
        · subst hok
          simp only [hd]
          rcases hr with h2 | ⟨m2, h2⟩ <;> subst h2 <;> exact ⟨hi, trivial⟩
        · subst hp
          simp only [hd]
          rcases hr with h2 | ⟨m2, h2⟩ <;> subst h2 <;> exact ⟨hi, trivial⟩
  · -- wrong type: the fresh value is destroyed, then the handle
    obtain ⟨e1, e5⟩ := dropElem_erase cfg.hasDrop W.created { wt.bump with fault := none }
    have hin : WM.onUnwind (WM.panic "assertion `left == right` failed" : WM Out) (dropElem cfg.hasDrop W.created) wt.bump =
        ((dropElem cfg.hasDrop W.created { wt.bump with fault := none }).1, .panic "assertion `left == right` failed") :=
      onUnwind_after_panic _ _ _ { wt.bump with fault := none } _ rfl e5
    have hstep : sinkHandle cfg { v := v, kind := k, typed := t } (.swapVal ty) wt =
        WM.onUnwind (WM.onUnwind (WM.panic "assertion `left == right` failed" : WM Out) (dropElem cfg.hasDrop W.created))
          (hDrop { v := v, kind := k, typed := t }) wt.bump := by
      simp only [sinkHandle, WM.bind_apply, getVec_ok wt v _ hvt hlive, fresh, hty, hte, ne_eq, not_false_eq_true, if_true]
      rfl
    rw [hstep]
    cases hde : dropElem cfg.hasDrop W.created { wt.bump with fault := none } with
    | mk w1 res =>
      rw [hde] at e1 hin
      simp only at e1 hin
      let W2 : World := { w1 with vecs := W.vecs }
      have hW2 : W2.Inv := by
        refine fresh_dropped_inv W h v d hv W2 ?_
        show ({ w1 with vecs := W.vecs } : World).erase = _
        have : ({ w1 with vecs := W.vecs } : World).erase = { w1.erase with vecs := W.vecs } := rfl
        rw [this, e1]
        simp [World.bump, World.erase, wt]
      have hW2v : W2.vecs[v]? = some d := hv
      have hw1eq : w1 = W2.upd v (d.taken k) := by
        have hv1 : w1.vecs = W.vecs.set v (d.taken k) := by
          have := congrArg World.vecs e1; simpa [World.upd, World.bump, wt] using this
        show w1 = { W2 with vecs := W2.vecs.set v (d.taken k) }
        have : W2.vecs.set v (d.taken k) = w1.vecs := by rw [hv1]
        rw [this]
      obtain ⟨hi, hr⟩ := hfinish W2 d hW2 hW2v hl hk
      rw [← hw1eq] at hi hr
      rw [onUnwind_after_panic _ _ wt.bump w1 _ hin hr]
      exact ⟨hi, trivial⟩


/-- what the borrow checker guarantees about the destination of a handle: another, live vector -/
def Sink.Valid (vs : List VecSt) (v : Nat) : Sink → Prop
  | .pushTo u => v ≠ u ∧ ∃ du, vs[u]? = some du ∧ du.live = true
  | .insertTo u _ => v ≠ u ∧ ∃ du, vs[u]? = some du ∧ du.live = true
  | .lazyTo u _ => v ≠ u ∧ ∃ du, vs[u]? = some du ∧ du.live = true
  | _ => True

/-- **a removal handle of any kind given to any sink, under any fault state** -/
theorem any_sink_inv (cfg : Cfg) (W : World) (v : Nat) (k : HKind) (t : Bool) (sink : Sink) (d : VecSt)
    (h : W.Inv) (hv : W.vecs[v]? = some d) (hl : d.live = true) (hk : k.okFor d) (hs : sink.Valid W.vecs v) :
    (sinkHandle cfg { v := v, kind := k, typed := t } sink (W.upd v (d.taken k))).1.Inv ∧
    (sinkHandle cfg { v := v, kind := k, typed := t } sink (W.upd v (d.taken k))).2.notUb := by
  cases sink with
  | drop => exact take_step_inv cfg W v k t _ d h hv hl hk trivial
  | forget => exact take_step_inv cfg W v k t _ d h hv hl hk trivial
  | downcast ty => exact take_step_inv cfg W v k t _ d h hv hl hk trivial
  | info => exact take_step_inv cfg W v k t _ d h hv hl hk trivial
  | pushTo u => obtain ⟨hne, du, hu, hlu⟩ := hs; exact move_step_inv cfg W v u k t _ d du h hne hv hl hu hlu hk rfl
  | insertTo u j => obtain ⟨hne, du, hu, hlu⟩ := hs; exact move_step_inv cfg W v u k t _ d du h hne hv hl hu hlu hk rfl
  | lazyTo u n => obtain ⟨hne, du, hu, hlu⟩ := hs; exact lazyTo_step_inv cfg W v u n k t d du h hne hv hl hu hlu hk
  | swapVal ty => exact swapVal_step_inv cfg W v ty k t d h hv hl hk

theorem step_remove_any (cfg : Cfg) (w : World) (v i : Nat) (k : Sink) (d : VecSt) (h : w.Inv)
    (hv : w.vecs[v]? = some d) (hl : d.live = true) (hs : k.Valid w.vecs v) :
    (step cfg (.remove v i k) w).1.Inv ∧ (step cfg (.remove v i k) w).2.notUb := by
  by_cases hi : i < d.len
  · rw [step_remove_eq cfg w v i k d hv hl hi]
    exact any_sink_inv cfg w v _ false k d h hv hl ⟨hi, rfl⟩ hs
  · have e : step cfg (.remove v i k) w = (WM.panic "Index out of range!" : WM Out) w := by
      simp only [step, WM.bind_apply, getVec_ok w v d hv hl, hi, if_false]
    rw [e]; exact panic_inv w h _

theorem step_swapRemove_any (cfg : Cfg) (w : World) (v i : Nat) (k : Sink) (d : VecSt) (h : w.Inv)
    (hv : w.vecs[v]? = some d) (hl : d.live = true) (hs : k.Valid w.vecs v) :
    (step cfg (.swapRemove v i k) w).1.Inv ∧ (step cfg (.swapRemove v i k) w).2.notUb := by
  by_cases hi : i < d.len
  · rw [step_swapRemove_eq cfg w v i k d hv hl hi]
    exact any_sink_inv cfg w v _ false k d h hv hl ⟨hi, rfl, rfl⟩ hs
  · have e : step cfg (.swapRemove v i k) w = (WM.panic "Index out of range!" : WM Out) w := by
      simp only [step, WM.bind_apply, getVec_ok w v d hv hl, hi, if_false]
    rw [e]; exact panic_inv w h _

theorem step_pop_any (cfg : Cfg) (w : World) (v : Nat) (k : Sink) (d : VecSt) (h : w.Inv)
    (hv : w.vecs[v]? = some d) (hl : d.live = true) (hs : k.Valid w.vecs v) :
    (step cfg (.pop v k) w).1.Inv ∧ (step cfg (.pop v k) w).2.notUb := by
  by_cases hi : d.len = 0
  · have e : step cfg (.pop v k) w = (w, .ok ["N"]) := by
      simp only [step, WM.bind_apply, getVec_ok w v d hv hl, hi, if_true, WM.pure_apply]
    rw [e]; exact ⟨h, trivial⟩
  · rw [step_pop_eq cfg w v k d hv hl hi]
    exact any_sink_inv cfg w v _ false k d h hv hl hi hs

end AnyVec
