/- Kernel tie: `AnyValueTypelessMut::swap_unchecked` (src/any_value/mod.rs) as a call trace, see KernelApiOps. -/
import AnyVecModel.Proofs.KernelBase
namespace AnyVec
namespace KernelTie
open Gen.Kernel

/-- a value swap exchanges whole values: typed `mem::swap` when either side knows the type at compile time, otherwise
one `swap_nonoverlapping` of exactly `size()` bytes of the left value -/
theorem swap_unchecked_tie (known otherKnown : Bool) :
    value_swap_unchecked_trace known otherKnown =
      [.branch known [.call "downcast_mut_unchecked" [], .call "downcast_mut_unchecked" [], .call "mem::swap" []]
        [.branch otherKnown [.call "downcast_mut_unchecked" [], .call "downcast_mut_unchecked" [], .call "mem::swap" []]
          [.call "as_bytes_mut" [], .call "as_mut_ptr" [], .call "as_bytes_mut" [], .call "as_mut_ptr" [], .call "len" [],
           .call "ptr::swap_nonoverlapping" []]]] := rfl

end KernelTie
end AnyVec
