/-
  Single-vector lemmas: well-formedness, the checked accesses as rewriting rules, capacity
  management (`reserve_one`, `reserve`, `shrink_to*`) keeps the elements.
-/
import AnyVecModel.Model.Vec
import AnyVecModel.Proofs.Lists
namespace AnyVec

/-- representation invariant of one vector: the visible part is materialised and the
materialised part lies inside the capacity -/
structure VecSt.WF (v : VecSt) : Prop where
  len_le : v.len ≤ v.cells.length
  cells_le : v.cells.length ≤ v.cap

instance (v : VecSt) : Decidable v.WF :=
  if h : v.len ≤ v.cells.length ∧ v.cells.length ≤ v.cap then isTrue ⟨h.1, h.2⟩
  else isFalse (fun hw => h ⟨hw.len_le, hw.cells_le⟩)

theorem VecSt.WF.len_le_cap {v : VecSt} (h : v.WF) : v.len ≤ v.cap :=
  Nat.le_trans h.len_le h.cells_le

theorem VecSt.abs_length {v : VecSt} (h : v.WF) : v.abs.length = v.len := by
  simp [VecSt.abs, h.len_le]

/-- both copy paths (`ptr::copy`, `copy_bytes`) are a memmove on the storage -/
theorem VecSt.moveElems_ok (v : VecSt) (erased : Bool) (src dst n : Nat)
    (hs : src + n ≤ v.cap) (hd : dst + n ≤ v.cap) :
    v.moveElems erased src dst n =
      .ok { v with cells := memmove (v.cells.ensure (max (src + n) (dst + n))) src dst n } := by
  simp only [VecSt.moveElems]
  rw [if_pos ⟨hs, hd⟩]
  cases erased
  · simp
  · simp only [if_true]
    rw [copyBytes_eq_memmove _ _ _ _ _ (by simp; omega) (by simp; omega)]

theorem VecSt.writeCell_ok (v : VecSt) (i : Nat) (c : Cell) (hi : i < v.cap) :
    v.writeCell i c = .ok { v with cells := (v.cells.ensure (i + 1)).set i c } := by
  simp [VecSt.writeCell, hi]

theorem VecSt.readElem_ok (v : VecSt) (i id : Nat) (hi : i < v.cap) (hc : v.cells.get i = .val id) :
    v.readElem i = .ok id := by
  simp [VecSt.readElem, hi, hc]

/-- a capacity change keeps every field but `cap`, `gen` and the (unmaterialised) tail -/
structure VecSt.SameElems (v v' : VecSt) : Prop where
  len : v'.len = v.len
  cells : v'.cells = v.cells
  ty : v'.ty = v.ty
  size : v'.size = v.size
  align : v'.align = v.align
  hasDrop : v'.hasDrop = v.hasDrop
  cloneable : v'.cloneable = v.cloneable
  bk : v'.bk = v.bk
  live : v'.live = v.live

theorem VecSt.SameElems.abs {v v' : VecSt} (h : v.SameElems v') : v'.abs = v.abs := by
  simp [VecSt.abs, h.len, h.cells]

theorem heapResize_spec (v v' : VecSt) (n : Nat) (es : List Event) (hwf : v.WF) (hn : v.len ≤ n)
    (h : v.heapResize n = .ok (v', es)) :
    v'.cap = n ∧ v'.len = v.len ∧ v'.abs = v.abs ∧ v'.WF ∧ v'.ty = v.ty ∧ v'.size = v.size ∧
    v'.align = v.align ∧ v'.hasDrop = v.hasDrop ∧ v'.cloneable = v.cloneable ∧ v'.bk = v.bk ∧
    v'.live = v.live := by
  have h1 := hwf.len_le; have h2 := hwf.cells_le
  unfold VecSt.heapResize at h
  split at h
  · cases h; simp_all
  · split at h
    · cases h
      refine ⟨rfl, rfl, ?_, ⟨?_, ?_⟩, rfl, rfl, rfl, rfl, rfl, rfl, rfl⟩
      · simp [VecSt.abs, List.take_take]; omega
      · simp; omega
      · simp; omega
    · split at h
      · cases h
        have : v.len = 0 := by omega
        refine ⟨by simp_all, rfl, ?_, ⟨?_, ?_⟩, rfl, rfl, rfl, rfl, rfl, rfl, rfl⟩
        · simp [VecSt.abs, this]
        · simp [this]
        · simp
      · split at h
        · split at h
          · cases h
          · cases h
            refine ⟨rfl, rfl, ?_, ⟨?_, ?_⟩, rfl, rfl, rfl, rfl, rfl, rfl, rfl⟩
            · simp [VecSt.abs, List.take_take]; omega
            · simp; omega
            · simp; omega
        · cases h
        · cases h

theorem relocResize_spec (v v' : VecSt) (n : Nat) (es : List Event) (hwf : v.WF) (hn : v.len ≤ n)
    (h : v.relocResize n = .ok (v', es)) :
    v'.cap = n ∧ v'.len = v.len ∧ v'.abs = v.abs ∧ v'.WF ∧ v'.ty = v.ty ∧ v'.size = v.size ∧
    v'.align = v.align ∧ v'.hasDrop = v.hasDrop ∧ v'.cloneable = v.cloneable ∧ v'.bk = v.bk ∧
    v'.live = v.live := by
  have h1 := hwf.len_le; have h2 := hwf.cells_le
  unfold VecSt.relocResize at h
  split at h
  · split at h
    · cases h
    · cases h
      refine ⟨rfl, rfl, ?_, ⟨?_, ?_⟩, rfl, rfl, rfl, rfl, rfl, rfl, rfl⟩
      · simp [VecSt.abs, List.take_take]; omega
      · simp; omega
      · simp; omega
  · cases h
  · cases h

theorem memResize_spec (v v' : VecSt) (n : Nat) (es : List Event) (hwf : v.WF) (hn : v.len ≤ n)
    (h : v.memResize n = .ok (v', es)) :
    v'.cap = n ∧ v'.len = v.len ∧ v'.abs = v.abs ∧ v'.WF ∧ v'.ty = v.ty ∧ v'.size = v.size ∧
    v'.align = v.align ∧ v'.hasDrop = v.hasDrop ∧ v'.cloneable = v.cloneable ∧ v'.bk = v.bk ∧
    v'.live = v.live := by
  unfold VecSt.memResize at h
  split at h
  · exact heapResize_spec v v' n es hwf hn h
  · exact relocResize_spec v v' n es hwf hn h
  · cases h

theorem checkedAdd_ok (a b r : Nat) (h : checkedAdd a b = .ok r) : r = a + b ∧ a + b ≤ USIZE_MAX := by
  unfold checkedAdd at h
  split at h
  · cases h; exact ⟨rfl, by assumption⟩
  · cases h

theorem checkedMul_ok (a b r : Nat) (h : checkedMul a b = .ok r) : r = a * b ∧ a * b ≤ USIZE_MAX := by
  unfold checkedMul at h
  split at h
  · cases h; exact ⟨rfl, by assumption⟩
  · cases h

theorem memExpand_spec (v v' : VecSt) (a : Nat) (es : List Event) (hwf : v.WF)
    (h : v.memExpand a = .ok (v', es)) :
    v.cap + a ≤ v'.cap ∧ v'.len = v.len ∧ v'.abs = v.abs ∧ v'.WF ∧ v'.ty = v.ty ∧ v'.size = v.size ∧
    v'.align = v.align ∧ v'.hasDrop = v.hasDrop ∧ v'.cloneable = v.cloneable ∧ v'.bk = v.bk ∧
    v'.live = v.live := by
  have hlc := hwf.len_le_cap
  unfold VecSt.memExpand at h
  split at h
  · -- heap
    cases hca : checkedAdd v.cap a with
    | ok r =>
      obtain ⟨hr, _⟩ := checkedAdd_ok _ _ _ hca
      rw [hca] at h
      have := heapResize_spec v v' _ es hwf (by omega) h
      obtain ⟨hc, rest⟩ := this
      exact ⟨by omega, rest⟩
    | panic m => rw [hca] at h; cases h
    | ub m => rw [hca] at h; cases h
  · -- reloc
    cases hca : checkedAdd v.cap a with
    | ok r =>
      obtain ⟨hr, _⟩ := checkedAdd_ok _ _ _ hca
      rw [hca] at h
      simp only at h
      split at h
      · rename_i v1 ev heq
        cases h
        have := relocResize_spec v v' _ ev hwf (by omega) heq
        obtain ⟨hc, rest⟩ := this
        exact ⟨by omega, rest⟩
      · cases h
      · cases h
    | panic m => rw [hca] at h; cases h
    | ub m => rw [hca] at h; cases h
  · cases h

theorem reserveOne_spec (v v' : VecSt) (es : List Event) (hwf : v.WF)
    (h : v.reserveOne = .ok (v', es)) :
    v'.len < v'.cap ∧ v'.len = v.len ∧ v'.abs = v.abs ∧ v'.WF ∧ v'.ty = v.ty ∧ v'.size = v.size ∧
    v'.align = v.align ∧ v'.hasDrop = v.hasDrop ∧ v'.cloneable = v.cloneable ∧ v'.bk = v.bk ∧
    v'.live = v.live := by
  have hlc := hwf.len_le_cap
  unfold VecSt.reserveOne at h
  split at h
  · have := memExpand_spec v v' 1 es hwf h
    obtain ⟨hc, hl, rest⟩ := this
    exact ⟨by omega, hl, rest⟩
  · cases h
    exact ⟨by omega, rfl, rfl, hwf, rfl, rfl, rfl, rfl, rfl, rfl, rfl⟩

end AnyVec

namespace AnyVec

def Cell.idOr0 : Cell → Nat
  | .val id => id
  | .uninit => 0

/-- slots `[i, i+k)` hold elements -/
def VecSt.InitRange (v : VecSt) (i k : Nat) : Prop := ∀ j, j < k → ∃ id, v.cells.get (i + j) = .val id

/-- every visible slot holds an element -/
def VecSt.Init (v : VecSt) : Prop := v.InitRange 0 v.len

/-- identities in slots `[i, i+k)` -/
def VecSt.idsRange (v : VecSt) (i k : Nat) : List Nat := (List.range k).map (fun j => (v.cells.get (i + j)).idOr0)

/-- identities of the visible elements, in order -/
def VecSt.ids (v : VecSt) : List Nat := v.idsRange 0 v.len

@[simp] theorem VecSt.idsRange_length (v : VecSt) (i k : Nat) : (v.idsRange i k).length = k := by
  simp [VecSt.idsRange]

theorem VecSt.idsRange_get (v : VecSt) (i k j : Nat) (hj : j < k) (h : v.InitRange i k) :
    v.cells.get (i + j) = .val ((v.idsRange i k).getD j 0) := by
  obtain ⟨id, hid⟩ := h j hj
  simp [VecSt.idsRange, List.getD_eq_getElem?_getD, hj, hid, Cell.idOr0]

theorem VecSt.abs_eq_ids (v : VecSt) (hwf : v.WF) (h : v.Init) : v.abs = v.ids.map Cell.val := by
  have h1 := hwf.len_le
  apply List.ext_getElem?
  intro k
  simp only [VecSt.abs, VecSt.ids, VecSt.idsRange, List.getElem?_take, List.getElem?_map, List.getElem?_range]
  by_cases hk : k < v.len
  · obtain ⟨id, hid⟩ := h k hk
    have hk2 : k < v.cells.length := by omega
    simp [Mem.get, List.getD_eq_getElem?_getD, hk2] at hid
    simp [hk, hk2, Mem.get, List.getD_eq_getElem?_getD, hid, Cell.idOr0]
  · simp [hk]

end AnyVec

namespace AnyVec

theorem heapResize_cells (v v' : VecSt) (n : Nat) (es : List Event) (h : v.heapResize n = .ok (v', es))
    (hn : v.cells.length ≤ n) : v'.cells = v.cells := by
  unfold VecSt.heapResize at h
  split at h
  · cases h; rfl
  · split at h
    · cases h; simp [List.take_of_length_le hn]
    · split at h
      · cases h
        rename_i h0
        subst h0
        simp at hn ⊢
        exact hn
      · split at h
        · split at h
          · cases h
          · cases h; simp [List.take_of_length_le hn]
        · cases h
        · cases h

theorem relocResize_cells (v v' : VecSt) (n : Nat) (es : List Event) (h : v.relocResize n = .ok (v', es))
    (hn : v.cells.length ≤ n) : v'.cells = v.cells := by
  unfold VecSt.relocResize at h
  split at h
  · split at h
    · cases h
    · cases h; simp [List.take_of_length_le hn]
  · cases h
  · cases h

/-- growing the storage keeps *every* materialised slot (also those past `len`, which hold the
not yet yielded range and the tail while a drain/splice is alive) -/
theorem memExpand_cells (v v' : VecSt) (a : Nat) (es : List Event) (hwf : v.cells.length ≤ v.cap)
    (h : v.memExpand a = .ok (v', es)) : v'.cells = v.cells := by
  unfold VecSt.memExpand at h
  split at h
  · cases hca : checkedAdd v.cap a with
    | ok r =>
      obtain ⟨hr, _⟩ := checkedAdd_ok _ _ _ hca
      rw [hca] at h
      exact heapResize_cells v v' _ es h (by omega)
    | panic m => rw [hca] at h; cases h
    | ub m => rw [hca] at h; cases h
  · cases hca : checkedAdd v.cap a with
    | ok r =>
      obtain ⟨hr, _⟩ := checkedAdd_ok _ _ _ hca
      rw [hca] at h
      simp only at h
      split at h
      · rename_i v1 ev heq
        cases h
        exact relocResize_cells v v' _ ev heq (by omega)
      · cases h
      · cases h
    | panic m => rw [hca] at h; cases h
    | ub m => rw [hca] at h; cases h
  · cases h

theorem reserve_cells (v v' : VecSt) (n : Nat) (es : List Event) (hwf : v.cells.length ≤ v.cap)
    (h : v.reserve n = .ok (v', es)) : v'.cells = v.cells := by
  unfold VecSt.reserve at h
  cases hca : checkedAdd v.len n with
  | ok r =>
    rw [hca] at h
    simp only at h
    split at h
    · exact memExpand_cells v v' _ es hwf h
    · cases h; rfl
  | panic m => rw [hca] at h; cases h
  | ub m => rw [hca] at h; cases h

theorem reserve_full (v v' : VecSt) (n : Nat) (es : List Event) (hwf : v.WF) (h : v.reserve n = .ok (v', es)) :
    v.len + n ≤ v'.cap ∧ v'.len = v.len ∧ v'.cells = v.cells ∧ v'.WF ∧ v'.ty = v.ty ∧
      v'.hasDrop = v.hasDrop ∧ v'.live = v.live ∧ v'.size = v.size := by
  have hc := reserve_cells v v' n es hwf.cells_le h
  unfold VecSt.reserve at h
  cases hca : checkedAdd v.len n with
  | ok r0 =>
    obtain ⟨hr0, _⟩ := checkedAdd_ok _ _ _ hca
    rw [hca] at h
    simp only at h
    split at h
    · obtain ⟨hcap, hl, _, hw, hty, hsz, _, hdr, _, _, hlv⟩ := memExpand_spec v v' _ es hwf h
      exact ⟨by omega, hl, hc, hw, hty, hdr, hlv, hsz⟩
    · cases h
      exact ⟨by omega, rfl, rfl, hwf, rfl, rfl, rfl, rfl⟩
  | panic m => rw [hca] at h; cases h
  | ub m => rw [hca] at h; cases h

/-- a prefix of the storage, slot by slot -/
theorem take_ext (m : Mem) (n : Nat) (l : List Cell) (hl : l.length = n) (hm : n ≤ m.length)
    (h : ∀ k, k < n → m.get k = (l[k]?).getD Cell.uninit) : m.take n = l := by
  apply List.ext_getElem?
  intro k
  simp only [List.getElem?_take]
  by_cases hk : k < n
  · have := h k hk
    have hk2 : k < m.length := by omega
    have hk3 : k < l.length := by omega
    simp only [Mem.get_eq, List.getElem?_eq_getElem hk2, List.getElem?_eq_getElem hk3, Option.getD_some] at this
    simp [hk, List.getElem?_eq_getElem hk2, List.getElem?_eq_getElem hk3, this]
  · have : l[k]? = none := by simp; omega
    simp [hk, this]

end AnyVec
