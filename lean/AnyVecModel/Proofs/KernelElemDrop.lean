/- Kernel tie: `impl Drop for ElementPointer` (src/element.rs): an owned drained element that goes out of scope runs the
erased destructor on exactly its own slot, once. See KernelMoveBase. -/
import AnyVecModel.Proofs.KernelMoveBase
namespace AnyVec
namespace KernelTie
open World Gen.Kernel

theorem element_drop_tie (w : World) (v slot : Nat) (d : VecSt) (hv : w.vecs[v]? = some d) (hl : d.live = true) :
    element_drop_cmds slot d.hasDrop = (if d.hasDrop then [.dropFn slot 1] else []) ∧
    valDrop d.hasDrop (.elem v slot) w =
      (if d.hasDrop then runCmds { v := v } (element_drop_cmds slot d.hasDrop)
       else do let id ← readElem v slot; dropElem false id) w := by
  constructor
  · cases d.hasDrop <;> rfl
  · unfold valDrop element_drop_cmds
    simp only [WM.bind_apply, getVec_ok w v d hv hl]
    cases hd : d.hasDrop
    · simp only [Bool.false_eq_true, if_false, WM.bind_apply]
    · simp only [if_true, runCmds, runCmd, dropLoop, WM.bind_apply]
      cases readElem v slot w with
      | mk w1 r =>
        cases r with
        | ok id =>
          simp only
          cases dropElem true id w1 with
          | mk w2 r2 => cases r2 <;> rfl
        | panic m => rfl
        | ub m => rfl

end KernelTie
end AnyVec
