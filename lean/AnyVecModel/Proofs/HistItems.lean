/-
  Range iterators whose items go to *any* sink but `swap` (dropped, forgotten, downcast, inspected, moved
  into another vector, lazily cloned ×k into another vector), under any fault state.
  While a `Drain`/`Splice` is alive its vector shows only the prefix; the elements it still accounts for
  (prefix, not yet yielded part of the range, tail, replacement values) are tracked as a *virtual* content.
-/
import AnyVecModel.Proofs.HistSwap
namespace AnyVec
open World

/-- everything the world knows, with vector `v`'s visible elements replaced by `virt` -/
def World.vall (w : World) (v : Nat) (virt : List Cell) : List Cell :=
  ((w.vecs.map VecSt.abs).set v virt).flatten ++ (w.held.map Cell.val ++ w.dropLog.map Cell.val) ++
    w.pendingRaw.map Cell.val

/-- the world invariant while vector `v` (currently `dcur`) is borrowed by a range iterator that still
accounts for the elements `virt` -/
structure VInv (w : World) (v : Nat) (dcur : VecSt) (virt : List Cell) : Prop where
  vec : w.vecs[v]? = some dcur
  good : ∀ (u : Nat) (x : VecSt), u ≠ v → w.vecs[u]? = some x → x.Good
  nodup : (w.vall v virt).Nodup
  bound : ∀ id, Cell.val id ∈ w.vall v virt → id < w.created

theorem vall_count (w : World) (v : Nat) (dcur : VecSt) (virt : List Cell) (hv : w.vecs[v]? = some dcur) (a : Cell) :
    (w.vall v virt).count a + dcur.abs.count a = w.all.count a + virt.count a := by
  have h := flatten_set_split (w.vecs.map VecSt.abs) v dcur.abs virt (by simp [hv])
  simp only [World.vall, World.all, World.owned, World.allVis]
  rw [h.2]
  conv => rhs; rw [h.1]
  simp only [List.count_append]
  omega

theorem nodup_of_count_le {α} [DecidableEq α] (l : List α) (h : ∀ a, l.count a ≤ 1) : l.Nodup :=
  List.nodup_iff_count.mpr h

theorem count_le_of_nodup {α} [DecidableEq α] (l : List α) (h : l.Nodup) (a : α) : l.count a ≤ 1 :=
  List.nodup_iff_count.mp h a

/-- entering the borrowed state: `v` is replaced by whatever the iterator leaves visible (`dcur`), its
elements (plus `k` fresh values created for the call) become the virtual content -/
theorem VInv.start (w : World) (h : w.Inv) (v : Nat) (d dcur : VecSt) (k : Nat) (hv : w.vecs[v]? = some d)
    (virt : List Cell) (hvirt : virt.Perm (freshCells w.created k ++ d.abs)) :
    VInv ((w.bumpN k).upd v dcur) v dcur virt := by
  have hvlt : v < w.vecs.length := (List.getElem?_eq_some_iff.mp hv).1
  have hfresh : ∀ a, (freshCells w.created k).count a ≤ 1 ∧
      ((freshCells w.created k).count a = 1 → w.all.count a = 0) := by
    intro a
    have hn : (freshCells w.created k).Nodup := by
      unfold freshCells
      exact List.Pairwise.map Cell.val (fun a b hab hc => hab (by cases hc; rfl)) List.nodup_range'
    refine ⟨count_le_of_nodup _ hn a, ?_⟩
    intro h1
    have hmem : a ∈ freshCells w.created k := List.count_pos_iff.mp (by omega)
    obtain ⟨id, hid, rfl⟩ := List.mem_map.mp hmem
    have hge := (List.mem_range'_1.mp hid).1
    cases hz : w.all.count (Cell.val id) with
    | zero => rfl
    | succ n =>
      have : Cell.val id ∈ w.all := List.count_pos_iff.mp (by omega)
      have := h.bound id this
      omega
  have hvec : ((w.bumpN k).upd v dcur).vecs[v]? = some dcur := by simp [World.bumpN, hvlt]
  have hcount : ∀ a, (((w.bumpN k).upd v dcur).vall v virt).count a = w.all.count a + (freshCells w.created k).count a := by
    intro a
    have h1 := vall_count ((w.bumpN k).upd v dcur) v dcur virt hvec a
    have h2 := vall_count w v d d.abs hv a
    have h3 : (((w.bumpN k).upd v dcur).vall v virt) = (w.vall v virt) := by
      simp [World.vall, World.bumpN, World.upd, List.map_set, List.set_set]
    have h4 := vall_count w v d virt hv a
    have h5 := hvirt.count_eq a
    have h6 : (w.vall v d.abs) = w.all := by
      simp only [World.vall, World.all, World.owned, World.allVis]
      have : (w.vecs.map VecSt.abs).set v d.abs = w.vecs.map VecSt.abs := by
        apply List.ext_getElem?
        intro j
        by_cases hj : v = j
        · subst hj; simp [hvlt, hv, (List.getElem?_eq_some_iff.mp hv).2]
        · simp [List.getElem?_set, hj]
      rw [this]
    rw [h3]
    simp only [List.count_append] at h5
    omega
  refine ⟨hvec, ?_, ?_, ?_⟩
  · intro u x hu hx
    have : ((w.bumpN k).upd v dcur).vecs[u]? = w.vecs[u]? := by
      show (w.vecs.set v dcur)[u]? = _; rw [List.getElem?_set_ne (Ne.symm hu)]
    rw [this] at hx; exact h.good u x hx
  · apply nodup_of_count_le
    intro a
    rw [hcount a]
    have := count_le_of_nodup _ h.nodup a
    have := hfresh a
    omega
  · intro id hid
    have hpos : 0 < (((w.bumpN k).upd v dcur).vall v virt).count (Cell.val id) := List.count_pos_iff.mpr hid
    rw [hcount] at hpos
    show id < w.created + k
    by_cases h1 : 0 < w.all.count (Cell.val id)
    · have := h.bound id (List.count_pos_iff.mp h1); omega
    · have : Cell.val id ∈ freshCells w.created k := List.count_pos_iff.mp (by omega)
      obtain ⟨i, hi, e⟩ := List.mem_map.mp this
      cases e
      have := (List.mem_range'_1.mp hi).2
      omega

theorem VInv.mono {w : World} {v : Nat} {dcur : VecSt} {virt virt' : List Cell} (h : VInv w v dcur virt)
    (hle : Leq virt' virt) : VInv w v dcur virt' := by
  have hc : ∀ a, (w.vall v virt').count a ≤ (w.vall v virt).count a := by
    intro a
    have h1 := vall_count w v dcur virt h.vec a
    have h2 := vall_count w v dcur virt' h.vec a
    have h3 := hle.count_le a
    omega
  refine ⟨h.vec, h.good, ?_, ?_⟩
  · apply nodup_of_count_le
    intro a
    have := count_le_of_nodup _ h.nodup a
    have := hc a
    omega
  · intro id hid
    have hpos : 0 < (w.vall v virt').count (Cell.val id) := List.count_pos_iff.mpr hid
    have := hc (Cell.val id)
    exact h.bound id (List.count_pos_iff.mp (by omega))

/-- leaving the borrowed state: the iterator's `Drop` (or `forget`) left `d'` in place of `v` and
destroyed / handed back `dl`, `pl`; all of it comes out of the virtual content -/
theorem VInv.finish {w1 w' : World} {v : Nat} {dcur d' : VecSt} {virt : List Cell} (h : VInv w1 v dcur virt)
    (dl pl : List Nat)
    (he : w'.erase = { (w1.upd v d').erase with dropLog := dl ++ w1.dropLog, pendingRaw := pl ++ w1.pendingRaw })
    (hgood : d'.Good) (hleq : Leq (d'.abs ++ (dl ++ pl).map Cell.val) virt) : w'.Inv := by
  have hvlt : v < w1.vecs.length := (List.getElem?_eq_some_iff.mp h.vec).1
  have e1 : w'.vecs = w1.vecs.set v d' := by have := congrArg World.vecs he; exact this
  have e2 : w'.created = w1.created := by have := congrArg World.created he; exact this
  have e3 : w'.dropLog = dl ++ w1.dropLog := by have := congrArg World.dropLog he; exact this
  have e4 : w'.held = w1.held := by have := congrArg World.held he; exact this
  have e5 : w'.pendingRaw = pl ++ w1.pendingRaw := by have := congrArg World.pendingRaw he; exact this
  have hv' : w'.vecs[v]? = some d' := by rw [e1]; simp [hvlt]
  have hcount : ∀ a, w'.all.count a ≤ (w1.vall v virt).count a := by
    intro a
    have h1 := vall_count w' v d' d'.abs hv' a
    have h2 : (w'.vall v d'.abs).count a + (virt.count a) =
        (w1.vall v virt).count a + d'.abs.count a + ((dl ++ pl).map Cell.val).count a := by
      simp only [World.vall, e1, e3, e4, e5, List.map_set, List.set_set, List.map_append, List.count_append]
      have s1 := flatten_set_split (w1.vecs.map VecSt.abs) v dcur.abs d'.abs (by simp [h.vec])
      have s2 := flatten_set_split (w1.vecs.map VecSt.abs) v dcur.abs virt (by simp [h.vec])
      rw [s1.2, s2.2]
      simp only [List.count_append]
      omega
    have h3 := hleq.count_le a
    simp only [List.map_append, List.count_append] at h3
    have h4 : (w'.vall v d'.abs).count a = w'.all.count a := by omega
    simp only [List.map_append, List.count_append] at h2
    omega
  refine ⟨?_, ?_, ?_⟩
  · intro u x hx
    by_cases hu : u = v
    · subst hu; rw [hv'] at hx; cases hx; exact hgood
    · rw [e1, List.getElem?_set_ne (Ne.symm hu)] at hx
      exact h.good u x hu hx
  · apply nodup_of_count_le
    intro a
    have := count_le_of_nodup _ h.nodup a
    have := hcount a
    omega
  · intro id hid
    have hpos : 0 < w'.all.count (Cell.val id) := List.count_pos_iff.mpr hid
    have := hcount (Cell.val id)
    rw [e2]
    exact h.bound id (List.count_pos_iff.mp (by omega))


/-- every vector that was alive still is (range-iterator items never drop a vector) -/
def LivePres (w w' : World) : Prop :=
  ∀ (u : Nat) (du : VecSt), w.vecs[u]? = some du → du.live = true → ∃ du', w'.vecs[u]? = some du' ∧ du'.live = true

theorem LivePres.refl (w : World) : LivePres w w := fun _ du h1 h2 => ⟨du, h1, h2⟩
theorem LivePres.trans {a b c : World} (h1 : LivePres a b) (h2 : LivePres b c) : LivePres a c := by
  intro u du hu hl
  obtain ⟨d1, q1, q2⟩ := h1 u du hu hl
  exact h2 u d1 q1 q2
theorem LivePres.of_vecs_eq {w w' : World} (e : w'.vecs = w.vecs) : LivePres w w' := by
  intro u du hu hl; exact ⟨du, by rw [e]; exact hu, hl⟩
theorem LivePres.of_set {w w' : World} (u : Nat) (du' : VecSt) (e : w'.vecs = w.vecs.set u du') (hl' : du'.live = true) :
    LivePres w w' := by
  intro x dx hx hl
  by_cases hxu : u = x
  · subst hxu
    have : u < w.vecs.length := (List.getElem?_eq_some_iff.mp hx).1
    exact ⟨du', by rw [e]; simp [this], hl'⟩
  · exact ⟨dx, by rw [e, List.getElem?_set_ne hxu]; exact hx, hl⟩

/-- a step that leaves all vectors alone: values move from the virtual content to the caller / the log -/
theorem VInv.step_same {w w' : World} {v : Nat} {dcur : VecSt} {virt : List Cell} (h : VInv w v dcur virt)
    (virt' : List Cell) (hl dl : List Nat)
    (he : w'.erase = { w.erase with held := hl ++ w.held, dropLog := dl ++ w.dropLog })
    (hleq : Leq ((hl ++ dl).map Cell.val ++ virt') virt) : VInv w' v dcur virt' := by
  have e1 : w'.vecs = w.vecs := by have := congrArg World.vecs he; exact this
  have e2 : w'.created = w.created := by have := congrArg World.created he; exact this
  have e3 : w'.dropLog = dl ++ w.dropLog := by have := congrArg World.dropLog he; exact this
  have e4 : w'.held = hl ++ w.held := by have := congrArg World.held he; exact this
  have e5 : w'.pendingRaw = w.pendingRaw := by have := congrArg World.pendingRaw he; exact this
  have hc : ∀ a, (w'.vall v virt').count a ≤ (w.vall v virt).count a := by
    intro a
    have h3 := hleq.count_le a
    have s1 := flatten_set_split (w.vecs.map VecSt.abs) v dcur.abs virt (by simp [h.vec])
    have s2 := flatten_set_split (w.vecs.map VecSt.abs) v dcur.abs virt' (by simp [h.vec])
    simp only [World.vall, e1, e3, e4, e5, List.map_append, List.count_append] at h3 ⊢
    rw [s1.2, s2.2]
    simp only [List.count_append]
    omega
  refine ⟨by rw [e1]; exact h.vec, by rw [e1]; exact h.good, ?_, ?_⟩
  · apply nodup_of_count_le
    intro a
    have := count_le_of_nodup _ h.nodup a
    have := hc a
    omega
  · intro id hid
    have hpos : 0 < (w'.vall v virt').count (Cell.val id) := List.count_pos_iff.mpr hid
    have := hc (Cell.val id)
    rw [e2]
    exact h.bound id (List.count_pos_iff.mp (by omega))

/-- a step that changes one *other* vector `u` (and may create `k` identities) -/
theorem VInv.step_other {w w' : World} {v : Nat} {dcur : VecSt} {virt : List Cell} (h : VInv w v dcur virt)
    (u : Nat) (du du' : VecSt) (hne : v ≠ u) (hu : w.vecs[u]? = some du) (virt' : List Cell) (k : Nat) (hl dl : List Nat)
    (he : w'.erase = { (w.upd u du').erase with
                        created := w.created + k, held := hl ++ w.held, dropLog := dl ++ w.dropLog })
    (hgood : du'.Good)
    (hleq : Leq (du'.abs ++ (hl ++ dl).map Cell.val ++ virt') (freshCells w.created k ++ du.abs ++ virt)) :
    VInv w' v dcur virt' := by
  have hult : u < w.vecs.length := (List.getElem?_eq_some_iff.mp hu).1
  have e1 : w'.vecs = w.vecs.set u du' := by have := congrArg World.vecs he; exact this
  have e2 : w'.created = w.created + k := by have := congrArg World.created he; exact this
  have e3 : w'.dropLog = dl ++ w.dropLog := by have := congrArg World.dropLog he; exact this
  have e4 : w'.held = hl ++ w.held := by have := congrArg World.held he; exact this
  have e5 : w'.pendingRaw = w.pendingRaw := by have := congrArg World.pendingRaw he; exact this
  have hvec' : w'.vecs[v]? = some dcur := by rw [e1, List.getElem?_set_ne (Ne.symm hne)]; exact h.vec
  have hc : ∀ a, (w'.vall v virt').count a ≤ (w.vall v virt).count a + (freshCells w.created k).count a := by
    intro a
    have h3 := hleq.count_le a
    have hu2 : ((w.vecs.map VecSt.abs).set v virt)[u]? = some du.abs := by
      rw [List.getElem?_set_ne hne]; simp [hu]
    have hu3 : ((w.vecs.map VecSt.abs).set v virt')[u]? = some du.abs := by
      rw [List.getElem?_set_ne hne]; simp [hu]
    have s0 := flatten_set_split ((w.vecs.map VecSt.abs).set v virt') u du.abs du'.abs hu3
    have s1 := flatten_set_split (w.vecs.map VecSt.abs) v dcur.abs virt (by simp [h.vec])
    have s2 := flatten_set_split (w.vecs.map VecSt.abs) v dcur.abs virt' (by simp [h.vec])
    have hcomm : ((w.vecs.set u du').map VecSt.abs).set v virt' = ((w.vecs.map VecSt.abs).set v virt').set u du'.abs := by
      rw [List.map_set, set_set_comm _ u v _ _ (Ne.symm hne)]
    simp only [World.vall, e1, e3, e4, e5, List.map_append, List.count_append] at h3 ⊢
    rw [hcomm, s0.2]
    have c0 := congrArg (List.count a) s0.1
    have c1 := congrArg (List.count a) s1.2
    have c2 := congrArg (List.count a) s2.2
    simp only [List.count_append] at c0 c1 c2 ⊢
    omega
  have hfr : ∀ a, (freshCells w.created k).count a ≤ 1 ∧
      (0 < (freshCells w.created k).count a → (w.vall v virt).count a = 0 ∧ ∃ id, a = Cell.val id ∧ w.created ≤ id ∧ id < w.created + k) := by
    intro a
    have hn : (freshCells w.created k).Nodup := by
      unfold freshCells
      exact List.Pairwise.map Cell.val (fun a b hab hc => hab (by cases hc; rfl)) List.nodup_range'
    refine ⟨count_le_of_nodup _ hn a, ?_⟩
    intro h1
    have hmem : a ∈ freshCells w.created k := List.count_pos_iff.mp h1
    obtain ⟨id, hid, rfl⟩ := List.mem_map.mp hmem
    have hge := List.mem_range'_1.mp hid
    refine ⟨?_, id, rfl, hge.1, hge.2⟩
    cases hz : (w.vall v virt).count (Cell.val id) with
    | zero => rfl
    | succ n =>
      have := h.bound id (List.count_pos_iff.mp (by omega))
      omega
  refine ⟨hvec', ?_, ?_, ?_⟩
  · intro x y hx hy
    by_cases hxu : x = u
    · subst hxu; rw [e1] at hy; simp [hult] at hy; subst hy; exact hgood
    · rw [e1, List.getElem?_set_ne (Ne.symm hxu)] at hy; exact h.good x y hx hy
  · apply nodup_of_count_le
    intro a
    have := count_le_of_nodup _ h.nodup a
    have := hc a
    have := hfr a
    omega
  · intro id hid
    have hpos : 0 < (w'.vall v virt').count (Cell.val id) := List.count_pos_iff.mpr hid
    have := hc (Cell.val id)
    rw [e2]
    by_cases h1 : 0 < (w.vall v virt).count (Cell.val id)
    · have := h.bound id (List.count_pos_iff.mp h1); omega
    · obtain ⟨_, id', e, _, hlt⟩ := (hfr (Cell.val id)).2 (by omega)
      cases e; exact hlt


theorem VInv.step_same' {w w' : World} {v : Nat} {dcur : VecSt} {virt : List Cell} (h : VInv w v dcur virt)
    (virt' : List Cell) (hl dl : List Nat)
    (he : w'.erase = { w.erase with held := hl ++ w.held, dropLog := dl ++ w.dropLog })
    (hleq : Leq ((hl ++ dl).map Cell.val ++ virt') virt) : VInv w' v dcur virt' ∧ LivePres w w' :=
  ⟨h.step_same virt' hl dl he hleq, LivePres.of_vecs_eq (by have := congrArg World.vecs he; exact this)⟩

theorem VInv.step_other' {w w' : World} {v : Nat} {dcur : VecSt} {virt : List Cell} (h : VInv w v dcur virt)
    (u : Nat) (du du' : VecSt) (hne : v ≠ u) (hu : w.vecs[u]? = some du) (virt' : List Cell) (k : Nat) (hl dl : List Nat)
    (he : w'.erase = { (w.upd u du').erase with
                        created := w.created + k, held := hl ++ w.held, dropLog := dl ++ w.dropLog })
    (hgood : du'.Good) (hlive : du'.live = true)
    (hleq : Leq (du'.abs ++ (hl ++ dl).map Cell.val ++ virt') (freshCells w.created k ++ du.abs ++ virt)) :
    VInv w' v dcur virt' ∧ LivePres w w' :=
  ⟨h.step_other u du du' hne hu virt' k hl dl he hgood hleq,
   LivePres.of_set u du' (by have := congrArg World.vecs he; exact this) hlive⟩

/-- a drained item that the destination refuses: it is destroyed while unwinding -/
theorem elem_reject_v {α} (w : World) (v slot : Nat) (dcur : VecSt) (id : Nat) (virt' : List Cell) (b : Bool)
    (h : VInv w v dcur (Cell.val id :: virt')) (hl : dcur.live = true) (hb : slot < dcur.cap)
    (hc : dcur.cells.get slot = .val id) (m : WM α) (s : String) (hm : m w = ({ w with fault := none }, .panic s)) :
    (VInv (WM.onUnwind m (valDrop b (.elem v slot)) w).1 v dcur virt' ∧ LivePres w (WM.onUnwind m (valDrop b (.elem v slot)) w).1) ∧
      ∃ m', (WM.onUnwind m (valDrop b (.elem v slot)) w).2 = .panic m' := by
  have hvf : ({ w with fault := none } : World).vecs[v]? = some dcur := h.vec
  have hread : readElem v slot { w with fault := none } = ({ w with fault := none }, .ok id) := by
    simp only [readElem, WM.bind_apply, getVec_ok _ v dcur hvf hl, WM.lift, VecSt.readElem_ok dcur slot id hb hc]
  obtain ⟨e1, e5⟩ := dropElem_erase dcur.hasDrop id { w with fault := none }
  have hvd : valDrop b (.elem v slot) { w with fault := none } = dropElem dcur.hasDrop id { w with fault := none } := by
    simp only [valDrop, WM.bind_apply, getVec_ok _ v dcur hvf hl, hread]
  rw [onUnwind_after_panic m _ w { w with fault := none } s hm (by rw [hvd]; exact e5)]
  rw [hvd]
  refine ⟨h.step_same' virt' [] [id] ?_ (by simpa using Leq.refl _), ⟨s, rfl⟩⟩
  rw [e1]; rfl

/-- `dst.push(item)` for a drained item of the borrowed vector -/
theorem push_elem_v (w : World) (v u slot : Nat) (dcur du : VecSt) (id : Nat) (virt' : List Cell)
    (h : VInv w v dcur (Cell.val id :: virt')) (hl : dcur.live = true) (hb : slot < dcur.cap)
    (hc : dcur.cells.get slot = .val id) (hne : v ≠ u) (hu : w.vecs[u]? = some du) (hlu : du.live = true) :
    (VInv (push u (.elem v slot) w).1 v dcur virt' ∧ LivePres w (push u (.elem v slot) w).1) ∧
      ((push u (.elem v slot) w).2 = .ok () ∨ ∃ m, (push u (.elem v slot) w).2 = .panic m) := by
  have hgu := h.good u du (Ne.symm hne) hu
  have hult : u < w.vecs.length := (List.getElem?_eq_some_iff.mp hu).1
  by_cases hte : dcur.ty = du.ty
  · cases hr : du.reserveOne with
    | ok p =>
      obtain ⟨du1, es⟩ := p
      obtain ⟨hroom, hlen1, ha, hw1, _, _, _, _, _, _, hlive1⟩ := reserveOne_spec du du1 es hgu.wf hr
      have hl1 : du1.live = true := by rw [hlive1]; exact hlu
      have hg1 : du1.Good := VecSt.good_of_abs_eq hgu hw1 ha
      let wa : World := { w.upd u du1 with ev := es.reverse ++ w.ev }
      have evo : vecOp u VecSt.reserveOne w = (wa, .ok ()) := by
        simp only [vecOp, WM.bind_apply, getVec_ok w u du hu hlu, hr, WM.lift_ok, setVec_apply, World.emit_apply]
        rfl
      have hua : wa.vecs[u]? = some du1 := by simp [wa, hult]
      have hva : wa.vecs[v]? = some dcur := by
        show (w.vecs.set u du1)[v]? = _; rw [List.getElem?_set_ne (Ne.symm hne)]; exact h.vec
      have hread : readElem v slot wa = (wa, .ok id) := by
        simp only [readElem, WM.bind_apply, getVec_ok wa v dcur hva hl, WM.lift, VecSt.readElem_ok dcur slot id hb hc]
      have e : push u (.elem v slot) w =
          ({ wa with vecs := wa.vecs.set u (du1.pushCell (.val id)) }, .ok ()) := by
        simp only [push, WM.bind_apply, getVec_ok w u du hu hlu, valTy, getVec_ok w v dcur h.vec hl, WM.pure_apply,
          hte, ne_eq, not_true_eq_false, if_false, pushUnchecked, WM.onUnwind, evo, getVec_ok wa u du1 hua hl1,
          valMoveInto, hread, World.writeCell, WM.lift, VecSt.writeCell_ok du1 du1.len _ hroom, setVec_apply]
        simp [World.upd, VecSt.pushCell, hult, wa, getVec, hl1]
      rw [e]
      refine ⟨h.step_other' u du (du1.pushCell (.val id)) hne hu virt' 0 [] [] ?_ (du1.pushCell_good id hg1 hroom) hl1 ?_, Or.inl rfl⟩
      · simp [World.upd, wa, World.erase]
      · rw [VecSt.pushCell_abs du1 _ hw1, ha, Leq_iff_count]
        intro a
        simp only [List.map_nil, List.append_nil, List.count_append, List.count_cons, List.count_nil, freshCells,
          List.range'_zero]
        omega
    | panic m =>
      have hm := vecOp_panic w u du VecSt.reserveOne m hu hlu hr
      obtain ⟨hv', m', hp⟩ := elem_reject_v w v slot dcur id virt' du.hasDrop h hl hb hc (vecOp u VecSt.reserveOne) m hm
      have e : push u (.elem v slot) w = ((WM.onUnwind (vecOp u VecSt.reserveOne) (valDrop du.hasDrop (.elem v slot)) w).1, .panic m') := by
        simp only [push, WM.bind_apply, getVec_ok w u du hu hlu, valTy, getVec_ok w v dcur h.vec hl, WM.pure_apply,
          hte, ne_eq, not_true_eq_false, if_false, pushUnchecked]
        cases hou : WM.onUnwind (vecOp u VecSt.reserveOne) (valDrop du.hasDrop (.elem v slot)) w with
        | mk w1 res => rw [hou] at hp; simp only at hp; subst hp; rfl
      rw [e]
      exact ⟨hv', Or.inr ⟨m', rfl⟩⟩
    | ub m => have := reserveOne_notUb du; rw [hr] at this; exact this.elim
  · obtain ⟨hv', m', hp⟩ := elem_reject_v w v slot dcur id virt' du.hasDrop h hl hb hc (WM.panic "Type mismatch!" : WM Unit) _ rfl
    have e : push u (.elem v slot) w = WM.onUnwind (WM.panic "Type mismatch!") (valDrop du.hasDrop (.elem v slot)) w := by
      simp only [push, WM.bind_apply, getVec_ok w u du hu hlu, valTy, getVec_ok w v dcur h.vec hl, WM.pure_apply,
        hte, ne_eq, not_false_eq_true, if_true]
    rw [e]
    exact ⟨hv', Or.inr ⟨m', hp⟩⟩


/-- `dst.insert(j, item)` for a drained item of the borrowed vector -/
theorem insert_elem_v (w : World) (v u slot j : Nat) (dcur du : VecSt) (id : Nat) (virt' : List Cell)
    (h : VInv w v dcur (Cell.val id :: virt')) (hl : dcur.live = true) (hb : slot < dcur.cap)
    (hc : dcur.cells.get slot = .val id) (hne : v ≠ u) (hu : w.vecs[u]? = some du) (hlu : du.live = true) :
    (VInv (World.insert u j (.elem v slot) w).1 v dcur virt' ∧ LivePres w (World.insert u j (.elem v slot) w).1) ∧
      ((World.insert u j (.elem v slot) w).2 = .ok () ∨ ∃ m, (World.insert u j (.elem v slot) w).2 = .panic m) := by
  have hgu := h.good u du (Ne.symm hne) hu
  have hult : u < w.vecs.length := (List.getElem?_eq_some_iff.mp hu).1
  by_cases hte : dcur.ty = du.ty
  · have e0 : World.insert u j (.elem v slot) w = insertUnchecked u j (.elem v slot) w := by
      simp only [World.insert, WM.bind_apply, getVec_ok w u du hu hlu, valTy, getVec_ok w v dcur h.vec hl, WM.pure_apply,
        hte, ne_eq, not_true_eq_false, if_false]
    rw [e0]
    by_cases hj : j ≤ du.len
    · have hnot : ¬ j > du.len := by omega
      cases hr : du.reserveOne with
      | ok p =>
        obtain ⟨du1, es⟩ := p
        obtain ⟨hroom, hlen1, ha, hw1, _, _, _, _, _, _, hlive1⟩ := reserveOne_spec du du1 es hgu.wf hr
        have hl1 : du1.live = true := by rw [hlive1]; exact hlu
        have hg1 : du1.Good := VecSt.good_of_abs_eq hgu hw1 ha
        let wa : World := { w.upd u du1 with ev := es.reverse ++ w.ev }
        have evo : vecOp u VecSt.reserveOne w = (wa, .ok ()) := by
          simp only [vecOp, WM.bind_apply, getVec_ok w u du hu hlu, hr, WM.lift_ok, setVec_apply, World.emit_apply]
          rfl
        have hua : wa.vecs[u]? = some du1 := by simp [wa, hult]
        have hb1 : j + (du1.len - j) ≤ du1.cap := by omega
        have hb2 : j + 1 + (du1.len - j) ≤ du1.cap := by omega
        have hb3 : j < du1.cap := by omega
        let dus : VecSt :=
          { du1 with
              len := j,
              cells := memmove (du1.cells.ensure (max (j + (du1.len - j)) (j + 1 + (du1.len - j)))) j (j + 1) (du1.len - j) }
        let ws : World := wa.upd u dus
        have hmove : moveElems u true j (j + 1) (du1.len - j) (wa.upd u { du1 with len := j }) = (ws, .ok ()) := by
          have hu2 : (wa.upd u { du1 with len := j }).vecs[u]? = some { du1 with len := j } := by
            show ((w.vecs.set u du1).set u _)[u]? = _; simp [hult]
          simp only [WM.bind_apply, moveElems, getVec_ok _ u _ hu2 (by show du1.live = true; exact hl1), WM.lift,
            VecSt.moveElems_ok { du1 with len := j } true j (j + 1) (du1.len - j) hb1 hb2, setVec_apply, World.upd_upd]
          rfl
        have hvs : ws.vecs[v]? = some dcur := by
          show ((w.vecs.set u du1).set u dus)[v]? = _
          rw [List.getElem?_set_ne (Ne.symm hne), List.getElem?_set_ne (Ne.symm hne)]; exact h.vec
        have hus : ws.vecs[u]? = some dus := by
          show ((w.vecs.set u du1).set u dus)[u]? = _; simp [hult]
        have hread : readElem v slot ws = (ws, .ok id) := by
          simp only [readElem, WM.bind_apply, getVec_ok ws v dcur hvs hl, WM.lift, VecSt.readElem_ok dcur slot id hb hc]
        have e : insertUnchecked u j (.elem v slot) w =
            ({ ws with vecs := ws.vecs.set u (du1.insertAt j (.val id)) }, .ok ()) := by
          simp only [insertUnchecked, WM.bind_apply, getVec_ok w u du hu hlu, hnot, if_false, WM.onUnwind, evo,
            getVec_ok wa u du1 hua hl1, valKnownType, Bool.not_false, setLen, setVec_apply, hmove,
            valMoveInto, hread, World.writeCell, getVec_ok ws u dus hus (by show du1.live = true; exact hl1), WM.lift,
            VecSt.writeCell_ok dus j _ (by show j < du1.cap; exact hb3)]
          have hm : max (j + (du1.len - j)) (j + 1 + (du1.len - j)) = j + 1 + (du1.len - j) := by omega
          simp [World.upd, hult, ws, wa, dus, VecSt.insertAt, getVec, hl1, hm]
        rw [e]
        obtain ⟨hgood, hperm⟩ := du1.insertAt_good j id hg1 (by omega) hroom
        refine ⟨h.step_other' u du _ hne hu virt' 0 [] [] ?_ hgood hl1 ?_, Or.inl rfl⟩
        · simp [World.upd, ws, wa, World.erase]
        · rw [Leq_iff_count]
          intro a
          have q := hperm.count_eq a
          rw [ha] at q
          simp only [List.map_nil, List.append_nil, List.count_append, List.count_cons, List.count_nil, freshCells,
            List.range'_zero] at q ⊢
          omega
      | panic m =>
        have hm := vecOp_panic w u du VecSt.reserveOne m hu hlu hr
        obtain ⟨hv', m', hp⟩ := elem_reject_v w v slot dcur id virt' du.hasDrop h hl hb hc (vecOp u VecSt.reserveOne) m hm
        have e : insertUnchecked u j (.elem v slot) w =
            ((WM.onUnwind (vecOp u VecSt.reserveOne) (valDrop du.hasDrop (.elem v slot)) w).1, .panic m') := by
          simp only [insertUnchecked, WM.bind_apply, getVec_ok w u du hu hlu, hnot, if_false]
          cases hou : WM.onUnwind (vecOp u VecSt.reserveOne) (valDrop du.hasDrop (.elem v slot)) w with
          | mk w1 res => rw [hou] at hp; simp only at hp; subst hp; rfl
        rw [e]
        exact ⟨hv', Or.inr ⟨m', rfl⟩⟩
      | ub m => have := reserveOne_notUb du; rw [hr] at this; exact this.elim
    · have hgt : j > du.len := by omega
      obtain ⟨hv', m', hp⟩ := elem_reject_v w v slot dcur id virt' du.hasDrop h hl hb hc
        (WM.panic "Index out of range!" : WM Unit) _ rfl
      have e : insertUnchecked u j (.elem v slot) w =
          WM.onUnwind (WM.panic "Index out of range!") (valDrop du.hasDrop (.elem v slot)) w := by
        simp only [insertUnchecked, WM.bind_apply, getVec_ok w u du hu hlu, hgt, if_true]
      rw [e]
      exact ⟨hv', Or.inr ⟨m', hp⟩⟩
  · obtain ⟨hv', m', hp⟩ := elem_reject_v w v slot dcur id virt' du.hasDrop h hl hb hc (WM.panic "Type mismatch!" : WM Unit) _ rfl
    have e : World.insert u j (.elem v slot) w = WM.onUnwind (WM.panic "Type mismatch!") (valDrop du.hasDrop (.elem v slot)) w := by
      simp only [World.insert, WM.bind_apply, getVec_ok w u du hu hlu, valTy, getVec_ok w v dcur h.vec hl, WM.pure_apply,
        hte, ne_eq, not_false_eq_true, if_true]
    rw [e]
    exact ⟨hv', Or.inr ⟨m', hp⟩⟩


/-- `dst.push(item.lazy_clone())`: the item stays where it is, `dst` gets a fresh clone (or nothing) -/
theorem push_lazyElem_v (w : World) (v u slot : Nat) (dcur du : VecSt) (id : Nat) (virt : List Cell)
    (h : VInv w v dcur virt) (hl : dcur.live = true) (hb : slot < dcur.cap)
    (hc : dcur.cells.get slot = .val id) (hne : v ≠ u) (hu : w.vecs[u]? = some du) (hlu : du.live = true) :
    (VInv (push u (.lazyElem v slot) w).1 v dcur virt ∧ LivePres w (push u (.lazyElem v slot) w).1) ∧
      (∃ du', (push u (.lazyElem v slot) w).1.vecs[u]? = some du' ∧ du'.live = true) ∧
      ((push u (.lazyElem v slot) w).2 = .ok () ∨ ∃ m, (push u (.lazyElem v slot) w).2 = .panic m) := by
  have hgu := h.good u du (Ne.symm hne) hu
  have hult : u < w.vecs.length := (List.getElem?_eq_some_iff.mp hu).1
  have hsame : ∀ (w2 : World), w2.erase = w.erase → (VInv w2 v dcur virt ∧ LivePres w w2) ∧ ∃ du', w2.vecs[u]? = some du' ∧ du'.live = true := by
    intro w2 he
    have e1 : w2.vecs = w.vecs := by have := congrArg World.vecs he; exact this
    exact ⟨h.step_same' virt [] [] (by rw [he]; rfl) (by simpa using Leq.refl _), du, by rw [e1]; exact hu, hlu⟩
  by_cases hte : dcur.ty = du.ty
  · cases hr : du.reserveOne with
    | ok p =>
      obtain ⟨du1, es⟩ := p
      obtain ⟨hroom, hlen1, ha, hw1, _, _, _, _, _, _, hlive1⟩ := reserveOne_spec du du1 es hgu.wf hr
      have hl1 : du1.live = true := by rw [hlive1]; exact hlu
      have hg1 : du1.Good := VecSt.good_of_abs_eq hgu hw1 ha
      let wa : World := { w.upd u du1 with ev := es.reverse ++ w.ev }
      have evo : vecOp u VecSt.reserveOne w = (wa, .ok ()) := by
        simp only [vecOp, WM.bind_apply, getVec_ok w u du hu hlu, hr, WM.lift_ok, setVec_apply, World.emit_apply]
        rfl
      have hua : wa.vecs[u]? = some du1 := by simp [wa, hult]
      have hva : wa.vecs[v]? = some dcur := by
        show (w.vecs.set u du1)[v]? = _; rw [List.getElem?_set_ne (Ne.symm hne)]; exact h.vec
      have hVa' := h.step_other' u du du1 hne hu virt 0 [] [] (w' := wa) (by simp [World.upd, wa, World.erase]) hg1 hl1
        (by rw [ha]; simpa [freshCells] using Leq.refl _)
      have hVa : VInv wa v dcur virt := hVa'.1
      have hread : readElem v slot wa = (wa, .ok id) := by
        simp only [readElem, WM.bind_apply, getVec_ok wa v dcur hva hl, WM.lift, VecSt.readElem_ok dcur slot id hb hc]
      obtain ⟨f', htk | ⟨m, htk⟩⟩ := tick_shape wa
      · let du2 : VecSt := du1.pushCell (.val wa.created)
        have e : push u (.lazyElem v slot) w =
            ({ wa with vecs := wa.vecs.set u du2, created := wa.created + 1, ev := Event.clone id wa.created :: wa.ev,
                       fault := f' }, .ok ()) := by
          have hvf : ∀ (ev : List Event), ({ wa with created := wa.created + 1, ev := ev, fault := f' } : World).vecs[u]? = some du1 :=
            fun _ => hua
          simp only [push, WM.bind_apply, getVec_ok w u du hu hlu, valTy, getVec_ok w v dcur h.vec hl, WM.pure_apply,
            hte, ne_eq, not_true_eq_false, if_false, pushUnchecked, WM.onUnwind, evo, getVec_ok wa u du1 hua hl1,
            valMoveInto, hread, cloneElem, htk, fresh, WM.modify_apply,
            World.writeCell, getVec_ok _ u du1 (hvf _) hl1, WM.lift, VecSt.writeCell_ok du1 du1.len _ hroom, setVec_apply]
          simp [World.upd, du2, VecSt.pushCell, hult, wa, getVec, hl1]
        have hu2 : (wa.vecs.set u du2)[u]? = some du2 := by
          have : u < wa.vecs.length := by show u < (w.vecs.set u du1).length; simpa using hult
          simp [this]
        rw [e]
        have hstep2 := hVa.step_other' u du1 du2 hne hua virt 1 [] []
          (w' := { wa with vecs := wa.vecs.set u du2, created := wa.created + 1, ev := Event.clone id wa.created :: wa.ev, fault := f' })
          (by simp [World.upd, World.erase]) (du1.pushCell_good _ hg1 hroom) hl1 ?_
        · exact ⟨⟨hstep2.1, hVa'.2.trans hstep2.2⟩, ⟨du2, hu2, hl1⟩, Or.inl rfl⟩
        · rw [VecSt.pushCell_abs du1 _ hw1, Leq_iff_count]
          intro a
          simp only [List.map_nil, List.append_nil, List.count_append, List.count_cons, List.count_nil, freshCells,
            List.range'_one, List.map_cons, List.map_nil]
          omega
      · have e : push u (.lazyElem v slot) w = ({ wa with fault := f' }, .panic m) := by
          simp only [push, WM.bind_apply, getVec_ok w u du hu hlu, valTy, getVec_ok w v dcur h.vec hl, WM.pure_apply,
            hte, ne_eq, not_true_eq_false, if_false, pushUnchecked, WM.onUnwind, evo, getVec_ok wa u du1 hua hl1,
            valMoveInto, hread, cloneElem, htk]
        rw [e]
        have hs2 := hVa.step_same' virt [] [] (w' := { wa with fault := f' }) rfl (by simpa using Leq.refl _)
        exact ⟨⟨hs2.1, hVa'.2.trans hs2.2⟩, ⟨du1, hua, hl1⟩, Or.inr ⟨m, rfl⟩⟩
    | panic m =>
      have hm := vecOp_panic w u du VecSt.reserveOne m hu hlu hr
      have e : push u (.lazyElem v slot) w = ({ w with fault := none }, .panic m) := by
        simp only [push, WM.bind_apply, getVec_ok w u du hu hlu, valTy, getVec_ok w v dcur h.vec hl, WM.pure_apply,
          hte, ne_eq, not_true_eq_false, if_false, pushUnchecked, WM.onUnwind, hm, valDrop]
      rw [e]
      obtain ⟨q1, q2⟩ := hsame { w with fault := none } rfl
      exact ⟨q1, q2, Or.inr ⟨m, rfl⟩⟩
    | ub m => have := reserveOne_notUb du; rw [hr] at this; exact this.elim
  · have e : push u (.lazyElem v slot) w = ({ w with fault := none }, .panic "Type mismatch!") := by
      simp only [push, WM.bind_apply, getVec_ok w u du hu hlu, valTy, getVec_ok w v dcur h.vec hl, WM.pure_apply,
        hte, ne_eq, not_false_eq_true, if_true, WM.onUnwind, WM.panic_apply, valDrop]
    rw [e]
    obtain ⟨q1, q2⟩ := hsame { w with fault := none } rfl
    exact ⟨q1, q2, Or.inr ⟨_, rfl⟩⟩

theorem pushTimes_lazyElem_v (v u slot : Nat) (dcur : VecSt) (id : Nat) (virt : List Cell) (hl : dcur.live = true)
    (hb : slot < dcur.cap) (hc : dcur.cells.get slot = .val id) (hne : v ≠ u) (n : Nat) :
    ∀ (w : World) (du : VecSt), VInv w v dcur virt → w.vecs[u]? = some du → du.live = true →
    (VInv (pushTimes u (.lazyElem v slot) n w).1 v dcur virt ∧ LivePres w (pushTimes u (.lazyElem v slot) n w).1) ∧
      ((pushTimes u (.lazyElem v slot) n w).2 = .ok () ∨ ∃ m, (pushTimes u (.lazyElem v slot) n w).2 = .panic m) := by
  induction n with
  | zero => intro w du h _ _; exact ⟨⟨h, LivePres.refl w⟩, Or.inl rfl⟩
  | succ n ih =>
    intro w du h hu hlu
    obtain ⟨h1, ⟨du', hu', hl'⟩, hres⟩ := push_lazyElem_v w v u slot dcur du id virt h hl hb hc hne hu hlu
    simp only [pushTimes, WM.bind_apply]
    cases hp : push u (.lazyElem v slot) w with
    | mk w1 res =>
      rw [hp] at h1 hu' hres
      simp only at h1 hu' hres
      rcases hres with hok | ⟨m, hpan⟩
      · subst hok
        obtain ⟨⟨i1, i2⟩, i3⟩ := ih w1 du' h1.1 hu' hl'
        exact ⟨⟨i1, h1.2.trans i2⟩, i3⟩
      · subst hpan; exact ⟨h1, Or.inr ⟨m, rfl⟩⟩


/-- what the type system / borrow checker guarantee about the sink of a drained item (erased items
only may be moved or lazily cloned into another, live vector); value swaps are not covered here -/
def Sink.ValidItem (vs : List VecSt) (v : Nat) (typed : Bool) : Sink → Prop
  | .pushTo u => typed = false ∧ v ≠ u ∧ ∃ du, vs[u]? = some du ∧ du.live = true
  | .insertTo u _ => typed = false ∧ v ≠ u ∧ ∃ du, vs[u]? = some du ∧ du.live = true
  | .lazyTo u _ => typed = false ∧ v ≠ u ∧ ∃ du, vs[u]? = some du ∧ du.live = true
  | .swapVal _ => False
  | _ => True

theorem Sink.ValidItem.mono {w w' : World} (hp : LivePres w w') {v : Nat} {typed : Bool} {k : Sink}
    (h : k.ValidItem w.vecs v typed) : k.ValidItem w'.vecs v typed := by
  cases k <;> first
    | exact h
    | (obtain ⟨h1, h2, du, h3, h4⟩ := h
       obtain ⟨du', q1, q2⟩ := hp _ du h3 h4
       exact ⟨h1, h2, du', q1, q2⟩)

/-- **a drained item given to any sink (but `swap`), under any fault state** -/
theorem sinkElem_v (cfg : Cfg) (w : World) (v slot : Nat) (typed : Bool) (k : Sink) (dcur : VecSt) (id : Nat)
    (virt' : List Cell) (h : VInv w v dcur (Cell.val id :: virt')) (hl : dcur.live = true) (hb : slot < dcur.cap)
    (hc : dcur.cells.get slot = .val id) (hk : k.ValidItem w.vecs v typed) :
    (VInv (sinkElem cfg v slot typed k w).1 v dcur virt' ∧ LivePres w (sinkElem cfg v slot typed k w).1) ∧
      ((∃ o, (sinkElem cfg v slot typed k w).2 = .ok o) ∨ ∃ m, (sinkElem cfg v slot typed k w).2 = .panic m) := by
  have hread : readElem v slot w = (w, .ok id) := by
    simp only [readElem, WM.bind_apply, getVec_ok w v dcur h.vec hl, WM.lift, VecSt.readElem_ok dcur slot id hb hc]
  have hcore : k.Core → _ := fun hkc => sinkElem_core cfg w v slot typed k dcur id hkc h.vec hl hb hc
  have fromCore : k.Core →
      (VInv (sinkElem cfg v slot typed k w).1 v dcur virt' ∧ LivePres w (sinkElem cfg v slot typed k w).1) ∧
      ((∃ o, (sinkElem cfg v slot typed k w).2 = .ok o) ∨ ∃ m, (sinkElem cfg v slot typed k w).2 = .panic m) := by
    intro hkc
    obtain ⟨hl1, dl1, hleq1, he1, hres1⟩ := hcore hkc
    refine ⟨h.step_same' virt' hl1 dl1 he1 ?_, hres1⟩
    have := hleq1.map Cell.val
    rw [Leq_iff_count] at this ⊢
    intro a
    have q := this a
    simp only [List.map_append, List.count_append, List.count_cons, List.map_cons, List.map_nil, List.count_nil] at q ⊢
    omega
  cases k with
  | drop => exact fromCore trivial
  | forget => exact fromCore trivial
  | downcast ty => exact fromCore trivial
  | info => exact fromCore trivial
  | swapVal ty => exact hk.elim
  | pushTo u =>
    obtain ⟨ht, hne, du, hu, hlu⟩ := hk
    subst ht
    have hne' : ¬ u = v := fun e => hne e.symm
    obtain ⟨hv', hres⟩ := push_elem_v w v u slot dcur du id virt' h hl hb hc hne hu hlu
    simp only [sinkElem, WM.bind_apply, getVec_ok w v dcur h.vec hl, hne', Bool.or_false, decide_false,
      Bool.false_eq_true, if_false, hread, WM.pure_apply]
    cases hp : push u (.elem v slot) w with
    | mk w1 res =>
      rw [hp] at hv' hres
      simp only at hv' hres
      rcases hres with hok | ⟨m, hpan⟩
      · subst hok; exact ⟨hv', Or.inl ⟨_, rfl⟩⟩
      · subst hpan; exact ⟨hv', Or.inr ⟨m, rfl⟩⟩
  | insertTo u j =>
    obtain ⟨ht, hne, du, hu, hlu⟩ := hk
    subst ht
    have hne' : ¬ u = v := fun e => hne e.symm
    obtain ⟨hv', hres⟩ := insert_elem_v w v u slot j dcur du id virt' h hl hb hc hne hu hlu
    simp only [sinkElem, WM.bind_apply, getVec_ok w v dcur h.vec hl, hne', Bool.or_false, decide_false,
      Bool.false_eq_true, if_false, hread, WM.pure_apply]
    cases hp : World.insert u j (.elem v slot) w with
    | mk w1 res =>
      rw [hp] at hv' hres
      simp only at hv' hres
      rcases hres with hok | ⟨m, hpan⟩
      · subst hok; exact ⟨hv', Or.inl ⟨_, rfl⟩⟩
      · subst hpan; exact ⟨hv', Or.inr ⟨m, rfl⟩⟩
  | lazyTo u n =>
    obtain ⟨ht, hne, du, hu, hlu⟩ := hk
    subst ht
    have hne' : ¬ u = v := fun e => hne e.symm
    obtain ⟨⟨hv1, hp1⟩, hres⟩ := pushTimes_lazyElem_v v u slot dcur id (Cell.val id :: virt') hl hb hc hne n w du h hu hlu
    simp only [sinkElem, WM.bind_apply, getVec_ok w v dcur h.vec hl, hne', Bool.or_false, decide_false,
      Bool.false_eq_true, if_false, hread, WM.onUnwind, WM.pure_apply]
    cases hp : pushTimes u (.lazyElem v slot) n w with
    | mk w1 res =>
      rw [hp] at hv1 hp1 hres
      simp only at hv1 hp1 hres
      obtain ⟨e1, e5⟩ := dropElem_erase dcur.hasDrop id w1
      have hfin := hv1.step_same' virt' [] [id] e1 (by simpa using Leq.refl _)
      cases hde : dropElem dcur.hasDrop id w1 with
      | mk w2 res2 =>
        rw [hde] at hfin e5
        simp only at hfin e5
        rcases hres with hok | ⟨m, hpan⟩
        · subst hok
          simp only [hde]
          rcases e5 with h2 | ⟨m2, h2⟩ <;> subst h2
          · exact ⟨⟨hfin.1, hp1.trans hfin.2⟩, Or.inl ⟨_, rfl⟩⟩
          · exact ⟨⟨hfin.1, hp1.trans hfin.2⟩, Or.inr ⟨m2, rfl⟩⟩
        · subst hpan
          simp only [hde]
          rcases e5 with h2 | ⟨m2, h2⟩ <;> subst h2 <;>
            exact ⟨⟨hfin.1, hp1.trans hfin.2⟩, Or.inr ⟨m, rfl⟩⟩


/-- what a range iterator in state `it` still accounts for in its vector -/
def virtAbs (d : VecSt) (s e : Nat) (it : RangeIt) : List Cell :=
  seg d.abs 0 s ++ seg d.abs it.index it.end_ ++ seg d.abs e d.len

theorem drainDrop_spec (d : VecSt) (hg : d.Good) (hl : d.live = true) (v : Nat) (typed : Bool) (s e : Nat)
    (hse : s ≤ e) (hel : e ≤ d.len) : PanicSpec d v typed s e [] drainDrop := by
  intro it w1 hit hv
  have hw1 := hg.wf.len_le; have hw2 := hg.wf.cells_le
  have hvit : w1.vecs[it.v]? = some (d.draining s) := by rw [hit.v_eq]; exact hv
  obtain ⟨dl, hleq, hcase⟩ := drainDrop_any w1 it (d.draining s) hvit hl
    (by rw [hit.start_eq]; exact hit.h1) hit.h2 (by rw [hit.end0_eq]; exact hit.h3)
    (by rw [hit.end0_eq, hit.orig_eq]; exact hel) (by rw [hit.orig_eq]; exact hw1) hw2
    (VecSt.initRange_of_good d hg it.index (it.end_ - it.index) (by have := hit.h3; have := hit.h2; omega))
  have hseg : (d.idsRange it.index (it.end_ - it.index)).map Cell.val = seg d.abs it.index it.end_ := by
    have := idsRange_map_seg d hg it.index (it.end_ - it.index) (by have := hit.h3; have := hit.h2; omega)
    rw [this, show it.index + (it.end_ - it.index) = it.end_ by have := hit.h2; omega]
  have hleq' : Leq (dl.map Cell.val) (seg d.abs it.index it.end_) := by rw [← hseg]; exact hleq.map Cell.val
  rcases hcase with ⟨hok, he⟩ | ⟨⟨m, hp⟩, he⟩
  · refine ⟨(d.draining s).drainClose s e d.len, dl, [], ?_, d.drainClosed_good hg s e hse hel, ?_, Or.inl hok⟩
    · rw [he]; simp [hit.v_eq, hit.start_eq, hit.end0_eq, hit.orig_eq]
    · rw [d.drainClosed_abs hg s e hse hel, Leq_iff_count] at *
      intro a
      have q := hleq' a
      simp only [List.map_nil, List.append_nil, List.nil_append, List.count_append] at q ⊢
      omega
  · refine ⟨d.draining s, dl, [], ?_, d.draining_good hg s (by omega), ?_, Or.inr ⟨m, hp⟩⟩
    · rw [he, World.upd_self w1 v _ hv]; simp
    · rw [d.draining_abs s (by omega), Leq_iff_count] at *
      intro a
      have q := hleq' a
      simp only [List.map_nil, List.append_nil, List.nil_append, List.count_append] at q ⊢
      omega

/-- a `PanicSpec` in terms of the virtual invariant: the iterator's `Drop` re-establishes the world invariant -/
theorem PanicSpec.toV {d : VecSt} {v : Nat} {typed : Bool} {s e : Nat} {L : List Nat} {onPanic : RangeIt → WM Unit}
    (hspec : PanicSpec d v typed s e L onPanic) (it : RangeIt) (w1 : World) (hit : ItOk d v typed s e it)
    (hV : VInv w1 v (d.draining s) (L.map Cell.val ++ virtAbs d s e it)) :
    (onPanic it w1).1.Inv ∧ ((onPanic it w1).2 = .ok () ∨ ∃ m, (onPanic it w1).2 = .panic m) := by
  obtain ⟨d', dl, pl, he, hgood, hleq, hres⟩ := hspec it w1 hit hV.vec
  exact ⟨hV.finish dl pl he hgood hleq, hres⟩

/-- the consumption loop with items going to any sink (but `swap`) -/
theorem eatLoop_v (cfg : Cfg) (d : VecSt) (hg : d.Good) (hl : d.live = true) (v : Nat) (typed : Bool)
    (s e : Nat) (hse : s ≤ e) (hel : e ≤ d.len) (L : List Nat) (onPanic : RangeIt → WM Unit)
    (hspec : PanicSpec d v typed s e L onPanic) (eats : List (End × Sink)) :
    ∀ (w : World) (it : RangeIt) (out : Out), ItOk d v typed s e it →
      VInv w v (d.draining s) (L.map Cell.val ++ virtAbs d s e it) →
      (∀ p ∈ eats, p.2.ValidItem w.vecs v typed) →
    (∃ it' o, (eatLoop cfg onPanic it eats out w).2 = .ok (it', o) ∧ ItOk d v typed s e it' ∧
        VInv (eatLoop cfg onPanic it eats out w).1 v (d.draining s) (L.map Cell.val ++ virtAbs d s e it')) ∨
    (∃ m, (eatLoop cfg onPanic it eats out w).2 = .panic m ∧ (eatLoop cfg onPanic it eats out w).1.Inv) := by
  have hw1 := hg.wf.len_le; have hw2 := hg.wf.cells_le
  induction eats with
  | nil =>
    intro w it out hit hV _
    exact Or.inl ⟨it, out, rfl, hit, hV⟩
  | cons p rest ih =>
    intro w it out hit hV hvalid
    obtain ⟨en, k⟩ := p
    have hk := hvalid (en, k) List.mem_cons_self
    have hstepc : (Cursor.mk it.index it.end_).step en = (none, Cursor.mk it.index it.end_) ∧ it.index = it.end_ ∨
        ∃ slot i' e', (Cursor.mk it.index it.end_).step en = (some slot, Cursor.mk i' e') ∧
          it.index ≤ slot ∧ slot < it.end_ ∧ it.index ≤ i' ∧ i' ≤ e' ∧ e' ≤ it.end_ ∧
          ((slot = it.index ∧ i' = it.index + 1 ∧ e' = it.end_) ∨ (slot = it.end_ - 1 ∧ i' = it.index ∧ e' = it.end_ - 1)) := by
      have := hit.h2
      cases en with
      | front =>
        by_cases hc : it.index = it.end_
        · left; simp [Cursor.step, Cursor.next, hc]
        · right
          refine ⟨it.index, it.index + 1, it.end_, by simp [Cursor.step, Cursor.next, hc], ?_⟩
          omega
      | back =>
        by_cases hc : it.end_ = it.index
        · left; simp [Cursor.step, Cursor.nextBack, hc]
        · right
          refine ⟨it.end_ - 1, it.index, it.end_ - 1, by simp [Cursor.step, Cursor.nextBack, hc], ?_⟩
          omega
    rcases hstepc with ⟨hnone, _⟩ | ⟨slot, i', e', hsome, b1, b2, b3, b4, b5, hshape⟩
    · simp only [eatLoop, hnone]
      exact ih w it _ hit hV (fun q hq => hvalid q (List.mem_cons_of_mem _ hq))
    · simp only [eatLoop, hsome]
      have hit' : ItOk d v typed s e { it with index := i', end_ := e' } :=
        ⟨hit.v_eq, hit.typed_eq, hit.start_eq, hit.end0_eq, hit.orig_eq, by have := hit.h1; simp; omega, by simpa using b4,
          by have := hit.h3; simp; omega⟩
      have hslot_len : slot < d.len := by have := hit.h3; omega
      obtain ⟨id, hc⟩ := hg.get slot hslot_len
      obtain ⟨hgetlt, hget⟩ := d.abs_get slot id hg.wf hslot_len hc
      have hsegsplit : ∀ a, (seg d.abs it.index it.end_).count a =
          (seg d.abs i' e').count a + ([Cell.val id] : List Cell).count a := by
        intro a
        rcases hshape with ⟨r1, r2, r3⟩ | ⟨r1, r2, r3⟩
        · subst r1 r2 r3
          rw [seg_split d.abs it.index (it.index + 1) it.end_ (by omega) (by omega),
            seg_single d.abs it.index hgetlt, hget, List.count_append]
          omega
        · subst r2 r3
          rw [seg_split d.abs it.index (it.end_ - 1) it.end_ (by omega) (by omega), List.count_append]
          have : it.end_ - 1 + 1 = it.end_ := by omega
          have h9 := seg_single d.abs (it.end_ - 1) (by rw [← r1]; exact hgetlt)
          rw [this] at h9
          rw [h9]
          have : d.abs[it.end_ - 1]'(by rw [← r1]; exact hgetlt) = Cell.val id := by
            have := hget; subst r1; exact this
          rw [this]
      -- the yielded item leaves the virtual content
      have hV1 : VInv w v (d.draining s) (Cell.val id :: (L.map Cell.val ++ virtAbs d s e { it with index := i', end_ := e' })) := by
        refine hV.mono ?_
        rw [Leq_iff_count]
        intro a
        have q := hsegsplit a
        simp only [virtAbs, List.count_append, List.count_cons, List.count_nil] at q ⊢
        omega
      have hvit : it.v = v := hit.v_eq
      obtain ⟨⟨hV2, hlp⟩, hres⟩ := sinkElem_v cfg w it.v slot it.typed k (d.draining s) id _ (by rw [hvit]; exact hV1) hl
        (by show slot < d.cap; omega) (by show d.cells.get slot = _; exact hc) (by rw [hvit, hit.typed_eq]; exact hk)
      simp only [WM.bind_apply, WM.onUnwind]
      cases hsk : sinkElem cfg it.v slot it.typed k w with
      | mk w1 res =>
        rw [hsk] at hV2 hlp hres
        simp only at hV2 hlp hres
        rw [hvit] at hV2
        rcases hres with ⟨o, hok⟩ | ⟨m, hp⟩
        · subst hok
          simp only
          exact ih w1 { it with index := i', end_ := e' } _ hit' hV2
            (fun q hq => Sink.ValidItem.mono hlp (hvalid q (List.mem_cons_of_mem _ hq)))
        · subst hp
          simp only
          obtain ⟨hinv, hr⟩ := hspec.toV { it with index := i', end_ := e' } w1 hit' hV2
          cases hdd : onPanic { it with index := i', end_ := e' } w1 with
          | mk w2 res2 =>
            rw [hdd] at hinv hr
            simp only at hinv hr
            rcases hr with h2 | ⟨m2, h2⟩ <;> subst h2 <;> exact Or.inr ⟨m, rfl, hinv⟩


theorem virtAbs_start (d : VecSt) (hg : d.Good) (s e : Nat) (hse : s ≤ e) (hel : e ≤ d.len) (it : RangeIt)
    (hi : it.index = s) (he : it.end_ = e) : (virtAbs d s e it).Perm d.abs := by
  rw [List.perm_iff_count]
  intro a
  have := abs_three d hg s e hse hel a
  simp only [virtAbs, hi, he, List.count_append]
  omega

theorem bumpN_zero (w : World) : w.bumpN 0 = w := rfl

/-- **`drain` with items going to any sink but `swap`, under any fault state** -/
theorem step_drain_v (cfg : Cfg) (w : World) (v : Nat) (lo hi : Bnd) (typed : Bool) (eats : List (End × Sink))
    (fin : Fin) (d : VecSt) (h : w.Inv) (hv : w.vecs[v]? = some d) (hl : d.live = true)
    (hvalid : ∀ p ∈ eats, p.2.ValidItem w.vecs v typed) :
    (step cfg (.drain v lo hi typed eats fin) w).1.Inv ∧ (step cfg (.drain v lo hi typed eats fin) w).2.notUb := by
  have hlt : v < w.vecs.length := (List.getElem?_eq_some_iff.mp hv).1
  have hg := h.good v d hv
  have hw1 := hg.wf.len_le; have hw2 := hg.wf.cells_le
  rcases intoRange_cases d.len lo hi with ⟨s, e, hr, hse, hel⟩ | ⟨m, hr⟩
  · let it : RangeIt := { v := v, typed := typed, start := s, end0 := e, origLen := d.len, index := s, end_ := e }
    have hit : ItOk d v typed s e it := ⟨rfl, rfl, rfl, rfl, rfl, Nat.le_refl _, hse, Nat.le_refl _⟩
    have hV0 : VInv (w.upd v (d.draining s)) v (d.draining s) (([] : List Nat).map Cell.val ++ virtAbs d s e it) := by
      have := VInv.start w h v d (d.draining s) 0 hv (([] : List Nat).map Cell.val ++ virtAbs d s e it)
        (by simpa [freshCells] using virtAbs_start d hg s e hse hel it rfl rfl)
      rw [bumpN_zero] at this; exact this
    have hvalid0 : ∀ p ∈ eats, p.2.ValidItem (w.upd v (d.draining s)).vecs v typed := by
      intro p hp
      exact Sink.ValidItem.mono (LivePres.of_set v (d.draining s) rfl hl) (hvalid p hp)
    have hspec := drainDrop_spec d hg hl v typed s e hse hel
    have hloop := eatLoop_v cfg d hg hl v typed s e hse hel [] drainDrop hspec eats (w.upd v (d.draining s)) it
      [toString (e - s)] hit hV0 hvalid0
    have hstep : step cfg (.drain v lo hi typed eats fin) w =
        match eatLoop cfg drainDrop it eats [toString (e - s)] (w.upd v (d.draining s)) with
        | (w', .ok (it', out)) =>
          (match fin with
            | .drop => (do drainDrop it'; pure out : WM Out)
            | .forget => (pure out : WM Out)) w'
        | (w', .panic s) => (w', .panic s)
        | (w', .ub s) => (w', .ub s) := by
      simp only [step, drain, WM.bind_apply, getVec_ok w v d hv hl, hr, WM.lift_ok, setLen, setVec_apply]
      cases hel' : eatLoop cfg drainDrop it eats [toString (e - s)] (w.upd v (d.draining s)) with
      | mk w1 res =>
        have hel'' : eatLoop cfg drainDrop
            { v := v, typed := typed, start := s, end0 := e, origLen := d.len, index := s, end_ := e } eats
            [toString (e - s)] (w.upd v { d with len := s }) = (w1, res) := hel'
        rw [hel'']
        cases res with
        | ok p => obtain ⟨it', out⟩ := p; cases fin <;> rfl
        | panic _ => rfl
        | ub _ => rfl
    rw [hstep]
    cases hel' : eatLoop cfg drainDrop it eats [toString (e - s)] (w.upd v (d.draining s)) with
    | mk w1 res =>
      rw [hel'] at hloop
      simp only at hloop
      rcases hloop with ⟨it', o, r1, r2, r3⟩ | ⟨m, r1, r2⟩
      · subst r1
        simp only
        cases fin with
        | forget =>
          simp only [WM.pure_apply]
          refine ⟨r3.finish (d' := d.draining s) [] [] ?_ (d.draining_good hg s (by omega)) ?_, trivial⟩
          · rw [World.upd_self w1 v _ r3.vec]; rfl
          · rw [d.draining_abs s (by omega), Leq_iff_count]
            intro a
            simp only [virtAbs, List.map_nil, List.append_nil, List.nil_append, List.count_append]
            omega
        | drop =>
          obtain ⟨hinv, hr⟩ := hspec.toV it' w1 r2 r3
          simp only [WM.bind_apply, WM.pure_apply]
          cases hdd : drainDrop it' w1 with
          | mk w2 res2 =>
            rw [hdd] at hinv hr
            simp only at hinv hr
            rcases hr with h2 | ⟨m2, h2⟩ <;> subst h2 <;> exact ⟨hinv, trivial⟩
      · subst r1
        exact ⟨r2, trivial⟩
  · have e : step cfg (.drain v lo hi typed eats fin) w = ({ w with fault := none }, .panic m) := by
      simp only [step, drain, WM.bind_apply, getVec_ok w v d hv hl, hr, WM.lift]
    rw [e]; exact ⟨h.of_erase rfl, trivial⟩


/-- **`splice` with items going to any sink but `swap`, plain replacement values of any types, any claimed
length, under any fault state** -/
theorem step_splice_v (cfg : Cfg) (w : World) (v : Nat) (lo hi : Bnd) (typed : Bool) (repl : List Src) (claim : Int)
    (eats : List (End × Sink)) (fin : Fin) (d : VecSt) (h : w.Inv) (hv : w.vecs[v]? = some d) (hl : d.live = true)
    (hrepl : ∀ r ∈ repl, r.Plain) (hvalid : ∀ p ∈ eats, p.2.ValidItem w.vecs v typed) :
    (step cfg (.splice v lo hi typed repl claim eats fin) w).1.Inv ∧
      (step cfg (.splice v lo hi typed repl claim eats fin) w).2.notUb := by
  have hlt : v < w.vecs.length := (List.getElem?_eq_some_iff.mp hv).1
  have hg := h.good v d hv
  obtain ⟨vals, hp, hmk⟩ := mkVals_plains cfg repl hrepl w
  let claimed := ((vals.length : Int) + claim).toNat
  have hvm : (w.bumpN repl.length).vecs[v]? = some d := hv
  rcases intoRange_cases d.len lo hi with ⟨s, e, hr, hse, hel⟩ | ⟨m, hr⟩
  · let it : RangeIt := { v := v, typed := typed, start := s, end0 := e, origLen := d.len, index := s, end_ := e }
    have hit : ItOk d v typed s e it := ⟨rfl, rfl, rfl, rfl, rfl, Nat.le_refl _, hse, Nat.le_refl _⟩
    have hV0 : VInv ((w.bumpN repl.length).upd v (d.draining s)) v (d.draining s) ((List.range' w.created repl.length).map Cell.val ++ virtAbs d s e it) := by
      refine VInv.start w h v d (d.draining s) repl.length hv _ ?_
      rw [freshCells_eq]
      exact List.Perm.append_left _ (virtAbs_start d hg s e hse hel it rfl rfl)
    have hvalid0 : ∀ p ∈ eats, p.2.ValidItem ((w.bumpN repl.length).upd v (d.draining s)).vecs v typed := by
      intro p hp'
      exact Sink.ValidItem.mono (w := w) (LivePres.of_set v (d.draining s) rfl hl) (hvalid p hp')
    have hspec := spliceDrop_spec cfg d hg hl v typed s e hse hel vals (List.range' w.created repl.length) hp claimed
    have hloop := eatLoop_v cfg d hg hl v typed s e hse hel (List.range' w.created repl.length) _ hspec eats ((w.bumpN repl.length).upd v (d.draining s)) it
      [toString (e - s)] hit hV0 hvalid0
    have hstep : step cfg (.splice v lo hi typed repl claim eats fin) w =
        match eatLoop cfg (fun i => spliceDrop cfg i vals claimed) it eats [toString (e - s)]
            ((w.bumpN repl.length).upd v (d.draining s)) with
        | (w', .ok (it', out)) =>
          (match fin with
            | .drop => (do spliceDrop cfg it' vals claimed; pure out : WM Out)
            | .forget => (do leakRepl vals; pure out : WM Out)) w'
        | (w', .panic s) => (w', .panic s)
        | (w', .ub s) => (w', .ub s) := by
      simp only [step, splice, WM.bind_apply, hmk, getVec_ok (w.bumpN repl.length) v d hvm hl, WM.onUnwind, hr, WM.lift_ok,
        setLen, setVec_apply]
      cases hel' : eatLoop cfg (fun i => spliceDrop cfg i vals claimed) it eats [toString (e - s)]
          ((w.bumpN repl.length).upd v (d.draining s)) with
      | mk w1 res =>
        have hel'' : eatLoop cfg (fun i => spliceDrop cfg i vals ((↑vals.length + claim).toNat))
            { v := v, typed := typed, start := s, end0 := e, origLen := d.len, index := s, end_ := e } eats
            [toString (e - s)] ((w.bumpN repl.length).upd v { d with len := s }) = (w1, res) := hel'
        rw [hel'']
        cases res with
        | ok p => obtain ⟨it', out⟩ := p; cases fin <;> rfl
        | panic _ => rfl
        | ub _ => rfl
    rw [hstep]
    cases hel' : eatLoop cfg (fun i => spliceDrop cfg i vals claimed) it eats [toString (e - s)]
        ((w.bumpN repl.length).upd v (d.draining s)) with
    | mk w1 res =>
      rw [hel'] at hloop
      simp only at hloop
      rcases hloop with ⟨it', o, r1, r2, r3⟩ | ⟨m, r1, r2⟩
      · subst r1
        simp only
        cases fin with
        | forget =>
          obtain ⟨pl, hleqp, hlk⟩ := leakRepl_plains vals (List.range' w.created repl.length) hp w1
          simp only [WM.bind_apply, hlk, WM.pure_apply]
          refine ⟨r3.finish (d' := d.draining s) [] pl ?_ (d.draining_good hg s (by omega)) ?_, trivial⟩
          · rw [World.upd_self w1 v _ r3.vec]; rfl
          · have q3' := hleqp.map Cell.val
            rw [d.draining_abs s (by omega)]
            rw [Leq_iff_count] at q3' ⊢
            intro a
            have q := q3' a
            simp only [virtAbs, List.nil_append, List.map_append, List.count_append] at q ⊢
            omega
        | drop =>
          obtain ⟨hinv, hr'⟩ := hspec.toV it' w1 r2 r3
          simp only [WM.bind_apply, WM.pure_apply]
          cases hdd : spliceDrop cfg it' vals claimed w1 with
          | mk w2 res2 =>
            rw [hdd] at hinv hr'
            simp only at hinv hr'
            rcases hr' with h2 | ⟨m2, h2⟩ <;> subst h2 <;> exact ⟨hinv, trivial⟩
      · subst r1
        exact ⟨r2, trivial⟩
  · -- invalid range: the replacement iterator is dropped, nothing else happens
    obtain ⟨dl2, pl2, hdp2, i1, i5⟩ := dropRepl_plains cfg vals (List.range' w.created repl.length) hp { (w.bumpN repl.length) with fault := none }
    have hstep : step cfg (.splice v lo hi typed repl claim eats fin) w =
        ((dropRepl cfg vals { (w.bumpN repl.length) with fault := none }).1, .panic m) := by
      simp only [step, splice, WM.bind_apply, hmk, getVec_ok (w.bumpN repl.length) v d hvm hl]
      rw [onUnwind_after_panic (WM.lift (intoRange d.len lo hi)) (dropRepl cfg vals) (w.bumpN repl.length)
        { (w.bumpN repl.length) with fault := none } m (by simp only [hr, WM.lift]) i5]
    rw [hstep]
    refine ⟨h.local_erase' v d d repl.length [] dl2 pl2 hv ?_ hg ?_, trivial⟩
    · rw [i1, World.upd_self w v d hv]; simp [World.bumpN, World.erase]
    · rw [← freshCells_eq, Leq_iff_count]
      intro a
      have q1 := (hdp2.map Cell.val).count_eq a
      simp only [List.map_append, List.count_append, List.map_nil, List.count_nil] at q1 ⊢
      omega

end AnyVec
