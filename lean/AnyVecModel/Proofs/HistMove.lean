/-
  A removal handle moved into another vector (`dst.push(src.remove(i))`, `dst.insert(j, src.pop())`, …)
  under an arbitrary fault state: two vectors change in one step.
-/
import AnyVecModel.Proofs.HistClone
namespace AnyVec
open World

theorem flatten_set2_split {α} (ls : List (List α)) (v u : Nat) (lv lu lv' lu' : List α) (hne : v ≠ u)
    (hv : ls[v]? = some lv) (hu : ls[u]? = some lu) (a : α) [DecidableEq α] :
    (((ls.set v lv').set u lu').flatten).count a + lv.count a + lu.count a =
      ls.flatten.count a + lv'.count a + lu'.count a := by
  have hvlt : v < ls.length := (List.getElem?_eq_some_iff.mp hv).1
  have h1 := flatten_set_split ls v lv lv' hv
  have hu' : (ls.set v lv')[u]? = some lu := by rw [List.getElem?_set_ne hne]; exact hu
  have h2 := flatten_set_split (ls.set v lv') u lu lu' hu'
  rw [h2.2]
  have e := h2.1
  rw [h1.2] at e
  have c1 := congrArg (List.count a) e
  have c2 := congrArg (List.count a) h1.1
  simp only [List.count_append] at c1 c2 ⊢
  omega

/-- **two-vector steps** -/
theorem World.Inv.local2 {w w' : World} (h : w.Inv) (v u : Nat) (dv du dv' du' : VecSt) (hne : v ≠ u)
    (hl dl : List Nat) (hv : w.vecs[v]? = some dv) (hu : w.vecs[u]? = some du)
    (he : w'.erase = { ((w.upd v dv').upd u du').erase with held := hl ++ w.held, dropLog := dl ++ w.dropLog })
    (hgv : dv'.Good) (hgu : du'.Good)
    (hperm : Leq (dv'.abs ++ du'.abs ++ (hl.map Cell.val ++ dl.map Cell.val)) (dv.abs ++ du.abs)) : w'.Inv := by
  have e1 : w'.vecs = (w.vecs.set v dv').set u du' := by have := congrArg World.vecs he; exact this
  have e2 : w'.created = w.created := by have := congrArg World.created he; exact this
  have e3 : w'.dropLog = dl ++ w.dropLog := by have := congrArg World.dropLog he; exact this
  have e4 : w'.held = hl ++ w.held := by have := congrArg World.held he; exact this
  have e5 : w'.pendingRaw = w.pendingRaw := by have := congrArg World.pendingRaw he; exact this
  have hvlt : v < w.vecs.length := (List.getElem?_eq_some_iff.mp hv).1
  have hult : u < w.vecs.length := (List.getElem?_eq_some_iff.mp hu).1
  apply h.of_step
  · intro k x hx
    rw [e1] at hx
    by_cases hku : u = k
    · subst hku; simp [hult] at hx; subst hx; exact hgu
    · rw [List.getElem?_set_ne hku] at hx
      by_cases hkv : v = k
      · subst hkv; simp [hvlt] at hx; subst hx; exact hgv
      · rw [List.getElem?_set_ne hkv] at hx; exact h.good k x hx
  · omega
  · rw [e2, Nat.sub_self]
    simp only [freshCells, List.range'_zero, List.map_nil, List.nil_append]
    rw [Leq_iff_count] at hperm ⊢
    intro a
    have q := hperm a
    have q2 := flatten_set2_split (w.vecs.map VecSt.abs) v u dv.abs du.abs dv'.abs du'.abs hne (by simp [hv]) (by simp [hu]) a
    simp only [World.all, World.owned, World.allVis, e1, e3, e4, e5, List.map_set, List.map_append,
      List.count_append] at q q2 ⊢
    omega


theorem set_set_comm {α} (l : List α) (i j : Nat) (a b : α) (h : i ≠ j) :
    (l.set i a).set j b = (l.set j b).set i a := by
  apply List.ext_getElem?
  intro k
  simp only [List.getElem?_set, List.length_set]
  by_cases h1 : i = k <;> by_cases h2 : j = k <;> simp_all

/-- `dst.push_unchecked(handle of src)`: no user code runs; the element leaves `src` (the handle is
consumed) and is appended to `dst` -/
theorem pushUnchecked_handle (w : World) (v u : Nat) (k : HKind) (t : Bool) (d du du1 : VecSt) (id : Nat)
    (es : List Event) (hne : v ≠ u) (hk : k.okFor d) (hwf : d.WF) (hv : w.vecs[v]? = some (d.taken k))
    (hl : d.live = true) (hc : d.cells.get (k.slot d) = .val id)
    (hu : w.vecs[u]? = some du) (hlu : du.live = true) (hwfu : du.WF) (hr : du.reserveOne = .ok (du1, es)) :
    pushUnchecked u (.handle { v := v, kind := k, typed := t }) w =
      ({ (w.upd v (d.consumed k)).upd u (du1.pushCell (.val id)) with ev := es.reverse ++ w.ev }, .ok ()) := by
  have hult : u < w.vecs.length := (List.getElem?_eq_some_iff.mp hu).1
  have hvlt : v < w.vecs.length := (List.getElem?_eq_some_iff.mp hv).1
  obtain ⟨h3, h1, _, hw1, _, _, _, _, _, _, h4⟩ := reserveOne_spec du du1 es hwfu hr
  have hl1 : du1.live = true := by rw [h4]; exact hlu
  have hsl := HKind.slot_lt hk
  have hb : k.slot d < d.cap := by have := hwf.len_le; have := hwf.cells_le; omega
  have hlive : (d.taken k).live = true := by cases k <;> simpa [VecSt.taken] using hl
  have hcells : (d.taken k).cells = d.cells := by cases k <;> rfl
  have hcap : (d.taken k).cap = d.cap := by cases k <;> rfl
  -- after `reserve_one`
  let wa : World := { w.upd u du1 with ev := es.reverse ++ w.ev }
  have hva : wa.vecs[v]? = some (d.taken k) := by
    show (w.vecs.set u du1)[v]? = _
    rw [List.getElem?_set_ne (Ne.symm hne)]; exact hv
  have hua : wa.vecs[u]? = some du1 := by show (w.vecs.set u du1)[u]? = _; simp [hult]
  have evo : vecOp u VecSt.reserveOne w = (wa, .ok ()) := by
    simp only [vecOp, WM.bind_apply, getVec_ok w u du hu hlu, hr, WM.lift_ok, setVec_apply, World.emit_apply]
    rfl
  -- after the value was written
  let dub : VecSt := { du1 with cells := (du1.cells.ensure (du1.len + 1)).set du1.len (.val id) }
  let wb : World := wa.upd u dub
  have hvb : wb.vecs[v]? = some (d.taken k) := by
    show (wa.vecs.set u dub)[v]? = _
    rw [List.getElem?_set_ne (Ne.symm hne)]; exact hva
  have hub : (wb.upd v (d.consumed k)).vecs[u]? = some dub := by
    show ((wa.vecs.set u dub).set v (d.consumed k))[u]? = _
    rw [List.getElem?_set_ne hne]
    have : u < wa.vecs.length := by show u < (w.vecs.set u du1).length; simpa using hult
    simp [this]
  have hread : readElem v (k.slot d) wa = (wa, .ok id) := by
    simp only [readElem, WM.bind_apply, getVec_ok wa v _ hva hlive, WM.lift,
      VecSt.readElem_ok (d.taken k) (k.slot d) id (by rw [hcap]; exact hb) (by rw [hcells]; exact hc)]
  have hwrite : World.writeCell u du1.len (.val id) wa = (wb, .ok ()) := by
    simp only [World.writeCell, WM.bind_apply, getVec_ok wa u du1 hua hl1, WM.lift,
      VecSt.writeCell_ok du1 du1.len _ h3, setVec_apply]
    rfl
  simp only [pushUnchecked, WM.bind_apply, getVec_ok w u du hu hlu, WM.onUnwind, evo, getVec_ok wa u du1 hua hl1,
    valMoveInto, hSlot_taken wa v k t d hk hva hl, hread, hwrite, hConsume_taken wb v k t d hk hwf hvb hl,
    getVec_ok _ u dub hub (by show du1.live = true; exact hl1), setVec_apply]
  congr 1
  simp only [World.upd, wb, wa, dub, VecSt.pushCell]
  congr 1
  rw [List.set_set, set_set_comm _ u v _ _ (Ne.symm hne), List.set_set, set_set_comm _ v u _ _ hne]


/-- `dst.insert_unchecked(j, handle of src)` -/
theorem insertUnchecked_handle (w : World) (v u j : Nat) (k : HKind) (t : Bool) (d du du1 : VecSt) (id : Nat)
    (es : List Event) (hne : v ≠ u) (hk : k.okFor d) (hwf : d.WF) (hv : w.vecs[v]? = some (d.taken k))
    (hl : d.live = true) (hc : d.cells.get (k.slot d) = .val id)
    (hu : w.vecs[u]? = some du) (hlu : du.live = true) (hwfu : du.WF) (hj : j ≤ du.len)
    (hr : du.reserveOne = .ok (du1, es)) :
    insertUnchecked u j (.handle { v := v, kind := k, typed := t }) w =
      ({ (w.upd v (d.consumed k)).upd u (du1.insertAt j (.val id)) with ev := es.reverse ++ w.ev }, .ok ()) := by
  have hult : u < w.vecs.length := (List.getElem?_eq_some_iff.mp hu).1
  have hvlt : v < w.vecs.length := (List.getElem?_eq_some_iff.mp hv).1
  obtain ⟨h3, h1, _, hw1, _, _, _, _, _, _, h4⟩ := reserveOne_spec du du1 es hwfu hr
  have hl1 : du1.live = true := by rw [h4]; exact hlu
  have hsl := HKind.slot_lt hk
  have hb : k.slot d < d.cap := by have := hwf.len_le; have := hwf.cells_le; omega
  have hlive : (d.taken k).live = true := by cases k <;> simpa [VecSt.taken] using hl
  have hcells : (d.taken k).cells = d.cells := by cases k <;> rfl
  have hcap : (d.taken k).cap = d.cap := by cases k <;> rfl
  have hnot : ¬ j > du.len := by omega
  let wa : World := { w.upd u du1 with ev := es.reverse ++ w.ev }
  have hva : wa.vecs[v]? = some (d.taken k) := by
    show (w.vecs.set u du1)[v]? = _
    rw [List.getElem?_set_ne (Ne.symm hne)]; exact hv
  have hua : wa.vecs[u]? = some du1 := by show (w.vecs.set u du1)[u]? = _; simp [hult]
  have evo : vecOp u VecSt.reserveOne w = (wa, .ok ()) := by
    simp only [vecOp, WM.bind_apply, getVec_ok w u du hu hlu, hr, WM.lift_ok, setVec_apply, World.emit_apply]
    rfl
  -- len lowered, tail shifted
  have hb1 : j + (du1.len - j) ≤ du1.cap := by omega
  have hb2 : j + 1 + (du1.len - j) ≤ du1.cap := by omega
  have hb3 : j < du1.cap := by omega
  let dus : VecSt :=
    { du1 with
        len := j,
        cells := memmove (du1.cells.ensure (max (j + (du1.len - j)) (j + 1 + (du1.len - j)))) j (j + 1) (du1.len - j) }
  let ws : World := wa.upd u dus
  have hmove : (do setLen u j; moveElems u (!t) j (j + 1) (du1.len - j) : WM Unit) wa = (ws, .ok ()) := by
    have hu2 : (wa.upd u { du1 with len := j }).vecs[u]? = some { du1 with len := j } := by
      show ((w.vecs.set u du1).set u _)[u]? = _; simp [hult]
    simp only [WM.bind_apply, setLen, getVec_ok wa u du1 hua hl1, setVec_apply, moveElems,
      getVec_ok _ u _ hu2 (by show du1.live = true; exact hl1), WM.lift,
      VecSt.moveElems_ok { du1 with len := j } (!t) j (j + 1) (du1.len - j) hb1 hb2, World.upd_upd]
    rfl
  have hvs : ws.vecs[v]? = some (d.taken k) := by
    show (wa.vecs.set u dus)[v]? = _
    rw [List.getElem?_set_ne (Ne.symm hne)]; exact hva
  have hus : ws.vecs[u]? = some dus := by
    show (wa.vecs.set u dus)[u]? = _
    have : u < wa.vecs.length := by show u < (w.vecs.set u du1).length; simpa using hult
    simp [this]
  have hread : readElem v (k.slot d) ws = (ws, .ok id) := by
    simp only [readElem, WM.bind_apply, getVec_ok ws v _ hvs hlive, WM.lift,
      VecSt.readElem_ok (d.taken k) (k.slot d) id (by rw [hcap]; exact hb) (by rw [hcells]; exact hc)]
  let dub : VecSt := { dus with cells := (dus.cells.ensure (j + 1)).set j (.val id) }
  let wb : World := ws.upd u dub
  have hwrite : World.writeCell u j (.val id) ws = (wb, .ok ()) := by
    simp only [World.writeCell, WM.bind_apply, getVec_ok ws u dus hus (by show du1.live = true; exact hl1), WM.lift,
      VecSt.writeCell_ok dus j _ (by show j < du1.cap; exact hb3), setVec_apply]
    rfl
  have hvb : wb.vecs[v]? = some (d.taken k) := by
    show (ws.vecs.set u dub)[v]? = _
    rw [List.getElem?_set_ne (Ne.symm hne)]; exact hvs
  have hub : (wb.upd v (d.consumed k)).vecs[u]? = some dub := by
    show ((ws.vecs.set u dub).set v (d.consumed k))[u]? = _
    rw [List.getElem?_set_ne hne]
    have : u < ws.vecs.length := by show u < ((w.vecs.set u du1).set u dus).length; simpa using hult
    simp [this]
  have hstep : insertUnchecked u j (.handle { v := v, kind := k, typed := t }) w =
      (do setLen u (du1.len + 1) : WM Unit) (wb.upd v (d.consumed k)) := by
    have hm2 : moveElems u (!t) j (j + 1) (du1.len - j) (wa.upd u { du1 with len := j }) = (ws, .ok ()) := by
      have := hmove
      simp only [WM.bind_apply, setLen, getVec_ok wa u du1 hua hl1, setVec_apply] at this
      exact this
    simp only [insertUnchecked, WM.bind_apply, getVec_ok w u du hu hlu, hnot, if_false, WM.onUnwind, evo,
      getVec_ok wa u du1 hua hl1, valKnownType, setLen, setVec_apply, hm2,
      valMoveInto, hSlot_taken ws v k t d hk hvs hl, hread, hwrite, hConsume_taken wb v k t d hk hwf hvb hl]
  rw [hstep]
  simp only [setLen, WM.bind_apply, getVec_ok _ u dub hub (by show du1.live = true; exact hl1), setVec_apply]
  congr 1
  simp only [World.upd, wb, ws, wa, dub, dus, VecSt.insertAt]
  have hm : max (j + (du1.len - j)) (j + 1 + (du1.len - j)) = j + 1 + (du1.len - j) := by omega
  rw [hm]
  congr 1
  rw [List.set_set, List.set_set, set_set_comm _ u v _ _ (Ne.symm hne), List.set_set, set_set_comm _ v u _ _ hne]


/-- a removal handle that the destination refuses (type mismatch, index out of range, no capacity):
the handle is dropped while unwinding, exactly as if the caller had dropped it -/
theorem reject_handle {α} (w : World) (v : Nat) (k : HKind) (t : Bool) (d : VecSt) (id : Nat) (m : WM α) (s : String)
    (hk : k.okFor d) (hg : d.Good) (hv : w.vecs[v]? = some (d.taken k)) (hl : d.live = true)
    (hc : d.cells.get (k.slot d) = .val id)
    (horig : ∀ w' : World, ∀ d' hl' dl', HOutcome d k id d' hl' dl' →
      w'.erase = { (w.upd v d').erase with held := hl' ++ w.held, dropLog := dl' ++ w.dropLog } → w'.Inv)
    (hm : m w = ({ w with fault := none }, .panic s)) :
    (WM.onUnwind m (hDrop { v := v, kind := k, typed := t }) w).1.Inv ∧
      (WM.onUnwind m (hDrop { v := v, kind := k, typed := t }) w).2.notUb := by
  have hD := hDrop_any { w with fault := none } v k t d id hk hg.wf hv hl hc
  simp only [WM.onUnwind, hm]
  cases hr : hDrop { v := v, kind := k, typed := t } { w with fault := none } with
  | mk w1 res =>
    rw [hr] at hD
    simp only at hD
    rcases hD with ⟨hok, he⟩ | ⟨⟨m', hp⟩, he⟩
    · subst hok
      exact ⟨horig w1 _ [] [id] .dropped he, trivial⟩
    · subst hp
      refine ⟨horig w1 _ [] [id] .dropPanicked ?_, trivial⟩
      rw [World.upd_self w v _ hv]; exact he


/-- the sinks that move the handle's element into another vector -/
def Sink.MoveTo (u : Nat) : Sink → Prop
  | .pushTo w => w = u
  | .insertTo w _ => w = u
  | _ => False

theorem VecSt.pushCell_good (d1 : VecSt) (id : Nat) (hg : d1.Good) (hroom : d1.len < d1.cap) :
    (d1.pushCell (.val id)).Good := by
  refine ⟨VecSt.pushCell_wf d1 _ hg.wf hroom, ?_⟩
  intro c hc
  rw [VecSt.pushCell_abs d1 _ hg.wf] at hc
  rcases List.mem_append.mp hc with h1 | h1
  · exact hg.allVal c h1
  · exact ⟨id, by simpa using h1⟩

theorem VecSt.insertAt_good (d1 : VecSt) (j id : Nat) (hg : d1.Good) (hj : j ≤ d1.len) (hroom : d1.len < d1.cap) :
    (d1.insertAt j (.val id)).Good ∧ (d1.insertAt j (.val id)).abs.Perm (Cell.val id :: d1.abs) := by
  have habs := VecSt.insertAt_abs d1 j (.val id) hg.wf hj
  have hperm : (d1.abs.insertIdx j (Cell.val id)).Perm (Cell.val id :: d1.abs) :=
    List.perm_insertIdx _ _ (by rw [VecSt.abs_length hg.wf]; exact hj)
  refine ⟨⟨VecSt.insertAt_wf d1 j _ hg.wf hj hroom, ?_⟩, by rw [habs]; exact hperm⟩
  intro c hc
  rw [habs] at hc
  rcases List.mem_cons.mp (hperm.subset hc) with h1 | h1
  · exact ⟨id, h1⟩
  · exact hg.allVal c h1

/-- a removal handle moved into another vector, under any fault state -/
theorem move_step_inv (cfg : Cfg) (w0 : World) (v u : Nat) (k : HKind) (t : Bool) (sink : Sink) (d du : VecSt)
    (h : w0.Inv) (hne : v ≠ u) (hv : w0.vecs[v]? = some d) (hl : d.live = true)
    (hu : w0.vecs[u]? = some du) (hlu : du.live = true) (hk : k.okFor d) (hs : sink.MoveTo u) :
    (sinkHandle cfg { v := v, kind := k, typed := t } sink (w0.upd v (d.taken k))).1.Inv ∧
    (sinkHandle cfg { v := v, kind := k, typed := t } sink (w0.upd v (d.taken k))).2.notUb := by
  have hvlt : v < w0.vecs.length := (List.getElem?_eq_some_iff.mp hv).1
  have hg := h.good v d hv
  have hgu := h.good u du hu
  obtain ⟨id, hc⟩ := hg.get (k.slot d) (HKind.slot_lt hk)
  have hvw : (w0.upd v (d.taken k)).vecs[v]? = some (d.taken k) := by simp [hvlt]
  have huw : (w0.upd v (d.taken k)).vecs[u]? = some du := by
    show (w0.vecs.set v _)[u]? = _; rw [List.getElem?_set_ne hne]; exact hu
  have hlive : (d.taken k).live = true := by cases k <;> simpa [VecSt.taken] using hl
  have hty : (d.taken k).ty = d.ty := by cases k <;> rfl
  have hne' : ¬ u = v := fun e => hne e.symm
  -- what a refusal leads to
  have horig : ∀ w' : World, ∀ d' hl' dl', HOutcome d k id d' hl' dl' →
      w'.erase = { ((w0.upd v (d.taken k)).upd v d').erase with
                    held := hl' ++ (w0.upd v (d.taken k)).held,
                    dropLog := dl' ++ (w0.upd v (d.taken k)).dropLog } → w'.Inv := by
    intro w' d' hl' dl' ho he
    obtain ⟨hgood, hleq⟩ := ho.good hk hg hc
    exact h.local_erase v d d' hl' dl' hv (by simpa using he) hgood hleq
  -- what a successful move leads to
  have hmoved : ∀ (w' : World) (du' : VecSt), du'.Good → du'.abs.Perm (Cell.val id :: du.abs) →
      w'.erase = ((w0.upd v (d.consumed k)).upd u du').erase → w'.Inv := by
    intro w' du' hgood hperm he
    refine h.local2 v u d du (d.consumed k) du' hne [] [] hv hu (by rw [he]; rfl) (d.consumed_good k id hk hg hc) hgood ?_
    have p1 := d.consumed_perm k id hk hg.wf hc
    rw [Leq_iff_count]
    intro a
    have q1 := p1.count_eq a
    have q2 := hperm.count_eq a
    simp only [List.count_append, List.count_cons, List.map_nil, List.count_nil] at q1 q2 ⊢
    omega
  cases sink with
  | pushTo u' =>
    have hu' : u' = u := hs
    subst hu'
    simp only [sinkHandle, hne', if_false, WM.bind_apply]
    apply then_pure_inv
    by_cases hte : d.ty = du.ty
    · -- types match: `push_unchecked`
      have e : push u' (.handle { v := v, kind := k, typed := t }) (w0.upd v (d.taken k)) =
          pushUnchecked u' (.handle { v := v, kind := k, typed := t }) (w0.upd v (d.taken k)) := by
        simp only [push, WM.bind_apply, getVec_ok _ u' du huw hlu, valTy, getVec_ok _ v _ hvw hlive, WM.pure_apply,
          hty, hte, ne_eq, not_true_eq_false, if_false]
      rw [e]
      cases hr : du.reserveOne with
      | ok p =>
        obtain ⟨du1, es⟩ := p
        obtain ⟨hroom, _, ha, hw1, _⟩ := reserveOne_spec du du1 es hgu.wf hr
        rw [pushUnchecked_handle _ v u' k t d du du1 id es hne hk hg.wf hvw hl hc huw hlu hgu.wf hr]
        have hg1 : du1.Good := VecSt.good_of_abs_eq hgu hw1 ha
        refine ⟨hmoved _ (du1.pushCell (.val id)) (du1.pushCell_good id hg1 hroom) ?_ (by simp [World.erase, World.upd]), trivial⟩
        rw [VecSt.pushCell_abs du1 _ hw1, ha]
        exact List.perm_append_comm
      | panic m =>
        have hm := vecOp_panic _ u' du VecSt.reserveOne m huw hlu hr
        have hrj := reject_handle (w0.upd v (d.taken k)) v k t d id (vecOp u' VecSt.reserveOne) m hk hg hvw hl hc horig hm
        simp only [pushUnchecked, WM.bind_apply, getVec_ok _ u' du huw hlu, valDrop]
        cases hou : WM.onUnwind (vecOp u' VecSt.reserveOne) (hDrop { v := v, kind := k, typed := t }) (w0.upd v (d.taken k)) with
        | mk w1 res =>
          rw [hou] at hrj
          have hnotok : ∀ a, res ≠ .ok a := by
            intro a hres
            have : (WM.onUnwind (vecOp u' VecSt.reserveOne) (hDrop { v := v, kind := k, typed := t }) (w0.upd v (d.taken k))).2 = .ok a := by
              rw [hou]; exact hres
            simp only [WM.onUnwind, hm] at this
            cases hdd : hDrop { v := v, kind := k, typed := t } { (w0.upd v (d.taken k)) with fault := none } with
            | mk w2 r2 => rw [hdd] at this; cases r2 <;> simp at this
          cases res with
          | ok a => exact absurd rfl (hnotok a)
          | panic s => exact hrj
          | ub s => exact hrj
      | ub m => have := reserveOne_notUb du; rw [hr] at this; exact this.elim
    · have e : push u' (.handle { v := v, kind := k, typed := t }) (w0.upd v (d.taken k)) =
          WM.onUnwind (WM.panic "Type mismatch!") (hDrop { v := v, kind := k, typed := t }) (w0.upd v (d.taken k)) := by
        simp only [push, WM.bind_apply, getVec_ok _ u' du huw hlu, valTy, getVec_ok _ v _ hvw hlive, WM.pure_apply,
          hty, hte, ne_eq, not_false_eq_true, if_true, valDrop]
      rw [e]
      exact reject_handle (w0.upd v (d.taken k)) v k t d id (WM.panic "Type mismatch!" : WM Unit) _ hk hg hvw hl hc horig rfl
  | insertTo u' j =>
    have hu' : u' = u := hs
    subst hu'
    simp only [sinkHandle, hne', if_false, WM.bind_apply]
    apply then_pure_inv
    by_cases hte : d.ty = du.ty
    · have e : World.insert u' j (.handle { v := v, kind := k, typed := t }) (w0.upd v (d.taken k)) =
          insertUnchecked u' j (.handle { v := v, kind := k, typed := t }) (w0.upd v (d.taken k)) := by
        simp only [World.insert, WM.bind_apply, getVec_ok _ u' du huw hlu, valTy, getVec_ok _ v _ hvw hlive, WM.pure_apply,
          hty, hte, ne_eq, not_true_eq_false, if_false]
      rw [e]
      by_cases hj : j ≤ du.len
      · cases hr : du.reserveOne with
        | ok p =>
          obtain ⟨du1, es⟩ := p
          obtain ⟨hroom, hlen1, ha, hw1, _⟩ := reserveOne_spec du du1 es hgu.wf hr
          rw [insertUnchecked_handle _ v u' j k t d du du1 id es hne hk hg.wf hvw hl hc huw hlu hgu.wf hj hr]
          have hg1 : du1.Good := VecSt.good_of_abs_eq hgu hw1 ha
          obtain ⟨hgood, hperm⟩ := du1.insertAt_good j id hg1 (by omega) hroom
          refine ⟨hmoved _ (du1.insertAt j (.val id)) hgood (by rw [← ha]; exact hperm) (by simp [World.erase, World.upd]), trivial⟩
        | panic m =>
          have hm := vecOp_panic _ u' du VecSt.reserveOne m huw hlu hr
          have hrj := reject_handle (w0.upd v (d.taken k)) v k t d id (vecOp u' VecSt.reserveOne) m hk hg hvw hl hc horig hm
          have hnot : ¬ j > du.len := by omega
          simp only [insertUnchecked, WM.bind_apply, getVec_ok _ u' du huw hlu, hnot, if_false, valDrop]
          cases hou : WM.onUnwind (vecOp u' VecSt.reserveOne) (hDrop { v := v, kind := k, typed := t }) (w0.upd v (d.taken k)) with
          | mk w1 res =>
            rw [hou] at hrj
            have hnotok : ∀ a, res ≠ .ok a := by
              intro a hres
              have : (WM.onUnwind (vecOp u' VecSt.reserveOne) (hDrop { v := v, kind := k, typed := t }) (w0.upd v (d.taken k))).2 = .ok a := by
                rw [hou]; exact hres
              simp only [WM.onUnwind, hm] at this
              cases hdd : hDrop { v := v, kind := k, typed := t } { (w0.upd v (d.taken k)) with fault := none } with
              | mk w2 r2 => rw [hdd] at this; cases r2 <;> simp at this
            cases res with
            | ok a => exact absurd rfl (hnotok a)
            | panic s => exact hrj
            | ub s => exact hrj
        | ub m => have := reserveOne_notUb du; rw [hr] at this; exact this.elim
      · have hgt : j > du.len := by omega
        have e2 : insertUnchecked u' j (.handle { v := v, kind := k, typed := t }) (w0.upd v (d.taken k)) =
            WM.onUnwind (WM.panic "Index out of range!") (hDrop { v := v, kind := k, typed := t }) (w0.upd v (d.taken k)) := by
          simp only [insertUnchecked, WM.bind_apply, getVec_ok _ u' du huw hlu, hgt, if_true, valDrop]
        rw [e2]
        exact reject_handle (w0.upd v (d.taken k)) v k t d id (WM.panic "Index out of range!" : WM Unit) _ hk hg hvw hl hc horig rfl
    · have e : World.insert u' j (.handle { v := v, kind := k, typed := t }) (w0.upd v (d.taken k)) =
          WM.onUnwind (WM.panic "Type mismatch!") (hDrop { v := v, kind := k, typed := t }) (w0.upd v (d.taken k)) := by
        simp only [World.insert, WM.bind_apply, getVec_ok _ u' du huw hlu, valTy, getVec_ok _ v _ hvw hlive, WM.pure_apply,
          hty, hte, ne_eq, not_false_eq_true, if_true, valDrop]
      rw [e]
      exact reject_handle (w0.upd v (d.taken k)) v k t d id (WM.panic "Type mismatch!" : WM Unit) _ hk hg hvw hl hc horig rfl
  | drop => cases hs
  | forget => cases hs
  | downcast _ => cases hs
  | lazyTo _ _ => cases hs
  | swapVal _ => cases hs
  | info => cases hs


/-- core sinks and moves into another live vector -/
def Sink.Ok (vs : List VecSt) (v : Nat) (k : Sink) : Prop :=
  k.Core ∨ ∃ u du, k.MoveTo u ∧ v ≠ u ∧ vs[u]? = some du ∧ du.live = true

theorem take_or_move_inv (cfg : Cfg) (w : World) (v : Nat) (k : HKind) (t : Bool) (sink : Sink) (d : VecSt)
    (h : w.Inv) (hv : w.vecs[v]? = some d) (hl : d.live = true) (hk : k.okFor d) (hs : sink.Ok w.vecs v) :
    (sinkHandle cfg { v := v, kind := k, typed := t } sink (w.upd v (d.taken k))).1.Inv ∧
    (sinkHandle cfg { v := v, kind := k, typed := t } sink (w.upd v (d.taken k))).2.notUb := by
  rcases hs with hc | ⟨u, du, hm, hne, hu, hlu⟩
  · exact take_step_inv cfg w v k t sink d h hv hl hk hc
  · exact move_step_inv cfg w v u k t sink d du h hne hv hl hu hlu hk hm

theorem step_remove_inv' (cfg : Cfg) (w : World) (v i : Nat) (k : Sink) (d : VecSt) (h : w.Inv)
    (hv : w.vecs[v]? = some d) (hl : d.live = true) (hs : k.Ok w.vecs v) :
    (step cfg (.remove v i k) w).1.Inv ∧ (step cfg (.remove v i k) w).2.notUb := by
  by_cases hi : i < d.len
  · have e : step cfg (.remove v i k) w = sinkHandle cfg { v := v, kind := .remove i (d.len - 1), typed := false } k
        (w.upd v (d.taken (.remove i (d.len - 1)))) := by
      simp only [step, WM.bind_apply, getVec_ok w v d hv hl, hi, if_true, setLen, setVec_apply]
      rfl
    rw [e]
    exact take_or_move_inv cfg w v _ false k d h hv hl ⟨hi, rfl⟩ hs
  · have e : step cfg (.remove v i k) w = (WM.panic "Index out of range!" : WM Out) w := by
      simp only [step, WM.bind_apply, getVec_ok w v d hv hl, hi, if_false]
    rw [e]; exact panic_inv w h _

theorem step_swapRemove_inv' (cfg : Cfg) (w : World) (v i : Nat) (k : Sink) (d : VecSt) (h : w.Inv)
    (hv : w.vecs[v]? = some d) (hl : d.live = true) (hs : k.Ok w.vecs v) :
    (step cfg (.swapRemove v i k) w).1.Inv ∧ (step cfg (.swapRemove v i k) w).2.notUb := by
  by_cases hi : i < d.len
  · have e : step cfg (.swapRemove v i k) w = sinkHandle cfg { v := v, kind := .swapRemove i d.gen (d.len - 1), typed := false } k
        (w.upd v (d.taken (.swapRemove i d.gen (d.len - 1)))) := by
      simp only [step, WM.bind_apply, getVec_ok w v d hv hl, hi, if_true, setLen, setVec_apply]
      rfl
    rw [e]
    exact take_or_move_inv cfg w v _ false k d h hv hl ⟨hi, rfl, rfl⟩ hs
  · have e : step cfg (.swapRemove v i k) w = (WM.panic "Index out of range!" : WM Out) w := by
      simp only [step, WM.bind_apply, getVec_ok w v d hv hl, hi, if_false]
    rw [e]; exact panic_inv w h _

theorem step_pop_inv' (cfg : Cfg) (w : World) (v : Nat) (k : Sink) (d : VecSt) (h : w.Inv)
    (hv : w.vecs[v]? = some d) (hl : d.live = true) (hs : k.Ok w.vecs v) :
    (step cfg (.pop v k) w).1.Inv ∧ (step cfg (.pop v k) w).2.notUb := by
  by_cases hi : d.len = 0
  · have e : step cfg (.pop v k) w = (w, .ok ["N"]) := by
      simp only [step, WM.bind_apply, getVec_ok w v d hv hl, hi, if_true, WM.pure_apply]
    rw [e]; exact ⟨h, trivial⟩
  · have e : step cfg (.pop v k) w = sinkHandle cfg { v := v, kind := .pop, typed := false } k
        (w.upd v (d.taken .pop)) := by
      simp only [step, WM.bind_apply, getVec_ok w v d hv hl, hi, if_false, setLen, setVec_apply]
      rfl
    rw [e]
    exact take_or_move_inv cfg w v _ false k d h hv hl hi hs

end AnyVec
