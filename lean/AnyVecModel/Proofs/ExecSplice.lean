/-
  AnyVecModel.Proofs.ExecSplice — exact effect of one whole `splice(a..b, k fresh owned values)` step whose iterator
  is dropped unconsumed, without injected fault: accepted (room reserved) or refused by the storage.
-/
import AnyVecModel.Proofs.HistSplice
namespace AnyVec
open World

/-- owned wrappers of type `ty` with the given identities -/
def wrappers (ty : Nat) (ids : List Nat) : List Val := ids.map (fun id => Val.wrapper id ty)

theorem wrappers_plain (ty : Nat) (ids : List Nat) : PlainList (wrappers ty ids) ids ty := by
  induction ids with
  | nil => exact .nil ty
  | cons id ids ih => exact .wrapper id ty _ _ ih

@[simp] theorem wrappers_length (ty : Nat) (ids : List Nat) : (wrappers ty ids).length = ids.length := by
  simp [wrappers]

theorem mkValsFrom_wrappers (cfg : Cfg) (ty : Nat) (k : Nat) : ∀ (acc : List Val) (w : World),
    mkValsFrom cfg acc (List.replicate k (.wrapper ty)) w =
      (w.bumpN k, .ok (acc ++ wrappers ty (List.range' w.created k))) := by
  induction k with
  | zero => intro acc w; simp [mkValsFrom, wrappers, World.bumpN]
  | succ k ih =>
    intro acc w
    rw [List.replicate_succ]
    have hmk : mkVal cfg (.wrapper ty) w = (w.bump, .ok (.wrapper w.created ty)) := rfl
    simp only [mkValsFrom, WM.bind_apply, WM.onUnwind, hmk, ih]
    have e1 : w.bump.bumpN k = w.bumpN (k + 1) := by
      simp [World.bumpN, World.bump, Nat.add_assoc, Nat.add_comm 1 k]
    have e2 : w.bump.created = w.created + 1 := rfl
    rw [e1, e2, List.range'_succ]
    simp [wrappers]

theorem mkVals_wrappers (cfg : Cfg) (ty k : Nat) (w : World) :
    mkVals cfg (List.replicate k (.wrapper ty)) w = (w.bumpN k, .ok (wrappers ty (List.range' w.created k))) := by
  simpa [mkVals] using mkValsFrom_wrappers cfg ty k [] w

/-- owned values going out of scope, no injected fault: each is destroyed, in order -/
theorem dropRepl_wrappers_nofault (cfg : Cfg) (ty : Nat) (ids : List Nat) (w : World) (hf : w.fault = none) :
    dropRepl cfg (wrappers ty ids) w = (logDrops cfg.hasDrop ids w, .ok ()) := by
  induction ids generalizing w with
  | nil => rfl
  | cons id ids ih =>
    simp only [wrappers, List.map_cons, dropRepl, WM.bind_apply, WM.onUnwind, valDrop,
      World.dropElem_nofault cfg.hasDrop id w hf]
    exact ih _ (by simpa using hf)

end AnyVec
