/-
  AnyVecModel.Proofs.ExecSplice — exact effect of one whole `splice(a..b, k fresh owned values)` step whose iterator
  is dropped unconsumed, without injected fault: accepted (room reserved) or refused by the storage.
-/
import AnyVecModel.Proofs.HistSplice
namespace AnyVec
open World

/-- owned wrappers of type `ty` with the given identities -/
def wrappers (ty : Nat) (ids : List Nat) : List Val := ids.map (fun id => Val.wrapper id ty)

theorem wrappers_plain (ty : Nat) (ids : List Nat) : PlainList (wrappers ty ids) ids ty := by
  induction ids with
  | nil => exact .nil ty
  | cons id ids ih => exact .wrapper id ty _ _ ih

@[simp] theorem wrappers_length (ty : Nat) (ids : List Nat) : (wrappers ty ids).length = ids.length := by
  simp [wrappers]

theorem mkValsFrom_wrappers (cfg : Cfg) (ty : Nat) (k : Nat) : ∀ (acc : List Val) (w : World),
    mkValsFrom cfg acc (List.replicate k (.wrapper ty)) w =
      (w.bumpN k, .ok (acc ++ wrappers ty (List.range' w.created k))) := by
  induction k with
  | zero => intro acc w; simp [mkValsFrom, wrappers, World.bumpN]
  | succ k ih =>
    intro acc w
    rw [List.replicate_succ]
    have hmk : mkVal cfg (.wrapper ty) w = (w.bump, .ok (.wrapper w.created ty)) := rfl
    simp only [mkValsFrom, WM.bind_apply, WM.onUnwind, hmk, ih]
    have e1 : w.bump.bumpN k = w.bumpN (k + 1) := by
      simp [World.bumpN, World.bump, Nat.add_assoc, Nat.add_comm 1 k]
    have e2 : w.bump.created = w.created + 1 := rfl
    rw [e1, e2, List.range'_succ]
    simp [wrappers]

theorem mkVals_wrappers (cfg : Cfg) (ty k : Nat) (w : World) :
    mkVals cfg (List.replicate k (.wrapper ty)) w = (w.bumpN k, .ok (wrappers ty (List.range' w.created k))) := by
  simpa [mkVals] using mkValsFrom_wrappers cfg ty k [] w

/-- owned values going out of scope, no injected fault: each is destroyed, in order -/
theorem dropRepl_wrappers_nofault (cfg : Cfg) (ty : Nat) (ids : List Nat) (w : World) (hf : w.fault = none) :
    dropRepl cfg (wrappers ty ids) w = (logDrops cfg.hasDrop ids w, .ok ()) := by
  induction ids generalizing w with
  | nil => rfl
  | cons id ids ih =>
    simp only [wrappers, List.map_cons, dropRepl, WM.bind_apply, WM.onUnwind, valDrop,
      World.dropElem_nofault cfg.hasDrop id w hf]
    exact ih _ (by simpa using hf)

/-- a range iterator's items taken from either end in any pattern and dropped one by one, no injected fault: only
destructor runs are logged and the cursor moves inwards; the vector under the iterator is untouched -/
theorem eatLoop_drops (cfg : Cfg) (onPanic : RangeIt → WM Unit) (v : Nat) (d : VecSt) (hl : d.live = true) (lo hi : Nat)
    (hcap : hi ≤ d.cap) (hinit : ∀ j, lo ≤ j → j < hi → ∃ id, d.cells.get j = .val id) :
    ∀ (cs : List End) (it : RangeIt) (out : Out) (w : World), it.v = v → it.typed = false →
      w.vecs[v]? = some d → w.fault = none → lo ≤ it.index → it.index ≤ it.end_ → it.end_ ≤ hi →
      ∃ ids it' out', eatLoop cfg onPanic it (cs.map fun e => (e, Sink.drop)) out w =
          (logDrops d.hasDrop ids w, .ok (it', out')) ∧
        it'.v = it.v ∧ it'.typed = it.typed ∧ it'.start = it.start ∧ it'.end0 = it.end0 ∧ it'.origLen = it.origLen ∧
        it.index ≤ it'.index ∧ it'.index ≤ it'.end_ ∧ it'.end_ ≤ it.end_ := by
  intro cs
  induction cs with
  | nil =>
    intro it out w _ _ _ _ _ h2 _
    exact ⟨[], it, out, rfl, rfl, rfl, rfl, rfl, rfl, Nat.le_refl _, h2, Nat.le_refl _⟩
  | cons e cs ih =>
    intro it out w hitv hty hv hf h1 h2 h3
    have hsink : ∀ slot, lo ≤ slot → slot < hi → ∃ id,
        sinkElem cfg it.v slot it.typed .drop w = (logDrop d.hasDrop id w, .ok [cfg.tok id]) := by
      intro slot hs1 hs2
      obtain ⟨id, hc⟩ := hinit slot hs1 hs2
      refine ⟨id, ?_⟩
      rw [hitv]
      simp only [sinkElem, WM.bind_apply, getVec_ok w v d hv hl, readElem, WM.lift,
        VecSt.readElem_ok d slot id (by omega) hc, World.dropElem_nofault d.hasDrop id w hf, WM.pure_apply]
    have hstep : ∀ (slot : Nat) (c' : Cursor), lo ≤ slot → slot < hi → it.index ≤ c'.index → c'.index ≤ c'.end_ →
        c'.end_ ≤ it.end_ →
        ∃ id, ∀ tok : String, ∃ ids it' out',
          eatLoop cfg onPanic { it with index := c'.index, end_ := c'.end_ } (cs.map fun e => (e, Sink.drop)) (out ++ [tok])
            (logDrop d.hasDrop id w) = (logDrops d.hasDrop ids (logDrop d.hasDrop id w), .ok (it', out')) ∧
          it'.v = it.v ∧ it'.typed = it.typed ∧ it'.start = it.start ∧ it'.end0 = it.end0 ∧ it'.origLen = it.origLen ∧
          it.index ≤ it'.index ∧ it'.index ≤ it'.end_ ∧ it'.end_ ≤ it.end_ ∧
          sinkElem cfg it.v slot it.typed .drop w = (logDrop d.hasDrop id w, .ok [cfg.tok id]) := by
      intro slot c' hs1 hs2 q1 q2 q3
      obtain ⟨id, hsk⟩ := hsink slot hs1 hs2
      refine ⟨id, fun tok => ?_⟩
      obtain ⟨ids, it', out', he, e1, e2, e3, e4, e5, e6, e7, e8⟩ :=
        ih { it with index := c'.index, end_ := c'.end_ } (out ++ [tok]) (logDrop d.hasDrop id w) hitv hty
          (by simpa using hv) (by simpa using hf) (by show lo ≤ c'.index; omega) q2 (by show c'.end_ ≤ hi; omega)
      exact ⟨ids, it', out', he, e1, e2, e3, e4, e5, by simp at e6; omega, e7, by simp at e8; omega, hsk⟩
    cases e with
    | front =>
      by_cases hemp : it.index = it.end_
      · have hs : (Cursor.mk it.index it.end_).step .front = (none, ⟨it.index, it.end_⟩) := by
          simp [Cursor.step, Cursor.next, hemp]
        simp only [List.map_cons, eatLoop, hs]
        exact ih it _ w hitv hty hv hf h1 h2 h3
      · have hs : (Cursor.mk it.index it.end_).step .front = (some it.index, ⟨it.index + 1, it.end_⟩) := by
          simp [Cursor.step, Cursor.next, hemp]
        obtain ⟨id, hrest⟩ := hstep it.index ⟨it.index + 1, it.end_⟩ h1 (by omega) (by simp) (by show it.index + 1 ≤ it.end_; omega)
          (Nat.le_refl _)
        obtain ⟨ids, it', out', he, e1, e2, e3, e4, e5, e6, e7, e8, hsk⟩ :=
          hrest ((String.intercalate "/" [cfg.tok id]) ++ ":" ++ toString (Cursor.len ⟨it.index + 1, it.end_⟩))
        refine ⟨id :: ids, it', out', ?_, e1, e2, e3, e4, e5, e6, e7, e8⟩
        simp only [List.map_cons, eatLoop, hs, WM.bind_apply, WM.onUnwind, hsk, logDrops_cons]
        exact he
    | back =>
      by_cases hemp : it.end_ = it.index
      · have hs : (Cursor.mk it.index it.end_).step .back = (none, ⟨it.index, it.end_⟩) := by
          simp [Cursor.step, Cursor.nextBack, hemp]
        simp only [List.map_cons, eatLoop, hs]
        exact ih it _ w hitv hty hv hf h1 h2 h3
      · have hs : (Cursor.mk it.index it.end_).step .back = (some (it.end_ - 1), ⟨it.index, it.end_ - 1⟩) := by
          simp [Cursor.step, Cursor.nextBack, hemp]
        obtain ⟨id, hrest⟩ := hstep (it.end_ - 1) ⟨it.index, it.end_ - 1⟩ (by omega) (by omega) (Nat.le_refl _)
          (by show it.index ≤ it.end_ - 1; omega) (by show it.end_ - 1 ≤ it.end_; omega)
        obtain ⟨ids, it', out', he, e1, e2, e3, e4, e5, e6, e7, e8, hsk⟩ :=
          hrest ((String.intercalate "/" [cfg.tok id]) ++ ":" ++ toString (Cursor.len ⟨it.index, it.end_ - 1⟩))
        refine ⟨id :: ids, it', out', ?_, e1, e2, e3, e4, e5, e6, e7, e8⟩
        simp only [List.map_cons, eatLoop, hs, WM.bind_apply, WM.onUnwind, hsk, logDrops_cons]
        exact he

end AnyVec
