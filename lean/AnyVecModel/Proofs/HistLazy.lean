/-
  Lazy clones of another vector's elements as sources of `push` / `insert`, under any fault state:
  the clone happens exactly when the value is moved in; if `Clone` panics nothing was created.
-/
import AnyVecModel.Proofs.HistMisc
namespace AnyVec
open World

/-- `dst.push_unchecked(src.at(i).lazy_clone())` at every crash point -/
theorem pushUnchecked_lazy_inv (w : World) (h : w.Inv) (v u i : Nat) (d du : VecSt) (hne : v ≠ u)
    (hv : w.vecs[v]? = some d) (hl : d.live = true) (hu : w.vecs[u]? = some du) (hlu : du.live = true)
    (hi : i < du.len) :
    (pushUnchecked v (.lazyElem u i) w).1.Inv ∧ (pushUnchecked v (.lazyElem u i) w).2.notUb := by
  have hg := h.good v d hv
  have hgu := h.good u du hu
  have hvlt : v < w.vecs.length := (List.getElem?_eq_some_iff.mp hv).1
  obtain ⟨id, hc⟩ := hgu.get i hi
  have hlcu := hgu.wf.len_le_cap
  cases hr : d.reserveOne with
  | ok p =>
    obtain ⟨d1, es⟩ := p
    obtain ⟨hroom, hlen1, ha, hw1, _, _, _, _, _, _, hlive1⟩ := reserveOne_spec d d1 es hg.wf hr
    have hl1 : d1.live = true := by rw [hlive1]; exact hl
    let wa : World := { w.upd v d1 with ev := es.reverse ++ w.ev }
    have evo : vecOp v VecSt.reserveOne w = (wa, .ok ()) := by
      simp only [vecOp, WM.bind_apply, getVec_ok w v d hv hl, hr, WM.lift_ok, setVec_apply, World.emit_apply]
      rfl
    have hva : wa.vecs[v]? = some d1 := by simp [wa, hvlt]
    have hua : wa.vecs[u]? = some du := by
      show (w.vecs.set v d1)[u]? = _; rw [List.getElem?_set_ne hne]; exact hu
    have hinva : wa.Inv := h.local_erase v d d1 [] [] hv rfl (VecSt.good_of_abs_eq hg hw1 ha)
      (by simpa [ha] using Leq.refl d.abs)
    have hread : readElem u i wa = (wa, .ok id) := by
      simp only [readElem, WM.bind_apply, getVec_ok wa u du hua hlu, WM.lift, VecSt.readElem_ok du i id (by omega) hc]
    obtain ⟨f', htk | ⟨m, htk⟩⟩ := tick_shape wa
    · -- the clone was made
      let d2 : VecSt := d1.pushCell (.val wa.created)
      have hg1 : d1.Good := VecSt.good_of_abs_eq hg hw1 ha
      have e : pushUnchecked v (.lazyElem u i) w =
          ({ wa with vecs := wa.vecs.set v d2, created := wa.created + 1, ev := Event.clone id wa.created :: wa.ev,
                     fault := f' }, .ok ()) := by
        have hvf : ∀ (ev : List Event), ({ wa with created := wa.created + 1, ev := ev, fault := f' } : World).vecs[v]? = some d1 :=
          fun _ => hva
        simp only [pushUnchecked, WM.bind_apply, getVec_ok w v d hv hl, WM.onUnwind, evo, getVec_ok wa v d1 hva hl1,
          valMoveInto, hread, cloneElem, htk, fresh, WM.modify_apply, WM.pure_apply, World.writeCell,
          getVec_ok _ v d1 (hvf _) hl1, WM.lift, VecSt.writeCell_ok d1 d1.len _ hroom, setVec_apply]
        simp [World.upd, d2, VecSt.pushCell, hvlt, wa, getVec, hl1]
      rw [e]
      refine ⟨?_, trivial⟩
      refine hinva.local_erase' v d1 d2 1 [] [] [] hva rfl (d1.pushCell_good _ hg1 hroom) ?_
      rw [VecSt.pushCell_abs d1 _ hw1]
      simp only [List.map_nil, List.append_nil, freshCells, List.range'_one, List.map_cons]
      exact Leq.of_perm List.perm_append_comm
    · have e : pushUnchecked v (.lazyElem u i) w = ({ wa with fault := f' }, .panic m) := by
        simp only [pushUnchecked, WM.bind_apply, getVec_ok w v d hv hl, WM.onUnwind, evo, getVec_ok wa v d1 hva hl1,
          valMoveInto, hread, cloneElem, htk]
      rw [e]
      exact ⟨hinva.of_erase rfl, trivial⟩
  | panic m =>
    have hm := vecOp_panic w v d VecSt.reserveOne m hv hl hr
    have e : pushUnchecked v (.lazyElem u i) w = ({ w with fault := none }, .panic m) := by
      simp only [pushUnchecked, WM.bind_apply, getVec_ok w v d hv hl, WM.onUnwind, hm, valDrop, WM.pure_apply]
    rw [e]; exact ⟨h.of_erase rfl, trivial⟩
  | ub m => have := reserveOne_notUb d; rw [hr] at this; exact this.elim


theorem push_lazy_inv (w : World) (h : w.Inv) (v u i : Nat) (d du : VecSt) (hne : v ≠ u)
    (hv : w.vecs[v]? = some d) (hl : d.live = true) (hu : w.vecs[u]? = some du) (hlu : du.live = true)
    (hi : i < du.len) :
    (push v (.lazyElem u i) w).1.Inv ∧ (push v (.lazyElem u i) w).2.notUb := by
  by_cases hty : du.ty = d.ty
  · have e : push v (.lazyElem u i) w = pushUnchecked v (.lazyElem u i) w := by
      simp only [push, WM.bind_apply, getVec_ok w v d hv hl, valTy, getVec_ok w u du hu hlu, WM.pure_apply, hty,
        ne_eq, not_true_eq_false, if_false]
    rw [e]; exact pushUnchecked_lazy_inv w h v u i d du hne hv hl hu hlu hi
  · have e : push v (.lazyElem u i) w = ({ w with fault := none }, .panic "Type mismatch!") := by
      simp only [push, WM.bind_apply, getVec_ok w v d hv hl, valTy, getVec_ok w u du hu hlu, WM.pure_apply, hty,
        ne_eq, not_false_eq_true, if_true, WM.onUnwind, WM.panic_apply, valDrop]
    rw [e]; exact ⟨h.of_erase rfl, trivial⟩

/-- `dst.insert_unchecked(j, src.at(i).lazy_clone())` at every crash point: while `Clone` runs the
elements from `j` on are out of reach, so a panic leaves `dst` with exactly its first `j` elements -/
theorem insertUnchecked_lazy_inv (w : World) (h : w.Inv) (v u i j : Nat) (d du : VecSt) (hne : v ≠ u)
    (hv : w.vecs[v]? = some d) (hl : d.live = true) (hu : w.vecs[u]? = some du) (hlu : du.live = true)
    (hi : i < du.len) :
    (insertUnchecked v j (.lazyElem u i) w).1.Inv ∧ (insertUnchecked v j (.lazyElem u i) w).2.notUb := by
  have hg := h.good v d hv
  have hgu := h.good u du hu
  have hvlt : v < w.vecs.length := (List.getElem?_eq_some_iff.mp hv).1
  obtain ⟨id, hc⟩ := hgu.get i hi
  have hlcu := hgu.wf.len_le_cap
  by_cases hj : j ≤ d.len
  · have hnot : ¬ j > d.len := by omega
    cases hr : d.reserveOne with
    | ok p =>
      obtain ⟨d1, es⟩ := p
      obtain ⟨hroom, hlen1, ha, hw1, _, _, _, _, _, _, hlive1⟩ := reserveOne_spec d d1 es hg.wf hr
      have hl1 : d1.live = true := by rw [hlive1]; exact hl
      have hg1 : d1.Good := VecSt.good_of_abs_eq hg hw1 ha
      let wa : World := { w.upd v d1 with ev := es.reverse ++ w.ev }
      have evo : vecOp v VecSt.reserveOne w = (wa, .ok ()) := by
        simp only [vecOp, WM.bind_apply, getVec_ok w v d hv hl, hr, WM.lift_ok, setVec_apply, World.emit_apply]
        rfl
      have hva : wa.vecs[v]? = some d1 := by simp [wa, hvlt]
      have hinva : wa.Inv := h.local_erase v d d1 [] [] hv rfl hg1 (by simpa [ha] using Leq.refl d.abs)
      have hb1 : j + (d1.len - j) ≤ d1.cap := by omega
      have hb2 : j + 1 + (d1.len - j) ≤ d1.cap := by omega
      have hb3 : j < d1.cap := by omega
      let dus : VecSt :=
        { d1 with
            len := j,
            cells := memmove (d1.cells.ensure (max (j + (d1.len - j)) (j + 1 + (d1.len - j)))) j (j + 1) (d1.len - j) }
      let ws : World := wa.upd v dus
      have hvs : ws.vecs[v]? = some dus := by
        show (wa.vecs.set v dus)[v]? = _
        have : v < wa.vecs.length := by show v < (w.vecs.set v d1).length; simpa using hvlt
        simp [this]
      have hus : ws.vecs[u]? = some du := by
        show ((w.vecs.set v d1).set v dus)[u]? = _
        rw [List.getElem?_set_ne hne, List.getElem?_set_ne hne]; exact hu
      have hmove : moveElems v true j (j + 1) (d1.len - j) (wa.upd v { d1 with len := j }) = (ws, .ok ()) := by
        have hu2 : (wa.upd v { d1 with len := j }).vecs[v]? = some { d1 with len := j } := by
          show ((w.vecs.set v d1).set v _)[v]? = _; simp [hvlt]
        simp only [WM.bind_apply, moveElems, getVec_ok _ v _ hu2 (by show d1.live = true; exact hl1), WM.lift,
          VecSt.moveElems_ok { d1 with len := j } true j (j + 1) (d1.len - j) hb1 hb2, setVec_apply, World.upd_upd]
        rfl
      have hread : readElem u i ws = (ws, .ok id) := by
        simp only [readElem, WM.bind_apply, getVec_ok ws u du hus hlu, WM.lift, VecSt.readElem_ok du i id (by omega) hc]
      -- the vector while the clone runs: only the first `j` elements are visible
      have hw1l := hw1.len_le; have hw1c := hw1.cells_le
      have hduslen : dus.cells.length = max d1.cells.length (j + 1 + (d1.len - j)) := by
        simp only [dus]
        rw [memmove_length _ _ _ _ (by simp; omega) (by simp; omega)]
        simp
      obtain ⟨hpabs, hpgood⟩ := prefix_good d1 hg1 j (by omega) dus rfl (by rw [hduslen]; omega) (by rw [hduslen]; show _ ≤ d1.cap; omega)
        (by intro t ht
            simp only [dus]
            rw [memmove_get _ _ _ _ _ (by simp; omega) (by simp; omega), if_neg (by omega), ensure_get])
      have hinvs : ws.Inv := hinva.local_erase v d1 dus [] [] hva rfl hpgood
        (by rw [hpabs]; simpa [seg] using Leq.take d1.abs j)
      obtain ⟨f', htk | ⟨m, htk⟩⟩ := tick_shape ws
      · -- cloned and written, the length is restored
        let dub : VecSt := { dus with cells := (dus.cells.ensure (j + 1)).set j (.val ws.created) }
        have e : insertUnchecked v j (.lazyElem u i) w =
            ({ ws with vecs := ws.vecs.set v (d1.insertAt j (.val ws.created)), created := ws.created + 1,
                       ev := Event.clone id ws.created :: ws.ev, fault := f' }, .ok ()) := by
          have hvf : ∀ (ev : List Event), ({ ws with created := ws.created + 1, ev := ev, fault := f' } : World).vecs[v]? = some dus :=
            fun _ => hvs
          simp only [insertUnchecked, WM.bind_apply, getVec_ok w v d hv hl, hnot, if_false, WM.onUnwind, evo,
            getVec_ok wa v d1 hva hl1, valKnownType, Bool.not_false, setLen, setVec_apply, hmove,
            valMoveInto, hread, cloneElem, htk, fresh, WM.modify_apply, WM.pure_apply, World.writeCell,
            getVec_ok _ v dus (hvf _) (by show d1.live = true; exact hl1), WM.lift,
            VecSt.writeCell_ok dus j _ (by show j < d1.cap; exact hb3)]
          have hm : max (j + (d1.len - j)) (j + 1 + (d1.len - j)) = j + 1 + (d1.len - j) := by omega
          simp [World.upd, hvlt, ws, wa, dus, VecSt.insertAt, getVec, hl1, hm]
        rw [e]
        refine ⟨?_, trivial⟩
        obtain ⟨hgood, hperm⟩ := d1.insertAt_good j ws.created hg1 (by omega) hroom
        refine hinva.local_erase' v d1 _ 1 [] [] [] hva ?_ hgood ?_
        · simp [World.upd, ws, wa, World.erase]
        · simp only [List.map_nil, List.append_nil, freshCells, List.range'_one, List.map_cons]
          exact Leq.of_perm hperm
      · have e : insertUnchecked v j (.lazyElem u i) w = ({ ws with fault := f' }, .panic m) := by
          simp only [insertUnchecked, WM.bind_apply, getVec_ok w v d hv hl, hnot, if_false, WM.onUnwind, evo,
            getVec_ok wa v d1 hva hl1, valKnownType, Bool.not_false, setLen, setVec_apply, hmove,
            valMoveInto, hread, cloneElem, htk]
        rw [e]
        exact ⟨hinvs.of_erase rfl, trivial⟩
    | panic m =>
      have hm := vecOp_panic w v d VecSt.reserveOne m hv hl hr
      have e : insertUnchecked v j (.lazyElem u i) w = ({ w with fault := none }, .panic m) := by
        simp only [insertUnchecked, WM.bind_apply, getVec_ok w v d hv hl, hnot, if_false, WM.onUnwind, hm, valDrop,
          WM.pure_apply]
      rw [e]; exact ⟨h.of_erase rfl, trivial⟩
    | ub m => have := reserveOne_notUb d; rw [hr] at this; exact this.elim
  · have hgt : j > d.len := by omega
    have e : insertUnchecked v j (.lazyElem u i) w = ({ w with fault := none }, .panic "Index out of range!") := by
      simp only [insertUnchecked, WM.bind_apply, getVec_ok w v d hv hl, hgt, if_true, WM.onUnwind, WM.panic_apply, valDrop,
        WM.pure_apply]
    rw [e]; exact ⟨h.of_erase rfl, trivial⟩


theorem insert_lazy_inv (w : World) (h : w.Inv) (v u i j : Nat) (d du : VecSt) (hne : v ≠ u)
    (hv : w.vecs[v]? = some d) (hl : d.live = true) (hu : w.vecs[u]? = some du) (hlu : du.live = true)
    (hi : i < du.len) :
    (World.insert v j (.lazyElem u i) w).1.Inv ∧ (World.insert v j (.lazyElem u i) w).2.notUb := by
  by_cases hty : du.ty = d.ty
  · have e : World.insert v j (.lazyElem u i) w = insertUnchecked v j (.lazyElem u i) w := by
      simp only [World.insert, WM.bind_apply, getVec_ok w v d hv hl, valTy, getVec_ok w u du hu hlu, WM.pure_apply, hty,
        ne_eq, not_true_eq_false, if_false]
    rw [e]; exact insertUnchecked_lazy_inv w h v u i j d du hne hv hl hu hlu hi
  · have e : World.insert v j (.lazyElem u i) w = ({ w with fault := none }, .panic "Type mismatch!") := by
      simp only [World.insert, WM.bind_apply, getVec_ok w v d hv hl, valTy, getVec_ok w u du hu hlu, WM.pure_apply, hty,
        ne_eq, not_false_eq_true, if_true, WM.onUnwind, WM.panic_apply, valDrop]
    rw [e]; exact ⟨h.of_erase rfl, trivial⟩

/-- `dst.push(src.at(i).lazy_clone()…)` as a script step -/
theorem step_push_lazy_inv (cfg : Cfg) (w : World) (v u i dp : Nat) (d du : VecSt) (h : w.Inv) (hne : v ≠ u)
    (hv : w.vecs[v]? = some d) (hl : d.live = true) (hu : w.vecs[u]? = some du) (hlu : du.live = true) :
    (step cfg (.push v (.lazyRef u i dp)) w).1.Inv ∧ (step cfg (.push v (.lazyRef u i dp)) w).2.notUb := by
  by_cases hi : i < du.len
  · have e : step cfg (.push v (.lazyRef u i dp)) w = (do let _ ← push v (.lazyElem u i); pure [] : WM Out) w := by
      simp only [step, WM.bind_apply, mkVal, getVec_ok w u du hu hlu, hi, if_true, WM.pure_apply]
    rw [e]
    exact then_pure_inv _ [] w (push_lazy_inv w h v u i d du hne hv hl hu hlu hi)
  · have e : step cfg (.push v (.lazyRef u i dp)) w = (WM.panic "called `Option::unwrap()` on a `None` value" : WM Out) w := by
      simp only [step, WM.bind_apply, mkVal, getVec_ok w u du hu hlu, hi, if_false]
      rfl
    rw [e]; exact panic_inv w h _

theorem step_insert_lazy_inv (cfg : Cfg) (w : World) (v j u i dp : Nat) (d du : VecSt) (h : w.Inv) (hne : v ≠ u)
    (hv : w.vecs[v]? = some d) (hl : d.live = true) (hu : w.vecs[u]? = some du) (hlu : du.live = true) :
    (step cfg (.insert v j (.lazyRef u i dp)) w).1.Inv ∧ (step cfg (.insert v j (.lazyRef u i dp)) w).2.notUb := by
  by_cases hi : i < du.len
  · have e : step cfg (.insert v j (.lazyRef u i dp)) w = (do let _ ← World.insert v j (.lazyElem u i); pure [] : WM Out) w := by
      simp only [step, WM.bind_apply, mkVal, getVec_ok w u du hu hlu, hi, if_true, WM.pure_apply]
    rw [e]
    exact then_pure_inv _ [] w (insert_lazy_inv w h v u i j d du hne hv hl hu hlu hi)
  · have e : step cfg (.insert v j (.lazyRef u i dp)) w = (WM.panic "called `Option::unwrap()` on a `None` value" : WM Out) w := by
      simp only [step, WM.bind_apply, mkVal, getVec_ok w u du hu hlu, hi, if_false]
      rfl
    rw [e]; exact panic_inv w h _


theorem cursor_fold_inv (d : VecSt) (es : List End) (c : Cursor) (h1 : c.index ≤ c.end_) (h2 : c.end_ ≤ d.len) :
    (es.foldl (fun c e => (c.step e).2) c).index ≤ (es.foldl (fun c e => (c.step e).2) c).end_ ∧
      (es.foldl (fun c e => (c.step e).2) c).end_ ≤ d.len := by
  induction es generalizing c with
  | nil => exact ⟨h1, h2⟩
  | cons e es ih =>
    simp only [List.foldl_cons]
    apply ih
    · cases e <;> simp only [Cursor.step, Cursor.next, Cursor.nextBack] <;> split <;> simp <;> omega
    · cases e <;> simp only [Cursor.step, Cursor.next, Cursor.nextBack] <;> split <;> simp <;> omega

/-- iterating, cloning the iterator and iterating the clone only reads -/
theorem step_iterClone_inv (cfg : Cfg) (w : World) (v : Nat) (pre post : List End) (d : VecSt) (h : w.Inv)
    (hv : w.vecs[v]? = some d) (hl : d.live = true) :
    (step cfg (.iterClone v pre post) w).1.Inv ∧ (step cfg (.iterClone v pre post) w).2.notUb := by
  have hg := h.good v d hv
  obtain ⟨o1, ho1⟩ := iterGo_ro cfg w v d hv hl hg pre { index := 0, end_ := d.len } [toString d.len]
    (Nat.zero_le _) (Nat.le_refl _)
  obtain ⟨c1a, c1b⟩ := cursor_fold_inv d pre { index := 0, end_ := d.len } (Nat.zero_le _) (Nat.le_refl _)
  obtain ⟨o2, ho2⟩ := iterGo_ro cfg w v d hv hl hg post _ (o1 ++ ["C:" ++ toString
    (pre.foldl (fun c e => (c.step e).2) ({ index := 0, end_ := d.len } : Cursor)).len]) c1a c1b
  have e : step cfg (.iterClone v pre post) w = (w, .ok o2) := by
    simp only [step, WM.bind_apply, getVec_ok w v d hv hl, ho1, ho2]
  rw [e]; exact ⟨h, trivial⟩

end AnyVec
