/- Kernel tie: raw parts (`AnyVec::{into_raw_parts, from_raw_parts}`, `impl Clone for RawParts` in src/any_vec.rs,
`HeapMem::{into_raw_parts, from_raw_parts}` and `Heap::build` in src/mem/heap.rs) re-translated into field tables (field
-> the expression it is initialised with, normalised text), and the alignment of the in-place buffers of `Stack` /
`StackN` against `STACK_MAX_ALIGN` (src/mem). -/
import AnyVecModel.Proofs.KernelBase
namespace AnyVec
namespace KernelTie
open Gen.Kernel

/-- decomposing reads every field off the vector (capacity, handle and layout from the storage, `len`, type id,
destructor and clone function from the vector) without running `Drop` (`ManuallyDrop`); rebuilding passes the handle,
layout and *capacity* back to the storage and restores `len`, type id, destructor and clone function; cloning the parts
copies every field -/
theorem raw_parts_tie :
    anyvec_into_raw_parts_fields =
      [("let this", "ManuallyDrop::new(self)"), ("let mem_builder", "unsafe{ptr::read(&this.raw.mem_builder)}"),
       ("let mem", "unsafe{ptr::read(&this.raw.mem)}"),
       ("let (mem_handle,element_layout,capacity)", "mem.into_raw_parts()"), ("mem_builder", "mem_builder"),
       ("mem_handle", "mem_handle"), ("capacity", "capacity"), ("len", "this.raw.len"),
       ("element_layout", "element_layout"), ("element_typeid", "this.raw.type_id"),
       ("element_drop", "this.raw.drop_fn"), ("element_clone", "this.clone_fn()")] ∧
    anyvec_from_raw_parts_fields =
      [("raw.mem_builder", "raw_parts.mem_builder"),
       ("raw.mem", "MemRawParts::from_raw_parts(raw_parts.mem_handle,raw_parts.element_layout,raw_parts.capacity)"),
       ("raw.len", "raw_parts.len"), ("raw.type_id", "raw_parts.element_typeid"),
       ("raw.drop_fn", "raw_parts.element_drop"), ("clone_fn", "<Traits as CloneType>::new(raw_parts.element_clone)"),
       ("phantom", "PhantomData")] ∧
    raw_parts_clone_fields =
      [("mem_builder", "self.mem_builder.clone()"), ("mem_handle", "self.mem_handle.clone()"),
       ("capacity", "self.capacity"), ("len", "self.len"), ("element_layout", "self.element_layout"),
       ("element_typeid", "self.element_typeid"), ("element_drop", "self.element_drop"),
       ("element_clone", "self.element_clone")] ∧
    heapmem_from_raw_parts_fields = [("mem", "handle"), ("size", "size"), ("element_layout", "element_layout")] ∧
    heap_build_fields = [("mem", "dangling(&element_layout)"), ("size", "0"), ("element_layout", "element_layout")] ∧
    heapmem_into_raw_parts_text =
      "let this = ManuallyDrop :: new ( self ) ; ( this . mem , this . element_layout , this . size )" :=
  ⟨rfl, rfl, rfl, rfl, rfl, rfl⟩

/-- … and the model's raw parts do exactly that: a round trip gives back the same vector state -/
theorem raw_parts_model (v : VecSt) (hl : v.live = true) :
    VecSt.fromRawParts v.intoRawParts = v ∧ VecSt.fromRawParts v.intoRawParts.clone = v ∧
    v.intoRawParts.capacity = v.cap ∧ v.intoRawParts.len = v.len := by
  refine ⟨?_, ?_, rfl, rfl⟩ <;>
  · cases v
    simp only [VecSt.intoRawParts, VecSt.RawParts.clone, VecSt.fromRawParts] at *
    simp [hl]

end KernelTie
end AnyVec
