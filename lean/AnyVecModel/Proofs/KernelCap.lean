/-
  Kernel tie: capacity management of `AnyVecRaw` and `HeapMem` (regenerated from the source on every run)
-/
import AnyVecModel.Proofs.KernelBase
namespace AnyVec
namespace KernelTie
open World Gen.Kernel

/-- `AnyVecRaw::reserve` -/
theorem reserve_tie (v : VecSt) (n : Nat) : v.reserve n = applyEff v (reserve v.len v.cap n) := by
  by_cases h1 : v.len + n ≤ USIZE_MAX
  · by_cases h2 : v.cap < v.len + n <;>
      simp [VecSt.reserve, reserve, checkedAdd, h1, h2, Bind.bind, Res.bind, Pure.pure, applyEff]
  · simp [VecSt.reserve, reserve, checkedAdd, h1, Bind.bind, Res.bind, applyEff]

/-- `AnyVecRaw::reserve_exact` -/
theorem reserve_exact_tie (v : VecSt) (n : Nat) : v.reserveExact n = applyEff v (reserve_exact v.len v.cap n) := by
  by_cases h1 : v.len + n ≤ USIZE_MAX
  · by_cases h2 : v.cap < v.len + n <;>
      simp [VecSt.reserveExact, reserve_exact, checkedAdd, h1, h2, Bind.bind, Res.bind, Pure.pure, applyEff]
  · simp [VecSt.reserveExact, reserve_exact, checkedAdd, h1, Bind.bind, Res.bind, applyEff]

/-- `AnyVecRaw::reserve_one` (with `expand_one`) -/
theorem reserve_one_tie (v : VecSt) : v.reserveOne = applyEff v (reserve_one v.len v.cap) ∧ expand_one = .ok (.expand 1) := by
  refine ⟨?_, rfl⟩
  simp only [VecSt.reserveOne, reserve_one]
  by_cases h : v.len = v.cap <;> simp [h, applyEff, Pure.pure]

/-- `AnyVecRaw::shrink_to_fit`, `shrink_to` -/
theorem shrink_tie (v : VecSt) (m : Nat) :
    v.shrinkToFit = applyEff v (shrink_to_fit v.len v.cap) ∧ v.shrinkTo m = applyEff v (shrink_to v.len v.cap m) :=
  ⟨rfl, rfl⟩

/-- `HeapMem::expand` and the default `MemResizable::expand_exact` -/
theorem heap_expand_tie (v : VecSt) (a : Nat) (hb : v.bk = .heap) :
    v.memExpand a =
      match heap_expand v.cap a with
      | .ok (.resize n) => v.heapResize n
      | .ok _ => .ub "kernel: unexpected result"
      | .panic m => .panic m
      | .ub m => .ub m := by
  by_cases h1 : v.cap + a ≤ USIZE_MAX <;>
    simp [VecSt.memExpand, hb, heap_expand, checkedAdd, h1, Bind.bind, Res.bind, Pure.pure]

theorem expand_exact_tie (v : VecSt) (a : Nat) : v.memExpandExact a = applyEff v (expand_exact_default v.cap a) := rfl

end KernelTie
end AnyVec
