/-
  AnyVecModel.Proofs.ExecLazy — a lazy clone pushed into another vector, without injected fault, exactly.
-/
import AnyVecModel.Proofs.Exec
namespace AnyVec
open World

/-- **each consumption clones exactly once**: `push` of a lazy clone of element `id` (slot `i` of
`src`) into another vector runs `Clone` once, on `id`; the clone gets the next fresh identity and
is appended; the source vector, the destructor log and the held values are unchanged. -/
theorem push_lazy_clones_once (w : World) (src dst i id : Nat) (s d d1 : VecSt) (es : List Event)
    (hsd : src ≠ dst)
    (hs : w.vecs[src]? = some s) (hsl : s.live = true) (hswf : s.WF) (hi : i < s.len)
    (hc : s.cells.get i = .val id)
    (hv : w.vecs[dst]? = some d) (hl : d.live = true) (hwf : d.WF) (hty : s.ty = d.ty)
    (hr : d.reserveOne = .ok (d1, es)) (hf : w.fault = none) :
    push dst (.lazyElem src i) w =
      ({ w with vecs := w.vecs.set dst (d1.pushCell (.val w.created)),
                created := w.created + 1,
                ev := Event.clone id w.created :: (es.reverse ++ w.ev) }, .ok ()) := by
  have hlt : dst < w.vecs.length := (List.getElem?_eq_some_iff.mp hv).1
  have hd : w.vecs[dst] = d := (List.getElem?_eq_some_iff.mp hv).2
  have hslt : src < w.vecs.length := (List.getElem?_eq_some_iff.mp hs).1
  have hsdd : w.vecs[src] = s := (List.getElem?_eq_some_iff.mp hs).2
  obtain ⟨h3, h1, _, _, _, _, _, _, _, _, h4⟩ := reserveOne_spec d d1 es hwf hr
  have hl1 : d1.live = true := by rw [h4]; exact hl
  have hb : i < s.cap := by have := hswf.len_le_cap; omega
  have hne : ¬ dst = src := fun h => hsd h.symm
  simp [push, valTy, getVec, hl, hlt, hd, hsl, hslt, hsdd, hty, pushUnchecked, WM.onUnwind, vecOp, hr, hl1,
    valMoveInto, readElem, List.getElem?_set, hne, hsd, VecSt.readElem_ok, hb, hc, cloneElem, tick, hf, fresh,
    World.writeCell, VecSt.writeCell_ok, h3, World.upd, VecSt.pushCell]

/-- the same for `insert` at any index `j ≤ len`: one clone, placed at `j`, the elements from `j` on shifted by one -/
theorem insert_lazy_clones_once (w : World) (src dst i j id : Nat) (s d d1 : VecSt) (es : List Event)
    (hsd : src ≠ dst)
    (hs : w.vecs[src]? = some s) (hsl : s.live = true) (hswf : s.WF) (hi : i < s.len)
    (hc : s.cells.get i = .val id)
    (hv : w.vecs[dst]? = some d) (hl : d.live = true) (hwf : d.WF) (hty : s.ty = d.ty) (hj : j ≤ d.len)
    (hr : d.reserveOne = .ok (d1, es)) (hf : w.fault = none) :
    insert dst j (.lazyElem src i) w =
      ({ w with vecs := w.vecs.set dst (d1.insertAt j (.val w.created)),
                created := w.created + 1,
                ev := Event.clone id w.created :: (es.reverse ++ w.ev) }, .ok ()) := by
  have hlt : dst < w.vecs.length := (List.getElem?_eq_some_iff.mp hv).1
  have hd : w.vecs[dst] = d := (List.getElem?_eq_some_iff.mp hv).2
  have hslt : src < w.vecs.length := (List.getElem?_eq_some_iff.mp hs).1
  have hsdd : w.vecs[src] = s := (List.getElem?_eq_some_iff.mp hs).2
  obtain ⟨h3, h1, _, _, _, _, _, _, _, _, h4⟩ := reserveOne_spec d d1 es hwf hr
  have hl1 : d1.live = true := by rw [h4]; exact hl
  have hb : i < s.cap := by have := hswf.len_le_cap; omega
  have hne : ¬ dst = src := fun h => hsd h.symm
  have hnot : ¬ (d.len < j) := by omega
  have hb1 : j + (d.len - j) ≤ d1.cap := by omega
  have hb2 : j + 1 + (d.len - j) ≤ d1.cap := by omega
  have hb3 : j < d1.cap := by omega
  simp [World.insert, valTy, getVec, hl, hlt, hd, hsl, hslt, hsdd, hty, insertUnchecked, hnot, WM.onUnwind, vecOp, hr, hl1,
    setLen, moveElems, valKnownType, VecSt.moveElems_ok, hb1, hb2, hb3, h1,
    valMoveInto, readElem, List.getElem?_set, hne, hsd, VecSt.readElem_ok, hb, hc, cloneElem, tick, hf, fresh,
    World.writeCell, VecSt.writeCell_ok, h3, World.upd, VecSt.insertAt]
end AnyVec
