/-
  Evaluation lemmas for the world monad and its primitives (one field-wise `_spec` lemma per
  primitive, so that operations can be symbolically executed by `simp`).
-/
import AnyVecModel.Model.Ops
import AnyVecModel.Proofs.Lists
namespace AnyVec
open World

/-- replace vector `v` -/
def World.upd (w : World) (v : Nat) (x : VecSt) : World := { w with vecs := w.vecs.set v x }

@[simp] theorem World.upd_vecs (w : World) (v : Nat) (x : VecSt) :
    (w.upd v x).vecs = w.vecs.set v x := rfl
@[simp] theorem World.upd_created (w : World) (v : Nat) (x : VecSt) : (w.upd v x).created = w.created := rfl
@[simp] theorem World.upd_dropLog (w : World) (v : Nat) (x : VecSt) : (w.upd v x).dropLog = w.dropLog := rfl
@[simp] theorem World.upd_held (w : World) (v : Nat) (x : VecSt) : (w.upd v x).held = w.held := rfl
@[simp] theorem World.upd_ev (w : World) (v : Nat) (x : VecSt) : (w.upd v x).ev = w.ev := rfl
@[simp] theorem World.upd_fault (w : World) (v : Nat) (x : VecSt) : (w.upd v x).fault = w.fault := rfl
@[simp] theorem World.upd_pendingRaw (w : World) (v : Nat) (x : VecSt) : (w.upd v x).pendingRaw = w.pendingRaw := rfl
@[simp] theorem World.upd_upd (w : World) (v : Nat) (x y : VecSt) : (w.upd v x).upd v y = w.upd v y := by
  simp [World.upd]

theorem World.upd_get (w : World) (v : Nat) (x : VecSt) (h : v < w.vecs.length) :
    (w.upd v x).vecs[v]? = some x := by simp [h]

theorem World.upd_get_ne (w : World) (v u : Nat) (x : VecSt) (h : v ≠ u) :
    (w.upd v x).vecs[u]? = w.vecs[u]? := by simp [List.getElem?_set, h]

namespace WM
@[simp] theorem pure_apply {α} (a : α) (w : World) : (Pure.pure a : WM α) w = (w, .ok a) := rfl
@[simp] theorem bind_apply {α β} (m : WM α) (f : α → WM β) (w : World) :
    (m >>= f) w = match m w with
      | (w', .ok a) => f a w'
      | (w', .panic s) => (w', .panic s)
      | (w', .ub s) => (w', .ub s) := rfl
@[simp] theorem modify_apply (f : World → World) (w : World) : WM.modify f w = (f w, .ok ()) := rfl
@[simp] theorem get_apply (w : World) : WM.get w = (w, .ok w) := rfl
@[simp] theorem lift_ok {α} (a : α) (w : World) : WM.lift (.ok a) w = (w, .ok a) := rfl
@[simp] theorem panic_apply {α} (m : String) (w : World) :
    (WM.panic m : WM α) w = ({ w with fault := none }, .panic m) := rfl
end WM

namespace World

theorem getVec_ok (w : World) (v : Nat) (x : VecSt) (h : w.vecs[v]? = some x) (hl : x.live = true) :
    getVec v w = (w, .ok x) := by
  simp [getVec, h, hl]

@[simp] theorem setVec_apply (w : World) (v : Nat) (x : VecSt) : setVec v x w = (w.upd v x, .ok ()) := rfl

@[simp] theorem emit_nil (w : World) : emit [] w = (w, .ok ()) := by
  simp [emit]

theorem tick_none (w : World) (h : w.fault = none) : tick w = (w, .ok ()) := by
  simp [tick, h]

end World
end AnyVec

namespace AnyVec
open World
theorem World.dropElem_nofault (hasDrop : Bool) (id : Nat) (w : World) (h : w.fault = none) :
    dropElem hasDrop id w = (logDrop hasDrop id w, .ok ()) := by
  cases hasDrop <;> simp [dropElem, logDrop, tick, h]

@[simp] theorem World.logDrop_vecs (b : Bool) (id : Nat) (w : World) : (logDrop b id w).vecs = w.vecs := rfl
@[simp] theorem World.logDrop_fault (b : Bool) (id : Nat) (w : World) : (logDrop b id w).fault = w.fault := rfl
@[simp] theorem World.logDrop_dropLog (b : Bool) (id : Nat) (w : World) : (logDrop b id w).dropLog = id :: w.dropLog := rfl
@[simp] theorem World.logDrop_held (b : Bool) (id : Nat) (w : World) : (logDrop b id w).held = w.held := rfl
@[simp] theorem World.logDrop_created (b : Bool) (id : Nat) (w : World) : (logDrop b id w).created = w.created := rfl
end AnyVec

namespace AnyVec
open World
@[simp] theorem World.logDrop_pendingRaw (b : Bool) (id : Nat) (w : World) : (logDrop b id w).pendingRaw = w.pendingRaw := rfl
@[simp] theorem World.logDrop_ev (b : Bool) (id : Nat) (w : World) :
    (logDrop b id w).ev = if b then Event.drop id :: w.ev else w.ev := rfl
end AnyVec
