/- what `value.move_into` may not do to the receiving vector: used by the `push_unchecked` tie -/
import AnyVecModel.Proofs.KernelMoveBase
namespace AnyVec
namespace KernelTie
open World Gen.Kernel

/-! ### "leaves the length of `dst` alone": what `value.move_into` may not do to the receiving vector -/

/-- `m`, when it returns, leaves vector `dst` with the length and liveness it had -/
def KeepsLen (dst : Nat) {α} (m : WM α) : Prop :=
  ∀ w w' a d, m w = (w', .ok a) → w.vecs[dst]? = some d →
    ∃ d', w'.vecs[dst]? = some d' ∧ d'.len = d.len ∧ d'.live = d.live

theorem KeepsLen.of_vecs {α} (dst : Nat) (m : WM α) (h : ∀ w w' a, m w = (w', .ok a) → w'.vecs = w.vecs) :
    KeepsLen dst m := by
  intro w w' a d hm hv
  exact ⟨d, by rw [h w w' a hm]; exact hv, rfl, rfl⟩

theorem KeepsLen.bind {α β} (dst : Nat) (m : WM α) (f : α → WM β) (hm : KeepsLen dst m)
    (hf : ∀ a, KeepsLen dst (f a)) : KeepsLen dst (m >>= f) := by
  intro w w' b d h hv
  simp only [WM.bind_apply] at h
  cases hmw : m w with
  | mk w1 r =>
    rw [hmw] at h
    cases r with
    | ok a =>
      obtain ⟨d1, hv1, hl1, hlv1⟩ := hm w w1 a d hmw hv
      obtain ⟨d2, hv2, hl2, hlv2⟩ := hf a w1 w' b d1 h hv1
      exact ⟨d2, hv2, by omega, by rw [hlv2, hlv1]⟩
    | panic s => cases h
    | ub s => cases h

theorem KeepsLen.pure {α} (dst : Nat) (a : α) : KeepsLen dst (Pure.pure a : WM α) :=
  KeepsLen.of_vecs dst _ (by intro w w' b h; cases h; rfl)

theorem KeepsLen.ub {α} (dst : Nat) (m : String) : KeepsLen dst (WM.ub m : WM α) := by
  intro w w' a d h; cases h

theorem KeepsLen.ite {α} (dst : Nat) (c : Prop) [Decidable c] (a b : WM α) (ha : KeepsLen dst a) (hb : KeepsLen dst b) :
    KeepsLen dst (if c then a else b) := by
  split
  · exact ha
  · exact hb

theorem KeepsLen.getVec (dst v : Nat) : KeepsLen dst (getVec v) :=
  KeepsLen.of_vecs dst _ (by
    intro w w' a h
    unfold World.getVec at h
    split at h
    · split at h
      · cases h; rfl
      · cases h
    · cases h)

theorem KeepsLen.lift {α} (dst : Nat) (r : Res α) : KeepsLen dst (WM.lift r) :=
  KeepsLen.of_vecs dst _ (by
    intro w w' a h
    cases r with
    | ok b => cases h; rfl
    | panic m => cases h
    | ub m => cases h)

theorem KeepsLen.readElem (dst v i : Nat) : KeepsLen dst (readElem v i) :=
  KeepsLen.bind dst _ _ (KeepsLen.getVec dst v) (fun x => KeepsLen.lift dst _)

theorem KeepsLen.tick (dst : Nat) : KeepsLen dst tick :=
  KeepsLen.of_vecs dst _ (by
    intro w w' a h
    unfold World.tick at h
    split at h <;> cases h <;> rfl)

theorem KeepsLen.cloneElem (dst src : Nat) : KeepsLen dst (cloneElem src) := by
  unfold World.cloneElem
  refine KeepsLen.bind dst _ _ (KeepsLen.tick dst) (fun _ => ?_)
  refine KeepsLen.bind dst _ _ (KeepsLen.of_vecs dst _ (by intro w w' a h; cases h; rfl)) (fun n => ?_)
  refine KeepsLen.bind dst _ _ (KeepsLen.of_vecs dst _ (by intro w w' a h; cases h; rfl)) (fun _ => ?_)
  exact KeepsLen.pure dst n

/-- storing an element-sized value into any vector changes no length -/
theorem KeepsLen.writeCell (dst v i : Nat) (c : Cell) : KeepsLen dst (writeCell v i c) := by
  intro w w' a d h hv
  unfold World.writeCell at h
  simp only [WM.bind_apply] at h
  cases hg : World.getVec v w with
  | mk w1 r =>
    rw [hg] at h
    cases r with
    | ok x =>
      have hw1 : w1 = w ∧ w.vecs[v]? = some x := by
        unfold World.getVec at hg
        split at hg
        · rename_i y hy
          split at hg
          · cases hg; exact ⟨rfl, hy⟩
          · cases hg
        · cases hg
      obtain ⟨rfl, hvx⟩ := hw1
      simp only at h
      unfold VecSt.writeCell at h
      by_cases hi : i < x.cap
      · simp only [hi, if_true, WM.lift_ok, setVec_apply] at h
        cases h
        by_cases hvd : v = dst
        · subst hvd
          rw [hvx] at hv; cases hv
          have hlt : v < w1.vecs.length := by
            rcases Nat.lt_or_ge v w1.vecs.length with h1 | h1
            · exact h1
            · rw [List.getElem?_eq_none h1] at hvx; cases hvx
          exact ⟨_, World.upd_get w1 v _ hlt, rfl, rfl⟩
        · exact ⟨d, by rw [World.upd_get_ne w1 v dst _ hvd]; exact hv, rfl, rfl⟩
      · simp only [hi, if_false, WM.lift] at h
        cases h
    | panic s => cases h
    | ub s => cases h

/-- a whole-vector update of another vector -/
theorem KeepsLen.setVec_ne (dst v : Nat) (x : VecSt) (h : v ≠ dst) : KeepsLen dst (setVec v x) := by
  intro w w' a d hm hv
  simp only [setVec_apply] at hm
  cases hm
  exact ⟨d, by rw [World.upd_get_ne w v dst _ h]; exact hv, rfl, rfl⟩

theorem KeepsLen.setLen_ne (dst v n : Nat) (h : v ≠ dst) : KeepsLen dst (setLen v n) := by
  unfold World.setLen
  exact KeepsLen.bind dst _ _ (KeepsLen.getVec dst _) (fun x => KeepsLen.setVec_ne dst _ _ h)

theorem KeepsLen.hSlot (dst : Nat) (h : Handle) : KeepsLen dst (hSlot h) := by
  unfold World.hSlot
  refine KeepsLen.bind dst _ _ (KeepsLen.getVec dst _) (fun x => ?_)
  cases h.kind with
  | pop => exact KeepsLen.pure dst _
  | remove i l => exact KeepsLen.pure dst _
  | swapRemove s g l => exact KeepsLen.ite dst _ _ _ (KeepsLen.pure dst _) (KeepsLen.ub dst _)

/-- consuming a handle of *another* vector -/
theorem KeepsLen.hConsume (dst : Nat) (h : Handle) (hne : h.v ≠ dst) : KeepsLen dst (hConsume h) := by
  unfold World.hConsume
  cases hk : h.kind with
  | pop => exact KeepsLen.pure dst _
  | remove i l =>
    simp only
    refine KeepsLen.bind dst _ _ ?_ (fun _ => ?_)
    · unfold World.moveElems
      refine KeepsLen.bind dst _ _ (KeepsLen.getVec dst _) (fun x => ?_)
      refine KeepsLen.bind dst _ _ (KeepsLen.lift dst _) (fun x' => ?_)
      exact KeepsLen.setVec_ne dst _ _ hne
    · exact KeepsLen.setLen_ne dst _ _ hne
  | swapRemove s g l =>
    simp only
    refine KeepsLen.bind dst _ _ (KeepsLen.hSlot dst h) (fun slot => ?_)
    refine KeepsLen.ite dst _ _ _ ?_ (KeepsLen.setLen_ne dst _ _ hne)
    refine KeepsLen.bind dst _ _ (KeepsLen.getVec dst _) (fun x => ?_)
    refine KeepsLen.ite dst _ _ _ ?_ ?_
    · exact KeepsLen.bind dst _ _ (KeepsLen.writeCell dst _ _ _) (fun _ => KeepsLen.setLen_ne dst _ _ hne)
    · exact KeepsLen.bind dst _ _ (KeepsLen.ub dst _) (fun _ => KeepsLen.setLen_ne dst _ _ hne)

/-- the vector a by-value argument borrows mutably (a removal handle borrows its vector) -/
def Val.borrows : Val → Option Nat
  | .handle h => some h.v
  | _ => none

/-- `value.move_into(slot of dst)` cannot change the length of `dst` (Rust: `dst` is borrowed by the
caller; a handle into `dst` itself cannot be passed to it) -/
theorem KeepsLen.valMoveInto (dst : Nat) (x : Val) (slot : Nat) (hne : Val.borrows x ≠ some dst) :
    KeepsLen dst (valMoveInto x dst slot) := by
  cases x with
  | wrapper id ty => exact KeepsLen.writeCell dst _ _ _
  | raw id ty => exact KeepsLen.writeCell dst _ _ _
  | handle h =>
    unfold World.valMoveInto
    refine KeepsLen.bind dst _ _ (KeepsLen.hSlot dst h) (fun s => ?_)
    refine KeepsLen.bind dst _ _ (KeepsLen.readElem dst _ _) (fun id => ?_)
    refine KeepsLen.bind dst _ _ (KeepsLen.writeCell dst _ _ _) (fun _ => ?_)
    exact KeepsLen.hConsume dst h (by intro he; apply hne; simp [Val.borrows, he])
  | elem v s =>
    unfold World.valMoveInto
    refine KeepsLen.bind dst _ _ (KeepsLen.readElem dst _ _) (fun id => ?_)
    exact KeepsLen.writeCell dst _ _ _
  | lazyElem v s =>
    unfold World.valMoveInto
    refine KeepsLen.bind dst _ _ (KeepsLen.readElem dst _ _) (fun id => ?_)
    refine KeepsLen.bind dst _ _ (KeepsLen.cloneElem dst _) (fun n => ?_)
    exact KeepsLen.writeCell dst _ _ _
  | lazyHandle h =>
    unfold World.valMoveInto
    refine KeepsLen.bind dst _ _ (KeepsLen.hSlot dst h) (fun s => ?_)
    refine KeepsLen.bind dst _ _ (KeepsLen.readElem dst _ _) (fun id => ?_)
    refine KeepsLen.bind dst _ _ (KeepsLen.cloneElem dst _) (fun n => ?_)
    exact KeepsLen.writeCell dst _ _ _


end KernelTie
end AnyVec
