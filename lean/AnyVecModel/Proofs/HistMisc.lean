/-
  The remaining single-vector operations under an arbitrary fault state: raw-parts round trips,
  `set_len` into the spare capacity, in-place swaps, value swaps and typed assignment.
-/
import AnyVecModel.Proofs.HistSplice
namespace AnyVec
open World

def rawBackend : Backend → Prop
  | .heap | .empty | .reloc => True
  | _ => False

theorem fromRaw_intoRaw (x : VecSt) (hl : x.live = true) : VecSt.fromRawParts x.intoRawParts = x := by
  cases x
  simp_all [VecSt.fromRawParts, VecSt.intoRawParts]

theorem step_rawrt_inv (cfg : Cfg) (w : World) (v : Nat) (d : VecSt) (h : w.Inv)
    (hv : w.vecs[v]? = some d) (hl : d.live = true) (hb : rawBackend d.bk) :
    (step cfg (.rawrt v) w).1.Inv ∧ (step cfg (.rawrt v) w).2.notUb := by
  have e : step cfg (.rawrt v) w = (w, .ok []) := by
    simp only [step, WM.bind_apply, getVec_ok w v d hv hl]
    cases hbk : d.bk <;> simp_all [rawBackend, fromRaw_intoRaw, World.upd_self w v d hv]
  rw [e]; exact ⟨h, trivial⟩

theorem step_rawparts_inv (cfg : Cfg) (w : World) (v : Nat) (d : VecSt) (h : w.Inv)
    (hv : w.vecs[v]? = some d) (hl : d.live = true) (hb : rawBackend d.bk) :
    (step cfg (.rawparts v) w).1.Inv ∧ (step cfg (.rawparts v) w).2.notUb := by
  have e : ∃ o, step cfg (.rawparts v) w = (w, .ok o) := by
    simp only [step, WM.bind_apply, getVec_ok w v d hv hl]
    cases hbk : d.bk <;> simp_all [rawBackend, fromRaw_intoRaw, World.upd_self w v d hv]
  obtain ⟨o, e⟩ := e
  rw [e]; exact ⟨h, trivial⟩


/-- the caller writes `k` fresh values into the spare capacity -/
theorem writeFresh_full (v : Nat) (k : Nat) : ∀ (w : World) (x : VecSt) (i : Nat), w.vecs[v]? = some x → x.live = true →
    i + k ≤ x.cap →
    ∃ x', writeFresh v i k w = ({ w.upd v x' with created := w.created + k }, .ok ()) ∧
      x'.len = x.len ∧ x'.cap = x.cap ∧ x'.live = true ∧ x.cells.length ≤ x'.cells.length ∧
      x'.cells.length ≤ max x.cells.length (i + k) ∧
      (∀ t, t < i → x'.cells.get t = x.cells.get t) ∧
      (∀ t, t < k → x'.cells.get (i + t) = .val (w.created + t)) := by
  induction k with
  | zero =>
    intro w x i hv hl _
    refine ⟨x, ?_, rfl, rfl, hl, Nat.le_refl _, by omega, fun _ _ => rfl, fun t ht => absurd ht (by omega)⟩
    simp only [writeFresh, WM.pure_apply, World.upd_self w v x hv, Nat.add_zero]
  | succ k ih =>
    intro w x i hv hl hcap
    have hlt : v < w.vecs.length := (List.getElem?_eq_some_iff.mp hv).1
    have hb : i < x.cap := by omega
    let x1 : VecSt := { x with cells := (x.cells.ensure (i + 1)).set i (.val w.created) }
    let w1 : World := ({ w with created := w.created + 1 } : World).upd v x1
    have hv1 : w1.vecs[v]? = some x1 := by simp [w1, hlt]
    obtain ⟨x', he, k1, k2, k3, k4, k5, k6, k7⟩ := ih w1 x1 (i + 1) hv1 hl (by show i + 1 + k ≤ x.cap; omega)
    have hstep : writeFresh v i (k + 1) w = writeFresh v (i + 1) k w1 := by
      have hvb : ({ w with created := w.created + 1 } : World).vecs[v]? = some x := hv
      simp only [writeFresh, WM.bind_apply, fresh, World.writeCell, getVec_ok _ v x hvb hl, WM.lift,
        VecSt.writeCell_ok x i _ hb, setVec_apply]
      rfl
    have hx1len : x1.cells.length = max x.cells.length (i + 1) := by simp [x1]
    refine ⟨x', ?_, by simpa [x1] using k1, by simpa [x1] using k2, k3, by rw [hx1len] at k4; omega,
      by rw [hx1len] at k5; omega, ?_, ?_⟩
    · rw [hstep, he]
      simp [World.upd, w1, Nat.add_assoc, Nat.add_comm 1 k]
    · intro t ht
      rw [k6 t (by omega)]
      simp only [x1]
      rw [get_set_ne _ _ _ _ (by omega), ensure_get]
    · intro t ht
      cases t with
      | zero =>
        rw [Nat.add_zero, k6 i (by omega)]
        simp only [x1]
        rw [get_set_self _ _ _ (by simp; omega)]
        simp
      | succ t =>
        have := k7 t (by omega)
        rw [show i + (t + 1) = i + 1 + t by omega, this]
        simp [w1]; omega

theorem step_setLenSpare_inv (cfg : Cfg) (w : World) (v k : Nat) (typed : Bool) (d : VecSt) (h : w.Inv)
    (hv : w.vecs[v]? = some d) (hl : d.live = true) (hroom : d.len + k ≤ d.cap) :
    (step cfg (.setLenSpare v k typed) w).1.Inv ∧ (step cfg (.setLenSpare v k typed) w).2.notUb := by
  have hlt : v < w.vecs.length := (List.getElem?_eq_some_iff.mp hv).1
  have hg := h.good v d hv
  have hw1 := hg.wf.len_le; have hw2 := hg.wf.cells_le
  obtain ⟨x', he, k1, k2, k3, k4, k5, k6, k7⟩ := writeFresh_full v k w d d.len hv hl hroom
  generalize hw1 : ({ w.upd v x' with created := w.created + k } : World) = w1 at he
  have hv1 : w1.vecs[v]? = some x' := by rw [← hw1]; simp [hlt]
  have e : step cfg (.setLenSpare v k typed) w = (w1.upd v { x' with len := d.len + k }, .ok []) := by
    simp only [step, WM.bind_apply, getVec_ok w v d hv hl, hroom, if_true, he, setLen,
      getVec_ok w1 v x' hv1 k3, setVec_apply, WM.pure_apply]
  rw [e]
  refine ⟨?_, trivial⟩
  have hcge : d.len + k ≤ x'.cells.length := by
    by_cases hk0 : k = 0
    · omega
    · have := k7 (k - 1) (by omega)
      by_cases hlt' : d.len + (k - 1) < x'.cells.length
      · omega
      · simp [Mem.get, List.getD_eq_getElem?_getD,
          List.getElem?_eq_none (by omega : x'.cells.length ≤ d.len + (k - 1))] at this
  have hfresh : ∀ t, t < k → ({ x' with len := d.len + k } : VecSt).cells.get (d.len + t) =
      .val ((List.range' w.created k).getD t 0) := by
    intro t ht
    show x'.cells.get (d.len + t) = _
    rw [k7 t ht]
    simp [List.getD_eq_getElem?_getD, List.getElem?_range', ht]
  obtain ⟨habs, hgood⟩ := splice_final d hg d.len d.len k (List.range' w.created k) (Nat.le_refl _) (Nat.le_refl _)
    { x' with len := d.len + k } (by simp) (by simp) hcge
    (by show x'.cells.length ≤ x'.cap; rw [k2]; omega) k6 hfresh (fun t ht => absurd ht (by omega))
  refine h.local_erase' v d _ k [] [] [] hv ?_ hgood ?_
  · rw [← hw1]; simp [World.upd, World.erase]
  · rw [habs]
    simp only [List.map_nil, List.append_nil, seg_self, List.take_of_length_le (by simp : (List.range' w.created k).length ≤ k)]
    have hl0 : seg d.abs 0 d.len = d.abs := by
      have := seg_zero_length d.abs; rw [VecSt.abs_length hg.wf] at this; exact this
    rw [hl0, freshCells_eq]
    exact Leq.of_perm List.perm_append_comm


/-- overwrite the visible slot `i` -/
def VecSt.setCell (d : VecSt) (i : Nat) (c : Cell) : VecSt := { d with cells := (d.cells.ensure (i + 1)).set i c }

theorem VecSt.setCell_abs (d : VecSt) (i : Nat) (c : Cell) (hwf : d.WF) (hi : i < d.len) :
    (d.setCell i c).abs = d.abs.set i c := by
  have h1 := hwf.len_le
  simp only [VecSt.setCell, VecSt.abs]
  rw [ensure_of_le _ _ (by omega), List.take_set]

theorem VecSt.setCell_wf (d : VecSt) (i : Nat) (c : Cell) (hwf : d.WF) (hi : i < d.len) : (d.setCell i c).WF := by
  have h1 := hwf.len_le; have h2 := hwf.cells_le
  constructor <;> simp [VecSt.setCell] <;> omega

theorem writeCell_setCell (w : World) (v i : Nat) (c : Cell) (d : VecSt) (hv : w.vecs[v]? = some d) (hl : d.live = true)
    (hi : i < d.cap) : World.writeCell v i c w = (w.upd v (d.setCell i c), .ok ()) := by
  simp only [World.writeCell, WM.bind_apply, getVec_ok w v d hv hl, WM.lift, VecSt.writeCell_ok d i c hi, setVec_apply]
  rfl

theorem set_count {α} [DecidableEq α] (l : List α) (i : Nat) (c a : α) (hi : i < l.length) :
    (l.set i c).count a + (if l[i] = a then 1 else 0) = l.count a + (if c = a then 1 else 0) := by
  have h1 := List.count_set (a := c) (b := a) hi
  have h2 := List.boole_getElem_le_count (a := a) hi
  simp only [beq_iff_eq] at h1 h2
  omega

/-- a value swapped into slot `i` (`AnyValueMut::swap`, typed `*slot = x`): the old element leaves -/
theorem setCell_leq (d : VecSt) (hg : d.Good) (i old fid : Nat) (hi : i < d.len) (hc : d.cells.get i = .val old) :
    (d.setCell i (.val fid)).Good ∧
      Leq ((d.setCell i (.val fid)).abs ++ ([].map Cell.val ++ [old].map Cell.val ++ [].map Cell.val))
        (freshCells fid 1 ++ d.abs) := by
  obtain ⟨hlt, hget⟩ := d.abs_get i old hg.wf hi hc
  have habs := d.setCell_abs i (.val fid) hg.wf hi
  refine ⟨⟨d.setCell_wf i _ hg.wf hi, ?_⟩, ?_⟩
  · intro c hc'
    rw [habs] at hc'
    rcases List.mem_or_eq_of_mem_set hc' with h | h
    · exact hg.allVal c h
    · exact ⟨fid, h⟩
  · rw [habs, Leq_iff_count]
    intro a
    have := set_count d.abs i (Cell.val fid) a hlt
    rw [hget] at this
    simp only [List.map_nil, List.map_cons, List.nil_append, List.append_nil, List.count_append, List.count_cons,
      List.count_nil, freshCells, List.range'_one, beq_iff_eq]
    omega


/-- a fresh value that never reached a vector and is destroyed on the spot -/
theorem fresh_dropped_inv (w : World) (h : w.Inv) (v : Nat) (d : VecSt) (hv : w.vecs[v]? = some d) (w' : World)
    (he : w'.erase = { w.bump.erase with dropLog := w.created :: w.dropLog }) : w'.Inv :=
  reject_inv h v d hv [w.created] [] rfl he

theorem step_wswap_inv (cfg : Cfg) (w : World) (v i ty : Nat) (d : VecSt) (h : w.Inv)
    (hv : w.vecs[v]? = some d) (hl : d.live = true) :
    (step cfg (.wswap v i ty) w).1.Inv ∧ (step cfg (.wswap v i ty) w).2.notUb := by
  have hg := h.good v d hv
  have hlc := hg.wf.len_le_cap
  have hvb : w.bump.vecs[v]? = some d := hv
  by_cases hi : i < d.len
  · by_cases hty : ty = d.ty
    · obtain ⟨old, hc⟩ := hg.get i hi
      have hread : readElem v i w.bump = (w.bump, .ok old) := by
        simp only [readElem, WM.bind_apply, getVec_ok _ v d hvb hl, WM.lift, VecSt.readElem_ok d i old (by omega) hc]
      have hwr := writeCell_setCell w.bump v i (.val w.created) d hvb hl (by omega)
      obtain ⟨e1, e5⟩ := dropElem_erase cfg.hasDrop old (w.bump.upd v (d.setCell i (.val w.created)))
      have hstep : step cfg (.wswap v i ty) w =
          (do dropElem cfg.hasDrop old; pure [cfg.tok old] : WM Out) (w.bump.upd v (d.setCell i (.val w.created))) := by
        simp only [step, WM.bind_apply, getVec_ok w v d hv hl, hi, if_true, fresh, hty, ne_eq, not_true_eq_false,
          if_false]
        rw [show ({ w with created := w.created + 1 } : World) = w.bump from rfl]
        simp only [hread, hwr, WM.bind_apply]
      rw [hstep]
      apply then_pure_inv
      obtain ⟨hgood, hleq⟩ := setCell_leq d hg i old w.created hi hc
      cases hde : dropElem cfg.hasDrop old (w.bump.upd v (d.setCell i (.val w.created))) with
      | mk w1 res =>
        rw [hde] at e1 e5
        simp only at e1 e5
        have hinv : w1.Inv := h.local_erase' v d _ 1 [] [old] [] hv (by rw [e1]; simp [World.bump, World.upd, World.erase])
          hgood hleq
        rcases e5 with hok | ⟨m, hp⟩
        · subst hok; exact ⟨hinv, trivial⟩
        · subst hp; exact ⟨hinv, trivial⟩
    · obtain ⟨e1, e5⟩ := dropElem_erase cfg.hasDrop w.created { w.bump with fault := none }
      have hstep : step cfg (.wswap v i ty) w =
          WM.onUnwind (WM.panic "assertion `left == right` failed" : WM Out) (dropElem cfg.hasDrop w.created) w.bump := by
        simp only [step, WM.bind_apply, getVec_ok w v d hv hl, hi, if_true, fresh, hty, ne_eq, not_false_eq_true]
        rfl
      rw [hstep, onUnwind_after_panic _ _ w.bump { w.bump with fault := none } _ rfl e5]
      exact ⟨fresh_dropped_inv w h v d hv _ (by rw [e1]; rfl), trivial⟩
  · have e : step cfg (.wswap v i ty) w = (WM.panic "called `Option::unwrap()` on a `None` value" : WM Out) w := by
      simp only [step, WM.bind_apply, getVec_ok w v d hv hl, hi, if_false]
    rw [e]; exact panic_inv w h _

theorem step_tassign_inv (cfg : Cfg) (w : World) (v i : Nat) (d : VecSt) (h : w.Inv)
    (hv : w.vecs[v]? = some d) (hl : d.live = true) :
    (step cfg (.tassign v i) w).1.Inv ∧ (step cfg (.tassign v i) w).2.notUb := by
  have hg := h.good v d hv
  have hlc := hg.wf.len_le_cap
  have hvb : w.bump.vecs[v]? = some d := hv
  by_cases hi : i < d.len
  · obtain ⟨old, hc⟩ := hg.get i hi
    have hread : readElem v i w.bump = (w.bump, .ok old) := by
      simp only [readElem, WM.bind_apply, getVec_ok _ v d hvb hl, WM.lift, VecSt.readElem_ok d i old (by omega) hc]
    obtain ⟨e1, e5⟩ := dropElem_erase d.hasDrop old w.bump
    obtain ⟨hgood, hleq⟩ := setCell_leq d hg i old w.created hi hc
    have hstep : step cfg (.tassign v i) w =
        (do WM.onUnwind (dropElem d.hasDrop old) (World.writeCell v i (.val w.created))
            World.writeCell v i (.val w.created)
            pure [] : WM Out) w.bump := by
      simp only [step, WM.bind_apply, getVec_ok w v d hv hl, fresh, hi, if_true]
      rw [show ({ w with created := w.created + 1 } : World) = w.bump from rfl]
      simp only [hread, WM.bind_apply]
    rw [hstep]
    simp only [WM.bind_apply, WM.onUnwind, WM.pure_apply]
    cases hde : dropElem d.hasDrop old w.bump with
    | mk w1 res =>
      rw [hde] at e1 e5
      simp only at e1 e5
      have e2 : w1.vecs = w.vecs := by have := congrArg World.vecs e1; exact this
      have hv1 : w1.vecs[v]? = some d := by rw [e2]; exact hv
      have hwr := writeCell_setCell w1 v i (.val w.created) d hv1 hl (by omega)
      have hinv : (w1.upd v (d.setCell i (.val w.created))).Inv :=
        h.local_erase' v d _ 1 [] [old] [] hv (by simp only [World.erase_upd, e1]; simp [World.bump, World.upd, World.erase])
          hgood hleq
      rcases e5 with hok | ⟨m, hp⟩
      · subst hok
        simp only [hwr]
        exact ⟨hinv, trivial⟩
      · subst hp
        simp only [hwr]
        exact ⟨hinv, trivial⟩
  · obtain ⟨e1, e5⟩ := dropElem_erase cfg.hasDrop w.created { w.bump with fault := none }
    have hstep : step cfg (.tassign v i) w =
        WM.onUnwind (WM.panic "called `Option::unwrap()` on a `None` value" : WM Out) (dropElem cfg.hasDrop w.created) w.bump := by
      simp only [step, WM.bind_apply, getVec_ok w v d hv hl, fresh, hi, if_false]
      rfl
    rw [hstep, onUnwind_after_panic _ _ w.bump { w.bump with fault := none } _ rfl e5]
    exact ⟨fresh_dropped_inv w h v d hv _ (by rw [e1]; rfl), trivial⟩


theorem swap_list_perm {α} [DecidableEq α] (l : List α) (i j : Nat) (hi : i < l.length) (hj : j < l.length) :
    ((l.set i l[j]).set j l[i]).Perm l := by
  rw [List.perm_iff_count]
  intro a
  have h1 := set_count l i l[j] a hi
  have hj' : j < (l.set i l[j]).length := by simpa using hj
  have h2 := set_count (l.set i l[j]) j l[i] a hj'
  by_cases hij : i = j
  · subst hij
    simp only [List.getElem_set_self] at h2
    omega
  · have : (l.set i l[j])[j] = l[j] := by simp [List.getElem_set, hij]
    rw [this] at h2
    omega

theorem cells_get_abs (d : VecSt) (hwf : d.WF) (i : Nat) (hi : i < d.len) :
    ∃ h : i < d.abs.length, d.cells.get i = d.abs[i] := by
  have h1 := hwf.len_le
  refine ⟨by rw [VecSt.abs_length hwf]; exact hi, ?_⟩
  simp [VecSt.abs, Mem.get, List.getD_eq_getElem?_getD, (by omega : i < d.cells.length)]

/-- two visible slots exchanged in place -/
theorem swapCells_good (d : VecSt) (hg : d.Good) (i j : Nat) (hi : i < d.len) (hj : j < d.len) :
    ((d.setCell i (d.cells.get j)).setCell j (d.cells.get i)).Good ∧
      ((d.setCell i (d.cells.get j)).setCell j (d.cells.get i)).abs.Perm d.abs := by
  obtain ⟨hi', gi⟩ := cells_get_abs d hg.wf i hi
  obtain ⟨hj', gj⟩ := cells_get_abs d hg.wf j hj
  have hwf1 := d.setCell_wf i (d.cells.get j) hg.wf hi
  have hlen1 : (d.setCell i (d.cells.get j)).len = d.len := rfl
  have habs : ((d.setCell i (d.cells.get j)).setCell j (d.cells.get i)).abs = (d.abs.set i d.abs[j]).set j d.abs[i] := by
    rw [VecSt.setCell_abs _ j _ hwf1 (by rw [hlen1]; exact hj), VecSt.setCell_abs d i _ hg.wf hi, gi, gj]
  have hperm : ((d.setCell i (d.cells.get j)).setCell j (d.cells.get i)).abs.Perm d.abs := by
    rw [habs]; exact swap_list_perm d.abs i j hi' hj'
  refine ⟨⟨VecSt.setCell_wf _ j _ hwf1 (by rw [hlen1]; exact hj), ?_⟩, hperm⟩
  intro c hc
  exact hg.allVal c (hperm.subset hc)

theorem swap_exec (w : World) (v i j : Nat) (d : VecSt) (hv : w.vecs[v]? = some d) (hl : d.live = true)
    (hwf : d.WF) (hi : i < d.len) (hj : j < d.len) :
    (do World.writeCell v i (d.cells.get j); World.writeCell v j (d.cells.get i); pure [] : WM Out) w =
      (w.upd v ((d.setCell i (d.cells.get j)).setCell j (d.cells.get i)), .ok []) := by
  have hlt : v < w.vecs.length := (List.getElem?_eq_some_iff.mp hv).1
  have hlc := hwf.len_le_cap
  have h1 := writeCell_setCell w v i (d.cells.get j) d hv hl (by omega)
  have hv1 : (w.upd v (d.setCell i (d.cells.get j))).vecs[v]? = some (d.setCell i (d.cells.get j)) := by simp [hlt]
  have h2 := writeCell_setCell _ v j (d.cells.get i) _ hv1 (by show d.live = true; exact hl) (by show j < d.cap; omega)
  simp only [WM.bind_apply, h1, h2, WM.pure_apply, World.upd_upd]

theorem step_swapb_inv (cfg : Cfg) (w : World) (v i j : Nat) (d : VecSt) (h : w.Inv)
    (hv : w.vecs[v]? = some d) (hl : d.live = true) (hi : i < d.len) (hj : j < d.len) :
    (step cfg (.swapb v i j) w).1.Inv ∧ (step cfg (.swapb v i j) w).2.notUb := by
  have hg := h.good v d hv
  have e : step cfg (.swapb v i j) w = (w.upd v ((d.setCell i (d.cells.get j)).setCell j (d.cells.get i)), .ok []) := by
    simp only [step, WM.bind_apply, getVec_ok w v d hv hl, hi, hj, and_self, if_true]
    exact swap_exec w v i j d hv hl hg.wf hi hj
  rw [e]
  obtain ⟨hgood, hperm⟩ := swapCells_good d hg i j hi hj
  exact ⟨h.local_erase v d _ [] [] hv rfl hgood (by simpa using Leq.of_perm hperm), trivial⟩

theorem step_tswap_inv (cfg : Cfg) (w : World) (v i j : Nat) (d : VecSt) (h : w.Inv)
    (hv : w.vecs[v]? = some d) (hl : d.live = true) :
    (step cfg (.tswap v i j) w).1.Inv ∧ (step cfg (.tswap v i j) w).2.notUb := by
  have hg := h.good v d hv
  by_cases hij : i < d.len ∧ j < d.len
  · obtain ⟨hi, hj⟩ := hij
    have e : step cfg (.tswap v i j) w = (w.upd v ((d.setCell i (d.cells.get j)).setCell j (d.cells.get i)), .ok []) := by
      simp only [step, WM.bind_apply, getVec_ok w v d hv hl, hi, hj, and_self, if_true]
      exact swap_exec w v i j d hv hl hg.wf hi hj
    rw [e]
    obtain ⟨hgood, hperm⟩ := swapCells_good d hg i j hi hj
    exact ⟨h.local_erase v d _ [] [] hv rfl hgood (by simpa using Leq.of_perm hperm), trivial⟩
  · have e : step cfg (.tswap v i j) w = (WM.panic "index out of bounds" : WM Out) w := by
      simp only [step, WM.bind_apply, getVec_ok w v d hv hl, hij, if_false]
    rw [e]; exact panic_inv w h _


theorem step_eswap_inv (cfg : Cfg) (w : World) (v i u j : Nat) (d du : VecSt) (h : w.Inv) (hne : v ≠ u)
    (hv : w.vecs[v]? = some d) (hl : d.live = true) (hu : w.vecs[u]? = some du) (hlu : du.live = true) :
    (step cfg (.eswap v i u j) w).1.Inv ∧ (step cfg (.eswap v i u j) w).2.notUb := by
  have hg := h.good v d hv
  have hgu := h.good u du hu
  have hvlt : v < w.vecs.length := (List.getElem?_eq_some_iff.mp hv).1
  by_cases hi : i < d.len
  · by_cases hj : j < du.len
    · by_cases hty : d.ty = du.ty
      · have hlc := hg.wf.len_le_cap
        have hlcu := hgu.wf.len_le_cap
        have h1 := writeCell_setCell w v i (du.cells.get j) d hv hl (by omega)
        have hu1 : (w.upd v (d.setCell i (du.cells.get j))).vecs[u]? = some du := by
          show (w.vecs.set v _)[u]? = _; rw [List.getElem?_set_ne hne]; exact hu
        have h2 := writeCell_setCell _ u j (d.cells.get i) du hu1 hlu (by omega)
        have e : step cfg (.eswap v i u j) w =
            ((w.upd v (d.setCell i (du.cells.get j))).upd u (du.setCell j (d.cells.get i)), .ok []) := by
          simp only [step, WM.bind_apply, getVec_ok w v d hv hl, getVec_ok w u du hu hlu, hne, if_false, hi, hj, if_true,
            hty, ne_eq, not_true_eq_false, h1, h2, WM.pure_apply]
        rw [e]
        refine ⟨?_, trivial⟩
        obtain ⟨hi', gi⟩ := cells_get_abs d hg.wf i hi
        obtain ⟨hj', gj⟩ := cells_get_abs du hgu.wf j hj
        have ha1 := d.setCell_abs i (du.cells.get j) hg.wf hi
        have ha2 := du.setCell_abs j (d.cells.get i) hgu.wf hj
        have hc1 : ∀ a, ((d.setCell i (du.cells.get j)).abs ++ (du.setCell j (d.cells.get i)).abs).count a =
            (d.abs ++ du.abs).count a := by
          intro a
          have q1 := set_count d.abs i (du.cells.get j) a hi'
          have q2 := set_count du.abs j (d.cells.get i) a hj'
          rw [ha1, ha2, gi, gj] at *
          simp only [List.count_append]
          omega
        have hperm : ((d.setCell i (du.cells.get j)).abs ++ (du.setCell j (d.cells.get i)).abs).Perm (d.abs ++ du.abs) :=
          List.perm_iff_count.mpr hc1
        have hgood1 : (d.setCell i (du.cells.get j)).Good := by
          refine ⟨d.setCell_wf i _ hg.wf hi, ?_⟩
          intro c hc
          rcases List.mem_append.mp (hperm.subset (List.mem_append_left _ hc)) with hh | hh
          · exact hg.allVal c hh
          · exact hgu.allVal c hh
        have hgood2 : (du.setCell j (d.cells.get i)).Good := by
          refine ⟨du.setCell_wf j _ hgu.wf hj, ?_⟩
          intro c hc
          rcases List.mem_append.mp (hperm.subset (List.mem_append_right _ hc)) with hh | hh
          · exact hg.allVal c hh
          · exact hgu.allVal c hh
        exact h.local2 v u d du _ _ hne [] [] hv hu rfl hgood1 hgood2 (by simpa using Leq.of_perm hperm)
      · have e : step cfg (.eswap v i u j) w = (WM.panic "assertion `left == right` failed" : WM Out) w := by
          simp only [step, WM.bind_apply, getVec_ok w v d hv hl, getVec_ok w u du hu hlu, hne, if_false, hi, hj, if_true,
            hty, ne_eq, not_false_eq_true]
        rw [e]; exact panic_inv w h _
    · have e : step cfg (.eswap v i u j) w = (WM.panic "called `Option::unwrap()` on a `None` value" : WM Out) w := by
        simp only [step, WM.bind_apply, getVec_ok w v d hv hl, getVec_ok w u du hu hlu, hne, if_false, hi, hj, if_true]
      rw [e]; exact panic_inv w h _
  · have e : step cfg (.eswap v i u j) w = (WM.panic "called `Option::unwrap()` on a `None` value" : WM Out) w := by
      simp only [step, WM.bind_apply, getVec_ok w v d hv hl, getVec_ok w u du hu hlu, hne, if_false, hi]
    rw [e]; exact panic_inv w h _

end AnyVec
