/-
  Ownership bookkeeping at list level: everything that has ever been placed in a vector is in
  exactly one of: visible in a vector, held by the caller, destroyed (`dropLog`).
-/
import AnyVecModel.Proofs.Exec
namespace AnyVec
open World

/-- all elements currently visible in some vector, vector by vector -/
def World.allVis (w : World) : List Cell := (w.vecs.map VecSt.abs).flatten

/-- visible ++ held ++ destroyed -/
def World.owned (w : World) : List Cell :=
  w.allVis ++ (w.held.map Cell.val ++ w.dropLog.map Cell.val)

theorem flatten_set_perm {α} (ls : List (List α)) (v : Nat) (l l' extra : List α)
    (hv : ls[v]? = some l) (h : (l' ++ extra).Perm l) :
    ((ls.set v l').flatten ++ extra).Perm ls.flatten := by
  have hlt : v < ls.length := (List.getElem?_eq_some_iff.mp hv).1
  have hd : ls[v] = l := (List.getElem?_eq_some_iff.mp hv).2
  have e1 : ls.set v l' = ls.take v ++ l' :: ls.drop (v + 1) := List.set_eq_take_append_cons_drop.trans (by simp [hlt])
  have e2 : ls = ls.take v ++ l :: ls.drop (v + 1) := by
    conv => lhs; rw [← List.take_append_drop v ls]
    rw [List.drop_eq_getElem_cons hlt, hd]
  rw [e1]
  conv => rhs; rw [e2]
  simp only [List.flatten_append, List.flatten_cons, List.append_assoc]
  apply List.Perm.append_left
  -- l' ++ (rest ++ extra) ~ l ++ rest
  have : (l' ++ ((ls.drop (v + 1)).flatten ++ extra)).Perm ((l' ++ extra) ++ (ls.drop (v + 1)).flatten) := by
    rw [List.append_assoc]
    exact List.Perm.append_left _ List.perm_append_comm
  exact this.trans (List.Perm.append_right _ h)

/-- replacing the contents of vector `v` by a permutation-with-remainder: the visible elements of
the world change by exactly that remainder -/
theorem allVis_set_perm (w : World) (v : Nat) (d d' : VecSt) (extra : List Cell)
    (hv : w.vecs[v]? = some d) (h : (d'.abs ++ extra).Perm d.abs) (es : List Event) (log held : List Nat) :
    (({ w with vecs := w.vecs.set v d', ev := es, dropLog := log, held := held } : World).allVis ++ extra).Perm
      w.allVis := by
  simp only [World.allVis, List.map_set]
  exact flatten_set_perm _ v d.abs d'.abs extra (by simp [hv]) h

theorem eraseIdx_perm {α} (l : List α) (i : Nat) (h : i < l.length) : (l.eraseIdx i ++ [l[i]]).Perm l := by
  have e2 : l = l.take i ++ l[i] :: l.drop (i + 1) := by
    conv => lhs; rw [← List.take_append_drop i l]
    rw [List.drop_eq_getElem_cons h]
  rw [List.eraseIdx_eq_take_drop_succ]
  conv => rhs; rw [e2]
  rw [List.append_assoc]
  apply List.Perm.append_left
  exact List.perm_append_comm.trans (by simp)

end AnyVec
