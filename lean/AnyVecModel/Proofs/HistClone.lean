/-
  `clone()` under an arbitrary fault state: each source element is cloned at most once, in order;
  if an element's `Clone` panics the half-built vector is released with length 0 (the clones made
  so far are leaked), the source is untouched.
-/
import AnyVecModel.Proofs.HistDrain
namespace AnyVec
open World

/-- one user-code call: only the fault countdown changes; it returns or panics -/
theorem tick_shape (w : World) :
    ∃ f', (tick w = ({ w with fault := f' }, .ok ())) ∨ (∃ m, tick w = ({ w with fault := f' }, .panic m)) := by
  unfold tick
  cases hfl : w.fault with
  | none => exact ⟨none, Or.inl (by simp [← hfl])⟩
  | some k =>
    match k with
    | 0 => exact ⟨none, Or.inl rfl⟩
    | 1 => exact ⟨none, Or.inr ⟨_, rfl⟩⟩
    | k+2 => exact ⟨some (k+1), Or.inl rfl⟩

/-- the clone loop at every crash point -/
theorem cloneLoop_any (src dst : Nat) (s : VecSt) (hsd : src ≠ dst) (hsl : s.live = true) (k : Nat) :
    ∀ (w : World) (n : VecSt) (i : Nat), w.vecs[src]? = some s → i + k ≤ s.cap → s.InitRange i k →
      w.vecs[dst]? = some n → n.live = true → i + k ≤ n.cap →
    ∃ j n', j ≤ k ∧
      (cloneLoop src dst i k w).1.erase = { (w.upd dst n').erase with created := w.created + j } ∧
      n'.len = n.len ∧ n'.cap = n.cap ∧ n'.live = true ∧
      n'.cells.length ≤ max n.cells.length (i + j) ∧
      (∀ t, t < i → n'.cells.get t = n.cells.get t) ∧
      (∀ t, t < j → n'.cells.get (i + t) = .val (w.created + t)) ∧
      ((j = k ∧ (cloneLoop src dst i k w).2 = .ok ()) ∨ (j < k ∧ ∃ m, (cloneLoop src dst i k w).2 = .panic m)) := by
  induction k with
  | zero =>
    intro w n i hs _ _ hn hnl _
    refine ⟨0, n, Nat.le_refl _, ?_, rfl, rfl, hnl, by omega, fun _ _ => rfl, fun t ht => absurd ht (by omega),
      Or.inl ⟨rfl, rfl⟩⟩
    simp only [cloneLoop, WM.pure_apply, Nat.add_zero]
    rw [World.upd_self w dst n hn]
    rfl
  | succ k ih =>
    intro w n i hs hscap hsinit hn hnl hncap
    have hslt : src < w.vecs.length := (List.getElem?_eq_some_iff.mp hs).1
    have hsdd : w.vecs[src] = s := (List.getElem?_eq_some_iff.mp hs).2
    have hnlt : dst < w.vecs.length := (List.getElem?_eq_some_iff.mp hn).1
    have hndd : w.vecs[dst] = n := (List.getElem?_eq_some_iff.mp hn).2
    obtain ⟨id, hid⟩ := hsinit 0 (by omega)
    simp at hid
    have hbs : i < s.cap := by omega
    have hbn : i < n.cap := by omega
    obtain ⟨f', htk | ⟨m, htk⟩⟩ := tick_shape w
    · -- the clone was made: it gets the next identity and lands in slot `i` of the destination
      let n1 : VecSt := { n with cells := (n.cells.ensure (i + 1)).set i (.val w.created), live := true }
      let w1 : World := { w with vecs := w.vecs.set dst n1, created := w.created + 1,
                                 ev := Event.clone id w.created :: w.ev, fault := f' }
      have hs1 : w1.vecs[src]? = some s := by simp [w1, List.getElem?_set, Ne.symm hsd, hs]
      have hn1 : w1.vecs[dst]? = some n1 := by simp [w1, hnlt]
      obtain ⟨j, n', hj, he, h1, h2, h3, h4, h6, h7, hres⟩ := ih w1 n1 (i + 1) hs1 (by omega)
        (by intro t ht; have := hsinit (t + 1) (by omega); rw [show i + 1 + t = i + (t + 1) by omega]; exact this)
        hn1 rfl (by show i + 1 + k ≤ n.cap; omega)
      have hstep : cloneLoop src dst i (k + 1) w = cloneLoop src dst (i + 1) k w1 := by
        simp [cloneLoop, readElem, getVec, hslt, hsdd, hsl, VecSt.readElem_ok, hbs, hid, cloneElem, htk, fresh,
          World.writeCell, hnlt, hndd, hnl, VecSt.writeCell_ok, hbn, World.upd, w1, n1]
      rw [hstep]
      refine ⟨j + 1, n', by omega, ?_, by simpa [n1] using h1, by simpa [n1] using h2, h3, ?_, ?_, ?_, ?_⟩
      · rw [he]
        simp only [World.erase, World.upd, w1, List.set_set]
        simp [Nat.add_assoc, Nat.add_comm 1 j]
      · have : n1.cells.length = max n.cells.length (i + 1) := by simp [n1]
        rw [this] at h4; omega
      · intro t ht
        rw [h6 t (by omega)]
        simp only [n1]
        rw [get_set_ne _ _ _ _ (by omega), ensure_get]
      · intro t ht
        cases t with
        | zero =>
          rw [Nat.add_zero, h6 i (by omega)]
          simp only [n1]
          rw [get_set_self _ _ _ (by simp; omega)]
          simp
        | succ t =>
          have := h7 t (by omega)
          simp only [w1] at this
          rw [show i + (t + 1) = i + 1 + t by omega, this]
          congr 1; omega
      · rcases hres with ⟨r1, r2⟩ | ⟨r1, r2⟩
        · exact Or.inl ⟨by omega, r2⟩
        · exact Or.inr ⟨by omega, r2⟩
    · have hstep : cloneLoop src dst i (k + 1) w = ({ w with fault := f' }, .panic m) := by
        simp [cloneLoop, readElem, getVec, hslt, hsdd, hsl, VecSt.readElem_ok, hbs, hid, cloneElem, htk]
      rw [hstep]
      refine ⟨0, n, Nat.zero_le _, ?_, rfl, rfl, hnl, by omega, fun _ _ => rfl, fun t ht => absurd ht (by omega),
        Or.inr ⟨Nat.succ_pos _, m, rfl⟩⟩
      simp only [Nat.add_zero]
      rw [World.upd_self w dst n hn]
      rfl


/-- releasing a half-built vector while unwinding: `len := 0`, then the vector is dropped -/
theorem cleanup_inv (wx : World) (idx : Nat) (nx : VecSt) (h : wx.Inv) (hv : wx.vecs[idx]? = some nx)
    (hl : nx.live = true) :
    ((do setLen idx 0; dropVec idx : WM Unit) wx).1.Inv ∧ ((do setLen idx 0; dropVec idx : WM Unit) wx).2.notUb := by
  have hlt : idx < wx.vecs.length := (List.getElem?_eq_some_iff.mp hv).1
  have hg := h.good idx nx hv
  have hg0 : ({ nx with len := 0 } : VecSt).Good :=
    VecSt.good_of_sub hg ⟨by simp, hg.wf.cells_le⟩ (by intro c hc; simp [VecSt.abs] at hc)
  have h0 : (wx.upd idx { nx with len := 0 }).Inv :=
    h.local_erase idx nx _ [] [] hv rfl hg0 (by simpa [VecSt.abs] using Leq.nil _)
  have e : (do setLen idx 0; dropVec idx : WM Unit) wx = dropVec idx (wx.upd idx { nx with len := 0 }) := by
    simp only [WM.bind_apply, setLen, getVec_ok wx idx nx hv hl, setVec_apply]
  rw [e]
  exact dropVec_inv _ idx { nx with len := 0 } h0 (by simp [hlt]) hl

/-- the body of `AnyVecRaw::clone` after the empty clone was built -/
theorem cloneMain (w1 : World) (v idx : Nat) (d nv : VecSt) (h1 : w1.Inv) (hne : v ≠ idx)
    (hv : w1.vecs[v]? = some d) (hl : d.live = true) (hvi : w1.vecs[idx]? = some nv) (hli : nv.live = true)
    (hlen : nv.len = 0) :
    ∃ nx, ((do vecOp idx (fun s => s.reserve d.len); cloneLoop v idx 0 d.len; setLen idx d.len : WM Unit) w1).1.Inv ∧
      ((do vecOp idx (fun s => s.reserve d.len); cloneLoop v idx 0 d.len; setLen idx d.len : WM Unit) w1).1.vecs[idx]? = some nx ∧
      nx.live = true ∧
      (((do vecOp idx (fun s => s.reserve d.len); cloneLoop v idx 0 d.len; setLen idx d.len : WM Unit) w1).2 = .ok () ∨
        ∃ m, ((do vecOp idx (fun s => s.reserve d.len); cloneLoop v idx 0 d.len; setLen idx d.len : WM Unit) w1).2 = .panic m) := by
  have hg := h1.good v d hv
  have hgi := h1.good idx nv hvi
  have hilt : idx < w1.vecs.length := (List.getElem?_eq_some_iff.mp hvi).1
  have habs0 : nv.abs = [] := by simp [VecSt.abs, hlen]
  cases hr : nv.reserve d.len with
  | ok p =>
    obtain ⟨nv2, es⟩ := p
    obtain ⟨hcap2, hlen2, hcells2, hwf2, _, _, hlive2, _⟩ := reserve_full nv nv2 d.len es hgi.wf hr
    let w2 : World := { w1.upd idx nv2 with ev := es.reverse ++ w1.ev }
    have evo : vecOp idx (fun s => s.reserve d.len) w1 = (w2, .ok ()) := by
      simp only [vecOp, WM.bind_apply, getVec_ok w1 idx nv hvi hli, hr, WM.lift_ok, setVec_apply, World.emit_apply]
      rfl
    have hv2 : w2.vecs[v]? = some d := by
      simp only [w2, World.upd_vecs]; rw [List.getElem?_set_ne (Ne.symm hne)]; exact hv
    have hvi2 : w2.vecs[idx]? = some nv2 := by simp [w2, hilt]
    have hlc := hg.wf.len_le_cap
    obtain ⟨j, n', hj, he, k1, k2, k3, k4, _, k7, hres⟩ := cloneLoop_any v idx d hne hl d.len w2 nv2 0 hv2 (by omega)
      (VecSt.initRange_of_good d hg 0 d.len (by omega)) hvi2 (by rw [hlive2]; exact hli) (by omega)
    simp only [WM.bind_apply, evo]
    cases hcl : cloneLoop v idx 0 d.len w2 with
    | mk w3 res =>
      rw [hcl] at he hres
      simp only at he hres
      have e1 : w3.vecs = w1.vecs.set idx n' := by
        have := congrArg World.vecs he
        simpa [w2, World.upd] using this
      have hvi3 : w3.vecs[idx]? = some n' := by rw [e1]; simp [hilt]
      have hcellsle : n'.cells.length ≤ n'.cap := by
        have := hwf2.cells_le
        rw [k2]; omega
      rcases hres with ⟨rj, rok⟩ | ⟨rj, m, rp⟩
      · subst rok
        subst rj
        -- all elements cloned: the length is set, the clone shows exactly the fresh identities
        simp only [setLen, WM.bind_apply, getVec_ok w3 idx n' hvi3 k3, setVec_apply]
        have hcells_ge : d.len ≤ n'.cells.length := by
          by_cases hz : d.len = 0
          · omega
          · have := k7 (d.len - 1) (by omega)
            simp only [Nat.zero_add] at this
            by_cases hlt' : d.len - 1 < n'.cells.length
            · omega
            · simp [Mem.get, List.getD_eq_getElem?_getD, List.getElem?_eq_none (by omega : n'.cells.length ≤ d.len - 1)] at this
        have habs : ({ n' with len := d.len } : VecSt).abs = freshCells w1.created d.len := by
          apply List.ext_getElem?
          intro t
          simp only [VecSt.abs, freshCells, List.getElem?_take, List.getElem?_map, List.getElem?_range']
          by_cases ht : t < d.len
          · have := k7 t ht
            have ht2 : t < n'.cells.length := by omega
            simp only [Nat.zero_add, Mem.get, List.getD_eq_getElem?_getD, List.getElem?_eq_getElem ht2,
              Option.getD_some] at this
            simp [ht, List.getElem?_eq_getElem ht2, this, w2]
          · simp [ht]
        have hgood : ({ n' with len := d.len } : VecSt).Good := by
          refine ⟨⟨hcells_ge, hcellsle⟩, ?_⟩
          intro c hc
          rw [habs] at hc
          obtain ⟨x, _, rfl⟩ := List.mem_map.mp hc
          exact ⟨x, rfl⟩
        refine ⟨{ n' with len := d.len }, ?_, by simp [e1, hilt], k3, Or.inl trivial⟩
        refine h1.local_erase' idx nv _ d.len [] [] [] hvi ?_ hgood ?_
        · simp only [World.erase_upd, he]
          simp [World.upd, w2, World.erase]
        · rw [habs, habs0]; simpa using Leq.refl _
      · subst rp
        refine ⟨n', ?_, hvi3, k3, Or.inr ⟨m, rfl⟩⟩
        have hgood : n'.Good := by
          refine ⟨⟨by rw [k1, hlen2, hlen]; exact Nat.zero_le _, hcellsle⟩, ?_⟩
          intro c hc; simp [VecSt.abs, k1, hlen2, hlen] at hc
        refine h1.local_erase' idx nv n' j [] [] [] hvi ?_ hgood ?_
        · rw [he]; simp [World.upd, w2, World.erase]
        · have : n'.abs = [] := by simp [VecSt.abs, k1, hlen2, hlen]
          rw [this]; simpa using Leq.nil _
  | panic m =>
    have evo := vecOp_panic w1 idx nv (fun s => s.reserve d.len) m hvi hli hr
    simp only [WM.bind_apply, evo]
    exact ⟨nv, h1.of_erase rfl, hvi, hli, Or.inr ⟨m, rfl⟩⟩
  | ub m => have := reserve_notUb nv d.len; rw [hr] at this; exact this.elim


theorem cloneEmptyIn_shape (w : World) (v : Nat) (bk : Backend) (d : VecSt)
    (hv : w.vecs[v]? = some d) (hl : d.live = true) :
    (∃ m, cloneEmptyIn v bk w = ({ w with fault := none }, .panic m)) ∨
    ∃ w1 nv, cloneEmptyIn v bk w = (w1, .ok w.vecs.length) ∧ w1.erase = { w.erase with vecs := w.vecs ++ [nv] } ∧
      nv.len = 0 ∧ nv.live = true ∧ nv.Good ∧ nv.abs = [] := by
  cases hb : VecSt.buildCap bk d.size d.align with
  | ok cap =>
    right
    have hgood := emptyVec_good d.ty d.size d.align d.hasDrop d.cloneable bk cap 0 true
    by_cases hr : bk = .reloc
    · subst hr
      refine ⟨{ w with vecs := w.vecs ++ [{ d with bk := .reloc, cap := cap, cells := [], len := 0, gen := 0, live := true }],
                       ev := [Event.memBuild cap].reverse ++ w.ev }, _, ?_, rfl, rfl, rfl, hgood, rfl⟩
      simp only [cloneEmptyIn, WM.bind_apply, getVec_ok w v d hv hl, hb, WM.lift_ok, WM.get_apply,
        WM.modify_apply, if_true, World.emit_apply, WM.pure_apply]
    · refine ⟨{ w with vecs := w.vecs ++ [{ d with bk := bk, cap := cap, cells := [], len := 0, gen := 0, live := true }] },
        _, ?_, rfl, rfl, rfl, hgood, rfl⟩
      simp only [cloneEmptyIn, WM.bind_apply, getVec_ok w v d hv hl, hb, WM.lift_ok, WM.get_apply,
        WM.modify_apply, hr, if_false, WM.pure_apply]
  | panic m =>
    left
    exact ⟨m, by simp only [cloneEmptyIn, WM.bind_apply, getVec_ok w v d hv hl, hb, WM.lift]⟩
  | ub m => have := buildCap_notUb bk d.size d.align; rw [hb] at this; exact this.elim

/-- **`clone()` from any world satisfying the invariant, under any fault state** -/
theorem step_clone_inv (cfg : Cfg) (w : World) (v : Nat) (d : VecSt) (h : w.Inv)
    (hv : w.vecs[v]? = some d) (hl : d.live = true) (hcl : d.cloneable = true) :
    (step cfg (.clone v) w).1.Inv ∧ (step cfg (.clone v) w).2.notUb := by
  have hlt : v < w.vecs.length := (List.getElem?_eq_some_iff.mp hv).1
  rcases cloneEmptyIn_shape w v d.bk d hv hl with ⟨m, hce⟩ | ⟨w1, nv, hce, he1, hlen, hlive, hgood, habs⟩
  · have e : step cfg (.clone v) w = ({ w with fault := none }, .panic m) := by
      simp only [step, cloneVec, WM.bind_apply, getVec_ok w v d hv hl, hcl, Bool.not_true, Bool.false_eq_true,
        if_false, hce]
    rw [e]; exact ⟨h.of_erase rfl, trivial⟩
  · have h1 : w1.Inv := h.append_erase nv he1 hgood habs
    have e2 : w1.vecs = w.vecs ++ [nv] := by have := congrArg World.vecs he1; exact this
    have hv1 : w1.vecs[v]? = some d := by rw [e2, List.getElem?_append_left hlt]; exact hv
    have hvi1 : w1.vecs[w.vecs.length]? = some nv := by rw [e2]; simp
    obtain ⟨nx, m1, m2, m3, m4⟩ := cloneMain w1 v w.vecs.length d nv h1 (by omega) hv1 hl hvi1 hlive hlen
    have e : step cfg (.clone v) w =
        (do WM.onUnwind (do vecOp w.vecs.length (fun s => s.reserve d.len); cloneLoop v w.vecs.length 0 d.len; setLen w.vecs.length d.len)
              (do setLen w.vecs.length 0; dropVec w.vecs.length)
            pure [] : WM Out) w1 := by
      simp only [step, cloneVec, WM.bind_apply, getVec_ok w v d hv hl, hcl, Bool.not_true, Bool.false_eq_true,
        if_false, hce]
    rw [e]
    apply then_pure_inv
    simp only [WM.onUnwind]
    cases hM : (do vecOp w.vecs.length (fun s => s.reserve d.len); cloneLoop v w.vecs.length 0 d.len; setLen w.vecs.length d.len : WM Unit) w1 with
    | mk w2 res =>
      rw [hM] at m1 m2 m4
      simp only at m1 m2 m4
      rcases m4 with hok | ⟨m, hp⟩
      · subst hok; exact ⟨m1, trivial⟩
      · subst hp
        simp only
        have hc := cleanup_inv w2 w.vecs.length nx m1 m2 m3
        cases hcu : (do setLen w.vecs.length 0; dropVec w.vecs.length : WM Unit) w2 with
        | mk w3 res3 =>
          rw [hcu] at hc
          cases res3 with
          | ok _ => exact ⟨hc.1, trivial⟩
          | panic _ => exact ⟨hc.1, trivial⟩
          | ub _ => exact hc.2.elim


/-- `v.at(i).lazy_clone().downcast::<T>()` under any fault state: the element is cloned once into the
caller's hands (a fresh identity), or nothing happens (wrong type, `Clone` panicked, out of range) -/
theorem step_lazyDc_inv (cfg : Cfg) (w : World) (v i dp ty : Nat) (d : VecSt) (h : w.Inv)
    (hv : w.vecs[v]? = some d) (hl : d.live = true) :
    (step cfg (.lazyDc v i dp ty) w).1.Inv ∧ (step cfg (.lazyDc v i dp ty) w).2.notUb := by
  by_cases hi : i < d.len
  · by_cases hty : ty = d.ty
    · subst hty
      obtain ⟨id, hr⟩ := readElem_good w v d i hv hl (h.good v d hv) hi
      obtain ⟨f', htk | ⟨m, htk⟩⟩ := tick_shape w
      · have e : step cfg (.lazyDc v i dp d.ty) w =
            ({ w with created := w.created + 1, ev := Event.clone id w.created :: w.ev, held := w.created :: w.held,
                      fault := f' }, .ok [cfg.tok w.created]) := by
          simp [step, getVec_ok w v d hv hl, hi, hr, cloneElem, htk, fresh, hold]
        rw [e]
        refine ⟨h.local_erase' v d d 1 [w.created] [] [] hv ?_ (h.good v d hv) ?_, trivial⟩
        · rw [World.upd_self w v d hv]; rfl
        · simp only [List.map_cons, List.map_nil, List.append_nil, freshCells, List.range'_one]
          exact Leq.of_perm List.perm_append_comm
      · have e : step cfg (.lazyDc v i dp d.ty) w = ({ w with fault := f' }, .panic m) := by
          simp [step, getVec_ok w v d hv hl, hi, hr, cloneElem, htk]
        rw [e]; exact ⟨h.of_erase rfl, trivial⟩
    · have e : step cfg (.lazyDc v i dp ty) w = (w, .ok ["N"]) := by
        simp [step, getVec_ok w v d hv hl, hi, hty]
      rw [e]; exact ⟨h, trivial⟩
  · have e : step cfg (.lazyDc v i dp ty) w = (WM.panic "called `Option::unwrap()` on a `None` value" : WM Out) w := by
      simp only [step, WM.bind_apply, getVec_ok w v d hv hl, hi, if_false]
    rw [e]; exact panic_inv w h _

end AnyVec
