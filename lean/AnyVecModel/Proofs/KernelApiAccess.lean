/- Kernel tie: the element accessors of `AnyVec` (src/any_vec.rs) and `AnyVecTyped` (src/any_vec_typed.rs) as call traces
re-translated from /repo/src on every run (see KernelApiOps for the representation), and what their bounds mean on the
model. -/
import AnyVecModel.Proofs.KernelBase
import AnyVecModel.Proofs.WM
namespace AnyVec
namespace KernelTie
open World Gen.Kernel

theorem anyvec_access_tie (len i : Nat) :
    anyvec_get_trace len i = [.branch (decide (i < len)) [.call "get_unchecked" [i], .retSome] [.retNone]] ∧
    anyvec_get_mut_trace len i = [.branch (decide (i < len)) [.call "get_unchecked_mut" [i], .retSome] [.retNone]] ∧
    anyvec_at_trace len i = [.call "get" [i], .unwrap] ∧
    anyvec_at_mut_trace len i = [.call "get_mut" [i], .unwrap] ∧
    anyvec_iter_trace len i = [.call "Iter::new" [0, len]] ∧
    anyvec_iter_mut_trace len i = [.call "Iter::new" [0, len]] ∧
    anyvec_len_trace len i = [.call "=" [len]] ∧
    anyvec_is_empty_trace len i = [.call "len" [], .call "== 0" []] :=
  ⟨rfl, rfl, rfl, rfl, rfl, rfl, rfl, rfl⟩

theorem typed_access_tie (len i : Nat) :
    typed_get_trace len i = [.call "as_slice" [], .call "get" [i]] ∧
    typed_get_mut_trace len i = [.call "as_mut_slice" [], .call "get_mut" [i]] ∧
    typed_at_trace len i = [.call "get" [i], .unwrap] ∧
    typed_at_mut_trace len i = [.call "get_mut" [i], .unwrap] ∧
    typed_iter_trace len i = [.call "as_slice" [], .call "iter" []] ∧
    typed_len_trace len i = [.call "=" [len]] ∧
    typed_is_empty_trace len i = [.call "len" [], .call "== 0" []] :=
  ⟨rfl, rfl, rfl, rfl, rfl, rfl, rfl⟩

/-- `get(i)`: `Some(get_unchecked(i))` exactly when `i < len`, `None` otherwise; `at(i)` = `get(i).unwrap()` -/
theorem get_tie (cfg : Cfg) (w : World) (v i : Nat) (d : VecSt) (hv : w.vecs[v]? = some d) (hl : d.live = true) :
    anyvec_get_trace d.len i = [.branch (decide (i < d.len)) [.call "get_unchecked" [i], .retSome] [.retNone]] ∧
    (¬ i < d.len → step cfg (.get v i false) w = (w, .ok ["N"]) ∧
      step cfg (.get v i true) w = WM.panic "called `Option::unwrap()` on a `None` value" w) ∧
    (i < d.len → step cfg (.get v i false) w = (do let id ← readElem v i; pure [cfg.tok id] : WM Out) w ∧
      step cfg (.get v i true) w = step cfg (.get v i false) w) := by
  refine ⟨rfl, ?_, ?_⟩
  · intro hi
    constructor <;> simp only [step, WM.bind_apply, getVec_ok w v d hv hl, hi, if_false, if_true, WM.pure_apply]
    rfl
  · intro hi
    constructor <;> simp only [step, WM.bind_apply, getVec_ok w v d hv hl, hi, if_true]

end KernelTie
end AnyVec
