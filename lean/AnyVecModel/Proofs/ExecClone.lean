/-
  AnyVecModel.Proofs.ExecClone — the clone loop without injected fault, exactly.
-/
import AnyVecModel.Proofs.Exec
namespace AnyVec
open World

/-- the clone events of slots `[i, i+k)` of `s`, oldest first: element `j` is cloned into identity `c + j` -/
def cloneEvents (s : VecSt) (i k c : Nat) : List Event :=
  (List.range k).map fun j => Event.clone (s.cells.get (i + j)).idOr0 (c + j)

theorem cloneEvents_succ (s : VecSt) (i k c : Nat) :
    cloneEvents s i (k + 1) c = Event.clone (s.cells.get i).idOr0 c :: cloneEvents s (i + 1) k (c + 1) := by
  simp only [cloneEvents, List.range_succ_eq_map, List.map_cons, List.map_map, Nat.add_zero]
  congr 1
  apply List.map_congr_left
  intro j _
  simp only [Function.comp, Nat.succ_eq_add_one]
  rw [show i + (j + 1) = i + 1 + j by omega, show c + (j + 1) = c + 1 + j by omega]

/-- the clone loop without an injected fault: element by element, each source element is cloned
exactly once, in order; the clones get the next fresh identities and land in the same slots of the
destination; the source vector is only read. -/
theorem cloneLoop_nofault (w : World) (src dst : Nat) (s n : VecSt) (i k : Nat) (hsd : src ≠ dst)
    (hs : w.vecs[src]? = some s) (hsl : s.live = true) (hscap : i + k ≤ s.cap) (hsinit : s.InitRange i k)
    (hn : w.vecs[dst]? = some n) (hnl : n.live = true) (hncap : i + k ≤ n.cap) (hf : w.fault = none) :
    ∃ n', cloneLoop src dst i k w =
        ({ w with vecs := w.vecs.set dst n', created := w.created + k,
                  ev := (cloneEvents s i k w.created).reverse ++ w.ev }, .ok ()) ∧
      n'.len = n.len ∧ n'.cap = n.cap ∧ n'.live = true ∧ n'.ty = n.ty ∧ n'.bk = n.bk ∧ n'.cloneable = n.cloneable ∧
      n.cells.length ≤ n'.cells.length ∧
      (∀ j, j < i → n'.cells.get j = n.cells.get j) ∧
      (∀ j, j < k → n'.cells.get (i + j) = .val (w.created + j)) := by
  induction k generalizing w n i with
  | zero =>
    refine ⟨n, ?_, rfl, rfl, hnl, rfl, rfl, rfl, Nat.le_refl _, fun _ _ => rfl, fun j hj => absurd hj (by omega)⟩
    have : w.vecs.set dst n = w.vecs := by
      apply List.ext_getElem?; intro m
      by_cases hm : dst = m
      · subst hm
        simp [List.getElem?_set, hn, (List.getElem?_eq_some_iff.mp hn).1, (List.getElem?_eq_some_iff.mp hn).2]
      · simp [List.getElem?_set, hm]
    simp [cloneLoop, this, cloneEvents]
  | succ k ih =>
    have hslt : src < w.vecs.length := (List.getElem?_eq_some_iff.mp hs).1
    have hsdd : w.vecs[src] = s := (List.getElem?_eq_some_iff.mp hs).2
    have hnlt : dst < w.vecs.length := (List.getElem?_eq_some_iff.mp hn).1
    have hndd : w.vecs[dst] = n := (List.getElem?_eq_some_iff.mp hn).2
    obtain ⟨id, hid⟩ := hsinit 0 (by omega)
    simp at hid
    have hbs : i < s.cap := by omega
    have hbn : i < n.cap := by omega
    let n1 : VecSt := { n with cells := (n.cells.ensure (i + 1)).set i (.val w.created), live := true }
    let w1 : World := { w with vecs := w.vecs.set dst n1, created := w.created + 1,
                               ev := Event.clone id w.created :: w.ev }
    have hs1 : w1.vecs[src]? = some s := by simp [w1, List.getElem?_set, Ne.symm hsd, hs]
    obtain ⟨n', he, h1, h2, h3, h4, h4b, h4c, h5, h6, h7⟩ := ih (w := w1) (n := n1) (i := i + 1) hs1 (by omega)
      (by intro j hj; have := hsinit (j + 1) (by omega); rw [show i + 1 + j = i + (j + 1) by omega]; exact this)
      (by simp [w1, hnlt]) rfl (by simp [n1]; omega) (by simp [w1, hf])
    refine ⟨n', ?_, by simpa [n1] using h1, by simpa [n1] using h2, h3, by simpa [n1] using h4,
      by simpa [n1] using h4b, by simpa [n1] using h4c, ?_, ?_, ?_⟩
    · have hstep : cloneLoop src dst i (k + 1) w = cloneLoop src dst (i + 1) k w1 := by
        simp [cloneLoop, readElem, getVec, hslt, hsdd, hsl, VecSt.readElem_ok, hbs, hid, cloneElem, tick, hf, fresh,
          World.writeCell, hnlt, hndd, hnl, VecSt.writeCell_ok, hbn, World.upd, w1, n1]
      rw [hstep, he]
      simp only [w1, cloneEvents_succ, hid, Cell.idOr0, List.reverse_cons, List.append_assoc, List.singleton_append]
      simp [Nat.add_assoc, Nat.add_comm 1 k]
    · have : n.cells.length ≤ n1.cells.length := by simp [n1]; omega
      omega
    · intro j hj
      rw [h6 j (by omega)]
      simp only [n1]
      rw [get_set_ne _ _ _ _ (by omega), ensure_get]
    · intro j hj
      cases j with
      | zero =>
        rw [Nat.add_zero, h6 i (by omega)]
        simp only [n1]
        rw [get_set_self _ _ _ (by simp; omega)]
        simp
      | succ j =>
        have := h7 j (by omega)
        simp only [w1] at this
        rw [show i + (j + 1) = i + 1 + j by omega, this]
        congr 1; omega

end AnyVec
