/-
  Symbolic execution of the world-level operations on fault-free paths: the exact resulting
  world of `push`/`insert`/`pop`/`remove`/`swap_remove`/`clear`, as equations.
-/
import AnyVecModel.Proofs.WM
import AnyVecModel.Proofs.Vec
namespace AnyVec
open World

/-- what vector `v` shows through the API -/
def World.vis (w : World) (v : Nat) : List Cell :=
  match w.vecs[v]? with
  | some x => x.abs
  | none => []

/-- every vector of the world satisfies the representation invariant -/
def World.WF (w : World) : Prop := ∀ (v : Nat) (x : VecSt), w.vecs[v]? = some x → x.WF

@[simp] theorem World.emit_apply (es : List Event) (w : World) :
    emit es w = ({ w with ev := es.reverse ++ w.ev }, .ok ()) := rfl

/-- storage and length after a successful `insert(i, c)` (capacity already reserved) -/
def VecSt.insertAt (v : VecSt) (i : Nat) (c : Cell) : VecSt :=
  { v with cells := ((memmove (v.cells.ensure (i + 1 + (v.len - i))) i (i + 1) (v.len - i)).ensure
                      (i + 1)).set i c,
           len := v.len + 1 }

theorem VecSt.insertAt_abs (v : VecSt) (i : Nat) (c : Cell) (hwf : v.WF) (hi : i ≤ v.len) :
    (v.insertAt i c).abs = v.abs.insertIdx i c := by
  have h1 := hwf.len_le
  simp only [VecSt.insertAt, VecSt.abs]
  rw [ensure_of_le _ (i + 1) (by rw [memmove_length _ _ _ _ (by simp; omega) (by simp; omega)]; simp; omega)]
  have := insert_mem (v.cells.ensure (i + 1 + (v.len - i))) v.len i c hi (by simp; omega)
  rw [this, ensure_take _ _ _ h1]

theorem VecSt.insertAt_wf (v : VecSt) (i : Nat) (c : Cell) (hwf : v.WF) (hi : i ≤ v.len)
    (hroom : v.len < v.cap) : (v.insertAt i c).WF := by
  have h1 := hwf.len_le; have h2 := hwf.cells_le
  constructor
  · simp only [VecSt.insertAt, List.length_set, ensure_length]
    rw [memmove_length _ _ _ _ (by simp; omega) (by simp; omega)]
    simp; omega
  · simp only [VecSt.insertAt, List.length_set, ensure_length]
    rw [memmove_length _ _ _ _ (by simp; omega) (by simp; omega)]
    simp; omega

/-- a value that is moved in by a plain bit copy (no user code runs) -/
inductive World.Val.Plain : Val → Nat → Prop where
  | wrapper (id ty : Nat) : World.Val.Plain (.wrapper id ty) id
  | raw (id ty : Nat) : World.Val.Plain (.raw id ty) id

/-- `insert_unchecked` of a plain value, exact resulting world -/
theorem insertUnchecked_plain (w : World) (dst i id : Nat) (x : Val) (hx : x.Plain id)
    (d d1 : VecSt) (es : List Event)
    (hv : w.vecs[dst]? = some d) (hl : d.live = true) (hwf : d.WF) (hi : i ≤ d.len)
    (hr : d.reserveOne = .ok (d1, es)) :
    insertUnchecked dst i x w =
      ({ w with vecs := w.vecs.set dst (d1.insertAt i (.val id)), ev := es.reverse ++ w.ev }, .ok ()) := by
  have hlt : dst < w.vecs.length := (List.getElem?_eq_some_iff.mp hv).1
  have hd : w.vecs[dst] = d := (List.getElem?_eq_some_iff.mp hv).2
  obtain ⟨h3, h1, _, _, _, _, _, _, _, _, h4⟩ := reserveOne_spec d d1 es hwf hr
  have hl1 : d1.live = true := by rw [h4]; exact hl
  have hnot : ¬ (d.len < i) := by omega
  have hb1 : i + (d.len - i) ≤ d1.cap := by omega
  have hb2 : i + 1 + (d.len - i) ≤ d1.cap := by omega
  have hb3 : i < d1.cap := by omega
  cases hx <;>
  simp [insertUnchecked, getVec, hl, hnot, WM.onUnwind, vecOp, hr, hlt, hl1, setLen, moveElems,
    valKnownType, valMoveInto, World.writeCell, VecSt.moveElems_ok, VecSt.writeCell_ok, hb1, hb2, hb3,
    h1, hd, World.upd, VecSt.insertAt]

end AnyVec

namespace AnyVec
open World

/-- storage and length after a successful `push(c)` (capacity already reserved) -/
def VecSt.pushCell (v : VecSt) (c : Cell) : VecSt :=
  { v with cells := (v.cells.ensure (v.len + 1)).set v.len c, len := v.len + 1 }

theorem VecSt.pushCell_abs (v : VecSt) (c : Cell) (hwf : v.WF) : (v.pushCell c).abs = v.abs ++ [c] := by
  have h1 := hwf.len_le
  simp only [VecSt.pushCell, VecSt.abs]
  apply List.ext_getElem?
  intro k
  simp only [List.getElem?_take, List.getElem?_set, ensure_getElem?, List.getElem?_append, List.length_take,
    ensure_length]
  grind

theorem VecSt.pushCell_wf (v : VecSt) (c : Cell) (hwf : v.WF) (hroom : v.len < v.cap) : (v.pushCell c).WF := by
  have h1 := hwf.len_le; have h2 := hwf.cells_le
  constructor <;> simp [VecSt.pushCell] <;> omega

/-- `push_unchecked` of a plain value, exact resulting world -/
theorem pushUnchecked_plain (w : World) (dst id : Nat) (x : Val) (hx : x.Plain id)
    (d d1 : VecSt) (es : List Event)
    (hv : w.vecs[dst]? = some d) (hl : d.live = true) (hwf : d.WF)
    (hr : d.reserveOne = .ok (d1, es)) :
    pushUnchecked dst x w =
      ({ w with vecs := w.vecs.set dst (d1.pushCell (.val id)), ev := es.reverse ++ w.ev }, .ok ()) := by
  have hlt : dst < w.vecs.length := (List.getElem?_eq_some_iff.mp hv).1
  have hd : w.vecs[dst] = d := (List.getElem?_eq_some_iff.mp hv).2
  obtain ⟨h3, h1, _, _, _, _, _, _, _, _, h4⟩ := reserveOne_spec d d1 es hwf hr
  have hl1 : d1.live = true := by rw [h4]; exact hl
  cases hx <;>
  simp [pushUnchecked, getVec, hl, WM.onUnwind, vecOp, hr, hlt, hl1, valMoveInto, World.writeCell,
    VecSt.writeCell_ok, h3, hd, World.upd, VecSt.pushCell]

/-- storage and length after `remove(i)` has been consumed -/
def VecSt.removeAt (v : VecSt) (i : Nat) : VecSt :=
  { v with cells := memmove (v.cells.ensure (i + 1 + (v.len - 1 - i))) (i + 1) i (v.len - 1 - i),
           len := v.len - 1 }

theorem VecSt.removeAt_abs (v : VecSt) (i : Nat) (hwf : v.WF) (hi : i < v.len) :
    (v.removeAt i).abs = v.abs.eraseIdx i := by
  have h1 := hwf.len_le
  simp only [VecSt.removeAt, VecSt.abs]
  have := remove_mem (v.cells.ensure (i + 1 + (v.len - 1 - i))) (v.len - 1) i (by omega) (by simp; omega)
  rw [this, show v.len - 1 + 1 = v.len by omega, ensure_take _ _ _ h1]

theorem VecSt.removeAt_wf (v : VecSt) (i : Nat) (hwf : v.WF) (hi : i < v.len) : (v.removeAt i).WF := by
  have h1 := hwf.len_le; have h2 := hwf.cells_le
  constructor
  · simp only [VecSt.removeAt]
    rw [memmove_length _ _ _ _ (by simp; omega) (by simp; omega)]; simp; omega
  · simp only [VecSt.removeAt]
    rw [memmove_length _ _ _ _ (by simp; omega) (by simp; omega)]; simp; omega

/-- `remove(i)` whose handle is dropped, no injected fault: exact resulting world -/
theorem remove_drop_exec (cfg : Cfg) (w : World) (v i id : Nat) (d : VecSt)
    (hv : w.vecs[v]? = some d) (hl : d.live = true) (hwf : d.WF) (hi : i < d.len)
    (hc : d.cells.get i = .val id) (hf : w.fault = none) :
    step cfg (.remove v i .drop) w =
      ({ logDrop d.hasDrop id w with vecs := w.vecs.set v (d.removeAt i) }, .ok []) := by
  have hlt : v < w.vecs.length := (List.getElem?_eq_some_iff.mp hv).1
  have hd : w.vecs[v] = d := (List.getElem?_eq_some_iff.mp hv).2
  have h1 := hwf.len_le; have h2 := hwf.cells_le
  have hb1 : i < d.cap := by omega
  have hb2 : i + 1 + (d.len - 1 - i) ≤ d.cap := by omega
  have hb3 : i + (d.len - 1 - i) ≤ d.cap := by omega
  simp [step, getVec, hl, hi, hlt, hd, setLen, sinkHandle, hDrop, hSlot, readElem, VecSt.readElem_ok, hb1, hc,
    World.dropElem_nofault, hf, hConsume, moveElems, VecSt.moveElems_ok, hb2, hb3, World.upd, VecSt.removeAt,
    logDrop]

end AnyVec
