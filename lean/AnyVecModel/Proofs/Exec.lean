/-
  Symbolic execution of the world-level operations on fault-free paths: the exact resulting
  world of `push`/`insert`/`pop`/`remove`/`swap_remove`/`clear`, as equations.
-/
import AnyVecModel.Proofs.WM
import AnyVecModel.Proofs.Vec
namespace AnyVec
open World

/-- what vector `v` shows through the API -/
def World.vis (w : World) (v : Nat) : List Cell :=
  match w.vecs[v]? with
  | some x => x.abs
  | none => []

/-- every vector of the world satisfies the representation invariant -/
def World.WF (w : World) : Prop := ∀ (v : Nat) (x : VecSt), w.vecs[v]? = some x → x.WF

@[simp] theorem World.emit_apply (es : List Event) (w : World) :
    emit es w = ({ w with ev := es.reverse ++ w.ev }, .ok ()) := rfl

/-- storage and length after a successful `insert(i, c)` (capacity already reserved) -/
def VecSt.insertAt (v : VecSt) (i : Nat) (c : Cell) : VecSt :=
  { v with cells := ((memmove (v.cells.ensure (i + 1 + (v.len - i))) i (i + 1) (v.len - i)).ensure
                      (i + 1)).set i c,
           len := v.len + 1 }

theorem VecSt.insertAt_abs (v : VecSt) (i : Nat) (c : Cell) (hwf : v.WF) (hi : i ≤ v.len) :
    (v.insertAt i c).abs = v.abs.insertIdx i c := by
  have h1 := hwf.len_le
  simp only [VecSt.insertAt, VecSt.abs]
  rw [ensure_of_le _ (i + 1) (by rw [memmove_length _ _ _ _ (by simp; omega) (by simp; omega)]; simp; omega)]
  have := insert_mem (v.cells.ensure (i + 1 + (v.len - i))) v.len i c hi (by simp; omega)
  rw [this, ensure_take _ _ _ h1]

theorem VecSt.insertAt_wf (v : VecSt) (i : Nat) (c : Cell) (hwf : v.WF) (hi : i ≤ v.len)
    (hroom : v.len < v.cap) : (v.insertAt i c).WF := by
  have h1 := hwf.len_le; have h2 := hwf.cells_le
  constructor
  · simp only [VecSt.insertAt, List.length_set, ensure_length]
    rw [memmove_length _ _ _ _ (by simp; omega) (by simp; omega)]
    simp; omega
  · simp only [VecSt.insertAt, List.length_set, ensure_length]
    rw [memmove_length _ _ _ _ (by simp; omega) (by simp; omega)]
    simp; omega

/-- a value that is moved in by a plain bit copy (no user code runs) -/
inductive World.Val.Plain : Val → Nat → Prop where
  | wrapper (id ty : Nat) : World.Val.Plain (.wrapper id ty) id
  | raw (id ty : Nat) : World.Val.Plain (.raw id ty) id

/-- `insert_unchecked` of a plain value, exact resulting world -/
theorem insertUnchecked_plain (w : World) (dst i id : Nat) (x : Val) (hx : x.Plain id)
    (d d1 : VecSt) (es : List Event)
    (hv : w.vecs[dst]? = some d) (hl : d.live = true) (hwf : d.WF) (hi : i ≤ d.len)
    (hr : d.reserveOne = .ok (d1, es)) :
    insertUnchecked dst i x w =
      ({ w with vecs := w.vecs.set dst (d1.insertAt i (.val id)), ev := es.reverse ++ w.ev }, .ok ()) := by
  have hlt : dst < w.vecs.length := (List.getElem?_eq_some_iff.mp hv).1
  have hd : w.vecs[dst] = d := (List.getElem?_eq_some_iff.mp hv).2
  obtain ⟨h3, h1, _, _, _, _, _, _, _, _, h4⟩ := reserveOne_spec d d1 es hwf hr
  have hl1 : d1.live = true := by rw [h4]; exact hl
  have hnot : ¬ (d.len < i) := by omega
  have hb1 : i + (d.len - i) ≤ d1.cap := by omega
  have hb2 : i + 1 + (d.len - i) ≤ d1.cap := by omega
  have hb3 : i < d1.cap := by omega
  cases hx <;>
  simp [insertUnchecked, getVec, hl, hnot, WM.onUnwind, vecOp, hr, hlt, hl1, setLen, moveElems,
    valKnownType, valMoveInto, World.writeCell, VecSt.moveElems_ok, VecSt.writeCell_ok, hb1, hb2, hb3,
    h1, hd, World.upd, VecSt.insertAt]

end AnyVec

namespace AnyVec
open World

/-- storage and length after a successful `push(c)` (capacity already reserved) -/
def VecSt.pushCell (v : VecSt) (c : Cell) : VecSt :=
  { v with cells := (v.cells.ensure (v.len + 1)).set v.len c, len := v.len + 1 }

theorem VecSt.pushCell_abs (v : VecSt) (c : Cell) (hwf : v.WF) : (v.pushCell c).abs = v.abs ++ [c] := by
  have h1 := hwf.len_le
  simp only [VecSt.pushCell, VecSt.abs]
  apply List.ext_getElem?
  intro k
  simp only [List.getElem?_take, List.getElem?_set, ensure_getElem?, List.getElem?_append, List.length_take,
    ensure_length]
  grind

theorem VecSt.pushCell_wf (v : VecSt) (c : Cell) (hwf : v.WF) (hroom : v.len < v.cap) : (v.pushCell c).WF := by
  have h1 := hwf.len_le; have h2 := hwf.cells_le
  constructor <;> simp [VecSt.pushCell] <;> omega

/-- `push_unchecked` of a plain value, exact resulting world -/
theorem pushUnchecked_plain (w : World) (dst id : Nat) (x : Val) (hx : x.Plain id)
    (d d1 : VecSt) (es : List Event)
    (hv : w.vecs[dst]? = some d) (hl : d.live = true) (hwf : d.WF)
    (hr : d.reserveOne = .ok (d1, es)) :
    pushUnchecked dst x w =
      ({ w with vecs := w.vecs.set dst (d1.pushCell (.val id)), ev := es.reverse ++ w.ev }, .ok ()) := by
  have hlt : dst < w.vecs.length := (List.getElem?_eq_some_iff.mp hv).1
  have hd : w.vecs[dst] = d := (List.getElem?_eq_some_iff.mp hv).2
  obtain ⟨h3, h1, _, _, _, _, _, _, _, _, h4⟩ := reserveOne_spec d d1 es hwf hr
  have hl1 : d1.live = true := by rw [h4]; exact hl
  cases hx <;>
  simp [pushUnchecked, getVec, hl, WM.onUnwind, vecOp, hr, hlt, hl1, valMoveInto, World.writeCell,
    VecSt.writeCell_ok, h3, hd, World.upd, VecSt.pushCell]

/-- storage and length after `remove(i)` has been consumed -/
def VecSt.removeAt (v : VecSt) (i : Nat) : VecSt :=
  { v with cells := memmove (v.cells.ensure (i + 1 + (v.len - 1 - i))) (i + 1) i (v.len - 1 - i),
           len := v.len - 1 }

theorem VecSt.removeAt_abs (v : VecSt) (i : Nat) (hwf : v.WF) (hi : i < v.len) :
    (v.removeAt i).abs = v.abs.eraseIdx i := by
  have h1 := hwf.len_le
  simp only [VecSt.removeAt, VecSt.abs]
  have := remove_mem (v.cells.ensure (i + 1 + (v.len - 1 - i))) (v.len - 1) i (by omega) (by simp; omega)
  rw [this, show v.len - 1 + 1 = v.len by omega, ensure_take _ _ _ h1]

theorem VecSt.removeAt_wf (v : VecSt) (i : Nat) (hwf : v.WF) (hi : i < v.len) : (v.removeAt i).WF := by
  have h1 := hwf.len_le; have h2 := hwf.cells_le
  constructor
  · simp only [VecSt.removeAt]
    rw [memmove_length _ _ _ _ (by simp; omega) (by simp; omega)]; simp; omega
  · simp only [VecSt.removeAt]
    rw [memmove_length _ _ _ _ (by simp; omega) (by simp; omega)]; simp; omega

/-- `remove(i)` whose handle is dropped, no injected fault: exact resulting world -/
theorem remove_drop_exec (cfg : Cfg) (w : World) (v i id : Nat) (d : VecSt)
    (hv : w.vecs[v]? = some d) (hl : d.live = true) (hwf : d.WF) (hi : i < d.len)
    (hc : d.cells.get i = .val id) (hf : w.fault = none) :
    step cfg (.remove v i .drop) w =
      ({ logDrop d.hasDrop id w with vecs := w.vecs.set v (d.removeAt i) }, .ok []) := by
  have hlt : v < w.vecs.length := (List.getElem?_eq_some_iff.mp hv).1
  have hd : w.vecs[v] = d := (List.getElem?_eq_some_iff.mp hv).2
  have h1 := hwf.len_le; have h2 := hwf.cells_le
  have hb1 : i < d.cap := by omega
  have hb2 : i + 1 + (d.len - 1 - i) ≤ d.cap := by omega
  have hb3 : i + (d.len - 1 - i) ≤ d.cap := by omega
  simp [step, getVec, hl, hi, hlt, hd, setLen, sinkHandle, hDrop, hSlot, readElem, VecSt.readElem_ok, hb1, hc,
    World.dropElem_nofault, hf, hConsume, moveElems, VecSt.moveElems_ok, hb2, hb3, World.upd, VecSt.removeAt,
    logDrop]

end AnyVec

namespace AnyVec
open World

/-- destructor runs of `ids`, oldest first -/
def World.logDrops (hasDrop : Bool) (ids : List Nat) (w : World) : World :=
  ids.foldl (fun w id => logDrop hasDrop id w) w

@[simp] theorem World.logDrops_nil (b : Bool) (w : World) : logDrops b [] w = w := rfl
@[simp] theorem World.logDrops_cons (b : Bool) (id : Nat) (ids : List Nat) (w : World) :
    logDrops b (id :: ids) w = logDrops b ids (logDrop b id w) := rfl
@[simp] theorem World.logDrops_vecs (b : Bool) (ids : List Nat) (w : World) : (logDrops b ids w).vecs = w.vecs := by
  induction ids generalizing w with
  | nil => rfl
  | cons id ids ih => simp [ih]
@[simp] theorem World.logDrops_fault (b : Bool) (ids : List Nat) (w : World) : (logDrops b ids w).fault = w.fault := by
  induction ids generalizing w with
  | nil => rfl
  | cons id ids ih => simp [ih]
@[simp] theorem World.logDrops_held (b : Bool) (ids : List Nat) (w : World) : (logDrops b ids w).held = w.held := by
  induction ids generalizing w with
  | nil => rfl
  | cons id ids ih => simp [ih]
@[simp] theorem World.logDrops_created (b : Bool) (ids : List Nat) (w : World) : (logDrops b ids w).created = w.created := by
  induction ids generalizing w with
  | nil => rfl
  | cons id ids ih => simp [ih]
theorem World.logDrops_dropLog (b : Bool) (ids : List Nat) (w : World) :
    (logDrops b ids w).dropLog = ids.reverse ++ w.dropLog := by
  induction ids generalizing w with
  | nil => rfl
  | cons id ids ih => simp [ih]

/-- the erased destructor loop without an injected fault destroys exactly the elements of the
slots `[i, i+k)`, in order, and touches no vector -/
theorem dropLoop_nofault (w : World) (v : Nat) (d : VecSt) (hasDrop : Bool) (i k : Nat) (ids : List Nat)
    (hv : w.vecs[v]? = some d) (hl : d.live = true) (hf : w.fault = none) (hcap : i + k ≤ d.cap)
    (hlen : ids.length = k) (hids : ∀ j, j < k → d.cells.get (i + j) = .val (ids.getD j 0)) :
    dropLoop v hasDrop i k w = (logDrops hasDrop ids w, .ok ()) := by
  induction k generalizing i ids w with
  | zero =>
    have : ids = [] := List.length_eq_zero_iff.mp hlen
    subst this; rfl
  | succ k ih =>
    match ids, hlen with
    | id :: rest, hlen =>
      have hlt : v < w.vecs.length := (List.getElem?_eq_some_iff.mp hv).1
      have hd : w.vecs[v] = d := (List.getElem?_eq_some_iff.mp hv).2
      have h0 := hids 0 (by omega)
      simp at h0
      have hb : i < d.cap := by omega
      simp only [dropLoop, WM.bind_apply]
      simp [readElem, getVec, hlt, hd, hl, VecSt.readElem_ok, hb, h0, World.dropElem_nofault, hf]
      apply ih (w := logDrop hasDrop id w) (i := i + 1) (ids := rest) (by simpa using hv) (by simpa using hf)
        (by omega) (by simpa using hlen)
      intro j hj
      have := hids (j + 1) (by omega)
      simp at this
      rw [show i + 1 + j = i + (j + 1) by omega]
      exact this

end AnyVec

namespace AnyVec
open World

/-- the typed slice destructor without an injected fault: same effect as the erased loop -/
theorem dropSlice_nofault (w : World) (v : Nat) (d : VecSt) (hasDrop : Bool) (i k : Nat) (ids : List Nat)
    (hv : w.vecs[v]? = some d) (hl : d.live = true) (hf : w.fault = none) (hcap : i + k ≤ d.cap)
    (hlen : ids.length = k) (hids : ∀ j, j < k → d.cells.get (i + j) = .val (ids.getD j 0)) :
    dropSlice v hasDrop i k w = (logDrops hasDrop ids w, .ok ()) := by
  induction k generalizing i ids w with
  | zero =>
    have : ids = [] := List.length_eq_zero_iff.mp hlen
    subst this; rfl
  | succ k ih =>
    match ids, hlen with
    | id :: rest, hlen =>
      have hlt : v < w.vecs.length := (List.getElem?_eq_some_iff.mp hv).1
      have hd : w.vecs[v] = d := (List.getElem?_eq_some_iff.mp hv).2
      have h0 := hids 0 (by omega)
      simp at h0
      have hb : i < d.cap := by omega
      simp only [dropSlice, WM.bind_apply]
      simp [readElem, getVec, hlt, hd, hl, VecSt.readElem_ok, hb, h0, World.dropElem_nofault, hf, WM.onUnwind]
      apply ih (w := logDrop hasDrop id w) (i := i + 1) (ids := rest) (by simpa using hv) (by simpa using hf)
        (by omega) (by simpa using hlen)
      intro j hj
      have := hids (j + 1) (by omega)
      simp at this
      rw [show i + 1 + j = i + (j + 1) by omega]
      exact this

/-- `drop_elements_range(s, e)` without an injected fault (erased or typed) -/
theorem dropRange_nofault (w : World) (v : Nat) (d : VecSt) (typed : Bool) (s e : Nat)
    (hv : w.vecs[v]? = some d) (hl : d.live = true) (hf : w.fault = none) (hcap : s + (e - s) ≤ d.cap)
    (hinit : d.InitRange s (e - s)) :
    dropRange v typed s e w = (logDrops d.hasDrop (d.idsRange s (e - s)) w, .ok ()) := by
  have hlt : v < w.vecs.length := (List.getElem?_eq_some_iff.mp hv).1
  have hd : w.vecs[v] = d := (List.getElem?_eq_some_iff.mp hv).2
  have hids := fun j hj => VecSt.idsRange_get d s (e - s) j hj hinit
  simp only [dropRange, WM.bind_apply, getVec_ok w v d hv hl]
  cases hD : d.hasDrop
  · simp only [Bool.false_eq_true, if_false]
    exact dropLoop_nofault w v d false s (e - s) _ hv hl hf hcap (by simp) hids
  · cases typed
    · simp only [if_true, Bool.false_eq_true, if_false]
      exact dropLoop_nofault w v d true s (e - s) _ hv hl hf hcap (by simp) hids
    · simp only [if_true]
      exact dropSlice_nofault w v d true s (e - s) _ hv hl hf hcap (by simp) hids

theorem World.logDrop_upd (b : Bool) (id v : Nat) (x : VecSt) (w : World) :
    logDrop b id (w.upd v x) = (logDrop b id w).upd v x := rfl

theorem World.logDrops_upd (b : Bool) (ids : List Nat) (v : Nat) (x : VecSt) (w : World) :
    logDrops b ids (w.upd v x) = (logDrops b ids w).upd v x := by
  induction ids generalizing w with
  | nil => rfl
  | cons id ids ih => simp [World.logDrop_upd, ih]

/-- `clear()` without an injected fault -/
theorem clear_exec (cfg : Cfg) (w : World) (v : Nat) (d : VecSt)
    (hv : w.vecs[v]? = some d) (hl : d.live = true) (hwf : d.WF) (hinit : d.Init) (hf : w.fault = none) :
    step cfg (.clear v) w = ((logDrops d.hasDrop d.ids w).upd v { d with len := 0 }, .ok []) := by
  have hlt : v < w.vecs.length := (List.getElem?_eq_some_iff.mp hv).1
  have hd : w.vecs[v] = d := (List.getElem?_eq_some_iff.mp hv).2
  have hlc := hwf.len_le_cap
  have hdr := dropRange_nofault (w.upd v { d with len := 0 }) v { d with len := 0 } false 0 d.len
    (by simp [hlt]) hl (by simpa using hf) (by simp; omega) (by simpa [VecSt.InitRange, VecSt.Init] using hinit)
  simp only [hl, Nat.sub_zero] at hdr
  simp [step, getVec, hl, hlt, hd, setLen, hdr, World.logDrops_upd, VecSt.ids, VecSt.idsRange]

end AnyVec

namespace AnyVec
open World

/-- storage and length after `Drain::drop` closed the gap `[s, e)` of a vector of `n` elements -/
def VecSt.drainClose (v : VecSt) (s e n : Nat) : VecSt :=
  { v with cells := memmove (v.cells.ensure (max (e + (n - e)) (s + (n - e)))) e s (n - e),
           len := n - (e - s) }

theorem VecSt.drainClose_abs (v : VecSt) (s e n : Nat) (hse : s ≤ e) (hen : e ≤ n) (hn : n ≤ v.cells.length) :
    (v.drainClose s e n).abs = v.cells.take s ++ (v.cells.take n).drop e := by
  simp only [VecSt.drainClose, VecSt.abs]
  rw [ensure_of_le _ _ (by omega)]
  exact drain_mem v.cells n s e hse hen hn

theorem VecSt.drainClose_wf (v : VecSt) (s e n : Nat) (hse : s ≤ e) (hen : e ≤ n) (hn : n ≤ v.cells.length)
    (hc : v.cells.length ≤ v.cap) : (v.drainClose s e n).WF := by
  constructor
  · simp only [VecSt.drainClose]
    rw [ensure_of_le _ _ (by omega), memmove_length _ _ _ _ (by omega) (by omega)]; omega
  · simp only [VecSt.drainClose]
    rw [ensure_of_le _ _ (by omega), memmove_length _ _ _ _ (by omega) (by omega)]; exact hc

/-- `Drain::drop` in any consumption state, no injected fault: the not yet yielded elements are
destroyed, the tail closes the gap, the length is restored -/
theorem drainDrop_exec (w : World) (it : RangeIt) (d : VecSt)
    (hv : w.vecs[it.v]? = some d) (hl : d.live = true) (hf : w.fault = none)
    (h1 : it.start ≤ it.index) (h2 : it.index ≤ it.end_) (h3 : it.end_ ≤ it.end0)
    (h4 : it.end0 ≤ it.origLen) (h5 : it.origLen ≤ d.cells.length) (h6 : d.cells.length ≤ d.cap)
    (hinit : d.InitRange it.index (it.end_ - it.index)) :
    drainDrop it w =
      ((logDrops d.hasDrop (d.idsRange it.index (it.end_ - it.index)) w).upd it.v
        (d.drainClose it.start it.end0 it.origLen), .ok ()) := by
  have hlt : it.v < w.vecs.length := (List.getElem?_eq_some_iff.mp hv).1
  have hdr := dropRange_nofault w it.v d it.typed it.index it.end_ hv hl hf (by omega) hinit
  have hb1 : it.end0 + (it.origLen - it.end0) ≤ d.cap := by omega
  have hb2 : it.start + (it.origLen - it.end0) ≤ d.cap := by omega
  have hd : w.vecs[it.v] = d := (List.getElem?_eq_some_iff.mp hv).2
  simp [drainDrop, hdr, moveElems, getVec, hd, hl, VecSt.moveElems_ok, hb1, hb2, setLen, hlt, World.upd,
    VecSt.drainClose]

end AnyVec

namespace AnyVec
open World

/-- storage and length after `swap_remove(i)` has been consumed -/
def VecSt.swapRemoveAt (v : VecSt) (i : Nat) : VecSt :=
  { v with cells := if i = v.len - 1 then v.cells else v.cells.set i (v.cells.get (v.len - 1)),
           len := v.len - 1 }

theorem VecSt.swapRemoveAt_abs (v : VecSt) (i : Nat) (hwf : v.WF) (hi : i < v.len) :
    (v.swapRemoveAt i).abs = (v.abs.set i (v.cells.get (v.len - 1))).take (v.len - 1) := by
  have h1 := hwf.len_le
  simp only [VecSt.swapRemoveAt, VecSt.abs]
  have := swap_remove_mem v.cells (v.len - 1) i (by omega) (by omega)
  rw [this, show v.len - 1 + 1 = v.len by omega]

theorem VecSt.swapRemoveAt_wf (v : VecSt) (i : Nat) (hwf : v.WF) (hi : i < v.len) : (v.swapRemoveAt i).WF := by
  have h1 := hwf.len_le; have h2 := hwf.cells_le
  constructor
  · simp only [VecSt.swapRemoveAt]; split
    · omega
    · simp; omega
  · simp only [VecSt.swapRemoveAt]; split
    · omega
    · simp; omega

/-- `swap_remove(i)` whose handle is dropped, no injected fault (the element pointer taken at
construction is still valid: the storage generation has not changed) -/
theorem swap_remove_drop_exec (cfg : Cfg) (w : World) (v i id : Nat) (d : VecSt)
    (hv : w.vecs[v]? = some d) (hl : d.live = true) (hwf : d.WF) (hi : i < d.len)
    (hc : d.cells.get i = .val id) (hf : w.fault = none) :
    step cfg (.swapRemove v i .drop) w =
      ({ logDrop d.hasDrop id w with vecs := w.vecs.set v (d.swapRemoveAt i) }, .ok []) := by
  have hlt : v < w.vecs.length := (List.getElem?_eq_some_iff.mp hv).1
  have hd : w.vecs[v] = d := (List.getElem?_eq_some_iff.mp hv).2
  have h1 := hwf.len_le; have h2 := hwf.cells_le
  have hb1 : i < d.cap := by omega
  have hb2 : d.len - 1 < d.cap := by omega
  have e1 : d.cells.ensure (i + 1) = d.cells := ensure_of_le _ _ (by omega)
  by_cases hlast : i = d.len - 1
  · have hi' : d.len - 1 < d.len := by omega
    have hc' : d.cells.get (d.len - 1) = .val id := by rw [← hlast]; exact hc
    simp [step, getVec, hl, hi', hlt, hd, setLen, sinkHandle, hDrop, hSlot, readElem, VecSt.readElem_ok, hb2, hc',
      World.dropElem_nofault, hf, hConsume, World.upd, VecSt.swapRemoveAt, logDrop, hlast]
  · simp [step, getVec, hl, hi, hlt, hd, setLen, sinkHandle, hDrop, hSlot, readElem, VecSt.readElem_ok, hb1, hc,
      World.dropElem_nofault, hf, hConsume, World.upd, VecSt.swapRemoveAt, logDrop, hlast, World.writeCell,
      VecSt.writeCell_ok, hb2, e1]

/-- `pop()` whose handle is dropped, no injected fault -/
theorem pop_drop_exec (cfg : Cfg) (w : World) (v id : Nat) (d : VecSt)
    (hv : w.vecs[v]? = some d) (hl : d.live = true) (hwf : d.WF) (hne : d.len ≠ 0)
    (hc : d.cells.get (d.len - 1) = .val id) (hf : w.fault = none) :
    step cfg (.pop v .drop) w =
      ({ logDrop d.hasDrop id w with vecs := w.vecs.set v { d with len := d.len - 1 } }, .ok []) := by
  have hlt : v < w.vecs.length := (List.getElem?_eq_some_iff.mp hv).1
  have hd : w.vecs[v] = d := (List.getElem?_eq_some_iff.mp hv).2
  have h1 := hwf.len_le; have h2 := hwf.cells_le
  have hb1 : d.len - 1 < d.cap := by omega
  simp [step, getVec, hl, hne, hlt, hd, setLen, sinkHandle, hDrop, hSlot, readElem, VecSt.readElem_ok, hb1, hc,
    World.dropElem_nofault, hf, hConsume, World.upd, logDrop]

end AnyVec
