/- Kernel tie: `utils::move_elements_at` (src/any_vec_ptr.rs), `impl Drop for Drain` (src/ops/drain.rs), see KernelMoveBase -/
import AnyVecModel.Proofs.KernelMoveBase
namespace AnyVec
namespace KernelTie
open World Gen.Kernel

/-! ### `move_elements_at`, `drop_elements_range` (src/any_vec_ptr.rs) -/

/-- both compile-time branches of `move_elements_at` are one `ptr::copy` (memmove) of `len` element slots
from `src_index` to `dst_index` -/
theorem move_elements_at_tie (s d n : Nat) (known : Bool) :
    move_elements_at_cmds s d n known = [.copy false s d n] := by
  cases known <;> rfl

/-! ### `impl Drop for Drain` (src/ops/drain.rs) -/

/-- drop the items not yet yielded, move the tail `[end, original_len)` down to `start`, then
`len := original_len - (end - start)` -/
theorem drain_drop_tie (it : RangeIt) :
    drainDrop it =
      runCmds { v := it.v, typed := it.typed } (drain_drop_cmds it.index it.end_ it.start it.end0 it.origLen) := by
  unfold drainDrop drain_drop_cmds
  simp only [runCmds, runCmd, onUnwind_pure]


end KernelTie
end AnyVec
