/-
  Kernel tie: `Stack::build`, `StackN::build` (regenerated from the source on every run)
-/
import AnyVecModel.Proofs.KernelBase
namespace AnyVec
namespace KernelTie
open World Gen.Kernel

/-- `Stack::build`, `StackN::build` + `StackNMem::size` -/
theorem stack_build_tie (bytes size align : Nat) :
    VecSt.buildCap (.stack bytes) size align =
      match stack_build bytes size align with
      | .ok (.ret c) => .ok c
      | .ok _ => .ub "kernel: unexpected result"
      | .panic m => .panic m
      | .ub m => .ub m := by
  by_cases h1 : align ≤ VecSt.STACK_MAX_ALIGN <;> by_cases h2 : size = 0 <;>
    simp [VecSt.buildCap, stack_build, h1, h2, Bind.bind, Res.bind, Pure.pure]

theorem stackn_build_tie (n bytes size align : Nat) :
    VecSt.buildCap (.stackN n bytes) size align =
      match stackn_build n bytes size align, stackn_size n with
      | .ok .none, .ok (.ret c) => .ok c
      | .panic m, _ => .panic m
      | _, _ => .ub "kernel: unexpected result" := by
  by_cases h1 : align ≤ VecSt.STACK_MAX_ALIGN <;> by_cases h2 : n * size ≤ bytes <;>
    simp [VecSt.buildCap, stackn_build, stackn_size, h1, h2, Pure.pure]

end KernelTie
end AnyVec
