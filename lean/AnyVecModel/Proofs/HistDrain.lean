/-
  `drain` under an arbitrary fault state: every item may go to a core sink (dropped, forgotten,
  downcast), from either end, and the iterator is finally dropped or forgotten.
-/
import AnyVecModel.Proofs.History
namespace AnyVec
open World

/-- the segment `[i, j)` of a list -/
def seg {α} (l : List α) (i j : Nat) : List α := (l.take j).drop i

theorem seg_split {α} (l : List α) (i m j : Nat) (h1 : i ≤ m) (h2 : m ≤ j) :
    seg l i j = seg l i m ++ seg l m j := by
  unfold seg
  apply List.ext_getElem?
  intro k
  simp only [List.getElem?_drop, List.getElem?_take, List.getElem?_append, List.length_drop, List.length_take]
  by_cases hk : k < min m l.length - i
  · have : i + k < m := by omega
    have : i + k < j := by omega
    simp [*]
  · simp only [hk, if_false]
    by_cases h3 : i + k < j
    · by_cases h4 : m ≤ l.length
      · have e : m + (k - (min m l.length - i)) = i + k := by omega
        have : i + k - m + m = i + k := by omega
        simp [h3, e]
      · have h5 : l.length ≤ i + k := by omega
        have h6 : l.length ≤ m + (k - (min m l.length - i)) := by omega
        simp [List.getElem?_eq_none h5, List.getElem?_eq_none h6]
    · have : ¬ m + (k - (min m l.length - i)) < j := by omega
      simp [h3, this]

theorem seg_zero_length {α} (l : List α) : seg l 0 l.length = l := by simp [seg]
theorem seg_take {α} (l : List α) (j : Nat) : seg l 0 j = l.take j := by simp [seg]
theorem seg_drop {α} (l : List α) (i : Nat) : seg l i l.length = l.drop i := by simp [seg]
theorem seg_self {α} (l : List α) (i : Nat) : seg l i i = [] := by
  simp [seg]
theorem seg_single {α} (l : List α) (i : Nat) (h : i < l.length) : seg l i (i + 1) = [l[i]] := by
  unfold seg
  apply List.ext_getElem?
  intro k
  cases k with
  | zero => simp [h]
  | succ k => simp; omega

/-- the typed slice destructor under an arbitrary fault state: every element of `[i, i+k)` is
destroyed exactly once, in order, whether or not one of the destructors panics -/
theorem dropSlice_erase (w : World) (v : Nat) (d : VecSt) (hasDrop : Bool) (i k : Nat) (ids : List Nat)
    (hv : w.vecs[v]? = some d) (hl : d.live = true) (hcap : i + k ≤ d.cap)
    (hlen : ids.length = k) (hids : ∀ j, j < k → d.cells.get (i + j) = .val (ids.getD j 0)) :
    (dropSlice v hasDrop i k w).1.erase = { w.erase with dropLog := ids.reverse ++ w.dropLog } ∧
      ((dropSlice v hasDrop i k w).2 = .ok () ∨ ∃ m, (dropSlice v hasDrop i k w).2 = .panic m) := by
  induction k generalizing i ids w with
  | zero =>
    have : ids = [] := List.length_eq_zero_iff.mp hlen
    subst this
    exact ⟨rfl, Or.inl rfl⟩
  | succ k ih =>
    match ids, hlen with
    | id :: rest, hlen =>
      have hlt : v < w.vecs.length := (List.getElem?_eq_some_iff.mp hv).1
      have hd : w.vecs[v] = d := (List.getElem?_eq_some_iff.mp hv).2
      have h0 := hids 0 (by omega)
      simp at h0
      have hb : i < d.cap := by omega
      obtain ⟨e1, e5⟩ := dropElem_erase hasDrop id w
      have hread : readElem v i w = (w, .ok id) := by
        simp only [readElem, WM.bind_apply, getVec_ok w v d hv hl, WM.lift, VecSt.readElem_ok d i id hb h0]
      simp only [dropSlice, WM.bind_apply, hread, WM.onUnwind]
      cases hde : dropElem hasDrop id w with
      | mk w1 res =>
        rw [hde] at e1 e5
        simp only at e1 e5
        have e2 : w1.vecs = w.vecs := by have := congrArg World.vecs e1; exact this
        have e3 : w1.dropLog = id :: w.dropLog := by have := congrArg World.dropLog e1; exact this
        obtain ⟨i1, i5⟩ := ih (w := w1) (i := i + 1) (ids := rest) (by rw [e2]; exact hv) (by omega)
          (by simpa using hlen)
          (by intro j hj
              have := hids (j + 1) (by omega)
              simp at this
              rw [show i + 1 + j = i + (j + 1) by omega]; exact this)
        rcases e5 with hok | ⟨m, hp⟩
        · subst hok
          simp only
          refine ⟨?_, i5⟩
          rw [i1, e1]; simp [e3]
        · subst hp
          simp only
          cases hrg : dropSlice v hasDrop (i + 1) k w1 with
          | mk w2 res2 =>
            rw [hrg] at i1 i5
            simp only at i1 i5
            have key : w2.erase = { w.erase with dropLog := (id :: rest).reverse ++ w.dropLog } := by
              rw [i1, e1]; simp [e3]
            rcases i5 with hok2 | ⟨m2, hp2⟩
            · subst hok2; exact ⟨key, Or.inr ⟨m, rfl⟩⟩
            · subst hp2; exact ⟨key, Or.inr ⟨m, rfl⟩⟩

/-- `drop_elements_range(s, e)`, erased or typed, under an arbitrary fault state: a sub-collection
of the range is destroyed (all of it when nothing panics on the erased path or on the typed path
always), each element at most once; nothing else changes -/
theorem dropRange_erase (w : World) (v : Nat) (d : VecSt) (typed : Bool) (s e : Nat)
    (hv : w.vecs[v]? = some d) (hl : d.live = true) (hcap : s + (e - s) ≤ d.cap)
    (hinit : d.InitRange s (e - s)) :
    (∃ dl : List Nat, Leq dl (d.idsRange s (e - s)) ∧
      (dropRange v typed s e w).1.erase = { w.erase with dropLog := dl ++ w.dropLog }) ∧
    ((dropRange v typed s e w).2 = .ok () ∨ ∃ m, (dropRange v typed s e w).2 = .panic m) := by
  have hids := fun j hj => VecSt.idsRange_get d s (e - s) j hj hinit
  have hloop : ∀ b, (∃ dl : List Nat, Leq dl (d.idsRange s (e - s)) ∧
      (dropLoop v b s (e - s) w).1.erase = { w.erase with dropLog := dl ++ w.dropLog }) ∧
      ((dropLoop v b s (e - s) w).2 = .ok () ∨ ∃ m, (dropLoop v b s (e - s) w).2 = .panic m) := by
    intro b
    obtain ⟨⟨n, hn, he⟩, h5⟩ := dropLoop_erase w v d b s (e - s) _ hv hl hcap (by simp) hids
    exact ⟨⟨_, Leq.trans (Leq.of_perm (List.reverse_perm _)) (Leq.take _ n), he⟩, h5⟩
  simp only [dropRange, WM.bind_apply, getVec_ok w v d hv hl]
  cases hD : d.hasDrop
  · simp only [Bool.false_eq_true, if_false]; exact hloop false
  · cases typed
    · simp only [if_true, Bool.false_eq_true, if_false]; exact hloop true
    · simp only [if_true]
      obtain ⟨he, h5⟩ := dropSlice_erase w v d true s (e - s) _ hv hl hcap (by simp) hids
      exact ⟨⟨_, Leq.of_perm (List.reverse_perm _), he⟩, h5⟩


/-- identities of the slots `[i, i+k)` of a good vector are the cells the vector shows there -/
theorem idsRange_map_seg (d : VecSt) (hg : d.Good) (i k : Nat) (h : i + k ≤ d.len) :
    (d.idsRange i k).map Cell.val = seg d.abs i (i + k) := by
  have h1 := hg.wf.len_le
  apply List.ext_getElem?
  intro j
  simp only [VecSt.idsRange, List.map_map, List.getElem?_map, List.getElem?_range, seg, List.getElem?_drop,
    List.getElem?_take, VecSt.abs]
  by_cases hj : j < k
  · obtain ⟨id, hid⟩ := hg.get (i + j) (by omega)
    have hk2 : i + j < d.cells.length := by omega
    have hid' := hid
    simp [Mem.get, List.getD_eq_getElem?_getD, hk2] at hid'
    have h3 : i + j < i + k := by omega
    have h4 : i + j < d.len := by omega
    simp [hj, hid, Cell.idOr0, h3, h4, hid', hk2]
  · have h3 : ¬ i + j < i + k := by omega
    simp [hj, h3]

theorem VecSt.initRange_of_good (d : VecSt) (hg : d.Good) (i k : Nat) (h : i + k ≤ d.len) : d.InitRange i k := by
  intro j hj
  exact hg.get (i + j) (by omega)

/-- the tail of `Drain::drop`: close the gap and restore the length -/
theorem drainTail_exec (w : World) (it : RangeIt) (d0 : VecSt)
    (hv : w.vecs[it.v]? = some d0) (hl : d0.live = true)
    (h1 : it.start ≤ it.end0) (h4 : it.end0 ≤ it.origLen) (h5 : it.origLen ≤ d0.cells.length)
    (h6 : d0.cells.length ≤ d0.cap) :
    (do moveElems it.v false it.end0 it.start (it.origLen - it.end0)
        setLen it.v (it.origLen - (it.end0 - it.start)) : WM Unit) w =
      (w.upd it.v (d0.drainClose it.start it.end0 it.origLen), .ok ()) := by
  have hlt : it.v < w.vecs.length := (List.getElem?_eq_some_iff.mp hv).1
  have hd : w.vecs[it.v] = d0 := (List.getElem?_eq_some_iff.mp hv).2
  have hb1 : it.end0 + (it.origLen - it.end0) ≤ d0.cap := by omega
  have hb2 : it.start + (it.origLen - it.end0) ≤ d0.cap := by omega
  simp [moveElems, getVec, hd, hl, VecSt.moveElems_ok, hb1, hb2, setLen, hlt, World.upd, VecSt.drainClose]

/-- **`Drain::drop` at every crash point** -/
theorem drainDrop_any (w : World) (it : RangeIt) (d0 : VecSt)
    (hv : w.vecs[it.v]? = some d0) (hl : d0.live = true)
    (h1 : it.start ≤ it.index) (h2 : it.index ≤ it.end_) (h3 : it.end_ ≤ it.end0)
    (h4 : it.end0 ≤ it.origLen) (h5 : it.origLen ≤ d0.cells.length) (h6 : d0.cells.length ≤ d0.cap)
    (hinit : d0.InitRange it.index (it.end_ - it.index)) :
    ∃ dl : List Nat, Leq dl (d0.idsRange it.index (it.end_ - it.index)) ∧
      (((drainDrop it w).2 = .ok () ∧ (drainDrop it w).1.erase =
          { (w.upd it.v (d0.drainClose it.start it.end0 it.origLen)).erase with dropLog := dl ++ w.dropLog }) ∨
       ((∃ m, (drainDrop it w).2 = .panic m) ∧ (drainDrop it w).1.erase =
          { w.erase with dropLog := dl ++ w.dropLog })) := by
  obtain ⟨⟨dl, hleq, he⟩, h7⟩ := dropRange_erase w it.v d0 it.typed it.index it.end_ hv hl (by omega) hinit
  refine ⟨dl, hleq, ?_⟩
  have hstep : drainDrop it w =
      match dropRange it.v it.typed it.index it.end_ w with
      | (w', .ok _) => (do moveElems it.v false it.end0 it.start (it.origLen - it.end0)
                           setLen it.v (it.origLen - (it.end0 - it.start)) : WM Unit) w'
      | (w', .panic s) => (w', .panic s)
      | (w', .ub s) => (w', .ub s) := by
    simp only [drainDrop, WM.bind_apply]
    cases hdr : dropRange it.v it.typed it.index it.end_ w with
    | mk w1 res => cases res <;> rfl
  rw [hstep]
  cases hdr : dropRange it.v it.typed it.index it.end_ w with
  | mk w1 res =>
    rw [hdr] at he h7
    simp only at he h7
    have e2 : w1.vecs = w.vecs := by have := congrArg World.vecs he; exact this
    rcases h7 with hok | ⟨m, hp⟩
    · subst hok
      left
      simp only
      rw [drainTail_exec w1 it d0 (by rw [e2]; exact hv) hl (by omega) h4 h5 h6]
      refine ⟨rfl, ?_⟩
      simp only [World.erase_upd, he]
      rfl
    · subst hp
      right
      exact ⟨⟨m, rfl⟩, he⟩


/-- a drained item given to a core sink, under any fault state: it ends up destroyed, held or
leaked — exactly one of them — and no vector changes -/
theorem sinkElem_core (cfg : Cfg) (w : World) (v slot : Nat) (typed : Bool) (k : Sink) (d0 : VecSt) (id : Nat)
    (hs : k.Core) (hv : w.vecs[v]? = some d0) (hl : d0.live = true) (hb : slot < d0.cap)
    (hc : d0.cells.get slot = .val id) :
    ∃ hl' dl' : List Nat, Leq (hl' ++ dl') [id] ∧
      (sinkElem cfg v slot typed k w).1.erase =
        { w.erase with held := hl' ++ w.held, dropLog := dl' ++ w.dropLog } ∧
      ((∃ o, (sinkElem cfg v slot typed k w).2 = .ok o) ∨ ∃ m, (sinkElem cfg v slot typed k w).2 = .panic m) := by
  have hread : readElem v slot w = (w, .ok id) := by
    simp only [readElem, WM.bind_apply, getVec_ok w v d0 hv hl, WM.lift, VecSt.readElem_ok d0 slot id hb hc]
  obtain ⟨e1, e5⟩ := dropElem_erase d0.hasDrop id w
  have hdropcase : ∀ (o : Out),
      ∃ hl' dl' : List Nat, Leq (hl' ++ dl') [id] ∧
        ((do dropElem d0.hasDrop id; pure o : WM Out) w).1.erase =
          { w.erase with held := hl' ++ w.held, dropLog := dl' ++ w.dropLog } ∧
        ((∃ o', ((do dropElem d0.hasDrop id; pure o : WM Out) w).2 = .ok o') ∨
          ∃ m, ((do dropElem d0.hasDrop id; pure o : WM Out) w).2 = .panic m) := by
    intro o
    simp only [WM.bind_apply, WM.pure_apply]
    cases hde : dropElem d0.hasDrop id w with
    | mk w1 res =>
      rw [hde] at e1 e5
      simp only at e1 e5
      rcases e5 with hok | ⟨m, hp⟩
      · subst hok; exact ⟨[], [id], Leq.refl _, e1, Or.inl ⟨o, rfl⟩⟩
      · subst hp; exact ⟨[], [id], Leq.refl _, e1, Or.inr ⟨m, rfl⟩⟩
  cases k with
  | drop =>
    simp only [sinkElem, WM.bind_apply, getVec_ok w v d0 hv hl, hread]
    exact hdropcase _
  | forget =>
    simp only [sinkElem, WM.bind_apply, getVec_ok w v d0 hv hl, hread, WM.pure_apply]
    exact ⟨[], [], Leq.nil _, rfl, Or.inl ⟨_, rfl⟩⟩
  | info =>
    simp only [sinkElem, WM.bind_apply, getVec_ok w v d0 hv hl, hread]
    exact hdropcase _
  | downcast ty =>
    simp only [sinkElem, WM.bind_apply, getVec_ok w v d0 hv hl]
    cases hm : (!typed && decide (ty ≠ d0.ty)) with
    | true =>
      simp only [if_true, WM.bind_apply, hread]
      exact hdropcase _
    | false =>
      simp only [Bool.false_eq_true, if_false, WM.bind_apply, hread, hold, WM.modify_apply, WM.pure_apply]
      exact ⟨[id], [], Leq.refl _, rfl, Or.inl ⟨_, rfl⟩⟩
  | pushTo _ => cases hs
  | insertTo _ _ => cases hs
  | lazyTo _ _ => cases hs
  | swapVal _ => cases hs


/-- a `Drain` over `[s, e)` of vector `v` (contents `d` before the call), in some consumption state -/
structure ItOk (d : VecSt) (v : Nat) (typed : Bool) (s e : Nat) (it : RangeIt) : Prop where
  v_eq : it.v = v
  typed_eq : it.typed = typed
  start_eq : it.start = s
  end0_eq : it.end0 = e
  orig_eq : it.origLen = d.len
  h1 : s ≤ it.index
  h2 : it.index ≤ it.end_
  h3 : it.end_ ≤ e

/-- the vector while the `Drain` is alive -/
def VecSt.draining (d : VecSt) (s : Nat) : VecSt := { d with len := s }

theorem eatLoop_drain (cfg : Cfg) (d : VecSt) (hg : d.Good) (hl : d.live = true) (v : Nat) (typed : Bool)
    (s e : Nat) (hse : s ≤ e) (hel : e ≤ d.len) (eats : List (End × Sink)) (hcore : ∀ p ∈ eats, p.2.Core) :
    ∀ (w : World) (it : RangeIt) (out : Out), ItOk d v typed s e it → w.vecs[v]? = some (d.draining s) →
    ∃ hl' dl' : List Nat,
      (∃ it' o, (eatLoop cfg drainDrop it eats out w).2 = .ok (it', o) ∧ ItOk d v typed s e it' ∧
        (eatLoop cfg drainDrop it eats out w).1.erase =
          { w.erase with held := hl' ++ w.held, dropLog := dl' ++ w.dropLog } ∧
        Leq ((hl' ++ dl').map Cell.val ++ seg d.abs it'.index it'.end_) (seg d.abs it.index it.end_)) ∨
      (∃ m d', (eatLoop cfg drainDrop it eats out w).2 = .panic m ∧
        (d' = d.draining s ∨ d' = (d.draining s).drainClose s e d.len) ∧
        (eatLoop cfg drainDrop it eats out w).1.erase =
          { (w.upd v d').erase with held := hl' ++ w.held, dropLog := dl' ++ w.dropLog } ∧
        Leq ((hl' ++ dl').map Cell.val) (seg d.abs it.index it.end_)) := by
  have hw1 := hg.wf.len_le; have hw2 := hg.wf.cells_le
  induction eats with
  | nil =>
    intro w it out hit hv
    refine ⟨[], [], Or.inl ⟨it, out, rfl, hit, rfl, ?_⟩⟩
    simpa using Leq.refl _
  | cons p rest ih =>
    intro w it out hit hv
    obtain ⟨en, k⟩ := p
    have hk : k.Core := hcore (en, k) (List.mem_cons_self)
    have ih' := ih (fun q hq => hcore q (List.mem_cons_of_mem _ hq))
    -- the slot yielded (if any) and the advanced iterator
    have hstepc : (Cursor.mk it.index it.end_).step en = (none, Cursor.mk it.index it.end_) ∧ it.index = it.end_ ∨
        ∃ slot i' e', (Cursor.mk it.index it.end_).step en = (some slot, Cursor.mk i' e') ∧
          it.index ≤ slot ∧ slot < it.end_ ∧ it.index ≤ i' ∧ i' ≤ e' ∧ e' ≤ it.end_ ∧
          ((slot = it.index ∧ i' = it.index + 1 ∧ e' = it.end_) ∨ (slot = it.end_ - 1 ∧ i' = it.index ∧ e' = it.end_ - 1)) := by
      have := hit.h2
      cases en with
      | front =>
        by_cases hc : it.index = it.end_
        · left; simp [Cursor.step, Cursor.next, hc]
        · right
          refine ⟨it.index, it.index + 1, it.end_, by simp [Cursor.step, Cursor.next, hc], ?_⟩
          omega
      | back =>
        by_cases hc : it.end_ = it.index
        · left; simp [Cursor.step, Cursor.nextBack, hc]
        · right
          refine ⟨it.end_ - 1, it.index, it.end_ - 1, by simp [Cursor.step, Cursor.nextBack, hc], ?_⟩
          omega
    rcases hstepc with ⟨hnone, _⟩ | ⟨slot, i', e', hsome, b1, b2, b3, b4, b5, hshape⟩
    · simp only [eatLoop, hnone]
      exact ih' w it _ hit hv
    · simp only [eatLoop, hsome]
      have hit' : ItOk d v typed s e { it with index := i', end_ := e' } :=
        ⟨hit.v_eq, hit.typed_eq, hit.start_eq, hit.end0_eq, hit.orig_eq, by have := hit.h1; simp; omega, by simpa using b4,
          by have := hit.h3; simp; omega⟩
      have hslot_len : slot < d.len := by have := hit.h3; omega
      obtain ⟨id, hc⟩ := hg.get slot hslot_len
      obtain ⟨hgetlt, hget⟩ := d.abs_get slot id hg.wf hslot_len hc
      have hlA := VecSt.abs_length hg.wf
      -- the segment loses exactly the yielded slot
      have hsegsplit : ∀ a, (seg d.abs it.index it.end_).count a =
          (seg d.abs i' e').count a + ([Cell.val id] : List Cell).count a := by
        intro a
        rcases hshape with ⟨r1, r2, r3⟩ | ⟨r1, r2, r3⟩
        · subst r1 r2 r3
          rw [seg_split d.abs it.index (it.index + 1) it.end_ (by omega) (by omega),
            seg_single d.abs it.index hgetlt, hget, List.count_append]
          omega
        · subst r2 r3
          rw [seg_split d.abs it.index (it.end_ - 1) it.end_ (by omega) (by omega), List.count_append]
          have : it.end_ - 1 + 1 = it.end_ := by omega
          have h9 := seg_single d.abs (it.end_ - 1) (by rw [← r1]; exact hgetlt)
          rw [this] at h9
          rw [h9]
          have : d.abs[it.end_ - 1]'(by rw [← r1]; exact hgetlt) = Cell.val id := by
            have := hget; subst r1; exact this
          rw [this]
      have hvit : w.vecs[it.v]? = some (d.draining s) := by rw [hit.v_eq]; exact hv
      obtain ⟨hl1, dl1, hleq1, he1, hres1⟩ := sinkElem_core cfg w it.v slot it.typed k (d.draining s) id hk hvit hl
        (by show slot < d.cap; omega) (by show d.cells.get slot = _; exact hc)
      have hleq1c : Leq ((hl1 ++ dl1).map Cell.val) [Cell.val id] := hleq1.map Cell.val
      simp only [WM.bind_apply, WM.onUnwind]
      cases hsk : sinkElem cfg it.v slot it.typed k w with
      | mk w1 res =>
        rw [hsk] at he1 hres1
        simp only at he1 hres1
        have e2 : w1.vecs = w.vecs := by have := congrArg World.vecs he1; exact this
        have e3 : w1.dropLog = dl1 ++ w.dropLog := by have := congrArg World.dropLog he1; exact this
        have e4 : w1.held = hl1 ++ w.held := by have := congrArg World.held he1; exact this
        have hv1 : w1.vecs[v]? = some (d.draining s) := by rw [e2]; exact hv
        rcases hres1 with ⟨o, hok⟩ | ⟨m, hp⟩
        · subst hok
          simp only
          obtain ⟨hl2, dl2, hcase⟩ := ih' w1 { it with index := i', end_ := e' }
            (out ++ [String.intercalate "/" o ++ ":" ++ toString (Cursor.mk i' e').len]) hit' hv1
          refine ⟨hl2 ++ hl1, dl2 ++ dl1, ?_⟩
          rcases hcase with ⟨it2, o2, r1, r2, r3, r4⟩ | ⟨m2, d', r1, r2, r3, r4⟩
          · left
            refine ⟨it2, o2, r1, r2, ?_, ?_⟩
            · rw [r3, he1]; simp [e3, e4]
            · rw [Leq_iff_count] at r4 hleq1c ⊢
              intro a
              have q1 := r4 a; have q2 := hleq1c a; have q3 := hsegsplit a
              simp only [List.map_append, List.count_append] at q1 q2 q3 ⊢
              omega
          · right
            refine ⟨m2, d', r1, r2, ?_, ?_⟩
            · rw [r3]; simp only [World.erase_upd, he1]; simp [e3, e4, World.upd]
            · rw [Leq_iff_count] at r4 hleq1c ⊢
              intro a
              have q1 := r4 a; have q2 := hleq1c a; have q3 := hsegsplit a
              simp only [List.map_append, List.count_append] at q1 q2 q3 ⊢
              omega
        · subst hp
          simp only
          -- the sink panicked: `Drain::drop` runs while unwinding
          have hvit1 : w1.vecs[({ it with index := i', end_ := e' } : RangeIt).v]? = some (d.draining s) := by
            show w1.vecs[it.v]? = _; rw [hit.v_eq]; exact hv1
          obtain ⟨dl2, hleq2, hcase⟩ := drainDrop_any w1 { it with index := i', end_ := e' } (d.draining s) hvit1 hl
            (by show it.start ≤ i'; rw [hit.start_eq]; have := hit.h1; omega) b4
            (by show e' ≤ it.end0; rw [hit.end0_eq]; have := hit.h3; omega)
            (by show it.end0 ≤ it.origLen; rw [hit.end0_eq, hit.orig_eq]; exact hel)
            (by show it.origLen ≤ d.cells.length; rw [hit.orig_eq]; exact hw1) hw2
            (by
              have := VecSt.initRange_of_good d hg i' (e' - i') (by have := hit.h3; omega)
              exact this)
          have hseg2 : (d.idsRange i' (e' - i')).map Cell.val = seg d.abs i' e' := by
            have := idsRange_map_seg d hg i' (e' - i') (by have := hit.h3; omega)
            rw [this, show i' + (e' - i') = e' by omega]
          have hleq2' : Leq (dl2.map Cell.val) (seg d.abs i' e') := by
            rw [← hseg2]; exact hleq2.map Cell.val
          refine ⟨hl1, dl2 ++ dl1, Or.inr ?_⟩
          have hfin : Leq ((hl1 ++ (dl2 ++ dl1)).map Cell.val) (seg d.abs it.index it.end_) := by
            rw [Leq_iff_count] at hleq2' hleq1c ⊢
            intro a
            have q1 := hleq2' a; have q2 := hleq1c a; have q3 := hsegsplit a
            simp only [List.map_append, List.count_append] at q1 q2 q3 ⊢
            omega
          cases hdd : drainDrop { it with index := i', end_ := e' } w1 with
          | mk w2 res2 =>
            rw [hdd] at hcase
            simp only at hcase
            rcases hcase with ⟨hok2, he2⟩ | ⟨⟨m2, hp2⟩, he2⟩
            · subst hok2
              refine ⟨m, (d.draining s).drainClose s e d.len, rfl, Or.inr rfl, ?_, hfin⟩
              rw [he2]
              simp only [World.erase_upd, he1]
              simp [e3, e4, World.upd, hit.v_eq, hit.start_eq, hit.end0_eq, hit.orig_eq]
            · subst hp2
              refine ⟨m, d.draining s, rfl, Or.inl rfl, ?_, hfin⟩
              rw [he2, World.upd_self w v _ hv]
              rw [he1]; simp [e3, e4]


theorem rangeStart_notUb (b : Bnd) : (rangeStart b).notUb := by
  cases b <;> simp only [rangeStart] <;> (try trivial)
  exact checkedAdd_notUb _ _ _

theorem rangeEnd_notUb (len : Nat) (b : Bnd) : (rangeEnd len b).notUb := by
  cases b <;> simp only [rangeEnd] <;> (try trivial)
  exact checkedAdd_notUb _ _ _

theorem intoRange_cases (len : Nat) (lo hi : Bnd) :
    (∃ s e, intoRange len lo hi = .ok (s, e) ∧ s ≤ e ∧ e ≤ len) ∨ ∃ m, intoRange len lo hi = .panic m := by
  unfold intoRange
  have h1 := rangeStart_notUb lo
  have h2 := rangeEnd_notUb len hi
  cases hs : rangeStart lo with
  | ok s =>
    cases he : rangeEnd len hi with
    | ok e =>
      simp only
      by_cases hse : s ≤ e
      · by_cases hel : e ≤ len
        · left; exact ⟨s, e, by simp [hse, hel], hse, hel⟩
        · right; exact ⟨"assertion failed: end <= len", by simp [hse, hel]⟩
      · right; exact ⟨"assertion failed: start <= end", by simp [hse]⟩
    | panic m => right; exact ⟨m, rfl⟩
    | ub m => rw [he] at h2; exact h2.elim
  | panic m =>
    right
    cases he : rangeEnd len hi <;> exact ⟨m, rfl⟩
  | ub m => rw [hs] at h1; exact h1.elim

theorem VecSt.draining_good (d : VecSt) (hg : d.Good) (s : Nat) (hs : s ≤ d.len) : (d.draining s).Good := by
  have h1 := hg.wf.len_le
  refine VecSt.good_of_sub hg ⟨by show s ≤ d.cells.length; omega, hg.wf.cells_le⟩ ?_
  intro c hc
  simp only [VecSt.draining, VecSt.abs] at hc ⊢
  have : d.cells.take s = (d.cells.take d.len).take s := by rw [List.take_take, Nat.min_eq_left hs]
  rw [this] at hc
  exact List.mem_of_mem_take hc

theorem VecSt.draining_abs (d : VecSt) (s : Nat) (hs : s ≤ d.len) : (d.draining s).abs = seg d.abs 0 s := by
  simp only [VecSt.draining, VecSt.abs, seg, List.drop_zero, List.take_take, Nat.min_eq_left hs]

theorem VecSt.drainClosed_abs (d : VecSt) (hg : d.Good) (s e : Nat) (hse : s ≤ e) (hel : e ≤ d.len) :
    ((d.draining s).drainClose s e d.len).abs = seg d.abs 0 s ++ seg d.abs e d.len := by
  have h1 := hg.wf.len_le
  rw [VecSt.drainClose_abs _ s e d.len hse hel (by show d.len ≤ d.cells.length; exact h1)]
  simp only [VecSt.draining, VecSt.abs, seg, List.drop_zero, List.take_take, Nat.min_eq_left (by omega : s ≤ d.len),
    Nat.min_self]

theorem VecSt.drainClosed_good (d : VecSt) (hg : d.Good) (s e : Nat) (hse : s ≤ e) (hel : e ≤ d.len) :
    ((d.draining s).drainClose s e d.len).Good := by
  have h1 := hg.wf.len_le
  refine VecSt.good_of_sub hg (VecSt.drainClose_wf _ s e d.len hse hel (by show d.len ≤ d.cells.length; exact h1)
    (by show d.cells.length ≤ d.cap; exact hg.wf.cells_le)) ?_
  intro c hc
  rw [d.drainClosed_abs hg s e hse hel] at hc
  rcases List.mem_append.mp hc with h | h
  · exact List.mem_of_mem_take (List.mem_of_mem_drop h)
  · exact List.mem_of_mem_take (List.mem_of_mem_drop h)

/-- the whole vector as prefix ++ drained range ++ tail -/
theorem abs_three (d : VecSt) (hg : d.Good) (s e : Nat) (hse : s ≤ e) (hel : e ≤ d.len) (a : Cell) :
    d.abs.count a = (seg d.abs 0 s).count a + (seg d.abs s e).count a + (seg d.abs e d.len).count a := by
  have hl := VecSt.abs_length hg.wf
  have e1 : d.abs = seg d.abs 0 d.len := by rw [← hl]; exact (seg_zero_length d.abs).symm
  conv => lhs; rw [e1]
  rw [seg_split d.abs 0 s d.len (Nat.zero_le _) (by omega), seg_split d.abs s e d.len hse hel]
  simp only [List.count_append]
  omega


/-- **`drain` (any range form, any consumption pattern with core sinks, dropped or forgotten) from any
world satisfying the invariant, under any fault state** -/
theorem step_drain_inv (cfg : Cfg) (w : World) (v : Nat) (lo hi : Bnd) (typed : Bool) (eats : List (End × Sink))
    (fin : Fin) (d : VecSt) (h : w.Inv) (hv : w.vecs[v]? = some d) (hl : d.live = true)
    (hcore : ∀ p ∈ eats, p.2.Core) :
    (step cfg (.drain v lo hi typed eats fin) w).1.Inv ∧ (step cfg (.drain v lo hi typed eats fin) w).2.notUb := by
  have hlt : v < w.vecs.length := (List.getElem?_eq_some_iff.mp hv).1
  have hg := h.good v d hv
  have hw1 := hg.wf.len_le; have hw2 := hg.wf.cells_le
  rcases intoRange_cases d.len lo hi with ⟨s, e, hr, hse, hel⟩ | ⟨m, hr⟩
  · let it : RangeIt := { v := v, typed := typed, start := s, end0 := e, origLen := d.len, index := s, end_ := e }
    have hit : ItOk d v typed s e it := ⟨rfl, rfl, rfl, rfl, rfl, Nat.le_refl _, hse, Nat.le_refl _⟩
    have hv0 : (w.upd v (d.draining s)).vecs[v]? = some (d.draining s) := by simp [hlt]
    obtain ⟨hl', dl', hcase⟩ := eatLoop_drain cfg d hg hl v typed s e hse hel eats hcore (w.upd v (d.draining s)) it
      [toString (e - s)] hit hv0
    have hstep : step cfg (.drain v lo hi typed eats fin) w =
        match eatLoop cfg drainDrop it eats [toString (e - s)] (w.upd v (d.draining s)) with
        | (w', .ok (it', out)) =>
          (match fin with
            | .drop => (do drainDrop it'; pure out : WM Out)
            | .forget => (pure out : WM Out)) w'
        | (w', .panic s) => (w', .panic s)
        | (w', .ub s) => (w', .ub s) := by
      simp only [step, drain, WM.bind_apply, getVec_ok w v d hv hl, hr, WM.lift_ok, setLen, setVec_apply]
      cases hel' : eatLoop cfg drainDrop it eats [toString (e - s)] (w.upd v (d.draining s)) with
      | mk w1 res =>
        have hel'' : eatLoop cfg drainDrop
            { v := v, typed := typed, start := s, end0 := e, origLen := d.len, index := s, end_ := e } eats
            [toString (e - s)] (w.upd v { d with len := s }) = (w1, res) := hel'
        rw [hel'']
        cases res with
        | ok p => obtain ⟨it', out⟩ := p; cases fin <;> rfl
        | panic _ => rfl
        | ub _ => rfl
    rw [hstep]
    -- the identities handed out or destroyed all come from the drained range
    have hfinal : ∀ (w' : World) (d' : VecSt) (hl2 dl2 : List Nat),
        (d' = d.draining s ∨ d' = (d.draining s).drainClose s e d.len) →
        w'.erase = { ((w.upd v (d.draining s)).upd v d').erase with held := hl2 ++ w.held, dropLog := dl2 ++ w.dropLog } →
        Leq ((hl2 ++ dl2).map Cell.val) (seg d.abs s e) → w'.Inv := by
      intro w' d' hl2 dl2 hd' he hleq
      have hgood : d'.Good := by
        rcases hd' with rfl | rfl
        · exact d.draining_good hg s (by omega)
        · exact d.drainClosed_good hg s e hse hel
      refine h.local_erase v d d' hl2 dl2 hv (by simpa using he) hgood ?_
      rw [Leq_iff_count] at hleq ⊢
      intro a
      have q1 := hleq a
      have q2 := abs_three d hg s e hse hel a
      rcases hd' with rfl | rfl
      · rw [d.draining_abs s (by omega)]
        simp only [List.map_append, List.count_append] at q1 ⊢
        omega
      · rw [d.drainClosed_abs hg s e hse hel]
        simp only [List.map_append, List.count_append] at q1 ⊢
        omega
    cases hel' : eatLoop cfg drainDrop it eats [toString (e - s)] (w.upd v (d.draining s)) with
    | mk w1 res =>
      rw [hel'] at hcase
      simp only at hcase
      rcases hcase with ⟨it', o, r1, r2, r3, r4⟩ | ⟨m, d', r1, r2, r3, r4⟩
      · subst r1
        simp only
        have r4 : Leq ((hl' ++ dl').map Cell.val ++ seg d.abs it'.index it'.end_) (seg d.abs s e) := r4
        have e2 : w1.vecs = (w.upd v (d.draining s)).vecs := by have := congrArg World.vecs r3; exact this
        have e3 : w1.dropLog = dl' ++ w.dropLog := by have := congrArg World.dropLog r3; exact this
        have e4 : w1.held = hl' ++ w.held := by have := congrArg World.held r3; exact this
        have hv1 : w1.vecs[it'.v]? = some (d.draining s) := by rw [r2.v_eq, e2]; exact hv0
        cases fin with
        | forget =>
          simp only [WM.pure_apply]
          refine ⟨hfinal w1 (d.draining s) hl' dl' (Or.inl rfl) ?_ ?_, trivial⟩
          · simpa using r3
          · rw [Leq_iff_count] at r4 ⊢
            intro a
            have := r4 a
            simp only [List.map_append, List.count_append] at this ⊢
            omega
        | drop =>
          obtain ⟨dl2, hleq2, hcase2⟩ := drainDrop_any w1 it' (d.draining s) hv1 hl
            (by rw [r2.start_eq]; exact r2.h1) r2.h2 (by rw [r2.end0_eq]; exact r2.h3)
            (by rw [r2.end0_eq, r2.orig_eq]; exact hel) (by rw [r2.orig_eq]; exact hw1) hw2
            (VecSt.initRange_of_good d hg it'.index (it'.end_ - it'.index) (by have := r2.h3; have := r2.h2; omega))
          have hseg2 : (d.idsRange it'.index (it'.end_ - it'.index)).map Cell.val = seg d.abs it'.index it'.end_ := by
            have := idsRange_map_seg d hg it'.index (it'.end_ - it'.index) (by have := r2.h3; have := r2.h2; omega)
            rw [this, show it'.index + (it'.end_ - it'.index) = it'.end_ by have := r2.h2; omega]
          have hleq2' : Leq (dl2.map Cell.val) (seg d.abs it'.index it'.end_) := by
            rw [← hseg2]; exact hleq2.map Cell.val
          have hfin : Leq ((hl' ++ (dl2 ++ dl')).map Cell.val) (seg d.abs s e) := by
            rw [Leq_iff_count] at hleq2' r4 ⊢
            intro a
            have q1 := hleq2' a; have q2 := r4 a
            simp only [List.map_append, List.count_append] at q1 q2 ⊢
            omega
          simp only [WM.bind_apply, WM.pure_apply]
          cases hdd : drainDrop it' w1 with
          | mk w2 res2 =>
            rw [hdd] at hcase2
            simp only at hcase2
            rcases hcase2 with ⟨hok2, he2⟩ | ⟨⟨m2, hp2⟩, he2⟩
            · subst hok2
              simp only
              refine ⟨hfinal w2 _ hl' (dl2 ++ dl') (Or.inr rfl) ?_ hfin, trivial⟩
              rw [he2]
              simp only [World.erase_upd, r3]
              simp [e3, World.upd, r2.v_eq, r2.start_eq, r2.end0_eq, r2.orig_eq]
            · subst hp2
              simp only
              refine ⟨hfinal w2 _ hl' (dl2 ++ dl') (Or.inl rfl) ?_ hfin, trivial⟩
              rw [he2, r3]; simp [e3]
      · subst r1
        simp only
        exact ⟨hfinal w1 d' hl' dl' r2 r3 r4, trivial⟩
  · have e : step cfg (.drain v lo hi typed eats fin) w = ({ w with fault := none }, .panic m) := by
      simp only [step, drain, WM.bind_apply, getVec_ok w v d hv hl, hr, WM.lift]
    rw [e]; exact ⟨h.of_erase rfl, trivial⟩

end AnyVec
