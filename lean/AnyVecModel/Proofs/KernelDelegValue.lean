/- Kernel tie: the remaining thin functions (delegations, unchecked accessors, constructors, self-reports of handles) as call
traces re-translated from /repo/src on every run; pinned here. See KernelApiOps for the representation. -/
import AnyVecModel.Proofs.KernelBase
namespace AnyVec
namespace KernelTie
open Gen.Kernel

/-- what a removal handle / an element handle reports about itself: the size is the vector's element size on the erased path and `size_of::<Element>()` on the typed one (never the other way round), the type id is the vector's, `as_bytes_ptr` is the operation's element pointer, `clone_into` calls the vector's clone function for exactly one element; `copy_nonoverlapping_value` copies one element on both paths -/
theorem deleg_value_tie (known : Bool) :
    temp_bytes_len_trace known = [.branch (!known) [.call "any_vec_raw" [], .call "element_layout" [], .call "size" []] [.call "mem::size_of" []]] ∧
    temp_size_trace known = [.call "bytes_len" []] ∧
    temp_as_bytes_ptr_trace known = [.call "bytes" []] ∧
    temp_clone_into_trace known = [.call "any_vec_ptr" [], .call "any_vec" [], .call "clone_fn" [], .call "as_bytes" [], .call "as_ptr" [], .call "clone_fn" [1]] ∧
    element_size_trace known = [.call "any_vec_raw" [], .call "element_layout" [], .call "size" []] ∧
    element_value_typeid_trace known = [.call "= self.any_vec_raw().type_id" []] ∧
    element_clone_into_trace known = [.call "any_vec" [], .call "clone_fn" [], .call "as_bytes" [], .call "as_ptr" [], .call "clone_fn" [1]] ∧
    lib_copy_nonoverlapping_value_trace known = [.branch known [.call "ptr::copy_nonoverlapping" [1]] [.call "ptr::copy_nonoverlapping" []]] ∧
    ptr_element_size_trace known = [.branch (!known) [.call "any_vec_raw" [], .call "element_layout" [], .call "size" []] [.call "size_of" []]] ∧
    ptr_element_typeid_trace known = [.branch (!known) [.call "any_vec_raw" []] [.call "TypeId::of" []]] :=
  ⟨rfl, rfl, rfl, rfl, rfl, rfl, rfl, rfl, rfl, rfl⟩

end KernelTie
end AnyVec
