/-
  Kernel tie: `Iter::len` (regenerated from the source on every run)
-/
import AnyVecModel.Proofs.KernelBase
namespace AnyVec
namespace KernelTie
open World Gen.Kernel

/-- `Iter::len` (`ExactSizeIterator`) -/
theorem iter_len_tie (c : Cursor) : iter_len c.index c.end_ = .ok (.ret c.len) := rfl

/-- `Iter::next`: the yielded slot and the advanced cursor -/
theorem iter_next_tie (c : Cursor) :
    iter_next c.index c.end_ = .ok (.step c.next.1 c.next.2.index c.next.2.end_) := by
  by_cases h : c.index = c.end_ <;> simp [iter_next, Cursor.next, h, Pure.pure, Bind.bind, Res.bind]

/-- `Iter::next_back` -/
theorem iter_next_back_tie (c : Cursor) :
    iter_next_back c.index c.end_ = .ok (.step c.nextBack.1 c.nextBack.2.index c.nextBack.2.end_) := by
  by_cases h : c.end_ = c.index <;> simp [iter_next_back, Cursor.nextBack, h, Pure.pure, Bind.bind, Res.bind]

/-- `impl Clone for Iter`: the clone has the same cursor -/
theorem iter_clone_tie (c : Cursor) : iter_clone c.index c.end_ = .ok (.made 0 [c.index, c.end_]) := rfl

end KernelTie
end AnyVec
