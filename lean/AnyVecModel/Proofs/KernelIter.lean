/-
  Kernel tie: `Iter::len` (regenerated from the source on every run)
-/
import AnyVecModel.Proofs.KernelBase
namespace AnyVec
namespace KernelTie
open World Gen.Kernel

/-- `Iter::len` (`ExactSizeIterator`) -/
theorem iter_len_tie (c : Cursor) : iter_len c.index c.end_ = .ok (.ret c.len) := rfl

end KernelTie
end AnyVec
