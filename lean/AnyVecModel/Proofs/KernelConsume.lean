/- Kernel tie: `Operation::consume` of Pop / Remove / SwapRemove (src/ops/*.rs), see KernelMoveBase -/
import AnyVecModel.Proofs.KernelMoveBase
namespace AnyVec
namespace KernelTie
open World Gen.Kernel

theorem pop_consume_tie (h : Handle) (hk : h.kind = .pop) : hConsume h = runCmds (hCtx h) pop_consume_cmds := by
  unfold World.hConsume; rw [hk]; rfl

/-- `Remove::consume`: shift `[index+1, last_index]` one slot left, then `len := last_index` -/
theorem remove_consume_tie (h : Handle) (i last : Nat) (hk : h.kind = .remove i last) :
    hConsume h = runCmds (hCtx h) (remove_consume_cmds i last h.typed) := by
  unfold World.hConsume remove_consume_cmds; rw [hk]
  cases h.typed <;> rfl

/-- `SwapRemove::consume`: the last element is copied over the cached element pointer unless they are the same
slot, then `len := last_index` -/
theorem swap_remove_consume_tie (w : World) (h : Handle) (s g last : Nat) (hk : h.kind = .swapRemove s g last) :
    hConsume h w = (do let slot ← hSlot h; runCmds (hCtx h) (swap_remove_consume_cmds slot last)) w := by
  unfold World.hConsume swap_remove_consume_cmds; rw [hk]
  simp only [WM.bind_apply]
  cases hs : hSlot h w with
  | mk w1 r =>
    cases r with
    | panic m => rfl
    | ub m => rfl
    | ok slot =>
      have hslot : slot = s := by
        unfold World.hSlot at hs
        simp only [WM.bind_apply, hk] at hs
        cases hg : World.getVec h.v w with
        | mk w2 r2 =>
          rw [hg] at hs
          cases r2 with
          | ok x =>
            simp only at hs
            split at hs
            · cases hs; rfl
            · cases hs
          | panic m => cases hs
          | ub m => cases hs
      subst hslot
      simp only
      by_cases hne : slot = last
      · subst hne
        simp only [ne_eq, not_true_eq_false, if_false, bne_self_eq_false, Bool.false_eq_true]
        rfl
      · have hb : (slot != last) = true := by simp [bne_iff_ne, hne]
        simp only [ne_eq, hne, not_false_eq_true, if_true, hb, runCmds, runCmd, WM.bind_apply, hCtx]
        cases hg : World.getVec h.v w1 with
        | mk w2 r2 =>
          cases r2 with
          | ok x =>
            simp only
            by_cases hc : last < x.cap
            · simp only [hc, if_true, WM.bind_apply]
            · simp only [hc, if_false, WM.bind_apply]
          | panic m => rfl
          | ub m => rfl


end KernelTie
end AnyVec
