/- Kernel tie: `HeapMem::resize` (src/mem/heap.rs) is re-translated from /repo/src on every run into the allocator calls
it makes - `dealloc` / `alloc` / `realloc` with their byte sizes and alignment -, the checked multiplication and the
`Layout::from_size_align` validity check with their panic messages, and the assignment of the new size, in program
order. The model's `heapResize` is the execution of that list. (`handle_alloc_error`: allocation failure is not
modelled.) -/
import AnyVecModel.Proofs.KernelBase
namespace AnyVec
namespace KernelTie
open Gen.Kernel

/-- run the allocator commands on the model's vector: every allocator call may move the storage (generation bump) and
is logged as the event the instrumented allocator of the harness reports -/
def runA (v : VecSt) (es : List Event) : List ACmd → Res (VecSt × List Event)
  | [] => .ok (v, es)
  | .panic m :: _ => .panic m
  | .layoutCheck bytes align msg :: cs => if bytes + (align - 1) > ISIZE_MAX then .panic msg else runA v es cs
  | .dealloc b a :: cs => runA { v with cells := [], gen := v.gen + 1 } (es ++ [.dealloc b a]) cs
  | .alloc b a :: cs => runA { v with gen := v.gen + 1 } (es ++ [.alloc b a]) cs
  | .realloc ob a nb :: cs => runA { v with gen := v.gen + 1 } (es ++ [.realloc ob nb a]) cs
  | .setSize n :: cs => runA { v with cap := n, cells := v.cells.take n } es cs

theorem heap_resize_tie (v : VecSt) (n : Nat) :
    v.heapResize n = runA v [] (heap_resize_cmds v.cap v.size v.align n) ∧ heap_drop_resize = 0 := by
  refine ⟨?_, rfl⟩
  unfold VecSt.heapResize heap_resize_cmds
  by_cases h1 : v.cap = n
  · simp [h1, runA]
  · by_cases h2 : v.size = 0
    · simp [h1, h2, runA]
    · by_cases h3 : n = 0
      · subst h3
        simp [h1, h2, runA]
      · simp only [h1, h2, h3, if_false, beq_iff_eq, bne_iff_ne, ne_eq, not_false_eq_true, if_true]
        cases hm : checkedMul v.size n with
        | ok bytes =>
          simp only [runA]
          by_cases h4 : bytes + (v.align - 1) > ISIZE_MAX
          · simp [h4]
          · by_cases h5 : v.cap = 0
            · simp [h4, h5, runA]
            · simp [h4, h5, runA]
        | panic m => simp [runA]
        | ub m => unfold checkedMul at hm; split at hm <;> cases hm

end KernelTie
end AnyVec
