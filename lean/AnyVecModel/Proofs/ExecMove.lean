/-
  AnyVecModel.Proofs.ExecMove — an element removed from one vector and pushed into another (`remove(i)` handle given to
  `push`), without injected fault: exact effect when the value is accepted.
-/
import AnyVecModel.Proofs.Exec
namespace AnyVec
open World

theorem remove_push_exec2 (cfg : Cfg) (w : World) (v u i id : Nat) (d du du1 : VecSt) (es : List Event) (hvu : v ≠ u)
    (hv : w.vecs[v]? = some d) (hu : w.vecs[u]? = some du) (hl : d.live = true) (hlu : du.live = true)
    (hwf : d.WF) (hwfu : du.WF) (hi : i < d.len) (hc : d.cells.get i = .val id) (hty : d.ty = du.ty)
    (hr : du.reserveOne = .ok (du1, es)) :
    step cfg (.remove v i (.pushTo u)) w =
      ({ w with vecs := (w.vecs.set u (du1.pushCell (.val id))).set v (d.removeAt i), ev := es.reverse ++ w.ev }, .ok []) := by
  have hlt : v < w.vecs.length := (List.getElem?_eq_some_iff.mp hv).1
  have hd : w.vecs[v] = d := (List.getElem?_eq_some_iff.mp hv).2
  have hltu : u < w.vecs.length := (List.getElem?_eq_some_iff.mp hu).1
  have hdu : w.vecs[u] = du := (List.getElem?_eq_some_iff.mp hu).2
  have h1 := hwf.len_le; have h2 := hwf.cells_le
  obtain ⟨h3, hlen1, _, _, hty1, _, _, _, _, _, hl1⟩ := reserveOne_spec du du1 es hwfu hr
  have hl1' : du1.live = true := by rw [hl1]; exact hlu
  have hb1 : i < d.cap := by omega
  have hb2 : i + 1 + (d.len - 1 - i) ≤ d.cap := by omega
  have hb3 : i + (d.len - 1 - i) ≤ d.cap := by omega
  have huv : u ≠ v := Ne.symm hvu
  simp [step, getVec, hl, hi, hlt, hd, setLen, sinkHandle, huv, push, valTy, hltu, hdu, hlu, hty, pushUnchecked,
    WM.onUnwind, vecOp, hr, valMoveInto, hSlot, readElem, VecSt.readElem_ok, hb1, hc, World.writeCell,
    VecSt.writeCell_ok, h3, hl1', hConsume, moveElems, VecSt.moveElems_ok, hb2, hb3, World.upd, VecSt.removeAt,
    VecSt.pushCell, List.getElem?_set, hvu, List.getElem_set, emit]
  apply List.ext_getElem?
  intro k
  simp only [List.getElem?_set, List.length_set]
  by_cases hku : u = k
  · subst hku; simp [hvu, hltu]
  · by_cases hkv : v = k
    · subst hkv; simp [hku, hlt]
    · simp [hku, hkv]

/-- … and when the destination refuses it - wrong element type, or no room - the handle is dropped: the removal completes
and the element is destroyed -/
theorem remove_push_rejected_exec (cfg : Cfg) (w : World) (v u i id : Nat) (d du : VecSt) (hvu : v ≠ u)
    (hv : w.vecs[v]? = some d) (hu : w.vecs[u]? = some du) (hl : d.live = true) (hlu : du.live = true)
    (hwf : d.WF) (hi : i < d.len) (hc : d.cells.get i = .val id) (hf : w.fault = none)
    (hrej : d.ty ≠ du.ty ∨ (d.ty = du.ty ∧ ∃ m, du.reserveOne = .panic m)) :
    ∃ m', step cfg (.remove v i (.pushTo u)) w =
      ({ logDrop d.hasDrop id w with vecs := w.vecs.set v (d.removeAt i) }, .panic m') := by
  have hlt : v < w.vecs.length := (List.getElem?_eq_some_iff.mp hv).1
  have hd : w.vecs[v] = d := (List.getElem?_eq_some_iff.mp hv).2
  have hltu : u < w.vecs.length := (List.getElem?_eq_some_iff.mp hu).1
  have hdu : w.vecs[u] = du := (List.getElem?_eq_some_iff.mp hu).2
  have h1 := hwf.len_le; have h2 := hwf.cells_le
  have hb1 : i < d.cap := by omega
  have hb2 : i + 1 + (d.len - 1 - i) ≤ d.cap := by omega
  have hb3 : i + (d.len - 1 - i) ≤ d.cap := by omega
  have huv : u ≠ v := Ne.symm hvu
  rcases hrej with hne | ⟨hty, m, hr⟩
  · refine ⟨"Type mismatch!", ?_⟩
    simp [step, getVec, hl, hi, hlt, hd, setLen, sinkHandle, huv, push, valTy, hltu, hdu, hlu, hne,
      WM.onUnwind, valDrop, hDrop, hSlot, readElem, VecSt.readElem_ok, hb1, hc, World.dropElem_nofault, hf,
      hConsume, moveElems, VecSt.moveElems_ok, hb2, hb3, World.upd, VecSt.removeAt, logDrop, List.getElem?_set, hvu]
  · refine ⟨m, ?_⟩
    simp [step, getVec, hl, hi, hlt, hd, setLen, sinkHandle, huv, push, valTy, hltu, hdu, hlu, hty, pushUnchecked,
      WM.onUnwind, vecOp, hr, WM.lift, valDrop, hDrop, hSlot, readElem, VecSt.readElem_ok, hb1, hc, World.dropElem_nofault, hf,
      hConsume, moveElems, VecSt.moveElems_ok, hb2, hb3, World.upd, VecSt.removeAt, logDrop, List.getElem?_set, hvu]

end AnyVec
