/-
  Kernel tie: `lib.rs into_range` (regenerated from the source on every run)
-/
import AnyVecModel.Proofs.KernelBase
namespace AnyVec
namespace KernelTie
open World Gen.Kernel

/-- `lib.rs into_range` -/
theorem into_range_tie (len : Nat) (lo hi : Bnd) :
    into_range len lo hi =
      match intoRange len lo hi with
      | .ok (s, e) => .ok (.ret2 s e)
      | .panic m => .panic m
      | .ub m => .ub m := by
  have key : ∀ (rs re : Res Nat),
      (do let start ← rs
          let end_ ← re
          if (decide (start ≤ end_)) then (if (decide (end_ ≤ len)) then pure (KEff.ret2 start end_)
            else Res.panic "assertion failed: end <= len") else Res.panic "assertion failed: start <= end" : Res KEff) =
      match (match rs, re with
        | .ok s, .ok e =>
          if s ≤ e then (if e ≤ len then Res.ok (s, e) else .panic "assertion failed: end <= len")
          else .panic "assertion failed: start <= end"
        | .panic m, _ => .panic m
        | .ub m, _ => .ub m
        | _, .panic m => .panic m
        | _, .ub m => .ub m : Res (Nat × Nat)) with
      | .ok (s, e) => .ok (.ret2 s e)
      | .panic m => .panic m
      | .ub m => .ub m := by
    intro rs re
    cases rs <;> cases re <;> simp only [Bind.bind, Res.bind, Pure.pure]
    rename_i s e
    by_cases h1 : s ≤ e <;> by_cases h2 : e ≤ len <;> simp [h1, h2]
  have bp : ∀ (x : Res Nat), (do let t ← x; pure t : Res Nat) = x := by intro x; cases x <;> rfl
  have hleft : into_range len lo hi =
      (do let start ← rangeStart lo
          let end_ ← rangeEnd len hi
          if (decide (start ≤ end_)) then (if (decide (end_ ≤ len)) then pure (KEff.ret2 start end_)
            else Res.panic "assertion failed: end <= len") else Res.panic "assertion failed: start <= end" : Res KEff) := by
    cases lo <;> cases hi <;> simp only [into_range, rangeStart, rangeEnd, bp] <;> rfl
  rw [hleft]
  exact key (rangeStart lo) (rangeEnd len hi)

end KernelTie
end AnyVec
