/- Kernel tie: `AnyVecRaw::insert_unchecked` (src/any_vec_raw.rs), see KernelMoveBase -/
import AnyVecModel.Proofs.KernelMoveBase
namespace AnyVec
namespace KernelTie
open World Gen.Kernel

theorem insert_unchecked_tie (w : World) (dst index : Nat) (x : Val) (d : VecSt)
    (hv : w.vecs[dst]? = some d) (hl : d.live = true) :
    insertUnchecked dst index x w =
      runCmds (valCtx dst x d.hasDrop) (insert_unchecked_cmds d.len index (valKnownType x)) w := by
  unfold insertUnchecked insert_unchecked_cmds
  simp only [WM.bind_apply]
  rw [show getVec dst w = (w, .ok d) from getVec_ok w dst d hv hl]
  simp only
  by_cases hi : index ≤ d.len
  · have hng : ¬ index > d.len := by omega
    simp only [hng, if_false, hi, decide_true, if_true]
    cases hk : valKnownType x
    all_goals
      simp only [Bool.not_false, Bool.not_true, if_true, if_false, Bool.false_eq_true, Nat.zero_add]
      show ((WM.onUnwind (vecOp dst VecSt.reserveOne) (valDrop d.hasDrop x)) >>= _) w = _
      unfold runCmds
      show _ = ((WM.onUnwind (vecOp dst VecSt.reserveOne) (valDrop d.hasDrop x)) >>= _) w
      apply bind_congr_ok
      intro w' a hok
      have hok' := onUnwind_ok _ _ _ _ _ hok
      obtain ⟨d', es, hf, hv'⟩ := vecOp_ok w w' dst d _ hv hl hok'
      obtain ⟨hlen, hlive⟩ := reserveOne_len d d' es hf
      simp only [WM.bind_apply, getVec_ok w' dst d' hv' (by rw [hlive]; exact hl), hlen]
      rfl
  · have hng : index > d.len := by omega
    simp only [hng, if_true, hi, decide_false, if_false, Bool.false_eq_true]
    rfl


end KernelTie
end AnyVec
