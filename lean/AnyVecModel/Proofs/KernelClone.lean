/- Kernel tie: `AnyVecRaw::clone` (src/any_vec_raw.rs), `clone_fn::<T>` (src/clone_type.rs), the erased destructor
closure of `AnyVecRaw::new`, and the constructors that copy the per-type facts (`clone_empty`, `clone_empty_in`,
`impl Clone for AnyVec`), see KernelMoveBase. -/
import AnyVecModel.Proofs.KernelMoveBase
namespace AnyVec
namespace KernelTie
open World Gen.Kernel

/-- `clone_fn::<T>`: one `T::clone` per element, written to the same position of the destination, in increasing
order -/
theorem clone_fn_tie (n : Nat) : clone_fn_cmds n = [.cloneEach 0 0 n] := rfl

/-- the erased destructor: one `drop_in_place` per element, in increasing order, stride one element -/
theorem drop_fn_tie (n : Nat) : drop_fn_cmds n = [.dropEach 0 n] := rfl

/-- calling the erased destructor (`dropFn`) is running that closure -/
theorem dropFn_is_dropEach (c : MCtx) (s n : Nat) : runCmd c (.dropFn s n) = runCmd c (.dropEach s n) := rfl

/-- calling the clone function (`cloneFn`) is running `clone_fn::<T>` -/
theorem cloneFn_is_cloneEach (c : MCtx) (s d n : Nat) : runCmd c (.cloneFn s d n) = runCmd c (.cloneEach s d n) := rfl

/-- `AnyVecRaw::clone`: an empty vector of the same type in the same kind of storage; `reserve(len)`; the clone
function over `[0, len)` from `self` into it; only then `len := self.len`. If anything panics the new vector - still
of length 0 - is dropped. -/
theorem clone_tie (w : World) (v : Nat) (x : VecSt) (hv : w.vecs[v]? = some x) (hl : x.live = true)
    (hc : x.cloneable = true) :
    cloneVec v w =
      (match clone_cmds x.len with
       | .cloneEmpty :: rest => do
         let idx ← cloneEmptyIn v x.bk
         WM.onUnwind (runCmds { v := idx, src := v } rest) (do setLen idx 0; dropVec idx)
         pure []
       | _ => WM.ub "kernel: clone does not start with clone_empty()" : WM Out) w := by
  unfold cloneVec clone_cmds
  simp only [WM.bind_apply, getVec_ok w v x hv hl, hc, Bool.not_true, Bool.false_eq_true, if_false, runCmds, runCmd,
    onUnwind_pure, if_true]

/-- where the fields of the cloning constructors come from (as the source has them on this run): the new raw
vector gets `len: 0`, `type_id` and `drop_fn` of `self`, its storage from `mem_builder.build(element_layout)`; the
`AnyVec` wrappers copy `clone_fn`. -/
theorem clone_fields_tie :
    raw_clone_empty_in_fields =
      [("let mem", "mem_builder.build(self.element_layout())"), ("mem_builder", "mem_builder"), ("mem", "mem"),
       ("len", "0"), ("type_id", "self.type_id"), ("drop_fn", "self.drop_fn")] ∧
    raw_clone_empty_fields = [("=", "self.clone_empty_in(self.mem_builder.clone())")] ∧
    anyvec_clone_empty_fields =
      [("raw", "self.raw.clone_empty()"), ("clone_fn", "self.clone_fn"), ("phantom", "PhantomData")] ∧
    anyvec_clone_empty_in_fields =
      [("raw", "self.raw.clone_empty_in(mem_builder)"), ("clone_fn", "self.clone_fn"), ("phantom", "PhantomData")] ∧
    anyvec_clone_fields =
      [("raw", "self.raw.clone(self.clone_fn())"), ("clone_fn", "self.clone_fn"), ("phantom", "PhantomData")] :=
  ⟨rfl, rfl, rfl, rfl, rfl⟩

/-- … and the model's `clone_empty_in` does exactly that: a fresh, empty, live vector with the element type,
layout, destructor and clone function of the source and the capacity the target backend builds -/
theorem cloneEmptyIn_model (w : World) (v : Nat) (bk : Backend) (x : VecSt) (cap : Nat)
    (hv : w.vecs[v]? = some x) (hl : x.live = true) (hb : VecSt.buildCap bk x.size x.align = .ok cap) :
    ∃ w', cloneEmptyIn v bk w = (w', .ok w.vecs.length) ∧
      w'.vecs = w.vecs ++ [{ x with bk := bk, cap := cap, cells := [], len := 0, gen := 0, live := true }] := by
  unfold cloneEmptyIn
  simp only [WM.bind_apply, getVec_ok w v x hv hl, hb, WM.lift_ok, WM.get_apply, WM.modify_apply]
  by_cases hr : bk = .reloc
  · simp only [hr, if_true, emit, WM.modify_apply, WM.pure_apply]
    exact ⟨_, rfl, rfl⟩
  · simp only [hr, if_false, WM.pure_apply]
    exact ⟨_, rfl, rfl⟩

end KernelTie
end AnyVec
