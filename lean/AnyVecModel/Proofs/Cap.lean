/-
  Capacity management never faults on memory (it returns or panics), and keeps the elements.
-/
import AnyVecModel.Proofs.Inv
namespace AnyVec

def Res.notUb {α} : Res α → Prop
  | .ub _ => False
  | _ => True

theorem checkedAdd_notUb (a b : Nat) (m : String) : (checkedAdd a b m).notUb := by
  unfold checkedAdd; split <;> trivial

theorem checkedMul_notUb (a b : Nat) (m : String) : (checkedMul a b m).notUb := by
  unfold checkedMul; split <;> trivial

theorem heapResize_notUb (v : VecSt) (n : Nat) : (v.heapResize n).notUb := by
  unfold VecSt.heapResize
  split
  · trivial
  · split
    · trivial
    · split
      · trivial
      · have := checkedMul_notUb v.size n "capacity overflow"
        cases h : checkedMul v.size n with
        | ok b => simp only; split <;> trivial
        | panic m => trivial
        | ub m => rw [h] at this; exact this

theorem relocResize_notUb (v : VecSt) (n : Nat) : (v.relocResize n).notUb := by
  unfold VecSt.relocResize
  have := checkedMul_notUb v.size n "capacity overflow"
  cases h : checkedMul v.size n with
  | ok b => simp only; split <;> trivial
  | panic m => trivial
  | ub m => rw [h] at this; exact this

theorem memExpand_notUb (v : VecSt) (a : Nat) : (v.memExpand a).notUb := by
  unfold VecSt.memExpand
  have hca := checkedAdd_notUb v.cap a "capacity overflow"
  split
  · cases h : checkedAdd v.cap a with
    | ok r => exact heapResize_notUb v _
    | panic m => trivial
    | ub m => rw [h] at hca; exact hca
  · cases h : checkedAdd v.cap a with
    | ok r =>
      simp only
      have := relocResize_notUb v (max (v.cap + v.cap / 2) r)
      cases h2 : v.relocResize (max (v.cap + v.cap / 2) r) with
      | ok p => trivial
      | panic m => trivial
      | ub m => rw [h2] at this; exact this
    | panic m => trivial
    | ub m => rw [h] at hca; exact hca
  · trivial

theorem memResize_notUb (v : VecSt) (n : Nat) (hr : VecSt.resizable v.bk = true) : (v.memResize n).notUb := by
  unfold VecSt.memResize
  split
  · exact heapResize_notUb v n
  · exact relocResize_notUb v n
  · rename_i h1 h2
    cases hb : v.bk <;> simp_all [VecSt.resizable]

theorem reserveOne_notUb (v : VecSt) : v.reserveOne.notUb := by
  unfold VecSt.reserveOne; split
  · exact memExpand_notUb v 1
  · trivial

theorem reserve_notUb (v : VecSt) (n : Nat) : (v.reserve n).notUb := by
  unfold VecSt.reserve
  have hca := checkedAdd_notUb v.len n "capacity overflow"
  cases h : checkedAdd v.len n with
  | ok r => simp only; split; exact memExpand_notUb v _; trivial
  | panic m => trivial
  | ub m => rw [h] at hca; exact hca

theorem reserveExact_notUb (v : VecSt) (n : Nat) (hr : VecSt.resizable v.bk = true) : (v.reserveExact n).notUb := by
  unfold VecSt.reserveExact
  have hca := checkedAdd_notUb v.len n "capacity overflow"
  cases h : checkedAdd v.len n with
  | ok r => simp only; split; exact memResize_notUb v _ hr; trivial
  | panic m => trivial
  | ub m => rw [h] at hca; exact hca

/-- a capacity call that returns keeps the elements, the invariant and liveness -/
def KeepsElems (f : VecSt → Res (VecSt × List Event)) : Prop :=
  ∀ d d' es, d.WF → f d = .ok (d', es) → d'.abs = d.abs ∧ d'.WF ∧ d'.live = d.live

theorem reserveOne_keeps : KeepsElems VecSt.reserveOne := by
  intro d d' es hwf h
  obtain ⟨_, _, ha, hw, _, _, _, _, _, _, hl⟩ := reserveOne_spec d d' es hwf h
  exact ⟨ha, hw, hl⟩

theorem memResize_keeps (n : VecSt → Nat) (hn : ∀ d : VecSt, d.WF → d.len ≤ n d) :
    KeepsElems (fun d => d.memResize (n d)) := by
  intro d d' es hwf h
  obtain ⟨_, _, ha, hw, _, _, _, _, _, _, hl⟩ := memResize_spec d d' (n d) es hwf (hn d hwf) h
  exact ⟨ha, hw, hl⟩

theorem reserve_keeps (n : Nat) : KeepsElems (fun d => d.reserve n) := by
  intro d d' es hwf h
  obtain ⟨_, hl, hc, hw, _, _, hlv, _⟩ := reserve_full d d' n es hwf h
  exact ⟨by simp [VecSt.abs, hl, hc], hw, hlv⟩

theorem reserveExact_keeps (n : Nat) : KeepsElems (fun d => d.reserveExact n) := by
  intro d d' es hwf h
  have hlc := hwf.len_le_cap
  simp only [VecSt.reserveExact] at h
  cases hca : checkedAdd d.len n with
  | ok r =>
    obtain ⟨hr, _⟩ := checkedAdd_ok _ _ _ hca
    rw [hca] at h
    simp only at h
    split at h
    · unfold VecSt.memExpandExact at h
      obtain ⟨_, _, ha, hw, _, _, _, _, _, _, hl⟩ := memResize_spec d d' _ es hwf (by omega) h
      exact ⟨ha, hw, hl⟩
    · cases h; exact ⟨rfl, hwf, rfl⟩
  | panic m => rw [hca] at h; cases h
  | ub m => rw [hca] at h; cases h

theorem shrinkToFit_keeps : KeepsElems VecSt.shrinkToFit :=
  memResize_keeps (fun d => d.len) (fun _ _ => Nat.le_refl _)

theorem shrinkTo_keeps (m : Nat) : KeepsElems (fun d => d.shrinkTo m) := by
  have := memResize_keeps (fun d => min d.cap (max d.len m)) (fun d hwf => by have := hwf.len_le_cap; omega)
  exact this

end AnyVec
