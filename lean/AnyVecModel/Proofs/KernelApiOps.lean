/- Kernel tie: the thin API functions of `AnyVec` (src/any_vec.rs) and `AnyVecTyped` (src/any_vec_typed.rs) are
re-translated from /repo/src on every run into the list of calls they make, in evaluation order, with their integer
arguments and the integer conditions they branch on (`Gen.Kernel.TStep`). Pinned here: which checks run before which
constructor, with which index; and, for the checks themselves, their meaning on the model (`index_check` = the model's
out-of-range panic with the same message, `get` = the model's bound). -/
import AnyVecModel.Proofs.KernelBase
import AnyVecModel.Proofs.WM
namespace AnyVec
namespace KernelTie
open World Gen.Kernel

/-- the panic (if any) a trace runs into, following its integer branches -/
def firstPanic : List TStep → Option String
  | [] => none
  | .panic m :: _ => some m
  | .branch c a b :: rest =>
    match (if c then firstPanic a else firstPanic b) with
    | some m => some m
    | none => firstPanic rest
  | _ :: rest => firstPanic rest

/-! ### the checks -/

/-- `AnyVecRaw::index_check`: `assert!(index < self.len, "Index out of range!")` -/
theorem index_check_tie (len i : Nat) :
    raw_index_check_trace len i = [.branch (decide (i < len)) [] [.panic "Index out of range!"]] ∧
    firstPanic (raw_index_check_trace len i) = if i < len then none else some "Index out of range!" := by
  refine ⟨rfl, ?_⟩
  by_cases h : i < len <;> simp [raw_index_check_trace, firstPanic, h]

/-- `AnyVecRaw::type_check`: the value's run-time type id against the vector's -/
theorem type_check_tie (len i : Nat) :
    raw_type_check_trace len i = [.call "value_typeid" [], .call "assert_types_equal" []] := rfl

/-! ### the operations: which checks run before which constructor, with which index -/

theorem anyvec_ops_tie (len i s e : Nat) :
    anyvec_push_trace len i = [.call "type_check" [], .call "push_unchecked" []] ∧
    anyvec_insert_trace len i = [.call "type_check" [], .call "insert_unchecked" [i]] ∧
    anyvec_pop_trace len i =
      [.branch (len == 0) [.retNone] [.call "Pop::new" [], .call "TempValue::new" [], .retSome]] ∧
    anyvec_remove_trace len i = [.call "index_check" [i], .call "Remove::new" [i], .call "TempValue::new" []] ∧
    anyvec_swap_remove_trace len i =
      [.call "index_check" [i], .call "SwapRemove::new" [i], .call "TempValue::new" []] ∧
    anyvec_drain_trace len i s e = [.call "into_range" [len], .call "Drain::new" [s, e], .call "ops::Iter" []] ∧
    anyvec_splice_trace len i s e = [.call "into_range" [len], .call "Splice::new" [s, e], .call "ops::Iter" []] ∧
    anyvec_clear_trace len i = [.call "clear" []] :=
  ⟨rfl, rfl, rfl, rfl, rfl, rfl, rfl, rfl⟩

theorem typed_ops_tie (len i s e : Nat) :
    typed_push_trace len i = [.call "AnyValueWrapper::new" [], .call "push_unchecked" []] ∧
    typed_insert_trace len i = [.call "AnyValueWrapper::new" [], .call "insert_unchecked" [i]] ∧
    typed_pop_trace len i =
      [.branch (len == 0) [.retNone]
        [.call "Pop::new" [], .call "TempValue::new" [], .call "downcast_unchecked" [], .retSome]] ∧
    typed_remove_trace len i =
      [.call "index_check" [i], .call "Remove::new" [i], .call "TempValue::new" [], .call "downcast_unchecked" []] ∧
    typed_swap_remove_trace len i =
      [.call "index_check" [i], .call "SwapRemove::new" [i], .call "TempValue::new" [], .call "downcast_unchecked" []] ∧
    typed_drain_trace len i s e =
      [.call "into_range" [len], .call "Drain::new" [s, e], .call "Iter" [],
       .closure [.call "downcast_unchecked" []], .call "map" []] ∧
    typed_splice_trace len i s e =
      [.call "into_range" [len], .closure [.call "AnyValueWrapper::new" []], .call "map" [],
       .call "Splice::new" [s, e], .call "Iter" [], .closure [.call "downcast_unchecked" []], .call "map" []] ∧
    typed_clear_trace len i = [.call "clear" []] :=
  ⟨rfl, rfl, rfl, rfl, rfl, rfl, rfl, rfl⟩

/-! ### what the checks mean on the model -/

/-- an out-of-range `remove` / `swap_remove` (erased or typed) is refused by `index_check` before anything is touched:
the model panics with the message of the source's assert, in the unchanged world -/
theorem remove_reject_tie (cfg : Cfg) (w : World) (v i : Nat) (k : Sink) (d : VecSt)
    (hv : w.vecs[v]? = some d) (hl : d.live = true) (hi : ¬ i < d.len) :
    ∃ m, firstPanic (raw_index_check_trace d.len i) = some m ∧
      step cfg (.remove v i k) w = WM.panic m w ∧ step cfg (.swapRemove v i k) w = WM.panic m w ∧
      step cfg (.tremove v i) w = WM.panic m w ∧ step cfg (.tswapRemove v i) w = WM.panic m w := by
  refine ⟨"Index out of range!", by simp [(index_check_tie d.len i).2, hi], ?_, ?_, ?_, ?_⟩ <;>
    simp only [step, WM.bind_apply, getVec_ok w v d hv hl, hi, if_false]

/-- `pop()` on an empty vector is `None` and touches nothing -/
theorem pop_empty_tie (cfg : Cfg) (w : World) (v : Nat) (k : Sink) (d : VecSt)
    (hv : w.vecs[v]? = some d) (hl : d.live = true) (h0 : d.len = 0) :
    anyvec_pop_trace d.len 0 = [.branch true [.retNone] [.call "Pop::new" [], .call "TempValue::new" [], .retSome]] ∧
    step cfg (.pop v k) w = (w, .ok ["N"]) ∧ step cfg (.tpop v) w = (w, .ok ["N"]) := by
  refine ⟨by simp [anyvec_pop_trace, h0], ?_, ?_⟩ <;>
    simp only [step, WM.bind_apply, getVec_ok w v d hv hl, h0, if_true, WM.pure_apply]

end KernelTie
end AnyVec
