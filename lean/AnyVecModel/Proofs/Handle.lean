/-
  Removal handles (`pop` / `remove` / `swap_remove`) uniformly, under an arbitrary fault state:
  the slot they point at, what `consume` does, and what dropping the handle does when the
  element's destructor returns or panics.
-/
import AnyVecModel.Proofs.Inv
namespace AnyVec
open World

/-- forget the observation channel: events of the step and the fault countdown -/
def World.erase (w : World) : World := { w with ev := [], fault := none }

@[simp] theorem World.erase_vecs (w : World) : w.erase.vecs = w.vecs := rfl
@[simp] theorem World.erase_created (w : World) : w.erase.created = w.created := rfl
@[simp] theorem World.erase_dropLog (w : World) : w.erase.dropLog = w.dropLog := rfl
@[simp] theorem World.erase_held (w : World) : w.erase.held = w.held := rfl
@[simp] theorem World.erase_pendingRaw (w : World) : w.erase.pendingRaw = w.pendingRaw := rfl
@[simp] theorem World.erase_upd (w : World) (v : Nat) (x : VecSt) : (w.upd v x).erase = w.erase.upd v x := rfl
@[simp] theorem World.erase_logDrop (b : Bool) (id : Nat) (w : World) :
    (logDrop b id w).erase = { w.erase with dropLog := id :: w.dropLog } := rfl

/-- one destructor call under an arbitrary fault state, as an equation up to events and fault -/
theorem dropElem_erase (hasDrop : Bool) (id : Nat) (w : World) :
    (dropElem hasDrop id w).1.erase = { w.erase with dropLog := id :: w.dropLog } ∧
      ((dropElem hasDrop id w).2 = .ok () ∨ ∃ m, (dropElem hasDrop id w).2 = .panic m) := by
  cases hasDrop
  · simp [dropElem, logDrop, World.erase]
  · simp only [dropElem, WM.bind_apply, WM.modify_apply, if_true]
    unfold tick
    cases hfl : w.fault with
    | none => simp [logDrop, hfl, World.erase]
    | some k =>
      match k with
      | 0 => simp [logDrop, hfl, World.erase]
      | 1 => simp [logDrop, hfl, World.erase]
      | k+2 => simp [logDrop, hfl, World.erase]

/-- the vector while the handle is alive: its length is already lowered -/
def VecSt.taken (d : VecSt) : HKind → VecSt
  | .pop => { d with len := d.len - 1 }
  | .remove i _ => { d with len := i }
  | .swapRemove i _ _ => { d with len := i }

/-- the vector after `consume()` -/
def VecSt.consumed (d : VecSt) : HKind → VecSt
  | .pop => { d with len := d.len - 1 }
  | .remove i _ => d.removeAt i
  | .swapRemove i _ _ => d.swapRemoveAt i

/-- the slot the handle points at -/
def World.HKind.slot (d : VecSt) : HKind → Nat
  | .pop => d.len - 1
  | .remove i _ => i
  | .swapRemove i _ _ => i

/-- the handle was created by `pop`/`remove(i)`/`swap_remove(i)` on `d` -/
def World.HKind.okFor (d : VecSt) : HKind → Prop
  | .pop => d.len ≠ 0
  | .remove i last => i < d.len ∧ last = d.len - 1
  | .swapRemove i g last => i < d.len ∧ last = d.len - 1 ∧ g = d.gen

theorem World.HKind.slot_lt {d : VecSt} {k : HKind} (h : k.okFor d) : k.slot d < d.len := by
  cases k <;> simp [HKind.okFor, HKind.slot] at * <;> omega

theorem hSlot_taken (w : World) (v : Nat) (k : HKind) (t : Bool) (d : VecSt) (hk : k.okFor d)
    (hv : w.vecs[v]? = some (d.taken k)) (hl : d.live = true) :
    hSlot { v := v, kind := k, typed := t } w = (w, .ok (k.slot d)) := by
  have hlt : v < w.vecs.length := (List.getElem?_eq_some_iff.mp hv).1
  have hd : w.vecs[v] = d.taken k := (List.getElem?_eq_some_iff.mp hv).2
  cases k with
  | pop => simp [hSlot, getVec, hlt, hd, VecSt.taken, hl, HKind.slot]
  | remove i last => simp [hSlot, getVec, hlt, hd, VecSt.taken, hl, HKind.slot]
  | swapRemove i g last =>
    obtain ⟨_, _, hg⟩ := hk
    simp [hSlot, getVec, hlt, hd, VecSt.taken, hl, HKind.slot, hg]

theorem hConsume_taken (w : World) (v : Nat) (k : HKind) (t : Bool) (d : VecSt) (hk : k.okFor d) (hwf : d.WF)
    (hv : w.vecs[v]? = some (d.taken k)) (hl : d.live = true) :
    hConsume { v := v, kind := k, typed := t } w = (w.upd v (d.consumed k), .ok ()) := by
  have hlt : v < w.vecs.length := (List.getElem?_eq_some_iff.mp hv).1
  have hd : w.vecs[v] = d.taken k := (List.getElem?_eq_some_iff.mp hv).2
  have h1 := hwf.len_le; have h2 := hwf.cells_le
  cases k with
  | pop =>
    simp only [hConsume, WM.pure_apply, VecSt.consumed]
    have : w.upd v { d with len := d.len - 1 } = w := by
      simp only [World.upd]
      have : w.vecs.set v { d with len := d.len - 1 } = w.vecs := by
        apply List.ext_getElem?
        intro j
        by_cases hj : v = j
        · subst hj; simp [hlt]; simpa [VecSt.taken] using hd.symm
        · simp [List.getElem?_set, hj]
      rw [this]
    rw [this]
  | remove i last =>
    obtain ⟨hi, hlast⟩ := hk
    subst hlast
    have hb2 : i + 1 + (d.len - 1 - i) ≤ d.cap := by omega
    have hb3 : i + (d.len - 1 - i) ≤ d.cap := by omega
    have hm : max (i + 1 + (d.len - 1 - i)) (i + (d.len - 1 - i)) = i + 1 + (d.len - 1 - i) := by omega
    simp [hConsume, moveElems, getVec, hlt, hd, hl, VecSt.taken, VecSt.moveElems_ok, hb2, hb3, setLen, World.upd,
      VecSt.consumed, VecSt.removeAt, hm]
  | swapRemove i g last =>
    obtain ⟨hi, hlast, hg⟩ := hk
    subst hlast; subst hg
    have hb1 : i < d.cap := by omega
    have hb2 : d.len - 1 < d.cap := by omega
    have e1 : d.cells.ensure (i + 1) = d.cells := ensure_of_le _ _ (by omega)
    by_cases hlast : i = d.len - 1
    · simp [hConsume, hSlot, getVec, hlt, hd, hl, VecSt.taken, setLen, World.upd, VecSt.consumed,
        VecSt.swapRemoveAt, hlast]
    · simp [hConsume, hSlot, getVec, hlt, hd, hl, VecSt.taken, setLen, World.upd, VecSt.consumed,
        VecSt.swapRemoveAt, hlast, World.writeCell, VecSt.writeCell_ok, hb1, hb2, e1]

end AnyVec

namespace AnyVec
open World

theorem erase_vecs_of {w1 w2 : World} (h : w1.erase = w2) : w1.vecs = w2.vecs := by rw [← h]; rfl

/-- **dropping a removal handle at every crash point**: the element's destructor is started exactly
once; if it returns the handle is consumed (the vector is compacted), if it panics the vector stays
as it was while the handle was alive (shortened: the tail is leaked). -/
theorem hDrop_any (w : World) (v : Nat) (k : HKind) (t : Bool) (d : VecSt) (id : Nat) (hk : k.okFor d)
    (hwf : d.WF) (hv : w.vecs[v]? = some (d.taken k)) (hl : d.live = true)
    (hc : d.cells.get (k.slot d) = .val id) :
    ((hDrop { v := v, kind := k, typed := t } w).2 = .ok () ∧
      (hDrop { v := v, kind := k, typed := t } w).1.erase =
        { (w.upd v (d.consumed k)).erase with dropLog := id :: w.dropLog }) ∨
    ((∃ m, (hDrop { v := v, kind := k, typed := t } w).2 = .panic m) ∧
      (hDrop { v := v, kind := k, typed := t } w).1.erase = { w.erase with dropLog := id :: w.dropLog }) := by
  have hlt : v < w.vecs.length := (List.getElem?_eq_some_iff.mp hv).1
  have hd : w.vecs[v] = d.taken k := (List.getElem?_eq_some_iff.mp hv).2
  have h1 := hwf.len_le; have h2 := hwf.cells_le
  have hsl := HKind.slot_lt hk
  have hb : k.slot d < d.cap := by omega
  have hlive : (d.taken k).live = true := by cases k <;> simpa [VecSt.taken] using hl
  have hcells : (d.taken k).cells = d.cells := by cases k <;> rfl
  have hcap : (d.taken k).cap = d.cap := by cases k <;> rfl
  have hdrop : (d.taken k).hasDrop = d.hasDrop := by cases k <;> rfl
  have hstep : hDrop { v := v, kind := k, typed := t } w =
      match dropElem d.hasDrop id w with
      | (w', .ok _) => hConsume { v := v, kind := k, typed := t } w'
      | (w', .panic s) => (w', .panic s)
      | (w', .ub s) => (w', .ub s) := by
    simp only [hDrop, WM.bind_apply, getVec_ok w v _ hv hlive, hSlot_taken w v k t d hk hv hl, readElem,
      WM.lift, VecSt.readElem_ok (d.taken k) (k.slot d) id (by rw [hcap]; exact hb) (by rw [hcells]; exact hc), hdrop]
    cases hde : dropElem d.hasDrop id w with
    | mk w1 res => cases res <;> rfl
  obtain ⟨e1, e2⟩ := dropElem_erase d.hasDrop id w
  rw [hstep]
  cases hde : dropElem d.hasDrop id w with
  | mk w1 res =>
    rw [hde] at e1 e2
    simp only at e1 e2
    have hvecs : w1.vecs = w.vecs := by have := congrArg World.vecs e1; simpa using this
    rcases e2 with hok | ⟨m, hp⟩
    · subst hok
      left
      simp only
      rw [hConsume_taken w1 v k t d hk hwf (by rw [hvecs]; exact hv) hl]
      refine ⟨rfl, ?_⟩
      simp only [World.erase_upd, e1]
      rfl
    · subst hp
      right
      exact ⟨⟨m, rfl⟩, e1⟩

end AnyVec

namespace AnyVec
open World
theorem swap_take_perm {α} [DecidableEq α] (l : List α) (i : Nat) (hi : i < l.length) :
    ((l.set i (l[l.length - 1]'(by omega))).take (l.length - 1) ++ [l[i]]).Perm l := by
  rw [List.perm_iff_count]
  intro b
  by_cases hlast : i = l.length - 1
  · subst hlast
    rw [List.take_set, List.set_eq_of_length_le (by simp)]
    have : l = l.take (l.length - 1) ++ [l[l.length - 1]] := by
      conv => lhs; rw [← List.take_append_drop (l.length - 1) l]
      rw [List.drop_eq_getElem_cons (by omega)]
      simp
      rw [show l.length - 1 + 1 = l.length by omega, List.take_length]
    conv => rhs; rw [this]
  · have hL : i < (l.take (l.length - 1)).length := by simp; omega
    have e : l = l.take (l.length - 1) ++ [l[l.length - 1]] := by
      conv => lhs; rw [← List.take_append_drop (l.length - 1) l]
      rw [List.drop_eq_getElem_cons (by omega)]
      simp
      rw [show l.length - 1 + 1 = l.length by omega, List.take_length]
    have hget : (l.take (l.length - 1))[i] = l[i] := by simp
    have hle := List.boole_getElem_le_count (a := b) hL
    rw [List.take_set, List.count_append, List.count_set hL, hget]
    conv => rhs; rw [e, List.count_append]
    rw [hget] at hle
    simp only [List.count_singleton, beq_iff_eq] at *
    omega

theorem VecSt.abs_get (d : VecSt) (i id : Nat) (hwf : d.WF) (hi : i < d.len) (hc : d.cells.get i = .val id) :
    ∃ h : i < d.abs.length, d.abs[i] = .val id := by
  have h1 := hwf.len_le
  refine ⟨by simp [VecSt.abs]; omega, ?_⟩
  have hk : i < d.cells.length := by omega
  simp [Mem.get, List.getD_eq_getElem?_getD, hk] at hc
  simp [VecSt.abs, hc]

theorem VecSt.good_of_sub {d d' : VecSt} (hg : d.Good) (hwf : d'.WF) (hsub : ∀ c, c ∈ d'.abs → c ∈ d.abs) : d'.Good :=
  ⟨hwf, fun c hc => hg.allVal c (hsub c hc)⟩

theorem VecSt.taken_abs (d : VecSt) (k : HKind) (hk : k.okFor d) (hwf : d.WF) :
    (d.taken k).abs = d.abs.take (k.slot d) := by
  have hs := HKind.slot_lt hk
  cases k <;> simp [VecSt.taken, VecSt.abs, HKind.slot, List.take_take] at * <;> omega

theorem VecSt.taken_wf (d : VecSt) (k : HKind) (hk : k.okFor d) (hwf : d.WF) : (d.taken k).WF := by
  have hs := HKind.slot_lt hk
  have h1 := hwf.len_le; have h2 := hwf.cells_le
  cases k <;> constructor <;> simp [VecSt.taken, HKind.slot] at * <;> omega

theorem VecSt.taken_good (d : VecSt) (k : HKind) (hk : k.okFor d) (hg : d.Good) : (d.taken k).Good :=
  VecSt.good_of_sub hg (d.taken_wf k hk hg.wf) (by
    intro c hc; rw [d.taken_abs k hk hg.wf] at hc; exact List.mem_of_mem_take hc)

theorem VecSt.taken_leq (d : VecSt) (k : HKind) (id : Nat) (hk : k.okFor d) (hwf : d.WF)
    (hc : d.cells.get (k.slot d) = .val id) : Leq ((d.taken k).abs ++ [Cell.val id]) d.abs := by
  have hs := HKind.slot_lt hk
  obtain ⟨hlt, hget⟩ := d.abs_get (k.slot d) id hwf hs hc
  rw [d.taken_abs k hk hwf]
  refine ⟨d.abs.drop (k.slot d + 1), ?_⟩
  have e : d.abs = d.abs.take (k.slot d) ++ d.abs[k.slot d] :: d.abs.drop (k.slot d + 1) := by
    conv => lhs; rw [← List.take_append_drop (k.slot d) d.abs]
    rw [List.drop_eq_getElem_cons hlt]
  conv => rhs; rw [e]
  rw [hget]
  simp

theorem VecSt.consumed_perm (d : VecSt) (k : HKind) (id : Nat) (hk : k.okFor d) (hwf : d.WF)
    (hc : d.cells.get (k.slot d) = .val id) : ((d.consumed k).abs ++ [Cell.val id]).Perm d.abs := by
  have hs := HKind.slot_lt hk
  have h1 := hwf.len_le
  obtain ⟨hlt, hget⟩ := d.abs_get (k.slot d) id hwf hs hc
  cases k with
  | pop =>
    simp only [HKind.slot] at hget hlt hs
    have e : d.abs = d.abs.take (d.len - 1) ++ [d.abs[d.len - 1]] := by
      conv => lhs; rw [← List.take_append_drop (d.len - 1) d.abs]
      rw [List.drop_eq_getElem_cons hlt]
      rw [List.drop_of_length_le (by simp [VecSt.abs_length hwf]; omega)]
    conv => rhs; rw [e]
    rw [hget]
    simp [VecSt.consumed, VecSt.abs, List.take_take]
  | remove i last =>
    simp only [HKind.slot] at hget hlt hs
    simp only [VecSt.consumed]
    rw [VecSt.removeAt_abs _ _ hwf hs, ← hget]
    exact eraseIdx_perm d.abs i hlt
  | swapRemove i g last =>
    simp only [HKind.slot] at hget hlt hs
    simp only [VecSt.consumed]
    rw [VecSt.swapRemoveAt_abs _ _ hwf hs, ← hget]
    have hl := VecSt.abs_length hwf
    have hlast : d.cells.get (d.len - 1) = d.abs[d.abs.length - 1]'(by omega) := by
      have hk2 : d.len - 1 < d.cells.length := by omega
      simp [VecSt.abs, Mem.get, List.getD_eq_getElem?_getD, hk2]
      congr 1
      omega
    rw [hlast]
    have := swap_take_perm d.abs i hlt
    rw [← hl]
    exact this

theorem VecSt.consumed_wf (d : VecSt) (k : HKind) (hk : k.okFor d) (hwf : d.WF) : (d.consumed k).WF := by
  have hs := HKind.slot_lt hk
  cases k with
  | pop => exact d.taken_wf .pop hk hwf
  | remove i last => exact VecSt.removeAt_wf d i hwf hs
  | swapRemove i g last => exact VecSt.swapRemoveAt_wf d i hwf hs

theorem VecSt.consumed_good (d : VecSt) (k : HKind) (id : Nat) (hk : k.okFor d) (hg : d.Good)
    (hc : d.cells.get (k.slot d) = .val id) : (d.consumed k).Good :=
  VecSt.good_of_sub hg (d.consumed_wf k hk hg.wf) (by
    intro c hcm
    exact (d.consumed_perm k id hk hg.wf hc).subset (List.mem_append_left _ hcm))

end AnyVec
