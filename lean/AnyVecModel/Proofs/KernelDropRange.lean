/- Kernel tie: `utils::drop_elements_range` (src/any_vec_ptr.rs), see KernelMoveBase -/
import AnyVecModel.Proofs.KernelMoveBase
namespace AnyVec
namespace KernelTie
open World Gen.Kernel

/-- `drop_elements_range`: the erased path calls `drop_fn(ptr(start), end - start)` if there is one, the typed
path drops the slice if the type needs it; with no destructor nothing is issued -/
theorem drop_elements_range_tie (s e : Nat) (typed hasDrop : Bool) :
    drop_elements_range_cmds s e typed hasDrop hasDrop =
      if hasDrop then (if typed then [.dropSlice s (e - s)] else [.dropFn s (e - s)]) else [] := by
  cases typed <;> cases hasDrop <;> rfl

/-- the model's `dropRange` is the execution of those commands (for a type without destructor the model only
keeps its ghost record of which identities left) -/
theorem dropRange_tie (w : World) (v : Nat) (typed : Bool) (s e : Nat) (d : VecSt)
    (hv : w.vecs[v]? = some d) (hl : d.live = true) :
    dropRange v typed s e w =
      (match drop_elements_range_cmds s e typed d.hasDrop d.hasDrop with
       | [] => dropLoop v false s (e - s)
       | cmds => runCmds { v := v, typed := typed } cmds) w := by
  rw [drop_elements_range_tie]
  unfold dropRange
  simp only [WM.bind_apply, getVec_ok w v d hv hl]
  cases d.hasDrop <;> cases typed <;> rfl


end KernelTie
end AnyVec
