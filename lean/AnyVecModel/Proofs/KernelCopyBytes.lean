/- Kernel tie: `crate::copy_bytes` (src/lib.rs), re-translated from /repo/src on every run into which of its three ways
of moving the bytes run, in order: `ptr::copy` from 128 bytes up (and nothing after it), otherwise the ascending byte
loop when `dst <= src`, the descending one when `dst > src`. The model's `copyBytes` is the execution of that. -/
import AnyVecModel.Proofs.KernelBase
namespace AnyVec
namespace KernelTie
open Gen.Kernel

def runB (m : Mem) (src dst n : Nat) : List BStep → Mem
  | [] => m
  | .ptrCopy :: rest => runB (memmove m src dst n) src dst n rest
  | .fwdLoop :: rest => runB (fwdCopy m src dst 0 n) src dst n rest
  | .bwdLoop :: rest => runB (bwdCopy m src dst n) src dst n rest

theorem copy_bytes_tie (m : Mem) (size src dst n : Nat) :
    copyBytes m size src dst n = runB m src dst n (copy_bytes_prog (size * n) (decide (dst ≤ src)) false) := by
  unfold copyBytes copy_bytes_prog
  by_cases h1 : 128 ≤ size * n
  · simp [h1, runB]
  · by_cases h2 : dst ≤ src
    · simp [h1, h2, runB]
    · simp [h1, h2, runB]

end KernelTie
end AnyVec
