/- Kernel tie: the remaining thin functions (delegations, unchecked accessors, constructors, self-reports of handles) as call
traces re-translated from /repo/src on every run; pinned here. See KernelApiOps for the representation. -/
import AnyVecModel.Proofs.KernelBase
namespace AnyVec
namespace KernelTie
open Gen.Kernel

/-- the capacity calls of the erased and the typed API are plain delegations to the raw vector with the same argument; `capacity()` is the storage's `size()`; the default `Mem::expand` of a fixed-capacity backend panics "Can't change capacity!", the default `expand_exact` is `resize(size() + additional)`; `Heap::build_with_size` is `build` then `resize(capacity)`; dropping a raw vector is `clear()` -/
theorem deleg_capacity_tie (len : Nat) (index : Nat) (known : Bool) :
    anyvec_reserve_trace len index = [.call "reserve" [index]] ∧
    anyvec_reserve_exact_trace len index = [.call "reserve_exact" [index]] ∧
    anyvec_shrink_to_fit_trace len index = [.call "shrink_to_fit" []] ∧
    anyvec_shrink_to_trace len index = [.call "shrink_to" [index]] ∧
    anyvec_set_len_trace len index = [.call "set_len" [index]] ∧
    anyvec_capacity_trace len index = [.call "capacity" []] ∧
    raw_capacity_trace len index = [.call "size" []] ∧
    raw_drop_trace len index = [.call "clear" []] ∧
    typed_reserve_trace len index = [.call "reserve" [index]] ∧
    typed_reserve_exact_trace len index = [.call "reserve_exact" [index]] ∧
    typed_shrink_to_fit_trace len index = [.call "shrink_to_fit" []] ∧
    typed_shrink_to_trace len index = [.call "shrink_to" [index]] ∧
    typed_set_len_trace len index = [.call "set_len" [index]] ∧
    typed_capacity_trace len index = [.call "capacity" []] ∧
    mem_expand_default_trace known = [.panic "Can't change capacity!"] ∧
    mem_expand_exact_default_trace known = [.call "size" [], .call "resize" []] ∧
    heap_build_with_size_trace len index = [.call "build" [], .call "resize" [index]] :=
  ⟨rfl, rfl, rfl, rfl, rfl, rfl, rfl, rfl, rfl, rfl, rfl, rfl, rfl, rfl, rfl, rfl, rfl⟩

end KernelTie
end AnyVec
