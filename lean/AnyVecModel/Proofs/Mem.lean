/-
  Helper lemmas about the memory primitives: pointwise characterisation of `memmove`,
  of the ascending and descending copy loops, and `copyBytes = memmove`.
-/
import AnyVecModel.Model.Basic
namespace AnyVec

theorem Mem.get_eq (m : Mem) (i : Nat) : m.get i = (m[i]?).getD Cell.uninit := by
  simp [Mem.get, List.getD_eq_getElem?_getD]

@[simp] theorem memmove_length (m : Mem) (src dst n : Nat)
    (hs : src + n ≤ m.length) (hd : dst + n ≤ m.length) :
    (memmove m src dst n).length = m.length := by
  simp [memmove]; omega

/-- what `memmove` leaves at every position -/
theorem memmove_getElem? (m : Mem) (src dst n k : Nat)
    (hs : src + n ≤ m.length) (hd : dst + n ≤ m.length) :
    (memmove m src dst n)[k]? =
      if dst ≤ k ∧ k < dst + n then m[src + (k - dst)]? else m[k]? := by
  simp only [memmove, List.getElem?_append, List.getElem?_take, List.getElem?_drop,
    List.length_take, List.length_drop]
  split <;> split <;> (try split) <;> (try split) <;> first | rfl | (congr 1; omega) | omega | (simp_all; try omega)

@[simp] theorem fwdCopy_length (m : Mem) (src dst i n : Nat) :
    (fwdCopy m src dst i n).length = m.length := by
  induction n generalizing m i with
  | zero => simp [fwdCopy]
  | succ n ih => simp [fwdCopy, ih]

@[simp] theorem bwdCopy_length (m : Mem) (src dst n : Nat) :
    (bwdCopy m src dst n).length = m.length := by
  induction n generalizing m with
  | zero => simp [bwdCopy]
  | succ n ih => simp [bwdCopy, ih]

/-- ascending loop, destination not above the source: behaves as a move -/
theorem fwdCopy_getElem? (m : Mem) (src dst i n k : Nat) (h : dst ≤ src)
    (hs : src + i + n ≤ m.length) :
    (fwdCopy m src dst i n)[k]? =
      if dst + i ≤ k ∧ k < dst + i + n then m[src + (k - dst)]? else m[k]? := by
  induction n generalizing m i with
  | zero => simp [fwdCopy]; omega
  | succ n ih =>
    simp only [fwdCopy]
    rw [ih (m.set (dst + i) (m.get (src + i))) (i + 1) (by simp; omega)]
    have hsi : src + i < m.length := by omega
    simp only [List.getElem?_set, Mem.get_eq, List.getElem?_eq_getElem hsi, Option.getD_some]
    grind

/-- descending loop, destination above the source: behaves as a move -/
theorem bwdCopy_getElem? (m : Mem) (src dst n k : Nat) (h : src < dst)
    (hs : src + n ≤ m.length) (hd : dst + n ≤ m.length) :
    (bwdCopy m src dst n)[k]? =
      if dst ≤ k ∧ k < dst + n then m[src + (k - dst)]? else m[k]? := by
  induction n generalizing m with
  | zero => simp [bwdCopy]; omega
  | succ n ih =>
    simp only [bwdCopy]
    rw [ih (m.set (dst + n) (m.get (src + n))) (by simp; omega) (by simp; omega)]
    have hsi : src + n < m.length := by omega
    simp only [List.getElem?_set, Mem.get_eq, List.getElem?_eq_getElem hsi, Option.getD_some]
    grind

/-- **`copy_bytes` is `ptr::copy`**: whichever of its three branches runs (bulk copy from 128
bytes up, ascending loop, descending loop), the storage ends up exactly as after a memmove. -/
theorem copyBytes_eq_memmove (m : Mem) (size src dst n : Nat)
    (hs : src + n ≤ m.length) (hd : dst + n ≤ m.length) :
    copyBytes m size src dst n = memmove m src dst n := by
  unfold copyBytes
  split
  · rfl
  · split
    · rename_i _ hle
      apply List.ext_getElem?
      intro k
      rw [fwdCopy_getElem? m src dst 0 n k hle (by omega), memmove_getElem? m src dst n k hs hd]
      simp
    · rename_i _ hgt
      apply List.ext_getElem?
      intro k
      rw [bwdCopy_getElem? m src dst n k (by omega) hs hd, memmove_getElem? m src dst n k hs hd]

end AnyVec
