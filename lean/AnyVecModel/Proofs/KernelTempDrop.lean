/- Kernel tie: `impl Drop for TempValue` (src/ops/temp.rs), see KernelMoveBase -/
import AnyVecModel.Proofs.KernelMoveBase
namespace AnyVec
namespace KernelTie
open World Gen.Kernel

/-- `impl Drop for TempValue`: the element's destructor first (erased `drop_fn(ptr, 1)` if there is one, typed
`drop_in_place`), then `op.consume()` (for an erased type without destructor the model only keeps its ghost
record) -/
theorem temp_drop_tie (w : World) (h : Handle) (d : VecSt) (hv : w.vecs[h.v]? = some d) (hl : d.live = true) :
    hDrop h w =
      (do let slot ← hSlot h
          if h.typed || d.hasDrop then runCmds (hCtx h) (temp_drop_cmds slot h.typed d.hasDrop)
          else do
            let id ← readElem h.v slot
            dropElem false id
            runCmds (hCtx h) (temp_drop_cmds slot h.typed d.hasDrop)) w := by
  unfold World.hDrop temp_drop_cmds
  simp only [WM.bind_apply, getVec_ok w h.v d hv hl]
  cases hs : hSlot h w with
  | mk w1 r =>
    cases r with
    | panic m => rfl
    | ub m => rfl
    | ok slot =>
      have hw1 : w1 = w := by
        unfold World.hSlot at hs
        simp only [WM.bind_apply, getVec_ok w h.v d hv hl] at hs
        cases hk : h.kind with
        | pop => rw [hk] at hs; cases hs; rfl
        | remove i l => rw [hk] at hs; cases hs; rfl
        | swapRemove s g l =>
          rw [hk] at hs
          simp only at hs
          split at hs
          · cases hs; rfl
          · cases hs
      subst hw1
      simp only
      cases ht : h.typed <;> cases hd : d.hasDrop
      · -- erased, no destructor: ghost record, then consume
        simp only [Bool.or_false, Bool.false_eq_true, if_false, Bool.not_false, if_true, runCmds, runCmd, hCtx,
          WM.bind_apply]
      · -- erased with destructor: drop_fn(ptr, 1), consume
        simp only [Bool.or_true, if_true, Bool.not_false, runCmds, runCmd, hCtx, WM.bind_apply, dropLoop]
        cases hr : readElem h.v slot w1 with
        | mk w2 r2 =>
          cases r2 with
          | ok id =>
            simp only
            cases hde : dropElem true id w2 with
            | mk w3 r3 => cases r3 <;> rfl
          | panic m => rfl
          | ub m => rfl
      · -- typed: drop_in_place, consume
        simp only [Bool.true_or, if_true, Bool.not_true, Bool.false_eq_true, if_false, runCmds, runCmd, hCtx,
          WM.bind_apply, getVec_ok w1 h.v d hv hl, hd]
        cases readElem h.v slot w1 with
        | mk w2 r2 => cases r2 <;> rfl
      · simp only [Bool.true_or, if_true, Bool.not_true, Bool.false_eq_true, if_false, runCmds, runCmd, hCtx,
          WM.bind_apply, getVec_ok w1 h.v d hv hl, hd]
        cases readElem h.v slot w1 with
        | mk w2 r2 => cases r2 <;> rfl


end KernelTie
end AnyVec
