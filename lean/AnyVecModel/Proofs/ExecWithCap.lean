/- Exact effect of `AnyVec::with_capacity(n)` on the model: `build`, then `resize(n)`; when the resize panics the
half-built vector is released (marked dead) before the panic propagates. One lemma per growable storage and outcome. -/
import AnyVecModel.Props.Hist
import AnyVecModel.Proofs.Exec
namespace AnyVec
namespace ExecWithCap
open World
theorem ok_heap (cfg : Cfg) (w : World) (ty n : Nat) (cl : Bool) (d' : VecSt) (es : List Event)
    (hm : ({ ty := ty, size := cfg.size, align := cfg.align, hasDrop := cfg.hasDrop, cloneable := cl, bk := .heap, cap := 0, cells := [], len := 0, gen := 0, live := true } : VecSt).memResize n = .ok (d', es)) :
    ∃ W', step cfg (.withCap ty .heap cl n) w = (W', .ok []) ∧ W'.vecs = (w.vecs ++ [d']) ∧ W'.created = w.created ∧ W'.fault = w.fault := by
  have hg : ∀ ev f, getVec w.vecs.length ({ w with vecs := w.vecs ++ [({ ty := ty, size := cfg.size, align := cfg.align, hasDrop := cfg.hasDrop, cloneable := cl, bk := .heap, cap := 0, cells := [], len := 0, gen := 0, live := true } : VecSt)], ev := ev, fault := f } : World) = (({ w with vecs := w.vecs ++ [({ ty := ty, size := cfg.size, align := cfg.align, hasDrop := cfg.hasDrop, cloneable := cl, bk := .heap, cap := 0, cells := [], len := 0, gen := 0, live := true } : VecSt)], ev := ev, fault := f } : World), .ok ({ ty := ty, size := cfg.size, align := cfg.align, hasDrop := cfg.hasDrop, cloneable := cl, bk := .heap, cap := 0, cells := [], len := 0, gen := 0, live := true } : VecSt)) :=
    fun ev f => getVec_ok _ _ _ (by simp) rfl
  simp only [step, newVec, WM.bind_apply, VecSt.buildCap, WM.lift_ok, WM.get_apply, WM.modify_apply, reduceCtorEq, if_false,
    WM.onUnwind, vecOp, hg, hm, setVec_apply, World.emit_apply, WM.pure_apply, emit]
  exact ⟨_, rfl, by simp [World.upd], rfl, rfl⟩
theorem panic_heap (cfg : Cfg) (w : World) (ty n : Nat) (cl : Bool) (m : String)
    (hm : ({ ty := ty, size := cfg.size, align := cfg.align, hasDrop := cfg.hasDrop, cloneable := cl, bk := .heap, cap := 0, cells := [], len := 0, gen := 0, live := true } : VecSt).memResize n = .panic m) :
    ∃ W', step cfg (.withCap ty .heap cl n) w = (W', .panic m) ∧ W'.vecs = (w.vecs ++ [({ ty := ty, size := cfg.size, align := cfg.align, hasDrop := cfg.hasDrop, cloneable := cl, bk := .heap, cap := 0, cells := [], len := 0, gen := 0, live := false } : VecSt)]) ∧ W'.created = w.created ∧ W'.fault = none := by
  have hg : ∀ ev f, getVec w.vecs.length ({ w with vecs := w.vecs ++ [({ ty := ty, size := cfg.size, align := cfg.align, hasDrop := cfg.hasDrop, cloneable := cl, bk := .heap, cap := 0, cells := [], len := 0, gen := 0, live := true } : VecSt)], ev := ev, fault := f } : World) = (({ w with vecs := w.vecs ++ [({ ty := ty, size := cfg.size, align := cfg.align, hasDrop := cfg.hasDrop, cloneable := cl, bk := .heap, cap := 0, cells := [], len := 0, gen := 0, live := true } : VecSt)], ev := ev, fault := f } : World), .ok ({ ty := ty, size := cfg.size, align := cfg.align, hasDrop := cfg.hasDrop, cloneable := cl, bk := .heap, cap := 0, cells := [], len := 0, gen := 0, live := true } : VecSt)) :=
    fun ev f => getVec_ok _ _ _ (by simp) rfl
  simp only [step, newVec, WM.bind_apply, VecSt.buildCap, WM.lift_ok, WM.get_apply, WM.modify_apply, reduceCtorEq, if_false,
    WM.onUnwind, vecOp, hg, hm, WM.lift, setVec_apply, World.emit_apply, WM.pure_apply, emit]
  exact ⟨_, rfl, by simp [World.upd], rfl, rfl⟩
theorem ok_reloc (cfg : Cfg) (w : World) (ty n : Nat) (cl : Bool) (d' : VecSt) (es : List Event)
    (hm : ({ ty := ty, size := cfg.size, align := cfg.align, hasDrop := cfg.hasDrop, cloneable := cl, bk := .reloc, cap := 0, cells := [], len := 0, gen := 0, live := true } : VecSt).memResize n = .ok (d', es)) :
    ∃ W', step cfg (.withCap ty .reloc cl n) w = (W', .ok []) ∧ W'.vecs = (w.vecs ++ [d']) ∧ W'.created = w.created ∧ W'.fault = w.fault := by
  have hg : ∀ ev f, getVec w.vecs.length ({ w with vecs := w.vecs ++ [({ ty := ty, size := cfg.size, align := cfg.align, hasDrop := cfg.hasDrop, cloneable := cl, bk := .reloc, cap := 0, cells := [], len := 0, gen := 0, live := true } : VecSt)], ev := ev, fault := f } : World) = (({ w with vecs := w.vecs ++ [({ ty := ty, size := cfg.size, align := cfg.align, hasDrop := cfg.hasDrop, cloneable := cl, bk := .reloc, cap := 0, cells := [], len := 0, gen := 0, live := true } : VecSt)], ev := ev, fault := f } : World), .ok ({ ty := ty, size := cfg.size, align := cfg.align, hasDrop := cfg.hasDrop, cloneable := cl, bk := .reloc, cap := 0, cells := [], len := 0, gen := 0, live := true } : VecSt)) :=
    fun ev f => getVec_ok _ _ _ (by simp) rfl
  simp only [step, newVec, WM.bind_apply, VecSt.buildCap, WM.lift_ok, WM.get_apply, WM.modify_apply, reduceCtorEq, if_true,
    WM.onUnwind, vecOp, hg, hm, setVec_apply, World.emit_apply, WM.pure_apply, emit]
  exact ⟨_, rfl, by simp [World.upd], rfl, rfl⟩
theorem panic_reloc (cfg : Cfg) (w : World) (ty n : Nat) (cl : Bool) (m : String)
    (hm : ({ ty := ty, size := cfg.size, align := cfg.align, hasDrop := cfg.hasDrop, cloneable := cl, bk := .reloc, cap := 0, cells := [], len := 0, gen := 0, live := true } : VecSt).memResize n = .panic m) :
    ∃ W', step cfg (.withCap ty .reloc cl n) w = (W', .panic m) ∧ W'.vecs = (w.vecs ++ [({ ty := ty, size := cfg.size, align := cfg.align, hasDrop := cfg.hasDrop, cloneable := cl, bk := .reloc, cap := 0, cells := [], len := 0, gen := 0, live := false } : VecSt)]) ∧ W'.created = w.created ∧ W'.fault = none := by
  have hg : ∀ ev f, getVec w.vecs.length ({ w with vecs := w.vecs ++ [({ ty := ty, size := cfg.size, align := cfg.align, hasDrop := cfg.hasDrop, cloneable := cl, bk := .reloc, cap := 0, cells := [], len := 0, gen := 0, live := true } : VecSt)], ev := ev, fault := f } : World) = (({ w with vecs := w.vecs ++ [({ ty := ty, size := cfg.size, align := cfg.align, hasDrop := cfg.hasDrop, cloneable := cl, bk := .reloc, cap := 0, cells := [], len := 0, gen := 0, live := true } : VecSt)], ev := ev, fault := f } : World), .ok ({ ty := ty, size := cfg.size, align := cfg.align, hasDrop := cfg.hasDrop, cloneable := cl, bk := .reloc, cap := 0, cells := [], len := 0, gen := 0, live := true } : VecSt)) :=
    fun ev f => getVec_ok _ _ _ (by simp) rfl
  simp only [step, newVec, WM.bind_apply, VecSt.buildCap, WM.lift_ok, WM.get_apply, WM.modify_apply, reduceCtorEq, if_true,
    WM.onUnwind, vecOp, hg, hm, WM.lift, setVec_apply, World.emit_apply, WM.pure_apply, emit]
  exact ⟨_, rfl, by simp [World.upd], rfl, rfl⟩

end ExecWithCap

/-- the `resize(n)` of a freshly built (capacity 0) storage can only refuse a request for room that takes memory: `n ≠ 0` and a
non-zero element size -/
theorem memResize_panic_needs (nv : VecSt) (n : Nat) (m : String) (hc : nv.cap = 0)
    (h : nv.memResize n = .panic m) : n ≠ 0 ∧ nv.size ≠ 0 := by
  refine ⟨?_, ?_⟩
  · intro hn; subst hn
    unfold VecSt.memResize at h
    split at h
    · simp [VecSt.heapResize, hc] at h
    · simp [VecSt.relocResize, checkedMul] at h
    · cases h
  · intro hs
    unfold VecSt.memResize at h
    split at h
    · simp [VecSt.heapResize, hs] at h
      split at h <;> cases h
    · simp [VecSt.relocResize, checkedMul, hs] at h
    · cases h
end AnyVec
