/-
  Kernel tie, element-moving functions: `insert_unchecked`, `push_unchecked`, `clear` (src/any_vec_raw.rs),
  `Pop/Remove/SwapRemove::consume` (src/ops/*.rs), `Drain::drop` (src/ops/drain.rs), `TempValue::drop`
  (src/ops/temp.rs), `move_elements_at` / `drop_elements_range` (src/any_vec_ptr.rs) are re-translated from
  /repo/src on every run into the *list of memory commands they issue, in program order* (`Gen.Kernel.MCmd`).
  `runCmds` executes such a list on the model's world; the theorems below state that the hand-written model
  of each function *is* the execution of the commands the source issues. A changed offset, count, order of
  the len assignment and the copy, a dropped or added copy, a swapped typed/erased branch: each changes the
  generated list and breaks the theorem.
-/
import AnyVecModel.Proofs.KernelBase
import AnyVecModel.Proofs.WM
namespace AnyVec
namespace KernelTie
open World Gen.Kernel

/-- what the commands of one function run against -/
structure MCtx where
  /-- the vector -/
  v : Nat
  /-- the handle / iterator is typed (`AnyVecPtr::Element` is a concrete type) -/
  typed : Bool := false
  /-- the vector elements are cloned from (`AnyVecRaw::clone`: `self`; `v` is the new vector) -/
  src : Nat := 0
  /-- `value.move_into(slot)` of the by-value argument -/
  moveIn : Nat → WM Unit := fun _ => WM.ub "kernel: no value to move in"
  /-- `self.op.consume()` -/
  consume : WM Unit := WM.ub "kernel: no operation to consume"
  /-- drop glue of the by-value argument, run when the function unwinds before having consumed it -/
  cleanup : WM Unit := pure ()

def runCmd (c : MCtx) : MCmd → WM Unit
  | .reserveOne => WM.onUnwind (vecOp c.v VecSt.reserveOne) c.cleanup
  | .setLen n => setLen c.v n
  | .copy erased s d n => moveElems c.v erased s d n
  | .copyOne s d => do
    let x ← getVec c.v
    if s < x.cap then writeCell c.v d (x.cells.get s) else WM.ub "element read out of bounds"
  | .moveInto slot => c.moveIn slot
  | .moveElems s d n => moveElems c.v false s d n
  | .dropRange s e => WM.onUnwind (dropRange c.v c.typed s e) c.cleanup
  | .dropFn s n => dropLoop c.v true s n
  | .dropSlice s n => dropSlice c.v true s n
  | .dropInPlace s => do
    let x ← getVec c.v
    let id ← readElem c.v s
    dropElem x.hasDrop id
  | .consume => c.consume
  | .reserve n => WM.onUnwind (vecOp c.v (fun s => s.reserve n)) c.cleanup
  | .writeLoop _ _ => WM.ub "kernel: the write loop is run by the caller of the command list"
  | .cloneEmpty => WM.ub "kernel: the new vector is created by the caller of the command list"
  | .cloneFn s d n => if s = d then cloneLoop c.src c.v s n else WM.ub "kernel: clone between different positions"
  | .cloneEach s d n => if s = d then cloneLoop c.src c.v s n else WM.ub "kernel: clone between different positions"
  | .dropEach s n => dropLoop c.v true s n
  | .panic m => WM.onUnwind (WM.panic m) c.cleanup

def runCmds (c : MCtx) : List MCmd → WM Unit
  | [] => pure ()
  | [x] => runCmd c x
  | x :: y :: xs => do runCmd c x; runCmds c (y :: xs)

/-- run the commands, then `k` (the same as `do runCmds c cmds; k`, nested to the right) -/
def runCmdsK {α} (c : MCtx) : List MCmd → WM α → WM α
  | [], k => k
  | x :: xs, k => do runCmd c x; runCmdsK c xs k

/-- a command list that ends in the write loop: the commands before it, and the loop's first slot and limit -/
def splitLoop : List MCmd → List MCmd × Option (Nat × Nat)
  | [] => ([], none)
  | [.writeLoop s l] => ([], some (s, l))
  | c :: cs => (c :: (splitLoop cs).1, (splitLoop cs).2)

/-! ### helpers -/

theorem onUnwind_pure {α} (m : WM α) : WM.onUnwind m (pure ()) = m := by
  funext w
  unfold WM.onUnwind
  cases m w with
  | mk w' r => cases r <;> rfl

theorem bind_congr_ok {α β} (m : WM α) (f g : α → WM β) (w : World)
    (h : ∀ w' a, m w = (w', .ok a) → f a w' = g a w') : (m >>= f) w = (m >>= g) w := by
  simp only [WM.bind_apply]
  cases hm : m w with
  | mk w' r =>
    cases r with
    | ok a => exact h w' a hm
    | panic s => rfl
    | ub s => rfl

theorem onUnwind_ok {α} (m : WM α) (c : WM Unit) (w w' : World) (a : α)
    (h : WM.onUnwind m c w = (w', .ok a)) : m w = (w', .ok a) := by
  unfold WM.onUnwind at h
  cases hm : m w with
  | mk w1 r =>
    rw [hm] at h
    cases r with
    | ok b => exact h
    | panic s =>
      simp only at h
      cases hc : c w1 with
      | mk w2 r2 => rw [hc] at h; cases r2 <;> cases h
    | ub s => exact h

theorem heapResize_len (v v' : VecSt) (n : Nat) (es : List Event) (h : v.heapResize n = .ok (v', es)) :
    v'.len = v.len ∧ v'.live = v.live := by
  unfold VecSt.heapResize at h
  split at h
  · cases h; exact ⟨rfl, rfl⟩
  · split at h
    · cases h; exact ⟨rfl, rfl⟩
    · split at h
      · cases h; exact ⟨rfl, rfl⟩
      · split at h
        · split at h
          · cases h
          · cases h; exact ⟨rfl, rfl⟩
        · cases h
        · cases h

theorem relocResize_len (v v' : VecSt) (n : Nat) (es : List Event) (h : v.relocResize n = .ok (v', es)) :
    v'.len = v.len ∧ v'.live = v.live := by
  unfold VecSt.relocResize at h
  split at h
  · split at h
    · cases h
    · cases h; exact ⟨rfl, rfl⟩
  · cases h
  · cases h

theorem reserveOne_len (v v' : VecSt) (es : List Event) (h : v.reserveOne = .ok (v', es)) :
    v'.len = v.len ∧ v'.live = v.live := by
  unfold VecSt.reserveOne at h
  split at h
  · unfold VecSt.memExpand at h
    split at h
    · split at h
      · exact heapResize_len _ _ _ _ h
      · cases h
      · cases h
    · split at h
      · split at h
        · rename_i hr
          cases h
          exact relocResize_len _ _ _ _ hr
        · cases h
        · cases h
      · cases h
      · cases h
    · cases h
  · cases h; exact ⟨rfl, rfl⟩

/-- a capacity call that returns leaves the vector's slot holding what the call produced -/
theorem vecOp_ok (w w' : World) (v : Nat) (d : VecSt) (f : VecSt → Res (VecSt × List Event))
    (hv : w.vecs[v]? = some d) (hl : d.live = true) (h : vecOp v f w = (w', .ok ())) :
    ∃ d' es, f d = .ok (d', es) ∧ w'.vecs[v]? = some d' := by
  unfold vecOp at h
  simp only [WM.bind_apply, getVec_ok w v d hv hl] at h
  cases hf : f d with
  | ok p =>
    obtain ⟨d', es⟩ := p
    rw [hf] at h
    simp only [WM.lift_ok, setVec_apply, emit, WM.modify_apply] at h
    refine ⟨d', es, rfl, ?_⟩
    have hlt : v < w.vecs.length := by
      rcases Nat.lt_or_ge v w.vecs.length with h1 | h1
      · exact h1
      · rw [List.getElem?_eq_none h1] at hv; cases hv
    have : w' = { (w.upd v d') with ev := es.reverse ++ (w.upd v d').ev } := by
      have := congrArg Prod.fst h
      exact this.symm
    rw [this]
    exact World.upd_get w v d' hlt
  | panic m => rw [hf] at h; simp only [WM.lift] at h; cases h
  | ub m => rw [hf] at h; simp only [WM.lift] at h; cases h

theorem bind_pure_unit (m : WM Unit) : (do m; pure ()) = m := by
  funext w
  simp only [WM.bind_apply]
  cases m w with
  | mk w' r => cases r <;> rfl


/-- the commands of `insert_unchecked` / `push_unchecked` run with `value` as the by-value argument -/
def valCtx (dst : Nat) (x : Val) (hasDrop : Bool) : MCtx :=
  { v := dst, moveIn := fun slot => valMoveInto x dst slot, cleanup := valDrop hasDrop x }

/-- the commands of a handle's functions run against the handle's vector -/
def hCtx (h : Handle) : MCtx := { v := h.v, typed := h.typed, consume := hConsume h }


end KernelTie
end AnyVec
