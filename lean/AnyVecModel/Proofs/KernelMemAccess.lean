/- Kernel tie: the storage backends' accessors (`impl Mem for HeapMem / StackMem / StackNMem / EmptyMem`: `as_ptr`,
`as_mut_ptr`, `element_layout`, `size`), the raw-parts functions and `build` of the capacity-less backend (src/mem/empty.rs)
and the `dangling` helper (src/mem/mod.rs), read from /repo/src token by token on every run. The model has no accessor
functions of its own: its `VecSt` *is* the record these functions read (`cap` = what `size()` returns, `size`/`align` = what
`element_layout()` returns, `cells` = the bytes behind `as_ptr()`), so the tie is that each accessor returns exactly its
field - nothing computed, nothing cached - and that both pointer accessors address the same buffer. -/
import AnyVecModel.Proofs.KernelBase
namespace AnyVec
namespace KernelTie
open Gen.Kernel

/-- every accessor of the four backends returns its field unchanged: `size()` is the stored `size` (heap, `Stack`), the const
parameter `N` (`StackN`) or `0` (`Empty`); `element_layout()` is the stored layout; `as_ptr()` and `as_mut_ptr()` are the
same buffer (`mem`, or the dangling pointer of the layout for `Empty`) -/
theorem mem_accessors_tie :
    heap_mem_accessors =
      [("as_ptr", "self . mem . as_ptr ( )"), ("as_mut_ptr", "self . mem . as_ptr ( )"),
       ("element_layout", "self . element_layout"), ("size", "self . size")] ∧
    stack_mem_accessors =
      [("as_ptr", "self . mem . as_ptr ( ) as * const u8"), ("as_mut_ptr", "self . mem . as_mut_ptr ( ) as * mut u8"),
       ("element_layout", "self . element_layout"), ("size", "self . size")] ∧
    stackn_mem_accessors =
      [("as_ptr", "self . mem . as_ptr ( ) as * const u8"), ("as_mut_ptr", "self . mem . as_mut_ptr ( ) as * mut u8"),
       ("element_layout", "self . element_layout"), ("size", "N")] ∧
    empty_mem_accessors =
      [("as_ptr", "dangling ( & self . element_layout ) . as_ptr ( )"),
       ("as_mut_ptr", "dangling ( & self . element_layout ) . as_ptr ( )"),
       ("element_layout", "self . element_layout"), ("size", "0"),
       ("into_raw_parts", "( ( ) , self . element_layout , 0 )"),
       ("from_raw_parts", "debug_assert! ( size == 0 ) ; Self { element_layout }"),
       ("build", "EmptyMem { element_layout }")] ∧
    mem_mod_helpers =
      [("dangling", "# [ cfg ( miri ) ] { layout . dangling ( ) } # [ cfg ( not ( miri ) ) ] { unsafe { NonNull :: new_unchecked ( layout . align ( ) as * mut u8 ) } }")] :=
  ⟨rfl, rfl, rfl, rfl, rfl⟩

/-- … and the model's capacity of a fresh vector is what those `size()` bodies return right after `build`: `0` for the heap
(`Heap::build` stores `size: 0`, tied in `raw_parts_tie`) and for `Empty`, the const parameter for `StackN`; and no
capacity call can change it on a backend without `MemResizable` (the model refuses the call, rustc rejects it) -/
theorem fresh_capacity_model (size align : Nat) :
    VecSt.buildCap .heap size align = .ok 0 ∧ VecSt.buildCap .empty size align = .ok 0 ∧
    (∀ n bytes c, VecSt.buildCap (.stackN n bytes) size align = .ok c → c = n) ∧
    (∀ (v : VecSt) m, (v.bk = .empty ∨ (∃ b, v.bk = .stack b) ∨ (∃ n b, v.bk = .stackN n b)) →
      ∃ msg, v.memResize m = .ub msg) := by
  refine ⟨rfl, rfl, ?_, ?_⟩
  · intro n bytes c h
    simp only [VecSt.buildCap] at h
    by_cases ha : align ≤ VecSt.STACK_MAX_ALIGN
    · by_cases hb : n * size ≤ bytes
      · simp [ha, hb] at h; exact h.symm
      · simp [ha, hb] at h
    · simp [ha] at h
  · intro v m h
    unfold VecSt.memResize
    rcases h with h | ⟨b, h⟩ | ⟨n, b, h⟩ <;> rw [h] <;> exact ⟨_, rfl⟩

end KernelTie
end AnyVec
