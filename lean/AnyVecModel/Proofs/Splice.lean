/-
  Symbolic execution of `Splice::drop` for plain replacement values of the right type and an honest
  `ExactSizeIterator::len`, no injected fault.
-/
import AnyVecModel.Proofs.Exec
namespace AnyVec
open World

/-- replacement values that are moved in by a plain bit copy, with their identities, all of type `ty` -/
inductive PlainList : List Val → List Nat → Nat → Prop where
  | nil (ty : Nat) : PlainList [] [] ty
  | wrapper (id ty : Nat) (vs : List Val) (ids : List Nat) : PlainList vs ids ty → PlainList (.wrapper id ty :: vs) (id :: ids) ty
  | raw (id ty : Nat) (vs : List Val) (ids : List Nat) : PlainList vs ids ty → PlainList (.raw id ty :: vs) (id :: ids) ty

theorem PlainList.length_eq {vs : List Val} {ids : List Nat} {ty : Nat} (h : PlainList vs ids ty) :
    ids.length = vs.length := by
  induction h with
  | nil => rfl
  | wrapper _ _ _ _ _ ih => simp [ih]
  | raw _ _ _ _ _ ih => simp [ih]

/-- the write loop of `Splice::drop`: each item is type-checked and bit-copied to the next slot
after `len + written`; nothing else is touched -/
theorem spliceWrite_plain (cfg : Cfg) (w : World) (v ty : Nat) (d : VecSt) (vals : List Val) (ids : List Nat)
    (written : Nat) (hpl : PlainList vals ids ty)
    (hv : w.vecs[v]? = some d) (hl : d.live = true) (hf : w.fault = none)
    (hcap : d.len + written + vals.length ≤ d.cap) :
    ∃ d', spliceWrite cfg v ty vals.length vals written w =
        ({ w with vecs := w.vecs.set v d' }, .ok (written + vals.length, [])) ∧
      d'.len = d.len ∧ d'.cap = d.cap ∧ d'.live = true ∧ d'.ty = d.ty ∧ d'.hasDrop = d.hasDrop ∧ d'.bk = d.bk ∧ d'.cloneable = d.cloneable ∧
      d.cells.length ≤ d'.cells.length ∧ d'.cells.length ≤ max d.cells.length (d.len + written + vals.length) ∧
      (∀ j, j < d.len + written → d'.cells.get j = d.cells.get j) ∧
      (∀ j, j < vals.length → d'.cells.get (d.len + written + j) = .val (ids.getD j 0)) ∧
      (∀ j, d.len + written + vals.length ≤ j → d'.cells.get j = d.cells.get j) := by
  induction hpl generalizing w d written with
  | nil =>
    refine ⟨d, ?_, rfl, rfl, hl, rfl, rfl, rfl, rfl, Nat.le_refl _, Nat.le_max_left _ _, fun _ _ => rfl, fun j hj => absurd hj (by simp), fun _ _ => rfl⟩
    have : w.vecs.set v d = w.vecs := by
      apply List.ext_getElem?; intro m
      by_cases hm : v = m
      · subst hm
        simp [List.getElem?_set, hv, (List.getElem?_eq_some_iff.mp hv).1, (List.getElem?_eq_some_iff.mp hv).2]
      · simp [List.getElem?_set, hm]
    simp [spliceWrite, this]
  | wrapper id ty vs ids' hrest ih =>
    have hlt : v < w.vecs.length := (List.getElem?_eq_some_iff.mp hv).1
    have hd : w.vecs[v] = d := (List.getElem?_eq_some_iff.mp hv).2
    simp only [List.length_cons] at hcap
    have hb : d.len + written < d.cap := by omega
    let d1 : VecSt := { d with cells := (d.cells.ensure (d.len + written + 1)).set (d.len + written) (.val id), live := true }
    let w1 : World := { w with vecs := w.vecs.set v d1 }
    obtain ⟨d', he, h1, h2, h3, h3a, h3b, h3c, h3d, h4, h4u, h5, h6, h7⟩ := ih (w := w1) (d := d1) (written := written + 1)
      (by simp [w1, hlt]) rfl (by simp [w1, hf]) (by simp [d1]; omega)
    refine ⟨d', ?_, by simpa [d1] using h1, by simpa [d1] using h2, h3, by simpa [d1] using h3a,
      by simpa [d1] using h3b, by simpa [d1] using h3c, by simpa [d1] using h3d, ?_, ?_, ?_, ?_, ?_⟩
    · have hstep : spliceWrite cfg v ty (vs.length + 1) (.wrapper id ty :: vs) written w
          = spliceWrite cfg v ty vs.length vs (written + 1) w1 := by
        simp [spliceWrite, WM.onUnwind, tick, hf, valTy, getVec, hlt, hd, hl, valMoveInto, World.writeCell,
          VecSt.writeCell_ok, hb, World.upd, w1, d1]
      simp only [List.length_cons]
      rw [hstep, he]
      simp [w1, Nat.add_assoc, Nat.add_comm 1]
    · have : d.cells.length ≤ d1.cells.length := by simp [d1]; omega
      omega
    · have : d1.cells.length = max d.cells.length (d.len + written + 1) := by simp [d1]
      simp only [d1, List.length_cons] at h4u ⊢
      simp at h4u
      omega
    · intro j hj
      rw [h5 j (by simp [d1]; omega)]
      simp only [d1]
      rw [get_set_ne _ _ _ _ (by omega), ensure_get]
    · intro j hj
      cases j with
      | zero =>
        rw [Nat.add_zero, h5 (d.len + written) (by simp [d1])]
        simp only [d1]
        rw [get_set_self _ _ _ (by simp; omega)]
        simp
      | succ j =>
        have := h6 j (by simp at hj; omega)
        simp only [d1] at this
        rw [show d.len + written + (j + 1) = d.len + (written + 1) + j by omega, this]
        simp
    · intro j hj
      simp only [List.length_cons] at hj
      rw [h7 j (by simp [d1]; omega)]
      simp only [d1]
      rw [get_set_ne _ _ _ _ (by omega), ensure_get]
  | raw id ty vs ids' hrest ih =>
    have hlt : v < w.vecs.length := (List.getElem?_eq_some_iff.mp hv).1
    have hd : w.vecs[v] = d := (List.getElem?_eq_some_iff.mp hv).2
    simp only [List.length_cons] at hcap
    have hb : d.len + written < d.cap := by omega
    let d1 : VecSt := { d with cells := (d.cells.ensure (d.len + written + 1)).set (d.len + written) (.val id), live := true }
    let w1 : World := { w with vecs := w.vecs.set v d1 }
    obtain ⟨d', he, h1, h2, h3, h3a, h3b, h3c, h3d, h4, h4u, h5, h6, h7⟩ := ih (w := w1) (d := d1) (written := written + 1)
      (by simp [w1, hlt]) rfl (by simp [w1, hf]) (by simp [d1]; omega)
    refine ⟨d', ?_, by simpa [d1] using h1, by simpa [d1] using h2, h3, by simpa [d1] using h3a,
      by simpa [d1] using h3b, by simpa [d1] using h3c, by simpa [d1] using h3d, ?_, ?_, ?_, ?_, ?_⟩
    · have hstep : spliceWrite cfg v ty (vs.length + 1) (.raw id ty :: vs) written w
          = spliceWrite cfg v ty vs.length vs (written + 1) w1 := by
        simp [spliceWrite, WM.onUnwind, tick, hf, valTy, getVec, hlt, hd, hl, valMoveInto, World.writeCell,
          VecSt.writeCell_ok, hb, World.upd, w1, d1]
      simp only [List.length_cons]
      rw [hstep, he]
      simp [w1, Nat.add_assoc, Nat.add_comm 1]
    · have : d.cells.length ≤ d1.cells.length := by simp [d1]; omega
      omega
    · have : d1.cells.length = max d.cells.length (d.len + written + 1) := by simp [d1]
      simp only [d1, List.length_cons] at h4u ⊢
      simp at h4u
      omega
    · intro j hj
      rw [h5 j (by simp [d1]; omega)]
      simp only [d1]
      rw [get_set_ne _ _ _ _ (by omega), ensure_get]
    · intro j hj
      cases j with
      | zero =>
        rw [Nat.add_zero, h5 (d.len + written) (by simp [d1])]
        simp only [d1]
        rw [get_set_self _ _ _ (by simp; omega)]
        simp
      | succ j =>
        have := h6 j (by simp at hj; omega)
        simp only [d1] at this
        rw [show d.len + written + (j + 1) = d.len + (written + 1) + j by omega, this]
        simp
    · intro j hj
      simp only [List.length_cons] at hj
      rw [h7 j (by simp [d1]; omega)]
      simp only [d1]
      rw [get_set_ne _ _ _ _ (by omega), ensure_get]

end AnyVec

namespace AnyVec
open World

@[simp] theorem dropRepl_nil (cfg : Cfg) (w : World) : dropRepl cfg [] w = (w, .ok ()) := rfl

/-- exact resulting world of `Splice::drop` with plain replacement values of the vector's type, an honest
`len()`, enough capacity and no injected fault, in any consumption state -/
theorem spliceDrop_exec (cfg : Cfg) (w : World) (it : RangeIt) (d d1 : VecSt) (es : List Event)
    (vals : List Val) (ids : List Nat) (hpl : PlainList vals ids d.ty)
    (hv : w.vecs[it.v]? = some d) (hl : d.live = true) (hf : w.fault = none)
    (h0 : d.len = it.start) (h1 : it.start ≤ it.index) (h2 : it.index ≤ it.end_) (h3 : it.end_ ≤ it.end0)
    (h4 : it.end0 ≤ it.origLen) (h5 : it.origLen ≤ d.cells.length) (h6 : d.cells.length ≤ d.cap)
    (hsmall : it.start + vals.length + (it.origLen - it.end0) ≤ USIZE_MAX)
    (hres : d.reserve (it.start + vals.length + (it.origLen - it.end0) - it.start) = .ok (d1, es))
    (hinit : d.InitRange it.index (it.end_ - it.index)) :
    ∃ d3 : VecSt,
      spliceDrop cfg it vals vals.length w =
        ({ logDrops d.hasDrop (d.idsRange it.index (it.end_ - it.index))
              { w with vecs := w.vecs.set it.v d1, ev := es.reverse ++ w.ev } with
            vecs := w.vecs.set it.v { d3 with len := it.start + vals.length + (it.origLen - it.end0) } }, .ok ()) ∧
      it.start + vals.length + (it.origLen - it.end0) ≤ d3.cells.length ∧ d3.cells.length ≤ d3.cap ∧ d3.live = true ∧
      d3.cap = d1.cap ∧ d3.ty = d.ty ∧ d3.bk = d1.bk ∧ d3.cloneable = d1.cloneable ∧
      (∀ j, j < it.start → d3.cells.get j = d.cells.get j) ∧
      (∀ j, j < vals.length → d3.cells.get (it.start + j) = .val (ids.getD j 0)) ∧
      (∀ j, j < it.origLen - it.end0 → d3.cells.get (it.start + vals.length + j) = d.cells.get (it.end0 + j)) := by
  have hlt : it.v < w.vecs.length := (List.getElem?_eq_some_iff.mp hv).1
  have hd : w.vecs[it.v] = d := (List.getElem?_eq_some_iff.mp hv).2
  have hwfd : d.WF := ⟨by omega, h6⟩
  obtain ⟨hcap1, hlen1, hcells, hwf1, hty1, hdr1, hlv1, _⟩ := reserve_full d d1 _ es hwfd hres
  have hlive1 : d1.live = true := by rw [hlv1]; exact hl
  have hc1 := hwf1.cells_le
  let w1 : World := { w with vecs := w.vecs.set it.v d1, ev := es.reverse ++ w.ev }
  have hv1 : w1.vecs[it.v]? = some d1 := by simp [w1, hlt]
  have hinit1 : d1.InitRange it.index (it.end_ - it.index) := by
    intro j hj; rw [hcells]; exact hinit j hj
  have hdrop := dropRange_nofault w1 it.v d1 it.typed it.index it.end_ hv1 hlive1 (by simpa [w1] using hf)
    (by rw [hcells] at hc1; omega) hinit1
  let w2 : World := logDrops d1.hasDrop (d1.idsRange it.index (it.end_ - it.index)) w1
  let d2 : VecSt := { d1 with cells := memmove (d1.cells.ensure (max (it.end0 + (it.origLen - it.end0))
      (it.start + vals.length + (it.origLen - it.end0)))) it.end0 (it.start + vals.length) (it.origLen - it.end0) }
  have hv2 : w2.vecs[it.v]? = some d1 := by simp [w2, w1, hlt]
  have hb1 : it.end0 + (it.origLen - it.end0) ≤ d1.cap := by rw [hcells] at hc1; omega
  have hb2 : it.start + vals.length + (it.origLen - it.end0) ≤ d1.cap := by omega
  have hmove : moveElems it.v false it.end0 (it.start + vals.length) (it.origLen - it.end0) w2 = (w2.upd it.v d2, .ok ()) := by
    have hlt2 : it.v < w2.vecs.length := by simp [w2, w1, hlt]
    have hd2 : w2.vecs[it.v] = d1 := (List.getElem?_eq_some_iff.mp hv2).2
    simp [moveElems, getVec, hlt2, hd2, hlive1, VecSt.moveElems_ok, hb1, hb2, d2]
  let w3 : World := w2.upd it.v d2
  have hv3 : w3.vecs[it.v]? = some d2 := by simp [w3, w2, w1, hlt]
  have hpl2 : PlainList vals ids d2.ty := by simpa [d2, hty1] using hpl
  obtain ⟨d3, hw3, hl3, hcap3, hlive3, hty3, _, hbk3, hcl3, hlen3, hlenu3, hpre3, hmid3, hpost3⟩ :=
    spliceWrite_plain cfg w3 it.v d2.ty d2 vals ids 0 hpl2 hv3 hlive1 (by simpa [w3, w2, w1] using hf)
      (by simp [d2]; omega)
  have hlt3 : it.v < w3.vecs.length := by simp [w3, w2, w1, hlt]
  refine ⟨d3, ?_, ?_, ?_, hlive3, by rw [hcap3], by rw [hty3]; simp [d2, hty1], by rw [hbk3], by rw [hcl3], ?_, ?_, ?_⟩
  · have hadd1 : checkedAdd it.start vals.length = .ok (it.start + vals.length) := by simp [checkedAdd]; omega
    have hadd2 : checkedAdd (it.start + vals.length) (it.origLen - it.end0) = .ok (it.start + vals.length + (it.origLen - it.end0)) := by
      simp [checkedAdd]; omega
    have hd3 : (w3.vecs.set it.v d3)[it.v]? = some d3 := by simp [hlt3]
    simp only [spliceDrop, WM.bind_apply, getVec_ok w it.v d hv hl]
    simp only [WM.onUnwind, WM.lift, Bind.bind, Res.bind, hadd1, hadd2, Pure.pure]
    simp only [vecOp, WM.bind_apply, getVec_ok w it.v d hv hl, WM.lift, hres, World.setVec_apply, World.emit_apply]
    have e1 : ({ w.upd it.v d1 with ev := es.reverse ++ (w.upd it.v d1).ev } : World) = w1 := rfl
    simp only [e1, hdrop]
    have e2 : logDrops d1.hasDrop (d1.idsRange it.index (it.end_ - it.index)) w1 = w2 := rfl
    simp only [e2, hmove]
    have e3 : w2.upd it.v d2 = w3 := rfl
    have e4 : d.ty = d2.ty := by simp [d2, hty1]
    simp only [e3, e4, hw3, Nat.zero_add, Nat.lt_irrefl, if_false, setLen, WM.bind_apply,
      getVec, hd3, hlive3, if_true, World.setVec_apply, dropRepl_nil]
    simp [World.upd, hlt3, w3, w2, w1, hdr1, hcells, WM.bind, getVec, hlt, hlive3, VecSt.idsRange, setVec]
  · have hd2len : d2.cells.length = max d1.cells.length (max (it.end0 + (it.origLen - it.end0)) (it.start + vals.length + (it.origLen - it.end0))) := by
      simp only [d2]
      rw [memmove_length _ _ _ _ (by simp; omega) (by simp; omega)]; simp
    omega
  · have hd2len : d2.cells.length = max d1.cells.length (max (it.end0 + (it.origLen - it.end0)) (it.start + vals.length + (it.origLen - it.end0))) := by
      simp only [d2]
      rw [memmove_length _ _ _ _ (by simp; omega) (by simp; omega)]; simp
    have : d2.len = it.start := by simp [d2, hlen1, h0]
    have hcap2 : d2.cap = d1.cap := rfl
    rw [hcap3, hcap2]
    rw [this] at hlenu3
    simp at hlenu3
    omega
  · intro j hj
    rw [hpre3 j (by simp [d2, hlen1]; omega)]
    simp only [d2]
    rw [memmove_get _ _ _ _ _ (by simp; omega) (by simp; omega), if_neg (by omega), ensure_get, hcells]
  · intro j hj
    have := hmid3 j hj
    simpa [d2, hlen1, h0] using this
  · intro j hj
    rw [hpost3 _ (by simp [d2, hlen1]; omega)]
    simp only [d2]
    rw [memmove_get _ _ _ _ _ (by simp; omega) (by simp; omega), if_pos (by omega), ensure_get, hcells]
    congr 1; omega

/-- **`Splice::drop`**: whatever was consumed from either end, dropping a splice iterator whose
replacement consists of `ids` (plain values of the vector's type, honest `len()`, room reservable) leaves
`take start ++ replacement ++ drop end` of the original elements, destroys exactly the elements that were
not yielded, and changes nothing else. -/
theorem spliceDrop_replaces (cfg : Cfg) (w : World) (it : RangeIt) (d d1 : VecSt) (es : List Event)
    (vals : List Val) (ids : List Nat) (hpl : PlainList vals ids d.ty)
    (hv : w.vecs[it.v]? = some d) (hl : d.live = true) (hf : w.fault = none)
    (h0 : d.len = it.start) (h1 : it.start ≤ it.index) (h2 : it.index ≤ it.end_) (h3 : it.end_ ≤ it.end0)
    (h4 : it.end0 ≤ it.origLen) (h5 : it.origLen ≤ d.cells.length) (h6 : d.cells.length ≤ d.cap)
    (hsmall : it.start + vals.length + (it.origLen - it.end0) ≤ USIZE_MAX)
    (hres : d.reserve (it.start + vals.length + (it.origLen - it.end0) - it.start) = .ok (d1, es))
    (hinit : d.InitRange it.index (it.end_ - it.index)) :
    let r := spliceDrop cfg it vals vals.length w
    let orig := d.cells.take it.origLen
    r.2 = .ok () ∧
      r.1.vis it.v = orig.take it.start ++ ids.map Cell.val ++ orig.drop it.end0 ∧
      (∀ u, u ≠ it.v → r.1.vis u = w.vis u) ∧
      r.1.dropLog = (d.idsRange it.index (it.end_ - it.index)).reverse ++ w.dropLog ∧
      r.1.held = w.held ∧ r.1.created = w.created := by
  have hlt : it.v < w.vecs.length := (List.getElem?_eq_some_iff.mp hv).1
  have hidl := hpl.length_eq
  obtain ⟨d3, he, hlen, _, _, _, _, _, _, hpre, hmid, hpost⟩ :=
    spliceDrop_exec cfg w it d d1 es vals ids hpl hv hl hf h0 h1 h2 h3 h4 h5 h6 hsmall hres hinit
  intro r orig
  rw [show r = _ from he]
  refine ⟨rfl, ?_, ?_, ?_, ?_, ?_⟩
  · simp only [World.vis, List.getElem?_set_self hlt, VecSt.abs]
    apply take_ext _ _ _ (by simp [orig]; omega) hlen
    intro k hk
    simp only [List.getElem?_append, List.length_take, List.length_map, List.getElem?_take, List.getElem?_map,
      List.getElem?_drop, orig, List.length_append]
    by_cases hk1 : k < it.start
    · have hk' : k < d.cells.length := by omega
      rw [hpre k hk1]
      simp [hk1, Mem.get_eq, show min it.start (min it.origLen d.cells.length) = it.start by omega,
        show k < it.origLen by omega, show k < it.start + ids.length by omega]
    · by_cases hk2 : k < it.start + vals.length
      · have := hmid (k - it.start) (by omega)
        rw [show it.start + (k - it.start) = k by omega] at this
        rw [this]
        have hki : k - it.start < ids.length := by omega
        simp [hk1, show min it.start (min it.origLen d.cells.length) = it.start by omega, hki, hidl,
          show k < it.start + vals.length by omega, List.getD_eq_getElem?_getD, List.getElem?_eq_getElem hki]
      · have := hpost (k - (it.start + vals.length)) (by omega)
        rw [show it.start + vals.length + (k - (it.start + vals.length)) = k by omega] at this
        rw [this]
        have e1 : min it.start (min it.origLen d.cells.length) = it.start := by omega
        have hk3 : ¬ k < it.start + ids.length := by omega
        have hk4 : ¬ k < it.start + vals.length := hk2
        simp only [e1, hk1, if_false, hidl, hk4, Mem.get_eq]
        have e2 : it.end0 + (k - it.start - vals.length) < it.origLen := by omega
        simp [e2, show it.end0 + (k - (it.start + vals.length)) = it.end0 + (k - it.start - vals.length) by omega]
  · intro u hu
    simp [World.vis, List.getElem?_set, Ne.symm hu]
  · simp [World.logDrops_dropLog]
  · simp
  · simp


end AnyVec
