/- Kernel tie: how each kind of value moves into a slot (`AnyValueSizeless::move_into` default in src/any_value/mod.rs,
`TempValue::move_into` in src/ops/temp.rs, `LazyClone::move_into` / `clone_into` in src/any_value/lazy_clone.rs) and the
checked downcasts (`AnyValue::{downcast_ref, downcast}`, `AnyValueMut::downcast_mut`, `ElementPointer::downcast_*`,
`AnyVec::downcast_*`), re-translated from /repo/src on every run into call traces. -/
import AnyVecModel.Proofs.KernelBase
namespace AnyVec
namespace KernelTie
open Gen.Kernel

/-- does the trace hand a value out (`Some`) along the branches it takes? -/
def handsOut : List TStep → Bool
  | [] => false
  | .retSome :: _ => true
  | .retNone :: _ => false
  | .branch c a b :: rest => (if c then handsOut a else handsOut b) || handsOut rest
  | _ :: rest => handsOut rest

/-- a plain value moves in by one bit copy and is then forgotten (its destructor does not run); a removal handle
additionally lets its operation compact the vector (`consume`) after the copy; a lazy clone moves in by exactly one
`clone_into` of the value it refers to - no bit copy, nothing forgotten - and cloning a lazy clone's value is the same
single call -/
theorem move_into_tie (b : Bool) :
    value_move_into_trace b =
      [.call "as_bytes_ptr" [], .call "crate::copy_nonoverlapping_value" [], .call "mem::forget" []] ∧
    temp_move_into_trace b =
      [.call "as_bytes_ptr" [], .call "copy_nonoverlapping_value" [], .call "consume" [], .call "mem::forget" []] ∧
    lazy_move_into_trace b = [.call "clone_into" []] ∧
    lazy_clone_into_trace b = [.call "clone_into" []] :=
  ⟨rfl, rfl, rfl, rfl⟩

/-- every checked downcast compares the value's (the vector's) run-time type id with `TypeId::of::<T>()` and hands the
value out exactly when they are equal -/
theorem downcast_tie (sameType : Bool) :
    value_downcast_ref_trace sameType = [.branch (!sameType) [.retNone] [.call "downcast_ref_unchecked" [], .retSome]] ∧
    value_downcast_trace sameType = [.branch (!sameType) [.retNone] [.call "downcast_unchecked" [], .retSome]] ∧
    value_downcast_mut_trace sameType = [.branch (!sameType) [.retNone] [.call "downcast_mut_unchecked" [], .retSome]] ∧
    element_downcast_ref_trace sameType = [.branch (!sameType) [.retNone] [.call "downcast_ref_unchecked" [], .retSome]] ∧
    element_downcast_mut_trace sameType = [.branch (!sameType) [.retNone] [.call "downcast_mut_unchecked" [], .retSome]] ∧
    anyvec_downcast_ref_trace sameType = [.branch sameType [.call "downcast_ref_unchecked" [], .retSome] [.retNone]] ∧
    anyvec_downcast_mut_trace sameType = [.branch sameType [.call "downcast_mut_unchecked" [], .retSome] [.retNone]] ∧
    handsOut (value_downcast_ref_trace sameType) = sameType ∧ handsOut (value_downcast_trace sameType) = sameType ∧
    handsOut (value_downcast_mut_trace sameType) = sameType ∧ handsOut (element_downcast_ref_trace sameType) = sameType ∧
    handsOut (element_downcast_mut_trace sameType) = sameType ∧ handsOut (anyvec_downcast_ref_trace sameType) = sameType ∧
    handsOut (anyvec_downcast_mut_trace sameType) = sameType := by
  refine ⟨rfl, rfl, rfl, rfl, rfl, rfl, rfl, ?_, ?_, ?_, ?_, ?_, ?_, ?_⟩ <;> cases sameType <;> simp [handsOut,
    value_downcast_ref_trace, value_downcast_trace, value_downcast_mut_trace, element_downcast_ref_trace,
    element_downcast_mut_trace, anyvec_downcast_ref_trace, anyvec_downcast_mut_trace]

/-- an owning downcast moves the value out through `move_into` of a fresh `MaybeUninit<T>`; a value swap compares the
two run-time type ids first -/
theorem downcast_unchecked_tie (b : Bool) :
    value_downcast_unchecked_trace b =
      [.call "MaybeUninit::uninit" [], .call "as_mut_ptr" [], .call "size_of" [], .call "move_into" [],
       .call "assume_init" []] ∧
    value_swap_trace b =
      [.call "value_typeid" [], .call "value_typeid" [], .call "assert_eq!" [], .call "swap_unchecked" []] :=
  ⟨rfl, rfl⟩

end KernelTie
end AnyVec
