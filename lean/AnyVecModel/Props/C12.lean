/-
  C12 — byte and slice views expose exactly the initialised elements, correctly aligned (partial).
  The model carries the offset/extent arithmetic of the views; real addresses and the alignment of
  the storage pointer are observed by the harness (`views` prints `ptr % align`), not modelled.
-/
import AnyVecModel.Proofs.Exec
import AnyVecModel.Proofs.KernelView
import AnyVecModel.Proofs.KernelStackAlign
import AnyVecModel.Proofs.KernelPtrAt
import AnyVecModel.Proofs.KernelMemAccess
import AnyVecModel.Props.Refine
import AnyVecModel.Props.RefineMulti
namespace AnyVec
namespace C12
open World

/-- `as_bytes` covers exactly `len × size` bytes from the storage pointer; the spare views start
right behind it, cover exactly `(capacity − len) × size` bytes, and end at the end of the storage:
the two regions are adjacent, disjoint and inside `capacity × size`. -/
theorem view_extents (v : VecSt) (h : v.len ≤ v.cap) :
    v.asBytes = (0, v.len * v.size) ∧
    v.spareBytes.1 = v.asBytes.1 + v.asBytes.2 ∧
    v.spareBytes.1 + v.spareBytes.2 = v.cap * v.size ∧
    v.spareCapacity.1 = v.spareBytes.1 ∧ v.spareCapacity.2 * v.size = v.spareBytes.2 ∧
    v.typedSlice = (v.asBytes.1, v.len) := by
  simp only [VecSt.asBytes, VecSt.spareBytes, VecSt.spareCapacity, VecSt.typedSlice]
  refine ⟨trivial, by omega, ?_, trivial, trivial, trivial⟩
  rw [← Nat.add_mul]; congr 1; omega

/-- byte `k` of `as_bytes` is byte `k % size` of element `k / size`, and that element is a visible one -/
theorem byte_of_element (v : VecSt) (k : Nat) (hs : 0 < v.size) (hk : k < v.asBytes.2) :
    k / v.size < v.len ∧ k = (k / v.size) * v.size + k % v.size ∧ k % v.size < v.size := by
  simp only [VecSt.asBytes] at hk
  refine ⟨?_, ?_, Nat.mod_lt _ hs⟩
  · exact (Nat.div_lt_iff_lt_mul hs).mpr hk
  · have := Nat.div_add_mod k v.size
    rw [Nat.mul_comm] at this; omega

/-- no byte of the spare region belongs to an initialised element -/
theorem spare_is_past_elements (v : VecSt) (k : Nat) (hs : 0 < v.size) (hk : v.spareBytes.1 ≤ k) :
    v.len ≤ k / v.size := by
  simp only [VecSt.spareBytes] at hk
  exact (Nat.le_div_iff_mul_le hs).mpr hk

/-- writing `k` values into the spare capacity, without `set_len`, changes nothing visible … -/
theorem writeFresh_exec (w : World) (v : Nat) (d : VecSt) (i k : Nat)
    (hv : w.vecs[v]? = some d) (hl : d.live = true) (hcap : i + k ≤ d.cap) :
    ∃ d', writeFresh v i k w = ({ w with vecs := w.vecs.set v d', created := w.created + k }, .ok ()) ∧
      d'.len = d.len ∧ d'.cap = d.cap ∧ d'.live = true ∧ d.cells.length ≤ d'.cells.length ∧
      (∀ j, j < i → d'.cells.get j = d.cells.get j) ∧
      (∀ j, j < k → d'.cells.get (i + j) = .val (w.created + j)) := by
  induction k generalizing w d i with
  | zero =>
    refine ⟨d, ?_, rfl, rfl, hl, Nat.le_refl _, fun _ _ => rfl, fun j hj => absurd hj (by omega)⟩
    have : w.vecs.set v d = w.vecs := by
      apply List.ext_getElem?; intro n
      by_cases hn : v = n
      · subst hn
        simp [List.getElem?_set, hv, (List.getElem?_eq_some_iff.mp hv).1, (List.getElem?_eq_some_iff.mp hv).2]
      · simp [List.getElem?_set, hn]
    simp [writeFresh, this]
  | succ k ih =>
    have hlt : v < w.vecs.length := (List.getElem?_eq_some_iff.mp hv).1
    have hd : w.vecs[v] = d := (List.getElem?_eq_some_iff.mp hv).2
    have hb : i < d.cap := by omega
    let d1 : VecSt := { d with cells := (d.cells.ensure (i + 1)).set i (.val w.created), live := true }
    let w1 : World := { w with vecs := w.vecs.set v d1, created := w.created + 1 }
    obtain ⟨d', he, h1, h2, h3, h4, h5, h6⟩ := ih w1 d1 (i + 1) (by simp [w1, hlt]) rfl (by simp [d1]; omega)
    refine ⟨d', ?_, by simpa [d1] using h1, by simpa [d1] using h2, h3, ?_, ?_, ?_⟩
    · simp [writeFresh, fresh, World.writeCell, getVec, hlt, hd, hl, VecSt.writeCell_ok, hb, World.upd]
      have : ({ vecs := w.vecs.set v d1, created := w.created + 1, dropLog := w.dropLog, held := w.held,
                pendingRaw := w.pendingRaw, ev := w.ev, fault := w.fault } : World) = w1 := rfl
      simp only [d1] at this
      rw [this, he]
      simp [w1, Nat.add_assoc, Nat.add_comm 1 k]
    · have : d.cells.length ≤ d1.cells.length := by simp [d1]; omega
      omega
    · intro j hj
      rw [h5 j (by omega)]
      simp only [d1]
      rw [get_set_ne _ _ _ _ (by omega), ensure_get]
    · intro j hj
      cases j with
      | zero =>
        rw [Nat.add_zero, h5 i (by omega)]
        simp only [d1]
        rw [get_set_self _ _ _ (by simp; omega)]
        simp
      | succ j =>
        have := h6 j (by omega)
        simp only [w1] at this
        rw [show i + (j + 1) = i + 1 + j by omega, this]
        congr 1; omega

/-! non-vacuity -/
def sampleVec : VecSt :=
  { ty := 0, size := 12, align := 4, hasDrop := true, cloneable := true, bk := .heap, cap := 5,
    cells := [.val 0, .val 1], len := 2, gen := 0, live := true }
example : sampleVec.asBytes = (0, 24) ∧ sampleVec.spareBytes = (24, 36) ∧ sampleVec.spareCapacity = (24, 3) := by decide

/-- **source tie**: the model's views are the source's, as re-translated on this run from the `from_raw_parts` call at
the end of each view function: `as_bytes` / `as_bytes_mut` start at the storage pointer and span `len * size` bytes;
`spare_bytes_mut` starts `len * size` bytes in and spans `(capacity - len) * size` bytes; the typed slice starts at the
storage pointer with `len` elements; `spare_capacity_mut` starts `len` elements in with `capacity - len` elements. -/
theorem views_are_the_source (v : VecSt) :
    v.asBytes = Gen.Kernel.as_bytes_view v.len v.cap v.size ∧
    v.asBytes = Gen.Kernel.as_bytes_mut_view v.len v.cap v.size ∧
    v.spareBytes = Gen.Kernel.spare_bytes_mut_view v.len v.cap v.size ∧
    v.typedSlice = Gen.Kernel.as_slice_view v.len v.cap v.size ∧
    v.typedSlice = Gen.Kernel.as_mut_slice_view v.len v.cap v.size ∧
    v.spareCapacity = Gen.Kernel.spare_capacity_mut_view v.len v.cap v.size :=
  KernelTie.views_tie v

/-- **source tie**: the in-place buffers of `Stack` / `StackN` are declared `repr(align(N))` with `N` (read from
`/repo/src/mem/stack.rs`, `stack_n.rs` on this run) at least `STACK_MAX_ALIGN` (read from `/repo/src/mem/mod.rs`), the
largest element alignment their `build` accepts - and that bound is the model's. -/
theorem stack_alignment_is_the_source :
    Gen.Kernel.stack_max_align = VecSt.STACK_MAX_ALIGN ∧ Gen.Kernel.stack_max_align ≤ Gen.Kernel.stack_mem_align ∧
    Gen.Kernel.stack_max_align ≤ Gen.Kernel.stackn_mem_align :=
  KernelTie.stack_align_tie

/-- **source tie**: element `index` lives `index * size` bytes into the storage on the erased path
(`AnyVecRaw::get_unchecked(_mut)`: `mem.as_ptr().add(size * index)`) and on the typed path
(`AnyVecTyped::as_ptr().add(index)`) alike, as `utils::element_ptr_at` / `element_mut_ptr_at` of the source have it on
this run - the fact behind "an element pointer is its slot" that the other re-translated kernels use. -/
theorem element_pointers_are_the_source (index size : Nat) (known : Bool) :
    Gen.Kernel.element_ptr_at_off index size known = index * size ∧
    Gen.Kernel.element_mut_ptr_at_off index size known = index * size :=
  KernelTie.element_ptr_at_tie index size known

/-- **source tie**: the storage pointer and layout every view starts from are the backend's own fields - `as_ptr()` and
`as_mut_ptr()` of each of the four backends (`/repo/src/mem/{heap,stack,stack_n,empty}.rs`, read on this run) return the
same buffer (`self.mem`, or the dangling pointer *of the element layout* for `Empty`), `element_layout()` returns the
stored layout, and the unallocated pointer (`mem::dangling`) is the layout's alignment - so it is aligned for the
element type. -/
theorem storage_pointers_are_the_source :
    Gen.Kernel.heap_mem_accessors.lookup "as_ptr" = Gen.Kernel.heap_mem_accessors.lookup "as_mut_ptr" ∧
    Gen.Kernel.empty_mem_accessors.lookup "as_ptr" = Gen.Kernel.empty_mem_accessors.lookup "as_mut_ptr" ∧
    Gen.Kernel.stack_mem_accessors.lookup "as_ptr" = some "self . mem . as_ptr ( ) as * const u8" ∧
    Gen.Kernel.stack_mem_accessors.lookup "as_mut_ptr" = some "self . mem . as_mut_ptr ( ) as * mut u8" ∧
    Gen.Kernel.stackn_mem_accessors.lookup "as_ptr" = some "self . mem . as_ptr ( ) as * const u8" ∧
    Gen.Kernel.stackn_mem_accessors.lookup "as_mut_ptr" = some "self . mem . as_mut_ptr ( ) as * mut u8" ∧
    (∀ t ∈ [Gen.Kernel.heap_mem_accessors, Gen.Kernel.stack_mem_accessors, Gen.Kernel.stackn_mem_accessors,
            Gen.Kernel.empty_mem_accessors], t.lookup "element_layout" = some "self . element_layout") ∧
    Gen.Kernel.mem_mod_helpers =
      [("dangling", "# [ cfg ( miri ) ] { layout . dangling ( ) } # [ cfg ( not ( miri ) ) ] { unsafe { NonNull :: new_unchecked ( layout . align ( ) as * mut u8 ) } }")] := by
  obtain ⟨h1, h2, h3, h4, h5⟩ := KernelTie.mem_accessors_tie
  rw [h1, h2, h3, h4]
  refine ⟨rfl, rfl, rfl, rfl, rfl, rfl, ?_, h5⟩
  intro t ht
  simp only [List.mem_cons, List.not_mem_nil, or_false] at ht
  rcases ht with rfl | rfl | rfl | rfl <;> rfl

/-! ### the views of a vector that shows an abstract vector (Props/Refine.lean) -/

/-- **the views expose exactly the abstract vector**: in any world in which vector `v` shows the abstract items and
capacity `s` - any fault-free reachable world after any history of the refinement does - `as_bytes` / the typed slice
cover exactly `|items|` elements from the storage pointer, the spare views start right behind them and cover exactly
`capacity − |items|` element slots, ending at the end of the storage. -/
theorem views_show_the_abstract_vector {bg : Nat → Option VecSt} (v ty : Nat) (w : World) (s : Refine.Spec)
    (h : Refine.Rel bg v ty w s) :
    ∃ d, w.vecs[v]? = some d ∧
      d.asBytes = (0, s.items.length * d.size) ∧ d.typedSlice = (0, s.items.length) ∧
      d.spareBytes = (s.items.length * d.size, (s.cap - s.items.length) * d.size) ∧
      d.spareCapacity = (s.items.length * d.size, s.cap - s.items.length) ∧
      s.items.length ≤ s.cap := by
  obtain ⟨hinv, _, ⟨d, hv, _, _, habs, hcp, _⟩, _, _⟩ := h
  have hg := hinv.good v d hv
  have hlen := Refine.abs_len hg.wf habs
  have hlc := hg.wf.len_le_cap
  refine ⟨d, hv, ?_, ?_, ?_, ?_, by omega⟩
  · simp [VecSt.asBytes, hlen]
  · simp [VecSt.typedSlice, hlen]
  · simp [VecSt.spareBytes, hlen, hcp]
  · simp [VecSt.spareCapacity, hlen, hcp]

/-- **what is written into the spare capacity and claimed by `set_len` becomes exactly the new elements**: in any world
that shows an abstract state of all its vectors, writing `k` fresh values into the first `k` slots of the spare capacity
of a live vector (through `spare_capacity_mut` or `spare_bytes_mut`) and calling `set_len(len + k)` with
`len + k ≤ capacity` leads to a world in which that vector shows its old items followed by exactly the `k` new ones, in
slot order - the spare view starts right behind the elements and does not overlap them - with the same capacity; every
other vector and the log of destructor runs are unchanged. -/
theorem set_len_shows_what_was_written (cfg : Cfg) (w : World) (ms : RefineMulti.MSpec) (h : RefineMulti.MRel w ms)
    (v k : Nat) (typed : Bool) (a : RefineMulti.AVec) (hv : ms.vecs[v]? = some (some a))
    (hroom : a.items.length + k ≤ a.cap) :
    RefineMulti.MRel (World.step cfg (.setLenSpare v k typed) w).1
        ⟨ms.vecs.set v (some { a with items := a.items ++ List.range' ms.next k }), ms.next + k⟩ ∧
      (World.step cfg (.setLenSpare v k typed) w).2 = .ok [] ∧
      (World.step cfg (.setLenSpare v k typed) w).1.dropLog = w.dropLog :=
  RefineMulti.set_len_refines cfg w ms h v k typed a hv hroom

end C12
end AnyVec
