/-
  C15 — Send/Sync/Clone constraints are enforced on elements and mirrored by handles.
  Finite decision tables: `decide` over *all* environments is a proof. The tables are the model
  (`Static/SendSync.lean`); `bin/check C15` compares every row with the real compiler's verdict on the
  full grid (8 constraint sets x 8 backends x every public type x {Send, Sync}, typed views x 4 element
  classes, constructors x element classes, clone / capacity API availability).
-/
import AnyVecModel.Static.SendSync
namespace AnyVec
namespace C15
open Static

def bools : List Bool := [false, true]

def allEnv : List Env :=
  bools.flatMap fun a => bools.flatMap fun b => bools.flatMap fun c => bools.flatMap fun d =>
  bools.flatMap fun e => bools.flatMap fun f => bools.map fun g => ⟨a, b, c, d, e, f, g⟩

theorem allEnv_complete (e : Env) : e ∈ allEnv := by
  obtain ⟨a, b, c, d, e', f, g⟩ := e
  cases a <;> cases b <;> cases c <;> cases d <;> cases e' <;> cases f <;> cases g <;> decide

def allTEnv : List TEnv :=
  bools.flatMap fun a => bools.flatMap fun b => bools.flatMap fun c => bools.flatMap fun d =>
  bools.flatMap fun e => bools.map fun f => ⟨a, b, c, d, e, f⟩

theorem allTEnv_complete (t : TEnv) : t ∈ allTEnv := by
  obtain ⟨a, b, c, d, e, f⟩ := t
  cases a <;> cases b <;> cases c <;> cases d <;> cases e <;> cases f <;> decide

/-- a vector is `Send` (`Sync`) exactly when its declared constraint set includes `Send` (`Sync`) and
its backend — builder and memory — is `Send` (`Sync`) -/
theorem vec_send_sync_iff (e : Env) :
    (vecSend e = true ↔ e.setSend = true ∧ e.bSend = true ∧ e.mSend = true) ∧
    (vecSync e = true ↔ e.setSync = true ∧ e.bSync = true ∧ e.mSync = true) := by
  simp [vecSend, vecSync, Bool.and_eq_true, and_assoc]

def handlesSoundAt (e : Env) (h : H) : Bool :=
  (!hSend h e || (if h.kind = .shared then vecSync e else vecSend e)) && (!hSync h e || vecSync e)

/-- **every view, handle and iterator of an erased vector** can be sent to another thread only when the
corresponding kind of reference to the vector could (shared handle: `&AnyVec: Send`, i.e. the vector
is `Sync`; exclusive handle: `&mut AnyVec: Send`, i.e. the vector is `Send`) and shared with another
thread only when the vector is `Sync` — in all 128 environments, for all 10 handle types. -/
theorem handles_sound (e : Env) (h : H) :
    (hSend h e = true → (h.kind = .shared → vecSync e = true) ∧ (h.kind = .exclusive → vecSend e = true)) ∧
    (hSync h e = true → vecSync e = true) := by
  have key : ∀ e ∈ allEnv, ∀ h ∈ H.all, handlesSoundAt e h = true := by decide +kernel
  have hh : h ∈ H.all := by cases h <;> decide
  have := key e (allEnv_complete e) h hh
  simp only [handlesSoundAt, Bool.and_eq_true, Bool.or_eq_true, Bool.not_eq_true'] at this
  obtain ⟨h1, h2⟩ := this
  constructor
  · intro hs
    rcases h1 with h1 | h1
    · rw [hs] at h1; cases h1
    · constructor
      · intro hk; simpa [hk] using h1
      · intro hk; simpa [hk] using h1
  · intro hs
    rcases h2 with h2 | h2
    · rw [hs] at h2; cases h2
    · exact h2

def typedSoundAt (t : TEnv) (h : TH) : Bool :=
  (!thSend h t || (if h.kind = .shared then typedSync t else typedSend t)) && (!thSync h t || typedSync t)

/-- the same for the typed views (`AnyVecRef` shared; `AnyVecMut`, `AnyVecTyped` exclusive), in terms
of the element type's and the backend's auto traits -/
theorem typed_views_sound (t : TEnv) (h : TH) :
    (thSend h t = true → (h.kind = .shared → typedSync t = true) ∧ (h.kind = .exclusive → typedSend t = true)) ∧
    (thSync h t = true → typedSync t = true) := by
  have key : ∀ t ∈ allTEnv, ∀ h ∈ TH.all, typedSoundAt t h = true := by decide +kernel
  have hh : h ∈ TH.all := by cases h <;> decide
  have := key t (allTEnv_complete t) h hh
  simp only [typedSoundAt, Bool.and_eq_true, Bool.or_eq_true, Bool.not_eq_true'] at this
  obtain ⟨h1, h2⟩ := this
  constructor
  · intro hs
    rcases h1 with h1 | h1
    · rw [hs] at h1; cases h1
    · constructor
      · intro hk; simpa [hk] using h1
      · intro hk; simpa [hk] using h1
  · intro hs
    rcases h2 with h2 | h2
    · rw [hs] at h2; cases h2
    · exact h2

/-- an element type lacking a declared constraint is rejected by the constructors, and only then -/
theorem ctor_iff (s y c : Bool) (t : Elem) :
    ctorOk s y c t = true ↔ (s = true → t.send = true) ∧ (y = true → t.sync = true) ∧ (c = true → t.clone = true) := by
  cases s <;> cases y <;> cases c <;> simp [ctorOk, and_assoc]

/-- `clone()` exists only with `Cloneable`; the capacity API only on the resizable backend -/
theorem clone_only_with_cloneable (c : Bool) : cloneAvailable c = true ↔ c = true := by simp [cloneAvailable]
theorem capacity_api_only_heap (b : Bk) : capacityApi b = true ↔ b = .heap := by cases b <;> simp [capacityApi]

/-! non-vacuity: environments in which a handle is / is not `Send` -/
example : hSend .elementRef ⟨true, false, false, true, true, true, true⟩ = false ∧
          hSend .elementMut ⟨true, false, false, true, true, true, true⟩ = true ∧
          hSend .elementRef ⟨true, true, false, true, true, true, true⟩ = true := by decide

end C15
end AnyVec
