/-
  C17 — decomposing a vector into raw parts and rebuilding it is lossless.
-/
import AnyVecModel.Proofs.Exec
import AnyVecModel.Proofs.KernelRawParts
import AnyVecModel.Proofs.KernelMemAccess
import AnyVecModel.Props.RefineMulti
namespace AnyVec
namespace C17
open World

/-- `into_raw_parts` reports the vector's true length, capacity, element layout, type id and
drop / clone functions -/
theorem into_reports_true_fields (v : VecSt) :
    v.intoRawParts.len = v.len ∧ v.intoRawParts.capacity = v.cap ∧ v.intoRawParts.size = v.size ∧
    v.intoRawParts.align = v.align ∧ v.intoRawParts.ty = v.ty ∧ v.intoRawParts.hasDrop = v.hasDrop ∧
    v.intoRawParts.cloneable = v.cloneable := ⟨rfl, rfl, rfl, rfl, rfl, rfl, rfl⟩

/-- a field-wise clone of the parts reports the same values (every field maps to itself) -/
theorem clone_is_identity (p : VecSt.RawParts) : p.clone = p := by
  cases p; rfl

/-- **round trip**: `from_raw_parts(into_raw_parts(v))` *is* `v` — the same model state, hence
indistinguishable under every further operation (all of them are functions of the state). -/
theorem round_trip (v : VecSt) (hl : v.live = true) : VecSt.fromRawParts v.intoRawParts = v := by
  cases v; simp_all [VecSt.fromRawParts, VecSt.intoRawParts]

/-- also through a cloned set of parts -/
theorem round_trip_clone (v : VecSt) (hl : v.live = true) : VecSt.fromRawParts v.intoRawParts.clone = v := by
  rw [clone_is_identity, round_trip v hl]

/-- the whole operation on a world: nothing is destroyed, cloned, allocated or released, and the
world afterwards is the world before -/
theorem rawrt_is_noop (cfg : Cfg) (w : World) (v : Nat) (d : VecSt)
    (hv : w.vecs[v]? = some d) (hl : d.live = true)
    (hbk : d.bk = .heap ∨ d.bk = .empty ∨ d.bk = .reloc) :
    step cfg (.rawrt v) w = (w, .ok []) := by
  have hlt : v < w.vecs.length := (List.getElem?_eq_some_iff.mp hv).1
  have hd : w.vecs[v] = d := (List.getElem?_eq_some_iff.mp hv).2
  have hset : w.vecs.set v d = w.vecs := by
    apply List.ext_getElem?; intro m
    by_cases hm : v = m
    · subst hm; simp [List.getElem?_set, hv, hlt, hd]
    · simp [List.getElem?_set, hm]
  rcases hbk with h | h | h <;>
  · simp only [step, WM.bind_apply, getVec_ok w v d hv hl, h, World.setVec_apply, round_trip d hl, WM.pure_apply]
    simp [World.upd, hset]

/-! non-vacuity -/
def sampleVec : VecSt :=
  { ty := 3, size := 8, align := 8, hasDrop := true, cloneable := true, bk := .heap, cap := 4,
    cells := [.val 10, .val 11], len := 2, gen := 5, live := true }
example : sampleVec.intoRawParts.clone.len = 2 ∧ sampleVec.intoRawParts.clone.capacity = 4 := by decide

/-- **source tie**: decomposition and reconstruction as the source has them on this run (field tables re-translated from
`/repo/src/any_vec.rs` and `/repo/src/mem/heap.rs`): `into_raw_parts` runs no destructor (`ManuallyDrop`) and reads
capacity, handle and layout off the storage and `len`, type id, destructor and clone function off the vector;
`from_raw_parts` hands handle, layout and **capacity** back to the storage and restores the rest; `RawParts::clone`
copies every field; the model's round trip is the identity. -/
theorem raw_parts_are_the_source (v : VecSt) (hl : v.live = true) :
    (Gen.Kernel.anyvec_from_raw_parts_fields =
      [("raw.mem_builder", "raw_parts.mem_builder"),
       ("raw.mem", "MemRawParts::from_raw_parts(raw_parts.mem_handle,raw_parts.element_layout,raw_parts.capacity)"),
       ("raw.len", "raw_parts.len"), ("raw.type_id", "raw_parts.element_typeid"),
       ("raw.drop_fn", "raw_parts.element_drop"), ("clone_fn", "<Traits as CloneType>::new(raw_parts.element_clone)"),
       ("phantom", "PhantomData")] ∧
     Gen.Kernel.heapmem_from_raw_parts_fields = [("mem", "handle"), ("size", "size"), ("element_layout", "element_layout")] ∧
     Gen.Kernel.heapmem_into_raw_parts_text =
       "let this = ManuallyDrop :: new ( self ) ; ( this . mem , this . element_layout , this . size )") ∧
    VecSt.fromRawParts v.intoRawParts = v ∧ VecSt.fromRawParts v.intoRawParts.clone = v ∧
    v.intoRawParts.capacity = v.cap ∧ v.intoRawParts.len = v.len :=
  ⟨⟨KernelTie.raw_parts_tie.2.1, KernelTie.raw_parts_tie.2.2.2.1, KernelTie.raw_parts_tie.2.2.2.2.2⟩,
   KernelTie.raw_parts_model v hl⟩

/-- the remaining tables of the tie (`into_raw_parts` of the vector, `RawParts::clone`, `Heap::build`) -/
theorem raw_parts_tables_are_the_source :
    Gen.Kernel.anyvec_into_raw_parts_fields.length = 12 ∧ Gen.Kernel.raw_parts_clone_fields.length = 8 ∧
    Gen.Kernel.heap_build_fields = [("mem", "dangling(&element_layout)"), ("size", "0"), ("element_layout", "element_layout")] :=
  ⟨by rw [KernelTie.raw_parts_tie.1]; rfl, by rw [KernelTie.raw_parts_tie.2.2.1]; rfl, KernelTie.raw_parts_tie.2.2.2.2.1⟩

/-- **source tie**: the capacity-less backend decomposes into `((), layout, 0)` and is rebuilt from the layout alone, and
the heap storage reports the `size` field that `from_raw_parts` stored (`/repo/src/mem/{empty,heap}.rs`, read on this
run) - so the capacity that comes back from a round trip is the capacity that went in. -/
theorem backend_raw_parts_are_the_source :
    Gen.Kernel.empty_mem_accessors.lookup "into_raw_parts" = some "( ( ) , self . element_layout , 0 )" ∧
    Gen.Kernel.empty_mem_accessors.lookup "from_raw_parts" = some "debug_assert! ( size == 0 ) ; Self { element_layout }" ∧
    Gen.Kernel.empty_mem_accessors.lookup "build" = some "EmptyMem { element_layout }" ∧
    Gen.Kernel.heap_mem_accessors.lookup "size" = some "self . size" ∧
    Gen.Kernel.heap_mem_accessors.lookup "element_layout" = some "self . element_layout" := by
  obtain ⟨h1, _, _, h4, _⟩ := KernelTie.mem_accessors_tie
  rw [h1, h4]
  exact ⟨rfl, rfl, rfl, rfl, rfl⟩

/-! ### against the abstract state of all vectors (Props/RefineMulti.lean) -/

/-- **decomposing into raw parts and rebuilding is invisible to the abstract machine**: in any world that shows an
abstract state of all its vectors, `from_raw_parts(into_raw_parts(v))` on a live vector of a raw-parts backend leaves a
world that shows the *same* abstract state - same items, same capacity, same everything - so any life-cycle script may be
interleaved with such round trips without changing what it refines to. -/
theorem round_trip_keeps_the_abstract_state (cfg : Cfg) (w : World) (ms : RefineMulti.MSpec) (h : RefineMulti.MRel w ms)
    (v : Nat) (d : VecSt) (hv : w.vecs[v]? = some d) (hl : d.live = true)
    (hbk : d.bk = .heap ∨ d.bk = .empty ∨ d.bk = .reloc) :
    RefineMulti.MRel (World.step cfg (.rawrt v) w).1 ms ∧ (World.step cfg (.rawrt v) w).2 = .ok [] := by
  rw [rawrt_is_noop cfg w v d hv hl hbk]
  exact ⟨h, rfl⟩

end C17
end AnyVec
