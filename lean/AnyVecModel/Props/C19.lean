/-
  C19 — without the `alloc` feature the crate is heap-free and fully functional.
  `Gen.Cfg.table` is regenerated from /repo/src on every run: one row per top-level item with whether
  it mentions the `alloc` crate / the heap backend and whether it is under `cfg(feature = "alloc")`
  (directly, or through the `mod` declaration of its file). The behavioural half needs no theorem of
  its own: the model has no feature switch, so the C01/C02/C11 theorems speak about both builds once
  each build corresponds to the model (checked by `bin/check C19` on the stack-only scripts).
-/
import AnyVecModel.Gen.Cfg
namespace AnyVec
namespace C19
open Gen.Cfg

/-- every item that uses the `alloc` crate or names the heap backend is gated by the feature -/
theorem alloc_items_are_gated :
    (table.all fun it => !it.usesAlloc || (it.gated && !it.notAlloc)) = true := by
  decide +kernel

/-- the default backend alias exists in both configurations (one arm per configuration) -/
theorem default_backend_has_both_arms :
    (table.any fun it => it.gated && it.defaultAlias) = true ∧
    (table.any fun it => it.notAlloc && it.defaultAlias && !it.usesAlloc) = true := by
  decide +kernel

/-- the heap backend is part of the default feature set (so default builds keep `mem::Heap`) -/
theorem default_features_include_alloc : defaultFeatureHasAlloc = true := by decide

/-- non-vacuity: the table does contain gated alloc-using items -/
example : (table.countP (·.usesAlloc)) ≥ 3 := by decide +kernel

end C19
end AnyVec
