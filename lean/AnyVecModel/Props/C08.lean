/-
  C08 — cloning yields an equal, fully independent vector on every backend.
-/
import AnyVecModel.Proofs.Exec
import AnyVecModel.Proofs.ExecClone
import AnyVecModel.Props.Hist
import AnyVecModel.Props.Refine
import AnyVecModel.Props.RefineMulti
import AnyVecModel.Proofs.KernelClone
import AnyVecModel.Proofs.KernelDelegConstruct
namespace AnyVec
namespace C08
open World

/-- the clone events of slots `[i, i+k)` of `s`, oldest first: element `j` is cloned into identity `c + j` -/
abbrev cloneEvents := AnyVec.cloneEvents

/-- the clone loop without an injected fault: element by element, each source element is cloned
exactly once, in order; the clones get the next fresh identities and land in the same slots of the
destination; the source vector is only read. -/
theorem cloneLoop_nofault (w : World) (src dst : Nat) (s n : VecSt) (i k : Nat) (hsd : src ≠ dst)
    (hs : w.vecs[src]? = some s) (hsl : s.live = true) (hscap : i + k ≤ s.cap) (hsinit : s.InitRange i k)
    (hn : w.vecs[dst]? = some n) (hnl : n.live = true) (hncap : i + k ≤ n.cap) (hf : w.fault = none) :
    ∃ n', cloneLoop src dst i k w =
        ({ w with vecs := w.vecs.set dst n', created := w.created + k,
                  ev := (cloneEvents s i k w.created).reverse ++ w.ev }, .ok ()) ∧
      n'.len = n.len ∧ n'.cap = n.cap ∧ n'.live = true ∧ n'.ty = n.ty ∧ n'.bk = n.bk ∧ n'.cloneable = n.cloneable ∧
      n.cells.length ≤ n'.cells.length ∧
      (∀ j, j < i → n'.cells.get j = n.cells.get j) ∧
      (∀ j, j < k → n'.cells.get (i + j) = .val (w.created + j)) :=
  AnyVec.cloneLoop_nofault w src dst s n i k hsd hs hsl hscap hsinit hn hnl hncap hf

/-! non-vacuity -/
def v0 : VecSt :=
  { ty := 0, size := 8, align := 8, hasDrop := true, cloneable := true, bk := .heap, cap := 4,
    cells := [.val 10, .val 11], len := 2, gen := 0, live := true }
def sampleWorld : World := { vecs := [v0], created := 12 }
example : (cloneVec 0 sampleWorld).1.vis 1 = [.val 12, .val 13] ∧ (cloneVec 0 sampleWorld).1.vis 0 = [.val 10, .val 11] ∧
    (cloneVec 0 sampleWorld).1.ev = [.clone 11 13, .clone 10 12, .alloc 16 8] := by decide

/-! ### over whole histories -/

/-- **history theorem**: from every reachable world, `clone()` of a live `Cloneable` vector — with a
panic injected at any user-code call (any element's `Clone`) — keeps the world invariant: the clone's
elements are fresh identities in separately owned storage (distinct from every element of every
other vector, held value or destroyed value), the source is untouched, and when a `Clone` panics the
half-built vector is released without destroying anything twice; memory is never faulted. -/
theorem history_clone_core (cfg : Cfg) (w : World) (hr : Hist.Reach cfg w) (v : Nat) (f : Option Nat)
    (hv : Hist.liveCloneable w.vecs v) :
    (runStep cfg (.clone v) f w).1.Inv ∧ (runStep cfg (.clone v) f w).2.notUb :=
  Hist.runStep_inv cfg (.clone v) f w (Hist.reach_inv_core cfg w hr) trivial hv

/-! ### tie to the source text -/

/-- **source tie**: the model's `clone()` is `AnyVecRaw::clone` of `/repo/src/any_vec_raw.rs` as re-translated on this
run: `clone_empty()`, `reserve(len)`, the clone function over `[0, len)` from the source's storage into the new
one's, and only then `len := self.len` (so a panicking `T::clone` leaves a vector of length 0 to be dropped);
`clone_fn::<T>` (`/repo/src/clone_type.rs`) is one `T::clone` per element in increasing order; the cloning
constructors take `type_id`, `drop_fn` and `clone_fn` from the source, `len: 0`, and the storage from the target
`MemBuilder`. -/
theorem clone_is_the_source (w : World) (v : Nat) (x : VecSt) (hv : w.vecs[v]? = some x) (hl : x.live = true)
    (hc : x.cloneable = true) (n : Nat) :
    cloneVec v w =
      (match Gen.Kernel.clone_cmds x.len with
       | .cloneEmpty :: rest => do
         let idx ← cloneEmptyIn v x.bk
         WM.onUnwind (KernelTie.runCmds { v := idx, src := v } rest) (do setLen idx 0; dropVec idx)
         pure []
       | _ => WM.ub "kernel: clone does not start with clone_empty()" : WM Out) w ∧
    Gen.Kernel.clone_fn_cmds n = [.cloneEach 0 0 n] ∧
    Gen.Kernel.raw_clone_empty_in_fields =
      [("let mem", "mem_builder.build(self.element_layout())"), ("mem_builder", "mem_builder"), ("mem", "mem"),
       ("len", "0"), ("type_id", "self.type_id"), ("drop_fn", "self.drop_fn")] ∧
    Gen.Kernel.anyvec_clone_empty_in_fields =
      [("raw", "self.raw.clone_empty_in(mem_builder)"), ("clone_fn", "self.clone_fn"), ("phantom", "PhantomData")] ∧
    Gen.Kernel.anyvec_clone_empty_fields =
      [("raw", "self.raw.clone_empty()"), ("clone_fn", "self.clone_fn"), ("phantom", "PhantomData")] ∧
    Gen.Kernel.anyvec_clone_fields =
      [("raw", "self.raw.clone(self.clone_fn())"), ("clone_fn", "self.clone_fn"), ("phantom", "PhantomData")] :=
  ⟨KernelTie.clone_tie w v x hv hl hc, KernelTie.clone_fn_tie n, KernelTie.clone_fields_tie.1,
   KernelTie.clone_fields_tie.2.2.2.1, KernelTie.clone_fields_tie.2.2.1, KernelTie.clone_fields_tie.2.2.2.2⟩

/-- … and what the model's `clone_empty_in` builds from that: a fresh, empty, live vector with the element type,
layout, destructor and clone function of the source and the capacity the target backend builds -/
theorem clone_empty_in_model (w : World) (v : Nat) (bk : Backend) (x : VecSt) (cap : Nat)
    (hv : w.vecs[v]? = some x) (hl : x.live = true) (hb : VecSt.buildCap bk x.size x.align = .ok cap) :
    ∃ w', cloneEmptyIn v bk w = (w', .ok w.vecs.length) ∧
      w'.vecs = w.vecs ++ [{ x with bk := bk, cap := cap, cells := [], len := 0, gen := 0, live := true }] :=
  KernelTie.cloneEmptyIn_model w v bk x cap hv hl hb

/-- **source tie**: construction records the clone function of `T` under the requested traits and builds the storage for `Layout::new::<T>()` (with `build_with_size` for `with_capacity`) - as the source has them on this run. -/
theorem construction_is_the_source (len : Nat) (index : Nat) :
    Gen.Kernel.anyvec_new_trace len index = [.call "Default::default" [], .call "Self::new_in" []] ∧
    Gen.Kernel.anyvec_new_in_trace len index = [.call "Layout::new" [], .call "build" [], .call "AnyVecRaw::new" [], .call "Self::build" []] ∧
    Gen.Kernel.anyvec_with_capacity_trace len index = [.call "Default::default" [], .call "Self::with_capacity_in" [index]] ∧
    Gen.Kernel.anyvec_with_capacity_in_trace len index = [.call "Layout::new" [], .call "build_with_size" [index], .call "AnyVecRaw::new" [], .call "Self::build" []] ∧
    Gen.Kernel.anyvec_build_trace len index = [.call "<Traits as CloneType>::new" []] ∧
    Gen.Kernel.anyvec_element_typeid_trace len index = [.call "= self.raw.type_id" []] ∧
    Gen.Kernel.anyvec_element_layout_trace len index = [.call "element_layout" []] ∧
    Gen.Kernel.anyvec_element_drop_trace len index = [.call "= self.raw.drop_fn" []] ∧
    Gen.Kernel.anyvec_element_clone_trace len index = [.call "clone_fn" []] ∧
    Gen.Kernel.raw_element_layout_trace len index = [.call "element_layout" []] :=
  KernelTie.deleg_construct_tie len index

/-! ### independence over whole histories (Props/Refine.lean) -/

/-- **a vector and its clone (any two vectors) stay independent through every history**: if vector `u` - say the clone
just made - shows an abstract vector, then after any sequence of element-wise, range and capacity operations on another
vector `v` - say the original - it still shows the same items at the same capacity, and its storage state is literally
unchanged (`Refine.history_frame`); only the counter fresh identities come from has advanced. -/
theorem vectors_stay_independent {bg bg' : Nat → Option VecSt} (cfg : Cfg) (v ty : Nat) (ops : List Refine.VOp) (w : World)
    (s : Refine.Spec) (h : Refine.Rel bg v ty w s) (hall : ∀ op ∈ ops, op.Allowed s.fixed) (u tu : Nat) (su : Refine.Spec)
    (hu : u ≠ v) (hrelu : Refine.Rel bg' u tu w su) :
    (Refine.runOps cfg v ty w ops).vecs[u]? = w.vecs[u]? ∧
    ∃ s', Refine.Spec.Steps s ops s' ∧
      Refine.Rel (fun x => (Refine.runOps cfg v ty w ops).vecs[x]?) u tu (Refine.runOps cfg v ty w ops)
        { su with next := s'.next } :=
  ⟨Refine.history_frame cfg v ty ops w s h hall u hu, Refine.other_vector_keeps cfg v ty ops w s h hall u tu su hu hrelu⟩

/-! ### `clone()` against the abstract state of all vectors (Props/RefineMulti.lean) -/

/-- **`clone()` refines the abstract vectors**: in any world that shows an abstract state of all its vectors (every
fault-free reachable world does, `RefineMulti.mrel_of_reach`), cloning a live `Cloneable` vector that shows the items `a`
leads to a world that shows the same state plus one new last vector holding `a.items.length` fresh identities - the
clones, made in order - of the same element type, on the same kind of storage, at a capacity that holds them
(`CloneStep.cloned`); every other component, the source included, is unchanged. The two alternatives are the storage's:
it cannot be built (nothing happens) or the room cannot be reserved (the new, empty vector is dropped again). -/
theorem clone_refines (cfg : Cfg) (w : World) (ms : RefineMulti.MSpec) (h : RefineMulti.MRel w ms) (v : Nat)
    (a : RefineMulti.AVec) (hv : ms.vecs[v]? = some (some a)) (hcl : a.cloneable = true) :
    ∃ ms', RefineMulti.CloneStep ms a ms' ∧ RefineMulti.MRel (World.step cfg (.clone v) w).1 ms' ∧
      (World.step cfg (.clone v) w).2.notUb :=
  RefineMulti.clone_refines cfg w ms h v a hv hcl

/-- **`clone_empty()` / `clone_empty_in(..)` make an empty vector for the same elements and clone nothing**: in any
world that shows an abstract state of all its vectors, `clone_empty_in` of a live vector leads to a world that shows the
same state plus one new last vector - empty, of the source's element type and trait set (so `Cloneable` is inherited and
a later `clone()` of it type-checks exactly when one of the source does), on the requested storage at the capacity that
storage starts with for the source's element layout; the identity counter does not move (no clone was made) and every
other component, the source included, is unchanged. Or the storage cannot be built for this layout: a panic, no change. -/
theorem clone_empty_in_refines (cfg : Cfg) (w : World) (ms : RefineMulti.MSpec) (h : RefineMulti.MRel w ms) (v : Nat)
    (bk : Backend) (a : RefineMulti.AVec) (hv : ms.vecs[v]? = some (some a)) :
    ∃ d, w.vecs[v]? = some d ∧
    ((∃ cap, VecSt.buildCap bk d.size d.align = .ok cap ∧
        RefineMulti.MRel (World.step cfg (.cloneEmptyIn v bk) w).1
          ⟨ms.vecs ++ [some ⟨a.ty, [], cap, !VecSt.resizable bk, a.cloneable⟩], ms.next⟩ ∧
        (World.step cfg (.cloneEmptyIn v bk) w).2 = .ok []) ∨
     (∃ m, VecSt.buildCap bk d.size d.align = .panic m ∧ RefineMulti.MRel (World.step cfg (.cloneEmptyIn v bk) w).1 ms ∧
        (World.step cfg (.cloneEmptyIn v bk) w).2 = .panic m)) :=
  RefineMulti.clone_empty_in_refines cfg w ms h v bk a hv

/-- the same for `clone_empty()`: the new vector sits on the source's own kind of storage (growable iff the source is) -/
theorem clone_empty_refines (cfg : Cfg) (w : World) (ms : RefineMulti.MSpec) (h : RefineMulti.MRel w ms) (v : Nat)
    (a : RefineMulti.AVec) (hv : ms.vecs[v]? = some (some a)) :
    ∃ d, w.vecs[v]? = some d ∧
    ((∃ cap, VecSt.buildCap d.bk d.size d.align = .ok cap ∧
        RefineMulti.MRel (World.step cfg (.cloneEmpty v) w).1
          ⟨ms.vecs ++ [some ⟨a.ty, [], cap, a.fixed, a.cloneable⟩], ms.next⟩ ∧
        (World.step cfg (.cloneEmpty v) w).2 = .ok []) ∨
     (∃ m, VecSt.buildCap d.bk d.size d.align = .panic m ∧ RefineMulti.MRel (World.step cfg (.cloneEmpty v) w).1 ms ∧
        (World.step cfg (.cloneEmpty v) w).2 = .panic m)) :=
  RefineMulti.clone_empty_refines cfg w ms h v a hv

/-- **… and stays independent**: from a world that shows the abstract vectors - for instance right after a `clone()` -
any history of operations on *any* of the vectors, interleaved in any order, changes each abstract vector only by the
operations addressed to it: the clone never sees what happens to its source and vice versa. -/
theorem vectors_evolve_independently (cfg : Cfg) (ops : List RefineMulti.MOp) (w : World) (ms : RefineMulti.MSpec)
    (h : RefineMulti.MRel w ms)
    (hall : ∀ m ∈ ops, ∃ a, ms.vecs[m.v]? = some (some a) ∧ m.op.Allowed a.fixed) :
    ∃ ms', RefineMulti.MSpec.Steps ms ops ms' ∧ RefineMulti.MRel (RefineMulti.mrun cfg w ops) ms' :=
  RefineMulti.mhistory_refines cfg ops w ms h hall

end C08
end AnyVec
