/-
  C01 — element-wise operations are observationally identical to `std::Vec`.

  Theorems about the model (`AnyVecModel.Model.*`); the model is tied to /repo on every run by
  the differential correspondence of `bin/check C01`.  `vis w v` is what vector `v` shows through
  the API; the right-hand sides are the `List` operations that define `Vec`'s behaviour.
-/
import AnyVecModel.Proofs.Exec
import AnyVecModel.Props.Hist
import AnyVecModel.Proofs.Move
import AnyVecModel.Proofs.KernelInsert
import AnyVecModel.Proofs.KernelPush
import AnyVecModel.Proofs.KernelClear
import AnyVecModel.Proofs.KernelConsume
import AnyVecModel.Proofs.KernelApiOps
import AnyVecModel.Proofs.KernelCopyBytes
import AnyVecModel.Props.Refine
import AnyVecModel.Props.RefineMulti
namespace AnyVec
namespace C01
variable {bg : Nat → Option VecSt}
open World

/-- The erased copy routine (`crate::copy_bytes`) is a memmove whichever of its three branches
runs (bulk copy from 128 bytes up; ascending loop; descending loop) — for every element size,
every source/destination offset (overlapping or not) and every count. -/
theorem copy_bytes_is_memmove (m : Mem) (size src dst n : Nat)
    (hs : src + n ≤ m.length) (hd : dst + n ≤ m.length) :
    copyBytes m size src dst n = memmove m src dst n :=
  copyBytes_eq_memmove m size src dst n hs hd

theorem vis_set_self (w : World) (v : Nat) (x : VecSt) (es : List Event) (h : v < w.vecs.length) :
    ({ w with vecs := w.vecs.set v x, ev := es } : World).vis v = x.abs := by
  simp [World.vis, h]

theorem vis_set_other (w : World) (v u : Nat) (x : VecSt) (es : List Event) (h : v ≠ u) :
    ({ w with vecs := w.vecs.set v x, ev := es } : World).vis u = w.vis u := by
  simp [World.vis, List.getElem?_set, h]

/-- `push` (erased API, owned wrapper or raw pointer, typed or erased copy path) appends the value
and touches nothing else, on every backend on which a slot can be reserved. -/
theorem push_appends (w : World) (dst id : Nat) (x : Val) (hx : x.Plain id) (d d1 : VecSt)
    (es : List Event) (hv : w.vecs[dst]? = some d) (hl : d.live = true) (hwf : d.WF)
    (hr : d.reserveOne = .ok (d1, es)) :
    let r := pushUnchecked dst x w
    r.2 = .ok () ∧ r.1.vis dst = w.vis dst ++ [.val id] ∧ (∀ u, u ≠ dst → r.1.vis u = w.vis u) ∧
      r.1.dropLog = w.dropLog ∧ r.1.held = w.held ∧ r.1.created = w.created := by
  have hlt : dst < w.vecs.length := (List.getElem?_eq_some_iff.mp hv).1
  obtain ⟨_, _, habs, hwf1, _⟩ := reserveOne_spec d d1 es hwf hr
  intro r
  have hr' := pushUnchecked_plain w dst id x hx d d1 es hv hl hwf hr
  rw [show r = _ from hr']
  refine ⟨rfl, ?_, ?_, rfl, rfl, rfl⟩
  · rw [vis_set_self _ _ _ _ hlt, VecSt.pushCell_abs _ _ hwf1, habs]
    simp [World.vis, hv]
  · intro u hu
    exact vis_set_other _ _ _ _ _ (Ne.symm hu)

/-- `insert(i, value)` with `i ≤ len` is `List.insertIdx`, for both copy paths. -/
theorem insert_inserts (w : World) (dst i id : Nat) (x : Val) (hx : x.Plain id) (d d1 : VecSt)
    (es : List Event) (hv : w.vecs[dst]? = some d) (hl : d.live = true) (hwf : d.WF)
    (hi : i ≤ d.len) (hr : d.reserveOne = .ok (d1, es)) :
    let r := insertUnchecked dst i x w
    r.2 = .ok () ∧ r.1.vis dst = (w.vis dst).insertIdx i (.val id) ∧
      (∀ u, u ≠ dst → r.1.vis u = w.vis u) ∧
      r.1.dropLog = w.dropLog ∧ r.1.held = w.held ∧ r.1.created = w.created := by
  have hlt : dst < w.vecs.length := (List.getElem?_eq_some_iff.mp hv).1
  obtain ⟨_, hlen, habs, hwf1, _⟩ := reserveOne_spec d d1 es hwf hr
  intro r
  have hr' := insertUnchecked_plain w dst i id x hx d d1 es hv hl hwf hi hr
  rw [show r = _ from hr']
  refine ⟨rfl, ?_, ?_, rfl, rfl, rfl⟩
  · rw [vis_set_self _ _ _ _ hlt, VecSt.insertAt_abs _ _ _ hwf1 (by omega), habs]
    simp [World.vis, hv]
  · intro u hu
    exact vis_set_other _ _ _ _ _ (Ne.symm hu)

/-- `insert` past the end panics, leaves every vector unchanged, and an owned value that was
offered is destroyed exactly once. -/
theorem insert_out_of_range (w : World) (dst i id ty : Nat) (d : VecSt)
    (hv : w.vecs[dst]? = some d) (hl : d.live = true) (hi : d.len < i) (hf : w.fault = none) :
    let r := insertUnchecked dst i (.wrapper id ty) w
    (∃ m, r.2 = .panic m) ∧ r.1.vecs = w.vecs ∧ r.1.dropLog = id :: w.dropLog ∧ r.1.held = w.held := by
  have hlt : dst < w.vecs.length := (List.getElem?_eq_some_iff.mp hv).1
  have hd : w.vecs[dst] = d := (List.getElem?_eq_some_iff.mp hv).2
  simp [insertUnchecked, getVec, hl, hlt, hd, hi, WM.onUnwind, valDrop, World.dropElem_nofault, hf, logDrop]

/-- `remove(i)` with `i < len`, handle dropped: `List.eraseIdx`, the removed element is the one
destroyed, nothing else changes. -/
theorem remove_erases (cfg : Cfg) (w : World) (v i id : Nat) (d : VecSt)
    (hv : w.vecs[v]? = some d) (hl : d.live = true) (hwf : d.WF) (hi : i < d.len)
    (hc : d.cells.get i = .val id) (hf : w.fault = none) :
    let r := step cfg (.remove v i .drop) w
    r.2 = .ok [] ∧ r.1.vis v = (w.vis v).eraseIdx i ∧ (∀ u, u ≠ v → r.1.vis u = w.vis u) ∧
      r.1.dropLog = id :: w.dropLog ∧ r.1.held = w.held := by
  have hlt : v < w.vecs.length := (List.getElem?_eq_some_iff.mp hv).1
  intro r
  have hr' := remove_drop_exec cfg w v i id d hv hl hwf hi hc hf
  rw [show r = _ from hr']
  have hd : w.vecs[v] = d := (List.getElem?_eq_some_iff.mp hv).2
  refine ⟨rfl, ?_, ?_, rfl, rfl⟩
  · simp [World.vis, hlt, VecSt.removeAt_abs _ _ hwf hi, hd]
  · intro u hu
    simp [World.vis, List.getElem?_set, Ne.symm hu]

/-- `remove(i)` with `i ≥ len` panics before anything changes. -/
theorem remove_out_of_range (cfg : Cfg) (w : World) (v i : Nat) (k : Sink) (d : VecSt)
    (hv : w.vecs[v]? = some d) (hl : d.live = true) (hi : d.len ≤ i) :
    let r := step cfg (.remove v i k) w
    (∃ m, r.2 = .panic m) ∧ r.1.vecs = w.vecs ∧ r.1.dropLog = w.dropLog ∧ r.1.held = w.held := by
  have hlt : v < w.vecs.length := (List.getElem?_eq_some_iff.mp hv).1
  have hd : w.vecs[v] = d := (List.getElem?_eq_some_iff.mp hv).2
  have : ¬ i < d.len := by omega
  simp [step, getVec, hl, hlt, hd, this]

/-- `swap_remove(i)`: slot `i` takes the last element, the vector shrinks by one; the removed
element is the one destroyed. -/
theorem swap_remove_swaps (cfg : Cfg) (w : World) (v i id : Nat) (d : VecSt)
    (hv : w.vecs[v]? = some d) (hl : d.live = true) (hwf : d.WF) (hi : i < d.len)
    (hc : d.cells.get i = .val id) (hf : w.fault = none) :
    let r := step cfg (.swapRemove v i .drop) w
    r.2 = .ok [] ∧
      r.1.vis v = ((w.vis v).set i (d.cells.get (d.len - 1))).take (d.len - 1) ∧
      (∀ u, u ≠ v → r.1.vis u = w.vis u) ∧ r.1.dropLog = id :: w.dropLog ∧ r.1.held = w.held := by
  have hlt : v < w.vecs.length := (List.getElem?_eq_some_iff.mp hv).1
  have hd : w.vecs[v] = d := (List.getElem?_eq_some_iff.mp hv).2
  intro r
  have hr' := swap_remove_drop_exec cfg w v i id d hv hl hwf hi hc hf
  rw [show r = _ from hr']
  refine ⟨rfl, ?_, ?_, rfl, rfl⟩
  · simp [World.vis, hlt, VecSt.swapRemoveAt_abs _ _ hwf hi, hd]
  · intro u hu
    simp [World.vis, List.getElem?_set, Ne.symm hu]

/-- `pop()`: the last element leaves and is the one destroyed; `pop` on an empty vector is `None`
and changes nothing. -/
theorem pop_pops (cfg : Cfg) (w : World) (v id : Nat) (d : VecSt)
    (hv : w.vecs[v]? = some d) (hl : d.live = true) (hwf : d.WF) (hne : d.len ≠ 0)
    (hc : d.cells.get (d.len - 1) = .val id) (hf : w.fault = none) :
    let r := step cfg (.pop v .drop) w
    r.2 = .ok [] ∧ r.1.vis v = (w.vis v).take (d.len - 1) ∧ r.1.dropLog = id :: w.dropLog ∧ r.1.held = w.held := by
  have hlt : v < w.vecs.length := (List.getElem?_eq_some_iff.mp hv).1
  have hd : w.vecs[v] = d := (List.getElem?_eq_some_iff.mp hv).2
  intro r
  have hr' := pop_drop_exec cfg w v id d hv hl hwf hne hc hf
  rw [show r = _ from hr']
  refine ⟨rfl, ?_, rfl, rfl⟩
  simp [World.vis, hlt, hd, VecSt.abs, List.take_take]

theorem pop_empty (cfg : Cfg) (w : World) (v : Nat) (k : Sink) (d : VecSt)
    (hv : w.vecs[v]? = some d) (hl : d.live = true) (he : d.len = 0) :
    step cfg (.pop v k) w = (w, .ok ["N"]) := by
  have hlt : v < w.vecs.length := (List.getElem?_eq_some_iff.mp hv).1
  have hd : w.vecs[v] = d := (List.getElem?_eq_some_iff.mp hv).2
  simp [step, getVec, hl, hlt, hd, he]

/-- `clear()` empties the vector and destroys exactly its elements, in order -/
theorem clear_clears (cfg : Cfg) (w : World) (v : Nat) (d : VecSt)
    (hv : w.vecs[v]? = some d) (hl : d.live = true) (hwf : d.WF) (hinit : d.Init) (hf : w.fault = none) :
    let r := step cfg (.clear v) w
    r.2 = .ok [] ∧ r.1.vis v = [] ∧ r.1.dropLog = d.ids.reverse ++ w.dropLog ∧ r.1.held = w.held := by
  have hlt : v < w.vecs.length := (List.getElem?_eq_some_iff.mp hv).1
  intro r
  rw [show r = _ from clear_exec cfg w v d hv hl hwf hinit hf]
  refine ⟨rfl, ?_, ?_, ?_⟩
  · simp [World.vis, hlt, VecSt.abs]
  · simp [World.logDrops_dropLog]
  · simp

/-- a removed element moved into another vector (`dst.push(src.remove(i))`, fully type-erased, no
intermediate copy): `src` loses exactly that element, `dst` gains exactly it at the end, nothing is
destroyed or cloned, no other vector changes. -/
theorem remove_then_push_moves (cfg : Cfg) (w : World) (src dst i id : Nat) (s d d1 : VecSt) (es : List Event)
    (hsd : src ≠ dst)
    (hs : w.vecs[src]? = some s) (hsl : s.live = true) (hswf : s.WF) (hi : i < s.len)
    (hc : s.cells.get i = .val id)
    (hv : w.vecs[dst]? = some d) (hl : d.live = true) (hwf : d.WF) (hty : s.ty = d.ty)
    (hr : d.reserveOne = .ok (d1, es)) :
    let r := step cfg (.remove src i (.pushTo dst)) w
    r.2 = .ok [] ∧ r.1.vis src = (w.vis src).eraseIdx i ∧ r.1.vis dst = w.vis dst ++ [.val id] ∧
      (∀ u, u ≠ src → u ≠ dst → r.1.vis u = w.vis u) ∧
      r.1.dropLog = w.dropLog ∧ r.1.held = w.held ∧ r.1.created = w.created := by
  have hlt : dst < w.vecs.length := (List.getElem?_eq_some_iff.mp hv).1
  have hslt : src < w.vecs.length := (List.getElem?_eq_some_iff.mp hs).1
  have hsdd : w.vecs[src] = s := (List.getElem?_eq_some_iff.mp hs).2
  have hd : w.vecs[dst] = d := (List.getElem?_eq_some_iff.mp hv).2
  obtain ⟨_, _, habs, hwf1, _⟩ := reserveOne_spec d d1 es hwf hr
  intro r
  rw [show r = _ from remove_push_exec cfg w src dst i id s d d1 es hsd hs hsl hswf hi hc hv hl hwf hty hr]
  refine ⟨rfl, ?_, ?_, ?_, rfl, rfl, rfl⟩
  · simp [World.vis, hslt, VecSt.removeAt_abs _ _ hswf hi, hsdd]
  · simp [World.vis, List.getElem?_set, hsd, hlt, VecSt.pushCell_abs _ _ hwf1, habs, hd]
  · intro u hu1 hu2
    simp [World.vis, List.getElem?_set, Ne.symm hu1, Ne.symm hu2]

/-! non-vacuity: a concrete world meeting the hypotheses -/
def sampleVec : VecSt :=
  { ty := 0, size := 8, align := 8, hasDrop := true, cloneable := true, bk := .heap, cap := 4,
    cells := [.val 10, .val 11, .val 12], len := 3, gen := 0, live := true }
def sampleWorld : World := { vecs := [sampleVec], created := 13 }

example : sampleWorld.vecs[0]? = some sampleVec ∧ sampleVec.live = true ∧ sampleVec.WF ∧
    (1 : Nat) < sampleVec.len ∧ sampleVec.cells.get 1 = .val 11 ∧ sampleWorld.fault = none ∧
    sampleVec.reserveOne = .ok (sampleVec, []) := by decide
example : (step { size := 8, align := 8, hasDrop := true } (.remove 0 1 .drop) sampleWorld).1.vis 0
    = [.val 10, .val 12] := by decide
example : (insertUnchecked 0 1 (.raw 99 0) sampleWorld).1.vis 0
    = [.val 10, .val 99, .val 11, .val 12] := by decide

/-! ### over whole histories -/

/-- **history theorem**: every elementwise operation of the core set — `push`/`insert` (erased and
typed), `pop`/`remove`/`swap_remove` with the handle dropped, forgotten, downcast, or moved into another
vector by `push`/`insert`, `clear` — run from any reachable world under any fault state leaves every
vector well formed and fully initialised and every element in exactly one place, and never faults on
memory; the step-level theorems above give the exact contents on the fault-free paths. -/
theorem history_elementwise_core (cfg : Cfg) (w : World) (hr : Hist.Reach cfg w) (op : Op) (f : Option Nat)
    (hc : Hist.Core op) (hv : Hist.Valid w.vecs op) :
    (runStep cfg op f w).1.Inv ∧ (runStep cfg op f w).2.notUb :=
  Hist.runStep_inv cfg op f w (Hist.reach_inv_core cfg w hr) hc hv

/-! ### tie to the source text: the element-moving functions -/

/-- **source tie**: the model's `insert_unchecked`, `push_unchecked` and `clear` are the execution, in program order,
of the memory commands those functions of `/repo/src/any_vec_raw.rs` issue, as re-translated on this run
(`Gen/Kernel.lean`): the index assert, `reserve_one`, `len := index` *before* the shift, the shift of `len - index`
slots from `index` to `index + 1` (typed `ptr::copy` / erased `copy_bytes`), `move_into(index)`, `len := len + 1`;
`len := 0` before the erased destructor runs over the old length. -/
theorem element_moves_are_the_source (cfg : Cfg) (w : World) (dst index : Nat) (x : Val) (d : VecSt)
    (hv : w.vecs[dst]? = some d) (hl : d.live = true) :
    insertUnchecked dst index x w =
      KernelTie.runCmds (KernelTie.valCtx dst x d.hasDrop)
        (Gen.Kernel.insert_unchecked_cmds d.len index (valKnownType x)) w ∧
    (KernelTie.Val.borrows x ≠ some dst →
      pushUnchecked dst x w =
        KernelTie.runCmds (KernelTie.valCtx dst x d.hasDrop) (Gen.Kernel.push_unchecked_cmds d.len (valKnownType x)) w) ∧
    step cfg (.clear dst) w =
      (do KernelTie.runCmds { v := dst } (Gen.Kernel.clear_cmds d.len d.hasDrop)
          if d.hasDrop then pure () else dropLoop dst false 0 d.len
          pure [] : WM Out) w :=
  ⟨KernelTie.insert_unchecked_tie w dst index x d hv hl, KernelTie.push_unchecked_tie w dst x d hv hl,
   KernelTie.clear_tie cfg w dst d hv hl⟩

/-- **source tie**: what a removal handle does to its vector when its value has left (`Operation::consume` of
`/repo/src/ops/{pop,remove,swap_remove}.rs`, re-translated on this run): nothing for `pop`; for `remove` the shift
of `last_index - index` slots from `index + 1` to `index`, then `len := last_index`; for `swap_remove` the copy of
the last element over the removed slot unless they coincide, then `len := last_index`. -/
theorem consume_is_the_source (w : World) (h : Handle) :
    (h.kind = .pop → hConsume h = KernelTie.runCmds (KernelTie.hCtx h) Gen.Kernel.pop_consume_cmds) ∧
    (∀ i last, h.kind = .remove i last →
      hConsume h = KernelTie.runCmds (KernelTie.hCtx h) (Gen.Kernel.remove_consume_cmds i last h.typed)) ∧
    (∀ s g last, h.kind = .swapRemove s g last →
      hConsume h w = (do let slot ← hSlot h
                         KernelTie.runCmds (KernelTie.hCtx h) (Gen.Kernel.swap_remove_consume_cmds slot last)) w) :=
  ⟨KernelTie.pop_consume_tie h, KernelTie.remove_consume_tie h, fun s g last hk => KernelTie.swap_remove_consume_tie w h s g last hk⟩

/-- **source tie**: the erased and the typed API functions of `/repo/src/any_vec.rs` and `/repo/src/any_vec_typed.rs` make,
on this run, exactly these calls in this order with these integer arguments: the checked `push`/`insert` run
`type_check` before the unchecked operation; `remove`/`swap_remove` (erased and typed) run `index_check(index)` before
the handle is constructed with the same `index`; `pop` answers `None` on `len == 0` without constructing anything;
`drain`/`splice` convert the range against `len` first; the typed functions wrap / unwrap the value around the same
raw operations. An out-of-range removal is refused with the source's message in the unchanged world, and `pop` on an
empty vector is `None` in the unchanged world. -/
theorem api_wrappers_are_the_source (cfg : Cfg) (w : World) (v i : Nat) (k : Sink) (d : VecSt)
    (hv : w.vecs[v]? = some d) (hl : d.live = true) (s e : Nat) :
    (Gen.Kernel.anyvec_push_trace d.len i = [.call "type_check" [], .call "push_unchecked" []] ∧
     Gen.Kernel.anyvec_insert_trace d.len i = [.call "type_check" [], .call "insert_unchecked" [i]] ∧
     Gen.Kernel.anyvec_remove_trace d.len i = [.call "index_check" [i], .call "Remove::new" [i], .call "TempValue::new" []] ∧
     Gen.Kernel.anyvec_swap_remove_trace d.len i =
       [.call "index_check" [i], .call "SwapRemove::new" [i], .call "TempValue::new" []] ∧
     Gen.Kernel.typed_push_trace d.len i = [.call "AnyValueWrapper::new" [], .call "push_unchecked" []] ∧
     Gen.Kernel.typed_insert_trace d.len i = [.call "AnyValueWrapper::new" [], .call "insert_unchecked" [i]] ∧
     Gen.Kernel.typed_remove_trace d.len i =
       [.call "index_check" [i], .call "Remove::new" [i], .call "TempValue::new" [], .call "downcast_unchecked" []] ∧
     Gen.Kernel.typed_swap_remove_trace d.len i =
       [.call "index_check" [i], .call "SwapRemove::new" [i], .call "TempValue::new" [], .call "downcast_unchecked" []] ∧
     Gen.Kernel.anyvec_drain_trace d.len i s e = [.call "into_range" [d.len], .call "Drain::new" [s, e], .call "ops::Iter" []] ∧
     Gen.Kernel.anyvec_clear_trace d.len i = [.call "clear" []] ∧ Gen.Kernel.typed_clear_trace d.len i = [.call "clear" []]) ∧
    (¬ i < d.len → ∃ m, KernelTie.firstPanic (Gen.Kernel.raw_index_check_trace d.len i) = some m ∧
      step cfg (.remove v i k) w = WM.panic m w ∧ step cfg (.swapRemove v i k) w = WM.panic m w ∧
      step cfg (.tremove v i) w = WM.panic m w ∧ step cfg (.tswapRemove v i) w = WM.panic m w) ∧
    (d.len = 0 → step cfg (.pop v k) w = (w, .ok ["N"]) ∧ step cfg (.tpop v) w = (w, .ok ["N"])) := by
  have a := KernelTie.anyvec_ops_tie d.len i s e
  have t := KernelTie.typed_ops_tie d.len i s e
  refine ⟨⟨a.1, a.2.1, a.2.2.2.1, a.2.2.2.2.1, t.1, t.2.1, t.2.2.2.1, t.2.2.2.2.1, a.2.2.2.2.2.1, a.2.2.2.2.2.2.2,
    t.2.2.2.2.2.2.2⟩, ?_, ?_⟩
  · intro hi; exact KernelTie.remove_reject_tie cfg w v i k d hv hl hi
  · intro h0; exact (KernelTie.pop_empty_tie cfg w v k d hv hl h0).2

/-- **source tie**: the model's erased copy routine is `crate::copy_bytes` of `/repo/src/lib.rs` as re-translated on this
run: `ptr::copy` and nothing else from 128 bytes up, otherwise exactly one byte loop - ascending when the destination
is not above the source, descending when it is (the theorem `copy_bytes_is_memmove` above then says that each of these
is a correct overlapping move). -/
theorem copy_bytes_is_the_source (m : Mem) (size src dst n : Nat) :
    copyBytes m size src dst n =
      KernelTie.runB m src dst n (Gen.Kernel.copy_bytes_prog (size * n) (decide (dst ≤ src)) false) :=
  KernelTie.copy_bytes_tie m size src dst n

/-! ### refinement of the abstract vector over whole histories -/

/-- **C01 as a refinement (Props/Refine.lean)**: from any world satisfying the invariant in which vector `v` shows
the items and the capacity of an abstract `Vec` (`Refine.Rel`; every fault-free reachable world does,
`Refine.rel_of_reach`), every sequence - of any length, with any indices and amounts - of erased and typed `push` /
`insert`, of `pop` / `remove` / `swap_remove` whose handle is dropped or (typed) whose value is taken, of `clear`,
`drain(a..b)` dropped unconsumed, `reserve` / `reserve_exact` / `shrink_to_fit` / `shrink_to`, typed `swap(i, j)` and
`*at_mut(i) = value` leads to a world that shows exactly what the abstract vector shows after the same sequence
(`Spec.Steps`: append, `insertIdx`, drop the last, `eraseIdx`, overwrite-with-last and shrink, empty, exchange,
overwrite; out-of-range calls change nothing). The abstract side refuses a value only when the vector is full
(`Spec.Room`: with `len < capacity` nothing is refused and the capacity stays), grows only when full and never on a
fixed storage, and capacity requests never touch the items. -/
theorem history_refines_vec (cfg : Cfg) (v ty : Nat) (ops : List Refine.VOp) (w : World) (s : Refine.Spec)
    (h : Refine.Rel bg v ty w s) (hall : ∀ op ∈ ops, op.Allowed s.fixed) :
    ∃ s', Refine.Spec.Steps s ops s' ∧ Refine.Rel bg v ty (Refine.runOps cfg v ty w ops) s' :=
  Refine.history_refines cfg v ty ops w s h hall

/-- … starting from wherever a history of core operations under arbitrary fault injection has led -/
theorem reachable_worlds_are_related (cfg : Cfg) (w : World) (hr : Hist.Reach cfg w) (hf : w.fault = none) (v : Nat)
    (d : VecSt) (hv : w.vecs[v]? = some d) (hl : d.live = true) :
    ∃ items, Refine.Rel (fun u => w.vecs[u]?) v d.ty w ⟨items, w.created, d.cap, !VecSt.resizable d.bk, d.cloneable⟩ :=
  Refine.rel_of_reach cfg w hr hf v d hv hl

/-- … and touches no other vector: after any history on `v` every other vector of the world is what it was -/
theorem other_vectors_untouched (cfg : Cfg) (v ty : Nat) (ops : List Refine.VOp) (w : World) (s : Refine.Spec)
    (h : Refine.Rel bg v ty w s) (hall : ∀ op ∈ ops, op.Allowed s.fixed) (u : Nat) (hu : u ≠ v) :
    (Refine.runOps cfg v ty w ops).vecs[u]? = w.vecs[u]? :=
  Refine.history_frame cfg v ty ops w s h hall u hu

/-- **C01 from any reachable situation**: any world reachable by any history of core operations under any fault
injection, any live vector in it, any sequence of element-wise / range / capacity operations on it: the sequence behaves
like the same sequence on an abstract `Vec` starting with the items and capacity the vector shows, and no other vector
changes -/
theorem reachable_history_refines (cfg : Cfg) (w : World) (hr : Hist.Reach cfg w) (hf : w.fault = none) (v : Nat)
    (d : VecSt) (hv : w.vecs[v]? = some d) (hl : d.live = true) (ops : List Refine.VOp)
    (hall : ∀ op ∈ ops, op.Allowed (!VecSt.resizable d.bk)) :
    ∃ items s', Refine.Spec.Steps ⟨items, w.created, d.cap, !VecSt.resizable d.bk, d.cloneable⟩ ops s' ∧
      Refine.Rel (fun u => w.vecs[u]?) v d.ty (Refine.runOps cfg v d.ty w ops) s' ∧
      ∀ u, u ≠ v → (Refine.runOps cfg v d.ty w ops).vecs[u]? = w.vecs[u]? :=
  Refine.reachable_history_refines cfg w hr hf v d hv hl ops hall

/-- **C01 for all vectors of a world at once** (Props/RefineMulti.lean): from any fault-free reachable world, any
history of element-wise / range / capacity operations addressed to any of its live vectors in any order refines the list
of abstract `Vec`s component by component, with one shared counter of identities -/
theorem all_vectors_refine (cfg : Cfg) (w : World) (hr : Hist.Reach cfg w) (hf : w.fault = none)
    (ops : List RefineMulti.MOp) :
    ∃ ms, RefineMulti.MRel w ms ∧
      ((∀ m ∈ ops, ∃ a, ms.vecs[m.v]? = some (some a) ∧ m.op.Allowed a.fixed) →
        ∃ ms', RefineMulti.MSpec.Steps ms ops ms' ∧ RefineMulti.MRel (RefineMulti.mrun cfg w ops) ms') := by
  obtain ⟨ms, hrel⟩ := RefineMulti.mrel_of_reach cfg w hr hf
  exact ⟨ms, hrel, fun hall => RefineMulti.mhistory_refines cfg ops w ms hrel hall⟩

/-- **whole life cycles** (Props/RefineMulti.lean): every well-typed script over any number of vectors - `new`, every
operation of the refinement on any of them, `clone()`, `u.push(v.remove(i))`, dropping a vector - refines the abstract
machine `AStep`, from any world that shows an abstract state -/
theorem life_cycles_refine (cfg : Cfg) (ops : List RefineMulti.AOp) (w : World) (ms : RefineMulti.MSpec)
    (h : RefineMulti.MRel w ms) (hsafe : RefineMulti.Safe cfg ms ops) :
    ∃ ms', RefineMulti.ASteps cfg ms ops ms' ∧ RefineMulti.MRel (RefineMulti.arun cfg w ops) ms' :=
  RefineMulti.life_cycles_refine cfg ops w ms h hsafe

/-- … and without any assumption on the script: every script refines the abstract machine up to the first step that is
ill-typed in the abstract state reached (a dropped or missing vector, the same vector twice, an operation its storage
does not have, `clone()` without `Cloneable`) -/
theorem life_cycles_refine_or_stuck (cfg : Cfg) (ops : List RefineMulti.AOp) (w : World) (ms : RefineMulti.MSpec)
    (h : RefineMulti.MRel w ms) :
    (∃ ms', RefineMulti.ASteps cfg ms ops ms' ∧ RefineMulti.MRel (RefineMulti.arun cfg w ops) ms') ∨
    (∃ pre op rest ms1, ops = pre ++ op :: rest ∧ RefineMulti.ASteps cfg ms pre ms1 ∧
      RefineMulti.MRel (RefineMulti.arun cfg w pre) ms1 ∧ ¬ RefineMulti.AOk ms1 op) :=
  RefineMulti.life_cycles_refine_or_stuck cfg ops w ms h

/-- the specification has no slack: away from the capacity boundary (and the `shrink_*` requests, which a storage may
always decline) every operation has exactly one abstract outcome - what `Vec` does -/
theorem abstract_vector_is_deterministic_with_room (s s1 s2 : Refine.Spec) (op : Refine.VOp) (hr : op.Roomy s)
    (h1 : Refine.Spec.Step s op s1) (h2 : Refine.Spec.Step s op s2) : s1 = s2 :=
  Refine.Spec.Step.deterministic s s1 s2 op hr h1 h2

end C01
end AnyVec
