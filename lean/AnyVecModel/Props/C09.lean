/-
  C09 — lazy clones clone exactly when, and as often as, they are consumed.
-/
import AnyVecModel.Proofs.Exec
import AnyVecModel.Proofs.ExecLazy
import AnyVecModel.Props.RefineMulti
import AnyVecModel.Proofs.KernelValue
namespace AnyVec
namespace C09
open World

/-- creating a lazy clone of an element reference runs no user code and changes nothing; a lazy
clone of a lazy clone (any chain depth) is the same value as a lazy clone of the original. -/
theorem create_is_free (cfg : Cfg) (w : World) (v i depth : Nat) (d : VecSt)
    (hv : w.vecs[v]? = some d) (hl : d.live = true) (hi : i < d.len) :
    mkVal cfg (.lazyRef v i depth) w = (w, .ok (.lazyElem v i)) := by
  have hlt : v < w.vecs.length := (List.getElem?_eq_some_iff.mp hv).1
  have hd : w.vecs[v] = d := (List.getElem?_eq_some_iff.mp hv).2
  simp [mkVal, getVec, hl, hlt, hd, hi]

theorem depth_irrelevant (cfg : Cfg) (v i d1 d2 : Nat) :
    mkVal cfg (.lazyRef v i d1) = mkVal cfg (.lazyRef v i d2) := rfl

/-- dropping an unconsumed lazy clone does nothing -/
theorem drop_is_free (hasDrop : Bool) (v i : Nat) (w : World) :
    valDrop hasDrop (.lazyElem v i) w = (w, .ok ()) := rfl

/-- **each consumption clones exactly once**: `push` of a lazy clone of element `id` (slot `i` of
`src`) into another vector runs `Clone` once, on `id`; the clone gets the next fresh identity and
is appended; the source vector, the destructor log and the held values are unchanged. -/
theorem push_lazy_clones_once (w : World) (src dst i id : Nat) (s d d1 : VecSt) (es : List Event)
    (hsd : src ≠ dst)
    (hs : w.vecs[src]? = some s) (hsl : s.live = true) (hswf : s.WF) (hi : i < s.len)
    (hc : s.cells.get i = .val id)
    (hv : w.vecs[dst]? = some d) (hl : d.live = true) (hwf : d.WF) (hty : s.ty = d.ty)
    (hr : d.reserveOne = .ok (d1, es)) (hf : w.fault = none) :
    push dst (.lazyElem src i) w =
      ({ w with vecs := w.vecs.set dst (d1.pushCell (.val w.created)),
                created := w.created + 1,
                ev := Event.clone id w.created :: (es.reverse ++ w.ev) }, .ok ()) :=
  AnyVec.push_lazy_clones_once w src dst i id s d d1 es hsd hs hsl hswf hi hc hv hl hwf hty hr hf

/-- consequently `k` consumptions are `k` clones of the same root: by iterating the theorem above
(the source is unchanged after each push, so its hypotheses hold again). The source stays usable:
its slot still holds `id`. -/
theorem source_unchanged (w : World) (src dst i id : Nat) (s d d1 : VecSt) (es : List Event)
    (hsd : src ≠ dst)
    (hs : w.vecs[src]? = some s) (hsl : s.live = true) (hswf : s.WF) (hi : i < s.len)
    (hc : s.cells.get i = .val id)
    (hv : w.vecs[dst]? = some d) (hl : d.live = true) (hwf : d.WF) (hty : s.ty = d.ty)
    (hr : d.reserveOne = .ok (d1, es)) (hf : w.fault = none) :
    (push dst (.lazyElem src i) w).1.vecs[src]? = some s ∧
    (push dst (.lazyElem src i) w).1.dropLog = w.dropLog ∧
    (push dst (.lazyElem src i) w).1.fault = none := by
  rw [push_lazy_clones_once w src dst i id s d d1 es hsd hs hsl hswf hi hc hv hl hwf hty hr hf]
  refine ⟨?_, rfl, hf⟩
  simp [List.getElem?_set, Ne.symm hsd, hs]

/-! non-vacuity -/
def v0 : VecSt :=
  { ty := 0, size := 8, align := 8, hasDrop := true, cloneable := true, bk := .heap, cap := 4,
    cells := [.val 10, .val 11], len := 2, gen := 0, live := true }
def v1 : VecSt := { v0 with cells := [.val 3], len := 1 }
def sampleWorld : World := { vecs := [v0, v1], created := 12 }
example : (push 1 (.lazyElem 0 1) sampleWorld).1.vis 1 = [.val 3, .val 12] ∧
    (push 1 (.lazyElem 0 1) sampleWorld).1.ev = [.clone 11 12] := by decide

/-- **source tie**: consuming a lazy clone is exactly one `clone_into` of the value it refers to (`LazyClone::move_into`
and `clone_into` of `/repo/src/any_value/lazy_clone.rs`, re-translated on this run) - never a bit copy, and nothing is
forgotten or consumed - whereas plain values and removal handles move by bit copy + `forget` (+ `consume`). -/
theorem lazy_clone_is_the_source (b : Bool) :
    Gen.Kernel.lazy_move_into_trace b = [.call "clone_into" []] ∧
    Gen.Kernel.lazy_clone_into_trace b = [.call "clone_into" []] ∧
    Gen.Kernel.value_move_into_trace b =
      [.call "as_bytes_ptr" [], .call "crate::copy_nonoverlapping_value" [], .call "mem::forget" []] ∧
    Gen.Kernel.temp_move_into_trace b =
      [.call "as_bytes_ptr" [], .call "copy_nonoverlapping_value" [], .call "consume" [], .call "mem::forget" []] := by
  have h := KernelTie.move_into_tie b
  exact ⟨h.2.2.1, h.2.2.2, h.1, h.2.1⟩

/-! ### against the abstract state of all vectors (Props/RefineMulti.lean) -/

/-- **a lazy clone clones exactly when it is consumed, and once**: in any world that shows an abstract state of all its
vectors, `u.push(v.at(i).lazy_clone())` - however often the lazy clone was lazily cloned again before (`dp`) - leads to a
world in which `u` has one more item, a fresh identity (the one clone made), and `v` and every other vector are as they
were; or, when `i` is out of range, the element types differ or `u` has no room, to the same abstract state: creating and
dropping a lazy clone costs nothing and destroys nothing. -/
theorem lazy_clone_clones_once_when_consumed (cfg : Cfg) (w : World) (ms : RefineMulti.MSpec) (h : RefineMulti.MRel w ms)
    (v u i dp : Nat) (hvu : v ≠ u) (a au : RefineMulti.AVec)
    (hv : ms.vecs[v]? = some (some a)) (hu : ms.vecs[u]? = some (some au)) :
    ∃ ms', RefineMulti.LazyStep ms u i a au ms' ∧
      RefineMulti.MRel (World.step cfg (.push u (.lazyRef v i dp)) w).1 ms' ∧
      (World.step cfg (.push u (.lazyRef v i dp)) w).2.notUb :=
  RefineMulti.lazy_push_refines cfg w ms h v u i dp hvu a au hv hu

/-- **… whichever way it is consumed - `insert` at any position, the very end included**: `u.insert(j, v.at(i).lazy_clone())`
leads to a world in which `u` has one more item - a fresh identity, the one clone made - at position `j`, the items from `j`
on moved up by one (`List.insertIdx`), and `v` and every other vector are as they were; or, when `i` or `j` is out of
range, the element types differ or `u` has no room, to the same abstract state. In particular `insert(len, ..)` is not a
plain append of the source's bytes: the item that arrives is never the identity that sits in `v`. -/
theorem lazy_clone_inserted_clones_once (cfg : Cfg) (w : World) (ms : RefineMulti.MSpec) (h : RefineMulti.MRel w ms)
    (v u i j dp : Nat) (hvu : v ≠ u) (a au : RefineMulti.AVec)
    (hv : ms.vecs[v]? = some (some a)) (hu : ms.vecs[u]? = some (some au)) :
    ∃ ms', RefineMulti.LazyInsStep ms u i j a au ms' ∧
      RefineMulti.MRel (World.step cfg (.insert u j (.lazyRef v i dp)) w).1 ms' ∧
      (World.step cfg (.insert u j (.lazyRef v i dp)) w).2.notUb :=
  RefineMulti.lazy_insert_refines cfg w ms h v u i j dp hvu a au hv hu

/-- the inserted item is new: after a successful lazy insert no identity occurs twice among all vectors (so the clone is
not the source element under another name) -/
theorem lazy_insert_makes_a_new_identity (cfg : Cfg) (w : World) (ms : RefineMulti.MSpec) (h : RefineMulti.MRel w ms)
    (v u i j dp : Nat) (hvu : v ≠ u) (a au : RefineMulti.AVec)
    (hv : ms.vecs[v]? = some (some a)) (hu : ms.vecs[u]? = some (some au)) :
    ∃ ms', RefineMulti.LazyInsStep ms u i j a au ms' ∧ ms'.allItems.Nodup ∧ ∀ id ∈ ms'.allItems, id < ms'.next := by
  obtain ⟨ms', hs, hrel, _⟩ := RefineMulti.lazy_insert_refines cfg w ms h v u i j dp hvu a au hv hu
  obtain ⟨hnd, hlt, _, _⟩ := RefineMulti.mrel_unique _ ms' hrel
  exact ⟨ms', hs, hnd, hlt⟩

end C09
end AnyVec
