/-
  C06 — panicking user code cannot corrupt a vector.
  `w.fault = some k` makes the k-th user-code call from now on panic; the theorems below hold for
  *every* value of `w.fault` (no fault, a fault at any position), i.e. at every crash point.
-/
import AnyVecModel.Proofs.Exec
import AnyVecModel.Proofs.KernelCtor
import AnyVecModel.Proofs.KernelInsert
import AnyVecModel.Proofs.KernelClear
import AnyVecModel.Proofs.KernelTempDrop
import AnyVecModel.Proofs.KernelSpliceDrop
import AnyVecModel.Props.Hist
namespace AnyVec
namespace C06
open World

/-- one destructor call under an arbitrary fault state: it is logged exactly once, it returns or
panics (never a memory fault), and touches nothing but the log, the events and the fault counter -/
theorem dropElem_any (hasDrop : Bool) (id : Nat) (w : World) :
    let r := dropElem hasDrop id w
    r.1.dropLog = id :: w.dropLog ∧ r.1.vecs = w.vecs ∧ r.1.held = w.held ∧ r.1.created = w.created ∧
      (r.2 = .ok () ∨ ∃ m, r.2 = .panic m) := by
  cases hasDrop
  · simp [dropElem, logDrop]
  · simp only [dropElem, WM.bind_apply, WM.modify_apply, if_true]
    unfold tick
    cases hfl : w.fault with
    | none => simp [logDrop, hfl]
    | some k =>
      match k with
      | 0 => simp [logDrop, hfl]
      | 1 => simp [logDrop, hfl]
      | k+2 => simp [logDrop, hfl]

/-- the erased destructor loop under an arbitrary fault state: it destroys a *prefix* of the slots
`[i, i+k)` — each element at most once, in order, stopping at the first panic — and touches no vector -/
theorem dropLoop_any (w : World) (v : Nat) (d : VecSt) (hasDrop : Bool) (i k : Nat) (ids : List Nat)
    (hv : w.vecs[v]? = some d) (hl : d.live = true) (hcap : i + k ≤ d.cap)
    (hlen : ids.length = k) (hids : ∀ j, j < k → d.cells.get (i + j) = .val (ids.getD j 0)) :
    let r := dropLoop v hasDrop i k w
    (∃ n, n ≤ k ∧ r.1.dropLog = (ids.take n).reverse ++ w.dropLog) ∧ r.1.vecs = w.vecs ∧
      r.1.held = w.held ∧ r.1.created = w.created ∧ (r.2 = .ok () ∨ ∃ m, r.2 = .panic m) := by
  induction k generalizing i ids w with
  | zero =>
    have : ids = [] := List.length_eq_zero_iff.mp hlen
    subst this
    exact ⟨⟨0, Nat.le_refl _, rfl⟩, rfl, rfl, rfl, Or.inl rfl⟩
  | succ k ih =>
    match ids, hlen with
    | id :: rest, hlen =>
      have hlt : v < w.vecs.length := (List.getElem?_eq_some_iff.mp hv).1
      have hd : w.vecs[v] = d := (List.getElem?_eq_some_iff.mp hv).2
      have h0 := hids 0 (by omega)
      simp at h0
      have hb : i < d.cap := by omega
      obtain ⟨e1, e2, e3, e4, e5⟩ := dropElem_any hasDrop id w
      have hstep : dropLoop v hasDrop i (k + 1) w =
          match dropElem hasDrop id w with
          | (w', .ok _) => dropLoop v hasDrop (i + 1) k w'
          | (w', .panic s) => (w', .panic s)
          | (w', .ub s) => (w', .ub s) := by
        simp [dropLoop, readElem, getVec, hlt, hd, hl, VecSt.readElem_ok, hb, h0]
        cases hde : dropElem hasDrop id w with
        | mk w1 res => cases res <;> rfl
      intro r
      have hr : r = _ := hstep
      rcases e5 with hok | ⟨m, hp⟩
      · -- the destructor returned: continue with the rest
        cases hde : dropElem hasDrop id w with
        | mk w1 res =>
          rw [hde] at e1 e2 e3 e4 hok
          simp only at e1 e2 e3 e4 hok
          subst hok
          rw [hde] at hr
          simp only at hr
          have hrest := ih (w := w1) (i := i + 1) (ids := rest) (by rw [e2]; exact hv) (by omega)
            (by simpa using hlen)
            (by intro j hj
                have := hids (j + 1) (by omega)
                simp at this
                rw [show i + 1 + j = i + (j + 1) by omega]; exact this)
          rw [hr]
          obtain ⟨⟨n, hn, hlog⟩, h2, h3, h4, h5⟩ := hrest
          refine ⟨⟨n + 1, by omega, ?_⟩, by rw [h2, e2], by rw [h3, e3], by rw [h4, e4], h5⟩
          rw [hlog, e1]; simp
      · -- the destructor panicked: the loop stops, one more element is logged
        cases hde : dropElem hasDrop id w with
        | mk w1 res =>
          rw [hde] at e1 e2 e3 e4 hp
          simp only at e1 e2 e3 e4 hp
          subst hp
          rw [hde] at hr
          simp only at hr
          rw [hr]
          exact ⟨⟨1, by omega, by simp [e1]⟩, e2, e3, e4, Or.inr ⟨m, rfl⟩⟩

theorem dropRange_erased (w : World) (v : Nat) (d : VecSt) (s e : Nat)
    (hv : w.vecs[v]? = some d) (hl : d.live = true) :
    dropRange v false s e w = dropLoop v d.hasDrop s (e - s) w := by
  simp only [dropRange, WM.bind_apply, getVec_ok w v d hv hl]
  cases hD : d.hasDrop <;> simp

/-- **`clear()` at every crash point**: whatever the fault state, afterwards the vector is empty
(so no destroyed element is visible), the destroyed elements are a prefix of the old contents, each
destroyed at most once, every other vector and every held value is untouched, and the result is a
normal return or a panic — never a memory fault. The rest of the elements are merely leaked. -/
theorem clear_any_fault (cfg : Cfg) (w : World) (v : Nat) (d : VecSt)
    (hv : w.vecs[v]? = some d) (hl : d.live = true) (hwf : d.WF) (hinit : d.Init) :
    let r := step cfg (.clear v) w
    r.1.vis v = [] ∧ (∃ n, n ≤ d.len ∧ r.1.dropLog = (d.ids.take n).reverse ++ w.dropLog) ∧
      (∀ u, u ≠ v → r.1.vecs[u]? = w.vecs[u]?) ∧ r.1.held = w.held ∧
      ((∃ o, r.2 = .ok o) ∨ ∃ m, r.2 = .panic m) := by
  have hlt : v < w.vecs.length := (List.getElem?_eq_some_iff.mp hv).1
  have hd : w.vecs[v] = d := (List.getElem?_eq_some_iff.mp hv).2
  have hlc := hwf.len_le_cap
  let d0 : VecSt := { d with len := 0 }
  have hv0 : (w.upd v d0).vecs[v]? = some d0 := by simp [hlt]
  have hids : ∀ j, j < d.len → d0.cells.get (0 + j) = .val (d.ids.getD j 0) := by
    intro j hj
    have := VecSt.idsRange_get d 0 d.len j hj hinit
    simpa [d0, VecSt.ids] using this
  have key := dropLoop_any (w.upd v d0) v d0 d.hasDrop 0 d.len d.ids hv0 hl (by simp [d0]; omega) (by simp [VecSt.ids]) hids
  have hstep : step cfg (.clear v) w =
      match dropLoop v d.hasDrop 0 d.len (w.upd v d0) with
      | (w', .ok _) => (w', .ok [])
      | (w', .panic s) => (w', .panic s)
      | (w', .ub s) => (w', .ub s) := by
    simp only [step, WM.bind_apply, getVec_ok w v d hv hl, setLen, World.setVec_apply, WM.pure_apply]
    rw [dropRange_erased (w.upd v d0) v d0 0 d.len hv0 hl]
    simp only [Nat.sub_zero]
    cases hdl : dropLoop v d0.hasDrop 0 d.len (w.upd v d0) with
    | mk w1 res => cases res <;> rfl
  intro r
  have hr : r = _ := hstep
  obtain ⟨⟨n, hn, hlog⟩, h2, h3, h4, h5⟩ := key
  cases hdl : dropLoop v d.hasDrop 0 d.len (w.upd v d0) with
  | mk w1 res =>
    rw [hdl] at hlog h2 h3 h4 h5 hr
    simp only at hlog h2 h3 h4 h5
    have hvis : w1.vis v = [] := by
      simp [World.vis, h2, hlt, d0, VecSt.abs]
    have hoth : ∀ u, u ≠ v → w1.vecs[u]? = w.vecs[u]? := by
      intro u hu; rw [h2]; simp [List.getElem?_set, Ne.symm hu]
    rcases h5 with hok | ⟨m, hp⟩
    · subst hok
      rw [hr]
      exact ⟨hvis, ⟨n, hn, by simpa using hlog⟩, hoth, by simpa using h3, Or.inl ⟨_, rfl⟩⟩
    · subst hp
      rw [hr]
      exact ⟨hvis, ⟨n, hn, by simpa using hlog⟩, hoth, by simpa using h3, Or.inr ⟨_, rfl⟩⟩

/-- `Remove::consume` on any world whose vector `v` is `d0` (with `len` already lowered to `i`) -/
theorem consume_remove (w' : World) (v i last : Nat) (typed : Bool) (d0 : VecSt)
    (hv' : w'.vecs[v]? = some d0) (hl : d0.live = true) (hb2 : i + 1 + (last - i) ≤ d0.cap) (hb3 : i + (last - i) ≤ d0.cap) :
    hConsume { v := v, kind := .remove i last, typed := typed } w' =
      (w'.upd v { d0 with cells := memmove (d0.cells.ensure (max (i + 1 + (last - i)) (i + (last - i)))) (i + 1) i (last - i),
                          len := last }, .ok ()) := by
  have hlt : v < w'.vecs.length := (List.getElem?_eq_some_iff.mp hv').1
  have hd : w'.vecs[v] = d0 := (List.getElem?_eq_some_iff.mp hv').2
  simp [hConsume, moveElems, getVec, hlt, hd, hl, VecSt.moveElems_ok, hb2, hb3, setLen, World.upd]

/-- **`remove(i)` + drop of the handle at every crash point**: whatever the fault state, the removed
element's destructor runs exactly once; if it returns, the vector is `eraseIdx i` of the old one; if
it panics, the vector keeps exactly the elements before `i` (the tail is leaked) — in both cases no
destroyed element stays visible, nothing is duplicated, no other vector or held value is touched. -/
theorem remove_drop_any_fault (cfg : Cfg) (w : World) (v i id : Nat) (d : VecSt)
    (hv : w.vecs[v]? = some d) (hl : d.live = true) (hwf : d.WF) (hi : i < d.len)
    (hc : d.cells.get i = .val id) :
    let r := step cfg (.remove v i .drop) w
    r.1.dropLog = id :: w.dropLog ∧ r.1.held = w.held ∧ (∀ u, u ≠ v → r.1.vecs[u]? = w.vecs[u]?) ∧
      ((r.2 = .ok [] ∧ r.1.vis v = (w.vis v).eraseIdx i) ∨
       ((∃ m, r.2 = .panic m) ∧ r.1.vis v = (w.vis v).take i)) := by
  have hlt : v < w.vecs.length := (List.getElem?_eq_some_iff.mp hv).1
  have hd : w.vecs[v] = d := (List.getElem?_eq_some_iff.mp hv).2
  have h1 := hwf.len_le; have h2 := hwf.cells_le
  have hb1 : i < d.cap := by omega
  let d0 : VecSt := { d with len := i }
  let w0 : World := w.upd v d0
  have hv0 : w0.vecs[v]? = some d0 := by simp [w0, hlt]
  obtain ⟨e1, e2, e3, e4, e5⟩ := dropElem_any d.hasDrop id w0
  have hstep : step cfg (.remove v i .drop) w =
      match dropElem d.hasDrop id w0 with
      | (w', .ok _) => match hConsume { v := v, kind := .remove i (d.len - 1), typed := false } w' with
        | (w'', .ok _) => (w'', .ok [])
        | (w'', .panic s) => (w'', .panic s)
        | (w'', .ub s) => (w'', .ub s)
      | (w', .panic s) => (w', .panic s)
      | (w', .ub s) => (w', .ub s) := by
    simp [step, getVec, hl, hi, hlt, hd, setLen, sinkHandle, hDrop, hSlot, readElem, VecSt.readElem_ok, hb1, hc, w0, d0]
    cases hde : dropElem d.hasDrop id (w.upd v { d with len := i, live := true }) with
    | mk w1 res =>
      cases res with
      | ok _ =>
        simp only
        cases hcs : hConsume { v := v, kind := .remove i (d.len - 1), typed := false } w1 with
        | mk w2 res2 => cases res2 <;> rfl
      | panic _ => rfl
      | ub _ => rfl
  intro r
  have hr : r = _ := hstep
  cases hde : dropElem d.hasDrop id w0 with
  | mk w1 res =>
    rw [hde] at e1 e2 e3 e4 e5 hr
    simp only at e1 e2 e3 e4 e5
    have hv1 : w1.vecs[v]? = some d0 := by rw [e2]; exact hv0
    have hoth : ∀ u, u ≠ v → w1.vecs[u]? = w.vecs[u]? := by
      intro u hu; rw [e2]; simp [w0, List.getElem?_set, Ne.symm hu]
    rcases e5 with hok | ⟨m, hp⟩
    · subst hok
      have hcs := consume_remove w1 v i (d.len - 1) false d0 hv1 hl (by simp [d0]; omega) (by simp [d0]; omega)
      simp only [hcs] at hr
      rw [hr]
      refine ⟨by simpa [w0] using e1, by simpa [w0] using e3, ?_, Or.inl ⟨rfl, ?_⟩⟩
      · intro u hu; simp [List.getElem?_set, Ne.symm hu, hoth u hu]
      · have hlt1 : v < w1.vecs.length := (List.getElem?_eq_some_iff.mp hv1).1
        have := VecSt.removeAt_abs d i hwf hi
        simp only [VecSt.removeAt, VecSt.abs] at this
        simp [World.vis, hlt1, hd, hlt, VecSt.abs, d0]
        exact this
    · subst hp
      rw [hr]
      refine ⟨by simpa [w0] using e1, by simpa [w0] using e3, hoth, Or.inr ⟨⟨m, rfl⟩, ?_⟩⟩
      have hlt1 : v < w1.vecs.length := (List.getElem?_eq_some_iff.mp hv1).1
      simp [World.vis, hv1, hv, VecSt.abs, d0, List.take_take]
      omega

/-- **a lazy clone that panics inside `insert`**: when the (only) user-code call of
`dst.insert(i, src.at(j).lazy_clone())` — the element's `Clone` — is the one that panics, `dst` is left with
exactly the elements before `i` (the shifted tail is leaked, never shown twice); nothing is created,
destroyed or held, and the source vector is untouched. -/
theorem insert_lazy_clone_panics (w : World) (src dst i j id : Nat) (s d d1 : VecSt) (es : List Event)
    (hsd : src ≠ dst)
    (hs : w.vecs[src]? = some s) (hsl : s.live = true) (hswf : s.WF) (hj : j < s.len)
    (hc : s.cells.get j = .val id)
    (hv : w.vecs[dst]? = some d) (hl : d.live = true) (hwf : d.WF) (hty : s.ty = d.ty) (hi : i ≤ d.len)
    (hr : d.reserveOne = .ok (d1, es)) (hf : w.fault = some 1) :
    let r := World.insert dst i (.lazyElem src j) w
    (∃ m, r.2 = .panic m) ∧ r.1.vis dst = (w.vis dst).take i ∧ r.1.vecs[src]? = some s ∧
      r.1.dropLog = w.dropLog ∧ r.1.held = w.held ∧ r.1.created = w.created := by
  have hlt : dst < w.vecs.length := (List.getElem?_eq_some_iff.mp hv).1
  have hd : w.vecs[dst] = d := (List.getElem?_eq_some_iff.mp hv).2
  have hslt : src < w.vecs.length := (List.getElem?_eq_some_iff.mp hs).1
  have hsdd : w.vecs[src] = s := (List.getElem?_eq_some_iff.mp hs).2
  obtain ⟨h3, h1, habs1, hwf1, _, _, _, _, _, _, h4⟩ := reserveOne_spec d d1 es hwf hr
  have hl1 : d1.live = true := by rw [h4]; exact hl
  have hbs : j < s.cap := by have := hswf.len_le_cap; omega
  have hne : ¬ dst = src := fun h => hsd h.symm
  have hnot : ¬ (d.len < i) := by omega
  have hb1 : i + (d.len - i) ≤ d1.cap := by omega
  have hb2 : i + 1 + (d.len - i) ≤ d1.cap := by omega
  let d2 : VecSt := { d1 with cells := memmove (d1.cells.ensure (i + 1 + (d.len - i))) i (i + 1) (d.len - i), len := i }
  have he : World.insert dst i (.lazyElem src j) w =
      ({ w with vecs := w.vecs.set dst d2, ev := es.reverse ++ w.ev, fault := none }, .panic "injected") := by
    simp [World.insert, valTy, getVec, hl, hlt, hd, hsl, hslt, hsdd, hty, insertUnchecked, hnot, WM.onUnwind, vecOp,
      hr, hl1, setLen, moveElems, valKnownType, VecSt.moveElems_ok, hb1, hb2, h1, valMoveInto, readElem,
      List.getElem?_set, hne, hsd, VecSt.readElem_ok, hbs, hc, World.upd, d2, cloneElem, tick, hf]
  intro r
  rw [show r = _ from he]
  refine ⟨⟨_, rfl⟩, ?_, by simp [List.getElem?_set, hne, hsd, hs], rfl, rfl, rfl⟩
  simp only [World.vis, List.getElem?_set_self hlt, hv, VecSt.abs, d2]
  have h1' := hwf1.len_le
  rw [List.take_take, Nat.min_eq_left hi]
  apply List.ext_getElem?
  intro k
  simp only [List.getElem?_take]
  by_cases hk : k < i
  · have hs1 : i + (d.len - i) ≤ (d1.cells.ensure (i + 1 + (d.len - i))).length := by simp; omega
    have hs2 : i + 1 + (d.len - i) ≤ (d1.cells.ensure (i + 1 + (d.len - i))).length := by simp; omega
    have hcd : d1.cells.take d.len = d.cells.take d.len := by simpa [VecSt.abs, h1] using habs1
    have hk2 : k < d.len := by omega
    have : d1.cells[k]? = d.cells[k]? := by
      have := congrArg (fun l => l[k]?) hcd
      simpa [List.getElem?_take, hk2] using this
    have hkl : k < d1.cells.length := by omega
    simp [hk, memmove_getElem? _ _ _ _ _ hs1 hs2, ensure_getElem?, show ¬ (i + 1 ≤ k) by omega, hkl]
    rw [← this, List.getElem?_eq_getElem hkl]
  · simp [hk]

/-! non-vacuity: a fault at the second destructor call -/
def sampleVec : VecSt :=
  { ty := 0, size := 8, align := 8, hasDrop := true, cloneable := true, bk := .heap, cap := 4,
    cells := [.val 10, .val 11, .val 12], len := 3, gen := 0, live := true }
def sampleWorld : World := { vecs := [sampleVec], created := 13, fault := some 2 }
example : sampleVec.WF ∧ sampleVec.ids = [10, 11, 12] := by decide
example : (step { size := 8, align := 8, hasDrop := true } (.clear 0) sampleWorld).1.dropLog = [11, 10] ∧
    (step { size := 8, align := 8, hasDrop := true } (.clear 0) sampleWorld).2 = .panic "injected" := by decide

/-! ### over whole histories -/

/-- **history theorem**: the world invariant (every vector well formed and fully initialised; no
identity in two places, destroyed twice, or destroyed while visible) survives every core script step
under *every* fault state `f` — no fault, or a panic at the k-th user-code call for any k — from every
reachable world; so after a panic the vectors stay usable (the next step again satisfies the theorem). -/
theorem history_any_fault_core (cfg : Cfg) (w : World) (hr : Hist.Reach cfg w) (op : Op) (f : Option Nat)
    (hc : Hist.Core op) (hv : Hist.Valid w.vecs op) :
    (runStep cfg op f w).1.Inv ∧ (runStep cfg op f w).2.notUb ∧ Hist.Reach cfg (runStep cfg op f w).1 :=
  ⟨(Hist.runStep_inv cfg op f w (Hist.reach_inv_core cfg w hr) hc hv).1,
   (Hist.runStep_inv cfg op f w (Hist.reach_inv_core cfg w hr) hc hv).2,
   .step w op f hr hc hv⟩

/-- **history theorem, lying iterators**: whatever length the replacement iterator of a `splice` claims
(`claim` is the signed difference to what it really yields) and whatever types its items have, under
every fault state: invariant kept, no memory fault. -/
theorem history_lying_splice_core (cfg : Cfg) (w : World) (hr : Hist.Reach cfg w) (v : Nat) (lo hi : Bnd) (typed : Bool)
    (repl : List Src) (claim : Int) (eats : List (End × Sink)) (fin : Fin) (f : Option Nat)
    (hv : Hist.liveVec w.vecs v) (hrepl : ∀ r ∈ repl, r.Plain) (hc : ∀ p ∈ eats, p.2.ValidItem w.vecs v typed) :
    (runStep cfg (.splice v lo hi typed repl claim eats fin) f w).1.Inv ∧
      (runStep cfg (.splice v lo hi typed repl claim eats fin) f w).2.notUb :=
  Hist.runStep_inv cfg (.splice v lo hi typed repl claim eats fin) f w (Hist.reach_inv_core cfg w hr) hrepl ⟨hv, hc⟩

/-! ### tie to the source text -/

/-- **source tie**: the model lowers a vector's length at the creation of a removal handle / range iterator
exactly as `Pop::new`, `Remove::new`, `SwapRemove::new`, `Drain::new`, `Splice::new` of `/repo/src/ops/*.rs` do
(re-translated on this run into `Gen/Kernel.lean`): the steps of the model continue from the length and the
fields those constructors produce. -/
theorem len_is_lowered_first_is_the_source (cfg : Cfg) (w : World) (v i : Nat) (k : Sink) (d : VecSt)
    (hv : w.vecs[v]? = some d) (hl : d.live = true) (hi : i < d.len) :
    (∃ len', Gen.Kernel.pop_new d.len = .ok (.made len' []) ∧
      step cfg (.pop v k) w = sinkHandle cfg { v := v, kind := .pop, typed := false } k (w.upd v { d with len := len' })) ∧
    (∃ len' idx last, Gen.Kernel.remove_new d.len i = .ok (.made len' [idx, last]) ∧
      step cfg (.remove v i k) w =
        sinkHandle cfg { v := v, kind := .remove idx last, typed := false } k (w.upd v { d with len := len' })) ∧
    (∃ len' slot last, Gen.Kernel.swap_remove_new d.len i = .ok (.made len' [slot, last]) ∧
      step cfg (.swapRemove v i k) w =
        sinkHandle cfg { v := v, kind := .swapRemove slot d.gen last, typed := false } k (w.upd v { d with len := len' })) :=
  ⟨KernelTie.pop_ctor_tie cfg w v k d hv hl (by omega), KernelTie.remove_ctor_tie cfg w v i k d hv hl hi,
   KernelTie.swap_remove_ctor_tie cfg w v i k d hv hl hi⟩

theorem range_len_is_lowered_first_is_the_source (cfg : Cfg) (w : World) (v : Nat) (lo hi : Bnd) (typed : Bool)
    (eats : List (End × Sink)) (fin : Fin) (d : VecSt) (s e : Nat) (hv : w.vecs[v]? = some d) (hl : d.live = true)
    (hr : intoRange d.len lo hi = .ok (s, e)) :
    (∃ len' fields, Gen.Kernel.drain_new d.len s e = .ok (.made len' fields) ∧
      step cfg (.drain v lo hi typed eats fin) w =
        (do let (it', out) ← eatLoop cfg drainDrop (KernelTie.itOf v typed fields) eats [toString (e - s)]
            match fin with
            | .drop => do drainDrop it'; pure out
            | .forget => pure out : WM Out) (w.upd v { d with len := len' })) ∧
    Gen.Kernel.splice_new d.len s e = Gen.Kernel.drain_new d.len s e :=
  ⟨KernelTie.drain_ctor_tie cfg w v lo hi typed eats fin d s e hv hl hr, (KernelTie.splice_ctor_tie d s e).2⟩

/-- **source tie**: the orderings this property rests on are those of the source as re-translated on this run:
`insert_unchecked` sets `len := index` *before* the shift and the (possibly panicking) `move_into`, and restores
`len := len + 1` only after it; `clear` sets `len := 0` before any destructor runs; a dropped removal handle runs
the destructor first and `consume()` after. -/
theorem orderings_are_the_source (cfg : Cfg) (w : World) (dst index : Nat) (x : Val) (d : VecSt)
    (hv : w.vecs[dst]? = some d) (hl : d.live = true) (h : Handle) (hh : h.v = dst) :
    insertUnchecked dst index x w =
      KernelTie.runCmds (KernelTie.valCtx dst x d.hasDrop)
        (Gen.Kernel.insert_unchecked_cmds d.len index (valKnownType x)) w ∧
    (index ≤ d.len → ∀ known, ∃ erased,
      Gen.Kernel.insert_unchecked_cmds d.len index known =
        [.reserveOne, .setLen index, .copy erased index (index + 1) (d.len - index), .moveInto index,
         .setLen (d.len + 1)]) ∧
    (∀ n hasDrop, ∃ rest, Gen.Kernel.clear_cmds n hasDrop = .setLen 0 :: rest) ∧
    hDrop h w =
      (do let slot ← hSlot h
          if h.typed || d.hasDrop then
            KernelTie.runCmds (KernelTie.hCtx h) (Gen.Kernel.temp_drop_cmds slot h.typed d.hasDrop)
          else do
            let id ← readElem h.v slot
            dropElem false id
            KernelTie.runCmds (KernelTie.hCtx h) (Gen.Kernel.temp_drop_cmds slot h.typed d.hasDrop)) w := by
  refine ⟨KernelTie.insert_unchecked_tie w dst index x d hv hl, ?_, ?_, KernelTie.temp_drop_tie w h d (by rw [hh]; exact hv) hl⟩
  · intro hi known
    cases known
    · exact ⟨true, by simp [Gen.Kernel.insert_unchecked_cmds, hi]⟩
    · exact ⟨false, by simp [Gen.Kernel.insert_unchecked_cmds, hi]⟩
  · intro n hasDrop
    cases hasDrop
    · exact ⟨[], rfl⟩
    · exact ⟨[.dropFn 0 n], rfl⟩

/-- **source tie**: how the source treats a replacement iterator whose `len()` lies (re-translated on this run): the
write loop takes at most `claimed` values; if it got fewer, the parked tail is moved down to close the gap; in both
cases `len` is set to what is really there (`start + written + tail`). -/
theorem lying_splice_is_the_source (cfg : Cfg) (w : World) (it : RangeIt) (repl : List Val) (claimed : Nat) (d : VecSt)
    (hv : w.vecs[it.v]? = some d) (hl : d.live = true) (hlen : d.len = it.start)
    (idx e start end0 orig written : Nat)
    (h1 : start + claimed ≤ USIZE_MAX) (h2 : start + claimed + (orig - end0) ≤ USIZE_MAX) :
    spliceDrop cfg it repl claimed w = KernelTie.spliceDropBySource cfg it repl claimed d w ∧
    Gen.Kernel.splice_drop_post_cmds idx e start end0 orig claimed written =
      (if written < claimed then
        [.moveElems (start + claimed) (start + written) (orig - end0), .setLen (start + written + (orig - end0))]
      else [.setLen (start + written + (orig - end0))]) :=
  ⟨KernelTie.splice_drop_tie cfg w it repl claimed d hv hl hlen,
   KernelTie.splice_post_cases idx e start end0 orig claimed written h1 h2⟩

end C06
end AnyVec
