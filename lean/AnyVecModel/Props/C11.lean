/-
  C11 — stack backends hold exactly their stated capacity and never use the heap.
-/
import AnyVecModel.Props.C01
import AnyVecModel.Proofs.KernelStack
import AnyVecModel.Proofs.KernelCap
import AnyVecModel.Proofs.KernelMemAccess
namespace AnyVec
namespace C11
variable {bg : Nat → Option VecSt}
open World

/-- fixed-capacity backends -/
def fixed : Backend → Prop
  | .stack _ => True
  | .stackN _ _ => True
  | .empty => True
  | _ => False

/-- `Stack<SIZE>`: capacity `SIZE / size_of::<T>()`, unbounded (`usize::MAX`) for zero-sized `T` -/
theorem stack_capacity (bytes size align : Nat) (ha : align ≤ VecSt.STACK_MAX_ALIGN) :
    VecSt.buildCap (.stack bytes) size align = .ok (if size = 0 then USIZE_MAX else bytes / size) := by
  simp [VecSt.buildCap, ha]

/-- `StackN<N,SIZE>`: capacity `N`; construction panics exactly when `N` elements do not fit -/
theorem stackN_capacity (n bytes size align : Nat) (ha : align ≤ VecSt.STACK_MAX_ALIGN) :
    (n * size ≤ bytes → VecSt.buildCap (.stackN n bytes) size align = .ok n) ∧
    (bytes < n * size → ∃ m, VecSt.buildCap (.stackN n bytes) size align = .panic m) := by
  constructor
  · intro h; simp [VecSt.buildCap, ha, h]
  · intro h
    have : ¬ n * size ≤ bytes := by omega
    exact ⟨"Insufficient storage!", by simp [VecSt.buildCap, ha, this]⟩

/-- the zero-capacity backend -/
theorem empty_capacity (size align : Nat) : VecSt.buildCap .empty size align = .ok 0 := rfl

/-- a fixed backend cannot change its capacity: `expand` panics, … -/
theorem fixed_expand_panics (v : VecSt) (a : Nat) (h : fixed v.bk) : ∃ m, v.memExpand a = .panic m := by
  unfold VecSt.memExpand
  cases hb : v.bk <;> simp [hb, fixed] at h ⊢

/-- … so every capacity request either is a no-op without any storage/allocator event or panics
leaving the vector as it was: **no operation on a stack-backed vector allocates**. -/
theorem fixed_reserve_no_event (v v' : VecSt) (n : Nat) (es : List Event) (h : fixed v.bk) :
    (v.reserveOne = .ok (v', es) → v' = v ∧ es = []) ∧ (v.reserve n = .ok (v', es) → v' = v ∧ es = []) := by
  obtain ⟨m1, hm1⟩ := fixed_expand_panics v 1 h
  constructor
  · intro hr
    unfold VecSt.reserveOne at hr
    split at hr
    · rw [hm1] at hr; cases hr
    · cases hr; exact ⟨rfl, rfl⟩
  · intro hr
    unfold VecSt.reserve at hr
    cases hca : checkedAdd v.len n with
    | ok r =>
      rw [hca] at hr
      simp only at hr
      split at hr
      · obtain ⟨m, hm⟩ := fixed_expand_panics v (r - v.cap) h
        rw [hm] at hr; cases hr
      · cases hr; exact ⟨rfl, rfl⟩
    | panic m => rw [hca] at hr; cases hr
    | ub m => rw [hca] at hr; cases hr

/-- the only allocator events of the model are emitted by `heapResize` and by dropping a heap
vector; a vector dropped on a fixed backend emits none -/
theorem fixed_room_reserve (v : VecSt) (hroom : v.len < v.cap) : v.reserveOne = .ok (v, []) := by
  have : ¬ v.len = v.cap := by omega
  simp [VecSt.reserveOne, this]

/-- `push` beyond the capacity panics, leaves every vector unchanged and destroys the offered
(owned) value exactly once. -/
theorem push_beyond_capacity (w : World) (dst id ty : Nat) (d : VecSt)
    (hv : w.vecs[dst]? = some d) (hl : d.live = true) (hfix : fixed d.bk) (hfull : d.len = d.cap)
    (hf : w.fault = none) :
    let r := pushUnchecked dst (.wrapper id ty) w
    (∃ m, r.2 = .panic m) ∧ r.1.vecs = w.vecs ∧ r.1.dropLog = id :: w.dropLog ∧ r.1.held = w.held := by
  have hlt : dst < w.vecs.length := (List.getElem?_eq_some_iff.mp hv).1
  have hd : w.vecs[dst] = d := (List.getElem?_eq_some_iff.mp hv).2
  obtain ⟨m, hm⟩ := fixed_expand_panics d 1 hfix
  simp [pushUnchecked, getVec, hl, hlt, hd, WM.onUnwind, vecOp, VecSt.reserveOne, hfull, hm, WM.lift,
    valDrop, World.dropElem_nofault, logDrop]

/-- within the capacity a push behaves exactly as on the heap backend (same theorem: `C01.push_appends`
holds for every backend on which a slot can be reserved, and with room left that is all of them). -/
theorem push_within_capacity (w : World) (dst id : Nat) (x : Val) (hx : x.Plain id) (d : VecSt)
    (hv : w.vecs[dst]? = some d) (hl : d.live = true) (hwf : d.WF) (hroom : d.len < d.cap) :
    let r := pushUnchecked dst x w
    r.2 = .ok () ∧ r.1.vis dst = w.vis dst ++ [.val id] ∧ r.1.ev = w.ev := by
  intro r
  have h := C01.push_appends w dst id x hx d d [] hv hl hwf (fixed_room_reserve d hroom)
  refine ⟨h.1, h.2.1, ?_⟩
  simp only [r, pushUnchecked_plain w dst id x hx d d [] hv hl hwf (fixed_room_reserve d hroom)]
  simp

/-! non-vacuity -/
def sampleVec : VecSt :=
  { ty := 0, size := 8, align := 8, hasDrop := true, cloneable := true, bk := .stack 16, cap := 2,
    cells := [.val 0, .val 1], len := 2, gen := 0, live := true }
example : fixed sampleVec.bk ∧ sampleVec.len = sampleVec.cap ∧ sampleVec.WF := by
  refine ⟨trivial, rfl, by decide⟩
example : VecSt.buildCap (.stack 16) 8 8 = .ok 2 := by decide
example : VecSt.buildCap (.stackN 3 16) 8 8 = .panic "Insufficient storage!" := by decide

/-! ### tie to the source text -/

/-- **source tie**: the capacities of the fixed backends are `Stack::build` / `StackN::build` (+ `size`) of
`/repo/src/mem/stack{,_n}.rs` as re-translated on this run. -/
theorem fixed_capacities_are_the_source (n bytes size align : Nat) :
    (VecSt.buildCap (.stack bytes) size align =
      match Gen.Kernel.stack_build bytes size align with
      | .ok (.ret c) => .ok c
      | .ok _ => .ub "kernel: unexpected result"
      | .panic m => .panic m
      | .ub m => .ub m) ∧
    (VecSt.buildCap (.stackN n bytes) size align =
      match Gen.Kernel.stackn_build n bytes size align, Gen.Kernel.stackn_size n with
      | .ok .none, .ok (.ret c) => .ok c
      | .panic m, _ => .panic m
      | _, _ => .ub "kernel: unexpected result") :=
  ⟨KernelTie.stack_build_tie bytes size align, KernelTie.stackn_build_tie n bytes size align⟩

theorem reserve_one_is_the_source (v : VecSt) :
    v.reserveOne = KernelTie.applyEff v (Gen.Kernel.reserve_one v.len v.cap) ∧ Gen.Kernel.expand_one = .ok (.expand 1) :=
  KernelTie.reserve_one_tie v

/-- **source tie**: the capacity the fixed backends report is a field or a constant, never computed: `size()` of
`StackMem` returns the `size` stored by `build`, of `StackNMem` the const parameter `N`, of `EmptyMem` the literal `0`
(`/repo/src/mem/{stack,stack_n,empty}.rs`, read on this run) - and the model's fresh capacity is that value, and no
capacity call can change it on these backends. -/
theorem fixed_capacity_accessors_are_the_source (size align : Nat) :
    Gen.Kernel.stack_mem_accessors.lookup "size" = some "self . size" ∧
    Gen.Kernel.stackn_mem_accessors.lookup "size" = some "N" ∧
    Gen.Kernel.empty_mem_accessors.lookup "size" = some "0" ∧
    VecSt.buildCap .empty size align = .ok 0 ∧
    (∀ n bytes c, VecSt.buildCap (.stackN n bytes) size align = .ok c → c = n) ∧
    (∀ (v : VecSt) m, (v.bk = .empty ∨ (∃ b, v.bk = .stack b) ∨ (∃ n b, v.bk = .stackN n b)) →
      ∃ msg, v.memResize m = .ub msg) := by
  obtain ⟨_, h2, h3, h4, _⟩ := KernelTie.mem_accessors_tie
  obtain ⟨_, m2, m3, m4⟩ := KernelTie.fresh_capacity_model size align
  rw [h2, h3, h4]
  exact ⟨rfl, rfl, rfl, m2, m3, m4⟩

/-! ### fixed capacity over whole histories (Props/Refine.lean) -/

/-- **a fixed-capacity vector keeps exactly its capacity through every history**: from any world in which vector `v`
on a fixed storage (`Stack`, `StackN`, `Empty`) shows an abstract vector, after any sequence of element operations and
`reserve` calls the world still shows an abstract vector of the same capacity - and along the way a value was refused
exactly when the vector was full (`Refine.Spec.Room`), never before. -/
theorem fixed_capacity_through_history (cfg : Cfg) (v ty : Nat) (ops : List Refine.VOp) (w : World) (s : Refine.Spec)
    (h : Refine.Rel bg v ty w s) (hfx : s.fixed = true) (hall : ∀ op ∈ ops, op.Allowed s.fixed) :
    ∃ s', Refine.Spec.Steps s ops s' ∧ Refine.Rel bg v ty (Refine.runOps cfg v ty w ops) s' ∧ s'.cap = s.cap := by
  obtain ⟨s', hsteps, hrel⟩ := Refine.history_refines cfg v ty ops w s h hall
  exact ⟨s', hsteps, hrel, hsteps.cap_fixed hfx hall⟩

end C11
end AnyVec
