/-
  C05 — storage is accessed only in bounds, initialised, and never via stale pointers (partial).
  Every memory access of the model goes through a *checked* primitive that answers `ub` when the
  slot range leaves `[0, capacity)`, when a slot read as an element is uninitialised / moved out, or
  when a pointer carries an old storage generation. The theorems show that well-formed states never
  reach `ub`; real addresses and real undefined behaviour are observed by the instrumented backend
  (guard zones, poison, quarantine, relocate-always), not modelled.
-/
import AnyVecModel.Props.C06
import AnyVecModel.Props.Hist
namespace AnyVec
namespace C05
open World

def notUb {α} : Res α → Prop
  | .ub _ => False
  | _ => True

/-- the checked primitives succeed exactly inside the current capacity … -/
theorem moves_in_bounds_ok (v : VecSt) (erased : Bool) (src dst n : Nat)
    (hs : src + n ≤ v.cap) (hd : dst + n ≤ v.cap) : ∃ v', v.moveElems erased src dst n = .ok v' :=
  ⟨_, VecSt.moveElems_ok v erased src dst n hs hd⟩

/-- … and fault (`ub`) outside of it: the check is not vacuous -/
theorem moves_out_of_bounds_ub (v : VecSt) (erased : Bool) (src dst n : Nat)
    (h : v.cap < src + n ∨ v.cap < dst + n) : ∃ m, v.moveElems erased src dst n = .ub m := by
  have : ¬ (src + n ≤ v.cap ∧ dst + n ≤ v.cap) := by omega
  exact ⟨"element move out of bounds", by simp [VecSt.moveElems, this]⟩

theorem read_uninit_ub (v : VecSt) (i : Nat) (h : v.cells.get i = .uninit) : ∃ m, v.readElem i = .ub m := by
  unfold VecSt.readElem
  split
  · rw [h]; exact ⟨_, rfl⟩
  · exact ⟨_, rfl⟩

/-- no capacity call ever shrinks the storage below the live length, on any backend -/
theorem resize_requests_cover_len (v : VecSt) (m : Nat) (hwf : v.WF) :
    v.len ≤ min v.cap (max v.len m) ∧ v.len ≤ v.len := by
  have := hwf.len_le_cap
  exact ⟨by omega, Nat.le_refl _⟩

/-- insert / push / remove / swap_remove / pop / clear / Drain::drop from a well-formed state never
touch memory outside the capacity, never read an uninitialised slot and never use a stale pointer
(their results are `ok`, as the exact-execution theorems show) -/
theorem insert_no_ub (w : World) (dst i id : Nat) (x : Val) (hx : x.Plain id) (d d1 : VecSt) (es : List Event)
    (hv : w.vecs[dst]? = some d) (hl : d.live = true) (hwf : d.WF) (hi : i ≤ d.len)
    (hr : d.reserveOne = .ok (d1, es)) : notUb (insertUnchecked dst i x w).2 := by
  rw [insertUnchecked_plain w dst i id x hx d d1 es hv hl hwf hi hr]; trivial

theorem remove_no_ub (cfg : Cfg) (w : World) (v i id : Nat) (d : VecSt)
    (hv : w.vecs[v]? = some d) (hl : d.live = true) (hwf : d.WF) (hi : i < d.len)
    (hc : d.cells.get i = .val id) (hf : w.fault = none) : notUb (step cfg (.remove v i .drop) w).2 := by
  rw [remove_drop_exec cfg w v i id d hv hl hwf hi hc hf]; trivial

theorem swap_remove_no_ub (cfg : Cfg) (w : World) (v i id : Nat) (d : VecSt)
    (hv : w.vecs[v]? = some d) (hl : d.live = true) (hwf : d.WF) (hi : i < d.len)
    (hc : d.cells.get i = .val id) (hf : w.fault = none) : notUb (step cfg (.swapRemove v i .drop) w).2 := by
  rw [swap_remove_drop_exec cfg w v i id d hv hl hwf hi hc hf]; trivial

theorem drain_drop_no_ub (w : World) (it : RangeIt) (d : VecSt)
    (hv : w.vecs[it.v]? = some d) (hl : d.live = true) (hf : w.fault = none)
    (h1 : it.start ≤ it.index) (h2 : it.index ≤ it.end_) (h3 : it.end_ ≤ it.end0)
    (h4 : it.end0 ≤ it.origLen) (h5 : it.origLen ≤ d.cells.length) (h6 : d.cells.length ≤ d.cap)
    (hinit : d.InitRange it.index (it.end_ - it.index)) : notUb (drainDrop it w).2 := by
  rw [drainDrop_exec w it d hv hl hf h1 h2 h3 h4 h5 h6 hinit]; trivial

/-- `clear` at every crash point (any fault state) never faults on memory -/
theorem clear_no_ub (cfg : Cfg) (w : World) (v : Nat) (d : VecSt)
    (hv : w.vecs[v]? = some d) (hl : d.live = true) (hwf : d.WF) (hinit : d.Init) :
    notUb (step cfg (.clear v) w).2 := by
  obtain ⟨_, _, _, _, h⟩ := C06.clear_any_fault cfg w v d hv hl hwf hinit
  rcases h with ⟨o, ho⟩ | ⟨m, hm⟩
  · rw [ho]; trivial
  · rw [hm]; trivial

/-- a stale element pointer (taken before a capacity change) is refused by the model: the generation check of
`SwapRemove` is not vacuous -/
example : (hSlot { v := 0, kind := .swapRemove 0 0 1, typed := false }
    { vecs := [{ ty := 0, size := 8, align := 8, hasDrop := true, cloneable := true, bk := .heap, cap := 4,
                 cells := [.val 1, .val 2], len := 0, gen := 1, live := true }] }).2
    = .ub "stale element pointer (storage moved)" := by decide

/-! ### over whole histories -/

/-- **history theorem**: from every world reachable by core script steps, the next core step — under
every fault state — returns or panics; it never reads or writes outside the capacity, never reads an
uninitialised or moved-out slot, and never uses an element pointer taken before a capacity change. -/
theorem history_no_memory_fault_core (cfg : Cfg) (w : World) (hr : Hist.Reach cfg w) (op : Op) (f : Option Nat)
    (hc : Hist.Core op) (hv : Hist.Valid w.vecs op) : (runStep cfg op f w).2.notUb :=
  Hist.reach_no_ub_core cfg w hr op f hc hv

end C05
end AnyVec
