/-
  History theorems (C01–C03, C05–C09 over whole histories).

  `Reach cfg w`: `w` is reachable from the empty world by any finite sequence of script steps, each run
  under an arbitrary fault state (no fault, or the k-th user-code call of the step — an element's
  `Drop` or `Clone`, the replacement iterator's `next` — panics). The steps are *every* operation of
  the model:
    construction (`new`, `with_capacity`, `clone_empty`, `clone_empty_in`, `clone`); `push`/`insert` of
    owning wrappers and raw values (erased and typed); `pop`/`remove`/`swap_remove` (erased and typed)
    whose handle is dropped, forgotten, downcast (right or wrong type), inspected, or moved into another
    vector by `push`/`insert` (accepted, or refused for type, index or capacity); `drain` and `splice`
    (erased and typed) over any range form, consumed from either end in any pattern with each item
    dropped, forgotten, downcast or inspected, then dropped or forgotten at any stage — `splice` with
    replacement values (owning or raw) of *any* types and *any* claimed `ExactSizeIterator::len`;
    `clear`; `get`/`at`/`iter`/byte and slice views/`info`/`downcast_ref`; lazy clones consumed by
    `downcast`; value swaps through element references and typed assignment; in-place swaps inside one
    vector and between two vectors; `reserve`/`reserve_exact`/`shrink_to_fit`/`shrink_to`; raw-parts round
    trips; `set_len` over freshly written spare capacity; the caller dropping the values it holds;
    dropping a vector.
  `push`/`insert` also take lazy clones of another vector's elements; removal handles go to every sink;
  the items of a drain/splice go to every sink but `swap` (dropped, forgotten, downcast, inspected, moved
  into another vector by `push`/`insert`, lazily cloned ×k into another vector). The only restrictions are:
  the replacement values of a `splice` are owning wrappers or raw values (`Core`), and drained items are not
  value-swapped (`Valid`). For those the single-step theorems of
  C06/C09/C13 and the differential correspondence apply. `Valid` states what the type system, the borrow checker and the
  contracts of the script's own `unsafe` calls guarantee about a step (see its doc comment).

  For every reachable world:
    * every vector satisfies the representation invariant and shows only initialised elements,
    * every identity ever handed out is in at most one place — visible in exactly one vector slot,
      held by the caller, or destroyed — so nothing is duplicated, destroyed twice, or destroyed
      while still visible (C03, C06, C07),
    * and the next step, whatever it is and wherever a panic is injected, returns or panics: it never
      reads or writes outside the capacity, never reads an uninitialised / moved-out slot, never uses
      a stale element pointer (C05: the model's `ub` outcomes).
-/
import AnyVecModel.Proofs.HistItems
namespace AnyVec
namespace Hist
open World

/-- the operations covered by the history theorems -/
def Core : Op → Prop
  | .new _ _ _ => True
  | .withCap _ bk _ _ => VecSt.resizable bk = true
  | .push _ _ => True
  | .insert _ _ _ => True
  | .tpush _ => True
  | .tinsert _ _ => True
  | .pop _ _ => True
  | .remove _ _ _ => True
  | .swapRemove _ _ _ => True
  | .tpop _ => True
  | .tremove _ _ => True
  | .tswapRemove _ _ => True
  | .clear _ => True
  | .get _ _ _ => True
  | .iter _ _ => True
  | .cloneEmpty _ => True
  | .cloneEmptyIn _ _ => True
  | .reserve _ _ => True
  | .reserveExact _ _ => True
  | .shrinkToFit _ => True
  | .shrinkTo _ _ => True
  | .release => True
  | .dropVec _ => True
  | .info _ => True
  | .dcvec _ _ => True
  | .probe _ => True
  | .views _ => True
  | .drain _ _ _ _ _ _ => True
  | .clone _ => True
  | .lazyDc _ _ _ _ => True
  | .iterClone _ _ _ => True
  | .wswap _ _ _ => True
  | .tassign _ _ => True
  | .swapb _ _ _ => True
  | .tswap _ _ _ => True
  | .eswap _ _ _ _ => True
  | .setLenSpare _ _ _ => True
  | .rawrt _ => True
  | .rawparts _ => True
  | .splice _ _ _ _ repl _ _ _ => ∀ r ∈ repl, r.Plain

def liveVec (vs : List VecSt) (v : Nat) : Prop := ∃ d, vs[v]? = some d ∧ d.live = true
def liveCloneable (vs : List VecSt) (v : Nat) : Prop :=
  ∃ d, vs[v]? = some d ∧ d.live = true ∧ d.cloneable = true
def liveResizable (vs : List VecSt) (v : Nat) : Prop :=
  ∃ d, vs[v]? = some d ∧ d.live = true ∧ VecSt.resizable d.bk = true

/-- what the type system and the borrow checker guarantee about a script step: the vector it names
exists and has not been dropped; exact-capacity calls exist only for resizable backends, `clone`
only for `Cloneable` vectors, raw parts only for backends with `MemRawParts`; and what the `unsafe`
contracts of the script's own unsafe calls demand (`set_len` within the capacity over initialised
slots, in-place byte swaps of two existing elements) -/
def Valid (vs : List VecSt) : Op → Prop
  | .push v s => liveVec vs v ∧ ∀ u i dp, s = .lazyRef u i dp → v ≠ u ∧ liveVec vs u
  | .insert v _ s => liveVec vs v ∧ ∀ u i dp, s = .lazyRef u i dp → v ≠ u ∧ liveVec vs u
  | .tpush v => liveVec vs v
  | .tinsert v _ => liveVec vs v
  | .pop v k => liveVec vs v ∧ k.Valid vs v
  | .remove v _ k => liveVec vs v ∧ k.Valid vs v
  | .swapRemove v _ k => liveVec vs v ∧ k.Valid vs v
  | .tpop v => liveVec vs v
  | .tremove v _ => liveVec vs v
  | .tswapRemove v _ => liveVec vs v
  | .clear v => liveVec vs v
  | .get v _ _ => liveVec vs v
  | .iter v _ => liveVec vs v
  | .cloneEmpty v => liveVec vs v
  | .cloneEmptyIn v _ => liveVec vs v
  | .reserve v _ => liveVec vs v
  | .reserveExact v _ => liveResizable vs v
  | .shrinkToFit v => liveResizable vs v
  | .shrinkTo v _ => liveResizable vs v
  | .info v => liveVec vs v
  | .dcvec v _ => liveVec vs v
  | .probe v => liveVec vs v
  | .views v => liveVec vs v
  | .drain v _ _ typed eats _ => liveVec vs v ∧ ∀ p ∈ eats, p.2.ValidItem vs v typed
  | .clone v => liveCloneable vs v
  | .lazyDc v _ _ _ => liveVec vs v
  | .iterClone v _ _ => liveVec vs v
  | .wswap v _ _ => liveVec vs v
  | .tassign v _ => liveVec vs v
  | .swapb v i j => ∃ d, vs[v]? = some d ∧ d.live = true ∧ i < d.len ∧ j < d.len
  | .tswap v _ _ => liveVec vs v
  | .eswap v _ u _ => v ≠ u ∧ liveVec vs v ∧ liveVec vs u
  | .setLenSpare v k _ => ∃ d, vs[v]? = some d ∧ d.live = true ∧ d.len + k ≤ d.cap
  | .rawrt v => ∃ d, vs[v]? = some d ∧ d.live = true ∧ rawBackend d.bk
  | .rawparts v => ∃ d, vs[v]? = some d ∧ d.live = true ∧ rawBackend d.bk
  | .splice v _ _ typed _ _ eats _ => liveVec vs v ∧ ∀ p ∈ eats, p.2.ValidItem vs v typed
  | _ => True

/-- one core step of the library from any world satisfying the invariant, under any fault state -/
theorem step_inv (cfg : Cfg) (op : Op) (w : World) (h : w.Inv) (hc : Core op) (hv : Valid w.vecs op) :
    (step cfg op w).1.Inv ∧ (step cfg op w).2.notUb := by
  cases op with
  | new ty bk c => exact step_new_inv cfg w ty bk c h
  | withCap ty bk c n => exact step_withCap_inv cfg w ty bk c n h hc
  | push v s =>
    obtain ⟨⟨d, h1, h2⟩, h3⟩ := hv
    cases s with
    | wrapper ty => exact step_push_inv cfg w v _ d h h1 h2 trivial
    | raw ty => exact step_push_inv cfg w v _ d h h1 h2 trivial
    | lazyRef u i dp =>
      obtain ⟨hne, du, h4, h5⟩ := h3 u i dp rfl
      exact step_push_lazy_inv cfg w v u i dp d du h hne h1 h2 h4 h5
  | insert v j s =>
    obtain ⟨⟨d, h1, h2⟩, h3⟩ := hv
    cases s with
    | wrapper ty => exact step_insert_inv cfg w v j _ d h h1 h2 trivial
    | raw ty => exact step_insert_inv cfg w v j _ d h h1 h2 trivial
    | lazyRef u i dp =>
      obtain ⟨hne, du, h4, h5⟩ := h3 u i dp rfl
      exact step_insert_lazy_inv cfg w v j u i dp d du h hne h1 h2 h4 h5
  | tpush v => obtain ⟨d, h1, h2⟩ := hv; exact step_tpush_inv cfg w v d h h1 h2
  | tinsert v i => obtain ⟨d, h1, h2⟩ := hv; exact step_tinsert_inv cfg w v i d h h1 h2
  | pop v k => obtain ⟨⟨d, h1, h2⟩, h3⟩ := hv; exact step_pop_any cfg w v k d h h1 h2 h3
  | remove v i k => obtain ⟨⟨d, h1, h2⟩, h3⟩ := hv; exact step_remove_any cfg w v i k d h h1 h2 h3
  | swapRemove v i k => obtain ⟨⟨d, h1, h2⟩, h3⟩ := hv; exact step_swapRemove_any cfg w v i k d h h1 h2 h3
  | tpop v => obtain ⟨d, h1, h2⟩ := hv; exact step_tpop_inv cfg w v d h h1 h2
  | tremove v i => obtain ⟨d, h1, h2⟩ := hv; exact step_tremove_inv cfg w v i d h h1 h2
  | tswapRemove v i => obtain ⟨d, h1, h2⟩ := hv; exact step_tswapRemove_inv cfg w v i d h h1 h2
  | clear v => obtain ⟨d, h1, h2⟩ := hv; exact step_clear_inv cfg w v d h h1 h2
  | get v i b => obtain ⟨d, h1, h2⟩ := hv; exact step_get_inv cfg w v i b d h h1 h2
  | iter v cs => obtain ⟨d, h1, h2⟩ := hv; exact step_iter_inv cfg w v cs d h h1 h2
  | cloneEmpty v => obtain ⟨d, h1, h2⟩ := hv; exact step_cloneEmpty_inv cfg w v d h h1 h2
  | cloneEmptyIn v bk => obtain ⟨d, h1, h2⟩ := hv; exact step_cloneEmptyIn_inv cfg w v bk d h h1 h2
  | reserve v n => obtain ⟨d, h1, h2⟩ := hv; exact step_reserve_inv cfg w v n d h h1 h2
  | reserveExact v n => obtain ⟨d, h1, h2, h3⟩ := hv; exact step_reserveExact_inv cfg w v n d h h1 h2 h3
  | shrinkToFit v => obtain ⟨d, h1, h2, h3⟩ := hv; exact step_shrinkToFit_inv cfg w v d h h1 h2 h3
  | shrinkTo v n => obtain ⟨d, h1, h2, h3⟩ := hv; exact step_shrinkTo_inv cfg w v n d h h1 h2 h3
  | release => exact step_release_inv cfg w h
  | dropVec v => exact step_dropVec_inv cfg w v h
  | info v => obtain ⟨d, h1, h2⟩ := hv; exact step_look_inv cfg w v d h h1 h2 _ (Or.inl rfl)
  | dcvec v ty => obtain ⟨d, h1, h2⟩ := hv; exact step_look_inv cfg w v d h h1 h2 _ (Or.inr (Or.inl ⟨ty, rfl⟩))
  | probe v => obtain ⟨d, h1, h2⟩ := hv; exact step_look_inv cfg w v d h h1 h2 _ (Or.inr (Or.inr (Or.inl rfl)))
  | views v => obtain ⟨d, h1, h2⟩ := hv; exact step_look_inv cfg w v d h h1 h2 _ (Or.inr (Or.inr (Or.inr rfl)))
  | drain v lo hi typed eats fin =>
    obtain ⟨⟨d, h1, h2⟩, h3⟩ := hv; exact step_drain_v cfg w v lo hi typed eats fin d h h1 h2 h3
  | splice v lo hi typed repl claim eats fin =>
    obtain ⟨⟨d, h1, h2⟩, h3⟩ := hv; exact step_splice_v cfg w v lo hi typed repl claim eats fin d h h1 h2 hc h3
  | clone v => obtain ⟨d, h1, h2, h3⟩ := hv; exact step_clone_inv cfg w v d h h1 h2 h3
  | wswap v i ty => obtain ⟨d, h1, h2⟩ := hv; exact step_wswap_inv cfg w v i ty d h h1 h2
  | tassign v i => obtain ⟨d, h1, h2⟩ := hv; exact step_tassign_inv cfg w v i d h h1 h2
  | swapb v i j => obtain ⟨d, h1, h2, h3, h4⟩ := hv; exact step_swapb_inv cfg w v i j d h h1 h2 h3 h4
  | tswap v i j => obtain ⟨d, h1, h2⟩ := hv; exact step_tswap_inv cfg w v i j d h h1 h2
  | eswap v i u j =>
    obtain ⟨hne, ⟨d, h1, h2⟩, ⟨du, h3, h4⟩⟩ := hv; exact step_eswap_inv cfg w v i u j d du h hne h1 h2 h3 h4
  | setLenSpare v k t => obtain ⟨d, h1, h2, h3⟩ := hv; exact step_setLenSpare_inv cfg w v k t d h h1 h2 h3
  | rawrt v => obtain ⟨d, h1, h2, h3⟩ := hv; exact step_rawrt_inv cfg w v d h h1 h2 h3
  | rawparts v => obtain ⟨d, h1, h2, h3⟩ := hv; exact step_rawparts_inv cfg w v d h h1 h2 h3
  | iterClone v pre post => obtain ⟨d, h1, h2⟩ := hv; exact step_iterClone_inv cfg w v pre post d h h1 h2
  | lazyDc v i dp ty => obtain ⟨d, h1, h2⟩ := hv; exact step_lazyDc_inv cfg w v i dp ty d h h1 h2

/-- the caller destroying the raw values the library refused, at the end of a script step -/
theorem destroy_erase (cfg : Cfg) (ids : List Nat) (w : World) (hf : w.fault = none) :
    (runStep.destroy cfg ids w).erase = { w.erase with dropLog := ids.reverse ++ w.dropLog } ∧
      (runStep.destroy cfg ids w).pendingRaw = w.pendingRaw := by
  induction ids generalizing w with
  | nil => exact ⟨rfl, rfl⟩
  | cons id ids ih =>
    simp only [runStep.destroy, World.dropElem_nofault cfg.hasDrop id w hf]
    obtain ⟨i1, i2⟩ := ih (logDrop cfg.hasDrop id w) hf
    refine ⟨?_, by rw [i2]; rfl⟩
    rw [i1]; simp

/-- **one script step preserves the invariant and never faults on memory** -/
theorem runStep_inv (cfg : Cfg) (op : Op) (f : Option Nat) (w : World) (h : w.Inv) (hc : Core op)
    (hv : Valid w.vecs op) :
    (runStep cfg op f w).1.Inv ∧ (runStep cfg op f w).2.notUb := by
  have h0 : ({ w with ev := [], fault := f, pendingRaw := [] } : World).Inv := by
    apply h.of_step
    · exact h.good
    · exact Nat.le_refl _
    · simp only [Nat.sub_self, freshCells, List.range'_zero, List.map_nil, List.nil_append]
      exact ⟨w.pendingRaw.map Cell.val, by simp [World.all, World.owned, World.allVis]⟩
  obtain ⟨s1, s2⟩ := step_inv cfg op _ h0 hc hv
  simp only [runStep]
  cases hs : step cfg op { w with ev := [], fault := f, pendingRaw := [] } with
  | mk w1 r =>
    rw [hs] at s1 s2
    simp only at s1 s2 ⊢
    refine ⟨?_, s2⟩
    obtain ⟨d1, d2⟩ := destroy_erase cfg w1.pendingRaw.reverse { w1 with fault := none } rfl
    have v1 := congrArg World.vecs d1
    have v2 := congrArg World.created d1
    have v3 := congrArg World.dropLog d1
    have v4 := congrArg World.held d1
    simp only [World.erase_vecs, World.erase_created, World.erase_dropLog, World.erase_held] at v1 v2 v3 v4
    apply s1.of_step
    · intro u x hx; exact s1.good u x (by rw [← v1]; exact hx)
    · show w1.created ≤ (runStep.destroy cfg w1.pendingRaw.reverse { w1 with fault := none }).created
      rw [v2]; exact Nat.le_refl _
    · have hcr : (runStep.destroy cfg w1.pendingRaw.reverse { w1 with fault := none }).created = w1.created := v2
      simp only [hcr, Nat.sub_self, freshCells, List.range'_zero, List.map_nil, List.nil_append]
      apply Leq.of_perm
      simp only [World.all, World.owned, World.allVis, v1, v3, v4, List.reverse_reverse, List.map_nil,
        List.append_nil, List.map_append]
      rw [List.perm_iff_count]
      intro a
      simp only [List.count_append]
      omega

/-- worlds reachable by core script steps, each under an arbitrary fault state -/
inductive Reach (cfg : Cfg) : World → Prop where
  | init : Reach cfg {}
  | step (w : World) (op : Op) (f : Option Nat) : Reach cfg w → Core op → Valid w.vecs op →
      Reach cfg (runStep cfg op f w).1

theorem init_inv : ({} : World).Inv :=
  ⟨by intro v x hx; simp at hx, by simp [World.all, World.owned, World.allVis],
   by intro id hid; simp [World.all, World.owned, World.allVis] at hid⟩

/-- **C03/C06/C07 over histories (core)**: in every reachable world every vector is well formed and
fully initialised, and no identity is in two places, destroyed twice, or destroyed while visible. -/
theorem reach_inv_core (cfg : Cfg) (w : World) (hr : Reach cfg w) : w.Inv := by
  induction hr with
  | init => exact init_inv
  | step w op f _ hc hv ih => exact (runStep_inv cfg op f w ih hc hv).1

/-- **C05 over histories (core)**: from every reachable world, every core step under every fault state
returns or panics — it never reaches one of the model's memory faults. -/
theorem reach_no_ub_core (cfg : Cfg) (w : World) (hr : Reach cfg w) (op : Op) (f : Option Nat) (hc : Core op)
    (hv : Valid w.vecs op) : (runStep cfg op f w).2.notUb :=
  (runStep_inv cfg op f w (reach_inv_core cfg w hr) hc hv).2

/-- spelled out: in a reachable world the visible elements of all vectors, the values held by the
caller and the destroyed values are pairwise distinct identities, all created before now -/
theorem reach_single_owner_core (cfg : Cfg) (w : World) (hr : Reach cfg w) :
    w.owned.Nodup ∧ ∀ id, Cell.val id ∈ w.owned → id < w.created := by
  have h := reach_inv_core cfg w hr
  refine ⟨(List.nodup_append.mp h.nodup).1, ?_⟩
  intro id hid
  exact h.bound id (List.mem_append_left _ hid)

/-! non-vacuity: a reachable world with visible, held and destroyed elements, reached through a step
whose destructor call panics -/
def cfg0 : Cfg := { size := 8, align := 8, hasDrop := true }
def w1 : World := (runStep cfg0 (.new 0 .heap true) none {}).1
def w2 : World := (runStep cfg0 (.push 0 (.wrapper 0)) none w1).1
def w3 : World := (runStep cfg0 (.push 0 (.wrapper 0)) none w2).1
def w4 : World := (runStep cfg0 (.tpush 0) none w3).1
def w5 : World := (runStep cfg0 (.remove 0 0 .drop) (some 1) w4).1
def w6 : World := (runStep cfg0 (.tpop 0) none w4).1

theorem reach_w4 : Reach cfg0 w4 :=
  .step _ _ _ (.step _ _ _ (.step _ _ _ (.step _ _ _ .init trivial trivial) trivial
      ⟨⟨_, rfl, rfl⟩, fun _ _ _ hh => by cases hh⟩) trivial ⟨⟨_, rfl, rfl⟩, fun _ _ _ hh => by cases hh⟩)
    trivial ⟨_, rfl, rfl⟩
theorem reach_w5 : Reach cfg0 w5 := .step _ _ _ reach_w4 trivial ⟨⟨_, rfl, rfl⟩, trivial⟩
theorem reach_w6 : Reach cfg0 w6 := .step _ _ _ reach_w4 trivial ⟨_, rfl, rfl⟩

/-- the destructor of element 0 panicked inside `remove(0)`: element 0 is destroyed, the tail is leaked -/
example : w5.vis 0 = [] ∧ w5.dropLog = [0] ∧ (runStep cfg0 (.remove 0 0 .drop) (some 1) w4).2 = .panic "injected" := by
  decide
example : w4.vis 0 = [.val 0, .val 1, .val 2] := by decide
example : w6.vis 0 = [.val 0, .val 1] ∧ w6.held = [2] := by decide

end Hist
end AnyVec
