/-
  C07 — forgetting a removal handle or range iterator only leaks, exactly as documented.
  The handle constructors lower `len` *first*; `mem::forget` then simply skips the rest, so the
  vector keeps the prefix before the affected index and nothing else happens.
-/
import AnyVecModel.Proofs.Exec
import AnyVecModel.Proofs.KernelCtor
import AnyVecModel.Proofs.KernelTempDrop
import AnyVecModel.Proofs.KernelDrainDrop
import AnyVecModel.Props.Hist
import AnyVecModel.Props.Refine
namespace AnyVec
namespace C07
open World

theorem take_abs (d : VecSt) (i : Nat) (hi : i ≤ d.len) : ({ d with len := i } : VecSt).abs = d.abs.take i := by
  simp [VecSt.abs, List.take_take, Nat.min_eq_left hi]

/-- `remove(i)` / `swap_remove(i)` whose handle is forgotten: exactly the elements before `i` stay
(in place, unchanged); no destructor runs, nothing is duplicated, no other vector is touched. -/
theorem remove_forget (cfg : Cfg) (w : World) (v i : Nat) (d : VecSt)
    (hv : w.vecs[v]? = some d) (hl : d.live = true) (hi : i < d.len) :
    let r := step cfg (.remove v i .forget) w
    r.2 = .ok [] ∧ r.1.vis v = (w.vis v).take i ∧ (∀ u, u ≠ v → r.1.vis u = w.vis u) ∧
      r.1.dropLog = w.dropLog ∧ r.1.held = w.held ∧ r.1.created = w.created := by
  have hlt : v < w.vecs.length := (List.getElem?_eq_some_iff.mp hv).1
  have hd : w.vecs[v] = d := (List.getElem?_eq_some_iff.mp hv).2
  have he : step cfg (.remove v i .forget) w = (w.upd v { d with len := i }, .ok []) := by
    simp [step, getVec, hl, hlt, hd, hi, setLen, sinkHandle]
  intro r
  rw [show r = _ from he]
  refine ⟨rfl, ?_, ?_, rfl, rfl, rfl⟩
  · simp [World.vis, hlt, hd, take_abs d i (by omega)]
  · intro u hu; simp [World.vis, List.getElem?_set, Ne.symm hu]

theorem swap_remove_forget (cfg : Cfg) (w : World) (v i : Nat) (d : VecSt)
    (hv : w.vecs[v]? = some d) (hl : d.live = true) (hi : i < d.len) :
    let r := step cfg (.swapRemove v i .forget) w
    r.2 = .ok [] ∧ r.1.vis v = (w.vis v).take i ∧ (∀ u, u ≠ v → r.1.vis u = w.vis u) ∧
      r.1.dropLog = w.dropLog ∧ r.1.held = w.held := by
  have hlt : v < w.vecs.length := (List.getElem?_eq_some_iff.mp hv).1
  have hd : w.vecs[v] = d := (List.getElem?_eq_some_iff.mp hv).2
  have he : step cfg (.swapRemove v i .forget) w = (w.upd v { d with len := i }, .ok []) := by
    simp [step, getVec, hl, hlt, hd, hi, setLen, sinkHandle]
  intro r
  rw [show r = _ from he]
  refine ⟨rfl, ?_, ?_, rfl, rfl⟩
  · simp [World.vis, hlt, hd, take_abs d i (by omega)]
  · intro u hu; simp [World.vis, List.getElem?_set, Ne.symm hu]

/-- `pop()` whose handle is forgotten loses exactly the last element -/
theorem pop_forget (cfg : Cfg) (w : World) (v : Nat) (d : VecSt)
    (hv : w.vecs[v]? = some d) (hl : d.live = true) (hne : d.len ≠ 0) :
    let r := step cfg (.pop v .forget) w
    r.2 = .ok [] ∧ r.1.vis v = (w.vis v).take (d.len - 1) ∧ r.1.dropLog = w.dropLog ∧ r.1.held = w.held := by
  have hlt : v < w.vecs.length := (List.getElem?_eq_some_iff.mp hv).1
  have hd : w.vecs[v] = d := (List.getElem?_eq_some_iff.mp hv).2
  have he : step cfg (.pop v .forget) w = (w.upd v { d with len := d.len - 1 }, .ok []) := by
    simp [step, getVec, hl, hlt, hd, hne, setLen, sinkHandle]
  intro r
  rw [show r = _ from he]
  refine ⟨rfl, ?_, rfl, rfl⟩
  simp [World.vis, hlt, hd, take_abs d (d.len - 1) (by omega)]

/-- a drain iterator forgotten before anything was consumed: exactly the elements before the range
start stay; no destructor runs. (`len` was lowered to `start` by `Drain::new`.) -/
theorem drain_forget (cfg : Cfg) (w : World) (v : Nat) (lo hi : Bnd) (typed : Bool) (d : VecSt) (s e : Nat)
    (hv : w.vecs[v]? = some d) (hl : d.live = true) (hr : intoRange d.len lo hi = .ok (s, e)) (hs : s ≤ d.len) :
    let r := step cfg (.drain v lo hi typed [] .forget) w
    r.1.vis v = (w.vis v).take s ∧ r.1.dropLog = w.dropLog ∧ r.1.held = w.held ∧
      (∀ u, u ≠ v → r.1.vis u = w.vis u) := by
  have hlt : v < w.vecs.length := (List.getElem?_eq_some_iff.mp hv).1
  have hd : w.vecs[v] = d := (List.getElem?_eq_some_iff.mp hv).2
  have he : (step cfg (.drain v lo hi typed [] .forget) w).1 = w.upd v { d with len := s } := by
    simp [step, drain, getVec, hl, hlt, hd, hr, setLen, eatLoop]
  intro r
  rw [show r.1 = _ from he]
  refine ⟨?_, rfl, rfl, ?_⟩
  · simp [World.vis, hlt, hd, take_abs d s hs]
  · intro u hu; simp [World.vis, List.getElem?_set, Ne.symm hu]

/-! non-vacuity -/
def sampleVec : VecSt :=
  { ty := 0, size := 8, align := 8, hasDrop := true, cloneable := true, bk := .heap, cap := 4,
    cells := [.val 10, .val 11, .val 12], len := 3, gen := 0, live := true }
def sampleWorld : World := { vecs := [sampleVec], created := 13 }
example : (step { size := 8, align := 8, hasDrop := true } (.remove 0 1 .forget) sampleWorld).1.vis 0 = [.val 10] := by
  decide
example : (step { size := 8, align := 8, hasDrop := true } (.drain 0 (.incl 1) .unb false [] .forget) sampleWorld).1.vis 0
    = [.val 10] := by decide

/-! ### over whole histories -/

/-- **history theorem**: forgetting the handle of `pop` / `remove(i)` / `swap_remove(i)` (the `forget`
sink is a core step) keeps the world invariant, whatever was done before and whatever is done after. -/
theorem history_forget_handle_core (cfg : Cfg) (w : World) (hr : Hist.Reach cfg w) (v i : Nat)
    (hv : Hist.liveVec w.vecs v) :
    (runStep cfg (.remove v i .forget) none w).1.Inv ∧ (runStep cfg (.swapRemove v i .forget) none w).1.Inv ∧
      (runStep cfg (.pop v .forget) none w).1.Inv :=
  ⟨(Hist.runStep_inv cfg (.remove v i .forget) none w (Hist.reach_inv_core cfg w hr) trivial ⟨hv, trivial⟩).1,
   (Hist.runStep_inv cfg (.swapRemove v i .forget) none w (Hist.reach_inv_core cfg w hr) trivial ⟨hv, trivial⟩).1,
   (Hist.runStep_inv cfg (.pop v .forget) none w (Hist.reach_inv_core cfg w hr) trivial ⟨hv, trivial⟩).1⟩

/-- **history theorem**: forgetting a `Drain` at any stage of consumption (after any pattern of
`next`/`next_back`, items dropped, forgotten, downcast) keeps the world invariant. -/
theorem history_forget_drain_core (cfg : Cfg) (w : World) (hr : Hist.Reach cfg w) (v : Nat) (lo hi : Bnd)
    (typed : Bool) (eats : List (End × Sink)) (hv : Hist.liveVec w.vecs v) (hc : ∀ p ∈ eats, p.2.ValidItem w.vecs v typed) :
    (runStep cfg (.drain v lo hi typed eats .forget) none w).1.Inv :=
  (Hist.runStep_inv cfg (.drain v lo hi typed eats .forget) none w (Hist.reach_inv_core cfg w hr) trivial ⟨hv, hc⟩).1

/-! ### tie to the source text -/

/-- **source tie**: the model lowers a vector's length at the creation of a removal handle / range iterator
exactly as `Pop::new`, `Remove::new`, `SwapRemove::new`, `Drain::new`, `Splice::new` of `/repo/src/ops/*.rs` do
(re-translated on this run into `Gen/Kernel.lean`): the steps of the model continue from the length and the
fields those constructors produce. -/
theorem constructors_are_the_source (cfg : Cfg) (w : World) (v i : Nat) (k : Sink) (d : VecSt)
    (hv : w.vecs[v]? = some d) (hl : d.live = true) (hi : i < d.len) :
    (∃ len', Gen.Kernel.pop_new d.len = .ok (.made len' []) ∧
      step cfg (.pop v k) w = sinkHandle cfg { v := v, kind := .pop, typed := false } k (w.upd v { d with len := len' })) ∧
    (∃ len' idx last, Gen.Kernel.remove_new d.len i = .ok (.made len' [idx, last]) ∧
      step cfg (.remove v i k) w =
        sinkHandle cfg { v := v, kind := .remove idx last, typed := false } k (w.upd v { d with len := len' })) ∧
    (∃ len' slot last, Gen.Kernel.swap_remove_new d.len i = .ok (.made len' [slot, last]) ∧
      step cfg (.swapRemove v i k) w =
        sinkHandle cfg { v := v, kind := .swapRemove slot d.gen last, typed := false } k (w.upd v { d with len := len' })) :=
  ⟨KernelTie.pop_ctor_tie cfg w v k d hv hl (by omega), KernelTie.remove_ctor_tie cfg w v i k d hv hl hi,
   KernelTie.swap_remove_ctor_tie cfg w v i k d hv hl hi⟩

theorem range_constructors_are_the_source (cfg : Cfg) (w : World) (v : Nat) (lo hi : Bnd) (typed : Bool)
    (eats : List (End × Sink)) (fin : Fin) (d : VecSt) (s e : Nat) (hv : w.vecs[v]? = some d) (hl : d.live = true)
    (hr : intoRange d.len lo hi = .ok (s, e)) :
    (∃ len' fields, Gen.Kernel.drain_new d.len s e = .ok (.made len' fields) ∧
      step cfg (.drain v lo hi typed eats fin) w =
        (do let (it', out) ← eatLoop cfg drainDrop (KernelTie.itOf v typed fields) eats [toString (e - s)]
            match fin with
            | .drop => do drainDrop it'; pure out
            | .forget => pure out : WM Out) (w.upd v { d with len := len' })) ∧
    Gen.Kernel.splice_new d.len s e = Gen.Kernel.drain_new d.len s e :=
  ⟨KernelTie.drain_ctor_tie cfg w v lo hi typed eats fin d s e hv hl hr, (KernelTie.splice_ctor_tie d s e).2⟩

/-- **source tie**: what a forgotten handle or range iterator leaves undone is exactly what its destructor would
have done, as the source says on this run: `impl Drop for TempValue` = destructor of the slot, then `consume()`;
`impl Drop for Drain` = drop the unyielded items, close the gap, restore `len`. Forgetting skips all of it, and the
constructors (above) have already lowered `len`, so the vector is the prefix. -/
theorem skipped_destructors_are_the_source (w : World) (h : Handle) (d : VecSt) (hv : w.vecs[h.v]? = some d)
    (hl : d.live = true) (it : RangeIt) :
    hDrop h w =
      (do let slot ← hSlot h
          if h.typed || d.hasDrop then
            KernelTie.runCmds (KernelTie.hCtx h) (Gen.Kernel.temp_drop_cmds slot h.typed d.hasDrop)
          else do
            let id ← readElem h.v slot
            dropElem false id
            KernelTie.runCmds (KernelTie.hCtx h) (Gen.Kernel.temp_drop_cmds slot h.typed d.hasDrop)) w ∧
    drainDrop it =
      KernelTie.runCmds { v := it.v, typed := it.typed }
        (Gen.Kernel.drain_drop_cmds it.index it.end_ it.start it.end0 it.origLen) :=
  ⟨KernelTie.temp_drop_tie w h d hv hl, KernelTie.drain_drop_tie it⟩

/-! ### forgetting inside whole histories (Props/Refine.lean) -/

/-- **forgetting only leaks, anywhere in a history**: mixed in any order with every other operation of the refinement,
`mem::forget` of the handle of `pop()` / `remove(i)` / `swap_remove(i)` or of an untouched `drain(a..b)` leaves the vector
showing exactly the items before the place the operation started at (`take (len-1)`, `take i`, `take a`; nothing when the
call itself was refused) - nothing is destroyed, nothing is duplicated, the capacity is untouched, and the history goes on
from there like on the abstract vector. -/
theorem forgetting_only_leaks_in_histories {bg : Nat → Option VecSt} (cfg : Cfg) (v ty : Nat) (ops : List Refine.VOp)
    (w : World) (s : Refine.Spec) (h : Refine.Rel bg v ty w s) (hall : ∀ op ∈ ops, op.Allowed s.fixed) :
    ∃ s', Refine.Spec.Steps s ops s' ∧ Refine.Rel bg v ty (Refine.runOps cfg v ty w ops) s' :=
  Refine.history_refines cfg v ty ops w s h hall

/-- what the abstract vector does on a forgotten `remove(i)` handle: exactly the prefix stays -/
theorem forgotten_remove_keeps_prefix (s s' : Refine.Spec) (i : Nat) (hi : i < s.items.length)
    (h : Refine.Spec.Step s (.removeForget i) s') :
    s'.items = s.items.take i ∧ s'.cap = s.cap ∧ s'.next = s.next := by
  cases h with
  | removeForget _ _ => exact ⟨rfl, rfl, rfl⟩
  | removeForgetOut _ hle => omega

end C07
end AnyVec
