/-
  C10 — capacity management on resizable storage keeps its promises.
  Theorems about `AnyVecRaw::{reserve, reserve_exact, shrink_to_fit, shrink_to}`, `Mem::expand`,
  `MemResizable::resize` of the model, for the heap backend and the relocating user backend.
-/
import AnyVecModel.Proofs.Vec
import AnyVecModel.Proofs.KernelCap
import AnyVecModel.Proofs.KernelDelegCap
import AnyVecModel.Props.Refine
import AnyVecModel.Props.RefineMulti
namespace AnyVec
namespace C10
variable {bg : Nat → Option VecSt}

/-- `len ≤ capacity` is part of the representation invariant … -/
theorem len_le_capacity (v : VecSt) (h : v.WF) : v.len ≤ v.cap := h.len_le_cap

/-- `reserve(n)` that returns leaves `capacity ≥ len + n`, the elements and the length unchanged,
the invariant intact — on every backend. -/
theorem reserve_spec (v v' : VecSt) (n : Nat) (es : List Event) (hwf : v.WF)
    (h : v.reserve n = .ok (v', es)) :
    v.len + n ≤ v'.cap ∧ v'.len = v.len ∧ v'.abs = v.abs ∧ v'.WF := by
  unfold VecSt.reserve at h
  cases hca : checkedAdd v.len n with
  | ok r =>
    obtain ⟨hr, _⟩ := checkedAdd_ok _ _ _ hca
    rw [hca] at h
    simp only at h
    split at h
    · obtain ⟨hc, hl, ha, hw, _⟩ := memExpand_spec v v' _ es hwf h
      exact ⟨by omega, hl, ha, hw⟩
    · cases h
      exact ⟨by omega, rfl, rfl, hwf⟩
  | panic m => rw [hca] at h; cases h
  | ub m => rw [hca] at h; cases h

/-- … without any storage call and without changing the capacity when it already suffices … -/
theorem reserve_noop (v : VecSt) (n : Nat) (hfit : v.len + n ≤ v.cap) (hrep : v.len + n ≤ USIZE_MAX) :
    v.reserve n = .ok (v, []) ∧ v.reserveExact n = .ok (v, []) := by
  have hn : ¬ v.cap < v.len + n := by omega
  simp [VecSt.reserve, VecSt.reserveExact, checkedAdd, hrep, hn]

/-- … and panicking, not returning, when `len + n` is not representable (dev and release alike:
the model has no wrapping addition here). -/
theorem reserve_overflow (v : VecSt) (n : Nat) (h : USIZE_MAX < v.len + n) :
    (∃ m, v.reserve n = .panic m) ∧ (∃ m, v.reserveExact n = .panic m) := by
  have hn : ¬ v.len + n ≤ USIZE_MAX := by omega
  simp [VecSt.reserve, VecSt.reserveExact, checkedAdd, hn]

theorem reserve_exact_spec (v v' : VecSt) (n : Nat) (es : List Event) (hwf : v.WF)
    (h : v.reserveExact n = .ok (v', es)) :
    v.len + n ≤ v'.cap ∧ v'.len = v.len ∧ v'.abs = v.abs ∧ v'.WF := by
  have hlc := hwf.len_le_cap
  unfold VecSt.reserveExact at h
  cases hca : checkedAdd v.len n with
  | ok r =>
    obtain ⟨hr, _⟩ := checkedAdd_ok _ _ _ hca
    rw [hca] at h
    simp only at h
    split at h
    · unfold VecSt.memExpandExact at h
      obtain ⟨hc, hl, ha, hw, _⟩ := memResize_spec v v' _ es hwf (by omega) h
      exact ⟨by omega, hl, ha, hw⟩
    · cases h
      exact ⟨by omega, rfl, rfl, hwf⟩
  | panic m => rw [hca] at h; cases h
  | ub m => rw [hca] at h; cases h

/-- `shrink_to(m)` never grows the capacity, never goes below `max(len, m)` unless it already was,
and ends at exactly `min(capacity, max(len, m))`; elements unchanged. -/
theorem shrink_to_spec (v v' : VecSt) (m : Nat) (es : List Event) (hwf : v.WF)
    (h : v.shrinkTo m = .ok (v', es)) :
    v'.cap = min v.cap (max v.len m) ∧ v'.cap ≤ v.cap ∧ v.len ≤ v'.cap ∧
      v'.len = v.len ∧ v'.abs = v.abs ∧ v'.WF := by
  have hlc := hwf.len_le_cap
  unfold VecSt.shrinkTo at h
  obtain ⟨hc, hl, ha, hw, _⟩ := memResize_spec v v' _ es hwf (by omega) h
  exact ⟨hc, by omega, by omega, hl, ha, hw⟩

/-- `shrink_to_fit` ends at exactly `len`. -/
theorem shrink_to_fit_spec (v v' : VecSt) (es : List Event) (hwf : v.WF)
    (h : v.shrinkToFit = .ok (v', es)) :
    v'.cap = v.len ∧ v'.cap ≤ v.cap ∧ v'.len = v.len ∧ v'.abs = v.abs ∧ v'.WF := by
  have hlc := hwf.len_le_cap
  unfold VecSt.shrinkToFit at h
  obtain ⟨hc, hl, ha, hw, _⟩ := memResize_spec v v' _ es hwf (by omega) h
  exact ⟨hc, by omega, hl, ha, hw⟩

/-- `with_capacity(n)` (build + `resize(n)`) yields capacity `n ≥ n`. -/
theorem with_capacity_spec (v v' : VecSt) (n : Nat) (es : List Event) (hwf : v.WF) (h0 : v.len = 0)
    (h : v.memResize n = .ok (v', es)) : n ≤ v'.cap ∧ v'.len = 0 := by
  obtain ⟨hc, hl, _⟩ := memResize_spec v v' n es hwf (by omega) h
  exact ⟨by omega, by omega⟩

/-- growth on the heap at least doubles (and makes room for the request) -/
theorem heap_expand_doubles (v v' : VecSt) (a : Nat) (es : List Event) (hbk : v.bk = .heap)
    (hwf : v.WF) (h : v.memExpand a = .ok (v', es)) (hsmall : v.cap * 2 ≤ USIZE_MAX) :
    2 * v.cap ≤ v'.cap ∧ v.cap + a ≤ v'.cap := by
  have hlc := hwf.len_le_cap
  unfold VecSt.memExpand at h
  rw [hbk] at h
  simp only at h
  cases hca : checkedAdd v.cap a with
  | ok r =>
    obtain ⟨hr, _⟩ := checkedAdd_ok _ _ _ hca
    rw [hca] at h
    obtain ⟨hc, _⟩ := heapResize_spec v v' _ es hwf (by omega) h
    simp [satMul, hsmall] at hc
    omega
  | panic m => rw [hca] at h; cases h
  | ub m => rw [hca] at h; cases h

theorem heapResize_cap (v v' : VecSt) (n : Nat) (es : List Event) (h : v.heapResize n = .ok (v', es)) :
    v'.cap = n ∧ v'.len = v.len ∧ v'.bk = v.bk := by
  unfold VecSt.heapResize at h
  split at h
  · cases h; simp_all
  · split at h
    · cases h; simp
    · split at h
      · cases h; simp_all
      · split at h
        · split at h
          · cases h
          · cases h; simp
        · cases h
        · cases h

/-- one `push` as far as capacity is concerned: `reserve_one`, then `len += 1`; the flag tells
whether the capacity changed -/
def pushCap (v : VecSt) : Option (VecSt × Bool) :=
  match v.reserveOne with
  | .ok (v', _) => some ({ v' with len := v'.len + 1 }, v'.cap != v.cap)
  | _ => none

/-- `n` pushes; counts the capacity changes -/
def pushesCap : Nat → VecSt → Nat → Option (VecSt × Nat)
  | 0, v, k => some (v, k)
  | n+1, v, k =>
    match pushCap v with
    | some (v', ch) => pushesCap n v' (if ch then k + 1 else k)
    | none => none

/-- invariant of a push run on the heap: after `k ≥ 1` capacity changes the capacity is at least
`2^(k-1)`, and it never exceeds twice the length -/
def GrowInv (v : VecSt) (k : Nat) : Prop :=
  v.bk = .heap ∧ v.len ≤ v.cap ∧ (k = 0 ∨ 2 ^ (k - 1) ≤ v.cap) ∧ v.cap ≤ 2 * v.len

theorem pushCap_inv (v v' : VecSt) (k : Nat) (ch : Bool) (h : pushCap v = some (v', ch))
    (hi : GrowInv v k) (hsmall : v.cap * 2 ≤ USIZE_MAX) :
    GrowInv v' (if ch then k + 1 else k) ∧ v'.len = v.len + 1 := by
  obtain ⟨hbk, hlc, hk, hcap⟩ := hi
  unfold pushCap at h
  split at h
  · rename_i v1 es hr
    cases h
    unfold VecSt.reserveOne at hr
    split at hr
    · -- len = cap: the storage grows
      rename_i hfull
      unfold VecSt.memExpand at hr
      rw [hbk] at hr
      simp only at hr
      cases hca : checkedAdd v.cap 1 with
      | ok r =>
        obtain ⟨hr1, hle⟩ := checkedAdd_ok _ _ _ hca
        rw [hca] at hr
        obtain ⟨hc, hl, hb⟩ := heapResize_cap v v1 _ es hr
        have hsm : satMul v.cap 2 = v.cap * 2 := by unfold satMul; rw [if_pos hsmall]
        rw [hsm, hr1] at hc
        have hne : (v1.cap != v.cap) = true := by
          simp; omega
        simp only [hne, if_true]
        have h2 : k = 0 ∨ 2 ^ k = 2 * 2 ^ (k - 1) := by
          cases k with
          | zero => left; rfl
          | succ j => right; simp [Nat.pow_succ]; omega
        refine ⟨⟨by simpa using hb.trans hbk, by simp; omega, ?_, by simp; omega⟩, by simp [hl]⟩
        right
        simp only [Nat.add_sub_cancel]
        rcases hk with hk0 | hk1
        · subst hk0; simp; omega
        · rcases h2 with h0 | h2
          · subst h0; simp; omega
          · omega
      | panic m => rw [hca] at hr; cases hr
      | ub m => rw [hca] at hr; cases hr
    · -- room left: nothing happens
      rename_i hroom
      cases hr
      have : (v.cap != v.cap) = false := by simp
      simp only [this]
      refine ⟨⟨hbk, by simp; omega, hk, by simp; omega⟩, by simp⟩
  · cases h

/-- **amortised growth**: `n` pushes into an empty heap vector change the capacity `k` times with
`2^k ≤ 4·n` (so `k ≤ log2 n + 2`), as long as capacities stay below half the address space. -/
theorem pushes_amortised (n : Nat) (v v' : VecSt) (k k' : Nat) (h : pushesCap n v k = some (v', k'))
    (hi : GrowInv v k) (hsmall : 2 * (v.len + n) * 2 ≤ USIZE_MAX) :
    GrowInv v' k' ∧ v'.len = v.len + n := by
  induction n generalizing v k with
  | zero => simp [pushesCap] at h; obtain ⟨rfl, rfl⟩ := h; exact ⟨hi, rfl⟩
  | succ n ih =>
    simp only [pushesCap] at h
    split at h
    · rename_i v1 ch h1
      have hcap := hi.2.2.2
      obtain ⟨hi1, hl1⟩ := pushCap_inv v v1 k ch h1 hi (by omega)
      obtain ⟨hi2, hl2⟩ := ih v1 _ h hi1 (by omega)
      exact ⟨hi2, by omega⟩
    · cases h

theorem pushes_logarithmic (n : Nat) (v v' : VecSt) (k' : Nat) (hn : 1 ≤ n)
    (hbk : v.bk = .heap) (h0 : v.len = 0) (hc0 : v.cap = 0)
    (h : pushesCap n v 0 = some (v', k')) (hsmall : 2 * n * 2 ≤ USIZE_MAX) :
    2 ^ k' ≤ 4 * n := by
  have hi : GrowInv v 0 := ⟨hbk, by omega, Or.inl rfl, by omega⟩
  obtain ⟨⟨_, _, hk, hcap⟩, hl⟩ := pushes_amortised n v v' 0 k' h hi (by omega)
  rcases hk with hk0 | hk1
  · subst hk0; simp; omega
  · cases k' with
    | zero => simp; omega
    | succ j =>
      have h2 : 2 ^ (j + 1) = 2 * 2 ^ j := by rw [Nat.pow_succ]; omega
      simp only [Nat.add_sub_cancel] at hk1
      omega

/-! non-vacuity -/
def emptyHeap : VecSt :=
  { ty := 0, size := 8, align := 8, hasDrop := true, cloneable := true, bk := .heap, cap := 0,
    cells := [], len := 0, gen := 0, live := true }
example : (pushesCap 9 emptyHeap 0).map (fun r => (r.1.cap, r.2)) = some (16, 5) := by decide
example : emptyHeap.WF := by decide
example : (emptyHeap.reserve 3).isOk = true := by decide

/-! ### tie to the source text -/

/-- **source tie**: the model's capacity calls are the functions of `/repo/src/any_vec_raw.rs` and
`/repo/src/mem/{heap,mod}.rs` as re-translated on this run (`Gen/Kernel.lean`), composed with the modelled
backend call: same checked addition, same comparison, same request, same growth policy. -/
theorem capacity_calls_are_the_source (v : VecSt) (n : Nat) :
    v.reserve n = KernelTie.applyEff v (Gen.Kernel.reserve v.len v.cap n) ∧
    v.reserveExact n = KernelTie.applyEff v (Gen.Kernel.reserve_exact v.len v.cap n) ∧
    v.shrinkToFit = KernelTie.applyEff v (Gen.Kernel.shrink_to_fit v.len v.cap) ∧
    v.shrinkTo n = KernelTie.applyEff v (Gen.Kernel.shrink_to v.len v.cap n) ∧
    v.memExpandExact n = KernelTie.applyEff v (Gen.Kernel.expand_exact_default v.cap n) :=
  ⟨KernelTie.reserve_tie v n, KernelTie.reserve_exact_tie v n, (KernelTie.shrink_tie v n).1, (KernelTie.shrink_tie v n).2,
   KernelTie.expand_exact_tie v n⟩

theorem heap_growth_is_the_source (v : VecSt) (a : Nat) (hb : v.bk = .heap) :
    v.memExpand a =
      match Gen.Kernel.heap_expand v.cap a with
      | .ok (.resize n) => v.heapResize n
      | .ok _ => .ub "kernel: unexpected result"
      | .panic m => .panic m
      | .ub m => .ub m :=
  KernelTie.heap_expand_tie v a hb

/-- **source tie**: the capacity calls of the erased and the typed API reach the raw vector unchanged (same argument), `capacity()` is the storage's `size()`, a fixed-capacity backend's `expand` is the panic "Can't change capacity!", `expand_exact` defaults to `resize(size() + additional)`, `build_with_size` is `build` + `resize(capacity)`, and dropping a raw vector is `clear()` - as the source has them on this run. -/
theorem capacity_delegations_are_the_source (len : Nat) (index : Nat) (known : Bool) :
    Gen.Kernel.anyvec_reserve_trace len index = [.call "reserve" [index]] ∧
    Gen.Kernel.anyvec_reserve_exact_trace len index = [.call "reserve_exact" [index]] ∧
    Gen.Kernel.anyvec_shrink_to_fit_trace len index = [.call "shrink_to_fit" []] ∧
    Gen.Kernel.anyvec_shrink_to_trace len index = [.call "shrink_to" [index]] ∧
    Gen.Kernel.anyvec_set_len_trace len index = [.call "set_len" [index]] ∧
    Gen.Kernel.anyvec_capacity_trace len index = [.call "capacity" []] ∧
    Gen.Kernel.raw_capacity_trace len index = [.call "size" []] ∧
    Gen.Kernel.raw_drop_trace len index = [.call "clear" []] ∧
    Gen.Kernel.typed_reserve_trace len index = [.call "reserve" [index]] ∧
    Gen.Kernel.typed_reserve_exact_trace len index = [.call "reserve_exact" [index]] ∧
    Gen.Kernel.typed_shrink_to_fit_trace len index = [.call "shrink_to_fit" []] ∧
    Gen.Kernel.typed_shrink_to_trace len index = [.call "shrink_to" [index]] ∧
    Gen.Kernel.typed_set_len_trace len index = [.call "set_len" [index]] ∧
    Gen.Kernel.typed_capacity_trace len index = [.call "capacity" []] ∧
    Gen.Kernel.mem_expand_default_trace known = [.panic "Can't change capacity!"] ∧
    Gen.Kernel.mem_expand_exact_default_trace known = [.call "size" [], .call "resize" []] ∧
    Gen.Kernel.heap_build_with_size_trace len index = [.call "build" [], .call "resize" [index]] :=
  KernelTie.deleg_capacity_tie len index known

/-! ### the capacity rules over whole histories (Props/Refine.lean) -/

/-- **`reserve(n)` keeps its promise in every reachable situation**: from any world related to an abstract vector
(any fault-free reachable world is), `reserve(n)` either is refused - then `capacity < len + n` held and nothing
changed - or the following `n` pushes are all accepted without the capacity moving: the world then shows the old items
followed by the `n` new ones. -/
theorem reserve_then_pushes (cfg : Cfg) (v ty n : Nat) (w : World) (s : Refine.Spec) (h : Refine.Rel bg v ty w s) :
    ∃ s1, Refine.Rel bg v ty (World.step cfg (.reserve v n) w).1 s1 ∧ s1.items = s.items ∧
      ((s1 = s ∧ s.cap < s.items.length + n) ∨
       ∃ s', Refine.Rel bg v ty (Refine.runOps cfg v ty (World.step cfg (.reserve v n) w).1 (List.replicate n .push)) s' ∧
         s'.items = s.items ++ List.range' s.next n ∧ s'.cap = s1.cap) :=
  Refine.reserve_then_pushes cfg v ty n w s h

/-- **capacity requests over any history**: every sequence of element and capacity operations refines the abstract
vector with its capacity (`Refine.Spec.Step`): `reserve(n)` ends with `len + n ≤ capacity` or is refused,
`reserve_exact(n)` grows to exactly `len + n`, `shrink_to_fit` ends at `len`, `shrink_to(m)` at
`min(capacity, max(len, m))`, none of them touches the items, and element operations change the capacity only by
growing a full vector. -/
theorem capacity_history_refines (cfg : Cfg) (v ty : Nat) (ops : List Refine.VOp) (w : World) (s : Refine.Spec)
    (h : Refine.Rel bg v ty w s) (hall : ∀ op ∈ ops, op.Allowed s.fixed) :
    ∃ s', Refine.Spec.Steps s ops s' ∧ Refine.Rel bg v ty (Refine.runOps cfg v ty w ops) s' :=
  Refine.history_refines cfg v ty ops w s h hall

/-! ### `with_capacity` against the abstract state of all vectors (Props/RefineMulti.lean) -/

/-- **`with_capacity(n)` gives an empty vector of capacity exactly `n`, or nothing**: in any world that shows an abstract
state of all its vectors (every fault-free reachable world does), `AnyVec::with_capacity_in(n, ..)` on a growable storage
leads to a world that shows the same state plus one new last vector - empty, of the requested element type and trait set,
growable, with capacity *exactly* `n` (also for `n = 0` and for zero-sized elements) - and the call returns; or the
request cannot be met (`n` elements exceed what a layout can describe): the call panics and the world shows the same
state plus a *released* vector (`none`): the half-built storage is given back, no destructor runs, no identity is made -
which can only happen to a request that takes memory (`n ≠ 0`, element size `≠ 0`).
Nothing else changes either way. -/
theorem with_capacity_refines (cfg : Cfg) (w : World) (ms : RefineMulti.MSpec) (h : RefineMulti.MRel w ms) (ty : Nat)
    (bk : Backend) (cl : Bool) (n : Nat) (hr : VecSt.resizable bk = true) :
    (RefineMulti.MRel (World.step cfg (.withCap ty bk cl n) w).1 ⟨ms.vecs ++ [some ⟨ty, [], n, false, cl⟩], ms.next⟩ ∧
        (World.step cfg (.withCap ty bk cl n) w).2 = .ok []) ∨
    (∃ m, RefineMulti.MRel (World.step cfg (.withCap ty bk cl n) w).1 ⟨ms.vecs ++ [none], ms.next⟩ ∧
        (World.step cfg (.withCap ty bk cl n) w).2 = .panic m ∧ n ≠ 0 ∧ cfg.size ≠ 0) :=
  RefineMulti.with_capacity_refines cfg w ms h ty bk cl n hr

/-- **`with_capacity(n)` keeps its promise**: when `with_capacity(n)` returns, the new vector takes `n` pushes - none
refused, none growing the storage: afterwards it shows exactly the `n` new items at capacity `n`, every other vector as
it was. -/
theorem with_capacity_then_pushes (cfg : Cfg) (w : World) (ms : RefineMulti.MSpec) (h : RefineMulti.MRel w ms) (ty : Nat)
    (bk : Backend) (cl : Bool) (n : Nat) (hr : VecSt.resizable bk = true)
    (hok : (World.step cfg (.withCap ty bk cl n) w).2 = .ok []) :
    ∃ s', Refine.Rel (fun u => (World.step cfg (.withCap ty bk cl n) w).1.vecs[u]?) ms.vecs.length ty
        (Refine.runOps cfg ms.vecs.length ty (World.step cfg (.withCap ty bk cl n) w).1 (List.replicate n .push)) s' ∧
      s'.items = List.range' ms.next n ∧ s'.cap = n :=
  RefineMulti.with_capacity_then_pushes cfg w ms h ty bk cl n hr hok

/-- … and what follows is a life cycle like any other: a script `with_capacity(n)` followed by any life-cycle script is a
life-cycle script of the abstract machine (`RefineMulti.AOp.withCap`), so everything `reserve_then_pushes` and
`capacity_history_refines` say about a vector of capacity `n` applies to the new vector. -/
theorem with_capacity_starts_a_life_cycle (cfg : Cfg) (ops : List RefineMulti.AOp) (w : World) (ms : RefineMulti.MSpec)
    (h : RefineMulti.MRel w ms) (ty : Nat) (bk : Backend) (cl : Bool) (n : Nat)
    (hsafe : RefineMulti.Safe cfg ms (.withCap ty bk cl n :: ops)) :
    ∃ ms', RefineMulti.ASteps cfg ms (.withCap ty bk cl n :: ops) ms' ∧
      RefineMulti.MRel (RefineMulti.arun cfg w (.withCap ty bk cl n :: ops)) ms' :=
  RefineMulti.life_cycles_refine cfg _ w ms h hsafe

end C10
end AnyVec
