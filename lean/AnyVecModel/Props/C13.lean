/-
  C13 — element handles address exactly the requested element; views stay coherent.
  In the model every view (erased reference, typed slice, byte view, removal handle) reads the same
  `cells`; what has to be shown is *which* slot an operation touches and that it touches no other.
-/
import AnyVecModel.Proofs.Exec
import AnyVecModel.Proofs.KernelApiAccess
import AnyVecModel.Proofs.KernelDelegAccess
import AnyVecModel.Proofs.KernelDelegValue
import AnyVecModel.Props.Refine
import AnyVecModel.Props.RefineMulti
import AnyVecModel.Proofs.KernelSwap
namespace AnyVec
namespace C13
variable {bg : Nat → Option VecSt}
open World

/-- `get(i)` / `at(i)` read exactly slot `i` when `i < len`, change nothing, … -/
theorem get_in_range (cfg : Cfg) (w : World) (v i id : Nat) (atP : Bool) (d : VecSt)
    (hv : w.vecs[v]? = some d) (hl : d.live = true) (hwf : d.WF) (hi : i < d.len)
    (hc : d.cells.get i = .val id) :
    step cfg (.get v i atP) w = (w, .ok [cfg.tok id]) := by
  have hlt : v < w.vecs.length := (List.getElem?_eq_some_iff.mp hv).1
  have hd : w.vecs[v] = d := (List.getElem?_eq_some_iff.mp hv).2
  have hb : i < d.cap := by have := hwf.len_le_cap; omega
  simp [step, getVec, hl, hlt, hd, hi, readElem, VecSt.readElem_ok, hb, hc]

/-- … and yield `None` (`get`) or panic (`at`) when `i ≥ len`, again changing nothing. -/
theorem get_out_of_range (cfg : Cfg) (w : World) (v i : Nat) (d : VecSt)
    (hv : w.vecs[v]? = some d) (hl : d.live = true) (hi : d.len ≤ i) :
    step cfg (.get v i false) w = (w, .ok ["N"]) ∧
    (∃ m, (step cfg (.get v i true) w).2 = .panic m) ∧ (step cfg (.get v i true) w).1.vecs = w.vecs := by
  have hlt : v < w.vecs.length := (List.getElem?_eq_some_iff.mp hv).1
  have hd : w.vecs[v] = d := (List.getElem?_eq_some_iff.mp hv).2
  have : ¬ i < d.len := by omega
  simp [step, getVec, hl, hlt, hd, this]

/-- the `k`-th item of the iterator is slot `k`: iteration reads the slots the cursor yields
(`C14.run_spec` says which those are) -/
theorem iter_reads_cursor_slot (cfg : Cfg) (w : World) (v id : Nat) (c : Cursor) (e : End) (es : List End)
    (out : Out) (d : VecSt) (slot : Nat) (c' : Cursor)
    (hv : w.vecs[v]? = some d) (hl : d.live = true) (hs : c.step e = (some slot, c'))
    (hb : slot < d.cap) (hc : d.cells.get slot = .val id) :
    iterGo cfg v c (e :: es) out w = iterGo cfg v c' es (out ++ [cfg.tok id ++ ":" ++ toString c'.len]) w := by
  have hlt : v < w.vecs.length := (List.getElem?_eq_some_iff.mp hv).1
  have hd : w.vecs[v] = d := (List.getElem?_eq_some_iff.mp hv).2
  simp [iterGo, hs, readElem, getVec, hl, hlt, hd, VecSt.readElem_ok, hb, hc]

/-- a swap through the byte view / typed slice exchanges exactly slots `i` and `j` of that vector:
every other slot of it and every other vector is unchanged, nothing is created or destroyed -/
theorem swap_exchanges_two (cfg : Cfg) (w : World) (v i j : Nat) (d : VecSt)
    (hv : w.vecs[v]? = some d) (hl : d.live = true) (hwf : d.WF) (hi : i < d.len) (hj : j < d.len) :
    let r := step cfg (.swapb v i j) w
    r.2 = .ok [] ∧ r.1.dropLog = w.dropLog ∧ r.1.created = w.created ∧
      (∀ u, u ≠ v → r.1.vecs[u]? = w.vecs[u]?) ∧
      ∃ d', r.1.vecs[v]? = some d' ∧ d'.len = d.len ∧
        d'.cells.get i = d.cells.get j ∧ d'.cells.get j = d.cells.get i ∧
        ∀ k, k ≠ i → k ≠ j → d'.cells.get k = d.cells.get k := by
  have hlt : v < w.vecs.length := (List.getElem?_eq_some_iff.mp hv).1
  have hd : w.vecs[v] = d := (List.getElem?_eq_some_iff.mp hv).2
  have h1 := hwf.len_le; have h2 := hwf.cells_le
  have hbi : i < d.cap := by omega
  have hbj : j < d.cap := by omega
  have e1 : d.cells.ensure (i + 1) = d.cells := ensure_of_le _ _ (by omega)
  have he : step cfg (.swapb v i j) w =
      (w.upd v { d with cells := (d.cells.set i (d.cells.get j)).set j (d.cells.get i) }, .ok []) := by
    have e2 : Mem.ensure (d.cells.set i (d.cells.get j)) (j + 1) = d.cells.set i (d.cells.get j) :=
      ensure_of_le _ _ (by simp; omega)
    simp [step, getVec, hl, hlt, hd, hi, hj, World.writeCell, VecSt.writeCell_ok, hbi, hbj, e1, e2, World.upd]
  intro r
  rw [show r = _ from he]
  refine ⟨rfl, rfl, rfl, ?_, { d with cells := (d.cells.set i (d.cells.get j)).set j (d.cells.get i) },
    by simp [hlt], rfl, ?_, ?_, ?_⟩
  · intro u hu; simp [List.getElem?_set, Ne.symm hu]
  · by_cases hij : i = j
    · subst hij
      simp only [List.set_set]
      exact get_set_self _ _ _ (by omega)
    · rw [get_set_ne _ _ _ _ (Ne.symm hij), get_set_self _ _ _ (by omega)]
  · rw [get_set_self _ _ _ (by simp; omega)]
  · intro k hki hkj
    rw [get_set_ne _ _ _ _ (Ne.symm hkj), get_set_ne _ _ _ _ (Ne.symm hki)]

/-! non-vacuity -/
def sampleVec : VecSt :=
  { ty := 0, size := 8, align := 8, hasDrop := true, cloneable := true, bk := .heap, cap := 4,
    cells := [.val 10, .val 11, .val 12], len := 3, gen := 0, live := true }
def sampleWorld : World := { vecs := [sampleVec], created := 13 }
example : (step { size := 8, align := 8, hasDrop := true } (.swapb 0 0 2) sampleWorld).1.vis 0
    = [.val 12, .val 11, .val 10] := by decide
example : (step { size := 8, align := 8, hasDrop := true } (.get 0 1 false) sampleWorld).2 = .ok ["11"] := by decide

/-- **source tie**: the bounds of the element accessors are the source's on this run: `get(i)` / `get_mut(i)` hand out
`get_unchecked(i)` / `get_unchecked_mut(i)` exactly when `i < len` and `None` otherwise; `at` / `at_mut` are
`get(i).unwrap()` / `get_mut(i).unwrap()`; the typed accessors go through the typed slice (whose extent is `len`,
see C12); the model's `get`/`at` answer accordingly. -/
theorem accessors_are_the_source (cfg : Cfg) (w : World) (v i : Nat) (d : VecSt) (hv : w.vecs[v]? = some d)
    (hl : d.live = true) :
    (Gen.Kernel.anyvec_get_trace d.len i = [.branch (decide (i < d.len)) [.call "get_unchecked" [i], .retSome] [.retNone]] ∧
     Gen.Kernel.anyvec_get_mut_trace d.len i =
       [.branch (decide (i < d.len)) [.call "get_unchecked_mut" [i], .retSome] [.retNone]] ∧
     Gen.Kernel.anyvec_at_trace d.len i = [.call "get" [i], .unwrap] ∧
     Gen.Kernel.anyvec_at_mut_trace d.len i = [.call "get_mut" [i], .unwrap] ∧
     Gen.Kernel.typed_get_trace d.len i = [.call "as_slice" [], .call "get" [i]] ∧
     Gen.Kernel.typed_get_mut_trace d.len i = [.call "as_mut_slice" [], .call "get_mut" [i]] ∧
     Gen.Kernel.typed_at_trace d.len i = [.call "get" [i], .unwrap] ∧
     Gen.Kernel.typed_at_mut_trace d.len i = [.call "get_mut" [i], .unwrap] ∧
     Gen.Kernel.anyvec_iter_trace d.len i = [.call "Iter::new" [0, d.len]] ∧
     Gen.Kernel.anyvec_iter_mut_trace d.len i = [.call "Iter::new" [0, d.len]]) ∧
    (¬ i < d.len → step cfg (.get v i false) w = (w, .ok ["N"]) ∧
      step cfg (.get v i true) w = WM.panic "called `Option::unwrap()` on a `None` value" w) ∧
    (i < d.len → step cfg (.get v i false) w = (do let id ← readElem v i; pure [cfg.tok id] : WM Out) w ∧
      step cfg (.get v i true) w = step cfg (.get v i false) w) := by
  have a := KernelTie.anyvec_access_tie d.len i
  have t := KernelTie.typed_access_tie d.len i
  have g := KernelTie.get_tie cfg w v i d hv hl
  exact ⟨⟨g.1, a.2.1, a.2.2.1, a.2.2.2.1, t.1, t.2.1, t.2.2.1, t.2.2.2.1, a.2.2.2.2.1, a.2.2.2.2.2.1⟩, g.2.1, g.2.2⟩

/-- **source tie**: the unchecked accessors and the range-iterator wrapper are plain forwards (same index, no ownership taken) - as the source has them on this run. -/
theorem unchecked_accessors_are_the_source (len : Nat) (index : Nat) (known : Bool) :
    Gen.Kernel.anyvec_insert_unchecked_trace len index = [.call "insert_unchecked" [index]] ∧
    Gen.Kernel.anyvec_push_unchecked_trace len index = [.call "push_unchecked" []] ∧
    Gen.Kernel.anyvec_get_unchecked_trace len index = [.call "get_unchecked" [index], .call "NonNull::new_unchecked" [], .call "ElementPointer::new" [], .call "ManuallyDrop::new" [], .call "ElementRef" []] ∧
    Gen.Kernel.anyvec_get_unchecked_mut_trace len index = [.call "get_unchecked_mut" [index], .call "NonNull::new_unchecked" [], .call "ElementPointer::new" [], .call "ManuallyDrop::new" [], .call "ElementMut" []] ∧
    Gen.Kernel.typed_iter_mut_trace len index = [.call "as_mut_slice" [], .call "iter_mut" []] ∧
    Gen.Kernel.typed_get_unchecked_trace len index = [.call "as_slice" [], .call "get_unchecked" [index]] ∧
    Gen.Kernel.typed_get_unchecked_mut_trace len index = [.call "as_mut_slice" [], .call "get_unchecked_mut" [index]] ∧
    Gen.Kernel.opsiter_next_trace known = [.call "iter_mut" [], .call "next" []] ∧
    Gen.Kernel.opsiter_next_back_trace known = [.call "iter_mut" [], .call "next_back" []] ∧
    Gen.Kernel.opsiter_len_trace known = [.call "iter" [], .call "len" []] ∧
    Gen.Kernel.opsiter_size_hint_trace known = [.call "iter" [], .call "size_hint" []] :=
  KernelTie.deleg_access_tie len index known

/-- **source tie**: what handles report about themselves (size by the erased / typed path the right way round, the vector's type id, the operation's element pointer, one-element clone) - as the source has them on this run. -/
theorem self_reports_are_the_source (known : Bool) :
    Gen.Kernel.temp_bytes_len_trace known = [.branch (!known) [.call "any_vec_raw" [], .call "element_layout" [], .call "size" []] [.call "mem::size_of" []]] ∧
    Gen.Kernel.temp_size_trace known = [.call "bytes_len" []] ∧
    Gen.Kernel.temp_as_bytes_ptr_trace known = [.call "bytes" []] ∧
    Gen.Kernel.temp_clone_into_trace known = [.call "any_vec_ptr" [], .call "any_vec" [], .call "clone_fn" [], .call "as_bytes" [], .call "as_ptr" [], .call "clone_fn" [1]] ∧
    Gen.Kernel.element_size_trace known = [.call "any_vec_raw" [], .call "element_layout" [], .call "size" []] ∧
    Gen.Kernel.element_value_typeid_trace known = [.call "= self.any_vec_raw().type_id" []] ∧
    Gen.Kernel.element_clone_into_trace known = [.call "any_vec" [], .call "clone_fn" [], .call "as_bytes" [], .call "as_ptr" [], .call "clone_fn" [1]] ∧
    Gen.Kernel.lib_copy_nonoverlapping_value_trace known = [.branch known [.call "ptr::copy_nonoverlapping" [1]] [.call "ptr::copy_nonoverlapping" []]] ∧
    Gen.Kernel.ptr_element_size_trace known = [.branch (!known) [.call "any_vec_raw" [], .call "element_layout" [], .call "size" []] [.call "size_of" []]] ∧
    Gen.Kernel.ptr_element_typeid_trace known = [.branch (!known) [.call "any_vec_raw" []] [.call "TypeId::of" []]] :=
  KernelTie.deleg_value_tie known

/-- **reads refine the abstract vector** (Props/Refine.lean): in every world related to an abstract `Vec` - in particular
after any history of element-wise operations from any reachable world - `get(i)` shows exactly the abstract item at
`i`, `None` past the end, and changes nothing; `at(i)` is the same inside the bounds. -/
theorem get_shows_the_abstract_item (cfg : Cfg) (v ty i : Nat) (w : World) (s : Refine.Spec)
    (h : Refine.Rel bg v ty w s) :
    step cfg (.get v i false) w = (w, .ok [match s.items[i]? with | some id => cfg.tok id | none => "N"]) ∧
    (i < s.items.length → step cfg (.get v i true) w = step cfg (.get v i false) w) :=
  Refine.get_refines cfg v ty i w s h

/-- **source tie**: a value swap (`AnyValueTypelessMut::swap_unchecked`, source of this run) exchanges whole values:
`mem::swap` of the typed references when either operand's type is known at compile time, otherwise one
`swap_nonoverlapping` over exactly the left value's `size()` bytes. -/
theorem swaps_are_the_source (known otherKnown : Bool) :
    Gen.Kernel.value_swap_unchecked_trace known otherKnown =
      [.branch known [.call "downcast_mut_unchecked" [], .call "downcast_mut_unchecked" [], .call "mem::swap" []]
        [.branch otherKnown [.call "downcast_mut_unchecked" [], .call "downcast_mut_unchecked" [], .call "mem::swap" []]
          [.call "as_bytes_mut" [], .call "as_mut_ptr" [], .call "as_bytes_mut" [], .call "as_mut_ptr" [], .call "len" [],
           .call "ptr::swap_nonoverlapping" []]]] :=
  KernelTie.swap_unchecked_tie known otherKnown

/-! ### a swap between two vectors against the abstract state of all vectors (Props/RefineMulti.lean) -/

/-- **a swap through two element handles exchanges exactly those two elements**: in any world that shows an abstract state
of all its vectors, `swap(v.at_mut(i), u.at_mut(j))` on two distinct live vectors leads to a world that shows the same
state with item `i` of `v` and item `j` of `u` exchanged - the *identities* change places, so no byte of either is mixed
with another element's, nothing is cloned, nothing destroyed, lengths and capacities stay - or, when an index is out of
range or the element types differ, panics before anything is touched (`SwapStep.nothing`). Every other vector is
unchanged either way. -/
theorem swap_between_vectors_refines (cfg : Cfg) (w : World) (ms : RefineMulti.MSpec) (h : RefineMulti.MRel w ms)
    (v u i j : Nat) (hvu : v ≠ u) (a au : RefineMulti.AVec)
    (hv : ms.vecs[v]? = some (some a)) (hu : ms.vecs[u]? = some (some au)) :
    ∃ ms', RefineMulti.SwapStep ms v u i j a au ms' ∧ RefineMulti.MRel (World.step cfg (.eswap v i u j) w).1 ms' ∧
      (World.step cfg (.eswap v i u j) w).2.notUb :=
  RefineMulti.eswap_refines cfg w ms h v u i j hvu a au hv hu

/-- non-vacuity: in range and with equal element types the step is the exchange -/
example : RefineMulti.SwapStep ⟨[some ⟨0, [5, 6], 2, false, true⟩, some ⟨0, [7], 4, false, true⟩], 8⟩ 0 1 1 0
    ⟨0, [5, 6], 2, false, true⟩ ⟨0, [7], 4, false, true⟩
    ⟨[some ⟨0, [5, 7], 2, false, true⟩, some ⟨0, [6], 4, false, true⟩], 8⟩ :=
  RefineMulti.SwapStep.swapped (by decide) (by decide) rfl

end C13
end AnyVec
