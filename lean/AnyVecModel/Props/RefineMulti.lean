/-
  AnyVecModel.Props.RefineMulti — the refinement of Props/Refine.lean for *all* vectors of a world at once: the abstract
  side is a list of abstract vectors (dead ones included as `none`) with one shared counter of identities; an operation on
  vector `v` changes component `v` as `Refine.Spec.Step` says and nothing else.
-/
import AnyVecModel.Props.Refine
import AnyVecModel.Proofs.ExecClone
import AnyVecModel.Proofs.ExecMove
import AnyVecModel.Proofs.ExecLazy
import AnyVecModel.Proofs.ExecWithCap
namespace AnyVec
namespace RefineMulti
open World Refine

/-- one abstract vector: its element type, items, capacity and whether the storage is fixed -/
structure AVec where
  ty : Nat
  items : List Nat
  cap : Nat
  fixed : Bool
  cloneable : Bool
  deriving Repr, DecidableEq

/-- all vectors (a dropped one is `none`) and the counter fresh identities come from -/
structure MSpec where
  vecs : List (Option AVec)
  next : Nat
  deriving Repr, DecidableEq

def AVec.spec (a : AVec) (next : Nat) : Spec := ⟨a.items, next, a.cap, a.fixed, a.cloneable⟩

/-- a concrete vector shows an abstract one (a dead one shows `none`) -/
def Shows (d : VecSt) : Option AVec → Prop
  | none => d.live = false
  | some a => d.live = true ∧ d.ty = a.ty ∧ d.abs = a.items.map Cell.val ∧ d.cap = a.cap ∧
      (VecSt.resizable d.bk = !a.fixed ∧ d.cloneable = a.cloneable)

/-- the world shows the abstract state -/
structure MRel (w : World) (ms : MSpec) : Prop where
  inv : w.Inv
  nofault : w.fault = none
  next : w.created = ms.next
  len : w.vecs.length = ms.vecs.length
  shows : ∀ (v : Nat) (d : VecSt), w.vecs[v]? = some d → ∃ oa, ms.vecs[v]? = some oa ∧ Shows d oa

/-- an operation of Props/Refine.lean on vector `v` -/
structure MOp where
  v : Nat
  op : VOp
  deriving Repr, DecidableEq

/-- the abstract step: component `v` steps, the counter is shared, every other component stays -/
inductive MSpec.Step : MSpec → MOp → MSpec → Prop where
  | on (ms : MSpec) (v : Nat) (op : VOp) (a : AVec) (s' : Spec) (hv : ms.vecs[v]? = some (some a))
      (hop : op.Allowed a.fixed) (hs : Spec.Step (a.spec ms.next) op s') :
      Step ms ⟨v, op⟩ ⟨ms.vecs.set v (some ⟨a.ty, s'.items, s'.cap, s'.fixed, s'.cloneable⟩), s'.next⟩

/-- the script step of an operation on a live vector of the world: the element type is the vector's -/
def MOp.toOp (w : World) (m : MOp) : Op :=
  match w.vecs[m.v]? with
  | some d => m.op.toOp m.v d.ty
  | none => m.op.toOp m.v 0

theorem length_of_others {α} (l l' : List α) (v : Nat) (hv : v < l.length) (hv' : v < l'.length)
    (h : ∀ u, u ≠ v → l'[u]? = l[u]?) : l'.length = l.length := by
  rcases Nat.lt_trichotomy l'.length l.length with hlt | heq | hgt
  · have hne : l'.length ≠ v := by omega
    have := h l'.length hne
    rw [List.getElem?_eq_none (Nat.le_refl _), List.getElem?_eq_getElem hlt] at this
    cases this
  · exact heq
  · have hne : l.length ≠ v := by omega
    have := h l.length hne
    rw [List.getElem?_eq_none (Nat.le_refl _), List.getElem?_eq_getElem hgt] at this
    cases this

/-- **one step on one vector of a world full of vectors** -/
theorem mstep_refines (cfg : Cfg) (w : World) (ms : MSpec) (h : MRel w ms) (m : MOp) (a : AVec)
    (hv : ms.vecs[m.v]? = some (some a)) (hop : m.op.Allowed a.fixed) :
    ∃ ms', MSpec.Step ms m ms' ∧ MRel (step cfg (m.toOp w) w).1 ms' ∧ (step cfg (m.toOp w) w).2.notUb := by
  obtain ⟨hinv, hf, hn, hlen, hsh⟩ := h
  have hvlt : m.v < ms.vecs.length := (List.getElem?_eq_some_iff.mp hv).1
  have hwlt : m.v < w.vecs.length := by omega
  obtain ⟨d, hd⟩ : ∃ d, w.vecs[m.v]? = some d := ⟨w.vecs[m.v], List.getElem?_eq_getElem hwlt⟩
  obtain ⟨oa, hoa, hshow⟩ := hsh m.v d hd
  rw [hv] at hoa; cases hoa
  obtain ⟨hl, hty, habs, hcp, hbk⟩ := hshow
  have hrel : Rel (fun u => w.vecs[u]?) m.v a.ty w (a.spec ms.next) :=
    ⟨hinv, hf, ⟨d, hd, hl, hty, habs, hcp, hbk⟩, hn, fun _ _ => rfl⟩
  have htoOp : m.toOp w = m.op.toOp m.v a.ty := by simp [MOp.toOp, hd, hty]
  rw [htoOp]
  obtain ⟨s', hs', hrel', hnub⟩ := step_refines cfg m.v a.ty w (a.spec ms.next) hrel m.op hop
  refine ⟨_, MSpec.Step.on ms m.v m.op a s' hv hop hs', ?_, hnub⟩
  obtain ⟨hinv', hf', ⟨d', hd', hl', hty', habs', hcp', hbk'⟩, hn', hoth⟩ := hrel'
  have hlt' : m.v < (step cfg (m.op.toOp m.v a.ty) w).1.vecs.length := (List.getElem?_eq_some_iff.mp hd').1
  have hlen' := length_of_others w.vecs (step cfg (m.op.toOp m.v a.ty) w).1.vecs m.v hwlt hlt' hoth
  refine ⟨hinv', hf', hn', by simp [hlen', hlen], ?_⟩
  intro u du hu
  by_cases huv : u = m.v
  · subst huv
    rw [hd'] at hu; cases hu
    refine ⟨some ⟨a.ty, s'.items, s'.cap, s'.fixed, s'.cloneable⟩, by simp [hvlt], ?_⟩
    exact ⟨hl', hty', habs', hcp', hbk'⟩
  · rw [hoth u huv] at hu
    obtain ⟨oa, hoa, hshow⟩ := hsh u du hu
    exact ⟨oa, by rw [List.getElem?_set_ne (Ne.symm huv)]; exact hoa, hshow⟩

/-- a step keeps every vector alive and on its kind of storage -/
theorem MSpec.Step.keeps {ms ms' : MSpec} {m : MOp} (h : MSpec.Step ms m ms') (u : Nat) (a : AVec)
    (hu : ms.vecs[u]? = some (some a)) : ∃ a', ms'.vecs[u]? = some (some a') ∧ a'.fixed = a.fixed := by
  cases h with
  | on v op a0 s' hv hop hs =>
    by_cases huv : u = v
    · subst huv
      rw [hv] at hu; cases hu
      have hlt : u < ms.vecs.length := (List.getElem?_eq_some_iff.mp hv).1
      exact ⟨⟨a.ty, s'.items, s'.cap, s'.fixed, s'.cloneable⟩, by simp [hlt], hs.fixed_eq⟩
    · exact ⟨a, by simp only; rw [List.getElem?_set_ne (Ne.symm huv)]; exact hu, rfl⟩

/-- run a history of operations on any vectors of the world -/
def mrun (cfg : Cfg) : World → List MOp → World
  | w, [] => w
  | w, m :: ms => mrun cfg (step cfg (m.toOp w) w).1 ms

inductive MSpec.Steps : MSpec → List MOp → MSpec → Prop where
  | nil (ms : MSpec) : Steps ms [] ms
  | cons (ms ms1 ms2 : MSpec) (m : MOp) (rest : List MOp) : MSpec.Step ms m ms1 → Steps ms1 rest ms2 → Steps ms (m :: rest) ms2

/-- **every history on any number of vectors refines the abstract vectors**: from any world that shows the abstract
state, any sequence of operations, each on any live vector (and available on that vector's storage), leads to a world
that shows the abstract state reached by the same sequence - component by component, with one shared counter of
identities; no step faults on memory -/
theorem mhistory_refines (cfg : Cfg) (ops : List MOp) :
    ∀ (w : World) (ms : MSpec), MRel w ms →
      (∀ m ∈ ops, ∃ a, ms.vecs[m.v]? = some (some a) ∧ m.op.Allowed a.fixed) →
      ∃ ms', MSpec.Steps ms ops ms' ∧ MRel (mrun cfg w ops) ms' := by
  induction ops with
  | nil => intro w ms h _; exact ⟨ms, MSpec.Steps.nil ms, h⟩
  | cons m rest ih =>
    intro w ms h hall
    obtain ⟨a, hv, hop⟩ := hall m List.mem_cons_self
    obtain ⟨ms1, hs1, hrel1, _⟩ := mstep_refines cfg w ms h m a hv hop
    obtain ⟨ms2, hs2, hrel2⟩ := ih _ ms1 hrel1 (by
      intro m' hm'
      obtain ⟨a', hv', hop'⟩ := hall m' (List.mem_cons_of_mem _ hm')
      obtain ⟨a'', hv'', hfx⟩ := hs1.keeps m'.v a' hv'
      exact ⟨a'', hv'', by rw [hfx]; exact hop'⟩)
    exact ⟨ms2, MSpec.Steps.cons ms ms1 ms2 m rest hs1 hs2, hrel2⟩

/-- every fault-free reachable world shows an abstract state: read it off -/
theorem mrel_of_reach (cfg : Cfg) (w : World) (hr : Hist.Reach cfg w) (hf : w.fault = none) :
    ∃ ms, MRel w ms := by
  have hinv := Hist.reach_inv_core cfg w hr
  refine ⟨⟨w.vecs.map fun d => if d.live then some ⟨d.ty, d.abs.map Cell.idOr0, d.cap, !VecSt.resizable d.bk, d.cloneable⟩ else none,
    w.created⟩, hinv, hf, rfl, by simp, ?_⟩
  intro v d hv
  have hg := hinv.good v d hv
  refine ⟨if d.live then some ⟨d.ty, d.abs.map Cell.idOr0, d.cap, !VecSt.resizable d.bk, d.cloneable⟩ else none, by simp [hv], ?_⟩
  by_cases hl : d.live = true
  · rw [if_pos hl]
    refine ⟨hl, rfl, ?_, rfl, by simp, rfl⟩
    show d.abs = (d.abs.map Cell.idOr0).map Cell.val
    simp only [List.map_map]
    have : ∀ c ∈ d.abs, (Cell.val ∘ Cell.idOr0) c = c := by
      intro c hc
      obtain ⟨id, rfl⟩ := hg.allVal c hc
      rfl
    rw [List.map_congr_left this]; simp
  · have : d.live = false := by cases hd : d.live <;> simp_all
    simp [this, Shows]

/-! ### `clone` -/

/-- what `clone()` of abstract vector `a` (component `v`) can lead to: a new last component holding as many fresh
identities - the clones, in order - at a capacity that holds them, on the same kind of storage; or the storage for it
cannot be built (nothing happens); or the room cannot be reserved (the new, empty vector is dropped again) -/
inductive CloneStep (ms : MSpec) (a : AVec) : MSpec → Prop where
  | cloned (c : Nat) (hc : a.items.length ≤ c) :
      CloneStep ms a
        ⟨ms.vecs ++ [some ⟨a.ty, List.range' ms.next a.items.length, c, a.fixed, a.cloneable⟩], ms.next + a.items.length⟩
  | noStorage : CloneStep ms a ms
  | noRoom : CloneStep ms a ⟨ms.vecs ++ [none], ms.next⟩

/-- appending a vector: the old ones keep showing what they showed -/
theorem shows_append (w w' : World) (ms : MSpec) (x : VecSt) (oa : Option AVec)
    (hlen : w.vecs.length = ms.vecs.length)
    (hsh : ∀ (v : Nat) (d : VecSt), w.vecs[v]? = some d → ∃ oa, ms.vecs[v]? = some oa ∧ Shows d oa)
    (hvecs : w'.vecs = w.vecs ++ [x]) (hx : Shows x oa) :
    ∀ (v : Nat) (d : VecSt), w'.vecs[v]? = some d → ∃ ob, (ms.vecs ++ [oa])[v]? = some ob ∧ Shows d ob := by
  intro v d hv
  rw [hvecs] at hv
  by_cases hlt : v < w.vecs.length
  · rw [List.getElem?_append_left hlt] at hv
    obtain ⟨ob, hob, hs⟩ := hsh v d hv
    exact ⟨ob, by rw [List.getElem?_append_left (by omega)]; exact hob, hs⟩
  · by_cases heq : v = w.vecs.length
    · subst heq
      simp at hv
      subst hv
      exact ⟨oa, by rw [hlen]; simp, hx⟩
    · have : w.vecs.length + 1 ≤ v := by omega
      rw [List.getElem?_eq_none (by simp; omega)] at hv
      cases hv

/-- **`clone()` refines**: from any world that shows the abstract state, cloning a live cloneable vector leads to a world
that shows one of the three `CloneStep` outcomes; the source vector and every other vector are untouched -/
theorem clone_refines (cfg : Cfg) (w : World) (ms : MSpec) (h : MRel w ms) (v : Nat) (a : AVec)
    (hv : ms.vecs[v]? = some (some a)) (hcla : a.cloneable = true) :
    ∃ ms', CloneStep ms a ms' ∧ MRel (step cfg (.clone v) w).1 ms' ∧ (step cfg (.clone v) w).2.notUb := by
  obtain ⟨hinv, hf, hn, hlen, hsh⟩ := h
  have hvlt0 : v < ms.vecs.length := (List.getElem?_eq_some_iff.mp hv).1
  obtain ⟨d, hd⟩ : ∃ d, w.vecs[v]? = some d := ⟨w.vecs[v]'(by omega), List.getElem?_eq_getElem (by omega)⟩
  obtain ⟨oa, hoa, hshow⟩ := hsh v d hd
  rw [hv] at hoa; cases hoa
  obtain ⟨hl, hty, habs, hcp, hbk, hclo⟩ := hshow
  have hcl : d.cloneable = true := by rw [hclo]; exact hcla
  have hcore : Hist.Core (.clone v) := trivial
  have hvalid : Hist.Valid w.vecs (.clone v) := ⟨d, hd, hl, hcl⟩
  obtain ⟨hinv', hnub⟩ := Hist.step_inv cfg _ w hinv hcore hvalid
  have hg := hinv.good v d hd
  have hlenA := Refine.abs_len hg.wf habs
  have hvlt : v < w.vecs.length := (List.getElem?_eq_some_iff.mp hd).1
  have hncl : (!d.cloneable) = false := by simp [hcl]
  cases hb : VecSt.buildCap d.bk d.size d.align with
  | panic m =>
    have hex : step cfg (.clone v) w = ({ w with fault := none }, .panic m) := by
      simp only [step, cloneVec, WM.bind_apply, getVec_ok w v d hd hl, hncl, Bool.false_eq_true, if_false, cloneEmptyIn, hb,
        WM.lift]
    refine ⟨ms, CloneStep.noStorage, ?_, hnub⟩
    rw [hex] at hinv' ⊢
    exact ⟨hinv', rfl, hn, hlen, hsh⟩
  | ub m =>
    exfalso
    cases hbk' : d.bk <;> simp [VecSt.buildCap, hbk'] at hb <;> (repeat (first | split at hb | cases hb))
  | ok cap0 =>
    let nv0 : VecSt := { d with bk := d.bk, cap := cap0, cells := [], len := 0, gen := 0, live := true }
    have hce : ∃ w1, cloneEmptyIn v d.bk w = (w1, .ok w.vecs.length) ∧ w1.vecs = w.vecs ++ [nv0] ∧
        w1.created = w.created ∧ w1.fault = none := by
      by_cases hr : d.bk = .reloc
      · refine ⟨{ w with vecs := w.vecs ++ [nv0], ev := [Event.memBuild cap0].reverse ++ w.ev }, ?_, rfl, rfl, hf⟩
        simp only [cloneEmptyIn, WM.bind_apply, getVec_ok w v d hd hl, hb, WM.lift_ok, WM.get_apply, WM.modify_apply]
        rw [if_pos hr]
        simp only [emit, WM.modify_apply, WM.bind_apply, WM.pure_apply]
        rfl
      · refine ⟨{ w with vecs := w.vecs ++ [nv0] }, ?_, rfl, rfl, hf⟩
        simp only [cloneEmptyIn, WM.bind_apply, getVec_ok w v d hd hl, hb, WM.lift_ok, WM.get_apply, WM.modify_apply]
        rw [if_neg hr]
        simp only [WM.bind_apply, WM.pure_apply]
        rfl
    obtain ⟨w1, hce1, hw1v, hw1c, hw1f⟩ := hce
    have hidx : w1.vecs[w.vecs.length]? = some nv0 := by rw [hw1v]; simp
    have hsrc1 : w1.vecs[v]? = some d := by rw [hw1v, List.getElem?_append_left hvlt]; exact hd
    have hstep1 : step cfg (.clone v) w =
        (do WM.onUnwind
              (do vecOp w.vecs.length (fun s => s.reserve d.len)
                  cloneLoop v w.vecs.length 0 d.len
                  setLen w.vecs.length d.len)
              (do setLen w.vecs.length 0
                  dropVec w.vecs.length)
            pure [] : WM Out) w1 := by
      simp only [step, cloneVec, WM.bind_apply, getVec_ok w v d hd hl, hncl, Bool.false_eq_true, if_false, hce1]
    have hwf0 : nv0.WF := ⟨Nat.le_refl _, Nat.zero_le _⟩
    have hne : v ≠ w.vecs.length := by omega
    have hlt1 : w.vecs.length < w1.vecs.length := by rw [hw1v]; simp
    cases hres : nv0.reserve d.len with
    | ok p =>
      obtain ⟨d1, es⟩ := p
      obtain ⟨hc1, hl1, hcells1, hwf1, hty1, _, hlv1, _⟩ := reserve_full nv0 d1 d.len es hwf0 hres
      obtain ⟨_, ⟨hbk1, hcl1⟩, _⟩ := Refine.reserve_ok_cases nv0 d1 d.len es hwf0 hres
      have hlive1 : d1.live = true := by rw [hlv1]
      let w2 : World := { (w1.upd w.vecs.length d1) with ev := es.reverse ++ w1.ev }
      have hvo : vecOp w.vecs.length (fun s => s.reserve d.len) w1 = (w2, .ok ()) := by
        simp only [vecOp, WM.bind_apply, getVec_ok w1 _ nv0 hidx rfl, hres, WM.lift_ok, setVec_apply, emit, WM.modify_apply]
        rfl
      have hs2 : w2.vecs[v]? = some d := by
        show (w1.vecs.set w.vecs.length d1)[v]? = _
        rw [List.getElem?_set_ne (Ne.symm hne)]; exact hsrc1
      have hn2 : w2.vecs[w.vecs.length]? = some d1 := by
        show (w1.vecs.set w.vecs.length d1)[w.vecs.length]? = _
        simp [hlt1]
      obtain ⟨n', hcl', hlen', hcap', hlive', hty', hbk', hclo', _, _, hcells'⟩ :=
        AnyVec.cloneLoop_nofault w2 v w.vecs.length d d1 0 d.len hne hs2 hl (by have := hg.wf.len_le_cap; omega)
          (by intro j hj; have := hg.init j hj; simpa using this) hn2 hlive1 (by have : nv0.len = 0 := rfl; omega)
          (by show w1.fault = none; exact hw1f)
      let w3 : World := { w2 with vecs := w2.vecs.set w.vecs.length n', created := w2.created + d.len,
                                  ev := (AnyVec.cloneEvents d 0 d.len w2.created).reverse ++ w2.ev }
      let nfin : VecSt := { n' with len := d.len }
      have hlt2 : w.vecs.length < w2.vecs.length := by
        show w.vecs.length < (w1.vecs.set w.vecs.length d1).length
        rw [List.length_set]; exact hlt1
      have hn3 : w3.vecs[w.vecs.length]? = some n' := by
        show (w2.vecs.set w.vecs.length n')[w.vecs.length]? = _
        simp [hlt2]
      have hfin : step cfg (.clone v) w = (w3.upd w.vecs.length nfin, .ok []) := by
        rw [hstep1]
        have hcl3 : cloneLoop v w.vecs.length 0 d.len w2 = (w3, .ok ()) := hcl'
        simp only [WM.bind_apply, WM.onUnwind, hvo, hcl3, setLen, getVec_ok w3 _ n' hn3 hlive', setVec_apply, WM.pure_apply]
        rfl
      have hvecs : (w3.upd w.vecs.length nfin).vecs = w.vecs ++ [nfin] := by
        show ((((w1.vecs.set w.vecs.length d1).set w.vecs.length n').set w.vecs.length nfin)) = _
        rw [hw1v]
        simp [List.set_append]
      have hcr : (w3.upd w.vecs.length nfin).created = w.created + d.len := by
        show w1.created + d.len = _
        rw [hw1c]
      have hflt : (w3.upd w.vecs.length nfin).fault = none := by
        show w1.fault = none
        exact hw1f
      refine ⟨_, CloneStep.cloned d1.cap (by have : nv0.len = 0 := rfl; omega), ?_, hnub⟩
      rw [hfin] at hinv' ⊢
      refine ⟨hinv', hflt, by rw [hcr, hn, hlenA], by rw [hvecs]; simp [hlen], ?_⟩
      refine shows_append w _ ms nfin _ hlen hsh hvecs ?_
      refine ⟨hlive', by show n'.ty = a.ty; rw [hty', hty1]; exact hty, ?_, by show n'.cap = d1.cap; exact hcap',
        by show VecSt.resizable n'.bk = _ ∧ n'.cloneable = _; rw [hbk', hclo', hbk1, hcl1]; exact ⟨hbk, hclo⟩⟩
      show n'.cells.take d.len = _
      have hcr2 : w2.created = ms.next := by show w1.created = _; rw [hw1c, hn]
      have hmlen : d.len ≤ n'.cells.length := by
        by_cases h0 : d.len = 0
        · omega
        · have hlast := hcells' (d.len - 1) (by omega)
          by_cases hlt : 0 + (d.len - 1) < n'.cells.length
          · omega
          · rw [Mem.get_eq, List.getElem?_eq_none (by omega)] at hlast
            cases hlast
      apply take_ext _ _ _ (by simp [hlenA]) hmlen
      intro k hk
      have := hcells' k hk
      rw [Nat.zero_add] at this
      rw [this, hcr2, hlenA]
      simp [hk]
    | panic m =>
      let dead : VecSt := { nv0 with live := false, cells := [], cap := 0 }
      have hfin : ∃ W', step cfg (.clone v) w = (W', .panic m) ∧ W'.vecs = w.vecs ++ [dead] ∧ W'.created = w.created ∧
          W'.fault = none := by
        rw [hstep1]
        let w1' : World := { w1 with fault := none }
        have hvo : vecOp w.vecs.length (fun s => s.reserve d.len) w1 = (w1', .panic m) :=
          vecOp_panic w1 _ nv0 _ m hidx rfl hres
        have hidx' : w1'.vecs[w.vecs.length]? = some nv0 := hidx
        have hupd : w1'.upd w.vecs.length { nv0 with len := 0 } = w1' := World.upd_self w1' _ nv0 hidx'
        have hdr : dropRange w.vecs.length false 0 nv0.len w1' = (w1', .ok ()) := by
          have := dropRange_nofault w1' w.vecs.length nv0 false 0 0 hidx' rfl rfl (Nat.zero_le _)
            (by intro j hj; omega)
          simpa [VecSt.idsRange] using this
        have hvset : (w1'.vecs.set w.vecs.length dead) = w.vecs ++ [dead] := by
          show w1.vecs.set w.vecs.length dead = _
          rw [hw1v]; simp
        cases hbk' : d.bk with
        | heap =>
          have hc0 : cap0 = 0 := by simp [VecSt.buildCap, hbk'] at hb; omega
          refine ⟨w1'.upd w.vecs.length dead, ?_, hvset, hw1c, rfl⟩
          simp only [WM.bind_apply, WM.onUnwind, hvo, setLen, getVec_ok w1' _ nv0 hidx' rfl, setVec_apply, hupd, dropVec, hdr]
          simp [nv0, hbk', hc0, dead, WM.pure_apply]
        | reloc =>
          refine ⟨{ (w1'.upd w.vecs.length dead) with ev := [Event.memDrop].reverse ++ w1'.ev }, ?_, hvset, hw1c, rfl⟩
          simp only [WM.bind_apply, WM.onUnwind, hvo, setLen, getVec_ok w1' _ nv0 hidx' rfl, setVec_apply, hupd, dropVec, hdr]
          simp [nv0, hbk', dead, WM.pure_apply, emit]
          rfl
        | stack b =>
          refine ⟨w1'.upd w.vecs.length dead, ?_, hvset, hw1c, rfl⟩
          simp only [WM.bind_apply, WM.onUnwind, hvo, setLen, getVec_ok w1' _ nv0 hidx' rfl, setVec_apply, hupd, dropVec, hdr]
          simp [nv0, hbk', dead, WM.pure_apply]
        | stackN n b =>
          refine ⟨w1'.upd w.vecs.length dead, ?_, hvset, hw1c, rfl⟩
          simp only [WM.bind_apply, WM.onUnwind, hvo, setLen, getVec_ok w1' _ nv0 hidx' rfl, setVec_apply, hupd, dropVec, hdr]
          simp [nv0, hbk', dead, WM.pure_apply]
        | empty =>
          refine ⟨w1'.upd w.vecs.length dead, ?_, hvset, hw1c, rfl⟩
          simp only [WM.bind_apply, WM.onUnwind, hvo, setLen, getVec_ok w1' _ nv0 hidx' rfl, setVec_apply, hupd, dropVec, hdr]
          simp [nv0, hbk', dead, WM.pure_apply]
      obtain ⟨W', hex, hvecs, hcr, hflt⟩ := hfin
      refine ⟨_, CloneStep.noRoom, ?_, hnub⟩
      rw [hex] at hinv' ⊢
      refine ⟨hinv', hflt, by rw [hcr, hn], by rw [hvecs]; simp [hlen], ?_⟩
      exact shows_append w W' ms dead none hlen hsh hvecs rfl
    | ub m =>
      have := reserve_notUb nv0 d.len
      rw [hres] at this; exact this.elim

/-! ### an element moved from one vector into another: `u.push(v.remove(i))` -/

/-- what giving the handle of `v.remove(i)` to `u.push(..)` can lead to: the item changes vectors - the very same identity,
nothing cloned, nothing destroyed; or the destination refuses it (wrong element type, no room) and the dropped handle
completes the removal and destroys the item; or `i` is out of range and nothing happens -/
inductive MoveStep (ms : MSpec) (v u i : Nat) (a au : AVec) : MSpec → Prop where
  | moved (c : Nat) (hi : i < a.items.length) (hty : a.ty = au.ty) (hroom : (au.spec ms.next).Room (some c)) :
      MoveStep ms v u i a au
        ⟨(ms.vecs.set u (some { au with items := au.items ++ [a.items.getD i 0], cap := c })).set v
            (some { a with items := a.items.eraseIdx i }), ms.next⟩
  | destroyed (hi : i < a.items.length) (h : a.ty ≠ au.ty ∨ (au.spec ms.next).Room none) :
      MoveStep ms v u i a au ⟨ms.vecs.set v (some { a with items := a.items.eraseIdx i }), ms.next⟩
  | out (hi : a.items.length ≤ i) : MoveStep ms v u i a au ms

theorem shows_set (w : World) (ms : MSpec) (l' : List VecSt) (ms' : List (Option AVec))
    (hsh : ∀ (k : Nat) (d : VecSt), w.vecs[k]? = some d → ∃ oa, ms.vecs[k]? = some oa ∧ Shows d oa)
    (h : ∀ (k : Nat) (d : VecSt), l'[k]? = some d →
      (w.vecs[k]? = some d ∧ ms'[k]? = ms.vecs[k]?) ∨ ∃ oa, ms'[k]? = some oa ∧ Shows d oa) :
    ∀ (k : Nat) (d : VecSt), l'[k]? = some d → ∃ oa, ms'[k]? = some oa ∧ Shows d oa := by
  intro k d hk
  rcases h k d hk with ⟨h1, h2⟩ | h3
  · obtain ⟨oa, hoa, hs⟩ := hsh k d h1
    exact ⟨oa, by rw [h2]; exact hoa, hs⟩
  · exact h3

/-- **moving an element between two vectors refines**: the identity that leaves `v` is the one that arrives in `u` -/
theorem move_refines (cfg : Cfg) (w : World) (ms : MSpec) (h : MRel w ms) (v u i : Nat) (hvu : v ≠ u) (a au : AVec)
    (hv : ms.vecs[v]? = some (some a)) (hu : ms.vecs[u]? = some (some au)) :
    ∃ ms', MoveStep ms v u i a au ms' ∧ MRel (step cfg (.remove v i (.pushTo u)) w).1 ms' ∧
      (step cfg (.remove v i (.pushTo u)) w).2.notUb := by
  obtain ⟨hinv, hf, hn, hlen, hsh⟩ := h
  have hvlt : v < ms.vecs.length := (List.getElem?_eq_some_iff.mp hv).1
  have hult : u < ms.vecs.length := (List.getElem?_eq_some_iff.mp hu).1
  obtain ⟨d, hd⟩ : ∃ d, w.vecs[v]? = some d := ⟨w.vecs[v]'(by omega), List.getElem?_eq_getElem (by omega)⟩
  obtain ⟨du, hdu⟩ : ∃ d, w.vecs[u]? = some d := ⟨w.vecs[u]'(by omega), List.getElem?_eq_getElem (by omega)⟩
  obtain ⟨oa, hoa, hshow⟩ := hsh v d hd
  rw [hv] at hoa; cases hoa
  obtain ⟨hl, hty, habs, hcp, hbk⟩ := hshow
  obtain ⟨oau, hoau, hshowu⟩ := hsh u du hdu
  rw [hu] at hoau; cases hoau
  obtain ⟨hlu, htyu, habsu, hcpu, hbku⟩ := hshowu
  have hcore : Hist.Core (.remove v i (.pushTo u)) := trivial
  have hvalid : Hist.Valid w.vecs (.remove v i (.pushTo u)) := ⟨⟨d, hd, hl⟩, hvu, du, hdu, hlu⟩
  obtain ⟨hinv', hnub⟩ := Hist.step_inv cfg _ w hinv hcore hvalid
  have hg := hinv.good v d hd
  have hgu := hinv.good u du hdu
  have hlenA := Refine.abs_len hg.wf habs
  by_cases hi : i < d.len
  · have hc := Refine.cell_of_abs hg habs i hi
    have hwlt : v < w.vecs.length := (List.getElem?_eq_some_iff.mp hd).1
    have hwult : u < w.vecs.length := (List.getElem?_eq_some_iff.mp hdu).1
    -- the source after the removal shows the items without item `i`
    have hshowV : Shows (d.removeAt i) (some { a with items := a.items.eraseIdx i }) := by
      refine ⟨by simp [VecSt.removeAt, hl], by simp [VecSt.removeAt, hty], ?_, by simp [VecSt.removeAt, hcp],
        by simp [VecSt.removeAt, hbk]⟩
      rw [VecSt.removeAt_abs d i hg.wf hi, habs, Refine.map_eraseIdx']
    -- the element is destroyed: the handle was refused
    have rejected : (d.ty ≠ du.ty ∨ (d.ty = du.ty ∧ ∃ m, du.reserveOne = .panic m)) →
        (a.ty ≠ au.ty ∨ (au.spec ms.next).Room none) →
        ∃ ms', MoveStep ms v u i a au ms' ∧ MRel (step cfg (.remove v i (.pushTo u)) w).1 ms' ∧
          (step cfg (.remove v i (.pushTo u)) w).2.notUb := by
      intro hrej hwhy
      obtain ⟨m', hex⟩ := remove_push_rejected_exec cfg w v u i _ d du hvu hd hdu hl hlu hg.wf hi hc hf hrej
      refine ⟨_, MoveStep.destroyed (by omega) hwhy, ?_, hnub⟩
      rw [hex] at hinv' ⊢
      refine ⟨hinv', by simpa [logDrop] using hf, by simpa [logDrop] using hn, by simp [hlen], ?_⟩
      intro k dk hk
      have hk' : (w.vecs.set v (d.removeAt i))[k]? = some dk := hk
      by_cases hkv : k = v
      · subst hkv
        rw [List.getElem?_set_self hwlt] at hk'
        cases hk'
        exact ⟨_, by simp [hvlt], hshowV⟩
      · rw [List.getElem?_set_ne (Ne.symm hkv)] at hk'
        obtain ⟨oa, hoa, hs⟩ := hsh k dk hk'
        exact ⟨oa, by simp only; rw [List.getElem?_set_ne (Ne.symm hkv)]; exact hoa, hs⟩
    by_cases htyeq : d.ty = du.ty
    · cases hr : du.reserveOne with
      | ok p =>
        obtain ⟨du1, es⟩ := p
        have hex := remove_push_exec2 cfg w v u i _ d du du1 es hvu hd hdu hl hlu hg.wf hgu.wf hi hc htyeq hr
        obtain ⟨hroom1, hlen1, ha1, hw1, hty1, _, _, _, hcl1, hbk1, hl1⟩ := reserveOne_spec du du1 es hgu.wf hr
        refine ⟨_, MoveStep.moved du1.cap (by omega) (by rw [← hty, ← htyu]; exact htyeq)
          (Refine.room_ok hgu.wf habsu hcpu hbku.1 hr), ?_, hnub⟩
        rw [hex] at hinv' ⊢
        refine ⟨hinv', hf, hn, by simp [hlen], ?_⟩
        intro k dk hk
        have hk' : ((w.vecs.set u (du1.pushCell (.val (a.items.getD i 0)))).set v (d.removeAt i))[k]? = some dk := hk
        by_cases hkv : k = v
        · subst hkv
          rw [List.getElem?_set_self (by simp; exact hwlt)] at hk'
          cases hk'
          exact ⟨_, by simp [hvlt], hshowV⟩
        · rw [List.getElem?_set_ne (Ne.symm hkv)] at hk'
          by_cases hku : k = u
          · subst hku
            rw [List.getElem?_set_self hwult] at hk'
            cases hk'
            refine ⟨some { au with items := au.items ++ [a.items.getD i 0], cap := du1.cap }, ?_, ?_⟩
            · simp only; rw [List.getElem?_set_ne (Ne.symm hkv)]; simp [hult]
            · refine ⟨by simp [VecSt.pushCell, hl1, hlu], by simp [VecSt.pushCell, hty1, htyu], ?_,
                by simp [VecSt.pushCell], by simp [VecSt.pushCell, hbk1, hcl1, hbku]⟩
              rw [VecSt.pushCell_abs du1 _ hw1, ha1, habsu]; simp
          · rw [List.getElem?_set_ne (Ne.symm hku)] at hk'
            obtain ⟨oa, hoa, hs⟩ := hsh k dk hk'
            refine ⟨oa, ?_, hs⟩
            simp only
            rw [List.getElem?_set_ne (Ne.symm hkv), List.getElem?_set_ne (Ne.symm hku)]; exact hoa
      | panic m =>
        exact rejected (Or.inr ⟨htyeq, m, hr⟩) (Or.inr (Refine.room_refused hgu.wf habsu hcpu hr))
      | ub m =>
        have := reserveOne_notUb du
        rw [hr] at this; exact this.elim
    · exact rejected (Or.inl htyeq) (Or.inl (by rw [← hty, ← htyu]; exact htyeq))
  · have hex : step cfg (.remove v i (.pushTo u)) w = ({ w with fault := none }, .panic "Index out of range!") := by
      simp only [step, WM.bind_apply, getVec_ok w v d hd hl, hi, if_false, WM.panic_apply]
    refine ⟨ms, MoveStep.out (by omega), ?_, hnub⟩
    rw [hex] at hinv' ⊢
    exact ⟨hinv', rfl, hn, hlen, hsh⟩

/-! ### exchanging two elements of two vectors: `swap(v.at_mut(i), u.at_mut(j))` -/

/-- what swapping element `i` of `v` with element `j` of `u` can lead to: the two identities change places and nothing else
changes (no clone, no destructor, lengths and capacities as before); or nothing at all happens (an index out of range or
different element types: a panic before anything is touched) -/
inductive SwapStep (ms : MSpec) (v u i j : Nat) (a au : AVec) : MSpec → Prop where
  | swapped (hi : i < a.items.length) (hj : j < au.items.length) (hty : a.ty = au.ty) :
      SwapStep ms v u i j a au
        ⟨(ms.vecs.set v (some { a with items := a.items.set i (au.items.getD j 0) })).set u
            (some { au with items := au.items.set j (a.items.getD i 0) }), ms.next⟩
  | nothing (h : a.items.length ≤ i ∨ au.items.length ≤ j ∨ a.ty ≠ au.ty) : SwapStep ms v u i j a au ms

/-- **swapping elements of two vectors refines**: each vector ends up holding the other's identity at the swapped position -/
theorem eswap_refines (cfg : Cfg) (w : World) (ms : MSpec) (h : MRel w ms) (v u i j : Nat) (hvu : v ≠ u) (a au : AVec)
    (hv : ms.vecs[v]? = some (some a)) (hu : ms.vecs[u]? = some (some au)) :
    ∃ ms', SwapStep ms v u i j a au ms' ∧ MRel (step cfg (.eswap v i u j) w).1 ms' ∧
      (step cfg (.eswap v i u j) w).2.notUb := by
  obtain ⟨hinv, hf, hn, hlen, hsh⟩ := h
  have hvlt : v < ms.vecs.length := (List.getElem?_eq_some_iff.mp hv).1
  have hult : u < ms.vecs.length := (List.getElem?_eq_some_iff.mp hu).1
  obtain ⟨d, hd⟩ : ∃ d, w.vecs[v]? = some d := ⟨w.vecs[v]'(by omega), List.getElem?_eq_getElem (by omega)⟩
  obtain ⟨du, hdu⟩ : ∃ d, w.vecs[u]? = some d := ⟨w.vecs[u]'(by omega), List.getElem?_eq_getElem (by omega)⟩
  obtain ⟨oa, hoa, hshow⟩ := hsh v d hd
  rw [hv] at hoa; cases hoa
  obtain ⟨hl, hty, habs, hcp, hbk⟩ := hshow
  obtain ⟨oau, hoau, hshowu⟩ := hsh u du hdu
  rw [hu] at hoau; cases hoau
  obtain ⟨hlu, htyu, habsu, hcpu, hbku⟩ := hshowu
  obtain ⟨hinv', hnub⟩ := Hist.step_inv cfg (.eswap v i u j) w hinv trivial ⟨hvu, ⟨d, hd, hl⟩, ⟨du, hdu, hlu⟩⟩
  have hg := hinv.good v d hd
  have hgu := hinv.good u du hdu
  have hlenA := Refine.abs_len hg.wf habs
  have hlenU := Refine.abs_len hgu.wf habsu
  have hwlt : v < w.vecs.length := (List.getElem?_eq_some_iff.mp hd).1
  have hwult : u < w.vecs.length := (List.getElem?_eq_some_iff.mp hdu).1
  have nothing : ∀ m, step cfg (.eswap v i u j) w = ({ w with fault := none }, .panic m) →
      (a.items.length ≤ i ∨ au.items.length ≤ j ∨ a.ty ≠ au.ty) →
      ∃ ms', SwapStep ms v u i j a au ms' ∧ MRel (step cfg (.eswap v i u j) w).1 ms' ∧
        (step cfg (.eswap v i u j) w).2.notUb := by
    intro m hex hwhy
    refine ⟨ms, SwapStep.nothing hwhy, ?_, hnub⟩
    rw [hex] at hinv' ⊢
    exact ⟨hinv', rfl, hn, hlen, hsh⟩
  by_cases hi : i < d.len
  · by_cases hj : j < du.len
    · by_cases htyeq : d.ty = du.ty
      · have hlc := hg.wf.len_le_cap
        have hlcu := hgu.wf.len_le_cap
        have h1 := writeCell_setCell w v i (du.cells.get j) d hd hl (by omega)
        have hu1 : (w.upd v (d.setCell i (du.cells.get j))).vecs[u]? = some du := by
          show (w.vecs.set v _)[u]? = _; rw [List.getElem?_set_ne hvu]; exact hdu
        have h2 := writeCell_setCell _ u j (d.cells.get i) du hu1 hlu (by omega)
        have hex : step cfg (.eswap v i u j) w =
            ((w.upd v (d.setCell i (du.cells.get j))).upd u (du.setCell j (d.cells.get i)), .ok []) := by
          simp only [step, WM.bind_apply, getVec_ok w v d hd hl, getVec_ok w u du hdu hlu, hvu, if_false, hi, hj, if_true,
            htyeq, ne_eq, not_true_eq_false, h1, h2, WM.pure_apply]
        refine ⟨_, SwapStep.swapped (by omega) (by omega) (by rw [← hty, ← htyu]; exact htyeq), ?_, hnub⟩
        rw [hex] at hinv' ⊢
        have hshowV : Shows (d.setCell i (du.cells.get j)) (some { a with items := a.items.set i (au.items.getD j 0) }) := by
          refine ⟨hl, hty, ?_, hcp, hbk⟩
          rw [VecSt.setCell_abs d i _ hg.wf hi, habs, Refine.cell_of_abs hgu habsu j hj]
          simp [List.map_set]
        have hshowU : Shows (du.setCell j (d.cells.get i)) (some { au with items := au.items.set j (a.items.getD i 0) }) := by
          refine ⟨hlu, htyu, ?_, hcpu, hbku⟩
          rw [VecSt.setCell_abs du j _ hgu.wf hj, habsu, Refine.cell_of_abs hg habs i hi]
          simp [List.map_set]
        refine ⟨hinv', hf, hn, by simp [World.upd, hlen], ?_⟩
        intro k dk hk
        have hk' : ((w.vecs.set v (d.setCell i (du.cells.get j))).set u (du.setCell j (d.cells.get i)))[k]? = some dk := hk
        by_cases hku : k = u
        · subst hku
          rw [List.getElem?_set_self (by simp; exact hwult)] at hk'
          cases hk'
          exact ⟨_, by simp [hult], hshowU⟩
        · rw [List.getElem?_set_ne (Ne.symm hku)] at hk'
          by_cases hkv : k = v
          · subst hkv
            rw [List.getElem?_set_self hwlt] at hk'
            cases hk'
            refine ⟨some { a with items := a.items.set i (au.items.getD j 0) }, ?_, hshowV⟩
            simp only; rw [List.getElem?_set_ne (Ne.symm hku)]; simp [hvlt]
          · rw [List.getElem?_set_ne (Ne.symm hkv)] at hk'
            obtain ⟨oa, hoa, hs⟩ := hsh k dk hk'
            refine ⟨oa, ?_, hs⟩
            simp only
            rw [List.getElem?_set_ne (Ne.symm hku), List.getElem?_set_ne (Ne.symm hkv)]; exact hoa
      · refine nothing "assertion `left == right` failed" ?_ (Or.inr (Or.inr (by rw [← hty, ← htyu]; exact htyeq)))
        simp only [step, WM.bind_apply, getVec_ok w v d hd hl, getVec_ok w u du hdu hlu, hvu, if_false, hi, hj, if_true,
          htyeq, ne_eq, not_false_eq_true, WM.panic_apply]
    · refine nothing "called `Option::unwrap()` on a `None` value" ?_ (Or.inr (Or.inl (by omega)))
      simp only [step, WM.bind_apply, getVec_ok w v d hd hl, getVec_ok w u du hdu hlu, hvu, if_false, hi, hj, if_true,
        WM.panic_apply]
  · refine nothing "called `Option::unwrap()` on a `None` value" ?_ (Or.inl (by omega))
    simp only [step, WM.bind_apply, getVec_ok w v d hd hl, getVec_ok w u du hdu hlu, hvu, if_false, hi, WM.panic_apply]

/-! ### values written into the spare capacity, then `set_len` -/

/-- writing into the spare capacity changes cells only: element type, storage kind and trait set stay -/
theorem writeFresh_keeps (v : Nat) (k : Nat) : ∀ (w : World) (x : VecSt) (i : Nat), w.vecs[v]? = some x → x.live = true →
    i + k ≤ x.cap →
    ∃ x', (writeFresh v i k w).1.vecs[v]? = some x' ∧ x'.ty = x.ty ∧ x'.bk = x.bk ∧ x'.cloneable = x.cloneable := by
  induction k with
  | zero =>
    intro w x i hv _ _
    exact ⟨x, by simpa [writeFresh] using hv, rfl, rfl, rfl⟩
  | succ k ih =>
    intro w x i hv hl hcap
    have hlt : v < w.vecs.length := (List.getElem?_eq_some_iff.mp hv).1
    have hb : i < x.cap := by omega
    let x1 : VecSt := { x with cells := (x.cells.ensure (i + 1)).set i (.val w.created) }
    let w1 : World := ({ w with created := w.created + 1 } : World).upd v x1
    have hv1 : w1.vecs[v]? = some x1 := by simp [w1, hlt]
    have hstep : writeFresh v i (k + 1) w = writeFresh v (i + 1) k w1 := by
      have hvb : ({ w with created := w.created + 1 } : World).vecs[v]? = some x := hv
      simp only [writeFresh, WM.bind_apply, fresh, World.writeCell, getVec_ok _ v x hvb hl, WM.lift,
        VecSt.writeCell_ok x i _ hb, setVec_apply]
      rfl
    obtain ⟨x', h1, h2, h3, h4⟩ := ih w1 x1 (i + 1) hv1 hl (by show i + 1 + k ≤ x.cap; omega)
    exact ⟨x', by rw [hstep]; exact h1, h2, h3, h4⟩

/-- **`set_len` after writing the spare capacity refines**: the caller writes `k` fresh values into the first `k` slots of
the spare capacity of a live vector (through `spare_capacity_mut` or `spare_bytes_mut`) and calls `set_len(len + k)`, with
`len + k ≤ capacity` (the caller's obligation - `set_len` is `unsafe`): the vector then shows its old items followed by
exactly those `k` new ones, in the order of the slots; its capacity, every other vector and the log of destructor runs are
unchanged -/
theorem set_len_refines (cfg : Cfg) (w : World) (ms : MSpec) (h : MRel w ms) (v k : Nat) (typed : Bool) (a : AVec)
    (hv : ms.vecs[v]? = some (some a)) (hroom : a.items.length + k ≤ a.cap) :
    MRel (step cfg (.setLenSpare v k typed) w).1
        ⟨ms.vecs.set v (some { a with items := a.items ++ List.range' ms.next k }), ms.next + k⟩ ∧
      (step cfg (.setLenSpare v k typed) w).2 = .ok [] ∧
      (step cfg (.setLenSpare v k typed) w).1.dropLog = w.dropLog := by
  obtain ⟨hinv, hf, hn, hlen, hsh⟩ := h
  have hvlt : v < ms.vecs.length := (List.getElem?_eq_some_iff.mp hv).1
  obtain ⟨d, hd⟩ : ∃ d, w.vecs[v]? = some d := ⟨w.vecs[v]'(by omega), List.getElem?_eq_getElem (by omega)⟩
  obtain ⟨oa, hoa, hshow⟩ := hsh v d hd
  rw [hv] at hoa; cases hoa
  obtain ⟨hl, hty, habs, hcp, hbk⟩ := hshow
  have hg := hinv.good v d hd
  have hlenA := Refine.abs_len hg.wf habs
  have hroom' : d.len + k ≤ d.cap := by omega
  obtain ⟨hinv', _⟩ := Hist.step_inv cfg (.setLenSpare v k typed) w hinv trivial ⟨d, hd, hl, hroom'⟩
  have hlt : v < w.vecs.length := (List.getElem?_eq_some_iff.mp hd).1
  have hw1 := hg.wf.len_le; have hw2 := hg.wf.cells_le
  obtain ⟨x', he, k1, k2, k3, k4, k5, k6, k7⟩ := writeFresh_full v k w d d.len hd hl hroom'
  generalize hw1' : ({ w.upd v x' with created := w.created + k } : World) = w1 at he
  have hv1 : w1.vecs[v]? = some x' := by rw [← hw1']; simp [hlt]
  have e : step cfg (.setLenSpare v k typed) w = (w1.upd v { x' with len := d.len + k }, .ok []) := by
    simp only [step, WM.bind_apply, getVec_ok w v d hd hl, hroom', if_true, he, setLen,
      getVec_ok w1 v x' hv1 k3, setVec_apply, WM.pure_apply]
  have hcge : d.len + k ≤ x'.cells.length := by
    by_cases hk0 : k = 0
    · omega
    · have := k7 (k - 1) (by omega)
      by_cases hlt' : d.len + (k - 1) < x'.cells.length
      · omega
      · simp [Mem.get, List.getD_eq_getElem?_getD,
          List.getElem?_eq_none (by omega : x'.cells.length ≤ d.len + (k - 1))] at this
  have hfresh : ∀ t, t < k → ({ x' with len := d.len + k } : VecSt).cells.get (d.len + t) =
      .val ((List.range' w.created k).getD t 0) := by
    intro t ht
    show x'.cells.get (d.len + t) = _
    rw [k7 t ht]
    simp [List.getD_eq_getElem?_getD, List.getElem?_range', ht]
  obtain ⟨habs', _⟩ := splice_final d hg d.len d.len k (List.range' w.created k) (Nat.le_refl _) (Nat.le_refl _)
    { x' with len := d.len + k } (by simp) (by simp) hcge
    (by show x'.cells.length ≤ x'.cap; rw [k2]; omega) k6 hfresh (fun t ht => absurd ht (by omega))
  rw [e] at hinv' ⊢
  have hvecs : (w1.upd v { x' with len := d.len + k }).vecs = w.vecs.set v { x' with len := d.len + k } := by
    rw [← hw1']; simp [World.upd]
  refine ⟨⟨hinv', by rw [← hw1']; exact hf, by rw [← hw1']; show w.created + k = ms.next + k; rw [hn],
    by rw [hvecs]; simp [hlen], ?_⟩, rfl, by rw [← hw1']; rfl⟩
  intro u du hu
  rw [hvecs] at hu
  by_cases huv : u = v
  · subst huv
    rw [List.getElem?_set_self hlt] at hu
    cases hu
    refine ⟨some { a with items := a.items ++ List.range' ms.next k }, by simp [hvlt], ?_⟩
    obtain ⟨x'', hx'', q1, q2, q3⟩ := writeFresh_keeps u k w d d.len hd hl hroom'
    rw [he, hv1] at hx''
    cases hx''
    refine ⟨k3, by show x'.ty = a.ty; rw [q1, hty], ?_, by show x'.cap = a.cap; rw [k2, hcp],
      by show VecSt.resizable x'.bk = _ ∧ x'.cloneable = _; rw [q2, q3]; exact hbk⟩
    rw [habs', seg_self]
    have hl0 : seg d.abs 0 d.len = d.abs := by
      have := seg_zero_length d.abs; rw [VecSt.abs_length hg.wf] at this; exact this
    rw [hl0, habs, List.take_of_length_le (by simp : (List.range' w.created k).length ≤ k), hn]
    simp
  · rw [List.getElem?_set_ne (Ne.symm huv)] at hu
    obtain ⟨oa, hoa, hs⟩ := hsh u du hu
    exact ⟨oa, by simp only; rw [List.getElem?_set_ne (Ne.symm huv)]; exact hoa, hs⟩

/-! ### dropping a vector -/

theorem map_val_inj : ∀ (l l' : List Nat), l.map Cell.val = l'.map Cell.val → l = l'
  | [], [], _ => rfl
  | [], _ :: _, h => by simp at h
  | _ :: _, [], h => by simp at h
  | x :: xs, y :: ys, h => by
    simp only [List.map_cons, List.cons.injEq, Cell.val.injEq] at h
    rw [h.1, map_val_inj xs ys h.2]

/-- **dropping a vector refines**: its component becomes `none`, every one of its items is destroyed exactly once, in
order, nothing else is destroyed and no other vector changes -/
theorem drop_refines (cfg : Cfg) (w : World) (ms : MSpec) (h : MRel w ms) (v : Nat) (a : AVec)
    (hv : ms.vecs[v]? = some (some a)) :
    MRel (step cfg (.dropVec v) w).1 ⟨ms.vecs.set v none, ms.next⟩ ∧ (step cfg (.dropVec v) w).2.notUb ∧
      (step cfg (.dropVec v) w).1.dropLog = a.items.reverse ++ w.dropLog := by
  obtain ⟨hinv, hf, hn, hlen, hsh⟩ := h
  have hvlt : v < ms.vecs.length := (List.getElem?_eq_some_iff.mp hv).1
  obtain ⟨d, hd⟩ : ∃ d, w.vecs[v]? = some d := ⟨w.vecs[v]'(by omega), List.getElem?_eq_getElem (by omega)⟩
  obtain ⟨oa, hoa, hshow⟩ := hsh v d hd
  rw [hv] at hoa; cases hoa
  obtain ⟨hl, hty, habs, hcp, hbk⟩ := hshow
  obtain ⟨hinv', hnub⟩ := Hist.step_inv cfg (.dropVec v) w hinv trivial trivial
  have hg := hinv.good v d hd
  have hwlt : v < w.vecs.length := (List.getElem?_eq_some_iff.mp hd).1
  have h1 := hg.wf.len_le; have h2 := hg.wf.cells_le
  let d0 : VecSt := { d with len := 0 }
  let w0 : World := w.upd v d0
  have hv0 : w0.vecs[v]? = some d0 := World.upd_get w v d0 hwlt
  have hdr : dropRange v false 0 d.len w0 = (logDrops d.hasDrop (d.idsRange 0 d.len) w0, .ok ()) := by
    have := dropRange_nofault w0 v d0 false 0 d.len hv0 hl (by simpa [w0] using hf) (by show 0 + (d.len - 0) ≤ d.cap; omega)
      (by intro j hj; have := hg.init j (by omega); simpa using this)
    simpa [d0, VecSt.idsRange] using this
  let w1 : World := logDrops d.hasDrop (d.idsRange 0 d.len) w0
  have hv1 : w1.vecs[v]? = some d0 := by simpa [w1] using hv0
  have hdr' : dropRange v false 0 d.len (w.upd v { d with len := 0 }) = (w1, .ok ()) := hdr
  let dead : VecSt := { d0 with live := false, cells := [], cap := 0 }
  have hids : d.idsRange 0 d.len = a.items := by
    have := idsRange_map_seg d hg 0 d.len (by omega)
    rw [show seg d.abs 0 (0 + d.len) = d.abs by simp [seg, VecSt.abs, List.take_take]] at this
    rw [habs] at this
    exact map_val_inj _ _ this
  have hfin : ∃ W', step cfg (.dropVec v) w = (W', .ok []) ∧ W'.vecs = w.vecs.set v dead ∧ W'.created = w.created ∧
      W'.fault = none ∧ W'.dropLog = (d.idsRange 0 d.len).reverse ++ w.dropLog := by
    have hvs : (w1.upd v dead).vecs = w.vecs.set v dead := by
      show ((logDrops d.hasDrop (d.idsRange 0 d.len) (w.upd v d0)).vecs.set v dead) = _
      rw [World.logDrops_vecs]
      show (w.vecs.set v d0).set v dead = _
      simp
    have hdl : w1.dropLog = (d.idsRange 0 d.len).reverse ++ w.dropLog := by
      show (logDrops d.hasDrop (d.idsRange 0 d.len) w0).dropLog = _
      rw [World.logDrops_dropLog]; rfl
    have hw1f : w1.fault = none := by simpa [w1, w0] using hf
    have hw1c : w1.created = w.created := by simp [w1, w0]
    have hstep0 : step cfg (.dropVec v) w = (do dropVec v; pure [] : WM Out) w := by
      simp only [step, WM.bind_apply, WM.get_apply, hd, hl, if_true]
    cases hbk' : d.bk with
    | heap =>
      by_cases hz : d.size * d.cap ≠ 0
      · refine ⟨{ (w1.upd v dead) with ev := [Event.dealloc (d.size * d.cap) d.align].reverse ++ w1.ev }, ?_, hvs, hw1c, hw1f, hdl⟩
        rw [hstep0]
        simp only [WM.bind_apply, dropVec, getVec_ok w v d hd hl, setLen, setVec_apply,
          WM.onUnwind, hdr', getVec_ok w1 v d0 hv1 hl, WM.pure_apply]
        simp [d0, hbk', hz, emit, dead]
        rfl
      · refine ⟨w1.upd v dead, ?_, hvs, hw1c, hw1f, hdl⟩
        rw [hstep0]
        simp only [WM.bind_apply, dropVec, getVec_ok w v d hd hl, setLen, setVec_apply,
          WM.onUnwind, hdr', getVec_ok w1 v d0 hv1 hl, WM.pure_apply]
        simp [d0, hbk', hz, dead]
    | reloc =>
      refine ⟨{ (w1.upd v dead) with ev := [Event.memDrop].reverse ++ w1.ev }, ?_, hvs, hw1c, hw1f, hdl⟩
      rw [hstep0]
      simp only [WM.bind_apply, dropVec, getVec_ok w v d hd hl, setLen, setVec_apply,
        WM.onUnwind, hdr', getVec_ok w1 v d0 hv1 hl, WM.pure_apply]
      simp [d0, hbk', emit, dead]
      rfl
    | stack b =>
      refine ⟨w1.upd v dead, ?_, hvs, hw1c, hw1f, hdl⟩
      rw [hstep0]
      simp only [WM.bind_apply, dropVec, getVec_ok w v d hd hl, setLen, setVec_apply,
        WM.onUnwind, hdr', getVec_ok w1 v d0 hv1 hl, WM.pure_apply]
      simp [d0, hbk', dead]
    | stackN n b =>
      refine ⟨w1.upd v dead, ?_, hvs, hw1c, hw1f, hdl⟩
      rw [hstep0]
      simp only [WM.bind_apply, dropVec, getVec_ok w v d hd hl, setLen, setVec_apply,
        WM.onUnwind, hdr', getVec_ok w1 v d0 hv1 hl, WM.pure_apply]
      simp [d0, hbk', dead]
    | empty =>
      refine ⟨w1.upd v dead, ?_, hvs, hw1c, hw1f, hdl⟩
      rw [hstep0]
      simp only [WM.bind_apply, dropVec, getVec_ok w v d hd hl, setLen, setVec_apply,
        WM.onUnwind, hdr', getVec_ok w1 v d0 hv1 hl, WM.pure_apply]
      simp [d0, hbk', dead]
  obtain ⟨W', hex, hvecs, hcr, hflt, hdl⟩ := hfin
  rw [hex] at hinv' hnub ⊢
  refine ⟨⟨hinv', hflt, by rw [hcr, hn], by rw [hvecs]; simp [hlen], ?_⟩, hnub, by rw [hdl, hids]⟩
  intro k dk hk
  rw [hvecs] at hk
  by_cases hkv : k = v
  · subst hkv
    rw [List.getElem?_set_self hwlt] at hk
    cases hk
    exact ⟨none, by simp [hvlt], rfl⟩
  · rw [List.getElem?_set_ne (Ne.symm hkv)] at hk
    obtain ⟨oa, hoa, hs⟩ := hsh k dk hk
    exact ⟨oa, by simp only; rw [List.getElem?_set_ne (Ne.symm hkv)]; exact hoa, hs⟩

/-! ### creating a vector -/

/-- **`AnyVec::new` refines**: a new last component - empty, of the requested element type, at the capacity the storage
starts with - and nothing else changes; or the storage cannot be built for this element layout (a stack too small, an
alignment it does not support): a panic and no change at all -/
theorem new_refines (cfg : Cfg) (w : World) (ms : MSpec) (h : MRel w ms) (ty : Nat) (bk : Backend) (cl : Bool) :
    (∃ cap, VecSt.buildCap bk cfg.size cfg.align = .ok cap ∧
        MRel (step cfg (.new ty bk cl) w).1 ⟨ms.vecs ++ [some ⟨ty, [], cap, !VecSt.resizable bk, cl⟩], ms.next⟩ ∧
        (step cfg (.new ty bk cl) w).2 = .ok []) ∨
    (∃ m, VecSt.buildCap bk cfg.size cfg.align = .panic m ∧ MRel (step cfg (.new ty bk cl) w).1 ms ∧
        (step cfg (.new ty bk cl) w).2 = .panic m) := by
  obtain ⟨hinv, hf, hn, hlen, hsh⟩ := h
  obtain ⟨hinv', hnub⟩ := Hist.step_inv cfg (.new ty bk cl) w hinv trivial trivial
  cases hb : VecSt.buildCap bk cfg.size cfg.align with
  | ok cap =>
    left
    let nv : VecSt := { ty := ty, size := cfg.size, align := cfg.align, hasDrop := cfg.hasDrop, cloneable := cl, bk := bk,
                        cap := cap, cells := [], len := 0, gen := 0, live := true }
    have hfin : ∃ W', step cfg (.new ty bk cl) w = (W', .ok []) ∧ W'.vecs = w.vecs ++ [nv] ∧ W'.created = w.created ∧
        W'.fault = none := by
      by_cases hr : bk = .reloc
      · refine ⟨{ w with vecs := w.vecs ++ [nv], ev := [Event.memBuild cap].reverse ++ w.ev }, ?_, rfl, rfl, hf⟩
        simp only [step, newVec, WM.bind_apply, hb, WM.lift_ok, WM.get_apply, WM.modify_apply]
        rw [if_pos hr]
        simp only [emit, WM.modify_apply, WM.bind_apply, WM.pure_apply]
        rfl
      · refine ⟨{ w with vecs := w.vecs ++ [nv] }, ?_, rfl, rfl, hf⟩
        simp only [step, newVec, WM.bind_apply, hb, WM.lift_ok, WM.get_apply, WM.modify_apply]
        rw [if_neg hr]
        simp only [WM.bind_apply, WM.pure_apply]
        rfl
    obtain ⟨W', hex, hvecs, hcr, hflt⟩ := hfin
    refine ⟨cap, rfl, ?_, by rw [hex]⟩
    rw [hex] at hinv' ⊢
    refine ⟨hinv', hflt, by rw [hcr, hn], by rw [hvecs]; simp [hlen], ?_⟩
    exact shows_append w W' ms nv _ hlen hsh hvecs ⟨rfl, rfl, rfl, rfl, by simp [nv], rfl⟩
  | panic m =>
    right
    have hex : step cfg (.new ty bk cl) w = ({ w with fault := none }, .panic m) := by
      simp only [step, newVec, WM.bind_apply, hb, WM.lift]
    refine ⟨m, rfl, ?_, by rw [hex]⟩
    rw [hex]
    rw [hex] at hinv'
    exact ⟨hinv', rfl, hn, hlen, hsh⟩
  | ub m =>
    exfalso
    cases hbk' : bk <;> simp [VecSt.buildCap, hbk'] at hb <;> (repeat (first | split at hb | cases hb))

/-! ### `with_capacity` -/

/-- **`AnyVec::with_capacity(n)` refines** (growable storages - the only ones that have it): a new last component - empty,
of the requested element type, with capacity *exactly* `n` - and nothing else changes; or the request cannot be met
(`n` elements exceed the address space): a panic, and the half-built vector is released again - a `none` component, no
destructor run, no identity made -/
theorem with_capacity_refines (cfg : Cfg) (w : World) (ms : MSpec) (h : MRel w ms) (ty : Nat) (bk : Backend) (cl : Bool)
    (n : Nat) (hr : VecSt.resizable bk = true) :
    (MRel (step cfg (.withCap ty bk cl n) w).1 ⟨ms.vecs ++ [some ⟨ty, [], n, false, cl⟩], ms.next⟩ ∧
        (step cfg (.withCap ty bk cl n) w).2 = .ok []) ∨
    (∃ m, MRel (step cfg (.withCap ty bk cl n) w).1 ⟨ms.vecs ++ [none], ms.next⟩ ∧
        (step cfg (.withCap ty bk cl n) w).2 = .panic m ∧ n ≠ 0 ∧ cfg.size ≠ 0) := by
  obtain ⟨hinv, hf, hn, hlen, hsh⟩ := h
  obtain ⟨hinv', hnub⟩ := Hist.step_inv cfg (.withCap ty bk cl n) w hinv hr trivial
  have key : ∀ (nv : VecSt), nv.WF → nv.len = 0 → nv.abs = [] → nv.ty = ty → nv.cloneable = cl → nv.live = true →
      VecSt.resizable nv.bk = true → nv.cap = 0 → nv.size = cfg.size →
      (∀ d' es, nv.memResize n = .ok (d', es) → ∃ W', step cfg (.withCap ty bk cl n) w = (W', .ok []) ∧
        W'.vecs = w.vecs ++ [d'] ∧ W'.created = w.created ∧ W'.fault = w.fault) →
      (∀ m, nv.memResize n = .panic m → ∃ W', step cfg (.withCap ty bk cl n) w = (W', .panic m) ∧
        W'.vecs = w.vecs ++ [{ nv with live := false }] ∧ W'.created = w.created ∧ W'.fault = none) →
      (MRel (step cfg (.withCap ty bk cl n) w).1 ⟨ms.vecs ++ [some ⟨ty, [], n, false, cl⟩], ms.next⟩ ∧
        (step cfg (.withCap ty bk cl n) w).2 = .ok []) ∨
      (∃ m, MRel (step cfg (.withCap ty bk cl n) w).1 ⟨ms.vecs ++ [none], ms.next⟩ ∧
        (step cfg (.withCap ty bk cl n) w).2 = .panic m ∧ n ≠ 0 ∧ cfg.size ≠ 0) := by
    intro nv hnvwf hnvlen hnvabs hnvty hnvcl hnvlive hnvr hnvcap hnvsize hok hpn
    cases hm : nv.memResize n with
    | ok p =>
      obtain ⟨d', es⟩ := p
      left
      obtain ⟨hcap, _, habs', _, hty', _, _, _, hcl', hbk', hlive'⟩ :=
        memResize_spec nv d' n es hnvwf (by omega) hm
      obtain ⟨W', hex, hvecs, hcr, hflt⟩ := hok d' es hm
      refine ⟨?_, by rw [hex]⟩
      rw [hex] at hinv' ⊢
      refine ⟨hinv', by rw [hflt, hf], by rw [hcr, hn], by rw [hvecs]; simp [hlen], ?_⟩
      refine shows_append w W' ms d' _ hlen hsh hvecs ⟨by rw [hlive', hnvlive], by rw [hty', hnvty], ?_, hcap, ?_, by rw [hcl', hnvcl]⟩
      · rw [habs', hnvabs]; rfl
      · rw [hbk', hnvr]; rfl
    | panic m =>
      right
      obtain ⟨W', hex, hvecs, hcr, hflt⟩ := hpn m hm
      have hneeds := memResize_panic_needs nv n m hnvcap hm
      rw [hnvsize] at hneeds
      refine ⟨m, ?_, by rw [hex], hneeds⟩
      rw [hex] at hinv' ⊢
      refine ⟨hinv', hflt, by rw [hcr, hn], by rw [hvecs]; simp [hlen], ?_⟩
      exact shows_append w W' ms _ none hlen hsh hvecs rfl
    | ub m =>
      exfalso
      have := memResize_notUb nv n hnvr; rw [hm] at this; exact this.elim
  cases bk with
  | heap =>
    exact key ({ ty := ty, size := cfg.size, align := cfg.align, hasDrop := cfg.hasDrop, cloneable := cl, bk := .heap, cap := 0, cells := [], len := 0, gen := 0, live := true } : VecSt) (emptyVec_good _ _ _ _ _ _ _ _ _).wf rfl rfl rfl rfl rfl rfl rfl rfl
      (fun d' es hm => ExecWithCap.ok_heap cfg w ty n cl d' es hm) (fun m hm => ExecWithCap.panic_heap cfg w ty n cl m hm)
  | reloc =>
    exact key ({ ty := ty, size := cfg.size, align := cfg.align, hasDrop := cfg.hasDrop, cloneable := cl, bk := .reloc, cap := 0, cells := [], len := 0, gen := 0, live := true } : VecSt) (emptyVec_good _ _ _ _ _ _ _ _ _).wf rfl rfl rfl rfl rfl rfl rfl rfl
      (fun d' es hm => ExecWithCap.ok_reloc cfg w ty n cl d' es hm) (fun m hm => ExecWithCap.panic_reloc cfg w ty n cl m hm)
  | empty => cases hr
  | stack b => cases hr
  | stackN a b => cases hr

/-- a world that shows the abstract state of all vectors shows, for each live one, the abstract vector of Props/Refine.lean
(the other vectors are the frame) -/
theorem rel_of_mrel (w : World) (ms : MSpec) (h : MRel w ms) (v : Nat) (a : AVec) (hv : ms.vecs[v]? = some (some a)) :
    Rel (fun u => w.vecs[u]?) v a.ty w (a.spec ms.next) := by
  obtain ⟨hinv, hf, hn, hlen, hsh⟩ := h
  have hvlt : v < ms.vecs.length := (List.getElem?_eq_some_iff.mp hv).1
  obtain ⟨d, hd⟩ : ∃ d, w.vecs[v]? = some d := ⟨w.vecs[v]'(by omega), List.getElem?_eq_getElem (by omega)⟩
  obtain ⟨oa, hoa, hshow⟩ := hsh v d hd
  rw [hv] at hoa; cases hoa
  obtain ⟨hl, hty, habs, hcp, hbk⟩ := hshow
  exact ⟨hinv, hf, ⟨d, hd, hl, hty, habs, hcp, hbk⟩, hn, fun _ _ => rfl⟩

/-- **`with_capacity(n)` keeps its promise**: when the call returns, the new vector (the last one) takes `n` pushes, none
refused, without its capacity ever moving: afterwards the world shows, for that vector, exactly the `n` new items at
capacity `n` (and every other vector as it was) -/
theorem with_capacity_then_pushes (cfg : Cfg) (w : World) (ms : MSpec) (h : MRel w ms) (ty : Nat) (bk : Backend) (cl : Bool)
    (n : Nat) (hr : VecSt.resizable bk = true) (hok : (step cfg (.withCap ty bk cl n) w).2 = .ok []) :
    ∃ s', Rel (fun u => (step cfg (.withCap ty bk cl n) w).1.vecs[u]?) ms.vecs.length ty
        (runOps cfg ms.vecs.length ty (step cfg (.withCap ty bk cl n) w).1 (List.replicate n .push)) s' ∧
      s'.items = List.range' ms.next n ∧ s'.cap = n := by
  rcases with_capacity_refines cfg w ms h ty bk cl n hr with ⟨hrel, _⟩ | ⟨m, _, hres, _⟩
  · have hv : (⟨ms.vecs ++ [some ⟨ty, [], n, false, cl⟩], ms.next⟩ : MSpec).vecs[ms.vecs.length]? =
        some (some ⟨ty, [], n, false, cl⟩) := by simp
    have hrel1 := rel_of_mrel _ _ hrel ms.vecs.length ⟨ty, [], n, false, cl⟩ hv
    obtain ⟨s', hsteps, hrel'⟩ := history_refines cfg ms.vecs.length ty (List.replicate n .push) _ _ hrel1
      (by intro op hop; rw [List.eq_of_mem_replicate hop]; trivial)
    obtain ⟨hi, hc, _⟩ := Spec.pushes_with_room n _ s' (by simp [AVec.spec]) hsteps
    exact ⟨s', hrel', by simpa [AVec.spec] using hi, by simpa [AVec.spec] using hc⟩
  · rw [hres] at hok; cases hok

/-! ### an empty vector for the same elements: `clone_empty()` / `clone_empty_in(builder)` -/

/-- **`clone_empty_in` refines**: a new last component - empty, of the *source's* element type and trait set, on the
requested storage at the capacity that storage starts with for the source's element layout - and nothing else changes
(the source keeps its items: nothing is cloned); or the storage cannot be built for this layout: a panic and no change -/
theorem clone_empty_in_refines (cfg : Cfg) (w : World) (ms : MSpec) (h : MRel w ms) (v : Nat) (bk : Backend) (a : AVec)
    (hv : ms.vecs[v]? = some (some a)) :
    ∃ d, w.vecs[v]? = some d ∧
    ((∃ cap, VecSt.buildCap bk d.size d.align = .ok cap ∧
        MRel (step cfg (.cloneEmptyIn v bk) w).1
          ⟨ms.vecs ++ [some ⟨a.ty, [], cap, !VecSt.resizable bk, a.cloneable⟩], ms.next⟩ ∧
        (step cfg (.cloneEmptyIn v bk) w).2 = .ok []) ∨
     (∃ m, VecSt.buildCap bk d.size d.align = .panic m ∧ MRel (step cfg (.cloneEmptyIn v bk) w).1 ms ∧
        (step cfg (.cloneEmptyIn v bk) w).2 = .panic m)) := by
  obtain ⟨hinv, hf, hn, hlen, hsh⟩ := h
  have hvlt : v < ms.vecs.length := (List.getElem?_eq_some_iff.mp hv).1
  obtain ⟨d, hd⟩ : ∃ d, w.vecs[v]? = some d := ⟨w.vecs[v]'(by omega), List.getElem?_eq_getElem (by omega)⟩
  obtain ⟨oa, hoa, hshow⟩ := hsh v d hd
  rw [hv] at hoa; cases hoa
  obtain ⟨hl, hty, habs, hcp, hbk, hcl⟩ := hshow
  obtain ⟨hinv', hnub⟩ := Hist.step_inv cfg (.cloneEmptyIn v bk) w hinv trivial ⟨d, hd, hl⟩
  refine ⟨d, hd, ?_⟩
  cases hb : VecSt.buildCap bk d.size d.align with
  | ok cap =>
    left
    let nv : VecSt := { d with bk := bk, cap := cap, cells := [], len := 0, gen := 0, live := true }
    have hfin : ∃ W', step cfg (.cloneEmptyIn v bk) w = (W', .ok []) ∧ W'.vecs = w.vecs ++ [nv] ∧
        W'.created = w.created ∧ W'.fault = none := by
      by_cases hr : bk = .reloc
      · refine ⟨{ w with vecs := w.vecs ++ [nv], ev := [Event.memBuild cap].reverse ++ w.ev }, ?_, rfl, rfl, hf⟩
        simp only [step, cloneEmptyIn, WM.bind_apply, getVec_ok w v d hd hl, hb, WM.lift_ok, WM.get_apply, WM.modify_apply]
        rw [if_pos hr]
        simp only [emit, WM.modify_apply, WM.bind_apply, WM.pure_apply]
        rfl
      · refine ⟨{ w with vecs := w.vecs ++ [nv] }, ?_, rfl, rfl, hf⟩
        simp only [step, cloneEmptyIn, WM.bind_apply, getVec_ok w v d hd hl, hb, WM.lift_ok, WM.get_apply, WM.modify_apply]
        rw [if_neg hr]
        simp only [WM.bind_apply, WM.pure_apply]
        rfl
    obtain ⟨W', hex, hvecs, hcr, hflt⟩ := hfin
    refine ⟨cap, rfl, ?_, by rw [hex]⟩
    rw [hex] at hinv' ⊢
    refine ⟨hinv', hflt, by rw [hcr, hn], by rw [hvecs]; simp [hlen], ?_⟩
    exact shows_append w W' ms nv _ hlen hsh hvecs ⟨rfl, hty, rfl, rfl, by simp [nv], hcl⟩
  | panic m =>
    right
    have hex : step cfg (.cloneEmptyIn v bk) w = ({ w with fault := none }, .panic m) := by
      simp only [step, cloneEmptyIn, WM.bind_apply, getVec_ok w v d hd hl, hb, WM.lift]
    refine ⟨m, rfl, ?_, by rw [hex]⟩
    rw [hex]
    rw [hex] at hinv'
    exact ⟨hinv', rfl, hn, hlen, hsh⟩
  | ub m =>
    exfalso
    have := buildCap_notUb bk d.size d.align; rw [hb] at this; exact this.elim

/-- **`clone_empty` refines**: the same on the source's own kind of storage - so the new vector is growable exactly when
the source is -/
theorem clone_empty_refines (cfg : Cfg) (w : World) (ms : MSpec) (h : MRel w ms) (v : Nat) (a : AVec)
    (hv : ms.vecs[v]? = some (some a)) :
    ∃ d, w.vecs[v]? = some d ∧
    ((∃ cap, VecSt.buildCap d.bk d.size d.align = .ok cap ∧
        MRel (step cfg (.cloneEmpty v) w).1 ⟨ms.vecs ++ [some ⟨a.ty, [], cap, a.fixed, a.cloneable⟩], ms.next⟩ ∧
        (step cfg (.cloneEmpty v) w).2 = .ok []) ∨
     (∃ m, VecSt.buildCap d.bk d.size d.align = .panic m ∧ MRel (step cfg (.cloneEmpty v) w).1 ms ∧
        (step cfg (.cloneEmpty v) w).2 = .panic m)) := by
  obtain ⟨d, hd, hres⟩ := clone_empty_in_refines cfg w ms h v (match w.vecs[v]? with | some d => d.bk | none => .heap) a hv
  have hvlt : v < ms.vecs.length := (List.getElem?_eq_some_iff.mp hv).1
  obtain ⟨oa, hoa, hshow⟩ := h.shows v d hd
  rw [hv] at hoa; cases hoa
  obtain ⟨hl, _, _, _, hbk, _⟩ := hshow
  have e : step cfg (.cloneEmpty v) w = step cfg (.cloneEmptyIn v d.bk) w := by
    simp only [step, WM.bind_apply, getVec_ok w v d hd hl]
  simp only [hd] at hres
  have hfx : (!VecSt.resizable d.bk) = a.fixed := by rw [hbk]; simp
  rw [hfx] at hres
  rw [e]
  exact ⟨d, hd, hres⟩

/-! ### a lazy clone of an element of one vector pushed into another: `u.push(v.at(i).lazy_clone())` -/

/-- what consuming a lazy clone of item `i` of `v` by `u.push(..)` can lead to: one clone - a fresh identity - becomes the
last item of `u` and nothing else changes (the source item stays where it is); or nothing at all happens (`i` out of
range, other element type, no room: an unconsumed lazy clone owns nothing, so nothing is destroyed either) -/
inductive LazyStep (ms : MSpec) (u i : Nat) (a au : AVec) : MSpec → Prop where
  | cloned (c : Nat) (hi : i < a.items.length) (hty : a.ty = au.ty) (hroom : (au.spec ms.next).Room (some c)) :
      LazyStep ms u i a au ⟨ms.vecs.set u (some { au with items := au.items ++ [ms.next], cap := c }), ms.next + 1⟩
  | nothing (h : a.items.length ≤ i ∨ a.ty ≠ au.ty ∨ (au.spec ms.next).Room none) : LazyStep ms u i a au ms

/-- **a lazy clone clones exactly when it is consumed, once** (C09 against the abstract state) -/
theorem lazy_push_refines (cfg : Cfg) (w : World) (ms : MSpec) (h : MRel w ms) (v u i dp : Nat) (hvu : v ≠ u) (a au : AVec)
    (hv : ms.vecs[v]? = some (some a)) (hu : ms.vecs[u]? = some (some au)) :
    ∃ ms', LazyStep ms u i a au ms' ∧ MRel (step cfg (.push u (.lazyRef v i dp)) w).1 ms' ∧
      (step cfg (.push u (.lazyRef v i dp)) w).2.notUb := by
  obtain ⟨hinv, hf, hn, hlen, hsh⟩ := h
  have hvlt : v < ms.vecs.length := (List.getElem?_eq_some_iff.mp hv).1
  have hult : u < ms.vecs.length := (List.getElem?_eq_some_iff.mp hu).1
  obtain ⟨d, hd⟩ : ∃ d, w.vecs[v]? = some d := ⟨w.vecs[v]'(by omega), List.getElem?_eq_getElem (by omega)⟩
  obtain ⟨du, hdu⟩ : ∃ d, w.vecs[u]? = some d := ⟨w.vecs[u]'(by omega), List.getElem?_eq_getElem (by omega)⟩
  obtain ⟨oa, hoa, hshow⟩ := hsh v d hd
  rw [hv] at hoa; cases hoa
  obtain ⟨hl, hty, habs, hcp, hbk⟩ := hshow
  obtain ⟨oau, hoau, hshowu⟩ := hsh u du hdu
  rw [hu] at hoau; cases hoau
  obtain ⟨hlu, htyu, habsu, hcpu, hbku⟩ := hshowu
  have hvalid : Hist.Valid w.vecs (.push u (.lazyRef v i dp)) :=
    ⟨⟨du, hdu, hlu⟩, by intro v' i' dp' hh; cases hh; exact ⟨Ne.symm hvu, d, hd, hl⟩⟩
  obtain ⟨hinv', hnub⟩ := Hist.step_inv cfg (.push u (.lazyRef v i dp)) w hinv trivial hvalid
  have hg := hinv.good v d hd
  have hgu := hinv.good u du hdu
  have hlenA := Refine.abs_len hg.wf habs
  have hwult : u < w.vecs.length := (List.getElem?_eq_some_iff.mp hdu).1
  -- nothing happens: the step panics and leaves the world as it was
  have nothing : (∃ m, step cfg (.push u (.lazyRef v i dp)) w = ({ w with fault := none }, .panic m)) →
      (a.items.length ≤ i ∨ a.ty ≠ au.ty ∨ (au.spec ms.next).Room none) →
      ∃ ms', LazyStep ms u i a au ms' ∧ MRel (step cfg (.push u (.lazyRef v i dp)) w).1 ms' ∧
        (step cfg (.push u (.lazyRef v i dp)) w).2.notUb := by
    intro hex hwhy
    obtain ⟨m, hex⟩ := hex
    refine ⟨ms, LazyStep.nothing hwhy, ?_, hnub⟩
    rw [hex] at hinv' ⊢
    exact ⟨hinv', rfl, hn, hlen, hsh⟩
  by_cases hi : i < d.len
  · have hc := Refine.cell_of_abs hg habs i hi
    have hmk : mkVal cfg (.lazyRef v i dp) w = (w, .ok (.lazyElem v i)) := by
      simp only [mkVal, WM.bind_apply, getVec_ok w v d hd hl, hi, if_true, WM.pure_apply]
    by_cases htyeq : d.ty = du.ty
    · cases hr : du.reserveOne with
      | ok p =>
        obtain ⟨du1, es⟩ := p
        have hpush := AnyVec.push_lazy_clones_once w v u i _ d du du1 es hvu hd hl hg.wf hi hc hdu hlu hgu.wf htyeq hr hf
        obtain ⟨hroom1, hlen1, ha1, hw1, hty1, _, _, _, hcl1, hbk1, hl1⟩ := reserveOne_spec du du1 es hgu.wf hr
        have hex : step cfg (.push u (.lazyRef v i dp)) w =
            ({ w with vecs := w.vecs.set u (du1.pushCell (.val w.created)), created := w.created + 1,
                      ev := Event.clone (a.items.getD i 0) w.created :: (es.reverse ++ w.ev) }, .ok []) := by
          simp only [step, WM.bind_apply, hmk, hpush, WM.pure_apply]
        refine ⟨_, LazyStep.cloned du1.cap (by omega) (by rw [← hty, ← htyu]; exact htyeq)
          (Refine.room_ok hgu.wf habsu hcpu hbku.1 hr), ?_, hnub⟩
        rw [hex] at hinv' ⊢
        refine ⟨hinv', hf, by show w.created + 1 = ms.next + 1; rw [hn], by simp [hlen], ?_⟩
        intro k dk hk
        have hk' : (w.vecs.set u (du1.pushCell (.val w.created)))[k]? = some dk := hk
        by_cases hku : k = u
        · subst hku
          rw [List.getElem?_set_self hwult] at hk'
          cases hk'
          refine ⟨some { au with items := au.items ++ [ms.next], cap := du1.cap }, by simp [hult], ?_⟩
          refine ⟨by simp [VecSt.pushCell, hl1, hlu], by simp [VecSt.pushCell, hty1, htyu], ?_,
            by simp [VecSt.pushCell], by simp [VecSt.pushCell, hbk1, hcl1, hbku]⟩
          rw [VecSt.pushCell_abs du1 _ hw1, ha1, habsu, hn]; simp
        · rw [List.getElem?_set_ne (Ne.symm hku)] at hk'
          obtain ⟨oa, hoa, hs⟩ := hsh k dk hk'
          exact ⟨oa, by simp only; rw [List.getElem?_set_ne (Ne.symm hku)]; exact hoa, hs⟩
      | panic m =>
        refine nothing ⟨m, ?_⟩ (Or.inr (Or.inr (Refine.room_refused hgu.wf habsu hcpu hr)))
        simp only [step, WM.bind_apply, hmk, push, getVec_ok w u du hdu hlu, valTy, getVec_ok w v d hd hl, htyeq,
          ne_eq, not_true_eq_false, if_false, pushUnchecked, WM.onUnwind, vecOp, hr, WM.lift, valDrop, WM.pure_apply]
      | ub m =>
        have := reserveOne_notUb du
        rw [hr] at this; exact this.elim
    · refine nothing ⟨"Type mismatch!", ?_⟩ (Or.inr (Or.inl (by rw [← hty, ← htyu]; exact htyeq)))
      simp only [step, WM.bind_apply, hmk, push, getVec_ok w u du hdu hlu, valTy, getVec_ok w v d hd hl, ne_eq, htyeq,
        not_false_eq_true, if_true, WM.onUnwind, WM.panic_apply, valDrop, WM.pure_apply]
  · refine nothing ⟨"called `Option::unwrap()` on a `None` value", ?_⟩ (Or.inl (by omega))
    simp only [step, WM.bind_apply, mkVal, getVec_ok w v d hd hl, hi, if_false, WM.panic_apply]

/-- what consuming a lazy clone of item `i` of `v` by `u.insert(j, ..)` can lead to: one clone - a fresh identity - sits at
position `j` of `u`, the items from `j` on moved up by one, and nothing else changes; or nothing at all happens (`i` out
of range, other element type, `j` beyond the length, no room) -/
inductive LazyInsStep (ms : MSpec) (u i j : Nat) (a au : AVec) : MSpec → Prop where
  | cloned (c : Nat) (hi : i < a.items.length) (hty : a.ty = au.ty) (hj : j ≤ au.items.length)
      (hroom : (au.spec ms.next).Room (some c)) :
      LazyInsStep ms u i j a au
        ⟨ms.vecs.set u (some { au with items := au.items.insertIdx j ms.next, cap := c }), ms.next + 1⟩
  | nothing (h : a.items.length ≤ i ∨ a.ty ≠ au.ty ∨ au.items.length < j ∨ (au.spec ms.next).Room none) :
      LazyInsStep ms u i j a au ms

/-- **a lazy clone inserted anywhere - also at the very end - clones exactly once** (C09 against the abstract state) -/
theorem lazy_insert_refines (cfg : Cfg) (w : World) (ms : MSpec) (h : MRel w ms) (v u i j dp : Nat) (hvu : v ≠ u)
    (a au : AVec) (hv : ms.vecs[v]? = some (some a)) (hu : ms.vecs[u]? = some (some au)) :
    ∃ ms', LazyInsStep ms u i j a au ms' ∧ MRel (step cfg (.insert u j (.lazyRef v i dp)) w).1 ms' ∧
      (step cfg (.insert u j (.lazyRef v i dp)) w).2.notUb := by
  obtain ⟨hinv, hf, hn, hlen, hsh⟩ := h
  have hvlt : v < ms.vecs.length := (List.getElem?_eq_some_iff.mp hv).1
  have hult : u < ms.vecs.length := (List.getElem?_eq_some_iff.mp hu).1
  obtain ⟨d, hd⟩ : ∃ d, w.vecs[v]? = some d := ⟨w.vecs[v]'(by omega), List.getElem?_eq_getElem (by omega)⟩
  obtain ⟨du, hdu⟩ : ∃ d, w.vecs[u]? = some d := ⟨w.vecs[u]'(by omega), List.getElem?_eq_getElem (by omega)⟩
  obtain ⟨oa, hoa, hshow⟩ := hsh v d hd
  rw [hv] at hoa; cases hoa
  obtain ⟨hl, hty, habs, hcp, hbk⟩ := hshow
  obtain ⟨oau, hoau, hshowu⟩ := hsh u du hdu
  rw [hu] at hoau; cases hoau
  obtain ⟨hlu, htyu, habsu, hcpu, hbku⟩ := hshowu
  have hvalid : Hist.Valid w.vecs (.insert u j (.lazyRef v i dp)) :=
    ⟨⟨du, hdu, hlu⟩, by intro v' i' dp' hh; cases hh; exact ⟨Ne.symm hvu, d, hd, hl⟩⟩
  obtain ⟨hinv', hnub⟩ := Hist.step_inv cfg (.insert u j (.lazyRef v i dp)) w hinv trivial hvalid
  have hg := hinv.good v d hd
  have hgu := hinv.good u du hdu
  have hlenA := Refine.abs_len hg.wf habs
  have hlenU := Refine.abs_len hgu.wf habsu
  have hwult : u < w.vecs.length := (List.getElem?_eq_some_iff.mp hdu).1
  have nothing : (∃ m, step cfg (.insert u j (.lazyRef v i dp)) w = ({ w with fault := none }, .panic m)) →
      (a.items.length ≤ i ∨ a.ty ≠ au.ty ∨ au.items.length < j ∨ (au.spec ms.next).Room none) →
      ∃ ms', LazyInsStep ms u i j a au ms' ∧ MRel (step cfg (.insert u j (.lazyRef v i dp)) w).1 ms' ∧
        (step cfg (.insert u j (.lazyRef v i dp)) w).2.notUb := by
    intro hex hwhy
    obtain ⟨m, hex⟩ := hex
    refine ⟨ms, LazyInsStep.nothing hwhy, ?_, hnub⟩
    rw [hex] at hinv' ⊢
    exact ⟨hinv', rfl, hn, hlen, hsh⟩
  by_cases hi : i < d.len
  · have hc := Refine.cell_of_abs hg habs i hi
    have hmk : mkVal cfg (.lazyRef v i dp) w = (w, .ok (.lazyElem v i)) := by
      simp only [mkVal, WM.bind_apply, getVec_ok w v d hd hl, hi, if_true, WM.pure_apply]
    by_cases htyeq : d.ty = du.ty
    · by_cases hj : j ≤ du.len
      · cases hr : du.reserveOne with
        | ok p =>
          obtain ⟨du1, es⟩ := p
          have hins := AnyVec.insert_lazy_clones_once w v u i j _ d du du1 es hvu hd hl hg.wf hi hc hdu hlu hgu.wf htyeq hj hr hf
          obtain ⟨hroom1, hlen1, ha1, hw1, hty1, _, _, _, hcl1, hbk1, hl1⟩ := reserveOne_spec du du1 es hgu.wf hr
          have hex : step cfg (.insert u j (.lazyRef v i dp)) w =
              ({ w with vecs := w.vecs.set u (du1.insertAt j (.val w.created)), created := w.created + 1,
                        ev := Event.clone (a.items.getD i 0) w.created :: (es.reverse ++ w.ev) }, .ok []) := by
            simp only [step, WM.bind_apply, hmk, hins, WM.pure_apply]
          refine ⟨_, LazyInsStep.cloned du1.cap (by omega) (by rw [← hty, ← htyu]; exact htyeq) (by omega)
            (Refine.room_ok hgu.wf habsu hcpu hbku.1 hr), ?_, hnub⟩
          rw [hex] at hinv' ⊢
          refine ⟨hinv', hf, by show w.created + 1 = ms.next + 1; rw [hn], by simp [hlen], ?_⟩
          intro k dk hk
          have hk' : (w.vecs.set u (du1.insertAt j (.val w.created)))[k]? = some dk := hk
          by_cases hku : k = u
          · subst hku
            rw [List.getElem?_set_self hwult] at hk'
            cases hk'
            refine ⟨some { au with items := au.items.insertIdx j ms.next, cap := du1.cap }, by simp [hult], ?_⟩
            refine ⟨by simp [VecSt.insertAt, hl1, hlu], by simp [VecSt.insertAt, hty1, htyu], ?_,
              by simp [VecSt.insertAt], by simp [VecSt.insertAt, hbk1, hcl1, hbku]⟩
            rw [VecSt.insertAt_abs du1 j _ hw1 (by omega), ha1, habsu, hn]
            rw [Refine.map_insertIdx']
          · rw [List.getElem?_set_ne (Ne.symm hku)] at hk'
            obtain ⟨oa, hoa, hs⟩ := hsh k dk hk'
            exact ⟨oa, by simp only; rw [List.getElem?_set_ne (Ne.symm hku)]; exact hoa, hs⟩
        | panic m =>
          refine nothing ⟨m, ?_⟩ (Or.inr (Or.inr (Or.inr (Refine.room_refused hgu.wf habsu hcpu hr))))
          have hnot : ¬ (j > du.len) := by omega
          simp only [step, WM.bind_apply, hmk, World.insert, getVec_ok w u du hdu hlu, valTy, getVec_ok w v d hd hl, htyeq,
            ne_eq, not_true_eq_false, if_false, insertUnchecked, hnot, WM.onUnwind, vecOp, hr, WM.lift, valDrop, WM.pure_apply]
        | ub m =>
          have := reserveOne_notUb du
          rw [hr] at this; exact this.elim
      · refine nothing ⟨"Index out of range!", ?_⟩ (Or.inr (Or.inr (Or.inl (by omega))))
        have hgt : j > du.len := by omega
        simp only [step, WM.bind_apply, hmk, World.insert, getVec_ok w u du hdu hlu, valTy, getVec_ok w v d hd hl, htyeq,
          ne_eq, not_true_eq_false, if_false, insertUnchecked, hgt, if_true, WM.onUnwind, WM.panic_apply, valDrop, WM.pure_apply]
    · refine nothing ⟨"Type mismatch!", ?_⟩ (Or.inr (Or.inl (by rw [← hty, ← htyu]; exact htyeq)))
      simp only [step, WM.bind_apply, hmk, World.insert, getVec_ok w u du hdu hlu, valTy, getVec_ok w v d hd hl, ne_eq, htyeq,
        not_false_eq_true, if_true, WM.onUnwind, WM.panic_apply, valDrop, WM.pure_apply]
  · refine nothing ⟨"called `Option::unwrap()` on a `None` value", ?_⟩ (Or.inl (by omega))
    simp only [step, WM.bind_apply, mkVal, getVec_ok w v d hd hl, hi, if_false, WM.panic_apply]

/-! ### identities are unique in every abstract state a world shows -/

/-- the identities of one component (a dropped vector holds none) -/
def itemsOf : Option AVec → List Nat
  | some a => a.items
  | none => []

/-- all identities held by vectors, vector by vector -/
def MSpec.allItems (ms : MSpec) : List Nat := (ms.vecs.map itemsOf).flatten

theorem sublist_of_shows : ∀ (ds : List VecSt) (as : List (Option AVec)), ds.length = as.length →
    (∀ (k : Nat) (d : VecSt), ds[k]? = some d → ∃ oa, as[k]? = some oa ∧ Shows d oa) →
    List.Sublist ((as.map itemsOf).flatten.map Cell.val) (ds.map VecSt.abs).flatten
  | [], [], _, _ => by simp
  | [], _ :: _, h, _ => by simp at h
  | _ :: _, [], h, _ => by simp at h
  | d :: ds, oa :: as, hlen, hsh => by
    have ih := sublist_of_shows ds as (by simpa using hlen) (by
      intro k dk hk
      have := hsh (k + 1) dk (by simpa using hk)
      simpa using this)
    obtain ⟨ob, hob, hs⟩ := hsh 0 d rfl
    simp only [List.getElem?_cons_zero, Option.some.injEq] at hob
    subst hob
    simp only [List.map_cons, List.flatten_cons, List.map_append]
    refine List.Sublist.append ?_ ih
    cases oa with
    | none => simp [itemsOf]
    | some a =>
      obtain ⟨_, _, habs, _⟩ := hs
      simp only [itemsOf]
      rw [habs]
      exact List.Sublist.refl _

/-- **one owner per identity, on the abstract side**: in every abstract state a world shows, no identity occurs twice
among all the vectors, every one is older than the counter, and none of them has been destroyed -/
theorem mrel_unique (w : World) (ms : MSpec) (h : MRel w ms) :
    ms.allItems.Nodup ∧ (∀ id ∈ ms.allItems, id < ms.next) ∧ (∀ id ∈ ms.allItems, id ∉ w.dropLog) ∧
      ∀ id ∈ ms.allItems, id ∉ w.held := by
  obtain ⟨hinv, _, hn, hlen, hsh⟩ := h
  have hsub := sublist_of_shows w.vecs ms.vecs hlen hsh
  have hvis : List.Sublist (ms.allItems.map Cell.val) w.allVis := hsub
  have hall : List.Sublist w.allVis w.all := by
    unfold World.all World.owned
    rw [List.append_assoc]
    exact List.sublist_append_left _ _
  have hnd : (ms.allItems.map Cell.val).Nodup := (hvis.trans hall).nodup hinv.nodup
  have hnd' : (w.allVis ++ (w.held.map Cell.val ++ w.dropLog.map Cell.val)).Nodup := by
    have : List.Sublist (w.allVis ++ (w.held.map Cell.val ++ w.dropLog.map Cell.val)) w.all := by
      unfold World.all World.owned
      exact List.sublist_append_left _ _
    exact this.nodup hinv.nodup
  rw [List.nodup_append] at hnd'
  refine ⟨List.Pairwise.of_map Cell.val (fun a b hab hc => hab (by rw [hc])) hnd, ?_, ?_, ?_⟩
  · intro id hid
    have hmem : Cell.val id ∈ w.all := (hvis.trans hall).subset (List.mem_map_of_mem hid)
    rw [← hn]; exact hinv.bound id hmem
  · intro id hid hdrop
    -- the identity would occur twice in `all`: once visible, once in the drop log
    have h1 : Cell.val id ∈ w.allVis := hvis.subset (List.mem_map_of_mem hid)
    have h2 : Cell.val id ∈ w.held.map Cell.val ++ w.dropLog.map Cell.val :=
      List.mem_append_right _ (List.mem_map_of_mem hdrop)
    exact hnd'.2.2 _ h1 _ h2 rfl
  · intro id hid hheld
    have h1 : Cell.val id ∈ w.allVis := hvis.subset (List.mem_map_of_mem hid)
    have h2 : Cell.val id ∈ w.held.map Cell.val ++ w.dropLog.map Cell.val :=
      List.mem_append_left _ (List.mem_map_of_mem hheld)
    exact hnd'.2.2 _ h1 _ h2 rfl

/-! ### one abstract machine for whole life cycles -/

/-- everything a script does with vectors: create, operate on one, clone, hand an element over, drop -/
inductive AOp where
  | new (ty : Nat) (bk : Backend) (cl : Bool)
  | on (v : Nat) (op : VOp)
  | clone (v : Nat)
  /-- `u.push(v.remove(i))` -/
  | move (v i u : Nat)
  /-- `u.push(v.at(i).lazy_clone())` (`dp`: how many times the lazy clone was lazily cloned again before) -/
  | pushLazy (v i dp u : Nat)
  | drop (v : Nat)
  /-- `v.clone_empty()` / `v.clone_empty_in(builder of storage bk)` -/
  | cloneEmpty (v : Nat)
  | cloneEmptyIn (v : Nat) (bk : Backend)
  /-- `AnyVec::with_capacity_in(n, builder of storage bk)` -/
  | withCap (ty : Nat) (bk : Backend) (cl : Bool) (n : Nat)
  /-- `swap(v.at_mut(i), u.at_mut(j))`: two elements of two vectors change places -/
  | eswap (v i u j : Nat)
  /-- `k` values written into the spare capacity of `v`, then `set_len(len + k)` -/
  | setLen (v k : Nat) (typed : Bool)
  /-- `u.insert(j, v.at(i).lazy_clone())` -/
  | insertLazy (v i dp u j : Nat)
  deriving Repr

/-- the script step -/
def AOp.toOp (w : World) : AOp → Op
  | .new ty bk cl => .new ty bk cl
  | .on v op => MOp.toOp w ⟨v, op⟩
  | .clone v => .clone v
  | .move v i u => .remove v i (.pushTo u)
  | .pushLazy v i dp u => .push u (.lazyRef v i dp)
  | .drop v => .dropVec v
  | .cloneEmpty v => .cloneEmpty v
  | .cloneEmptyIn v bk => .cloneEmptyIn v bk
  | .withCap ty bk cl n => .withCap ty bk cl n
  | .eswap v i u j => .eswap v i u j
  | .setLen v k typed => .setLenSpare v k typed
  | .insertLazy v i dp u j => .insert u j (.lazyRef v i dp)

/-- what the type system and the borrow checker guarantee about one step, read on the abstract state: the vectors it
names are alive (and distinct), the operation exists on that storage, `clone()` only with `Cloneable` -/
def AOk (ms : MSpec) : AOp → Prop
  | .new _ _ _ => True
  | .on v op => ∃ a, ms.vecs[v]? = some (some a) ∧ op.Allowed a.fixed
  | .clone v => ∃ a, ms.vecs[v]? = some (some a) ∧ a.cloneable = true
  | .move v _ u => v ≠ u ∧ (∃ a, ms.vecs[v]? = some (some a)) ∧ ∃ au, ms.vecs[u]? = some (some au)
  | .pushLazy v _ _ u => v ≠ u ∧ (∃ a, ms.vecs[v]? = some (some a)) ∧ ∃ au, ms.vecs[u]? = some (some au)
  | .drop v => ∃ a, ms.vecs[v]? = some (some a)
  | .cloneEmpty v => ∃ a, ms.vecs[v]? = some (some a)
  | .cloneEmptyIn v _ => ∃ a, ms.vecs[v]? = some (some a)
  | .withCap _ bk _ _ => VecSt.resizable bk = true
  | .eswap v _ u _ => v ≠ u ∧ (∃ a, ms.vecs[v]? = some (some a)) ∧ ∃ au, ms.vecs[u]? = some (some au)
  /- `set_len` is `unsafe`: that the new length stays within the capacity is the caller's obligation -/
  | .setLen v k _ => ∃ a, ms.vecs[v]? = some (some a) ∧ a.items.length + k ≤ a.cap
  | .insertLazy v _ _ u _ => v ≠ u ∧ (∃ a, ms.vecs[v]? = some (some a)) ∧ ∃ au, ms.vecs[u]? = some (some au)

/-- the abstract machine -/
inductive AStep (cfg : Cfg) : MSpec → AOp → MSpec → Prop where
  | new (ms : MSpec) (ty : Nat) (bk : Backend) (cl : Bool) (cap : Nat)
      (h : VecSt.buildCap bk cfg.size cfg.align = .ok cap) :
      AStep cfg ms (.new ty bk cl) ⟨ms.vecs ++ [some ⟨ty, [], cap, !VecSt.resizable bk, cl⟩], ms.next⟩
  | newRefused (ms : MSpec) (ty : Nat) (bk : Backend) (cl : Bool) (m : String)
      (h : VecSt.buildCap bk cfg.size cfg.align = .panic m) : AStep cfg ms (.new ty bk cl) ms
  | on (ms ms' : MSpec) (v : Nat) (op : VOp) (h : MSpec.Step ms ⟨v, op⟩ ms') : AStep cfg ms (.on v op) ms'
  | clone (ms ms' : MSpec) (v : Nat) (a : AVec) (hv : ms.vecs[v]? = some (some a)) (h : CloneStep ms a ms') :
      AStep cfg ms (.clone v) ms'
  | move (ms ms' : MSpec) (v i u : Nat) (a au : AVec) (hv : ms.vecs[v]? = some (some a))
      (hu : ms.vecs[u]? = some (some au)) (h : MoveStep ms v u i a au ms') : AStep cfg ms (.move v i u) ms'
  | pushLazy (ms ms' : MSpec) (v i dp u : Nat) (a au : AVec) (hv : ms.vecs[v]? = some (some a))
      (hu : ms.vecs[u]? = some (some au)) (h : LazyStep ms u i a au ms') : AStep cfg ms (.pushLazy v i dp u) ms'
  | drop (ms : MSpec) (v : Nat) (a : AVec) (hv : ms.vecs[v]? = some (some a)) :
      AStep cfg ms (.drop v) ⟨ms.vecs.set v none, ms.next⟩
  /-- a new empty vector for the same element type and trait set on the requested storage, at a capacity that storage
  starts with (for the element layout of the source, which the abstract state does not carry); nothing is cloned -/
  | cloneEmptyIn (ms : MSpec) (v : Nat) (bk : Backend) (a : AVec) (cap : Nat) (hv : ms.vecs[v]? = some (some a))
      (h : ∃ size align, VecSt.buildCap bk size align = .ok cap) :
      AStep cfg ms (.cloneEmptyIn v bk) ⟨ms.vecs ++ [some ⟨a.ty, [], cap, !VecSt.resizable bk, a.cloneable⟩], ms.next⟩
  | cloneEmptyInRefused (ms : MSpec) (v : Nat) (bk : Backend) (a : AVec) (hv : ms.vecs[v]? = some (some a))
      (h : ∃ size align m, VecSt.buildCap bk size align = .panic m) : AStep cfg ms (.cloneEmptyIn v bk) ms
  /-- … and on the source's own kind of storage: growable exactly when the source is -/
  | cloneEmpty (ms : MSpec) (v : Nat) (a : AVec) (cap : Nat) (hv : ms.vecs[v]? = some (some a))
      (h : ∃ bk size align, VecSt.buildCap bk size align = .ok cap ∧ (!VecSt.resizable bk) = a.fixed) :
      AStep cfg ms (.cloneEmpty v) ⟨ms.vecs ++ [some ⟨a.ty, [], cap, a.fixed, a.cloneable⟩], ms.next⟩
  | cloneEmptyRefused (ms : MSpec) (v : Nat) (a : AVec) (hv : ms.vecs[v]? = some (some a))
      (h : a.fixed = true) : AStep cfg ms (.cloneEmpty v) ms
  /-- a new empty growable vector of capacity exactly `n`; or the request is refused and the half-built vector released -/
  | withCap (ms : MSpec) (ty : Nat) (bk : Backend) (cl : Bool) (n : Nat) :
      AStep cfg ms (.withCap ty bk cl n) ⟨ms.vecs ++ [some ⟨ty, [], n, false, cl⟩], ms.next⟩
  | withCapRefused (ms : MSpec) (ty : Nat) (bk : Backend) (cl : Bool) (n : Nat) (h : n ≠ 0 ∧ cfg.size ≠ 0) :
      AStep cfg ms (.withCap ty bk cl n) ⟨ms.vecs ++ [none], ms.next⟩
  | eswap (ms ms' : MSpec) (v i u j : Nat) (a au : AVec) (hv : ms.vecs[v]? = some (some a))
      (hu : ms.vecs[u]? = some (some au)) (h : SwapStep ms v u i j a au ms') : AStep cfg ms (.eswap v i u j) ms'
  | setLen (ms : MSpec) (v k : Nat) (typed : Bool) (a : AVec) (hv : ms.vecs[v]? = some (some a))
      (hroom : a.items.length + k ≤ a.cap) :
      AStep cfg ms (.setLen v k typed)
        ⟨ms.vecs.set v (some { a with items := a.items ++ List.range' ms.next k }), ms.next + k⟩
  | insertLazy (ms ms' : MSpec) (v i dp u j : Nat) (a au : AVec) (hv : ms.vecs[v]? = some (some a))
      (hu : ms.vecs[u]? = some (some au)) (h : LazyInsStep ms u i j a au ms') : AStep cfg ms (.insertLazy v i dp u j) ms'

/-- **one step of a life cycle refines the abstract machine** -/
theorem astep_refines (cfg : Cfg) (w : World) (ms : MSpec) (h : MRel w ms) (op : AOp) (hok : AOk ms op) :
    ∃ ms', AStep cfg ms op ms' ∧ MRel (step cfg (op.toOp w) w).1 ms' ∧ (step cfg (op.toOp w) w).2.notUb := by
  cases op with
  | new ty bk cl =>
    rcases new_refines cfg w ms h ty bk cl with ⟨cap, hb, hrel, hres⟩ | ⟨m, hb, hrel, hres⟩
    · exact ⟨_, AStep.new ms ty bk cl cap hb, hrel, by simp only [AOp.toOp]; rw [hres]; trivial⟩
    · exact ⟨_, AStep.newRefused ms ty bk cl m hb, hrel, by simp only [AOp.toOp]; rw [hres]; trivial⟩
  | on v op =>
    obtain ⟨a, hv, hop⟩ := hok
    obtain ⟨ms', hs, hrel, hnub⟩ := mstep_refines cfg w ms h ⟨v, op⟩ a hv hop
    exact ⟨ms', AStep.on ms ms' v op hs, hrel, hnub⟩
  | clone v =>
    obtain ⟨a, hv, hcl⟩ := hok
    obtain ⟨ms', hs, hrel, hnub⟩ := clone_refines cfg w ms h v a hv hcl
    exact ⟨ms', AStep.clone ms ms' v a hv hs, hrel, hnub⟩
  | move v i u =>
    obtain ⟨hvu, ⟨a, hv⟩, au, hu⟩ := hok
    obtain ⟨ms', hs, hrel, hnub⟩ := move_refines cfg w ms h v u i hvu a au hv hu
    exact ⟨ms', AStep.move ms ms' v i u a au hv hu hs, hrel, hnub⟩
  | pushLazy v i dp u =>
    obtain ⟨hvu, ⟨a, hv⟩, au, hu⟩ := hok
    obtain ⟨ms', hs, hrel, hnub⟩ := lazy_push_refines cfg w ms h v u i dp hvu a au hv hu
    exact ⟨ms', AStep.pushLazy ms ms' v i dp u a au hv hu hs, hrel, hnub⟩
  | drop v =>
    obtain ⟨a, hv⟩ := hok
    obtain ⟨hrel, hnub, _⟩ := drop_refines cfg w ms h v a hv
    exact ⟨_, AStep.drop ms v a hv, hrel, hnub⟩
  | cloneEmptyIn v bk =>
    obtain ⟨a, hv⟩ := hok
    obtain ⟨d, _, hres⟩ := clone_empty_in_refines cfg w ms h v bk a hv
    rcases hres with ⟨cap, hb, hrel, hres⟩ | ⟨m, hb, hrel, hres⟩
    · exact ⟨_, AStep.cloneEmptyIn ms v bk a cap hv ⟨_, _, hb⟩, hrel, by simp only [AOp.toOp]; rw [hres]; trivial⟩
    · exact ⟨_, AStep.cloneEmptyInRefused ms v bk a hv ⟨_, _, m, hb⟩, hrel, by simp only [AOp.toOp]; rw [hres]; trivial⟩
  | cloneEmpty v =>
    obtain ⟨a, hv⟩ := hok
    obtain ⟨d, hd, hres⟩ := clone_empty_refines cfg w ms h v a hv
    obtain ⟨oa, hoa, hshow⟩ := h.shows v d hd
    rw [hv] at hoa; cases hoa
    obtain ⟨_, _, _, _, hbk, _⟩ := hshow
    have hfx : (!VecSt.resizable d.bk) = a.fixed := by rw [hbk]; simp
    rcases hres with ⟨cap, hb, hrel, hres⟩ | ⟨m, hb, hrel, hres⟩
    · exact ⟨_, AStep.cloneEmpty ms v a cap hv ⟨_, _, _, hb, hfx⟩, hrel, by simp only [AOp.toOp]; rw [hres]; trivial⟩
    · refine ⟨_, AStep.cloneEmptyRefused ms v a hv ?_, hrel, by simp only [AOp.toOp]; rw [hres]; trivial⟩
      rw [← hfx]
      cases hbk' : d.bk <;> simp [VecSt.buildCap, VecSt.resizable, hbk'] at hb ⊢
  | withCap ty bk cl n =>
    rcases with_capacity_refines cfg w ms h ty bk cl n hok with ⟨hrel, hres⟩ | ⟨m, hrel, hres, hneeds⟩
    · exact ⟨_, AStep.withCap ms ty bk cl n, hrel, by simp only [AOp.toOp]; rw [hres]; trivial⟩
    · exact ⟨_, AStep.withCapRefused ms ty bk cl n hneeds, hrel, by simp only [AOp.toOp]; rw [hres]; trivial⟩
  | eswap v i u j =>
    obtain ⟨hvu, ⟨a, hv⟩, au, hu⟩ := hok
    obtain ⟨ms', hs, hrel, hnub⟩ := eswap_refines cfg w ms h v u i j hvu a au hv hu
    exact ⟨ms', AStep.eswap ms ms' v i u j a au hv hu hs, hrel, hnub⟩
  | setLen v k typed =>
    obtain ⟨a, hv, hroom⟩ := hok
    obtain ⟨hrel, hres, _⟩ := set_len_refines cfg w ms h v k typed a hv hroom
    exact ⟨_, AStep.setLen ms v k typed a hv hroom, hrel, by simp only [AOp.toOp]; rw [hres]; trivial⟩
  | insertLazy v i dp u j =>
    obtain ⟨hvu, ⟨a, hv⟩, au, hu⟩ := hok
    obtain ⟨ms', hs, hrel, hnub⟩ := lazy_insert_refines cfg w ms h v u i j dp hvu a au hv hu
    exact ⟨ms', AStep.insertLazy ms ms' v i dp u j a au hv hu hs, hrel, hnub⟩

/-- run a script -/
def arun (cfg : Cfg) : World → List AOp → World
  | w, [] => w
  | w, op :: rest => arun cfg (step cfg (op.toOp w) w).1 rest

inductive ASteps (cfg : Cfg) : MSpec → List AOp → MSpec → Prop where
  | nil (ms : MSpec) : ASteps cfg ms [] ms
  | cons (ms ms1 ms2 : MSpec) (op : AOp) (rest : List AOp) : AStep cfg ms op ms1 → ASteps cfg ms1 rest ms2 →
      ASteps cfg ms (op :: rest) ms2

/-- a script is well-typed from an abstract state: each step is `AOk` wherever the abstract machine can be by then -/
def Safe (cfg : Cfg) : MSpec → List AOp → Prop
  | _, [] => True
  | ms, op :: rest => AOk ms op ∧ ∀ ms', AStep cfg ms op ms' → Safe cfg ms' rest

/-- **whole life cycles refine the abstract machine**: from any world that shows an abstract state (every fault-free
reachable world does), every well-typed script - creating vectors, operating on them element-wise, by ranges and by
capacity requests, cloning them, handing elements from one to another, dropping them, in any order and number - leads to
a world that shows a state the abstract machine reaches by the same script, and never faults on memory. -/
theorem life_cycles_refine (cfg : Cfg) (ops : List AOp) :
    ∀ (w : World) (ms : MSpec), MRel w ms → Safe cfg ms ops →
      ∃ ms', ASteps cfg ms ops ms' ∧ MRel (arun cfg w ops) ms' := by
  induction ops with
  | nil => intro w ms h _; exact ⟨ms, ASteps.nil ms, h⟩
  | cons op rest ih =>
    intro w ms h hsafe
    obtain ⟨hok, hnext⟩ := hsafe
    obtain ⟨ms1, hs1, hrel1, _⟩ := astep_refines cfg w ms h op hok
    obtain ⟨ms2, hs2, hrel2⟩ := ih _ ms1 hrel1 (hnext ms1 hs1)
    exact ⟨ms2, ASteps.cons ms ms1 ms2 op rest hs1 hs2, hrel2⟩

theorem arun_append (cfg : Cfg) (w : World) (xs ys : List AOp) : arun cfg w (xs ++ ys) = arun cfg (arun cfg w xs) ys := by
  induction xs generalizing w with
  | nil => rfl
  | cons x xs ih => simp [arun, ih]

/-- the same without asking anything of the script in advance: **every script refines the abstract machine up to the first
step that is ill-typed in the abstract state reached** - either the whole script refines, or a prefix does and the next
step names a dropped or missing vector, the same vector twice, an operation its storage does not have, or `clone()` without
`Cloneable` (programs the compiler rejects) -/
theorem life_cycles_refine_or_stuck (cfg : Cfg) (ops : List AOp) :
    ∀ (w : World) (ms : MSpec), MRel w ms →
      (∃ ms', ASteps cfg ms ops ms' ∧ MRel (arun cfg w ops) ms') ∨
      (∃ pre op rest ms1, ops = pre ++ op :: rest ∧ ASteps cfg ms pre ms1 ∧ MRel (arun cfg w pre) ms1 ∧ ¬ AOk ms1 op) := by
  induction ops with
  | nil => intro w ms h; exact Or.inl ⟨ms, ASteps.nil ms, h⟩
  | cons op rest ih =>
    intro w ms h
    by_cases hok : AOk ms op
    · obtain ⟨ms1, hs1, hrel1, _⟩ := astep_refines cfg w ms h op hok
      rcases ih _ ms1 hrel1 with ⟨ms2, hs2, hrel2⟩ | ⟨pre, op', rest', ms2, heq, hs2, hrel2, hbad⟩
      · exact Or.inl ⟨ms2, ASteps.cons ms ms1 ms2 op rest hs1 hs2, hrel2⟩
      · exact Or.inr ⟨op :: pre, op', rest', ms2, by rw [heq]; rfl, ASteps.cons ms ms1 ms2 op pre hs1 hs2, hrel2, hbad⟩
    · exact Or.inr ⟨[], op, rest, ms, rfl, ASteps.nil ms, h, hok⟩

/-! non-vacuity: a script through a whole life cycle on the empty world -/
def sampleScript : List AOp := [.new 0 .heap true, .on 0 .push, .drop 0]

example : (arun { size := 8, align := 8, hasDrop := true } {} sampleScript).dropLog = [0] := by decide

/-- `Safe` is satisfiable: a script that creates a heap vector, pushes and drops it is well-typed from the empty state,
whatever the abstract machine does on the way (growth to any capacity, refusal of the push) -/
example : Safe { size := 8, align := 8, hasDrop := true } ⟨[], 0⟩ [.new 0 .heap true, .on 0 .push, .drop 0] := by
  refine ⟨trivial, ?_⟩
  intro ms1 h1
  cases h1 with
  | new _ _ _ cap hb =>
    refine ⟨⟨_, rfl, trivial⟩, ?_⟩
    intro ms2 h2
    cases h2 with
    | on _ _ _ hs =>
      cases hs with
      | on _ _ a s' hv hop hs' =>
        refine ⟨⟨⟨a.ty, s'.items, s'.cap, s'.fixed, s'.cloneable⟩, by simp⟩, fun _ _ => trivial⟩
  | newRefused _ _ _ m hb => simp [VecSt.buildCap] at hb

/-- non-vacuity of the `clone_empty_in` step: from a growable heap vector an empty `StackN<2, 48>` vector of 8-byte elements
- fixed capacity 2, same element type, `Cloneable` inherited - and the step is well-typed -/
example : AStep { size := 8, align := 8, hasDrop := true } ⟨[some ⟨0, [5], 4, false, true⟩], 6⟩ (.cloneEmptyIn 0 (.stackN 2 48))
      ⟨[some ⟨0, [5], 4, false, true⟩] ++ [some ⟨0, [], 2, !VecSt.resizable (.stackN 2 48), true⟩], 6⟩ ∧
    AOk ⟨[some ⟨0, [5], 4, false, true⟩], 6⟩ (.cloneEmptyIn 0 (.stackN 2 48)) :=
  ⟨AStep.cloneEmptyIn _ 0 (.stackN 2 48) ⟨0, [5], 4, false, true⟩ 2 rfl ⟨8, 8, by decide⟩, ⟨_, rfl⟩⟩

/-- `Safe` is satisfiable with the new steps too: `with_capacity(0)` is never refused (a refusal needs `n ≠ 0`), so the vector
it makes can be relied on by what follows - here an empty clone of it, then both dropped -/
example : Safe { size := 8, align := 8, hasDrop := true } ⟨[], 0⟩ [.withCap 0 .heap true 0, .cloneEmpty 0, .drop 0] := by
  refine ⟨rfl, ?_⟩
  intro ms1 h1
  cases h1 with
  | withCap =>
    refine ⟨⟨_, rfl⟩, ?_⟩
    intro ms2 h2
    cases h2 with
    | cloneEmpty _ a cap hv h => exact ⟨⟨a, by simpa using hv⟩, fun _ _ => trivial⟩
    | cloneEmptyRefused _ a hv h => exact ⟨⟨a, hv⟩, fun _ _ => trivial⟩
  | withCapRefused _ _ _ _ h => exact absurd rfl h.1

end RefineMulti
end AnyVec
