/-
  AnyVecModel.Props.RefineMulti — the refinement of Props/Refine.lean for *all* vectors of a world at once: the abstract
  side is a list of abstract vectors (dead ones included as `none`) with one shared counter of identities; an operation on
  vector `v` changes component `v` as `Refine.Spec.Step` says and nothing else.
-/
import AnyVecModel.Props.Refine
import AnyVecModel.Proofs.ExecClone
namespace AnyVec
namespace RefineMulti
open World Refine

/-- one abstract vector: its element type, items, capacity and whether the storage is fixed -/
structure AVec where
  ty : Nat
  items : List Nat
  cap : Nat
  fixed : Bool
  deriving Repr, DecidableEq

/-- all vectors (a dropped one is `none`) and the counter fresh identities come from -/
structure MSpec where
  vecs : List (Option AVec)
  next : Nat
  deriving Repr, DecidableEq

def AVec.spec (a : AVec) (next : Nat) : Spec := ⟨a.items, next, a.cap, a.fixed⟩

/-- a concrete vector shows an abstract one (a dead one shows `none`) -/
def Shows (d : VecSt) : Option AVec → Prop
  | none => d.live = false
  | some a => d.live = true ∧ d.ty = a.ty ∧ d.abs = a.items.map Cell.val ∧ d.cap = a.cap ∧
      VecSt.resizable d.bk = !a.fixed

/-- the world shows the abstract state -/
structure MRel (w : World) (ms : MSpec) : Prop where
  inv : w.Inv
  nofault : w.fault = none
  next : w.created = ms.next
  len : w.vecs.length = ms.vecs.length
  shows : ∀ (v : Nat) (d : VecSt), w.vecs[v]? = some d → ∃ oa, ms.vecs[v]? = some oa ∧ Shows d oa

/-- an operation of Props/Refine.lean on vector `v` -/
structure MOp where
  v : Nat
  op : VOp
  deriving Repr, DecidableEq

/-- the abstract step: component `v` steps, the counter is shared, every other component stays -/
inductive MSpec.Step : MSpec → MOp → MSpec → Prop where
  | on (ms : MSpec) (v : Nat) (op : VOp) (a : AVec) (s' : Spec) (hv : ms.vecs[v]? = some (some a))
      (hop : op.Allowed a.fixed) (hs : Spec.Step (a.spec ms.next) op s') :
      Step ms ⟨v, op⟩ ⟨ms.vecs.set v (some ⟨a.ty, s'.items, s'.cap, s'.fixed⟩), s'.next⟩

/-- the script step of an operation on a live vector of the world: the element type is the vector's -/
def MOp.toOp (w : World) (m : MOp) : Op :=
  match w.vecs[m.v]? with
  | some d => m.op.toOp m.v d.ty
  | none => m.op.toOp m.v 0

theorem length_of_others {α} (l l' : List α) (v : Nat) (hv : v < l.length) (hv' : v < l'.length)
    (h : ∀ u, u ≠ v → l'[u]? = l[u]?) : l'.length = l.length := by
  rcases Nat.lt_trichotomy l'.length l.length with hlt | heq | hgt
  · have hne : l'.length ≠ v := by omega
    have := h l'.length hne
    rw [List.getElem?_eq_none (Nat.le_refl _), List.getElem?_eq_getElem hlt] at this
    cases this
  · exact heq
  · have hne : l.length ≠ v := by omega
    have := h l.length hne
    rw [List.getElem?_eq_none (Nat.le_refl _), List.getElem?_eq_getElem hgt] at this
    cases this

/-- **one step on one vector of a world full of vectors** -/
theorem mstep_refines (cfg : Cfg) (w : World) (ms : MSpec) (h : MRel w ms) (m : MOp) (a : AVec)
    (hv : ms.vecs[m.v]? = some (some a)) (hop : m.op.Allowed a.fixed) :
    ∃ ms', MSpec.Step ms m ms' ∧ MRel (step cfg (m.toOp w) w).1 ms' ∧ (step cfg (m.toOp w) w).2.notUb := by
  obtain ⟨hinv, hf, hn, hlen, hsh⟩ := h
  have hvlt : m.v < ms.vecs.length := (List.getElem?_eq_some_iff.mp hv).1
  have hwlt : m.v < w.vecs.length := by omega
  obtain ⟨d, hd⟩ : ∃ d, w.vecs[m.v]? = some d := ⟨w.vecs[m.v], List.getElem?_eq_getElem hwlt⟩
  obtain ⟨oa, hoa, hshow⟩ := hsh m.v d hd
  rw [hv] at hoa; cases hoa
  obtain ⟨hl, hty, habs, hcp, hbk⟩ := hshow
  have hrel : Rel (fun u => w.vecs[u]?) m.v a.ty w (a.spec ms.next) :=
    ⟨hinv, hf, ⟨d, hd, hl, hty, habs, hcp, hbk⟩, hn, fun _ _ => rfl⟩
  have htoOp : m.toOp w = m.op.toOp m.v a.ty := by simp [MOp.toOp, hd, hty]
  rw [htoOp]
  obtain ⟨s', hs', hrel', hnub⟩ := step_refines cfg m.v a.ty w (a.spec ms.next) hrel m.op hop
  refine ⟨_, MSpec.Step.on ms m.v m.op a s' hv hop hs', ?_, hnub⟩
  obtain ⟨hinv', hf', ⟨d', hd', hl', hty', habs', hcp', hbk'⟩, hn', hoth⟩ := hrel'
  have hlt' : m.v < (step cfg (m.op.toOp m.v a.ty) w).1.vecs.length := (List.getElem?_eq_some_iff.mp hd').1
  have hlen' := length_of_others w.vecs (step cfg (m.op.toOp m.v a.ty) w).1.vecs m.v hwlt hlt' hoth
  refine ⟨hinv', hf', hn', by simp [hlen', hlen], ?_⟩
  intro u du hu
  by_cases huv : u = m.v
  · subst huv
    rw [hd'] at hu; cases hu
    refine ⟨some ⟨a.ty, s'.items, s'.cap, s'.fixed⟩, by simp [hvlt], ?_⟩
    exact ⟨hl', hty', habs', hcp', hbk'⟩
  · rw [hoth u huv] at hu
    obtain ⟨oa, hoa, hshow⟩ := hsh u du hu
    exact ⟨oa, by rw [List.getElem?_set_ne (Ne.symm huv)]; exact hoa, hshow⟩

/-- a step keeps every vector alive and on its kind of storage -/
theorem MSpec.Step.keeps {ms ms' : MSpec} {m : MOp} (h : MSpec.Step ms m ms') (u : Nat) (a : AVec)
    (hu : ms.vecs[u]? = some (some a)) : ∃ a', ms'.vecs[u]? = some (some a') ∧ a'.fixed = a.fixed := by
  cases h with
  | on v op a0 s' hv hop hs =>
    by_cases huv : u = v
    · subst huv
      rw [hv] at hu; cases hu
      have hlt : u < ms.vecs.length := (List.getElem?_eq_some_iff.mp hv).1
      exact ⟨⟨a.ty, s'.items, s'.cap, s'.fixed⟩, by simp [hlt], hs.fixed_eq⟩
    · exact ⟨a, by simp only; rw [List.getElem?_set_ne (Ne.symm huv)]; exact hu, rfl⟩

/-- run a history of operations on any vectors of the world -/
def mrun (cfg : Cfg) : World → List MOp → World
  | w, [] => w
  | w, m :: ms => mrun cfg (step cfg (m.toOp w) w).1 ms

inductive MSpec.Steps : MSpec → List MOp → MSpec → Prop where
  | nil (ms : MSpec) : Steps ms [] ms
  | cons (ms ms1 ms2 : MSpec) (m : MOp) (rest : List MOp) : MSpec.Step ms m ms1 → Steps ms1 rest ms2 → Steps ms (m :: rest) ms2

/-- **every history on any number of vectors refines the abstract vectors**: from any world that shows the abstract
state, any sequence of operations, each on any live vector (and available on that vector's storage), leads to a world
that shows the abstract state reached by the same sequence - component by component, with one shared counter of
identities; no step faults on memory -/
theorem mhistory_refines (cfg : Cfg) (ops : List MOp) :
    ∀ (w : World) (ms : MSpec), MRel w ms →
      (∀ m ∈ ops, ∃ a, ms.vecs[m.v]? = some (some a) ∧ m.op.Allowed a.fixed) →
      ∃ ms', MSpec.Steps ms ops ms' ∧ MRel (mrun cfg w ops) ms' := by
  induction ops with
  | nil => intro w ms h _; exact ⟨ms, MSpec.Steps.nil ms, h⟩
  | cons m rest ih =>
    intro w ms h hall
    obtain ⟨a, hv, hop⟩ := hall m List.mem_cons_self
    obtain ⟨ms1, hs1, hrel1, _⟩ := mstep_refines cfg w ms h m a hv hop
    obtain ⟨ms2, hs2, hrel2⟩ := ih _ ms1 hrel1 (by
      intro m' hm'
      obtain ⟨a', hv', hop'⟩ := hall m' (List.mem_cons_of_mem _ hm')
      obtain ⟨a'', hv'', hfx⟩ := hs1.keeps m'.v a' hv'
      exact ⟨a'', hv'', by rw [hfx]; exact hop'⟩)
    exact ⟨ms2, MSpec.Steps.cons ms ms1 ms2 m rest hs1 hs2, hrel2⟩

/-- every fault-free reachable world shows an abstract state: read it off -/
theorem mrel_of_reach (cfg : Cfg) (w : World) (hr : Hist.Reach cfg w) (hf : w.fault = none) :
    ∃ ms, MRel w ms := by
  have hinv := Hist.reach_inv_core cfg w hr
  refine ⟨⟨w.vecs.map fun d => if d.live then some ⟨d.ty, d.abs.map Cell.idOr0, d.cap, !VecSt.resizable d.bk⟩ else none,
    w.created⟩, hinv, hf, rfl, by simp, ?_⟩
  intro v d hv
  have hg := hinv.good v d hv
  refine ⟨if d.live then some ⟨d.ty, d.abs.map Cell.idOr0, d.cap, !VecSt.resizable d.bk⟩ else none, by simp [hv], ?_⟩
  by_cases hl : d.live = true
  · rw [if_pos hl]
    refine ⟨hl, rfl, ?_, rfl, by simp⟩
    show d.abs = (d.abs.map Cell.idOr0).map Cell.val
    simp only [List.map_map]
    have : ∀ c ∈ d.abs, (Cell.val ∘ Cell.idOr0) c = c := by
      intro c hc
      obtain ⟨id, rfl⟩ := hg.allVal c hc
      rfl
    rw [List.map_congr_left this]; simp
  · have : d.live = false := by cases hd : d.live <;> simp_all
    simp [this, Shows]

/-! ### `clone` -/

/-- what `clone()` of abstract vector `a` (component `v`) can lead to: a new last component holding as many fresh
identities - the clones, in order - at a capacity that holds them, on the same kind of storage; or the storage for it
cannot be built (nothing happens); or the room cannot be reserved (the new, empty vector is dropped again) -/
inductive CloneStep (ms : MSpec) (a : AVec) : MSpec → Prop where
  | cloned (c : Nat) (hc : a.items.length ≤ c) :
      CloneStep ms a ⟨ms.vecs ++ [some ⟨a.ty, List.range' ms.next a.items.length, c, a.fixed⟩], ms.next + a.items.length⟩
  | noStorage : CloneStep ms a ms
  | noRoom : CloneStep ms a ⟨ms.vecs ++ [none], ms.next⟩

/-- appending a vector: the old ones keep showing what they showed -/
theorem shows_append (w w' : World) (ms : MSpec) (x : VecSt) (oa : Option AVec)
    (hlen : w.vecs.length = ms.vecs.length)
    (hsh : ∀ (v : Nat) (d : VecSt), w.vecs[v]? = some d → ∃ oa, ms.vecs[v]? = some oa ∧ Shows d oa)
    (hvecs : w'.vecs = w.vecs ++ [x]) (hx : Shows x oa) :
    ∀ (v : Nat) (d : VecSt), w'.vecs[v]? = some d → ∃ ob, (ms.vecs ++ [oa])[v]? = some ob ∧ Shows d ob := by
  intro v d hv
  rw [hvecs] at hv
  by_cases hlt : v < w.vecs.length
  · rw [List.getElem?_append_left hlt] at hv
    obtain ⟨ob, hob, hs⟩ := hsh v d hv
    exact ⟨ob, by rw [List.getElem?_append_left (by omega)]; exact hob, hs⟩
  · by_cases heq : v = w.vecs.length
    · subst heq
      simp at hv
      subst hv
      exact ⟨oa, by rw [hlen]; simp, hx⟩
    · have : w.vecs.length + 1 ≤ v := by omega
      rw [List.getElem?_eq_none (by simp; omega)] at hv
      cases hv

/-- **`clone()` refines**: from any world that shows the abstract state, cloning a live cloneable vector leads to a world
that shows one of the three `CloneStep` outcomes; the source vector and every other vector are untouched -/
theorem clone_refines (cfg : Cfg) (w : World) (ms : MSpec) (h : MRel w ms) (v : Nat) (a : AVec)
    (hv : ms.vecs[v]? = some (some a)) (d : VecSt) (hd : w.vecs[v]? = some d) (hcl : d.cloneable = true) :
    ∃ ms', CloneStep ms a ms' ∧ MRel (step cfg (.clone v) w).1 ms' ∧ (step cfg (.clone v) w).2.notUb := by
  obtain ⟨hinv, hf, hn, hlen, hsh⟩ := h
  obtain ⟨oa, hoa, hshow⟩ := hsh v d hd
  rw [hv] at hoa; cases hoa
  obtain ⟨hl, hty, habs, hcp, hbk⟩ := hshow
  have hcore : Hist.Core (.clone v) := trivial
  have hvalid : Hist.Valid w.vecs (.clone v) := ⟨d, hd, hl, hcl⟩
  obtain ⟨hinv', hnub⟩ := Hist.step_inv cfg _ w hinv hcore hvalid
  have hg := hinv.good v d hd
  have hlenA := Refine.abs_len hg.wf habs
  have hvlt : v < w.vecs.length := (List.getElem?_eq_some_iff.mp hd).1
  have hncl : (!d.cloneable) = false := by simp [hcl]
  cases hb : VecSt.buildCap d.bk d.size d.align with
  | panic m =>
    have hex : step cfg (.clone v) w = ({ w with fault := none }, .panic m) := by
      simp only [step, cloneVec, WM.bind_apply, getVec_ok w v d hd hl, hncl, Bool.false_eq_true, if_false, cloneEmptyIn, hb,
        WM.lift]
    refine ⟨ms, CloneStep.noStorage, ?_, hnub⟩
    rw [hex] at hinv' ⊢
    exact ⟨hinv', rfl, hn, hlen, hsh⟩
  | ub m =>
    exfalso
    cases hbk' : d.bk <;> simp [VecSt.buildCap, hbk'] at hb <;> (repeat (first | split at hb | cases hb))
  | ok cap0 =>
    let nv0 : VecSt := { d with bk := d.bk, cap := cap0, cells := [], len := 0, gen := 0, live := true }
    have hce : ∃ w1, cloneEmptyIn v d.bk w = (w1, .ok w.vecs.length) ∧ w1.vecs = w.vecs ++ [nv0] ∧
        w1.created = w.created ∧ w1.fault = none := by
      by_cases hr : d.bk = .reloc
      · refine ⟨{ w with vecs := w.vecs ++ [nv0], ev := [Event.memBuild cap0].reverse ++ w.ev }, ?_, rfl, rfl, hf⟩
        simp only [cloneEmptyIn, WM.bind_apply, getVec_ok w v d hd hl, hb, WM.lift_ok, WM.get_apply, WM.modify_apply]
        rw [if_pos hr]
        simp only [emit, WM.modify_apply, WM.bind_apply, WM.pure_apply]
        rfl
      · refine ⟨{ w with vecs := w.vecs ++ [nv0] }, ?_, rfl, rfl, hf⟩
        simp only [cloneEmptyIn, WM.bind_apply, getVec_ok w v d hd hl, hb, WM.lift_ok, WM.get_apply, WM.modify_apply]
        rw [if_neg hr]
        simp only [WM.bind_apply, WM.pure_apply]
        rfl
    obtain ⟨w1, hce1, hw1v, hw1c, hw1f⟩ := hce
    have hidx : w1.vecs[w.vecs.length]? = some nv0 := by rw [hw1v]; simp
    have hsrc1 : w1.vecs[v]? = some d := by rw [hw1v, List.getElem?_append_left hvlt]; exact hd
    have hstep1 : step cfg (.clone v) w =
        (do WM.onUnwind
              (do vecOp w.vecs.length (fun s => s.reserve d.len)
                  cloneLoop v w.vecs.length 0 d.len
                  setLen w.vecs.length d.len)
              (do setLen w.vecs.length 0
                  dropVec w.vecs.length)
            pure [] : WM Out) w1 := by
      simp only [step, cloneVec, WM.bind_apply, getVec_ok w v d hd hl, hncl, Bool.false_eq_true, if_false, hce1]
    have hwf0 : nv0.WF := ⟨Nat.le_refl _, Nat.zero_le _⟩
    have hne : v ≠ w.vecs.length := by omega
    have hlt1 : w.vecs.length < w1.vecs.length := by rw [hw1v]; simp
    cases hres : nv0.reserve d.len with
    | ok p =>
      obtain ⟨d1, es⟩ := p
      obtain ⟨hc1, hl1, hcells1, hwf1, hty1, _, hlv1, _⟩ := reserve_full nv0 d1 d.len es hwf0 hres
      obtain ⟨_, hbk1, _⟩ := Refine.reserve_ok_cases nv0 d1 d.len es hwf0 hres
      have hlive1 : d1.live = true := by rw [hlv1]
      let w2 : World := { (w1.upd w.vecs.length d1) with ev := es.reverse ++ w1.ev }
      have hvo : vecOp w.vecs.length (fun s => s.reserve d.len) w1 = (w2, .ok ()) := by
        simp only [vecOp, WM.bind_apply, getVec_ok w1 _ nv0 hidx rfl, hres, WM.lift_ok, setVec_apply, emit, WM.modify_apply]
        rfl
      have hs2 : w2.vecs[v]? = some d := by
        show (w1.vecs.set w.vecs.length d1)[v]? = _
        rw [List.getElem?_set_ne (Ne.symm hne)]; exact hsrc1
      have hn2 : w2.vecs[w.vecs.length]? = some d1 := by
        show (w1.vecs.set w.vecs.length d1)[w.vecs.length]? = _
        simp [hlt1]
      obtain ⟨n', hcl', hlen', hcap', hlive', hty', hbk', _, _, hcells'⟩ :=
        AnyVec.cloneLoop_nofault w2 v w.vecs.length d d1 0 d.len hne hs2 hl (by have := hg.wf.len_le_cap; omega)
          (by intro j hj; have := hg.init j hj; simpa using this) hn2 hlive1 (by have : nv0.len = 0 := rfl; omega)
          (by show w1.fault = none; exact hw1f)
      let w3 : World := { w2 with vecs := w2.vecs.set w.vecs.length n', created := w2.created + d.len,
                                  ev := (AnyVec.cloneEvents d 0 d.len w2.created).reverse ++ w2.ev }
      let nfin : VecSt := { n' with len := d.len }
      have hlt2 : w.vecs.length < w2.vecs.length := by
        show w.vecs.length < (w1.vecs.set w.vecs.length d1).length
        rw [List.length_set]; exact hlt1
      have hn3 : w3.vecs[w.vecs.length]? = some n' := by
        show (w2.vecs.set w.vecs.length n')[w.vecs.length]? = _
        simp [hlt2]
      have hfin : step cfg (.clone v) w = (w3.upd w.vecs.length nfin, .ok []) := by
        rw [hstep1]
        have hcl3 : cloneLoop v w.vecs.length 0 d.len w2 = (w3, .ok ()) := hcl'
        simp only [WM.bind_apply, WM.onUnwind, hvo, hcl3, setLen, getVec_ok w3 _ n' hn3 hlive', setVec_apply, WM.pure_apply]
        rfl
      have hvecs : (w3.upd w.vecs.length nfin).vecs = w.vecs ++ [nfin] := by
        show ((((w1.vecs.set w.vecs.length d1).set w.vecs.length n').set w.vecs.length nfin)) = _
        rw [hw1v]
        simp [List.set_append]
      have hcr : (w3.upd w.vecs.length nfin).created = w.created + d.len := by
        show w1.created + d.len = _
        rw [hw1c]
      have hflt : (w3.upd w.vecs.length nfin).fault = none := by
        show w1.fault = none
        exact hw1f
      refine ⟨_, CloneStep.cloned d1.cap (by have : nv0.len = 0 := rfl; omega), ?_, hnub⟩
      rw [hfin] at hinv' ⊢
      refine ⟨hinv', hflt, by rw [hcr, hn, hlenA], by rw [hvecs]; simp [hlen], ?_⟩
      refine shows_append w _ ms nfin _ hlen hsh hvecs ?_
      refine ⟨hlive', by show n'.ty = a.ty; rw [hty', hty1]; exact hty, ?_, by show n'.cap = d1.cap; exact hcap',
        by show VecSt.resizable n'.bk = _; rw [hbk', hbk1]; exact hbk⟩
      show n'.cells.take d.len = _
      have hcr2 : w2.created = ms.next := by show w1.created = _; rw [hw1c, hn]
      have hmlen : d.len ≤ n'.cells.length := by
        by_cases h0 : d.len = 0
        · omega
        · have hlast := hcells' (d.len - 1) (by omega)
          by_cases hlt : 0 + (d.len - 1) < n'.cells.length
          · omega
          · rw [Mem.get_eq, List.getElem?_eq_none (by omega)] at hlast
            cases hlast
      apply take_ext _ _ _ (by simp [hlenA]) hmlen
      intro k hk
      have := hcells' k hk
      rw [Nat.zero_add] at this
      rw [this, hcr2, hlenA]
      simp [hk]
    | panic m =>
      let dead : VecSt := { nv0 with live := false, cells := [], cap := 0 }
      have hfin : ∃ W', step cfg (.clone v) w = (W', .panic m) ∧ W'.vecs = w.vecs ++ [dead] ∧ W'.created = w.created ∧
          W'.fault = none := by
        rw [hstep1]
        let w1' : World := { w1 with fault := none }
        have hvo : vecOp w.vecs.length (fun s => s.reserve d.len) w1 = (w1', .panic m) :=
          vecOp_panic w1 _ nv0 _ m hidx rfl hres
        have hidx' : w1'.vecs[w.vecs.length]? = some nv0 := hidx
        have hupd : w1'.upd w.vecs.length { nv0 with len := 0 } = w1' := World.upd_self w1' _ nv0 hidx'
        have hdr : dropRange w.vecs.length false 0 nv0.len w1' = (w1', .ok ()) := by
          have := dropRange_nofault w1' w.vecs.length nv0 false 0 0 hidx' rfl rfl (Nat.zero_le _)
            (by intro j hj; omega)
          simpa [VecSt.idsRange] using this
        have hvset : (w1'.vecs.set w.vecs.length dead) = w.vecs ++ [dead] := by
          show w1.vecs.set w.vecs.length dead = _
          rw [hw1v]; simp
        cases hbk' : d.bk with
        | heap =>
          have hc0 : cap0 = 0 := by simp [VecSt.buildCap, hbk'] at hb; omega
          refine ⟨w1'.upd w.vecs.length dead, ?_, hvset, hw1c, rfl⟩
          simp only [WM.bind_apply, WM.onUnwind, hvo, setLen, getVec_ok w1' _ nv0 hidx' rfl, setVec_apply, hupd, dropVec, hdr]
          simp [nv0, hbk', hc0, dead, WM.pure_apply]
        | reloc =>
          refine ⟨{ (w1'.upd w.vecs.length dead) with ev := [Event.memDrop].reverse ++ w1'.ev }, ?_, hvset, hw1c, rfl⟩
          simp only [WM.bind_apply, WM.onUnwind, hvo, setLen, getVec_ok w1' _ nv0 hidx' rfl, setVec_apply, hupd, dropVec, hdr]
          simp [nv0, hbk', dead, WM.pure_apply, emit]
          rfl
        | stack b =>
          refine ⟨w1'.upd w.vecs.length dead, ?_, hvset, hw1c, rfl⟩
          simp only [WM.bind_apply, WM.onUnwind, hvo, setLen, getVec_ok w1' _ nv0 hidx' rfl, setVec_apply, hupd, dropVec, hdr]
          simp [nv0, hbk', dead, WM.pure_apply]
        | stackN n b =>
          refine ⟨w1'.upd w.vecs.length dead, ?_, hvset, hw1c, rfl⟩
          simp only [WM.bind_apply, WM.onUnwind, hvo, setLen, getVec_ok w1' _ nv0 hidx' rfl, setVec_apply, hupd, dropVec, hdr]
          simp [nv0, hbk', dead, WM.pure_apply]
        | empty =>
          refine ⟨w1'.upd w.vecs.length dead, ?_, hvset, hw1c, rfl⟩
          simp only [WM.bind_apply, WM.onUnwind, hvo, setLen, getVec_ok w1' _ nv0 hidx' rfl, setVec_apply, hupd, dropVec, hdr]
          simp [nv0, hbk', dead, WM.pure_apply]
      obtain ⟨W', hex, hvecs, hcr, hflt⟩ := hfin
      refine ⟨_, CloneStep.noRoom, ?_, hnub⟩
      rw [hex] at hinv' ⊢
      refine ⟨hinv', hflt, by rw [hcr, hn], by rw [hvecs]; simp [hlen], ?_⟩
      exact shows_append w W' ms dead none hlen hsh hvecs rfl
    | ub m =>
      have := reserve_notUb nv0 d.len
      rw [hres] at this; exact this.elim

end RefineMulti
end AnyVec
