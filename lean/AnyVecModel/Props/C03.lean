/-
  C03 — every element has exactly one owner and is destroyed exactly once.
  `w.owned` = (visible in the vectors, vector by vector) ++ held by the caller ++ destroyed.
  Each operation permutes that list (moving an element from "visible" to "destroyed"/"held") or
  extends it by the fresh element it was given: so `Nodup w.owned` — exactly one owner, at most one
  destruction, never destroyed while visible — is an invariant of histories.
-/
import AnyVecModel.Proofs.Own
import AnyVecModel.Proofs.KernelDropRange
import AnyVecModel.Proofs.KernelTempDrop
import AnyVecModel.Proofs.KernelClear
import AnyVecModel.Proofs.KernelClone
import AnyVecModel.Props.Hist
import AnyVecModel.Props.RefineMulti
import AnyVecModel.Proofs.KernelElemDrop
namespace AnyVec
namespace C03
open World

theorem abs_getElem (d : VecSt) (i id : Nat) (hwf : d.WF) (hi : i < d.len) (hc : d.cells.get i = .val id) :
    ∃ h : i < d.abs.length, d.abs[i] = .val id := by
  have h1 := hwf.len_le
  refine ⟨by simp [VecSt.abs]; omega, ?_⟩
  have hk : i < d.cells.length := by omega
  simp [Mem.get, List.getD_eq_getElem?_getD, hk] at hc
  simp [VecSt.abs, hc]

/-- `remove(i)` + drop of the handle moves exactly one element from "visible" to "destroyed". -/
theorem remove_conserves (cfg : Cfg) (w : World) (v i id : Nat) (d : VecSt)
    (hv : w.vecs[v]? = some d) (hl : d.live = true) (hwf : d.WF) (hi : i < d.len)
    (hc : d.cells.get i = .val id) (hf : w.fault = none) :
    (step cfg (.remove v i .drop) w).1.owned.Perm w.owned := by
  rw [remove_drop_exec cfg w v i id d hv hl hwf hi hc hf]
  obtain ⟨hlt, hget⟩ := abs_getElem d i id hwf hi hc
  have hperm : ((d.removeAt i).abs ++ [Cell.val id]).Perm d.abs := by
    rw [VecSt.removeAt_abs _ _ hwf hi, ← hget]
    exact eraseIdx_perm d.abs i hlt
  have h1 := allVis_set_perm w v d (d.removeAt i) [Cell.val id] hv hperm
    (logDrop d.hasDrop id w).ev (id :: w.dropLog) w.held
  simp only [World.owned]
  -- allVis' ++ (held ++ id :: log)  ~  (allVis' ++ [id]) ++ (held ++ log)
  have e : ∀ (A H L : List Cell) (x : Cell), (A ++ (H ++ x :: L)).Perm ((A ++ [x]) ++ (H ++ L)) := by
    intro A H L x
    rw [List.append_assoc]
    apply List.Perm.append_left
    simpa using (List.perm_middle (l₁ := H) (l₂ := L) (a := x))
  refine (e _ _ _ _).trans (List.Perm.append_right _ ?_)
  exact h1

/-- hence: no element gets a second owner, none is destroyed twice or while still visible. -/
theorem remove_keeps_single_owner (cfg : Cfg) (w : World) (v i id : Nat) (d : VecSt)
    (hv : w.vecs[v]? = some d) (hl : d.live = true) (hwf : d.WF) (hi : i < d.len)
    (hc : d.cells.get i = .val id) (hf : w.fault = none) (hn : w.owned.Nodup) :
    (step cfg (.remove v i .drop) w).1.owned.Nodup :=
  (remove_conserves cfg w v i id d hv hl hwf hi hc hf).nodup_iff.mpr hn

/-- `push` of a plain value adds exactly that value to the owned elements … -/
theorem push_adds (w : World) (dst id : Nat) (x : Val) (hx : x.Plain id) (d d1 : VecSt) (es : List Event)
    (hv : w.vecs[dst]? = some d) (hl : d.live = true) (hwf : d.WF) (hr : d.reserveOne = .ok (d1, es)) :
    (pushUnchecked dst x w).1.owned.Perm (Cell.val id :: w.owned) := by
  rw [pushUnchecked_plain w dst id x hx d d1 es hv hl hwf hr]
  obtain ⟨_, _, habs, hwf1, _⟩ := reserveOne_spec d d1 es hwf hr
  -- view the push as: new contents = old contents ++ [id]; i.e. old = new "minus" [id]
  have hperm : (d.abs ++ []).Perm d.abs := by simp
  simp only [World.owned, World.allVis, List.map_set, VecSt.pushCell_abs _ _ hwf1, habs]
  have hlt : dst < w.vecs.length := (List.getElem?_eq_some_iff.mp hv).1
  have hd : w.vecs[dst] = d := (List.getElem?_eq_some_iff.mp hv).2
  have e1 : (w.vecs.map VecSt.abs).set dst (d.abs ++ [Cell.val id])
      = (w.vecs.map VecSt.abs).take dst ++ (d.abs ++ [Cell.val id]) :: (w.vecs.map VecSt.abs).drop (dst + 1) :=
    List.set_eq_take_append_cons_drop.trans (by simp [hlt])
  have e2 : w.vecs.map VecSt.abs
      = (w.vecs.map VecSt.abs).take dst ++ d.abs :: (w.vecs.map VecSt.abs).drop (dst + 1) := by
    conv => lhs; rw [← List.take_append_drop dst (w.vecs.map VecSt.abs)]
    rw [List.drop_eq_getElem_cons (by simpa using hlt)]
    simp [hd]
  rw [e1]
  conv => rhs; rw [e2]
  simp only [List.flatten_append, List.flatten_cons, List.append_assoc]
  have key : ∀ (A B C : List Cell) (x : Cell), (A ++ (B ++ ([x] ++ C))).Perm (x :: (A ++ (B ++ C))) := by
    intro A B C x
    have : A ++ (B ++ ([x] ++ C)) = (A ++ B) ++ x :: C := by simp
    rw [this]
    exact List.perm_middle.trans (by simp)
  exact key _ _ _ _

/-- … so a fresh value (not owned before) keeps every element singly owned. -/
theorem push_keeps_single_owner (w : World) (dst id : Nat) (x : Val) (hx : x.Plain id) (d d1 : VecSt)
    (es : List Event) (hv : w.vecs[dst]? = some d) (hl : d.live = true) (hwf : d.WF)
    (hr : d.reserveOne = .ok (d1, es)) (hn : w.owned.Nodup) (hfresh : Cell.val id ∉ w.owned) :
    (pushUnchecked dst x w).1.owned.Nodup :=
  (push_adds w dst id x hx d d1 es hv hl hwf hr).nodup_iff.mpr (List.nodup_cons.mpr ⟨hfresh, hn⟩)

/-- `clear()`: every element of the vector moves to "destroyed", once each. -/
theorem clear_conserves (cfg : Cfg) (w : World) (v : Nat) (d : VecSt)
    (hv : w.vecs[v]? = some d) (hl : d.live = true) (hwf : d.WF) (hinit : d.Init) (hf : w.fault = none) :
    (step cfg (.clear v) w).1.owned.Perm w.owned := by
  rw [clear_exec cfg w v d hv hl hwf hinit hf]
  have habs0 : ({ d with len := 0 } : VecSt).abs = [] := by simp [VecSt.abs]
  have hperm : (({ d with len := 0 } : VecSt).abs ++ d.ids.map Cell.val).Perm d.abs := by
    rw [habs0, VecSt.abs_eq_ids d hwf hinit]; simp
  have h1 := flatten_set_perm (w.vecs.map VecSt.abs) v d.abs ({ d with len := 0 } : VecSt).abs (d.ids.map Cell.val)
    (by simp [hv]) hperm
  simp only [World.owned, World.allVis, World.upd_vecs, World.logDrops_vecs, List.map_set, World.upd_held,
    World.logDrops_held, World.upd_dropLog, World.logDrops_dropLog, List.map_append, List.map_reverse]
  -- A' ++ (H ++ (ids.reverse ++ L)) ~ (A' ++ ids) ++ (H ++ L)
  have e : ∀ (A H L I : List Cell), (A ++ (H ++ (I.reverse ++ L))).Perm ((A ++ I) ++ (H ++ L)) := by
    intro A H L I
    rw [List.append_assoc]
    apply List.Perm.append_left
    have : (H ++ (I.reverse ++ L)).Perm (I.reverse ++ (H ++ L)) := by
      rw [← List.append_assoc, ← List.append_assoc]
      exact List.Perm.append_right _ List.perm_append_comm
    exact this.trans (List.Perm.append_right _ (List.reverse_perm I))
  exact (e _ _ _ _).trans (List.Perm.append_right _ h1)

/-! non-vacuity -/
def sampleVec : VecSt :=
  { ty := 0, size := 8, align := 8, hasDrop := true, cloneable := true, bk := .heap, cap := 4,
    cells := [.val 10, .val 11, .val 12], len := 3, gen := 0, live := true }
def sampleWorld : World := { vecs := [sampleVec, { sampleVec with cells := [.val 3], len := 1 }], created := 13,
                             held := [5], dropLog := [7, 1] }
example : sampleWorld.owned.Nodup := by decide
example : (step { size := 8, align := 8, hasDrop := true } (.remove 0 1 .drop) sampleWorld).1.owned
    = [.val 10, .val 12, .val 3, .val 5, .val 11, .val 7, .val 1] := by decide

/-! ### over whole histories (core operation set, arbitrary fault injection in every step) -/

/-- **history theorem**: in every world reachable by core script steps — each run with an arbitrary
injected panic — the visible elements of all vectors, the values the caller holds and the destroyed
values are pairwise distinct identities: exactly one owner, at most one destruction, never destroyed
while still reachable. (`drain`/`splice`/`clone`/cross-vector moves: single-step theorems only.) -/
theorem history_single_owner_core (cfg : Cfg) (w : World) (hr : Hist.Reach cfg w) :
    w.owned.Nodup ∧ ∀ id, Cell.val id ∈ w.owned → id < w.created :=
  Hist.reach_single_owner_core cfg w hr

/-- … and every vector of a reachable world is well formed and shows only live elements -/
theorem history_vectors_good_core (cfg : Cfg) (w : World) (hr : Hist.Reach cfg w) (v : Nat) (d : VecSt)
    (hv : w.vecs[v]? = some d) : d.WF ∧ d.Init :=
  ⟨((Hist.reach_inv_core cfg w hr).good v d hv).wf, ((Hist.reach_inv_core cfg w hr).good v d hv).init⟩

/-! ### tie to the source text: who runs which destructor -/

/-- **source tie**: the destructor calls of the model are those of `/repo/src/any_vec_ptr.rs drop_elements_range`,
`/repo/src/ops/temp.rs impl Drop for TempValue` and `/repo/src/any_vec_raw.rs clear` as re-translated on this run:
a range is destroyed by one erased `drop_fn(ptr(start), end - start)` or one typed slice drop - each element of
`[start, end)` once, none outside; a dropped removal handle destroys exactly its own slot and only then lets the
operation compact the vector; `clear` hides all elements (`len := 0`) before it destroys `[0, len)`. -/
theorem destructor_calls_are_the_source (cfg : Cfg) (w : World) (v : Nat) (typed : Bool) (s e : Nat) (d : VecSt)
    (hv : w.vecs[v]? = some d) (hl : d.live = true) (h : Handle) (hh : h.v = v) :
    dropRange v typed s e w =
      (match Gen.Kernel.drop_elements_range_cmds s e typed d.hasDrop d.hasDrop with
       | [] => dropLoop v false s (e - s)
       | cmds => KernelTie.runCmds { v := v, typed := typed } cmds) w ∧
    hDrop h w =
      (do let slot ← hSlot h
          if h.typed || d.hasDrop then
            KernelTie.runCmds (KernelTie.hCtx h) (Gen.Kernel.temp_drop_cmds slot h.typed d.hasDrop)
          else do
            let id ← readElem h.v slot
            dropElem false id
            KernelTie.runCmds (KernelTie.hCtx h) (Gen.Kernel.temp_drop_cmds slot h.typed d.hasDrop)) w ∧
    step cfg (.clear v) w =
      (do KernelTie.runCmds { v := v } (Gen.Kernel.clear_cmds d.len d.hasDrop)
          if d.hasDrop then pure () else dropLoop v false 0 d.len
          pure [] : WM Out) w :=
  ⟨KernelTie.dropRange_tie w v typed s e d hv hl, KernelTie.temp_drop_tie w h d (by rw [hh]; exact hv) hl,
   KernelTie.clear_tie cfg w v d hv hl⟩

/-- **source tie**: while a removal handle lives, its element is out of its vector's reach: the constructors
`Pop::new` / `Remove::new` / `SwapRemove::new` of `/repo/src/ops/*.rs` (re-translated on this run) lower `len` to the
removed slot's index (or below it), so the destructor the handle runs never acts on an element the vector shows. -/
theorem removed_element_is_out_of_reach_is_the_source (len index : Nat) (hi : index < len) :
    (∃ l, Gen.Kernel.pop_new len = .ok (.made l []) ∧ l ≤ len - 1) ∧
    (∃ l last, Gen.Kernel.remove_new len index = .ok (.made l [index, last]) ∧ l ≤ index) ∧
    (∃ l last, Gen.Kernel.swap_remove_new len index = .ok (.made l [index, last]) ∧ l ≤ index) :=
  ⟨⟨len - 1, rfl, Nat.le_refl _⟩, ⟨index, len - 1, rfl, Nat.le_refl _⟩, ⟨index, len - 1, rfl, Nat.le_refl _⟩⟩

/-- **source tie**: the erased destructor a vector stores (`drop_fn`, the closure in `AnyVecRaw::new` of
`/repo/src/any_vec_raw.rs`, re-translated on this run) runs `drop_in_place::<T>` once per element, in increasing
order, advancing by exactly one element - and calling it is what `dropFn` in the command lists above means. -/
theorem erased_destructor_is_the_source (n : Nat) (c : KernelTie.MCtx) (s : Nat) :
    Gen.Kernel.drop_fn_cmds n = [.dropEach 0 n] ∧
    KernelTie.runCmd c (.dropFn s n) = KernelTie.runCmd c (.dropEach s n) :=
  ⟨KernelTie.drop_fn_tie n, KernelTie.dropFn_is_dropEach c s n⟩

/-- **source tie**: an owned drained element that goes out of scope (`impl Drop for ElementPointer`, source of this run)
runs the erased destructor on exactly its own slot, once - the model's `valDrop` of a drained element. -/
theorem drained_element_drop_is_the_source (w : World) (v slot : Nat) (d : VecSt) (hv : w.vecs[v]? = some d)
    (hl : d.live = true) :
    Gen.Kernel.element_drop_cmds slot d.hasDrop = (if d.hasDrop then [.dropFn slot 1] else []) ∧
    valDrop d.hasDrop (.elem v slot) w =
      (if d.hasDrop then KernelTie.runCmds { v := v } (Gen.Kernel.element_drop_cmds slot d.hasDrop)
       else do let id ← readElem v slot; dropElem false id) w :=
  KernelTie.element_drop_tie w v slot d hv hl

/-! ### ownership against the abstract state of all vectors (Props/RefineMulti.lean) -/

/-- **an element handed from one vector to another has one owner throughout**: in any world that shows an abstract state
of all its vectors, `u.push(v.remove(i))` leads to a world in which the very identity that left `v` is the last item of
`u` - not a copy, nothing destroyed (`MoveStep.moved`) - or, when `u` refuses it (other element type, no room), the
dropped handle completes the removal and that identity is destroyed, once, and is nowhere any more
(`MoveStep.destroyed`); out of range nothing happens. Every other vector is unchanged. -/
theorem element_moves_keep_one_owner (cfg : Cfg) (w : World) (ms : RefineMulti.MSpec) (h : RefineMulti.MRel w ms)
    (v u i : Nat) (hvu : v ≠ u) (a au : RefineMulti.AVec)
    (hv : ms.vecs[v]? = some (some a)) (hu : ms.vecs[u]? = some (some au)) :
    ∃ ms', RefineMulti.MoveStep ms v u i a au ms' ∧
      RefineMulti.MRel (World.step cfg (.remove v i (.pushTo u)) w).1 ms' ∧
      (World.step cfg (.remove v i (.pushTo u)) w).2.notUb :=
  RefineMulti.move_refines cfg w ms h v u i hvu a au hv hu

/-- **two elements swapped between two vectors still have one owner each, and no destructor runs**: in any world that
shows an abstract state of all its vectors, `swap(v.at_mut(i), u.at_mut(j))` leads to a world that shows the two
identities exchanged (or, on a panic, the same state) - and in that state no identity occurs twice among all the
vectors, none of them has been destroyed, and the log of destructor runs is as it was: a swap never duplicates, leaks or
destroys an element. -/
theorem element_swaps_keep_one_owner (cfg : Cfg) (w : World) (ms : RefineMulti.MSpec) (h : RefineMulti.MRel w ms)
    (v u i j : Nat) (hvu : v ≠ u) (a au : RefineMulti.AVec)
    (hv : ms.vecs[v]? = some (some a)) (hu : ms.vecs[u]? = some (some au)) :
    ∃ ms', RefineMulti.SwapStep ms v u i j a au ms' ∧
      RefineMulti.MRel (World.step cfg (.eswap v i u j) w).1 ms' ∧
      ms'.allItems.Nodup ∧ (∀ id ∈ ms'.allItems, id ∉ (World.step cfg (.eswap v i u j) w).1.dropLog) ∧
      ms'.next = ms.next := by
  obtain ⟨ms', hs, hrel, _⟩ := RefineMulti.eswap_refines cfg w ms h v u i j hvu a au hv hu
  obtain ⟨hnd, _, hdl, _⟩ := RefineMulti.mrel_unique _ ms' hrel
  refine ⟨ms', hs, hrel, hnd, hdl, ?_⟩
  cases hs <;> rfl

/-- **dropping a vector destroys each of its items exactly once, and nothing else**: in any world that shows an abstract
state of all its vectors, dropping a live vector that shows the items `a.items` appends exactly these identities, in order,
to the log of destructor runs, turns its component into `none`, and leaves every other vector as it was. -/
theorem vector_drop_destroys_each_item_once (cfg : Cfg) (w : World) (ms : RefineMulti.MSpec) (h : RefineMulti.MRel w ms)
    (v : Nat) (a : RefineMulti.AVec) (hv : ms.vecs[v]? = some (some a)) :
    RefineMulti.MRel (World.step cfg (.dropVec v) w).1 ⟨ms.vecs.set v none, ms.next⟩ ∧
      (World.step cfg (.dropVec v) w).2.notUb ∧
      (World.step cfg (.dropVec v) w).1.dropLog = a.items.reverse ++ w.dropLog :=
  RefineMulti.drop_refines cfg w ms h v a hv

/-- **one owner per identity through whole life cycles**: from any world that shows an abstract state of all its vectors
(any fault-free reachable world does), after any well-typed script - vectors created, operated on element-wise / by ranges /
by capacity requests, cloned, elements handed from one to another, vectors dropped, in any order - the world shows a state
of the abstract machine in which no identity occurs twice among all the vectors, every one is older than the counter of
identities, none of them has been destroyed, and none of them is at the same time in the caller's hands. -/
theorem one_owner_through_life_cycles (cfg : Cfg) (ops : List RefineMulti.AOp) (w : World) (ms : RefineMulti.MSpec)
    (h : RefineMulti.MRel w ms) (hsafe : RefineMulti.Safe cfg ms ops) :
    ∃ ms', RefineMulti.ASteps cfg ms ops ms' ∧ RefineMulti.MRel (RefineMulti.arun cfg w ops) ms' ∧
      ms'.allItems.Nodup ∧ (∀ id ∈ ms'.allItems, id < ms'.next) ∧
      (∀ id ∈ ms'.allItems, id ∉ (RefineMulti.arun cfg w ops).dropLog) ∧
      ∀ id ∈ ms'.allItems, id ∉ (RefineMulti.arun cfg w ops).held := by
  obtain ⟨ms', hsteps, hrel⟩ := RefineMulti.life_cycles_refine cfg ops w ms h hsafe
  exact ⟨ms', hsteps, hrel, RefineMulti.mrel_unique _ ms' hrel⟩

end C03
end AnyVec
