/-
  C16 — uses of a vector conflicting with a live handle are rejected at compile time (partial).
  `Gen.Sig.table` is regenerated from the method signatures in /repo/src on every run: receiver kind and
  whether the returned handle's lifetime is *tied to the receiver borrow* (elided) or *copied from the
  owner* (`'a` of the impl). Acceptance model: a conflict with a live result is rejected iff the result is
  tied to the receiver borrow, or the conflicting action is on the root vector whose borrow an
  owner-lifetime result still carries. rustc's actual borrow checker is the oracle: `bin/check C16`
  compiles every generated conflict/control program and compares verdict by verdict.
-/
import AnyVecModel.Gen.Sig
namespace AnyVec
namespace C16
open Gen.Sig

/-- the model's verdict for a conflict program: `true` = rejected -/
def rejected (m : Method) (onRoot : Bool) : Bool :=
  match m.tie with
  | .receiver => true
  | .owner => onRoot
  | _ => false

/-- a row is well-formed when the handle it produces is tied to the receiver borrow and the receiver is
as exclusive as the handle it produces -/
def wf (m : Method) : Bool :=
  (m.tie == .receiver) && (if m.exclusive then m.recv == .excl else (m.recv == .shared || m.recv == .excl))

/-- **for every well-formed method every conflict class is rejected**, wherever the conflicting action
happens (on the view the handle came from, or on the root vector) -/
theorem wf_rejects_all (m : Method) (h : wf m = true) (onRoot : Bool) : rejected m onRoot = true := by
  unfold wf at h
  simp only [Bool.and_eq_true, beq_iff_eq] at h
  simp [rejected, h.1]

/-- a result whose lifetime is copied from the owner still pins the *root* vector: mutating, moving or
dropping the root, and escaping its scope, are rejected for every method of the table that returns
a borrow at all -/
theorem root_conflicts_rejected :
    (table.all fun m => (m.tie == .none) || (m.tie == .missing) || rejected m true) = true := by
  decide +kernel

/-- the erased API (methods of `AnyVec` itself and `lazy_clone`) is entirely well-formed -/
theorem erased_api_wf : (table.all fun m => m.typed || m.elem || wf m) = true := by
  decide +kernel

/-- the rows that are *not* well-formed (computed from the current source): a finding list, compared
by `bin/check C16` with /verif/known_findings.json — exactly the typed-view accessors and the
`ElementPointer` downcasts that return owner-lifetime data from `&(mut) self` -/
def badRows : List String := (table.filter fun m => !wf m).map (·.name)

/-- **every mutating method of the typed view takes `&mut self`** (receivers as scanned from the source of this run): so
none of them can be called through an `AnyVecRef`, the shared view one gets from `&AnyVec` while other shared borrows -
element references, iterators, byte views - are alive; `AnyVecTyped` holds a raw pointer, so the receiver is the only
thing that stands between a shared view and a mutation -/
theorem typed_mutators_need_exclusive : (mutators.all fun m => m.2 == .excl) = true := by
  decide +kernel

/-! non-vacuity -/
example : (table.filter wf).length ≥ 10 := by decide +kernel
example : mutators.length ≥ 20 := by decide +kernel

end C16
end AnyVec
