/-
  C14 — all iterators are exact-size, double-ended and fused.
  `Cursor` is the `(index, end)` pair of `iter::Iter`, shared (through `ops::Iter`) by `iter`,
  `iter_mut`, `drain`, `splice` and their typed counterparts: `iterGo` and `eatLoop` of the model
  take every `next`/`next_back`/`len` from it.
-/
import AnyVecModel.Model.Ops
import AnyVecModel.Proofs.KernelIter
import AnyVecModel.Proofs.KernelPtrAt
import AnyVecModel.Proofs.KernelRange
import AnyVecModel.Proofs.KernelCtor
import AnyVecModel.Props.Refine
namespace AnyVec
namespace C14
variable {bg : Nat → Option VecSt}
open World

/-- all calls of a choice string: what each returned, and the final cursor -/
def run : Cursor → List End → List (End × Option Nat) × Cursor
  | c, [] => ([], c)
  | c, e :: es =>
    let r := c.step e
    let rest := run r.2 es
    ((e, r.1) :: rest.1, rest.2)

/-- slots yielded from the front, in call order -/
def fronts (ys : List (End × Option Nat)) : List Nat :=
  ys.filterMap fun p => match p with
    | (.front, some s) => some s
    | _ => none
/-- slots yielded from the back, in call order -/
def backs (ys : List (End × Option Nat)) : List Nat :=
  ys.filterMap fun p => match p with
    | (.back, some s) => some s
    | _ => none

theorem step_front (c : Cursor) :
    c.step .front = if c.index = c.end_ then (none, c) else (some c.index, ⟨c.index + 1, c.end_⟩) := rfl
theorem step_back (c : Cursor) :
    c.step .back = if c.end_ = c.index then (none, c) else (some (c.end_ - 1), ⟨c.index, c.end_ - 1⟩) := rfl

/-- **fused**: an exhausted iterator returns `None` from both ends forever and does not move. -/
theorem fused (c : Cursor) (h : c.index = c.end_) (cs : List End) :
    (run c cs).2 = c ∧ ∀ p ∈ (run c cs).1, p.2 = none := by
  induction cs with
  | nil => simp [run]
  | cons e es ih =>
    have hs : c.step e = (none, c) := by
      cases e <;> simp [Cursor.step, Cursor.next, Cursor.nextBack, h]
    simp only [run, hs]
    refine ⟨ih.1, ?_⟩
    intro p hp
    simp only [List.mem_cons] at hp
    rcases hp with rfl | hp
    · rfl
    · exact ih.2 p hp

theorem back_cons (B : List Nat) (n e : Nat) (hB : B = (List.range' (e - 1 - n) n).reverse) (hn : n + 1 ≤ e) :
    (e - 1) :: B = (List.range' (e - (n + 1)) (n + 1)).reverse := by
  rw [List.range'_concat, List.reverse_append, hB]
  have e1 : e - (n + 1) = e - 1 - n := by omega
  have e2 : e - (n + 1) + 1 * n = e - 1 := by omega
  simp [e1, e2]
  omega

/-- **double-ended, in order, exact-size**: for every interleaving of `next` and `next_back` on the
range `[index, end)`, the front items are `index, index+1, …` in ascending order, the back items are
`end-1, end-2, …` in descending order, the two never cross, and `len()` (= `size_hint`) at the end is
the number of items still to come. Holds after each prefix, i.e. at every step. -/
theorem run_spec (c : Cursor) (h : c.index ≤ c.end_) (cs : List End) :
    let ys := (run c cs).1
    let c' := (run c cs).2
    fronts ys = List.range' c.index (fronts ys).length ∧
    backs ys = (List.range' (c.end_ - (backs ys).length) (backs ys).length).reverse ∧
    c'.index = c.index + (fronts ys).length ∧ c'.end_ + (backs ys).length = c.end_ ∧
    c'.index ≤ c'.end_ ∧ c'.len + (fronts ys).length + (backs ys).length = c.len := by
  induction cs generalizing c with
  | nil => simp [run, fronts, backs, Cursor.len]; exact h
  | cons e es ih =>
    cases e with
    | front =>
      by_cases he : c.index = c.end_
      · have hs : c.step .front = (none, c) := by simp [step_front, he]
        have := ih c h
        simp only [run, hs, fronts, backs, List.filterMap_cons] at this ⊢
        exact this
      · have hs : c.step .front = (some c.index, ⟨c.index + 1, c.end_⟩) := by simp [step_front, he]
        have := ih ⟨c.index + 1, c.end_⟩ (by simp; omega)
        simp only [run, hs, fronts, backs, List.filterMap_cons, List.length_cons, Cursor.len] at this ⊢
        obtain ⟨h1, h2, h3, h4, h5, h6⟩ := this
        refine ⟨?_, h2, by omega, h4, h5, by omega⟩
        rw [List.range'_succ, ← h1]
    | back =>
      by_cases he : c.end_ = c.index
      · have hs : c.step .back = (none, c) := by simp [step_back, he]
        have := ih c h
        simp only [run, hs, fronts, backs, List.filterMap_cons] at this ⊢
        exact this
      · have hs : c.step .back = (some (c.end_ - 1), ⟨c.index, c.end_ - 1⟩) := by simp [step_back, he]
        have := ih ⟨c.index, c.end_ - 1⟩ (by simp; omega)
        simp only [run, hs, fronts, backs, List.filterMap_cons, List.length_cons, Cursor.len] at this ⊢
        obtain ⟨h1, h2, h3, h4, h5, h6⟩ := this
        refine ⟨h1, ?_, h3, by omega, h5, by omega⟩
        exact back_cons _ _ _ h2 (by omega)

/-- **each element exactly once**: the yielded slots are pairwise distinct, lie inside the range, and
when as many items were yielded as the range holds they are exactly the range. -/
theorem yields_once (c : Cursor) (h : c.index ≤ c.end_) (cs : List End) :
    (fronts (run c cs).1 ++ (backs (run c cs).1).reverse).Nodup ∧
    (∀ s ∈ fronts (run c cs).1 ++ backs (run c cs).1, c.index ≤ s ∧ s < c.end_) ∧
    ((fronts (run c cs).1).length + (backs (run c cs).1).length = c.len →
      fronts (run c cs).1 ++ (backs (run c cs).1).reverse = List.range' c.index c.len) := by
  obtain ⟨h1, h2, h3, h4, h5, h6⟩ := run_spec c h cs
  simp only [Cursor.len] at h6 ⊢
  obtain ⟨F, hF⟩ : ∃ F, F = (fronts (run c cs).1).length := ⟨_, rfl⟩
  obtain ⟨B, hB⟩ : ∃ B, B = (backs (run c cs).1).length := ⟨_, rfl⟩
  rw [← hF] at h1 h3 h6
  rw [← hB] at h2 h4 h6
  have hb : (backs (run c cs).1).reverse = List.range' (c.end_ - B) B := by
    rw [h2]; simp
  have hFB : F + B ≤ c.end_ - c.index := by omega
  refine ⟨?_, ?_, ?_⟩
  · rw [h1, hb, List.nodup_append]
    refine ⟨List.nodup_range', List.nodup_range', ?_⟩
    intro a ha b hb' hab
    simp [List.mem_range'_1] at ha hb'
    omega
  · intro s hs
    rw [List.mem_append] at hs
    rcases hs with hs | hs
    · rw [h1] at hs; simp [List.mem_range'_1] at hs; omega
    · have : s ∈ (backs (run c cs).1).reverse := by simpa using hs
      rw [hb] at this; simp [List.mem_range'_1] at this; omega
  · rw [← hF, ← hB]
    intro hall
    rw [h1, hb]
    have e1 : c.end_ - B = c.index + F := by omega
    have e2 : c.end_ - c.index = F + B := by omega
    rw [e1, e2, List.range'_append_1]

/-! non-vacuity -/
example : run ⟨1, 5⟩ [.front, .back, .back, .front, .front, .front, .back] =
    ([(.front, some 1), (.back, some 4), (.back, some 3), (.front, some 2), (.front, none), (.front, none),
      (.back, none)], ⟨3, 3⟩) := by decide

/-- **`Clone`**: the model's clone of an iterator is the same cursor, so continuing on a clone made after
any calls `pre` yields exactly what the original would have yielded: the calls `pre ++ post` on one
iterator are the calls `pre` on the original followed by `post` on the clone. -/
theorem clone_continues (c : Cursor) (pre post : List End) :
    run c (pre ++ post) = ((run c pre).1 ++ (run (run c pre).2 post).1, (run (run c pre).2 post).2) := by
  induction pre generalizing c with
  | nil => simp [run]
  | cons e es ih => simp [run, ih]

/-- the cursor the script's `iterc` op continues with is the one `run` ends in -/
theorem fold_is_run (c : Cursor) (pre : List End) : pre.foldl (fun c e => (c.step e).2) c = (run c pre).2 := by
  induction pre generalizing c with
  | nil => rfl
  | cons e es ih => simp [run, ih]

/-- **source tie**: `Cursor.len` is `Iter::len` of `/repo/src/iter.rs` as re-translated on this run. -/
theorem len_is_the_source (c : Cursor) : Gen.Kernel.iter_len c.index c.end_ = .ok (.ret c.len) :=
  KernelTie.iter_len_tie c

/-- **source tie**: `Cursor.next` / `Cursor.nextBack` are `Iter::next` / `Iter::next_back` of `/repo/src/iter.rs` as
re-translated on this run (guard, yielded slot, cursor update, in this order), and `Iter::clone` copies the cursor. -/
theorem cursor_is_the_source (c : Cursor) :
    Gen.Kernel.iter_next c.index c.end_ = .ok (.step c.next.1 c.next.2.index c.next.2.end_) ∧
    Gen.Kernel.iter_next_back c.index c.end_ = .ok (.step c.nextBack.1 c.nextBack.2.index c.nextBack.2.end_) ∧
    Gen.Kernel.iter_clone c.index c.end_ = .ok (.made 0 [c.index, c.end_]) :=
  ⟨KernelTie.iter_next_tie c, KernelTie.iter_next_back_tie c, KernelTie.iter_clone_tie c⟩

/-- **source tie**: `Iter::new(ptr, start, end)` stores `index: start`, `end: end` (source of this run): a fresh cursor
covers exactly `[start, end)`. -/
theorem iter_new_is_the_source :
    Gen.Kernel.iter_new_fields =
      [("any_vec_ptr", "any_vec_ptr"), ("index", "start"), ("end", "end"), ("phantom", "PhantomData")] :=
  KernelTie.iter_new_tie

/-- **source tie**: the cursor a `drain` / `splice` iterator starts with covers exactly the range the caller asked for:
`into_range` of `/repo/src/lib.rs` (as re-translated on this run) turns every `RangeBounds` spelling - included,
excluded, unbounded on either side - into the model's `(start, end)`, and `Drain::new` / `Splice::new` hand exactly
this pair to `Iter::new` as `(index, end)`. -/
theorem range_cursor_is_the_source (len : Nat) (lo hi : Bnd) (s e : Nat) (d : VecSt) :
    (Gen.Kernel.into_range len lo hi =
      match intoRange len lo hi with
      | .ok (s, e) => .ok (.ret2 s e)
      | .panic m => .panic m
      | .ub m => .ub m) ∧
    Gen.Kernel.drain_new d.len s e = .ok (.made s [s, e, s, e, d.len]) ∧
    Gen.Kernel.splice_new d.len s e = .ok (.made s [s, e, s, e, d.len]) :=
  ⟨KernelTie.into_range_tie len lo hi, rfl, (KernelTie.splice_ctor_tie d s e).1⟩

/-- **iteration in every reachable situation** (Props/Refine.lean): in any world that shows an abstract vector - any
fault-free reachable world does - every sequence of `next` / `next_back` calls on `iter()` prints exactly what the same
calls print on the abstract items (`Refine.specIter`: the item at the cursor the call yields, the exact remaining length
after every call, `None` for good once the ends have met) and leaves the world unchanged. -/
theorem iteration_refines (cfg : Cfg) (v ty : Nat) (cs : List End) (w : World) (s : Refine.Spec)
    (h : Refine.Rel bg v ty w s) :
    World.step cfg (.iter v cs) w =
      (w, .ok (Refine.specIter cfg s.items ⟨0, s.items.length⟩ cs [toString s.items.length])) :=
  Refine.iter_refines cfg v ty cs w s h

end C14
end AnyVec
