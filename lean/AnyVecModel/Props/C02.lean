/-
  C02 — drain and splice match `Vec::drain` / `Vec::splice` for every range, replacement and
  consumption pattern.  Theorems about the model; tied to /repo by `bin/check C02`.
-/
import AnyVecModel.Proofs.Splice
import AnyVecModel.Proofs.KernelRange
import AnyVecModel.Proofs.KernelDrainDrop
import AnyVecModel.Proofs.KernelSpliceDrop
import AnyVecModel.Props.Hist
import AnyVecModel.Props.Refine
namespace AnyVec
namespace C02
variable {bg : Nat → Option VecSt}
open World

/-- mathematical reading of a start bound over the naturals (no wrap-around) -/
def startNat : Bnd → Nat
  | .incl i => i
  | .excl i => i + 1
  | .unb => 0
/-- mathematical reading of an end bound -/
def endNat (len : Nat) : Bnd → Nat
  | .incl i => i + 1
  | .excl i => i
  | .unb => len

/-- the number written in a bound (a `usize` in the real code) -/
def bndVal : Bnd → Nat
  | .incl i => i
  | .excl i => i
  | .unb => 0

theorem rangeStart_spec (lo : Bnd) (hv : bndVal lo ≤ USIZE_MAX) :
    (startNat lo ≤ USIZE_MAX → rangeStart lo = .ok (startNat lo)) ∧
    (USIZE_MAX < startNat lo → ∃ m, rangeStart lo = .panic m) := by
  cases lo with
  | incl i => simp only [rangeStart, startNat, bndVal] at *; exact ⟨fun _ => trivial, fun h => by omega⟩
  | excl i =>
    simp only [rangeStart, startNat, checkedAdd, bndVal] at *
    refine ⟨fun h => by rw [if_pos h], fun h => ⟨_, by rw [if_neg (by omega)]⟩⟩
  | unb => simp only [rangeStart, startNat]; exact ⟨fun _ => trivial, fun h => by omega⟩

theorem rangeEnd_spec (len : Nat) (hi : Bnd) (hv : bndVal hi ≤ USIZE_MAX) (hlen : len ≤ USIZE_MAX) :
    (endNat len hi ≤ USIZE_MAX → rangeEnd len hi = .ok (endNat len hi)) ∧
    (USIZE_MAX < endNat len hi → ∃ m, rangeEnd len hi = .panic m) := by
  cases hi with
  | excl i => simp only [rangeEnd, endNat, bndVal] at *; exact ⟨fun _ => trivial, fun h => by omega⟩
  | incl i =>
    simp only [rangeEnd, endNat, checkedAdd, bndVal] at *
    refine ⟨fun h => by rw [if_pos h], fun h => ⟨_, by rw [if_neg (by omega)]⟩⟩
  | unb => simp only [rangeEnd, endNat]; exact ⟨fun _ => trivial, fun h => by omega⟩

/-- `into_range` accepts exactly the ranges with `start ≤ end ≤ len` in the mathematical reading of
the bounds (every `RangeBounds` form, bounds up to and beyond `usize::MAX` included) and then
returns exactly that pair… -/
theorem into_range_valid (len : Nat) (lo hi : Bnd) (hlen : len ≤ USIZE_MAX)
    (hvl : bndVal lo ≤ USIZE_MAX) (hvh : bndVal hi ≤ USIZE_MAX)
    (h : startNat lo ≤ endNat len hi ∧ endNat len hi ≤ len) :
    intoRange len lo hi = .ok (startNat lo, endNat len hi) := by
  obtain ⟨h1, h2⟩ := h
  have hs := (rangeStart_spec lo hvl).1 (by omega)
  have he := (rangeEnd_spec len hi hvh hlen).1 (by omega)
  simp [intoRange, hs, he, h1, h2]

/-- …and every other request panics (also when computing a bound would overflow), before any
state is touched (`intoRange` is a pure function of `len` and the bounds). -/
theorem into_range_invalid (len : Nat) (lo hi : Bnd) (hlen : len ≤ USIZE_MAX)
    (hvl : bndVal lo ≤ USIZE_MAX) (hvh : bndVal hi ≤ USIZE_MAX)
    (h : ¬ (startNat lo ≤ endNat len hi ∧ endNat len hi ≤ len)) :
    ∃ m, intoRange len lo hi = .panic m := by
  by_cases hs : startNat lo ≤ USIZE_MAX
  · have hs' := (rangeStart_spec lo hvl).1 hs
    by_cases he : endNat len hi ≤ USIZE_MAX
    · have he' := (rangeEnd_spec len hi hvh hlen).1 he
      simp only [intoRange, hs', he']
      split
      · split
        · rename_i a b; exact absurd ⟨a, b⟩ h
        · exact ⟨_, rfl⟩
      · exact ⟨_, rfl⟩
    · obtain ⟨m, hm⟩ := (rangeEnd_spec len hi hvh hlen).2 (by omega)
      exact ⟨m, by simp [intoRange, hs', hm]⟩
  · obtain ⟨m, hm⟩ := (rangeStart_spec lo hvl).2 (by omega)
    exact ⟨m, by simp [intoRange, hm]⟩

/-- Whatever was consumed from either end (`index`/`end_` anywhere inside the range), dropping a
drain iterator leaves `take start ++ drop end` of the original elements, destroys exactly the
elements that were not yielded, and changes nothing else. -/
theorem drain_drop_closes_gap (w : World) (it : RangeIt) (d : VecSt)
    (hv : w.vecs[it.v]? = some d) (hl : d.live = true) (hf : w.fault = none)
    (h1 : it.start ≤ it.index) (h2 : it.index ≤ it.end_) (h3 : it.end_ ≤ it.end0)
    (h4 : it.end0 ≤ it.origLen) (h5 : it.origLen ≤ d.cells.length) (h6 : d.cells.length ≤ d.cap)
    (hinit : d.InitRange it.index (it.end_ - it.index)) :
    let r := drainDrop it w
    let orig := d.cells.take it.origLen
    r.2 = .ok () ∧ r.1.vis it.v = orig.take it.start ++ orig.drop it.end0 ∧
      (∀ u, u ≠ it.v → r.1.vis u = w.vis u) ∧
      r.1.dropLog = (d.idsRange it.index (it.end_ - it.index)).reverse ++ w.dropLog ∧
      r.1.held = w.held := by
  have hlt : it.v < w.vecs.length := (List.getElem?_eq_some_iff.mp hv).1
  intro r orig
  have hr := drainDrop_exec w it d hv hl hf h1 h2 h3 h4 h5 h6 hinit
  rw [show r = _ from hr]
  refine ⟨rfl, ?_, ?_, ?_, ?_⟩
  · simp only [World.vis, World.upd_vecs, World.logDrops_vecs, List.getElem?_set_self hlt]
    rw [VecSt.drainClose_abs _ _ _ _ (by omega) h4 h5]
    simp [orig, List.take_take]; omega
  · intro u hu
    simp [World.vis, List.getElem?_set, Ne.symm hu]
  · simp [World.logDrops_dropLog]
  · simp

/-- **`Splice::drop`**: whatever was consumed from either end, dropping a splice iterator whose
replacement consists of `ids` (plain values of the vector's type, honest `len()`, room reservable) leaves
`take start ++ replacement ++ drop end` of the original elements, destroys exactly the elements that were
not yielded, and changes nothing else. -/
theorem splice_drop_replaces (cfg : Cfg) (w : World) (it : RangeIt) (d d1 : VecSt) (es : List Event)
    (vals : List Val) (ids : List Nat) (hpl : PlainList vals ids d.ty)
    (hv : w.vecs[it.v]? = some d) (hl : d.live = true) (hf : w.fault = none)
    (h0 : d.len = it.start) (h1 : it.start ≤ it.index) (h2 : it.index ≤ it.end_) (h3 : it.end_ ≤ it.end0)
    (h4 : it.end0 ≤ it.origLen) (h5 : it.origLen ≤ d.cells.length) (h6 : d.cells.length ≤ d.cap)
    (hsmall : it.start + vals.length + (it.origLen - it.end0) ≤ USIZE_MAX)
    (hres : d.reserve (it.start + vals.length + (it.origLen - it.end0) - it.start) = .ok (d1, es))
    (hinit : d.InitRange it.index (it.end_ - it.index)) :
    let r := spliceDrop cfg it vals vals.length w
    let orig := d.cells.take it.origLen
    r.2 = .ok () ∧
      r.1.vis it.v = orig.take it.start ++ ids.map Cell.val ++ orig.drop it.end0 ∧
      (∀ u, u ≠ it.v → r.1.vis u = w.vis u) ∧
      r.1.dropLog = (d.idsRange it.index (it.end_ - it.index)).reverse ++ w.dropLog ∧
      r.1.held = w.held ∧ r.1.created = w.created :=
  spliceDrop_replaces cfg w it d d1 es vals ids hpl hv hl hf h0 h1 h2 h3 h4 h5 h6 hsmall hres hinit

/-! non-vacuity -/
def sampleVec : VecSt :=
  { ty := 0, size := 8, align := 8, hasDrop := true, cloneable := true, bk := .heap, cap := 8,
    cells := [.val 0, .val 1, .val 2, .val 3, .val 4, .val 5], len := 1, gen := 0, live := true }
def sampleWorld : World := { vecs := [sampleVec], created := 6 }
/-- `drain(1..4)` on `[0,1,2,3,4,5]` after one `next_back()` (which yielded element 3) -/
def sampleIt : RangeIt := { v := 0, typed := false, start := 1, end0 := 4, origLen := 6, index := 1, end_ := 3 }

example : (drainDrop sampleIt sampleWorld).1.vis 0 = [.val 0, .val 4, .val 5] := by decide
example : (drainDrop sampleIt sampleWorld).1.dropLog = [2, 1] := by decide
example : intoRange 6 (.incl 0) (.incl 18446744073709551615) = .panic "range end overflow" := by decide
example : intoRange 6 (.excl 0) (.incl 3) = .ok (1, 4) := by decide

/-! ### over whole histories -/

/-- **history theorem**: from every reachable world, `drain` over any range form, consumed from either
end in any pattern (each item dropped, forgotten, downcast, inspected, moved or lazily cloned into another vector), then dropped or forgotten —
with a panic injected at any user-code call — keeps the world invariant (no element duplicated,
destroyed twice or destroyed while visible; every vector well formed) and never faults on memory. -/
theorem history_drain_core (cfg : Cfg) (w : World) (hr : Hist.Reach cfg w) (v : Nat) (lo hi : Bnd) (typed : Bool)
    (eats : List (End × Sink)) (fin : Fin) (f : Option Nat) (hv : Hist.liveVec w.vecs v)
    (hc : ∀ p ∈ eats, p.2.ValidItem w.vecs v typed) :
    (runStep cfg (.drain v lo hi typed eats fin) f w).1.Inv ∧
      (runStep cfg (.drain v lo hi typed eats fin) f w).2.notUb :=
  Hist.runStep_inv cfg (.drain v lo hi typed eats fin) f w (Hist.reach_inv_core cfg w hr) trivial ⟨hv, hc⟩

/-- **history theorem**: from every reachable world, `splice` over any range form with replacement values
(owning wrappers or raw pointers) of *any* types, a replacement iterator claiming *any* length, consumed
from either end in any pattern, then dropped or forgotten — with a panic injected at any user-code call
(a sink, a destructor, the iterator's `next`) — keeps the world invariant and never faults on memory. -/
theorem history_splice_core (cfg : Cfg) (w : World) (hr : Hist.Reach cfg w) (v : Nat) (lo hi : Bnd) (typed : Bool)
    (repl : List Src) (claim : Int) (eats : List (End × Sink)) (fin : Fin) (f : Option Nat)
    (hv : Hist.liveVec w.vecs v) (hrepl : ∀ r ∈ repl, r.Plain) (hc : ∀ p ∈ eats, p.2.ValidItem w.vecs v typed) :
    (runStep cfg (.splice v lo hi typed repl claim eats fin) f w).1.Inv ∧
      (runStep cfg (.splice v lo hi typed repl claim eats fin) f w).2.notUb :=
  Hist.runStep_inv cfg (.splice v lo hi typed repl claim eats fin) f w (Hist.reach_inv_core cfg w hr) hrepl ⟨hv, hc⟩

/-! ### tie to the source text -/

/-- **source tie**: the model's `intoRange` is the `into_range` of `/repo/src/lib.rs` as re-translated on this
run (`Gen/Kernel.lean`): same bound arithmetic, same checked additions, same asserts in the same order. -/
theorem into_range_is_the_source (len : Nat) (lo hi : Bnd) :
    Gen.Kernel.into_range len lo hi =
      match intoRange len lo hi with
      | .ok (s, e) => .ok (.ret2 s e)
      | .panic m => .panic m
      | .ub m => .ub m :=
  KernelTie.into_range_tie len lo hi

/-- **source tie**: the model's `impl Drop for Drain` is the execution of the commands `/repo/src/ops/drain.rs` issues
(re-translated on this run): drop the items not yet yielded `[iter.index, iter.end)`, move the tail
`original_len - end` slots from `end` down to `start`, `len := original_len - (end - start)`; and
`move_elements_at` of `/repo/src/any_vec_ptr.rs` is one memmove of whole element slots on both compile-time paths. -/
theorem drain_drop_is_the_source (it : RangeIt) (s d n : Nat) (known : Bool) :
    drainDrop it =
      KernelTie.runCmds { v := it.v, typed := it.typed }
        (Gen.Kernel.drain_drop_cmds it.index it.end_ it.start it.end0 it.origLen) ∧
    Gen.Kernel.move_elements_at_cmds s d n known = [.copy false s d n] :=
  ⟨KernelTie.drain_drop_tie it, KernelTie.move_elements_at_tie s d n known⟩

/-- **source tie**: the model's `impl Drop for Splice` is the `/repo/src/ops/splice.rs` one as re-translated on this
run, in three parts: the commands before the write loop (the two overflow-checked sums, `reserve(new_len - start)`,
the drop of the unyielded items, the move of the tail to `start + replace_len`), the loop itself (recognised
structurally: at most `replace_len` values, each type-checked and moved to consecutive slots from `start` - the
vector's current length - on), the commands after it (gap closed if the iterator ran short, `len` restored), and
finally the replacement iterator is dropped; on unwind from a panic before the loop the iterator is dropped too. -/
theorem splice_drop_is_the_source (cfg : Cfg) (w : World) (it : RangeIt) (repl : List Val) (claimed : Nat) (d : VecSt)
    (hv : w.vecs[it.v]? = some d) (hl : d.live = true) (hlen : d.len = it.start) :
    spliceDrop cfg it repl claimed w = KernelTie.spliceDropBySource cfg it repl claimed d w :=
  KernelTie.splice_drop_tie cfg w it repl claimed d hv hl hlen

/-! ### `drain` and `splice` inside whole histories (Props/Refine.lean) -/

/-- **`drain(a..b)` and `splice(a..b, k new values)` refine `Vec::drain` / `Vec::splice` in every history**: mixed in
any order with the element-wise and capacity operations, from any world that shows an abstract vector, a
`drain(a..b)` whose items are taken from either end in any pattern (each dropped) leaves `take a ++ drop b` and such a `splice(a..b, …)` leaves `take a ++ new values ++ drop b` (for
`a ≤ b ≤ len`; otherwise nothing changes but the offered values are destroyed), with the capacity kept when the result
fits and grown only when it does not; the one alternative is the storage's refusal of the room `splice` asks for, which
leaves the items before `a` (leak-on-panic). -/
theorem range_ops_refine_in_histories (cfg : Cfg) (v ty : Nat) (ops : List Refine.VOp) (w : World) (s : Refine.Spec)
    (h : Refine.Rel bg v ty w s) (hall : ∀ op ∈ ops, op.Allowed s.fixed) :
    ∃ s', Refine.Spec.Steps s ops s' ∧ Refine.Rel bg v ty (Refine.runOps cfg v ty w ops) s' :=
  Refine.history_refines cfg v ty ops w s h hall

/-- a `splice` whose result fits the capacity has exactly one abstract outcome -/
theorem splice_that_fits (s s' : Refine.Spec) (a b k : Nat) (hr : a ≤ b ∧ b ≤ s.items.length)
    (hfit : a + k + (s.items.length - b) ≤ s.cap) (hsm : a + k + (s.items.length - b) ≤ USIZE_MAX)
    (cs : List End) (h : Refine.Spec.Step s (.splice a b k cs) s') :
    s'.items = s.items.take a ++ List.range' s.next k ++ s.items.drop b ∧ s'.cap = s.cap ∧ s'.next = s.next + k := by
  cases h with
  | spliceFits _ _ _ _ _ _ => exact ⟨rfl, rfl, rfl⟩
  | spliceGrow _ _ _ c _ _ hover _ _ => omega
  | spliceRefused _ _ _ _ _ hover => omega
  | spliceOut _ _ _ _ hno => exact (hno hr).elim

end C02
end AnyVec
