/-
  C18 — heap storage uses consistent, valid layouts and is never leaked (partial).
  The allocator is the automaton below (the real one is observed by the instrumented global
  allocator of the harness); the model's heap backend is shown to drive it correctly for every
  sequence of requests.
-/
import AnyVecModel.Proofs.Vec
import AnyVecModel.Proofs.KernelHeap
namespace AnyVec
namespace C18

/-- allocator protocol for one vector: its live block `(bytes, align)`, if any -/
abbrev Block := Option (Nat × Nat)

def validLayout (bytes align : Nat) : Prop := 0 < bytes ∧ bytes + (align - 1) ≤ ISIZE_MAX
instance (b a : Nat) : Decidable (validLayout b a) := by unfold validLayout; infer_instance

/-- one allocator call against the current block; `none` = protocol violation -/
def allocStep (live : Block) : Event → Option Block
  | .alloc s a => if live = none ∧ validLayout s a then some (some (s, a)) else none
  | .realloc o n a => if live = some (o, a) ∧ validLayout n a then some (some (n, a)) else none
  | .dealloc s a => if live = some (s, a) then some none else none
  | _ => some live

def accepts : Block → List Event → Option Block
  | b, [] => some b
  | b, e :: es => match allocStep b e with
    | some b' => accepts b' es
    | none => none

/-- the block a heap vector must own: exactly `capacity × size` bytes aligned for the element type,
and none at all while that product is zero (fresh vectors, zero-sized types, shrunk to empty) -/
def blockOf (v : VecSt) : Block := if v.size * v.cap = 0 then none else some (v.size * v.cap, v.align)

/-- **every `resize` follows the protocol**: starting from the block the vector owns, the emitted
allocator calls are accepted (alloc only when nothing is live, realloc/dealloc present exactly the
live layout, every requested layout is valid) and end at the block the new capacity needs. -/
theorem heapResize_protocol (v v' : VecSt) (n : Nat) (es : List Event)
    (h : v.heapResize n = .ok (v', es)) :
    accepts (blockOf v) es = some (blockOf v') ∧ v'.size = v.size ∧ v'.align = v.align ∧ v'.cap = n := by
  unfold VecSt.heapResize at h
  split at h
  · cases h; rename_i hc; subst hc; simp [accepts]
  · split at h
    · cases h; rename_i hs; simp [accepts, blockOf, hs]
    · split at h
      · rename_i hne hs0 hn0
        cases h
        subst hn0
        have hpos : v.size * v.cap ≠ 0 := by
          intro h0; rcases Nat.mul_eq_zero.mp h0 with h1 | h1 <;> simp_all
        simp [accepts, allocStep, blockOf, hpos]
      · split at h
        · rename_i hne hs0 hn0 _ bytes hb
          obtain ⟨hbe, _⟩ := checkedMul_ok _ _ _ hb
          split at h
          · cases h
          · rename_i hfit
            cases h
            have hpos : v.size * n ≠ 0 := by
              intro h0; rcases Nat.mul_eq_zero.mp h0 with h1 | h1 <;> simp_all
            have hv : validLayout (v.size * n) v.align := ⟨by omega, by omega⟩
            by_cases hc0 : v.cap = 0
            · simp [accepts, allocStep, blockOf, hc0, hbe, hpos, hv]
            · have hpos2 : v.size * v.cap ≠ 0 := by
                intro h0; rcases Nat.mul_eq_zero.mp h0 with h1 | h1 <;> simp_all
              simp [accepts, allocStep, blockOf, hc0, hbe, hpos, hpos2, hv]
        · cases h
        · cases h

/-- **no invalid layout reaches the allocator**: a request whose byte size overflows `isize`
(or `usize`) panics, and a panic carries no allocator call at all. -/
theorem heapResize_overflow_panics (v : VecSt) (n : Nat) (hne : v.cap ≠ n) (hs : v.size ≠ 0) (hn : n ≠ 0)
    (hbig : ISIZE_MAX < v.size * n + (v.align - 1)) :
    ∃ m, v.heapResize n = .panic m := by
  unfold VecSt.heapResize
  simp only [hne, hs, hn, if_false]
  by_cases hm : v.size * n ≤ USIZE_MAX
  · have : checkedMul v.size n = .ok (v.size * n) := by simp [checkedMul, hm]
    rw [this]
    simp only
    rw [if_pos (by omega)]
    exact ⟨_, rfl⟩
  · have : checkedMul v.size n = .panic "capacity overflow" := by simp [checkedMul, hm]
    rw [this]
    exact ⟨_, rfl⟩

/-- dropping the vector (`resize(0)`) returns all of its memory: afterwards nothing is live -/
theorem drop_releases_everything (v v' : VecSt) (es : List Event) (h : v.heapResize 0 = .ok (v', es)) :
    accepts (blockOf v) es = some none := by
  obtain ⟨ha, hs, _, hc⟩ := heapResize_protocol v v' 0 es h
  rw [ha]; simp [blockOf, hc]

/-- a whole history of capacity requests: accepted from start to end -/
def resizes : VecSt → List Nat → Option (VecSt × List Event)
  | v, [] => some (v, [])
  | v, n :: ns =>
    match v.heapResize n with
    | .ok (v', es) => (resizes v' ns).map fun r => (r.1, es ++ r.2)
    | _ => resizes v ns          -- a panicking request leaves the vector (and the allocator) untouched

theorem accepts_append (b : Block) (es fs : List Event) (b' : Block) (h : accepts b es = some b') :
    accepts b (es ++ fs) = accepts b' fs := by
  induction es generalizing b with
  | nil => simp only [accepts, Option.some.injEq] at h; subst h; rfl
  | cons e es ih =>
    simp only [accepts, List.cons_append] at h ⊢
    split at h
    · rename_i b1 hb1; exact ih b1 h
    · cases h

theorem history_protocol (v : VecSt) (ns : List Nat) (v' : VecSt) (es : List Event)
    (h : resizes v ns = some (v', es)) : accepts (blockOf v) es = some (blockOf v') := by
  induction ns generalizing v es with
  | nil => simp [resizes] at h; obtain ⟨rfl, rfl⟩ := h; rfl
  | cons n ns ih =>
    simp only [resizes] at h
    split at h
    · rename_i v1 es1 h1
      cases hr : resizes v1 ns with
      | none => rw [hr] at h; cases h
      | some r =>
        rw [hr] at h; simp at h
        obtain ⟨rfl, rfl⟩ := h
        obtain ⟨ha, _⟩ := heapResize_protocol v v1 n es1 h1
        rw [accepts_append _ _ _ _ ha]
        exact ih v1 r.2 (by rw [hr])
    · exact ih v es h

/-! non-vacuity -/
def emptyHeap : VecSt :=
  { ty := 0, size := 8, align := 8, hasDrop := true, cloneable := true, bk := .heap, cap := 0,
    cells := [], len := 0, gen := 0, live := true }
example : (resizes emptyHeap [4, 8, 9223372036854775807, 2, 0]).map (·.2) =
    some [.alloc 32 8, .realloc 32 64 8, .realloc 64 16 8, .dealloc 16 8] := by decide

/-- **source tie**: the model's `HeapMem::resize` is the one of `/repo/src/mem/heap.rs` as re-translated on this run:
nothing when the size is unchanged; for zero-sized elements only the size is recorded; shrinking to 0 is one
`dealloc` of the current block (`size * capacity` bytes, element alignment); otherwise the new byte size is a checked
multiplication and a `Layout::from_size_align` validity check (both "capacity overflow") *before* any allocator call,
then one `alloc` (from capacity 0) or one `realloc` from the current block's layout to the new byte size; the size
is recorded last; `impl Drop for HeapMem` is `resize(0)`. -/
theorem heap_protocol_is_the_source (v : VecSt) (n : Nat) :
    v.heapResize n = KernelTie.runA v [] (Gen.Kernel.heap_resize_cmds v.cap v.size v.align n) ∧
    Gen.Kernel.heap_drop_resize = 0 :=
  KernelTie.heap_resize_tie v n

end C18
end AnyVec
