/-
  C04 — values of the wrong run-time type are never admitted or reinterpreted.
  Type ids are natural numbers in the model (distinct types = distinct numbers, whatever the layout).
-/
import AnyVecModel.Proofs.Exec
import AnyVecModel.Proofs.KernelApiOps
import AnyVecModel.Proofs.KernelValue
namespace AnyVec
namespace C04
open World

/-- `push` of an owned value of another type: panic, every vector unchanged, the rejected value is
destroyed exactly once, nothing else happens. -/
theorem push_mismatch_owned (w : World) (dst id ty : Nat) (d : VecSt)
    (hv : w.vecs[dst]? = some d) (hl : d.live = true) (hty : ty ≠ d.ty) (hf : w.fault = none) :
    let r := push dst (.wrapper id ty) w
    (∃ m, r.2 = .panic m) ∧ r.1.vecs = w.vecs ∧ r.1.dropLog = id :: w.dropLog ∧ r.1.held = w.held ∧
      r.1.pendingRaw = w.pendingRaw := by
  have hlt : dst < w.vecs.length := (List.getElem?_eq_some_iff.mp hv).1
  have hd : w.vecs[dst] = d := (List.getElem?_eq_some_iff.mp hv).2
  simp [push, valTy, getVec, hl, hlt, hd, hty, WM.onUnwind, valDrop, World.dropElem_nofault, logDrop]

/-- `push` through a non-owning raw pointer of another type: panic, unchanged; the value stays
with the caller (who destroys it: `pendingRaw`). -/
theorem push_mismatch_raw (w : World) (dst id ty : Nat) (d : VecSt)
    (hv : w.vecs[dst]? = some d) (hl : d.live = true) (hty : ty ≠ d.ty) :
    let r := push dst (.raw id ty) w
    (∃ m, r.2 = .panic m) ∧ r.1.vecs = w.vecs ∧ r.1.dropLog = w.dropLog ∧ r.1.pendingRaw = id :: w.pendingRaw := by
  have hlt : dst < w.vecs.length := (List.getElem?_eq_some_iff.mp hv).1
  have hd : w.vecs[dst] = d := (List.getElem?_eq_some_iff.mp hv).2
  simp [push, valTy, getVec, hl, hlt, hd, hty, WM.onUnwind, valDrop]

/-- `insert` of a value of another type, at any index (in range or not): same. -/
theorem insert_mismatch_owned (w : World) (dst i id ty : Nat) (d : VecSt)
    (hv : w.vecs[dst]? = some d) (hl : d.live = true) (hty : ty ≠ d.ty) (hf : w.fault = none) :
    let r := insert dst i (.wrapper id ty) w
    (∃ m, r.2 = .panic m) ∧ r.1.vecs = w.vecs ∧ r.1.dropLog = id :: w.dropLog ∧ r.1.held = w.held := by
  have hlt : dst < w.vecs.length := (List.getElem?_eq_some_iff.mp hv).1
  have hd : w.vecs[dst] = d := (List.getElem?_eq_some_iff.mp hv).2
  simp [World.insert, valTy, getVec, hl, hlt, hd, hty, WM.onUnwind, valDrop, World.dropElem_nofault, logDrop]

/-- a value of the right type passes the check: `push` is then `push_unchecked` (whose effect is C01's). -/
theorem push_match (w : World) (dst id : Nat) (d : VecSt)
    (hv : w.vecs[dst]? = some d) (hl : d.live = true) :
    push dst (.wrapper id d.ty) w = pushUnchecked dst (.wrapper id d.ty) w ∧
    push dst (.raw id d.ty) w = pushUnchecked dst (.raw id d.ty) w := by
  have hlt : dst < w.vecs.length := (List.getElem?_eq_some_iff.mp hv).1
  have hd : w.vecs[dst] = d := (List.getElem?_eq_some_iff.mp hv).2
  constructor <;> simp [push, valTy, getVec, hl, hlt, hd]

/-- downcasting a vector (`downcast_ref`/`downcast_mut`) succeeds exactly for the real element type -/
theorem downcast_vec_iff (cfg : Cfg) (w : World) (v ty : Nat) (d : VecSt)
    (hv : w.vecs[v]? = some d) (hl : d.live = true) :
    step cfg (.dcvec v ty) w = (w, .ok (if ty = d.ty then ["rS", "mS"] else ["rN", "mN"])) := by
  have hlt : v < w.vecs.length := (List.getElem?_eq_some_iff.mp hv).1
  have hd : w.vecs[v] = d := (List.getElem?_eq_some_iff.mp hv).2
  simp [step, getVec, hl, hlt, hd]

/-- downcasting a removal handle to another type yields `None` and the element is destroyed with
the handle (exactly once), the vector having lost it … -/
theorem handle_downcast_wrong (cfg : Cfg) (w : World) (v i id ty : Nat) (d : VecSt)
    (hv : w.vecs[v]? = some d) (hl : d.live = true) (hwf : d.WF) (hi : i < d.len)
    (hc : d.cells.get i = .val id) (hf : w.fault = none) (hty : ty ≠ d.ty) :
    let r := step cfg (.remove v i (.downcast ty)) w
    r.2 = .ok ["N"] ∧ r.1.dropLog = id :: w.dropLog ∧ r.1.held = w.held ∧
      r.1.vis v = (w.vis v).eraseIdx i := by
  have hlt : v < w.vecs.length := (List.getElem?_eq_some_iff.mp hv).1
  have hd : w.vecs[v] = d := (List.getElem?_eq_some_iff.mp hv).2
  have h1 := hwf.len_le; have h2 := hwf.cells_le
  have hb1 : i < d.cap := by omega
  have hb2 : i + 1 + (d.len - 1 - i) ≤ d.cap := by omega
  have hb3 : i + (d.len - 1 - i) ≤ d.cap := by omega
  have he : step cfg (.remove v i (.downcast ty)) w =
      ({ logDrop d.hasDrop id w with vecs := w.vecs.set v (d.removeAt i) }, .ok ["N"]) := by
    simp [step, getVec, hl, hi, hlt, hd, setLen, sinkHandle, hty, hDrop, hSlot, readElem, VecSt.readElem_ok, hb1, hc,
      World.dropElem_nofault, hf, hConsume, moveElems, VecSt.moveElems_ok, hb2, hb3, World.upd, VecSt.removeAt,
      logDrop]
  intro r
  rw [show r = _ from he]
  refine ⟨rfl, rfl, rfl, ?_⟩
  simp [World.vis, hlt, VecSt.removeAt_abs _ _ hwf hi, hd]

/-- … and to the real type yields exactly that element, handed to the caller, not destroyed. -/
theorem handle_downcast_right (cfg : Cfg) (w : World) (v i id : Nat) (d : VecSt)
    (hv : w.vecs[v]? = some d) (hl : d.live = true) (hwf : d.WF) (hi : i < d.len)
    (hc : d.cells.get i = .val id) :
    let r := step cfg (.remove v i (.downcast d.ty)) w
    r.2 = .ok [cfg.tok id] ∧ r.1.dropLog = w.dropLog ∧ r.1.held = id :: w.held ∧
      r.1.vis v = (w.vis v).eraseIdx i := by
  have hlt : v < w.vecs.length := (List.getElem?_eq_some_iff.mp hv).1
  have hd : w.vecs[v] = d := (List.getElem?_eq_some_iff.mp hv).2
  have h1 := hwf.len_le; have h2 := hwf.cells_le
  have hb1 : i < d.cap := by omega
  have hb2 : i + 1 + (d.len - 1 - i) ≤ d.cap := by omega
  have hb3 : i + (d.len - 1 - i) ≤ d.cap := by omega
  have he : step cfg (.remove v i (.downcast d.ty)) w =
      ({ w with vecs := w.vecs.set v (d.removeAt i), held := id :: w.held }, .ok [cfg.tok id]) := by
    simp [step, getVec, hl, hi, hlt, hd, setLen, sinkHandle, hSlot, readElem, VecSt.readElem_ok, hb1, hc,
      hConsume, moveElems, VecSt.moveElems_ok, hb2, hb3, World.upd, VecSt.removeAt, hold]
  intro r
  rw [show r = _ from he]
  refine ⟨rfl, rfl, rfl, ?_⟩
  simp [World.vis, hlt, VecSt.removeAt_abs _ _ hwf hi, hd]

/-- `element_typeid` / `element_layout` / `len` / `capacity` describe the real element type -/
theorem reports_real_type (cfg : Cfg) (w : World) (v : Nat) (d : VecSt)
    (hv : w.vecs[v]? = some d) (hl : d.live = true) :
    ∃ rest, step cfg (.info v) w =
      (w, .ok (["t" ++ toString d.ty, "s" ++ toString d.size, "a" ++ toString d.align] ++ rest)) := by
  have hlt : v < w.vecs.length := (List.getElem?_eq_some_iff.mp hv).1
  have hd : w.vecs[v] = d := (List.getElem?_eq_some_iff.mp hv).2
  exact ⟨_, by simp [step, getVec, hl, hlt, hd]; rfl⟩

/-! non-vacuity -/
def sampleVec : VecSt :=
  { ty := 2, size := 8, align := 8, hasDrop := true, cloneable := true, bk := .heap, cap := 4,
    cells := [.val 10, .val 11], len := 2, gen := 0, live := true }
def sampleWorld : World := { vecs := [sampleVec], created := 12 }
example : (push 0 (.wrapper 12 3) sampleWorld).2 = .panic "Type mismatch!" := by decide
example : (step { size := 8, align := 8, hasDrop := true } (.remove 0 0 (.downcast 3)) sampleWorld).2 = .ok ["N"] := by
  decide

/-- **source tie**: the checked entry points run the run-time type check first (as the source has them on this run):
`push` and `insert` call `type_check` - the value's `value_typeid()` against the vector's `type_id`,
`assert_types_equal` - before `push_unchecked` / `insert_unchecked`; the typed view needs no check (it wraps a `T`). -/
theorem type_checks_are_the_source (len i : Nat) :
    Gen.Kernel.anyvec_push_trace len i = [.call "type_check" [], .call "push_unchecked" []] ∧
    Gen.Kernel.anyvec_insert_trace len i = [.call "type_check" [], .call "insert_unchecked" [i]] ∧
    Gen.Kernel.raw_type_check_trace len i = [.call "value_typeid" [], .call "assert_types_equal" []] ∧
    Gen.Kernel.typed_push_trace len i = [.call "AnyValueWrapper::new" [], .call "push_unchecked" []] ∧
    Gen.Kernel.typed_insert_trace len i = [.call "AnyValueWrapper::new" [], .call "insert_unchecked" [i]] :=
  ⟨(KernelTie.anyvec_ops_tie len i 0 0).1, (KernelTie.anyvec_ops_tie len i 0 0).2.1, KernelTie.type_check_tie len i,
   (KernelTie.typed_ops_tie len i 0 0).1, (KernelTie.typed_ops_tie len i 0 0).2.1⟩

/-- **source tie**: every checked downcast of the source on this run - of a value (`AnyValue::downcast_ref`, `downcast`,
`AnyValueMut::downcast_mut`), of an element handle (`ElementPointer::downcast_ref/mut`), of the whole vector
(`AnyVec::downcast_ref/mut`) - compares the run-time type id it carries with `TypeId::of::<T>()` of the requested type
and hands the value out exactly when they are equal; a value swap asserts equal type ids before touching anything. -/
theorem downcasts_are_the_source (sameType : Bool) :
    KernelTie.handsOut (Gen.Kernel.value_downcast_ref_trace sameType) = sameType ∧
    KernelTie.handsOut (Gen.Kernel.value_downcast_trace sameType) = sameType ∧
    KernelTie.handsOut (Gen.Kernel.value_downcast_mut_trace sameType) = sameType ∧
    KernelTie.handsOut (Gen.Kernel.element_downcast_ref_trace sameType) = sameType ∧
    KernelTie.handsOut (Gen.Kernel.element_downcast_mut_trace sameType) = sameType ∧
    KernelTie.handsOut (Gen.Kernel.anyvec_downcast_ref_trace sameType) = sameType ∧
    KernelTie.handsOut (Gen.Kernel.anyvec_downcast_mut_trace sameType) = sameType ∧
    Gen.Kernel.value_swap_trace sameType =
      [.call "value_typeid" [], .call "value_typeid" [], .call "assert_eq!" [], .call "swap_unchecked" []] := by
  have h := KernelTie.downcast_tie sameType
  exact ⟨h.2.2.2.2.2.2.2.1, h.2.2.2.2.2.2.2.2.1, h.2.2.2.2.2.2.2.2.2.1, h.2.2.2.2.2.2.2.2.2.2.1, h.2.2.2.2.2.2.2.2.2.2.2.1,
    h.2.2.2.2.2.2.2.2.2.2.2.2.1, h.2.2.2.2.2.2.2.2.2.2.2.2.2, (KernelTie.downcast_unchecked_tie sameType).2⟩

end C04
end AnyVec
